import UtilModel.Keyed.Refine3
/-!
# keyed — refinement of the key-set specification (C06): reference counting, all calls together
-/
namespace UtilModel.Keyed

/-- the once-flag of a reference is set exactly when it has left its key's list -/
def RefInv (s : St) : Prop := ∀ x, x ∈ s.refs → x.rel = !x.listed

theorem abs_setRefs (s : St) (l : List RefSt) :
    abs { s with refs := l } = { abs s with live := l.map absRef } := rfl

theorem key_setRefs (s : St) (l : List RefSt) (k : Nat) : ({ s with refs := l } : St).key k = s.key k := rfl

theorem failedOf_setRefs (s : St) (l : List RefSt) : failedOf { s with refs := l } = failedOf s := rfl

theorem dismiss_live (a : ASt) (l : List (Option Nat)) (f : Bool) (k : Nat) :
    dismiss { a with live := l } f k = { dismiss a f k with live := l } := rfl

theorem inSet_live (a : ASt) (l : List (Option Nat)) (k : Nat) : ({ a with live := l } : ASt).inSet k = a.inSet k := rfl

theorem addKeyRef_refines (s : St) (k : Nat) :
    abs (addKeyRef s k).1 = specStep (abs s) (failedOf s) (.addKeyRef k) ∧
    (addKeyRef s k).2.2 = .ref (abs s).live.length ((abs (addKeyRef s k).1).st k).data ((abs s).inSet k) := by
  have h := setKey_refines s k true
  unfold addKeyRef
  simp only []
  rw [abs_setRefs]
  refine ⟨?_, ?_⟩
  · simp only [specStep]
    have hlive : (setKey s k true).1.refs.map absRef = s.refs.map absRef := congrArg ASt.live h.1
    rw [h.1]
    simp [request, abs, absRef, hlive]
  · have hl : (abs s).live.length = s.refs.length := by simp [abs]
    rw [hl]
    have := h.2
    simp only [Prod.ext_iff] at this
    rw [this.1, this.2]

theorem refCount_abs (s : St) (k : Nat) : refCount s k = liveCount (abs s) k := by
  simp only [refCount, liveCount, abs, List.countP_map]
  congr 1
  funext x
  simp only [Function.comp, absRef]
  cases x.listed <;> simp

theorem release_refines (s : St) (r : Nat) (hr : RefInv s) :
    abs (release s r) = specRelease (abs s) (failedOf s) r := by
  unfold release specRelease
  have hget : (abs s).live[r]? = (s.refs[r]?).map absRef := by simp [abs]
  rw [hget]
  cases hx : s.refs[r]? with
  | none => rfl
  | some x =>
    have hinv := hr x (List.mem_of_getElem? hx)
    simp only [Option.map]
    by_cases hrel : x.rel = true
    · have hl : x.listed = false := by rw [hrel] at hinv; simpa using hinv.symm
      simp [hrel, absRef, hl]
    · have hrel' : x.rel = false := by simpa using hrel
      have hl : x.listed = true := by rw [hrel'] at hinv; simpa using hinv.symm
      simp only [hrel', Bool.false_eq_true, if_false, absRef, hl, if_true, Bool.true_and]
      have hs1 : abs { s with refs := s.refs.set r { x with rel := true, listed := false } } =
          { abs s with live := (abs s).live.set r none } := by
        rw [abs_setRefs]; simp [abs, List.map_set, absRef]
      rw [refCount_abs, hs1]
      split
      · have := (removeKey_refines { s with refs := s.refs.set r { x with rel := true, listed := false } } x.key
         ).1
        rw [this, hs1, failedOf_setRefs]
      · exact hs1

theorem rcRemoveKey_refines (s : St) (k : Nat) :
    abs (rcRemoveKey s k).1 = specStep (abs s) (failedOf s) (.rcRemoveKey k) ∧
    (rcRemoveKey s k).2 = (abs s).inSet k := by
  unfold rcRemoveKey
  simp only []
  have h := removeKey_refines { s with refs := s.refs.map fun x =>
    if x.key == k && x.listed then { x with rel := true, listed := false } else x } k
  refine ⟨?_, ?_⟩
  · rw [h.1, abs_setRefs, failedOf_setRefs]
    simp only [specStep]
    congr 2
    simp only [abs, List.map_map]
    congr 1
    funext x
    simp only [Function.comp, absRef]
    by_cases hl : x.listed = true <;> by_cases hk : x.key = k <;> simp [hl, hk]
  · rw [h.2, abs_setRefs]; rfl

/-! ## results of the read-only calls -/

theorem data_abs (s : St) (k : Nat) (r : Rec) (hr : s.key k = some r) :
    ((abs s).st k).data = r.data := by
  simp only [st_abs, hr, absKey]
  cases hdr : r.deferRemove with
  | none => rfl
  | some e => simp [KSt.data]

theorem core_isSome (r : Option Rec) : (core r).isSome = r.isSome := by cases r <;> rfl

theorem restartAll_count (L : List Nat) (s : St) (n : Nat) (hL : ∀ k, k ∈ L → (s.key k).isSome = true) :
    (L.foldl restartAllStep (s, n)).2 = n + if s.ctx.isSome then L.length else 0 := by
  induction L generalizing s n with
  | nil => simp
  | cons k L ih =>
    rw [List.foldl_cons]
    have T := touch_restartKey s k
    have hout := restartKey_out s k
    have hk := hL k (by simp)
    have hL' : ∀ k', k' ∈ L → ((restartKey s k).1.key k').isSome = true := by
      intro k' hk'
      rw [← core_isSome, T.quiet.core k', core_isSome]
      exact hL k' (by simp [hk'])
    simp only [restartAllStep]
    rw [ih _ _ hL', T.frame.ctx, hout]
    simp only [hk, Bool.true_and, List.length_cons]
    cases s.ctx <;> simp <;> omega

/-- **C06, one call**: the critical section of every API call acts on the abstract key set exactly
as the specification says, and returns the results the specification allows. -/
theorem isLive_of_ne (c : Option Nat) (h : c ≠ some 0) : isLive c = c.isSome := by
  cases c with
  | none => rfl
  | some n => cases n with
    | zero => exact absurd rfl h
    | succ n => rfl

/-- the calls that report whether a context is set have looked at it first (`preOp`): no cancelled root
context is installed when their critical section runs -/
def NoDead (s : St) : Op → Prop
  | .restartRoutine _ _ => s.ctx ≠ some 0
  | .restartAll _ => s.ctx ≠ some 0 ∨ keyList s = []
  | _ => True

theorem execOp_refines (s : St) (op : Op) (hr : RefInv s) (hnd : NoDead s op) :
    abs (execOp s op).1 = specStep (abs s) (failedOf s) op ∧
    SpecOut (abs s) (abs (execOp s op).1) op (execOp s op).2.2 := by
  have hin := inSet_abs s
  cases op with
  | setKey k st =>
    have h := setKey_refines s k st
    refine ⟨h.1, ?_⟩
    simp only [SpecOut, execOp]
    have := h.2; simp only [Prod.ext_iff] at this
    rw [this.1, this.2]
  | removeKey k =>
    have h := removeKey_refines s k
    exact ⟨h.1, by simp only [SpecOut, execOp, h.2]⟩
  | syncKeys ks restart =>
    refine ⟨syncKeys_refines s ks restart, ?_⟩
    simp only [SpecOut, execOp, syncKeys]
    refine ⟨_, _, rfl, ?_, ?_⟩
    · intro k; simp [List.mem_filter, mem_dedup, present, hin]
    · intro k; simp [List.mem_filter, mem_keyList, hin]
  | getKey k =>
    refine ⟨by cases hk : s.key k <;> simp [execOp, hk, specStep], ?_⟩
    simp only [SpecOut, hin]
    cases hk : s.key k with
    | none => simp [execOp, hk, st_abs, absKey, KSt.data]
    | some r => simp [execOp, hk, data_abs s k r hk]
  | getKeys =>
    exact ⟨rfl, keyList s, rfl, fun k => by rw [mem_keyList, hin]⟩
  | getKeysWithData =>
    refine ⟨rfl, _, rfl, ?_⟩
    intro k d
    simp only [List.mem_filterMap, mem_keyList, hin]
    constructor
    · rintro ⟨k', hk', hm⟩
      cases hr' : s.key k' with
      | none => simp [hr'] at hm
      | some r =>
        simp [hr'] at hm
        obtain ⟨rfl, rfl⟩ := hm
        exact ⟨by simp [hr'], (data_abs s k' r hr').symm⟩
    · rintro ⟨h1, h2⟩
      cases hr' : s.key k with
      | none => simp [hr'] at h1
      | some r =>
        refine ⟨k, by simp [hr'], ?_⟩
        simp [hr', h2, data_abs s k r hr']
  | resetRoutine k cs =>
    have h := resetKey_refines s k
    have hm := matchK_abs s cs k
    simp only [execOp, specStep, SpecOut]
    cases hmk : matchK s cs k
    · rw [hmk] at hm
      simp only [← hm, Bool.false_eq_true, if_false, Bool.and_false]
      exact ⟨trivial, by simp [present, hin]⟩
    · rw [hmk] at hm
      simp only [← hm, if_true, Bool.and_true]
      exact ⟨h.1, by rw [h.2]⟩
  | restartRoutine k cs =>
    have hm := matchK_abs s cs k
    simp only [execOp, specStep, SpecOut]
    cases hmk : matchK s cs k
    · rw [hmk] at hm
      simp only [← hm, Bool.false_eq_true, if_false, Bool.and_false]
      exact ⟨trivial, by simp [present, hin]⟩
    · rw [hmk] at hm
      simp only [← hm, if_true, Bool.and_true]
      refine ⟨abs_touch (touch_restartKey s k), ?_⟩
      have hl : (abs s).hasCtx = s.ctx.isSome := isLive_of_ne s.ctx hnd
      simp only [restartKey_out, hin, hl]
  | resetAll cs =>
    refine ⟨resetAll_refines s cs [], ?_⟩
    refine ⟨keyList s, nodup_keyList s, fun k => by rw [mem_keyList, hin], ?_⟩
    simp only [execOp]
    congr 2
    exact List.filter_congr (fun k _ => matchK_abs s cs k)
  | restartAll cs =>
    refine ⟨restartAll_abs s _ 0, ?_⟩
    refine ⟨keyList s, nodup_keyList s, fun k => by rw [mem_keyList, hin], ?_⟩
    simp only [execOp]
    rw [restartAll_count _ s 0 (fun k hk => (mem_keyList s k).1 (List.mem_filter.1 hk).1)]
    simp only [Nat.zero_add]
    have : (keyList s).filter (matchK s cs) = (keyList s).filter (specMatch (abs s) cs) :=
      List.filter_congr (fun k _ => matchK_abs s cs k)
    rw [this]
    rcases hnd with hnd | hnd
    · have hl : (abs s).hasCtx = s.ctx.isSome := isLive_of_ne s.ctx hnd
      rw [hl]
    · simp [hnd]
  | setContext c restart =>
    exact ⟨setContext_refines s c restart, rfl⟩
  | addKeyRef k => exact addKeyRef_refines s k
  | release r => exact ⟨release_refines s r hr, rfl⟩
  | rcRemoveKey k =>
    have h := rcRemoveKey_refines s k
    exact ⟨h.1, by simp only [SpecOut, execOp, h.2]⟩

end UtilModel.Keyed
