import UtilModel.Keyed.ObsC07r4
/-!
# keyed — `C07r_obs`: the simulation
-/
namespace UtilModel.Keyed
open UtilModel

structure Sim7r (s : St) (m : M7r) : Prop where
  o : Sim6 s m.o
  k : KInv s
  w : OwedInv s m

theorem epoch_le_step (s s' : St) (e : Ev) (hI : RInv s) (hs : step s e = some s') : s.epoch ≤ s'.epoch := by
  have h := (step_refines s s' e hI hs).1
  have h1 : (abs s').epoch = s'.epoch := rfl
  have h2 : (abs s).epoch = s.epoch := rfl
  rw [← h1, ← h2, h]
  cases e with
  | exec id =>
    simp only [specEv]
    split
    · rw [(specStep_de _ _ _).2]; exact Nat.le_refl _
    · exact Nat.le_refl _
  | advance => simp [specEv, specAdvance]
  | timerRemove k => exact Nat.le_refl _
  | config c => exact Nat.le_refl _
  | cancelroot => exact Nat.le_refl _
  | _ => exact Nat.le_refl _

theorem owedInv_nil (s : St) (o : M6o) : OwedInv s { o := o, owed := [] } :=
  ⟨fun h => absurd rfl h, fun h => absurd rfl h, fun p hp => by cases hp⟩

/-- the debts that are left after an event are still justified -/
theorem owed_next (s s' : St) (e : Ev) (m : M7r) (l' : List (Nat × Nat)) (o' : M6o) (hR : Sim7r s m)
    (hs : step s e = some s') (hcr : l' ≠ [] → e ≠ .cancelroot) (hsub : ∀ p, p ∈ l' → p ∈ m.owed)
    (hcb : ∀ j g i k d, e = .cbin j g i k d → ∀ p, p ∈ l' → p.1 ≠ k)
    (hinv : ∀ id op, e = .inv id op → isGetter op = false → l' = []) :
    OwedInv s' { o := o', owed := l' } := by
  by_cases hl : l' = []
  · subst hl; exact owedInv_nil s' o'
  · have hm : m.owed ≠ [] := by
      intro e0
      cases l' with
      | nil => exact hl rfl
      | cons p ps => have := hsub p (by simp); rw [e0] at this; cases this
    have hlive := hR.w.live hm
    have hget := hR.w.getters hm
    have hctx : s'.ctx = s.ctx :=
      ctx_step s s' e hs (hcr hl) (fun id op _ hp => hget id op (pendingOp_mem s.calls id op hp))
    refine ⟨fun _ => by rw [hctx]; exact hlive, ?_, ?_⟩
    · intro _ id op hin
      rcases invoked_step s s' e hs id op hin with h | h
      · exact hget id op h
      · cases hg : isGetter op with
        | true => rfl
        | false => exact absurd (hinv id op h hg) hl
    · intro p hp
      obtain ⟨hle, hst⟩ := hR.w.stage p (hsub p hp)
      refine ⟨Nat.le_trans hle (epoch_le_step s s' e hR.o.1.r hs), ?_⟩
      exact stage_step s s' e p.1 p.2 hR.k hlive hget hst hs (hcr hl)
        (fun j g i d he => hcb j g i p.1 d he p hp rfl)

/-- the backoff reports an armed timer: a new debt -/
theorem owed_boff (s : St) (k : Nat) (m : M7r) (o' : M6o) (hR : Sim7r s m) (hb : boffOk s k true = true)
    (hp : m.o.pending = []) (hc : m.o.hasCtx = some true) (hst : m.o.st k = .present) :
    OwedInv s { o := o', owed := (k, m.o.epoch) :: m.owed } := by
  have hcalls : s.calls = [] := by
    have := hR.o.2.ids; rw [hp] at this; simpa using this.symm
  obtain ⟨_, hK⟩ := hR.o.2.quiet hcalls
  have hlive : isLive s.ctx = true := hK.ctx true hc
  have hep : m.o.epoch = s.epoch := hK.epoch
  obtain ⟨r, hr, hdr⟩ := present_key s m.o k hK hst
  refine ⟨fun _ => hlive, fun _ id op hin => (by rw [hcalls] at hin; cases hin), ?_⟩
  intro p hpm
  rcases List.mem_cons.1 hpm with rfl | hpm
  · refine ⟨Nat.le_of_eq hep, ?_⟩
    simp only [boffOk, hr, Bool.and_eq_true] at hb
    obtain ⟨⟨⟨hex, _⟩, hlast⟩, hdef⟩ := hb
    cases hy : s.gens[r.gen]? with
    | none => simp [hy] at hlast
    | some y =>
      simp only [hy] at hlast
      cases hd : r.deferRetry with
      | none => simp [hd] at hdef
      | some e' =>
        simp only [hd, Bool.true_and, decide_eq_true_eq] at hdef
        exact ⟨r, y, hr, hdr, hy, Or.inl ⟨hex, ⟨e', hd, by rw [hep]; exact hdef⟩, by simpa using hlast⟩⟩
  · exact hR.w.stage p hpm

theorem not_late (s s' : St) (m : M7r) (hR : Sim7r s m) (hs : step s .quiesce = some s') :
    m.late .quiesce = false := by
  simp only [step] at hs
  split at hs
  · rename_i hq
    have hcalls : s.calls = [] := by
      simp only [quiet, Bool.and_eq_true, List.isEmpty_iff] at hq; exact hq.1.1
    obtain ⟨_, hK⟩ := hR.o.2.quiet hcalls
    cases hl : m.late .quiesce with
    | false => rfl
    | true =>
      exfalso
      simp only [M7r.late, List.any_eq_true, decide_eq_true_eq] at hl
      obtain ⟨p, hp, hlt⟩ := hl
      have := stage_not_quiet s p.1 p.2 (hR.w.stage p hp).2 (by have he : m.o.epoch = s.epoch := hK.epoch; rw [← he]; exact hlt)
      rw [hq] at this; cases this
  · simp at hs

end UtilModel.Keyed
