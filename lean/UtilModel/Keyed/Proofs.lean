import UtilModel.Keyed.Spec
/-!
# keyed — helper lemmas: finite maps, frame conditions of the helpers of the model
-/
namespace UtilModel.Keyed

theorem look_put {α : Type} (l : List (Option α)) (k k' : Nat) (v : Option α) :
    look (put l k v) k' = if k' = k then v else look l k' := by
  unfold look put
  rw [List.getElem?_set]
  by_cases h : k = k'
  · subst h
    have : k < l.length + (k + 1 - l.length) := by omega
    simp [this]
  · have h' : ¬ k' = k := fun e => h e.symm
    simp only [h, h', if_false]
    rw [List.getElem?_append]
    split
    · rfl
    · rename_i hlt
      rw [List.getElem?_replicate]
      split
      · simp [List.getElem?_eq_none (Nat.le_of_not_lt hlt)]
      · simp [List.getElem?_eq_none (Nat.le_of_not_lt hlt)]

theorem look_lt {α : Type} (l : List (Option α)) (k : Nat) (v : α) (h : look l k = some v) :
    k < l.length := by
  unfold look at h
  rcases Nat.lt_or_ge k l.length with h' | h'
  · exact h'
  · simp [List.getElem?_eq_none h'] at h

@[simp] theorem key_setRec (s : St) (k k' : Nat) (v : Option Rec) :
    (setRec s k v).key k' = if k' = k then v else s.key k' := by
  simp [St.key, setRec, look_put]

@[simp] theorem ctors_setRec (s : St) (k k' : Nat) (v : Option Rec) :
    (setRec s k v).ctors k' = s.ctors k' := rfl

@[simp] theorem key_modG (s : St) (g : Nat) (f : G → G) (k : Nat) : (modG s g f).key k = s.key k := rfl
@[simp] theorem key_modInst (s : St) (g i : Nat) (f : Inst → Inst) (k : Nat) :
    (modInst s g i f).key k = s.key k := rfl
@[simp] theorem key_cancelOpt (s : St) (g : Nat) (o : Option Nat) (k : Nat) :
    (cancelOpt s g o).key k = s.key k := by cases o <;> rfl
@[simp] theorem ctors_cancelOpt (s : St) (g : Nat) (o : Option Nat) (k : Nat) :
    (cancelOpt s g o).ctors k = s.ctors k := by cases o <;> rfl

/-- the fields the abstraction reads besides the key map -/
structure Frame (s s' : St) : Prop where
  cfg : s'.cfg = s.cfg
  ctx : s'.ctx = s.ctx
  epoch : s'.epoch = s.epoch
  refs : s'.refs = s.refs
  call : s'.calls = s.calls
  runs : s'.runs = s.runs

theorem Frame.refl (s : St) : Frame s s := ⟨rfl, rfl, rfl, rfl, rfl, rfl⟩
theorem Frame.trans {a b c : St} (h1 : Frame a b) (h2 : Frame b c) : Frame a c :=
  ⟨h2.cfg.trans h1.cfg, h2.ctx.trans h1.ctx, h2.epoch.trans h1.epoch, h2.refs.trans h1.refs,
   h2.call.trans h1.call, h2.runs.trans h1.runs⟩

theorem frame_modG (s : St) (g : Nat) (f : G → G) : Frame s (modG s g f) := ⟨rfl, rfl, rfl, rfl, rfl, rfl⟩
theorem frame_cancelOpt (s : St) (g : Nat) (o : Option Nat) : Frame s (cancelOpt s g o) := by
  cases o <;> exact ⟨rfl, rfl, rfl, rfl, rfl, rfl⟩
theorem frame_setRec (s : St) (k : Nat) (v : Option Rec) : Frame s (setRec s k v) :=
  ⟨rfl, rfl, rfl, rfl, rfl, rfl⟩

/-- what the abstraction reads of a record -/
def core (r : Option Rec) : Option (Nat × Option Nat) := r.map fun r => (r.data, r.deferRemove)

/-- `s'` differs from `s` at most in the run-time fields of the record of `k` -/
structure Touch (k : Nat) (s s' : St) : Prop where
  frame : Frame s s'
  other : ∀ k', k' ≠ k → s'.key k' = s.key k'
  same : core (s'.key k) = core (s.key k)
  ctors : ∀ k', s'.ctors k' = s.ctors k'

theorem Touch.refl (k : Nat) (s : St) : Touch k s s := ⟨Frame.refl s, fun _ _ => rfl, rfl, fun _ => rfl⟩
theorem Touch.trans {k : Nat} {a b c : St} (h1 : Touch k a b) (h2 : Touch k b c) : Touch k a c :=
  ⟨h1.frame.trans h2.frame, fun k' hk => (h2.other k' hk).trans (h1.other k' hk), h2.same.trans h1.same,
   fun k' => (h2.ctors k').trans (h1.ctors k')⟩

theorem touch_cancelOpt (k : Nat) (s : St) (g : Nat) (o : Option Nat) : Touch k s (cancelOpt s g o) :=
  ⟨frame_cancelOpt s g o, fun _ _ => key_cancelOpt .., by simp, fun _ => ctors_cancelOpt ..⟩

theorem touch_modG (k : Nat) (s : St) (g : Nat) (f : G → G) : Touch k s (modG s g f) :=
  ⟨frame_modG s g f, fun _ _ => rfl, rfl, fun _ => rfl⟩

theorem touch_setRec (k : Nat) (s : St) (r r' : Rec) (h : s.key k = some r)
    (hd : r'.data = r.data) (hr : r'.deferRemove = r.deferRemove) : Touch k s (setRec s k (some r')) :=
  ⟨frame_setRec .., fun k' hk => by simp [hk], by simp [core, h, hd, hr], fun _ => rfl⟩

theorem touch_mod_set (k : Nat) (s : St) (g : Nat) (f : G → G) (r r' : Rec) (h : s.key k = some r)
    (hd : r'.data = r.data) (hr : r'.deferRemove = r.deferRemove) :
    Touch k s (setRec (modG s g f) k (some r')) :=
  (touch_modG k s g f).trans (touch_setRec k _ r r' (by simpa using h) hd hr)

theorem touch_start (s : St) (k : Nat) (r : Rec) (force : Bool) (h : s.key k = some r) :
    Touch k s (start s k r force) := by
  unfold start
  split
  · exact Touch.refl k s
  · split
    · exact Touch.refl k s
    · have h1 := touch_cancelOpt k s r.gen r.cancelOf
      simp only []
      split
      · exact h1
      · exact h1.trans (touch_mod_set k _ _ _ r _ (by simp [h]) rfl rfl)

theorem touch_startKey (s : St) (k : Nat) (force : Bool) : Touch k s (startKey s k force) := by
  unfold startKey
  split
  · rename_i h; exact touch_start s k _ force h
  · exact Touch.refl k s

/-! ## the abstraction only reads `core` -/

def absCore : Option (Nat × Option Nat) → KSt
  | none => .absent
  | some (d, none) => .present d
  | some (d, some e) => .leaving d e

theorem absKey_core (r : Option Rec) : absKey r = absCore (core r) := by
  cases r with
  | none => rfl
  | some r =>
    simp only [absKey, core, Option.map, absCore]
    cases r.deferRemove <;> rfl

theorem abs_eq (s s' : St) (hf : Frame s s') (hk : ∀ k, core (s'.key k) = core (s.key k))
    (hc : ∀ k, s'.ctors k = s.ctors k) : abs s' = abs s := by
  have h1 : (fun k => absKey (s'.key k)) = fun k => absKey (s.key k) := by
    funext k; rw [absKey_core, absKey_core, hk]
  have h2 : s'.ctors = s.ctors := funext hc
  unfold abs delayOn
  rw [h1, h2, hf.cfg, hf.ctx, hf.epoch, hf.refs]

theorem abs_touch {k : Nat} {s s' : St} (h : Touch k s s') : abs s' = abs s := by
  apply abs_eq s s' h.frame _ h.ctors
  intro k'
  by_cases hk : k' = k
  · subst hk; exact h.same
  · rw [h.other k' hk]

theorem failedOf_touch {k : Nat} {s s' : St} (h : Touch k s s') (k' : Nat) (hk : k' ≠ k) :
    failedOf s' k' = failedOf s k' := by
  simp [failedOf, h.other k' hk]

/-- a change of one key -/
theorem abs_upd (s s' : St) (hf : Frame s s') (k : Nat) (v : KSt) (n : Nat)
    (hk : ∀ k', k' ≠ k → core (s'.key k') = core (s.key k')) (hv : absKey (s'.key k) = v)
    (hc : ∀ k', k' ≠ k → s'.ctors k' = s.ctors k') (hn : s'.ctors k = n) :
    abs s' = { abs s with st := upd (abs s).st k v, nctor := upd (abs s).nctor k n } := by
  have h1 : (fun k' => absKey (s'.key k')) = upd (fun k' => absKey (s.key k')) k v := by
    funext k'
    simp only [upd]
    by_cases h : k' = k
    · subst h; simp [hv]
    · simp only [h, if_false]; rw [absKey_core, absKey_core, hk k' h]
  have h2 : s'.ctors = upd s.ctors k n := by
    funext k'
    simp only [upd]
    by_cases h : k' = k
    · subst h; simp [hn]
    · simp [h, hc k' h]
  unfold abs delayOn
  rw [h1, h2, hf.cfg, hf.ctx, hf.epoch, hf.refs]

/-! ## a cancelled root context is forgotten (`preOp`) -/

theorem dropDead_eq (s : St) : dropDead s = s ∨ (s.ctx = some 0 ∧ dropDead s = { s with ctx := none }) := by
  unfold dropDead
  split
  · rename_i h; exact Or.inr ⟨h, rfl⟩
  · exact Or.inl rfl

theorem preOp_eq (s : St) (op : Op) : preOp s op = s ∨ (s.ctx = some 0 ∧ preOp s op = { s with ctx := none }) := by
  cases op with
  | syncKeys _ _ => exact dropDead_eq s
  | resetRoutine _ _ => exact dropDead_eq s
  | restartRoutine _ _ => exact dropDead_eq s
  | resetAll _ =>
    show (if (keyList s).isEmpty = true then s else dropDead s) = s ∨
      (s.ctx = some 0 ∧ (if (keyList s).isEmpty = true then s else dropDead s) = { s with ctx := none })
    split
    · exact Or.inl rfl
    · exact dropDead_eq s
  | restartAll _ =>
    show (if (keyList s).isEmpty = true then s else dropDead s) = s ∨
      (s.ctx = some 0 ∧ (if (keyList s).isEmpty = true then s else dropDead s) = { s with ctx := none })
    split
    · exact Or.inl rfl
    · exact dropDead_eq s
  | _ => exact Or.inl rfl

theorem dropDead_ctx (s : St) : (dropDead s).ctx ≠ some 0 := by
  unfold dropDead
  split
  · simp
  · rename_i h; exact h

theorem abs_noCtx (s : St) (h : s.ctx = some 0) : abs { s with ctx := none } = abs s := by
  have e : isLive s.ctx = false := by rw [h]; rfl
  unfold abs
  rw [e]
  rfl

theorem abs_preOp (s : St) (op : Op) : abs (preOp s op) = abs s := by
  rcases preOp_eq s op with h | ⟨h1, h2⟩
  · rw [h]
  · rw [h2]; exact abs_noCtx s h1

theorem preOp_keys (s : St) (op : Op) : (preOp s op).keys = s.keys := by
  rcases preOp_eq s op with h | ⟨_, h2⟩
  · rw [h]
  · rw [h2]

theorem preOp_fields (s : St) (op : Op) :
    (preOp s op).gens = s.gens ∧ (preOp s op).refs = s.refs ∧ (preOp s op).calls = s.calls ∧
    (preOp s op).runs = s.runs ∧ (preOp s op).cfg = s.cfg ∧ (preOp s op).epoch = s.epoch ∧
    (preOp s op).nctor = s.nctor := by
  rcases preOp_eq s op with h | ⟨_, h2⟩
  · rw [h]; simp
  · rw [h2]; simp

theorem preOp_key (s : St) (op : Op) (k : Nat) : (preOp s op).key k = s.key k := by
  simp [St.key, preOp_keys]

/-! ## cancelling every instance (`env cancelroot`) changes nothing but the instances' flags -/

/-- `s'` differs from `s` at most in `gens` -/
structure SameBut (s s' : St) : Prop where
  keys : s'.keys = s.keys
  ctx : s'.ctx = s.ctx
  cfg : s'.cfg = s.cfg
  epoch : s'.epoch = s.epoch
  refs : s'.refs = s.refs
  calls : s'.calls = s.calls
  runs : s'.runs = s.runs
  nctor : s'.nctor = s.nctor
  len : s'.gens.length = s.gens.length

theorem SameBut.refl (s : St) : SameBut s s := ⟨rfl, rfl, rfl, rfl, rfl, rfl, rfl, rfl, rfl⟩
theorem SameBut.trans {a b c : St} (h1 : SameBut a b) (h2 : SameBut b c) : SameBut a c :=
  ⟨h2.keys.trans h1.keys, h2.ctx.trans h1.ctx, h2.cfg.trans h1.cfg, h2.epoch.trans h1.epoch, h2.refs.trans h1.refs,
   h2.calls.trans h1.calls, h2.runs.trans h1.runs, h2.nctor.trans h1.nctor, h2.len.trans h1.len⟩

theorem sameBut_cancelOpt (s : St) (g : Nat) (o : Option Nat) : SameBut s (cancelOpt s g o) := by
  cases o with
  | none => exact SameBut.refl s
  | some i => exact ⟨rfl, rfl, rfl, rfl, rfl, rfl, rfl, rfl, by simp [cancelOpt, modInst, modG]⟩

theorem foldl_sameBut (f : St → Nat → St) (hf : ∀ s i, SameBut s (f s i)) (L : List Nat) (s : St) :
    SameBut s (L.foldl f s) := by
  induction L generalizing s with
  | nil => exact SameBut.refl s
  | cons i L ih => exact (hf s i).trans (ih (f s i))

theorem sameBut_cancelGen (s : St) (g : Nat) : SameBut s (cancelGen s g) :=
  foldl_sameBut _ (fun s i => sameBut_cancelOpt s g (some i)) _ s

theorem sameBut_cancelAll (s : St) : SameBut s (cancelAll s) :=
  foldl_sameBut _ sameBut_cancelGen _ s

theorem abs_sameBut {s s' : St} (h : SameBut s s') : abs s' = abs s := by
  unfold abs delayOn St.key St.ctors
  rw [h.keys, h.ctx, h.cfg, h.epoch, h.refs, h.nctor]

theorem key_sameBut {s s' : St} (h : SameBut s s') (k : Nat) : s'.key k = s.key k := by
  simp [St.key, h.keys]

/-! ## creating records -/

theorem key_newRec (s : St) (k g k' : Nat) :
    (newRec s k g).key k' =
      if k' = k then some { id := s.nrec, gen := g, data := s.ctors k + 1, hasFn := !s.nilNext.contains k, born := s.epoch }
      else s.key k' := by
  simp [St.key, newRec, look_put]

theorem ctors_newRec (s : St) (k g k' : Nat) :
    (newRec s k g).ctors k' = if k' = k then s.ctors k + 1 else s.ctors k' := by
  simp only [St.ctors, newRec, look_put]
  split <;> simp

theorem frame_newRec (s : St) (k g : Nat) : Frame s (newRec s k g) := ⟨rfl, rfl, rfl, rfl, rfl, rfl⟩

theorem key_createKey (s : St) (k k' : Nat) :
    (createKey s k).key k' =
      if k' = k then some { id := s.nrec, gen := s.gens.length, data := s.ctors k + 1, hasFn := !s.nilNext.contains k, born := s.epoch }
      else s.key k' := by
  simp only [createKey, key_newRec]; rfl

theorem ctors_createKey (s : St) (k k' : Nat) :
    (createKey s k).ctors k' = if k' = k then s.ctors k + 1 else s.ctors k' := by
  simp only [createKey, ctors_newRec]; rfl

theorem frame_createKey (s : St) (k : Nat) : Frame s (createKey s k) := ⟨rfl, rfl, rfl, rfl, rfl, rfl⟩

theorem inSet_abs (s : St) (k : Nat) : (abs s).inSet k = (s.key k).isSome := by
  simp only [ASt.inSet, abs]
  cases hr : s.key k with
  | none => rfl
  | some r =>
    simp only [absKey]
    cases hd : r.deferRemove <;> rfl

/-! ## folds over distinct keys -/

theorem foldl_local {A : Type} (σ : St → Nat → A) (f : St → Nat → St) (φ : Nat → A → A) (I : St → Prop)
    (hI : ∀ s k, I s → I (f s k))
    (h : ∀ s k k', I s → σ (f s k) k' = if k' = k then φ k (σ s k) else σ s k')
    (L : List Nat) (nd : L.Nodup) (s : St) (hs : I s) (k' : Nat) :
    σ (L.foldl f s) k' = if k' ∈ L then φ k' (σ s k') else σ s k' := by
  induction L generalizing s with
  | nil => simp
  | cons k L ih =>
    rw [List.nodup_cons] at nd
    rw [List.foldl_cons, ih nd.2 (f s k) (hI s k hs), h s k k' hs]
    by_cases hk : k' = k
    · subst hk; simp [nd.1]
    · simp [hk]

theorem foldl_inv {I : St → Prop} (f : St → Nat → St) (hI : ∀ s k, I s → I (f s k))
    (L : List Nat) (s : St) (hs : I s) : I (L.foldl f s) := by
  induction L generalizing s with
  | nil => exact hs
  | cons k L ih => exact ih (f s k) (hI s k hs)

theorem foldl_frame (f : St → Nat → St) (hf : ∀ s k, Frame s (f s k)) (L : List Nat) (s : St) :
    Frame s (L.foldl f s) := by
  induction L generalizing s with
  | nil => exact Frame.refl s
  | cons k L ih => exact (hf s k).trans (ih (f s k))

theorem nodup_dedup (ks : List Nat) : (dedup ks).Nodup := by
  induction ks with
  | nil => simp [dedup]
  | cons k ks ih =>
    simp only [dedup, List.nodup_cons]
    exact ⟨by simp, List.Pairwise.filter _ ih⟩

theorem mem_dedup (ks : List Nat) (k : Nat) : k ∈ dedup ks ↔ k ∈ ks := by
  induction ks with
  | nil => simp [dedup]
  | cons x ks ih =>
    simp only [dedup, List.mem_cons, List.mem_filter, ih]
    by_cases h : k = x <;> simp [h]

theorem nodup_keyList (s : St) : (keyList s).Nodup := List.Pairwise.filter _ List.nodup_range

theorem mem_keyList (s : St) (k : Nat) : k ∈ keyList s ↔ (s.key k).isSome = true := by
  simp only [keyList, List.mem_filter, List.mem_range, present]
  constructor
  · exact fun h => h.2
  · intro h
    refine ⟨?_, h⟩
    cases hr : s.key k with
    | none => simp [hr] at h
    | some r => exact look_lt _ _ _ hr

/-- first components of folds that also collect constructor calls / counters -/
theorem foldl_fst {β : Type} (g : St × β → Nat → St × β) (f : St → Nat → St)
    (h : ∀ p k, (g p k).1 = f p.1 k) (L : List Nat) (p : St × β) :
    (L.foldl g p).1 = L.foldl f p.1 := by
  induction L generalizing p with
  | nil => rfl
  | cons k L ih => rw [List.foldl_cons, List.foldl_cons, ih, h]

end UtilModel.Keyed
