import UtilModel.Keyed.C07Dead
/-!
# keyed — `Grow` for every event; dead generations stay dead and get no new instance
-/
namespace UtilModel.Keyed
open UtilModel

theorem grow_modInst (s : St) (g i : Nat) (f : Inst → Inst) : Grow s (modInst s g i f) :=
  grow_modG s g _ (fun _ _ => ⟨rfl, Or.inl (by simp)⟩)

theorem grow_recordInst (s : St) (g i : Nat) (x : Inst) (k : Nat) : Grow s (recordInst s g i x k) := by
  unfold recordInst
  simp only []
  have h0 := grow_modInst s g i fun y => { y with st := .recorded }
  cases hk : s.key k with
  | none => exact h0
  | some r =>
    simp only []
    split
    · have h1 : Grow (modInst s g i fun y => { y with st := .recorded })
          (modG (modInst s g i fun y => { y with st := .recorded }) g fun y => { y with last := none }) :=
        grow_modG _ g _ (fun _ _ => ⟨rfl, Or.inl rfl⟩)
      refine h0.trans (h1.trans ?_)
      apply grow_setRec _ k r _ (by simpa using hk)
      cases retryCfg s with
      | none => rfl
      | some n =>
        simp only []
        split
        · rfl
        · split <;> rfl
    · exact h0

theorem grow_cancelGen (s : St) (g : Nat) : Grow s (cancelGen s g) :=
  foldl_grow (fun s i => cancelOpt s g (some i)) (fun s i => grow_cancelOpt s g (some i)) _ s

theorem grow_cancelAll (s : St) : Grow s (cancelAll s) := foldl_grow cancelGen grow_cancelGen _ s

theorem grow_step (s s' : St) (e : Ev) (hs : step s e = some s') : Grow s s' := by
  cases e with
  | cancelroot =>
    simp only [step] at hs
    split at hs
    · simp at hs; subst hs
      exact (grow_congr (s := s) (s' := { s with ctx := some 0 }) rfl rfl).trans (grow_cancelAll _)
    · simp at hs
  | nilnext k =>
    simp only [step] at hs
    split at hs
    · simp at hs; subst hs; exact grow_congr rfl rfl
    · simp at hs
  | config c =>
    simp only [step] at hs
    split at hs
    · simp at hs; subst hs; exact grow_congr rfl rfl
    · simp at hs
  | inv id op =>
    simp only [step] at hs
    split at hs
    · simp at hs
    · split at hs
      · simp at hs; subst hs; exact grow_congr rfl rfl
      · simp at hs
  | exec id =>
    simp only [step] at hs
    split at hs
    · rename_i op hc
      simp at hs; subst hs
      exact (grow_congr (preOp_keys s op) (preOp_fields s op).1).trans
        ((grow_execOp (preOp s op) op).trans (grow_congr rfl rfl))
    · simp at hs
  | ctor k d =>
    simp only [step] at hs
    split at hs
    · simp at hs; subst hs; exact grow_congr rfl rfl
    · simp at hs
  | ret id res =>
    simp only [step] at hs
    split at hs
    · simp at hs; subst hs; exact grow_congr rfl rfl
    · simp at hs
  | proceed g i =>
    simp only [step] at hs
    obtain ⟨y, x, x', _, _, _, rfl⟩ := instStep_some _ _ _ _ _ hs
    exact grow_modInst s g i _
  | bail g i =>
    simp only [step] at hs
    obtain ⟨y, x, x', _, _, _, rfl⟩ := instStep_some _ _ _ _ _ hs
    exact grow_modInst s g i _
  | cbin j g i k d =>
    simp only [step] at hs
    split at hs
    · split at hs
      · simp at hs
      · split at hs
        · simp at hs
        · split at hs
          · simp at hs; subst hs
            exact (grow_modInst s g i _).trans (grow_congr rfl rfl)
          · simp at hs
    · simp at hs
  | cbout j o =>
    simp only [step] at hs
    split at hs
    · simp at hs
    · rename_i g i _
      obtain ⟨y, x, x', _, _, _, rfl⟩ := instStep_some _ _ _ _ _ hs
      exact grow_modInst s g i _
  | closeExit g i =>
    simp only [step] at hs
    obtain ⟨y, x, x', _, _, _, rfl⟩ := instStep_some _ _ _ _ _ hs
    exact grow_modInst s g i _
  | record g i =>
    simp only [step] at hs
    split at hs
    · simp at hs
    · split at hs
      · simp at hs
      · split at hs
        · simp at hs; subst hs; exact grow_recordInst s g i _ _
        · simp at hs
  | timerRemove k =>
    simp only [step] at hs
    split at hs
    · split at hs
      · simp at hs; subst hs; exact grow_removeNow s k _
      · simp at hs
    · simp at hs
  | timerRetry k =>
    simp only [step] at hs
    split at hs
    · rename_i r hr
      split at hs
      · simp at hs; subst hs
        have h1 := grow_setRec s k r { r with deferRetry := none } hr rfl
        split
        · exact h1.trans (grow_startKey _ k true)
        · exact h1
      · simp at hs
    · simp at hs
  | advance =>
    simp only [step] at hs
    split at hs
    · simp at hs; subst hs; exact grow_congr rfl rfl
    · simp at hs
  | quiesce =>
    simp only [step] at hs
    split at hs
    · simp at hs; subst hs; exact Grow.refl s
    · simp at hs
  | boff k b =>
    simp only [step] at hs
    split at hs
    · simp at hs; subst hs; exact Grow.refl s
    · simp at hs
  | probe j c =>
    simp only [step] at hs
    split at hs
    · simp at hs
    · split at hs
      · split at hs
        · simp at hs; subst hs; exact Grow.refl s
        · simp at hs
      · simp at hs

theorem grow_run (s s' : St) (es : List Ev) (hr : model.run s es = some s') : Grow s s' := by
  induction es generalizing s with
  | nil => simp [OLTS.run] at hr; subst hr; exact Grow.refl s
  | cons e es ih =>
    simp only [OLTS.run] at hr
    cases hst : model.step s e with
    | none => simp [hst] at hr
    | some s1 =>
      simp [hst] at hr
      exact (grow_step s s1 e hst).trans (ih s1 hr)

/-- a generation without a record in the map never gets one again and never gets a new instance -/
theorem dead_stays (s s' : St) (h : Grow s s') (g : Nat) (y : G) (hy : s.gens[g]? = some y)
    (hd : ¬ Alive s g) :
    ¬ Alive s' g ∧ ∃ y', s'.gens[g]? = some y' ∧ y'.key = y.key ∧ y'.insts.length = y.insts.length := by
  refine ⟨?_, ?_⟩
  · intro ha
    rcases h.alive g ha with h1 | h1
    · exact hd h1
    · exact absurd (lt_of_get? hy) (Nat.not_lt.2 h1)
  · obtain ⟨y', hy', hk, hl⟩ := h.gens g y hy
    rcases hl with hl | hl
    · exact ⟨y', hy', hk, hl⟩
    · exact absurd hl hd

end UtilModel.Keyed
