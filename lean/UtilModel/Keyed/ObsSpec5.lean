import UtilModel.Keyed.ObsSpec4
/-!
# keyed — soundness of the rules of `monC06o`: SyncKeys, ResetAllRoutines, RestartAllRoutines
-/
namespace UtilModel.Keyed
open UtilModel

theorem ret_syncKeys (m : M6o) (a : ASt) (f : Nat → Bool) (ks : List Nat) (rs : Bool) (res : Res)
    (hK : Know m a) (hout : SpecOut a (specStep a f (.syncKeys ks rs)) (.syncKeys ks rs) res) :
    ∃ m', m.ret (.syncKeys ks rs) res = some m' ∧ Know m' (specStep a f (.syncKeys ks rs)) ∧ m'.pending = m.pending := by
  simp only [SpecOut] at hout
  obtain ⟨ad, rm, rfl, had, hrm⟩ := hout
  have hcheck : (ad.all (fun k => ks.contains k) && rm.all (fun k => !ks.contains k) &&
       ks.all (fun k => ((m.st k).obs (!ad.contains k)).isSome) &&
       rm.all (fun k => ((m.st k).obs true).isSome) &&
       m.known.all (fun k => ks.contains k || rm.contains k || ((m.st k).obs false).isSome)) = true := by
    simp only [Bool.and_eq_true, List.all_eq_true]
    refine ⟨⟨⟨⟨?_, ?_⟩, ?_⟩, ?_⟩, ?_⟩
    · intro k hk; simpa using ((had k).1 hk).1
    · intro k hk; simpa using ((hrm k).1 hk).2
    · intro k hk
      obtain ⟨x, hx, _⟩ := obs_sound a (m.st k) k (hK.st k)
      have : (!ad.contains k) = a.inSet k := by
        cases hin : a.inSet k with
        | true =>
          have : k ∉ ad := fun h => by have := ((had k).1 h).2; rw [hin] at this; cases this
          simpa using this
        | false => simpa using (had k).2 ⟨hk, hin⟩
      rw [this, hx]; rfl
    · intro k hk
      obtain ⟨x, hx, _⟩ := obs_sound a (m.st k) k (hK.st k)
      rw [((hrm k).1 hk).1] at hx
      rw [hx]; rfl
    · intro k _
      by_cases h1 : k ∈ ks
      · simp [h1]
      · by_cases h2 : k ∈ rm
        · simp [h2]
        · have hin : a.inSet k = false := by
            cases hin : a.inSet k with
            | false => rfl
            | true => exact absurd ((hrm k).2 ⟨hin, h1⟩) h2
          obtain ⟨x, hx, _⟩ := obs_sound a (m.st k) k (hK.st k)
          rw [hin] at hx
          simp [hx]
  simp only [M6o.ret, hcheck, if_true]
  refine ⟨_, rfl, ?_, rfl⟩
  refine ⟨hK.delay, hK.epoch, hK.ctx, ?_, ?_, hK.live, hK.rkey⟩
  · intro k
    have hstk : (specStep a f (.syncKeys ks rs)).st k = if ks.contains k then reqSt a k else disSt a (f k) k := rfl
    by_cases h1 : k ∈ ks
    · have hc : ks.contains k = true := by simpa using h1
      simp only [hc, if_true] at hstk ⊢
      obtain ⟨d, hd⟩ := reqSt_present a k
      exact ⟨d, by rw [hstk, hd]⟩
    · have hc : ks.contains k = false := by simpa using h1
      simp only [hc, Bool.false_eq_true, if_false] at hstk ⊢
      have hst : (specStep a f (.syncKeys ks rs)).st k = (dismiss a (f k) k).st k := by
        rw [hstk]; simp [dismiss, upd]
      by_cases h2 : k ∈ rm
      · have hc2 : rm.contains k = true := by simpa using h2
        simp only [hc2, if_true]
        have hin := ((hrm k).1 h2).1
        obtain ⟨x, hx, hxk⟩ := obs_sound a (m.st k) k (hK.st k)
        rw [hin] at hx
        rw [hx]
        have := dis_sound a (f k) x k hxk hin m.delay m.epoch hK.delay hK.epoch
        exact knowK_other (dismiss a (f k) k) _ _ k hst this
      · have hc2 : rm.contains k = false := by simpa using h2
        simp only [hc2, Bool.false_eq_true, if_false]
        have hin : a.inSet k = false := by
          cases hin : a.inSet k with
          | false => rfl
          | true => exact absurd ((hrm k).2 ⟨hin, h1⟩) h2
        show (specStep a f (.syncKeys ks rs)).st k = .absent
        rw [hstk]; simp [disSt, absent_of_notIn a k hin]
  · intro k n hn
    have hnk : (specStep a f (.syncKeys ks rs)).nctor k = if ks.contains k then reqCtor a k else a.nctor k := rfl
    rw [hnk]
    simp only [] at hn
    by_cases h1 : k ∈ ks
    · have hc : ks.contains k = true := by simpa using h1
      simp only [hc, if_true, reqCtor]
      by_cases h2 : k ∈ ad
      · have hc2 : ad.contains k = true := by simpa using h2
        simp only [hc2, if_true] at hn
        have hin := ((had k).1 h2).2
        cases hcn : m.cnt k with
        | none => simp [hcn] at hn
        | some n0 => simp [hcn] at hn; simp [hin, hK.cnt k n0 hcn, hn]
      · have hc2 : ad.contains k = false := by simpa using h2
        simp only [hc2, Bool.false_eq_true, if_false] at hn
        have hin : a.inSet k = true := by
          cases hin : a.inSet k with
          | true => rfl
          | false => exact absurd ((had k).2 ⟨h1, hin⟩) h2
        simp [hin, hK.cnt k n hn]
    · have hc : ks.contains k = false := by simpa using h1
      have h2 : k ∉ ad := fun h => h1 ((had k).1 h).1
      have hc2 : ad.contains k = false := by simpa using h2
      simp only [hc2, Bool.false_eq_true, if_false] at hn
      simp only [hc, Bool.false_eq_true, if_false]
      exact hK.cnt k n hn

theorem length_le_of_nodup_subset (l ks : List Nat) (hn : l.Nodup) (hs : ∀ x, x ∈ l → x ∈ ks) :
    l.length ≤ ks.length := by
  induction l generalizing ks with
  | nil => simp
  | cons x l ih =>
    rw [List.nodup_cons] at hn
    have hx := hs x (by simp)
    have := ih (ks.erase x) hn.2 (fun y hy => by
      have hne : y ≠ x := fun e => hn.1 (e ▸ hy)
      exact (List.mem_erase_of_ne hne).2 (hs y (by simp [hy])))
    rw [List.length_erase_of_mem hx] at this
    have hpos : 0 < ks.length := List.length_pos_of_mem hx
    simp only [List.length_cons]
    omega

theorem present_count (m : M6o) (a : ASt) (ks : List Nat) (hK : Know m a) (hnd : ks.Nodup)
    (hks : ∀ k, k ∈ ks ↔ a.inSet k = true) :
    ((dedup m.known).filter fun k => m.st k == .present).length ≤ ks.length := by
  apply length_le_of_nodup_subset _ ks (List.Pairwise.filter _ (nodup_dedup m.known))
  intro k hk
  simp only [List.mem_filter, beq_iff_eq] at hk
  have := hK.st k
  rw [hk.2] at this
  obtain ⟨d, hd⟩ := this
  exact (hks k).2 (inSet_of_present a k d hd)

theorem specMatch_nil (a : ASt) (k : Nat) : specMatch a [] k = true := by simp [specMatch, condsMatch]

theorem chk_counts (a : ASt) (cs : List Cond) (ks : List Nat) :
    (if cs.isEmpty then (ks.filter (specMatch a cs)).length == ks.length
     else decide ((ks.filter (specMatch a cs)).length ≤ ks.length)) = true := by
  split
  · rename_i he
    have : cs = [] := by simpa using he
    subst this
    have : ks.filter (specMatch a []) = ks := List.filter_eq_self.2 (fun k _ => specMatch_nil a k)
    simp [this]
  · simp [List.length_filter_le]

theorem ret_resetAll (m : M6o) (a : ASt) (f : Nat → Bool) (cs : List Cond) (res : Res) (hK : Know m a) (hI : SpecInv a)
    (hout : SpecOut a (specStep a f (.resetAll cs)) (.resetAll cs) res) :
    ∃ m', m.ret (.resetAll cs) res = some m' ∧ Know m' (specStep a f (.resetAll cs)) ∧ m'.pending = m.pending := by
  simp only [SpecOut] at hout
  obtain ⟨ks, hnd, hks, rfl⟩ := hout
  have hc := present_count m a ks hK hnd hks
  have hc' : ((if cs.isEmpty then (ks.filter (specMatch a cs)).length == ks.length
      else decide ((ks.filter (specMatch a cs)).length ≤ ks.length)) &&
      decide (((dedup m.known).filter fun k => m.st k == .present).length ≤ ks.length)) = true := by
    rw [chk_counts a cs ks]; simp [hc]
  simp only [M6o.ret, hc', if_true]
  refine ⟨_, rfl, ?_, rfl⟩
  refine ⟨hK.delay, hK.epoch, hK.ctx, ?_, ?_, hK.live, hK.rkey⟩
  · intro k
    simp only [specStep]
    have hk := hK.st k
    cases hs : m.st k with
    | absent =>
      rw [hs] at hk; simp only [KnowK] at hk ⊢
      split
      · simp [renSt, ASt.inSet, hk, KSt.inSet]
      · exact hk
    | present =>
      rw [hs] at hk
      obtain ⟨d, hd⟩ := hk
      simp only [KnowK]
      split
      · exact ⟨a.nctor k + 1, by simp [renSt, inSet_of_present a k d hd]⟩
      · exact ⟨d, hd⟩
    | unknown e => trivial
    | any => trivial
  · intro k n hn
    simp only [specStep] at hn ⊢
    have hk := hK.st k
    cases hs : m.st k with
    | absent =>
      rw [hs] at hk hn; simp only [KnowK] at hk
      simp only [] at hn
      split
      · simp [renCtor, ASt.inSet, hk, KSt.inSet, hK.cnt k n hn]
      · exact hK.cnt k n hn
    | present =>
      rw [hs] at hk hn
      obtain ⟨d, hd⟩ := hk
      simp only [] at hn
      have hin := inSet_of_present a k d hd
      cases hcn : m.cnt k with
      | none => simp [hcn, cntReset] at hn
      | some n0 =>
        simp only [hcn, cntReset, Option.map_some, Option.some.injEq] at hn
        have hn0 := hK.cnt k n0 hcn
        have hdat := hI k hin
        have hsm : specMatch a cs k = condsMatch cs k n0 := by simp [specMatch, hin, hdat, hn0]
        rw [hsm]
        cases hcm : condsMatch cs k n0 with
        | true => simp [hcm] at hn; simp [renCtor, hin, hn0, hn]
        | false => simp [hcm] at hn; simp [hn0, hn]
    | unknown e => rw [hs] at hn; simp at hn
    | any => rw [hs] at hn; simp at hn

theorem ret_restartAll (m : M6o) (a : ASt) (f : Nat → Bool) (cs : List Cond) (res : Res) (hK : Know m a)
    (hout : SpecOut a (specStep a f (.restartAll cs)) (.restartAll cs) res) :
    ∃ m', m.ret (.restartAll cs) res = some m' ∧ Know m' (specStep a f (.restartAll cs)) ∧ m'.pending = m.pending := by
  simp only [SpecOut] at hout
  obtain ⟨ks, hnd, hks, rfl⟩ := hout
  have hc := present_count m a ks hK hnd hks
  have hcc := chk_counts a cs ks
  simp only [M6o.ret, specStep]
  cases hh : m.hasCtx with
  | none => exact ⟨m, by simp [hc, hh], hK, rfl⟩
  | some c =>
    have := hK.ctx c hh
    cases c with
    | true => exact ⟨m, by simp only [this, if_true, hcc, hc, decide_true, Bool.and_self, hh], hK, rfl⟩
    | false => exact ⟨m, by simp [hc, this, hh], hK, rfl⟩

end UtilModel.Keyed
