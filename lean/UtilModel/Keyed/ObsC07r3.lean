import UtilModel.Keyed.ObsC07r2
/-!
# keyed — `C07r_obs`: one model step keeps the stage of an owed retry
-/
namespace UtilModel.Keyed
open UtilModel

theorem stage_step (s s' : St) (e : Ev) (k e0 : Nat) (hK : KInv s) (hlive : isLive s.ctx = true)
    (hget : ∀ id op, Call.invoked id op ∈ s.calls → isGetter op = true) (h : Stage s k e0)
    (hs : step s e = some s') (hcr : e ≠ .cancelroot) (hcb : ∀ j g i d, e ≠ .cbin j g i k d) : Stage s' k e0 := by
  cases e with
  | config c =>
    simp only [step] at hs
    split at hs
    · simp at hs; subst hs; exact stage_congr s _ k e0 rfl rfl h
    · simp at hs
  | inv id op =>
    simp only [step] at hs
    split at hs
    · simp at hs
    · split at hs
      · simp at hs; subst hs; exact stage_congr s _ k e0 rfl rfl h
      · simp at hs
  | exec id =>
    simp only [step] at hs
    split at hs
    · rename_i op hc
      simp at hs; subst hs
      have hg := hget id op (pendingOp_mem s.calls id op hc)
      cases op with
      | getKey k' =>
        simp only [preOp, execOp]
        split <;> exact stage_congr s _ k e0 rfl rfl h
      | getKeys => exact stage_congr s _ k e0 rfl rfl h
      | getKeysWithData => exact stage_congr s _ k e0 rfl rfl h
      | _ => simp [isGetter] at hg
    · simp at hs
  | ctor k' d =>
    simp only [step] at hs
    split at hs
    · simp at hs; subst hs; exact stage_congr s _ k e0 rfl rfl h
    · simp at hs
  | ret id res =>
    simp only [step] at hs
    split at hs
    · simp at hs; subst hs; exact stage_congr s _ k e0 rfl rfl h
    · simp at hs
  | proceed g i =>
    simp only [step] at hs
    refine stage_instStep s s' g i _ k e0 ?_ hs h
    intro y x x' hf hfr
    split at hf
    · cases hf; exact ⟨hfr.1, Or.inl rfl⟩
    · cases hf
  | bail g i =>
    simp only [step] at hs
    refine stage_instStep s s' g i _ k e0 ?_ hs h
    intro y x x' hf hfr
    split at hf
    · rename_i hc; rw [hfr.1] at hc; simp at hc
    · cases hf
  | cbin j g i k' d =>
    have hkk : k' ≠ k := fun e => hcb j g i d (by rw [e])
    simp only [step] at hs
    split at hs
    · split at hs
      · simp at hs
      · rename_i y hy
        split at hs
        · simp at hs
        · split at hs
          · rename_i hc
            simp at hs; subst hs
            refine stage_same s _ k e0 rfl ?_ h
            intro r hr
            obtain ⟨y0, hy0, hyk⟩ := hK.genKey k r hr
            have hne : g ≠ r.gen := by
              intro e; rw [e, hy0] at hy; cases hy; exact hkk (hc.2.1.symm.trans hyk)
            show (modInst s g i _).gens[r.gen]? = _
            simp only [modInst, gens_modG]
            cases hyy : s.gens[r.gen]? <;> simp [hne]
          · simp at hs
    · simp at hs
  | cbout j o =>
    simp only [step] at hs
    split at hs
    · simp at hs
    · refine stage_instStep s s' _ _ _ k e0 ?_ hs h
      intro y x x' hf hfr
      split at hf
      · rename_i hc
        rcases hfr.2 with h2 | ⟨h2, _⟩ <;> rw [h2] at hc <;> simp at hc
      · cases hf
  | closeExit g i =>
    simp only [step] at hs
    refine stage_instStep s s' g i _ k e0 ?_ hs h
    intro y x x' hf hfr
    split at hf
    · rename_i hc
      rcases hfr.2 with h2 | ⟨h2, _⟩ <;> rw [h2] at hc <;> simp at hc
    · cases hf
  | record g i =>
    simp only [step] at hs
    split at hs
    · simp at hs
    · rename_i y hy
      split at hs
      · simp at hs
      · rename_i x hx
        split at hs
        · rename_i hst
          simp at hs; subst hs
          exact stage_recordInst s g i y x k e0 hK hy hx hst h
        · simp at hs
  | timerRemove k' =>
    simp only [step] at hs
    split at hs
    · rename_i r' hr'
      split at hs
      · rename_i hdue
        simp at hs; subst hs
        by_cases hkk : k' = k
        · exfalso
          subst hkk
          obtain ⟨r, _, hr, hdr, _, _⟩ := h
          rw [hr'] at hr; cases hr
          rw [hdr] at hdue; simp [dueOpt] at hdue
        · exact stage_removeNow_other s k' r' k e0 hK hr' hkk h
      · simp at hs
    · simp at hs
  | timerRetry k' =>
    simp only [step] at hs
    split at hs
    · rename_i r' hr'
      split at hs
      · rename_i hdue
        simp at hs; subst hs
        by_cases hkk : k' = k
        · subst hkk
          exact stage_retry_self s k' e0 r' hK hlive hr' hdue h
        · have h1 : Stage (setRec s k' (some { r' with deferRetry := none })) k e0 :=
            stage_same s _ k e0 (by simp [Ne.symm hkk]) (fun _ _ => rfl) h
          have hK1 : KInv (setRec s k' (some { r' with deferRetry := none })) :=
            kinv_setRec s k' r' _ hK hr' rfl (Or.inr ⟨rfl, rfl⟩)
          split
          · exact stage_startKey_other _ k' true k e0 hK1 hkk h1
          · exact h1
      · simp at hs
    · simp at hs
  | advance =>
    simp only [step] at hs
    split at hs
    · simp at hs; subst hs; exact stage_congr s _ k e0 rfl rfl h
    · simp at hs
  | quiesce =>
    simp only [step] at hs
    split at hs
    · simp at hs; subst hs; exact h
    · simp at hs
  | probe j c =>
    simp only [step] at hs
    split at hs
    · simp at hs
    · split at hs
      · split at hs
        · simp at hs; subst hs; exact h
        · simp at hs
      · simp at hs
  | nilnext k' =>
    simp only [step] at hs
    split at hs
    · simp at hs; subst hs; exact stage_congr s _ k e0 rfl rfl h
    · simp at hs
  | cancelroot => exact absurd rfl hcr
  | boff k' b =>
    simp only [step] at hs
    split at hs
    · simp at hs; subst hs; exact h
    · simp at hs

end UtilModel.Keyed
