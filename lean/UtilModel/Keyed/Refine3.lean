import UtilModel.Keyed.Refine2
/-!
# keyed — refinement of the key-set specification (C06): `SyncKeys`
-/
namespace UtilModel.Keyed

theorem foldl_other {A : Type} (σ : St → Nat → A) (f : St → Nat → St)
    (h : ∀ s k k', k' ≠ k → σ (f s k) k' = σ s k') (L : List Nat) (s : St) (k' : Nat) (hk : k' ∉ L) :
    σ (L.foldl f s) k' = σ s k' := by
  induction L generalizing s with
  | nil => rfl
  | cons k L ih =>
    simp only [List.mem_cons, not_or] at hk
    rw [List.foldl_cons, ih _ hk.2, h s k k' hk.1]

/-- first loop of `SyncKeys`, on states -/
def syncS (restart : Bool) (s : St) (k : Nat) : St := (syncOne restart (s, []) k).1

theorem syncOne_fst (restart : Bool) (p : St × List (Nat × Nat)) (k : Nat) :
    (syncOne restart p k).1 = syncS restart p.1 k := by
  unfold syncS syncOne
  simp only []
  split <;> rfl

theorem syncS_spec (restart : Bool) (s : St) (k : Nat) :
    Frame s (syncS restart s k) ∧ (∀ k', k' ≠ k → (syncS restart s k).key k' = s.key k') ∧
    core ((syncS restart s k).key k) =
      (match s.key k with
       | none => some (s.ctors k + 1, none)
       | some r => some (r.data, none)) ∧
    (∀ k', (syncS restart s k).ctors k' = if k' = k then (if (s.key k).isSome then s.ctors k else s.ctors k + 1) else s.ctors k') := by
  unfold syncS syncOne
  simp only []
  cases hr : s.key k with
  | none =>
    simp only []
    have T := touch_startKey (createKey s k) k false
    refine ⟨(frame_createKey s k).trans T.frame, ?_, ?_, ?_⟩
    · intro k' hk; rw [T.other k' hk, key_createKey]; simp [hk]
    · rw [T.same, key_createKey]; simp [core]
    · intro k'; rw [T.ctors, ctors_createKey]; simp
  | some r =>
    simp only []
    have T : Touch k (setRec s k (some { r with deferRemove := none }))
        (if restart then startKey (setRec s k (some { r with deferRemove := none })) k false
         else setRec s k (some { r with deferRemove := none })) := by
      split
      · exact touch_startKey _ k false
      · exact Touch.refl k _
    refine ⟨(frame_setRec s k _).trans T.frame, ?_, ?_, ?_⟩
    · intro k' hk; rw [T.other k' hk]; simp [hk]
    · rw [T.same]; simp [core]
    · intro k'; rw [T.ctors]
      simp only [ctors_setRec, Option.isSome_some, if_true]
      split
      · rename_i h; rw [h]
      · rfl

/-- `remove()` on the record stored for a key, as a map on `Option Rec` -/
def remMap (d : Bool) (e : Nat) : Option Rec → Option Rec
  | none => none
  | some r =>
    if r.deferRemove.isSome then some r
    else if !d || (r.exited && !r.success) then none
    else some { r with deferRemove := some e }

theorem removeKey_spec (s : St) (k : Nat) :
    Frame s (removeKey s k).1 ∧ (∀ k', (removeKey s k).1.ctors k' = s.ctors k') ∧
    (∀ k', (removeKey s k).1.key k' = if k' = k then remMap (delayOn s) s.epoch (s.key k) else s.key k') := by
  unfold removeKey
  cases hr : s.key k with
  | none =>
    refine ⟨Frame.refl s, fun _ => rfl, ?_⟩
    intro k'; by_cases hk : k' = k
    · subst hk; simp [remMap, hr]
    · simp [hk]
  | some r =>
    simp only [remove, remMap]
    split
    · refine ⟨Frame.refl s, fun _ => rfl, ?_⟩
      intro k'; by_cases hk : k' = k
      · subst hk; simp [hr]
      · simp [hk]
    · split
      · refine ⟨(frame_cancelOpt s r.gen r.cancelOf).trans (frame_setRec _ k none), fun _ => by simp [removeNow], ?_⟩
        intro k'; by_cases hk : k' = k
        · subst hk; simp [removeNow]
        · simp [removeNow, hk]
      · refine ⟨frame_setRec s k _, fun _ => rfl, ?_⟩
        intro k'; by_cases hk : k' = k
        · subst hk; simp
        · simp [hk]

theorem removeAbsent_spec (ks : List Nat) (s : St) (k : Nat) :
    Frame s (removeAbsent ks s k) ∧ (∀ k', (removeAbsent ks s k).ctors k' = s.ctors k') ∧
    (∀ k', (removeAbsent ks s k).key k' =
      if k' = k then (if ks.contains k then s.key k else remMap (delayOn s) s.epoch (s.key k)) else s.key k') := by
  unfold removeAbsent
  split
  · refine ⟨Frame.refl s, fun _ => rfl, ?_⟩
    intro k'; by_cases hk : k' = k
    · subst hk; simp
    · simp [hk]
  · exact removeKey_spec s k

theorem delayOn_frame {s s' : St} (h : Frame s s') : delayOn s' = delayOn s := by simp [delayOn, h.cfg]

theorem absKey_remMap (s : St) (k : Nat) :
    absKey (remMap (delayOn s) s.epoch (s.key k)) = disSt (abs s) (failedOf s k) k := by
  cases hr : s.key k with
  | none => simp [remMap, absKey, disSt, st_abs, hr]
  | some r =>
    simp only [remMap, disSt, st_abs, hr]
    cases hdr : r.deferRemove with
    | some e => simp [absKey, hdr]
    | none =>
      have hdel : (abs s).delay = delayOn s := rfl
      simp only [Option.isSome_none, Bool.false_eq_true, if_false, absKey, hdr, hdel, failedOf, hr]
      by_cases hc : (!delayOn s || r.exited && !r.success) = true
      · simp only [hc, if_true]
      · simp [hc, absKey, abs]

theorem syncKeys_refines (s : St) (ks : List Nat) (restart : Bool) :
    abs (syncKeys s ks restart).1 = specStep (abs s) (failedOf s) (.syncKeys ks restart) := by
  unfold syncKeys
  simp only []
  rw [foldl_fst (syncOne restart) (syncS restart) (syncOne_fst restart)]
  -- first loop
  have F1 : Frame s ((dedup ks).foldl (syncS restart) s) :=
    foldl_frame _ (fun s k => (syncS_spec restart s k).1) _ _
  have K1in : ∀ k, k ∈ ks →
      (core (((dedup ks).foldl (syncS restart) s).key k), ((dedup ks).foldl (syncS restart) s).ctors k) =
      (match s.key k with
        | none => (some (s.ctors k + 1, none), s.ctors k + 1)
        | some r => (some (r.data, none), s.ctors k)) := by
    intro k hk
    have := foldl_local (fun s k => (core (s.key k), s.ctors k)) (syncS restart)
      (fun _ p => match p.1 with
        | none => (some (p.2 + 1, none), p.2 + 1)
        | some c => (some (c.1, none), p.2)) (fun _ => True) (fun _ _ _ => trivial)
      (fun s k k' _ => by
        have h := syncS_spec restart s k
        by_cases hk : k' = k
        · subst hk
          simp only [if_true, h.2.2.1, h.2.2.2]
          cases hr : s.key k' <;> simp [core]
        · simp [hk, h.2.1 k' hk, h.2.2.2])
      (dedup ks) (nodup_dedup ks) s trivial k
    rw [this]
    simp only [mem_dedup, hk, if_true]
    cases hr : s.key k <;> simp [core]
  have K1out : ∀ k, k ∉ ks → ((dedup ks).foldl (syncS restart) s).key k = s.key k ∧
      ((dedup ks).foldl (syncS restart) s).ctors k = s.ctors k := by
    intro k hk
    have hk' : k ∉ dedup ks := by rwa [mem_dedup]
    exact ⟨foldl_other (fun s k => s.key k) (syncS restart) (fun s k k' h => (syncS_spec restart s k).2.1 k' h) _ s k hk',
      foldl_other (fun s k => s.ctors k) (syncS restart)
        (fun s k k' h => by simp [(syncS_spec restart s k).2.2.2 k', h]) _ s k hk'⟩
  -- second loop
  generalize hs1 : (dedup ks).foldl (syncS restart) s = s1 at F1 K1in K1out
  have F2 : Frame s1 ((keyList s).foldl (removeAbsent ks) s1) :=
    foldl_frame _ (fun s k => (removeAbsent_spec ks s k).1) _ _
  have C2 : ∀ k, ((keyList s).foldl (removeAbsent ks) s1).ctors k = s1.ctors k := by
    intro k
    have := foldl_local (fun s k => s.ctors k) (removeAbsent ks) (fun _ n => n) (fun _ => True)
      (fun _ _ _ => trivial)
      (fun s k k' _ => by
        rw [(removeAbsent_spec ks s k).2.1 k']
        split
        · rename_i h; rw [h]
        · rfl)
      (keyList s) (nodup_keyList s) s1 trivial k
    simpa using this
  have K2 : ∀ k, ((keyList s).foldl (removeAbsent ks) s1).key k =
      if k ∈ keyList s then (if ks.contains k then s1.key k else remMap (delayOn s) s.epoch (s1.key k)) else s1.key k := by
    intro k
    exact foldl_local (fun s k => s.key k) (removeAbsent ks)
      (fun k r => if ks.contains k then r else remMap (delayOn s) s.epoch r)
      (fun s' => delayOn s' = delayOn s ∧ s'.epoch = s.epoch)
      (fun s' k h => by
        have f := (removeAbsent_spec ks s' k).1
        exact ⟨(delayOn_frame f).trans h.1, f.epoch.trans h.2⟩)
      (fun s' k k' h => by
        rw [(removeAbsent_spec ks s' k).2.2 k', h.1, h.2])
      (keyList s) (nodup_keyList s) s1 ⟨delayOn_frame F1, F1.epoch⟩ k
  generalize hs2 : (keyList s).foldl (removeAbsent ks) s1 = s2 at F2 C2 K2
  rw [abs_of_sigma s s2 (F1.trans F2)
    (fun k => if ks.contains k then
        (match s.key k with
          | none => some (s.ctors k + 1, none)
          | some r => some (r.data, none))
      else core (remMap (delayOn s) s.epoch (s.key k)))
    (fun k => if ks.contains k then (if (s.key k).isSome then s.ctors k else s.ctors k + 1) else s.ctors k)]
  · simp only [specStep]
    congr 1
    · funext k
      by_cases hk : ks.contains k
      · simp only [hk, if_true, reqSt, st_abs]
        cases hr : s.key k with
        | none => simp [absCore, absKey, nctor_abs]
        | some r =>
          simp only [absCore, absKey]
          cases hdr : r.deferRemove with
          | none => rfl
          | some e => simp []
      · simp only [hk, Bool.false_eq_true, if_false, ← absKey_core]
        exact absKey_remMap s k
    · funext k
      by_cases hk : ks.contains k
      · have hk' : k ∈ ks := by simpa using hk
        simp [hk', reqCtor, inSet_abs s, nctor_abs]
      · have hk' : k ∉ ks := by simpa using hk
        simp [hk', nctor_abs]
  · intro k
    rw [K2 k]
    by_cases hk : ks.contains k
    · have hk' : k ∈ ks := by simpa using hk
      have := K1in k hk'
      simp only [hk, if_true]
      have h1 : core (s1.key k) = (match s.key k with
          | none => some (s.ctors k + 1, none)
          | some r => some (r.data, none)) := by
        cases hr : s.key k <;> simp [hr] at this ⊢ <;> exact this.1
      split <;> exact h1
    · have hk' : k ∉ ks := by simpa using hk
      have := (K1out k hk').1
      simp only [hk, Bool.false_eq_true, if_false, this]
      split
      · rfl
      · rename_i hnk
        rw [mem_keyList] at hnk
        cases hr : s.key k with
        | none => simp [remMap]
        | some r => simp [hr] at hnk
  · intro k
    rw [C2 k]
    by_cases hk : ks.contains k
    · have hk' : k ∈ ks := by simpa using hk
      have := K1in k hk'
      simp only [hk, if_true]
      cases hr : s.key k <;> simp [hr] at this ⊢ <;> exact this.2
    · have hk' : k ∉ ks := by simpa using hk
      simp [hk', (K1out k hk').2]

end UtilModel.Keyed
