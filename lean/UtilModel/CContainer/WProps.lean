import UtilModel.Core.LTSHash
import UtilModel.CContainer.Props
import UtilModel.CContainer.WModel
/-!
# ccontainer.WatchChanges — theorems about the layered model of `WModel.lean`

* `wrun_core`: the core events of a run of the layered model form a run of the core model, so every
  theorem of `Props.lean` holds for the calls of a layered run (in particular for the inner
  `WaitValueChange` calls of a watcher: the value handed to the callback satisfies "changed from the
  previous one" and was held during that inner call);
* `C15_core_obs_w`: the core monitor `monC15` accepts the core observables of every layered trace;
* `C15_watch_obs`: the watcher clause `monWatch` accepts every layered trace (by simulation);
* `C15_obs_w`: both, for `monC15W`, the monitor the driver evaluates on implementation histories;
* `C15W_accepted`: end-to-end transfer for the hash-indexed checker.
-/
namespace UtilModel.CContainer
open UtilModel

def WEv.coreEv : WEv → Option Ev
  | .core e => some e
  | _ => none

def WObs.coreObs : WObs → Option Obs
  | .core o => some o
  | _ => none

theorem wstep_core (s s' : WSt) (e : Ev) (h : wstep s (.core e) = some s') :
    step s.core e = some s'.core ∧ s'.ws = wsOnCore s.ws e := by
  simp only [wstep] at h
  split at h <;> try simp at h
  cases hs : step s.core e with
  | none => simp [hs] at h
  | some c => simp [hs] at h; subst h; exact ⟨rfl, rfl⟩

theorem wstep_watch_core (s s' : WSt) (e : WEv) (hne : e.coreEv = none) (h : wstep s e = some s') :
    s'.core = s.core := by
  cases e with
  | core e => simp [WEv.coreEv] at hne
  | winv w i ech => simp only [wstep] at h; split at h <;> simp at h; subst h; rfl
  | wcall w t =>
    simp only [wstep] at h; split at h <;> try simp at h
    obtain ⟨_, rfl⟩ := h; rfl
  | wcbin w v =>
    simp only [wstep] at h; split at h <;> try simp at h
    obtain ⟨_, rfl⟩ := h; rfl
  | wcbout w ok => simp only [wstep] at h; split at h <;> simp at h; subst h; rfl
  | wret w r =>
    simp only [wstep] at h; split at h <;> try simp at h
    obtain ⟨_, rfl⟩ := h; rfl

/-- **the core events of a layered run form a run of the core model** -/
theorem wrun_core (es : List WEv) (s0 s : WSt) (h : wmodel.run s0 es = some s) :
    model.run s0.core (es.filterMap WEv.coreEv) = some s.core := by
  induction es generalizing s0 with
  | nil => simp [OLTS.run] at h ⊢; rw [h]
  | cons e es ih =>
    simp only [OLTS.run] at h
    cases hst : wmodel.step s0 e with
    | none => simp [hst] at h
    | some s1 =>
      simp [hst] at h
      have hst' : wstep s0 e = some s1 := hst
      cases hc : e.coreEv with
      | none =>
        simp only [List.filterMap_cons, hc]
        rw [← wstep_watch_core s0 s1 e hc hst']
        exact ih s1 h
      | some ce =>
        have : e = .core ce := by cases e <;> simp [WEv.coreEv] at hc; rw [hc]
        subst this
        have hcs : model.step s0.core ce = some s1.core := (wstep_core s0 s1 ce hst').1
        simp only [List.filterMap_cons, hc, OLTS.run, hcs]
        simpa using ih s1 h

theorem obs_core_filter (es : List WEv) :
    (es.filterMap WEv.obs).filterMap WObs.coreObs = (es.filterMap WEv.coreEv).filterMap Ev.obs := by
  induction es with
  | nil => rfl
  | cons e es ih =>
    cases e with
    | core ce =>
      simp only [List.filterMap_cons, WEv.obs, WEv.coreEv]
      cases ho : ce.obs with
      | none => simp [ih]
      | some o => simp [WObs.coreObs, ih]
    | winv w i ech => simp [List.filterMap_cons, WEv.obs, WEv.coreEv, WObs.coreObs, ih]
    | wcall w t => simp [List.filterMap_cons, WEv.obs, WEv.coreEv, WObs.coreObs, ih]
    | wcbin w v => simp [List.filterMap_cons, WEv.obs, WEv.coreEv, WObs.coreObs, ih]
    | wcbout w ok => simp [List.filterMap_cons, WEv.obs, WEv.coreEv, WObs.coreObs, ih]
    | wret w r => simp [List.filterMap_cons, WEv.obs, WEv.coreEv, WObs.coreObs, ih]

theorem liftMon_run {μ : Type} (mon : ObsMonitor Obs μ) (ms : μ) (h : List WObs) :
    (liftMon mon).run ms h = mon.run ms (h.filterMap WObs.coreObs) := by
  induction h generalizing ms with
  | nil => rfl
  | cons o os ih =>
    cases o with
    | core o =>
      simp only [ObsMonitor.run, liftMon, List.filterMap_cons, WObs.coreObs]
      cases mon.step ms o with
      | none => rfl
      | some m1 => simpa [liftMon] using ih m1
    | winv w i ech => simp only [List.filterMap_cons, WObs.coreObs]; exact ih ms
    | wcall w t => simp only [List.filterMap_cons, WObs.coreObs]; exact ih ms
    | wcbin w v => simp only [List.filterMap_cons, WObs.coreObs]; exact ih ms
    | wcbout w ok => simp only [List.filterMap_cons, WObs.coreObs]; exact ih ms
    | wret w r => simp only [List.filterMap_cons, WObs.coreObs]; exact ih ms

/-- **C15 on a layered trace (core clauses).** The monitor `monC15` accepts the core observables of
every observable trace of the layered model: everything `C15_obs` says holds for all the calls of a
history with watchers, the watchers' inner `WaitValueChange` calls included. -/
theorem C15_core_obs_w (es : List WEv) (s : WSt) (h : wmodel.run wmodel.init es = some s) :
    (liftMon monC15).accepts (es.filterMap wmodel.obs) = true := by
  have hc := wrun_core es wmodel.init s h
  have := C15_obs (es.filterMap WEv.coreEv) s.core hc
  simp only [ObsMonitor.accepts] at this ⊢
  show ((liftMon monC15).run monC15.init (es.filterMap WEv.obs)).isSome = true
  rw [liftMon_run, obs_core_filter]
  exact this

/-! ## the watcher clause, by simulation -/

/-- kind and error-channel flag of a wait call that has not produced its result yet -/
def TS.wk : TS → Option (WKind × Bool)
  | .wLoop k e => some (k, e.isSome)
  | .wParked k e _ => some (k, e.isSome)
  | _ => none

def wkOf (s : St) (t : Nat) : Option (WKind × Bool) := (s.th[t]?).bind TS.wk

theorem wk_set (th : List TS) (u t : Nat) (b : TS) (x : WKind × Bool)
    (h1 : ((th.set u b)[t]?).bind TS.wk = some x) (h0 : (th[t]?).bind TS.wk ≠ some x) :
    u = t ∧ TS.wk b = some x := by
  cases hb : (th.set u b)[t]? with
  | none => simp [hb] at h1
  | some y =>
    rw [hb] at h1
    rcases getElem?_set_cases th u t b y hb with ⟨hut, hy⟩ | ⟨_, hy⟩
    · subst hy; exact ⟨hut.symm, by simpa using h1⟩
    · exfalso; apply h0; rw [hy]; exact h1

theorem waitAttempt_wk (s : St) (u t : Nat) (k : WKind) (e : Option ECh) (a : TS) (x : WKind × Bool)
    (ha : s.th[u]? = some a) (hak : TS.wk a = some (k, e.isSome))
    (h1 : wkOf (waitAttempt s u k e) t = some x) : wkOf s t = some x := by
  apply Classical.byContradiction
  intro h0
  unfold wkOf at h1 h0
  unfold waitAttempt at h1
  split at h1
  · obtain ⟨_, hb⟩ := wk_set _ _ _ _ _ h1 h0; simp [TS.wk] at hb
  · obtain ⟨_, hb⟩ := wk_set _ _ _ _ _ h1 h0; simp [TS.wk] at hb
  · obtain ⟨hu, hb⟩ := wk_set _ _ _ _ _ h1 h0
    subst hu
    apply h0
    rw [ha]; simp only [Option.bind_some, hak]
    simpa [TS.wk] using hb

theorem onECh_wk (s s' : St) (u t : Nat) (f : ECh → Option ECh) (x : WKind × Bool)
    (hs : onECh s u f = some s') (h1 : wkOf s' t = some x) : wkOf s t = some x := by
  apply Classical.byContradiction
  intro h0
  unfold wkOf at h1 h0
  unfold onECh at hs
  split at hs
  · rename_i k e h
    cases hf : f e with
    | none => simp [hf] at hs
    | some e' =>
      simp [hf] at hs; subst hs
      obtain ⟨hu, hb⟩ := wk_set _ _ _ _ _ h1 h0
      subst hu; apply h0; rw [h]; simpa [TS.wk] using hb
  · rename_i k e c h
    cases hf : f e with
    | none => simp [hf] at hs
    | some e' =>
      simp [hf] at hs; subst hs
      obtain ⟨hu, hb⟩ := wk_set _ _ _ _ _ h1 h0
      subst hu; apply h0; rw [h]; simpa [TS.wk] using hb
  · simp at hs; subst hs; exact h0 h1
  · simp at hs; subst hs; exact h0 h1
  · simp at hs

/-- a call is a pending wait of kind `k` (with/without error channel) only from its invocation on -/
theorem step_wk (s s' : St) (e : Ev) (t : Nat) (x : WKind × Bool) (hs : step s e = some s')
    (h1 : wkOf s' t = some x) :
    wkOf s t = some x ∨ (e = .invWait t x.1 x.2 ∧ t = s.th.length) := by
  apply Classical.byContradiction
  intro hcon
  have h0 : wkOf s t ≠ some x := fun h => hcon (Or.inl h)
  have h1' := h1
  unfold wkOf at h1 h0
  cases e with
  | new v m =>
    simp only [step] at hs; split at hs <;> simp at hs; subst hs; exact h0 h1
  | invOp u o =>
    simp only [step] at hs; split at hs <;> simp at hs; subst hs
    cases hb : (s.th ++ [TS.opInv o])[t]? with
    | none => simp [hb] at h1
    | some y =>
      rw [hb] at h1
      rcases getElem?_snoc_cases _ _ _ _ hb with ⟨_, hy⟩ | ⟨_, hy⟩
      · apply h0; rw [hy]; exact h1
      · subst hy; simp [TS.wk] at h1
  | opCS u =>
    simp only [step] at hs; split at hs <;> simp at hs; subst hs
    obtain ⟨_, hb⟩ := wk_set _ _ _ _ _ h1 h0; simp [TS.wk] at hb
  | retOp u r =>
    simp only [step] at hs; split at hs <;> simp at hs
    obtain ⟨_, rfl⟩ := hs
    obtain ⟨_, hb⟩ := wk_set _ _ _ _ _ h1 h0; simp [TS.wk] at hb
  | invWait u k ech =>
    simp only [step] at hs; split at hs <;> simp at hs
    rename_i hu
    subst hs
    cases hb : (s.th ++ [TS.wLoop k (if ech then some {} else none)])[t]? with
    | none => simp [hb] at h1
    | some y =>
      rw [hb] at h1
      rcases getElem?_snoc_cases _ _ _ _ hb with ⟨_, hy⟩ | ⟨ht, hy⟩
      · apply h0; rw [hy]; exact h1
      · subst hy
        apply hcon; right
        simp [TS.wk] at h1
        refine ⟨?_, ht⟩
        rw [← h1, hu, ht]
        cases ech <;> rfl
  | waitCS u =>
    simp only [step] at hs; split at hs <;> simp at hs; subst hs
    rename_i k e h
    exact h0 (waitAttempt_wk s u t k e _ x h rfl h1')
  | wakeCS u =>
    simp only [step] at hs; split at hs <;> simp at hs
    obtain ⟨_, rfl⟩ := hs
    rename_i k e c h _
    exact h0 (waitAttempt_wk s u t k e _ x h rfl h1')
  | ctxTake u =>
    simp only [step] at hs; split at hs <;> simp at hs
    obtain ⟨_, rfl⟩ := hs
    obtain ⟨_, hb⟩ := wk_set _ _ _ _ _ h1 h0; simp [TS.wk] at hb
  | errTake u =>
    simp only [step] at hs; split at hs <;> try simp at hs
    rename_i k ech c h
    split at hs
    · simp at hs; subst hs
      obtain ⟨_, hb⟩ := wk_set _ _ _ _ _ h1 h0; simp [TS.wk] at hb
    · simp at hs; subst hs
      obtain ⟨hu, hb⟩ := wk_set _ _ _ _ _ h1 h0
      subst hu; apply h0; rw [h]; simpa [TS.wk] using hb
    · split at hs <;> simp at hs; subst hs
      obtain ⟨_, hb⟩ := wk_set _ _ _ _ _ h1 h0; simp [TS.wk] at hb
  | retWait u r =>
    simp only [step] at hs; split at hs <;> simp at hs
    obtain ⟨_, rfl⟩ := hs
    obtain ⟨_, hb⟩ := wk_set _ _ _ _ _ h1 h0; simp [TS.wk] at hb
  | envCancel u =>
    simp only [step] at hs; split at hs <;> simp at hs; subst hs; exact h0 h1
  | envErr u m => exact h0 (onECh_wk s s' u t _ x hs h1')
  | envErrClose u => exact h0 (onECh_wk s s' u t _ x hs h1')
  | quiesce B =>
    simp only [step] at hs; split at hs <;> simp at hs; subst hs; exact h0 h1

/-- monitor record `m` describes watcher state `ws` -/
def Wcorr : WTS → WMon → Prop
  | .idle cur ech, m => m = { prev := cur, ech := ech }
  | .waiting cur ech t, m => m = { prev := cur, ech := ech, inner := some t }
  | .got ech v, m => ∃ p, m = { prev := p, ech := ech, got := some v }
  | .incb ech v, m => m = { prev := v, ech := ech, incb := true }
  | .failing r, m => ∃ p e, m = { prev := p, ech := e, cause := some r }
  | .done, m => ∃ p e, m = { prev := p, ech := e, over := true }

structure RelW (s : WSt) (ms : WatchSt) : Prop where
  len : ms.ws.length = s.ws.length
  klen : ms.kinds.length = s.core.th.length
  ws : ∀ (w : Nat) (a : WTS), s.ws[w]? = some a → ∃ m, ms.ws[w]? = some m ∧ Wcorr a m
  kinds : ∀ (t : Nat) (x : WKind × Bool), wkOf s.core t = some x → ms.kinds[t]? = some (some x)

theorem wcorr_onRet (t : Nat) (r : WRes) (a : WTS) (m : WMon) (h : Wcorr a m) :
    Wcorr (a.onRet t r) (m.onRet t r) := by
  cases a with
  | idle cur ech => simp only [Wcorr] at h; subst h; simp [WTS.onRet, WMon.onRet, Wcorr]
  | waiting cur ech t' =>
    simp only [Wcorr] at h; subst h
    by_cases htt : t' = t
    · subst htt
      cases r <;> simp [WTS.onRet, WMon.onRet, Wcorr]
    · have : ¬ (some t' = some t) := by simpa using htt
      simp [WTS.onRet, WMon.onRet, Wcorr, htt]
  | got ech v => obtain ⟨p, h⟩ := h; subst h; exact ⟨p, by simp [WMon.onRet]⟩
  | incb ech v => simp only [Wcorr] at h; subst h; simp [WTS.onRet, WMon.onRet, Wcorr]
  | failing c => obtain ⟨p, e, h⟩ := h; subst h; exact ⟨p, e, by simp [WMon.onRet]⟩
  | done => obtain ⟨p, e, h⟩ := h; subst h; exact ⟨p, e, by simp [WMon.onRet]⟩

def kindsAfter (l : List (Option (WKind × Bool))) : Ev → List (Option (WKind × Bool))
  | .invOp _ _ => l ++ [none]
  | .invWait _ k ech => l ++ [some (k, ech)]
  | _ => l

def wsAfter (l : List WMon) : Ev → List WMon
  | .retWait t r => l.map (WMon.onRet t r)
  | _ => l

theorem step_len (s s' : St) (e : Ev) (hs : step s e = some s') :
    s'.th.length = (kindsAfter (List.replicate s.th.length none) e).length := by
  cases e with
  | new v m => simp only [step] at hs; split at hs <;> simp at hs; subst hs; simp [kindsAfter]
  | invOp u o => simp only [step] at hs; split at hs <;> simp at hs; subst hs; simp [kindsAfter]
  | opCS u => simp only [step] at hs; split at hs <;> simp at hs; subst hs; simp [kindsAfter]
  | retOp u r =>
    simp only [step] at hs; split at hs <;> simp at hs
    obtain ⟨_, rfl⟩ := hs; simp [kindsAfter]
  | invWait u k ech => simp only [step] at hs; split at hs <;> simp at hs; subst hs; simp [kindsAfter]
  | waitCS u =>
    simp only [step] at hs; split at hs <;> simp at hs; subst hs
    unfold waitAttempt; split <;> simp [kindsAfter]
  | wakeCS u =>
    simp only [step] at hs; split at hs <;> simp at hs
    obtain ⟨_, rfl⟩ := hs
    unfold waitAttempt; split <;> simp [kindsAfter]
  | ctxTake u =>
    simp only [step] at hs; split at hs <;> simp at hs
    obtain ⟨_, rfl⟩ := hs; simp [kindsAfter]
  | errTake u =>
    simp only [step] at hs; split at hs <;> try simp at hs
    split at hs
    · simp at hs; subst hs; simp [kindsAfter]
    · simp at hs; subst hs; simp [kindsAfter]
    · split at hs <;> simp at hs; subst hs; simp [kindsAfter]
  | retWait u r =>
    simp only [step] at hs; split at hs <;> simp at hs
    obtain ⟨_, rfl⟩ := hs; simp [kindsAfter]
  | envCancel u => simp only [step] at hs; split at hs <;> simp at hs; subst hs; simp [kindsAfter]
  | envErr u m =>
    have : s'.th.length = s.th.length := by
      simp only [step] at hs
      unfold onECh at hs
      split at hs
      · rename_i k e0 h
        cases hf : (if e0.closed = true then none else some { e0 with q := e0.q ++ [m] }) with
        | none => simp [hf] at hs
        | some e' => simp [hf] at hs; subst hs; simp
      · rename_i k e0 c h
        cases hf : (if e0.closed = true then none else some { e0 with q := e0.q ++ [m] }) with
        | none => simp [hf] at hs
        | some e' => simp [hf] at hs; subst hs; simp
      · simp at hs; subst hs; rfl
      · simp at hs; subst hs; rfl
      · simp at hs
    simp [kindsAfter, this]
  | envErrClose u =>
    have : s'.th.length = s.th.length := by
      simp only [step] at hs
      unfold onECh at hs
      split at hs
      · rename_i k e0 h
        cases hf : (if e0.closed = true then none else some { e0 with closed := true }) with
        | none => simp [hf] at hs
        | some e' => simp [hf] at hs; subst hs; simp
      · rename_i k e0 c h
        cases hf : (if e0.closed = true then none else some { e0 with closed := true }) with
        | none => simp [hf] at hs
        | some e' => simp [hf] at hs; subst hs; simp
      · simp at hs; subst hs; rfl
      · simp at hs; subst hs; rfl
      · simp at hs
    simp [kindsAfter, this]
  | quiesce B => simp only [step] at hs; split at hs <;> simp at hs; subst hs; simp [kindsAfter]

theorem kindsAfter_len (l : List (Option (WKind × Bool))) (n : Nat) (e : Ev) (h : l.length = n) :
    (kindsAfter l e).length = (kindsAfter (List.replicate n none) e).length := by
  cases e <;> simp [kindsAfter, h]

/-- a core step keeps the kinds table in step with the core thread table -/
theorem relW_core (s : WSt) (ms : WatchSt) (e : Ev) (c' : St) (ws' : List WTS) (msws' : List WMon)
    (hR : RelW s ms) (hs : step s.core e = some c')
    (hws : ∀ (w : Nat) (a : WTS), ws'[w]? = some a → ∃ m, msws'[w]? = some m ∧ Wcorr a m)
    (hlen : msws'.length = ws'.length) :
    RelW { core := c', ws := ws' } { ws := msws', kinds := kindsAfter ms.kinds e } := by
  refine ⟨hlen, ?_, hws, ?_⟩
  · rw [step_len s.core c' e hs]; exact kindsAfter_len _ _ e hR.klen
  · intro t x hx
    rcases step_wk s.core c' e t x hs hx with h | ⟨h, ht⟩
    · have := hR.kinds t x h
      cases e <;> simp only [kindsAfter] <;> first | exact this | exact getElem?_snoc_left _ _ _ _ this
    · subst h
      simp only [kindsAfter]
      rw [ht, ← hR.klen]; simp

theorem monWatch_core (ms : WatchSt) (e : Ev) (o : Obs) (ho : e.obs = some o) :
    monWatch.step ms (.core o) = some { ws := wsAfter ms.ws e, kinds := kindsAfter ms.kinds e } := by
  cases e <;> simp [Ev.obs] at ho <;> subst ho <;> rfl

theorem watch_sim_step (s : WSt) (e : WEv) (s' : WSt) (ms : WatchSt) (hR : RelW s ms)
    (hs : wstep s e = some s') :
    match WEv.obs e with
    | none => RelW s' ms
    | some o => ∃ ms', monWatch.step ms o = some ms' ∧ RelW s' ms' := by
  have setW : ∀ (w : Nat) (a b : WTS) (m m' : WMon), s.ws[w]? = some a → ms.ws[w]? = some m →
      Wcorr b m' → RelW { s with ws := s.ws.set w b } { ms with ws := ms.ws.set w m' } := by
    intro w a b m m' ha hm hb
    refine ⟨by simp [hR.len], hR.klen, ?_, hR.kinds⟩
    intro u x hu
    rcases getElem?_set_cases s.ws w u b x hu with ⟨huw, hx⟩ | ⟨huw, hx⟩
    · subst huw; subst hx
      exact ⟨m', by simp [lt_of_getElem? hm], hb⟩
    · obtain ⟨m0, h1, h2⟩ := hR.ws u x hx
      exact ⟨m0, by simp only; rw [getElem?_set_ne' _ _ _ _ (fun h => huw h.symm)]; exact h1, h2⟩
  cases e with
  | core ce =>
    obtain ⟨hcs, hws'⟩ := wstep_core s s' ce hs
    have hmap : ∀ (w : Nat) (a : WTS), s'.ws[w]? = some a →
        ∃ m, (wsAfter ms.ws ce)[w]? = some m ∧ Wcorr a m := by
      intro w a ha
      rw [hws'] at ha
      cases ce with
      | retWait t r =>
        simp only [wsAfter, wsOnCore] at ha ⊢
        simp only [List.getElem?_map] at ha ⊢
        cases h0 : s.ws[w]? with
        | none => simp [h0] at ha
        | some a0 =>
          simp [h0] at ha; subst ha
          obtain ⟨m0, g1, g2⟩ := hR.ws w a0 h0
          exact ⟨m0.onRet t r, by simp [g1], wcorr_onRet t r a0 m0 g2⟩
      | _ => exact hR.ws w a ha
    have hlen' : (wsAfter ms.ws ce).length = s'.ws.length := by
      rw [hws']; cases ce <;> simp [wsAfter, wsOnCore, hR.len]
    have hrel := relW_core s ms ce s'.core s'.ws (wsAfter ms.ws ce) hR hcs hmap hlen'
    cases ho : ce.obs with
    | none => 
      simp only [WEv.obs, ho, Option.map_none]
      have h1 : kindsAfter ms.kinds ce = ms.kinds := by cases ce <;> simp [Ev.obs] at ho <;> rfl
      have h2 : wsAfter ms.ws ce = ms.ws := by cases ce <;> simp [Ev.obs] at ho <;> rfl
      rw [h1, h2] at hrel
      exact hrel
    | some o =>
      simp only [WEv.obs, ho, Option.map_some]
      exact ⟨_, monWatch_core ms ce o ho, hrel⟩
  | winv w init ech =>
    simp only [wstep] at hs; split at hs <;> simp at hs; subst hs
    refine ⟨_, rfl, ?_⟩
    refine ⟨by simp [hR.len], hR.klen, ?_, hR.kinds⟩
    intro u x hu
    rcases getElem?_snoc_cases _ _ _ _ hu with ⟨_, hx⟩ | ⟨hul, hx⟩
    · obtain ⟨m0, h1, h2⟩ := hR.ws u x hx
      exact ⟨m0, getElem?_snoc_left _ _ _ _ h1, h2⟩
    · subst hx
      exact ⟨{ prev := init, ech := ech }, by simp only; rw [hul, ← hR.len]; simp, rfl⟩
  | wcall w t =>
    simp only [wstep] at hs; split at hs <;> try simp at hs
    rename_i cur ech ha
    obtain ⟨hth, rfl⟩ := hs
    obtain ⟨m, hm, hc⟩ := hR.ws w _ ha
    simp only [Wcorr] at hc; subst hc
    have hk : wkOf s.core t = some (.change cur, ech) := by
      simp only [wkOf, hth, Option.bind_some, TS.wk]; cases ech <;> rfl
    have hkinds := hR.kinds t _ hk
    refine ⟨_, ?_, setW w _ (.waiting cur ech t) _ { prev := cur, ech := ech, inner := some t } ha hm rfl⟩
    simp [monWatch, hm, hkinds]
  | wcbin w v =>
    simp only [wstep] at hs; split at hs <;> try simp at hs
    rename_i ech v' ha
    obtain ⟨hv, rfl⟩ := hs
    subst hv
    obtain ⟨m, hm, p, hc⟩ := hR.ws w _ ha
    subst hc
    refine ⟨_, ?_, setW w _ (.incb ech v) _ { prev := v, ech := ech, incb := true } ha hm rfl⟩
    simp [monWatch, hm]
  | wcbout w ok =>
    simp only [wstep] at hs; split at hs <;> simp at hs; subst hs
    rename_i ech v ha
    obtain ⟨m, hm, hc⟩ := hR.ws w _ ha
    simp only [Wcorr] at hc; subst hc
    cases ok with
    | true =>
      refine ⟨_, ?_, setW w _ (.idle v ech) _ { prev := v, ech := ech } ha hm rfl⟩
      simp [monWatch, hm]
    | false =>
      refine ⟨_, ?_, setW w _ (.failing .cberr) _ { prev := v, ech := ech, cause := some .cberr } ha hm ⟨v, ech, rfl⟩⟩
      simp [monWatch, hm]
  | wret w r =>
    simp only [wstep] at hs; split at hs <;> try simp at hs
    rename_i r' ha
    obtain ⟨hr, rfl⟩ := hs
    subst hr
    obtain ⟨m, hm, p, e, hc⟩ := hR.ws w _ ha
    subst hc
    refine ⟨_, ?_, setW w _ .done _ { prev := p, ech := e, over := true } ha hm ⟨p, e, rfl⟩⟩
    simp [monWatch, hm]

/-- **C15, watcher clause (observable form).** Every observable trace of the layered model is
accepted by `monWatch`: each inner call of a watcher asks for a change from the value delivered last,
the callback gets exactly the value the inner call returned, and the watch returns exactly the
callback's error or the error / cancellation of its last inner call. -/
theorem C15_watch_obs (es : List WEv) (s : WSt) (h : wmodel.run wmodel.init es = some s) :
    monWatch.accepts (es.filterMap wmodel.obs) = true :=
  monitor_accepts_of_simulation wmodel monWatch RelW
    ⟨rfl, rfl, by intro w a h; simp [wmodel] at h, by intro t x h; simp [wmodel, wkOf] at h⟩
    (fun s e s' ms hR hs => by
      have h := watch_sim_step s e s' ms hR hs
      have ho : wmodel.obs e = e.obs := rfl
      rw [ho]
      generalize e.obs = x at h ⊢
      cases x <;> exact h) es s h

/-- **C15 (observable form, with watchers).** Every observable trace of the layered model is
accepted by `monC15W = monC15 (on the core observables) × monWatch`, the monitor the driver evaluates
on implementation histories. -/
theorem C15_obs_w (es : List WEv) (s : WSt) (h : wmodel.run wmodel.init es = some s) :
    monC15W.accepts (es.filterMap wmodel.obs) = true := by
  unfold monC15W
  rw [Broadcast.monProd_accepts, C15_core_obs_w es s h, C15_watch_obs es s h]; rfl

end UtilModel.CContainer

namespace UtilModel

/-- end-to-end: a history the hash-indexed checker accepts for the layered model satisfies C15 -/
theorem C15W_accepted (cap fuel : Nat) (h : List CContainer.WObs)
    (ha : CContainer.wmodel.acceptsH cap fuel h = true) : CContainer.monC15W.accepts h = true :=
  acceptedH_satisfies CContainer.wmodel (fun h => CContainer.monC15W.accepts h = true)
    CContainer.C15_obs_w cap fuel h ha

end UtilModel
