import UtilModel.Core.LTSCompleteQ
import UtilModel.CContainer.Quot
import UtilModel.CContainer.WProps
/-!
# ccontainer.WatchChanges — the state equality of the layered model is a bisimulation quotient

The layered state `WSt` (core state + watcher table) is de-duplicated with `instBEqWSt`: equality of
the core state's `St.norm` and of the watcher table; `instHashableWSt` hashes exactly these two. So
the quotient of the core model (`Quot.lean`) is inherited: a layered step is a core step (answered by
`step_rel`) plus an update of the watcher table that depends only on the event, the table, and —
for `wcall w t` — on call `t` being at the top of its loop (`wLoop`, a thread state without channel
id, which `==`-equal core states share).
-/
namespace UtilModel.CContainer
open UtilModel

theorem wbeq_iff_norm (a b : WSt) : (a == b) = true ↔ a.core.norm = b.core.norm ∧ a.ws = b.ws := by
  show (a.core.norm == b.core.norm && a.ws == b.ws) = true ↔ _
  simp

instance instEquivBEqWSt : EquivBEq WSt where
  rfl := by intro a; exact (wbeq_iff_norm a a).mpr ⟨rfl, rfl⟩
  symm := by
    intro a b h
    obtain ⟨h1, h2⟩ := (wbeq_iff_norm a b).mp h
    exact (wbeq_iff_norm b a).mpr ⟨h1.symm, h2.symm⟩
  trans := by
    intro a b c h1 h2
    obtain ⟨a1, a2⟩ := (wbeq_iff_norm a b).mp h1
    obtain ⟨b1, b2⟩ := (wbeq_iff_norm b c).mp h2
    exact (wbeq_iff_norm a c).mpr ⟨a1.trans b1, a2.trans b2⟩

instance instLawfulHashableWSt : LawfulHashable WSt where
  hash_eq := by
    intro a b h
    obtain ⟨h1, h2⟩ := (wbeq_iff_norm a b).mp h
    show mixHash (hash a.core.norm) (hash a.ws) = mixHash (hash b.core.norm) (hash b.ws)
    rw [h1, h2]

theorem wbeq_iff (a b : WSt) : (a == b) = true ↔ Rel a.core b.core ∧ a.ws = b.ws := by
  rw [wbeq_iff_norm, ← beq_iff_norm, beq_iff]

/-- the core of a reachable layered state is well-formed -/
theorem wreachable_inv (s : WSt) (h : wmodel.Reachable s) : Inv s.core := by
  obtain ⟨es, hr⟩ := h
  exact reachable_inv _ s.core (wrun_core es wmodel.init s hr)

/-- **`==` is a bisimulation of the layered model on states with well-formed cores** (the same
event answers) -/
theorem wstep_rel (s t : WSt) (hs : Inv s.core) (ht : Inv t.core) (hrel : Rel s.core t.core)
    (hws : s.ws = t.ws) (e : WEv) (s' : WSt) (hst : wstep s e = some s') :
    ∃ t', wstep t e = some t' ∧ Rel s'.core t'.core ∧ s'.ws = t'.ws := by
  obtain ⟨sc, sws⟩ := s
  obtain ⟨tc, tws⟩ := t
  simp only at hs ht hrel hws
  subst hws
  cases e with
  | core e =>
    simp only [wstep] at hst ⊢
    split at hst <;> try simp at hst
    rename_i hg
    obtain ⟨c, hc, rfl⟩ := hst
    obtain ⟨c', hc', hr'⟩ := step_rel sc tc hs ht hrel e c hc
    simp only [hg, if_true, hc', Option.map_some]
    exact ⟨_, rfl, hr', rfl⟩
  | winv w i ech =>
    simp only [wstep] at hst ⊢
    split at hst <;> simp at hst; subst hst
    rename_i hw
    rw [if_pos hw]
    exact ⟨_, rfl, hrel, rfl⟩
  | wcall w i =>
    simp only [wstep] at hst ⊢
    split at hst <;> try simp at hst
    rename_i cur ech hw
    obtain ⟨hth, rfl⟩ := hst
    rw [if_pos (hrel.get_same i _ hth (by intro _ _ _ hh; cases hh))]
    exact ⟨_, rfl, hrel, rfl⟩
  | wcbin w v =>
    simp only [wstep] at hst ⊢
    split at hst <;> try simp at hst
    rename_i ech v' hw
    obtain ⟨hv, rfl⟩ := hst
    simp only [hv, if_true]
    exact ⟨_, rfl, hrel, rfl⟩
  | wcbout w ok =>
    simp only [wstep] at hst ⊢
    split at hst <;> simp at hst; subst hst
    exact ⟨_, rfl, hrel, rfl⟩
  | wret w r =>
    simp only [wstep] at hst ⊢
    split at hst <;> try simp at hst
    rename_i r' hw
    obtain ⟨hr, rfl⟩ := hst
    simp only [hr, if_true]
    exact ⟨_, rfl, hrel, rfl⟩

theorem wquotok : wmodel.QuotOK := by
  refine ⟨?_⟩
  intro s t hrs hrt heq e s' hstep
  obtain ⟨hrel, hws⟩ := (wbeq_iff s t).mp heq
  obtain ⟨t', h1, h2, h3⟩ := wstep_rel s t (wreachable_inv s hrs) (wreachable_inv t hrt) hrel hws e s' hstep
  exact ⟨e, t', rfl, h1, (wbeq_iff s' t').mpr ⟨h2, h3⟩⟩

end UtilModel.CContainer
