import UtilModel.CContainer.Proofs
import UtilModel.CContainer.Monitors
import UtilModel.CContainer.Sim
/-!
# ccontainer.CContainer — property theorems (C15)

Every theorem quantifies over **all** event lists: every number of writers and waiters, every
interleaving of their critical sections and select decisions, every timing of cancellations and
error-channel deliveries, both equalities. A position in a run is given by splitting the event list.
-/
namespace UtilModel.CContainer
open UtilModel

/-! ## GetValue / SetValue / SwapValue are atomic operations on one cell -/

/-- **C15, atomic cell (one operation).** The critical section of an operation reads the content,
applies the operation's function to *that* content and stores the result in one step: the call will
return `o.result` of the content it found, and the new content is `o.newVal` of it — no other
writer's update can fall in between. -/
theorem op_atomic (s s' : St) (t : Nat) (o : Op) (ht : s.th[t]? = some (.opInv o))
    (hs : step s (.opCS t) = some s') :
    s'.th[t]? = some (.opRan o (o.result s.val)) ∧ s'.val = o.newVal s.m s.val := by
  simp only [step, ht] at hs
  simp at hs; subst hs
  simp [lt_of_getElem? ht]

/-- an operation returns exactly the result computed in its critical section -/
theorem op_returns (s s' : St) (t r : Nat) (hs : step s (.retOp t r) = some s') :
    ∃ o, s.th[t]? = some (.opRan o r) := retOp_from s s' t r hs

/-- **C15, atomic cell (history).** Along every run (after the container was created) the content
is the left fold of the executed operations, in the order of their critical sections, over the
initial content: every update is applied exactly once, on top of all earlier ones. -/
theorem cell_atomic (s s' : St) (es : List Ev) (hr : model.run s es = some s')
    (hnew : ∀ v m, Ev.new v m ∉ es) :
    s'.m = s.m ∧ s'.val = (opsAlong s es).foldl (fun v o => o.newVal s.m v) s.val := by
  induction es generalizing s with
  | nil => simp [OLTS.run] at hr; subst hr; simp [opsAlong]
  | cons e es ih =>
    simp only [OLTS.run] at hr
    cases hst : model.step s e with
    | none => simp [hst] at hr
    | some s1 =>
      simp [hst] at hr
      have hst' : step s e = some s1 := hst
      obtain ⟨hm, hv⟩ := step_val s e s1 hst' (fun v m h => hnew v m (by simp [h]))
      obtain ⟨im, iv⟩ := ih s1 hr (fun v m h => hnew v m (by simp [h]))
      refine ⟨by rw [im, hm], ?_⟩
      rw [iv, hm, hv]
      simp only [opsAlong, hst']
      cases opOf s e <;> simp

/-- **C15: N `SwapValue(increment)` calls give +N**, whatever their interleaving with each other and
with reads (under any equality except "everything is equal"): no update is lost. -/
theorem swap_inc_adds (s s' : St) (es : List Ev) (hr : model.run s es = some s')
    (hnew : ∀ v m, Ev.new v m ∉ es) (hm : s.m ≠ 1)
    (hops : ∀ o ∈ opsAlong s es, o = .swap .inc ∨ o = .get ∨ o = .swap .nilcb) :
    s'.val = s.val + (opsAlong s es).countP (· == .swap .inc) := by
  rw [(cell_atomic s s' es hr hnew).2]
  generalize opsAlong s es = ops at hops
  generalize s.val = v
  induction ops generalizing v with
  | nil => simp
  | cons o os ih =>
    simp only [List.foldl_cons]
    rw [ih (fun o' ho' => hops o' (by simp [ho'])) _]
    rcases hops o (by simp) with h | h | h
    · subst h; rw [inc_newVal s.m v hm]; simp; omega
    · subst h; simp [Op.newVal]
    · subst h
      have : (Op.swap SwapF.nilcb).newVal s.m v = v := by
        simp only [Op.newVal, SwapF.apply]; exact ite_self _
      rw [this]; simp

/-! ## waiters return only a value the cell held, which satisfies the condition -/

/-- **C15, a returned value was held and satisfies the condition.** If a run contains the response
`ret t wait val v` (or `ret t wait ok` of `WaitValueEmpty`), then at an earlier position call `t`
ran a critical section in which the cell content was exactly `v` (resp. some content) on which its
condition holds — the value returned is the one sampled there. -/
theorem wait_returns_held_value (es : List Ev) (s : St) (t : Nat) (r : WRes)
    (hr : r = .ok ∨ ∃ v, r = .val v)
    (h : model.run model.init (es ++ [.retWait t r]) = some s) :
    ∃ es1 e es2 s0 s1 k, es = es1 ++ e :: es2 ∧ model.run model.init es1 = some s0 ∧
      step s0 e = some s1 ∧ (e = .waitCS t ∨ e = .wakeCS t) ∧ waitingWith s0 t k ∧
      k.eval s0.m s0.val = .ok ∧ r = okResult k s0.val ∧ s1.val = s0.val := by
  obtain ⟨sm, hrun, hl⟩ := model.run_prefix _ _ _ _ h
  simp only [OLTS.run] at hl
  cases hst : model.step sm (.retWait t r) with
  | none => simp [hst] at hl
  | some s' =>
    have hth := retWait_from sm s' t r hst
    obtain ⟨es1, e, es2, s0, s1, g1, g2, g3, g4, g5, _⟩ :=
      Broadcast.run_first_flip model (fun s => s.th[t]? = some (.wRet r)) model.init sm es hrun
        (by simp [model]) hth
    rcases step_wRet s0 s1 e t r g3 g5 g4 with ⟨k, he, hw, hv, hres⟩ | ⟨hb, _⟩ | ⟨_, ech, _, hres⟩
    · rcases hres with ⟨hev, hrk⟩ | ⟨_, hrk⟩
      · exact ⟨es1, e, es2, s0, s1, k, g1, g2, g3, he, hw, hev, hrk, hv⟩
      · rcases hr with hr | ⟨v, hr⟩ <;> (rw [hr] at hrk; cases hrk)
    · rcases hr with hr | ⟨v, hr⟩ <;> (rw [hr] at hb; cases hb)
    · rcases hres with ⟨err, _, hrk⟩ | ⟨_, _, hrk⟩ <;>
        (rcases hr with hr | ⟨v, hr⟩ <;> (rw [hr] at hrk; cases hrk))

/-- `okResult` unpacked: a returned `val v` is the sampled content -/
theorem okResult_val (k : WKind) (x v : Nat) (h : WRes.val v = okResult k x) : v = x ∧ k ≠ .empty := by
  cases k <;> simp [okResult] at h <;> simp [h]

/-! ## errors only from a source that fired -/

/-- **C15, `context.Canceled` only if the context was cancelled or the error channel closed.** -/
theorem wait_canceled_only_if_fired (es : List Ev) (s : St) (t : Nat)
    (h : model.run model.init (es ++ [.retWait t .canceled]) = some s) :
    Ev.envCancel t ∈ es ∨ Ev.envErrClose t ∈ es := by
  obtain ⟨sm, hrun, hl⟩ := model.run_prefix _ _ _ _ h
  simp only [OLTS.run] at hl
  cases hst : model.step sm (.retWait t .canceled) with
  | none => simp [hst] at hl
  | some s' =>
    have hth := retWait_from sm s' t .canceled hst
    obtain ⟨es1, e, es2, s0, s1, g1, g2, g3, g4, g5, _⟩ :=
      Broadcast.run_first_flip model (fun s => s.th[t]? = some (.wRet .canceled)) model.init sm es hrun
        (by simp [model]) hth
    rcases step_wRet s0 s1 e t .canceled g3 g5 g4 with ⟨k, _, _, _, hres⟩ | ⟨_, _, hcx⟩ | ⟨_, ech, hech, hres⟩
    · rcases hres with ⟨_, hrk⟩ | ⟨_, hrk⟩
      · cases k <;> simp [okResult] at hrk
      · cases hrk
    · left
      obtain ⟨fs1, e', fs2, u0, u1, k1, _, k3, k4, k5, _⟩ :=
        Broadcast.run_first_flip model (fun s => s.cx.contains t = true) model.init s0 es1 g2
          (by simp [model]) hcx
      have := step_cx u0 u1 e' t k3 k5 (by simpa using k4)
      subst this
      rw [g1, k1]; simp
    · right
      rcases hres with ⟨err, _, hrk⟩ | ⟨_, hcl, _⟩
      · cases hrk
      · have hQ : echHas (fun c => c.closed = true) s0.th t := ⟨ech, hech, hcl⟩
        obtain ⟨fs1, e', fs2, u0, u1, k1, _, k3, k4, k5, _⟩ :=
          Broadcast.run_first_flip model (fun s => echHas (fun c => c.closed = true) s.th t) model.init s0 es1 g2
            (by intro ⟨c, hc, _⟩; simp [model] at hc) hQ
        obtain ⟨c, _, hnc, hcase⟩ := step_echHas (fun c => c.closed = true) (by simp)
          (by intro c rest _ hp; exact hp) u0 u1 e' t k3 k5 k4
        rcases hcase with ⟨m, _, hp⟩ | ⟨he, _⟩
        · exact absurd hp hnc
        · subst he; rw [g1, k1]; simp

/-- **C15, an error is returned only if it was sent on the call's error channel, or is the
validator's own error on a content the cell actually held.** -/
theorem wait_err_only_if_fired (es : List Ev) (s : St) (t err : Nat)
    (h : model.run model.init (es ++ [.retWait t (.err err)]) = some s) :
    Ev.envErr t (some err) ∈ es ∨
    (err = verrCode ∧ ∃ es1 e es2 s0 s1 k, es = es1 ++ e :: es2 ∧
      model.run model.init es1 = some s0 ∧ step s0 e = some s1 ∧ (e = .waitCS t ∨ e = .wakeCS t) ∧
      waitingWith s0 t k ∧ k.eval s0.m s0.val = .error) := by
  obtain ⟨sm, hrun, hl⟩ := model.run_prefix _ _ _ _ h
  simp only [OLTS.run] at hl
  cases hst : model.step sm (.retWait t (.err err)) with
  | none => simp [hst] at hl
  | some s' =>
    have hth := retWait_from sm s' t (.err err) hst
    obtain ⟨es1, e, es2, s0, s1, g1, g2, g3, g4, g5, _⟩ :=
      Broadcast.run_first_flip model (fun s => s.th[t]? = some (.wRet (.err err))) model.init sm es hrun
        (by simp [model]) hth
    rcases step_wRet s0 s1 e t (.err err) g3 g5 g4 with ⟨k, he, hw, _, hres⟩ | ⟨hb, _⟩ | ⟨_, ech, hech, hres⟩
    · right
      rcases hres with ⟨_, hrk⟩ | ⟨hev, hrk⟩
      · cases k <;> simp [okResult] at hrk
      · cases hrk
        exact ⟨rfl, es1, e, es2, s0, s1, k, g1, g2, g3, he, hw, hev⟩
    · cases hb
    · left
      rcases hres with ⟨err', hq, hrk⟩ | ⟨_, _, hrk⟩
      · cases hrk
        have hmem : some err ∈ ech.q := by
          cases hq' : ech.q with
          | nil => simp [hq'] at hq
          | cons a r => simp [hq'] at hq; simp [hq]
        have hQ : echHas (fun c => some err ∈ c.q) s0.th t := ⟨ech, hech, hmem⟩
        obtain ⟨fs1, e', fs2, u0, u1, k1, _, k3, k4, k5, _⟩ :=
          Broadcast.run_first_flip model (fun s => echHas (fun c => some err ∈ c.q) s.th t) model.init s0 es1 g2
            (by intro ⟨c, hc, _⟩; simp [model] at hc) hQ
        obtain ⟨c, _, hnc, hcase⟩ := step_echHas (fun c => some err ∈ c.q) (by simp)
          (by intro c rest hq hp; rw [hq]; simp at hp ⊢; exact hp) u0 u1 e' t k3 k5 k4
        rcases hcase with ⟨m, he, hp⟩ | ⟨_, hp⟩
        · simp at hp
          rcases hp with hp | hp
          · exact absurd hp hnc
          · subst hp; subst he; rw [g1, k1]; simp
        · exact absurd hp hnc
      · cases hrk

/-! ## never blocked while the content satisfies the condition -/

/-- **C15, no lost wake-up (parked invariant).** In every reachable state a wait call parked on a
still-open channel has a condition that is false on the current content: every write issued after it
sampled the content closed its channel — including a write that lands between its critical section
and its `select`. No discipline is needed: `SetValue`/`SwapValue` broadcast in the very critical
section in which they change the content. -/
theorem wait_parked_open_false (es : List Ev) (s : St) (h : model.run model.init es = some s)
    (t : Nat) (k : WKind) (e : Option ECh) (ch : Nat) (ht : s.th[t]? = some (.wParked k e ch))
    (hopen : s.bc.closed ch = false) : k.eval s.m s.val = .no :=
  ((reachable_inv es s h).parked t k e ch ht).2 hopen

/-- **C15, no lost wake-up (enabledness).** If the content satisfies (or fails) the condition of a
parked wait call, its channel is closed, its re-check critical section is enabled *now*, and that
step makes the call return the current content (or the validator's error). -/
theorem wait_satisfied_enabled (es : List Ev) (s : St) (h : model.run model.init es = some s)
    (t : Nat) (k : WKind) (e : Option ECh) (ch : Nat) (ht : s.th[t]? = some (.wParked k e ch))
    (hsat : k.eval s.m s.val ≠ .no) :
    s.bc.closed ch = true ∧ ∃ s', step s (.wakeCS t) = some s' ∧
      (s'.th[t]? = some (.wRet (okResult k s.val)) ∨ s'.th[t]? = some (.wRet (.err verrCode))) := by
  have hcl : s.bc.closed ch = true := by
    cases hcl : s.bc.closed ch
    · exact absurd (wait_parked_open_false es s h t k e ch ht hcl) hsat
    · rfl
  have hlt := lt_of_getElem? ht
  refine ⟨hcl, waitAttempt s t k e, by simp [step, ht, hcl], ?_⟩
  unfold waitAttempt
  cases hev : k.eval s.m s.val with
  | ok => left; cases k <;> simp [hlt, okResult]
  | error => right; simp [hlt]
  | no => exact absurd hev hsat

/-- **C15, no lost wake-up (quiescence).** When nothing can take a step any more (`quiesce` is
enabled), no pending wait call has a condition that is satisfied or failing on the content. -/
theorem wait_quiescent_none_true (es : List Ev) (s : St) (h : model.run model.init es = some s)
    (hq : quiescent s = true) (t : Nat) (k : WKind) (e : Option ECh) (ch : Nat)
    (ht : s.th[t]? = some (.wParked k e ch)) : k.eval s.m s.val = .no := by
  have hlt := lt_of_getElem? ht
  unfold quiescent at hq
  rw [List.all_eq_true] at hq
  have := hq t (by simp [hlt])
  simp only [ht, TS.quiet] at this
  simp at this
  exact wait_parked_open_false es s h t k e ch ht this.1.1

/-! ## observable form -/

/-- **C15 (observable form).** Every observable trace of the CContainer model — every number of
writers and waiters, every interleaving, both equalities — is accepted by the monitor `monC15` that
the driver also evaluates on histories recorded from the real code: atomic-cell bounds (values that
may have been held; increment counting), returned values satisfy their condition and were held,
errors only from a source that fired, no satisfied waiter at quiescence. With `accepts_sound`:
every implementation history the model accepts satisfies C15 in its observable form. -/
theorem C15_obs (es : List Ev) (s : St) (h : model.run model.init es = some s) :
    monC15.accepts (es.filterMap model.obs) = true :=
  monitor_accepts_of_simulation model monC15 RelC relC_init
    (fun s e s' ms hR hs => by
      have h := c15_sim_step s e s' ms hR hs
      cases e <;> exact h) es s h

/-! ## the model can do something -/

/-- a write lands between a waiter's sample and its select: the waiter is parked on a *closed*
channel, re-checks and returns the new value -/
example : ∃ s, model.run model.init
    [.new 0 0, .invWait 0 .value false, .waitCS 0, .invOp 1 (.set 3), .opCS 1, .retOp 1 0,
     .wakeCS 0, .retWait 0 (.val 3), .quiesce []] = some s ∧ s.val = 3 := by
  decide

/-- three interleaved increments, all critical sections after all invocations: +3 -/
example : ∃ s, model.run model.init
    [.new 1 0, .invOp 0 (.swap .inc), .invOp 1 (.swap .inc), .invOp 2 (.swap .inc),
     .opCS 2, .opCS 0, .opCS 1, .retOp 0 3, .retOp 1 4, .retOp 2 2] = some s ∧ s.val = 4 := by
  decide

/-- custom equality modulo 10: `SetValue(13)` on content 3 stores nothing and wakes nobody; the
waiter for a change stays parked, legitimately -/
example : ∃ s, model.run model.init
    [.new 3 10, .invWait 0 (.change 3) false, .waitCS 0, .invOp 1 (.set 13), .opCS 1, .retOp 1 0,
     .quiesce [0]] = some s ∧ s.val = 3 := by
  decide

end UtilModel.CContainer
