import UtilModel.CContainer.Model
import UtilModel.CContainer.Monitors
