import UtilModel.CContainer.Model
import UtilModel.Broadcast.Util
/-!
# ccontainer: property C15 as an executable monitor over observable histories

The automaton mentions only API-level events. Calls overlap in a history, so the order of two
overlapping critical sections is not observable; each clause is stated in the form forced by the
real-time order of the log.

* **atomic cell.** The monitor tracks `poss`, the set of values the cell may hold, as long as the
  history determines it (writers that do not overlap each other; after overlapping writers it is
  unknown until a `GetValue` that overlaps no writer reads it). A `GetValue` / `SwapValue` must
  return (the callback applied to) a value the cell may have held during the call. Independently,
  while every writer so far is `SwapValue(increment)` (and the equality is not "modulo 1"), the
  value read by any call is at least `initial + #increments finished before the call was invoked`
  and at most `initial + #increments invoked` — so *N* concurrent increments give exactly *+N*: no
  update is lost.
* **waiters.** A value returned by a wait call satisfies its condition, and is a value the cell may
  have held during the call (same two bounds). `WaitValueEmpty` returns nil only if an empty value
  may have been held. An error is returned only if it was sent on the call's error channel or is
  the validator's error on a value that may have been held; `context.Canceled` only if the context
  was cancelled or the error channel closed.
* **no lost wake-up.** At a quiescence point where the value of the cell is determined, no pending
  wait call has a condition that is satisfied (or failing) on it.
-/
namespace UtilModel.CContainer
open UtilModel

def Op.isWriter : Op → Bool
  | .get => false
  | .set _ => true
  | .swap .nilcb => false
  | .swap _ => true

def Op.isInc : Op → Bool
  | .swap .inc => true
  | _ => false

inductive CEntry where
  /-- a cell operation: values the cell may have held during the call so far (`none`: unknown),
  number of increments finished at its invocation, "no writer overlapped it", still pending -/
  | op (o : Op) (seen : Option (List Nat)) (lo : Nat) (clean pend : Bool)
  | wait (k : WKind) (seen : Option (List Nat)) (lo : Nat)
deriving Repr

structure C15St where
  m : Nat := 0
  calls : List CEntry := []
  cancelled : List Nat := []
  errsent : List (Nat × Nat) := []
  errclosed : List Nat := []
  /-- the values the cell may hold now or get from the pending writer; `none`: not determined -/
  poss : Option (List Nat) := some [0]
  /-- number of pending writers (SetValue, SwapValue with a callback) -/
  nwr : Nat := 0
  /-- the only pending writer, if it has been alone since it was invoked, and `poss` before it -/
  solo : Option (Nat × Option (List Nat)) := none
  /-- every writer so far is `SwapValue(increment)` -/
  incOnly : Bool := true
  base : Nat := 0
  incInv : Nat := 0
  incDone : Nat := 0
deriving Repr

def addSeen (n : Option (List Nat)) : Option (List Nat) → Option (List Nat)
  | some l => n.map (l ++ ·)
  | none => none

def CEntry.see (n : Option (List Nat)) : CEntry → CEntry
  | .op o seen lo _ true => .op o (addSeen n seen) lo false true
  | .wait k seen lo => .wait k (addSeen n seen) lo
  | e => e

/-- membership in a possibly unknown set: unknown constrains nothing -/
def mayBe (seen : Option (List Nat)) (p : Nat → Bool) : Bool :=
  match seen with
  | some l => l.any p
  | none => true

def knownV : Option (List Nat) → Option Nat
  | some (v :: r) => if r.all (· == v) then some v else none
  | _ => none

/-- the increment-counting bounds -/
def C15St.inBounds (ms : C15St) (lo add v : Nat) : Bool :=
  !(ms.incOnly && ms.m != 1) || (ms.base + lo + add ≤ v && v ≤ ms.base + ms.incInv)

/-- is `r` an acceptable result of operation `o` (values possibly held: `seen`; increments finished at
its invocation: `lo`)? -/
def okResOf (ms : C15St) (o : Op) (seen : Option (List Nat)) (lo r : Nat) : Bool :=
  match o with
  | .get => mayBe seen (· == r) && ms.inBounds lo 0 r
  | .set _ => true
  | .swap f => mayBe seen (fun v => f.apply v == r) &&
      (match f with
       | .inc => ms.inBounds lo 1 r
       | .nilcb => ms.inBounds lo 0 r
       | _ => true)

/-- monitor state after operation `t` (entry `.op o seen lo clean true`) returned `r` -/
def retOpMs (ms : C15St) (t : Nat) (o : Op) (seen : Option (List Nat)) (lo : Nat) (clean : Bool)
    (r : Nat) : C15St :=
  if o.isWriter then
    { ms with
      calls := ms.calls.set t (.op o seen lo clean false)
      nwr := ms.nwr - 1
      incDone := ms.incDone + (if o.isInc then 1 else 0)
      poss := match ms.solo with
        | some (d, saved) => if d = t then saved.map (fun l => l.map (o.newVal ms.m)) else none
        | none => none
      solo := none }
  else if clean && o == .get then
    { ms with calls := ms.calls.set t (.op o seen lo clean false), poss := some [r] }
  else { ms with calls := ms.calls.set t (.op o seen lo clean false) }

def monC15 : ObsMonitor Obs C15St where
  init := {}
  step := fun ms o =>
    match o with
    | .new v m => some { ms with m := m, poss := some [v], base := v }
    | .invOp _ o =>
      if o.isWriter then
        let poss' := if ms.nwr = 0 then ms.poss.map (fun l => l ++ l.map (o.newVal ms.m)) else none
        some { ms with
          calls := ms.calls.map (CEntry.see poss') ++ [.op o poss' ms.incDone false true]
          poss := poss'
          nwr := ms.nwr + 1
          solo := if ms.nwr = 0 then some (ms.calls.length, ms.poss) else none
          incOnly := ms.incOnly && o.isInc
          incInv := ms.incInv + (if o.isInc then 1 else 0) }
      else
        some { ms with calls := ms.calls ++ [.op o ms.poss ms.incDone (ms.nwr == 0) true] }
    | .retOp t r =>
      match ms.calls[t]? with
      | some (.op o seen lo clean true) =>
        if okResOf ms o seen lo r then some (retOpMs ms t o seen lo clean r) else none
      | _ => some ms
    | .invWait _ k _ => some { ms with calls := ms.calls ++ [.wait k ms.poss ms.incDone] }
    | .retWait t res =>
      match ms.calls[t]? with
      | some (.wait k seen lo) =>
        let ok : Bool := match res with
          | .val v => k != .empty && k.eval ms.m v == .ok && mayBe seen (· == v) && ms.inBounds lo 0 v
          | .ok => k == .empty && mayBe seen (fun v => k.eval ms.m v == .ok)
          | .err e => ms.errsent.contains (t, e) ||
              (e == verrCode && mayBe seen (fun v => k.eval ms.m v == .error))
          | .canceled => ms.cancelled.contains t || ms.errclosed.contains t
        if ok then some ms else none
      | _ => some ms
    | .envCancel t => some { ms with cancelled := t :: ms.cancelled }
    | .envErr t (some e) => some { ms with errsent := (t, e) :: ms.errsent }
    | .envErr _ none => some ms
    | .envErrClose t => some { ms with errclosed := t :: ms.errclosed }
    | .quiesce B =>
      if ms.nwr == 0 then
        match knownV ms.poss with
        | some v =>
          if B.all (fun c => match ms.calls[c]? with
              | some (.wait k _ _) => k.eval ms.m v == .no
              | _ => true) then some ms else none
        | none => some ms
      else some ms

end UtilModel.CContainer
