import UtilModel.CContainer.Model
import UtilModel.CContainer.Monitors
import UtilModel.Broadcast.Util
/-!
# ccontainer.WatchChanges — layered model (ccontainer/watchable.go)

`WatchChanges(ctx, initial, watchable, cb, errCh)` is a client loop over the `Watchable` interface:

    current := initial
    for { next, err := watchable.WaitValueChange(ctx, current, errCh); if err != nil { return err }
          current = next; if err := cb(next); err != nil { return err } }

The harness hands it `ToWatchable(container)` wrapped in a pass-through that logs every inner
`WaitValueChange` call as an ordinary wait call of the core model (`inv t wait change old [ech]` …
`ret t wait …`) followed by `wcall w t` ("call `t` was issued by watcher `w`"). The context and the
error channel are shared by all inner calls of a watcher; the harness replays their state onto each
inner call (`env cancel t`, `env errsend t e`, … right after its invocation), so each inner call is a
core wait call with its own context and channel and **the core model is unchanged**.

This file layers the watcher loop on top of the core model: `WSt` = core state + one `WTS` per
watcher. Watchers have their own id space (`winv w …` in invocation order). All watcher events are
observable; a core event is passed to the core model, and the response of an inner call moves its
watcher on. `quiesce` additionally needs every watcher to be waiting in an inner call (or over).
-/
namespace UtilModel.CContainer
open UtilModel

/-- why a watch ended -/
inductive WCause where
  | cberr           -- the callback returned an error
  | err (e : Nat)   -- the inner wait returned error `e` (error channel / validator)
  | canceled        -- the inner wait returned context.Canceled (ctx cancelled or error channel closed)
  | nil             -- WatchChanges returned nil: never happens (no watcher state leads to it)
deriving DecidableEq, Repr, Hashable

inductive WObs where
  | core (o : Obs)
  | winv (w init : Nat) (ech : Bool)   -- `winv w init [ech]`
  | wcall (w t : Nat)                  -- `wcall w t`: inner WaitValueChange call `t` belongs to watcher `w`
  | wcbin (w v : Nat)                  -- `wcbin w v`: the callback is entered with `v`
  | wcbout (w : Nat) (ok : Bool)       -- `wcbout w ok|err`
  | wret (w : Nat) (r : WCause)        -- `wret w cberr|err e|canceled`
deriving DecidableEq, Repr

inductive WEv where
  | core (e : Ev)
  | winv (w init : Nat) (ech : Bool)
  | wcall (w t : Nat)
  | wcbin (w v : Nat)
  | wcbout (w : Nat) (ok : Bool)
  | wret (w : Nat) (r : WCause)
deriving DecidableEq, Repr

def WEv.obs : WEv → Option WObs
  | .core e => e.obs.map .core
  | .winv w i e => some (.winv w i e)
  | .wcall w t => some (.wcall w t)
  | .wcbin w v => some (.wcbin w v)
  | .wcbout w ok => some (.wcbout w ok)
  | .wret w r => some (.wret w r)

def WObs.ev : WObs → WEv
  | .core o => .core o.ev
  | .winv w i e => .winv w i e
  | .wcall w t => .wcall w t
  | .wcbin w v => .wcbin w v
  | .wcbout w ok => .wcbout w ok
  | .wret w r => .wret w r

/-- state of one watcher -/
inductive WTS where
  | idle (cur : Nat) (ech : Bool)            -- about to call WaitValueChange(cur)
  | waiting (cur : Nat) (ech : Bool) (t : Nat)  -- inner call `t` pending
  | got (ech : Bool) (v : Nat)               -- inner call returned `v`; callback not yet entered
  | incb (ech : Bool) (v : Nat)              -- inside the callback with `v`
  | failing (r : WCause)                     -- about to return `r`
  | done
deriving DecidableEq, Repr, Hashable

structure WSt where
  core : St := {}
  ws : List WTS := []
deriving DecidableEq, Repr

instance (priority := high) instBEqWSt : BEq WSt := ⟨fun a b => a.core.norm == b.core.norm && a.ws == b.ws⟩
instance instHashableWSt : Hashable WSt := ⟨fun s => mixHash (hash s.core.norm) (hash s.ws)⟩

/-- the response `r` of inner call `t` moves the watcher that waits for it -/
def WTS.onRet (t : Nat) (r : WRes) : WTS → WTS
  | .waiting cur ech t' =>
    if t' = t then
      match r with
      | .val v => .got ech v
      | .err e => .failing (.err e)
      | .canceled => .failing .canceled
      | .ok => .waiting cur ech t'
    else .waiting cur ech t'
  | x => x

def WTS.quiet : WTS → Bool
  | .waiting _ _ _ => true
  | .done => true
  | _ => false

/-- effect of a core event on the watchers: the response of an inner call moves its watcher -/
def wsOnCore (ws : List WTS) : Ev → List WTS
  | .retWait t r => ws.map (WTS.onRet t r)
  | _ => ws

/-- `quiesce` additionally needs every watcher to be waiting in an inner call (or over) -/
def coreGuard (ws : List WTS) : Ev → Bool
  | .quiesce _ => ws.all WTS.quiet
  | _ => true

def wstep (s : WSt) : WEv → Option WSt
  | .core e =>
    if coreGuard s.ws e then (step s.core e).map fun c => { core := c, ws := wsOnCore s.ws e } else none
  | .winv w init ech => if w = s.ws.length then some { s with ws := s.ws ++ [.idle init ech] } else none
  | .wcall w t =>
    match s.ws[w]? with
    | some (.idle cur ech) =>
      if s.core.th[t]? = some (.wLoop (.change cur) (if ech then some {} else none)) then
        some { s with ws := s.ws.set w (.waiting cur ech t) }
      else none
    | _ => none
  | .wcbin w v =>
    match s.ws[w]? with
    | some (.got ech v') => if v = v' then some { s with ws := s.ws.set w (.incb ech v) } else none
    | _ => none
  | .wcbout w ok =>
    match s.ws[w]? with
    | some (.incb ech v) => some { s with ws := s.ws.set w (if ok then .idle v ech else .failing .cberr) }
    | _ => none
  | .wret w r =>
    match s.ws[w]? with
    | some (.failing r') => if r = r' then some { s with ws := s.ws.set w .done } else none
    | _ => none

def wmodel : OLTS WSt WEv WObs where
  init := {}
  step := wstep
  obs := WEv.obs
  cands := fun s => (internalCands s.core.th.length).map .core
  evsOf := fun _ o => [o.ev]

/-! ## the watcher clause of C15 as a monitor

For every watcher: each inner call asks for a change from the value delivered last (initially the
`initial` argument) — so, by the wait clause of `monC15` for that inner call, every delivered value
differs from the previous one (w.r.t. the container's equality) and was held during that inner call,
i.e. at some instant after the previous delivery; the callback is entered with exactly the value the
inner call returned; the watch goes on after a callback that returned nil, and it returns exactly
the callback's error, or the error / cancellation its last inner call returned. -/

structure WMon where
  prev : Nat                       -- value delivered last (or `initial`)
  ech : Bool
  inner : Option Nat := none       -- the pending inner call
  got : Option Nat := none         -- value returned by the inner call, not yet delivered
  incb : Bool := false
  cause : Option WCause := none    -- why the watch must end
  over : Bool := false
deriving Repr

structure WatchSt where
  ws : List WMon := []
  /-- kind and error-channel flag of every call, by call id (`none`: not a wait call) -/
  kinds : List (Option (WKind × Bool)) := []
deriving Repr

def WMon.onRet (t : Nat) (r : WRes) (m : WMon) : WMon :=
  if m.inner = some t then
    match r with
    | .val v => { m with inner := none, got := some v }
    | .err e => { m with inner := none, cause := some (.err e) }
    | .canceled => { m with inner := none, cause := some .canceled }
    | .ok => m
  else m

def monWatch : ObsMonitor WObs WatchSt where
  init := {}
  step := fun ms o =>
    match o with
    | .core (.invOp _ _) => some { ms with kinds := ms.kinds ++ [none] }
    | .core (.invWait _ k ech) => some { ms with kinds := ms.kinds ++ [some (k, ech)] }
    | .core (.retWait t r) => some { ms with ws := ms.ws.map (WMon.onRet t r) }
    | .core _ => some ms
    | .winv _ init ech => some { ms with ws := ms.ws ++ [{ prev := init, ech := ech }] }
    | .wcall w t =>
      match ms.ws[w]?, ms.kinds[t]? with
      | some m, some (some (k, ech)) =>
        -- the watcher is between deliveries and asks for a change from the value delivered last
        if m.inner.isNone && m.got.isNone && !m.incb && m.cause.isNone && !m.over &&
            k == .change m.prev && ech == m.ech then
          some { ms with ws := ms.ws.set w { m with inner := some t } }
        else none
      | _, _ => none
    | .wcbin w v =>
      match ms.ws[w]? with
      | some m => if m.got == some v && !m.incb then
          some { ms with ws := ms.ws.set w { m with got := none, incb := true, prev := v } } else none
      | none => none
    | .wcbout w ok =>
      match ms.ws[w]? with
      | some m => if m.incb then
          some { ms with ws := ms.ws.set w { m with incb := false, cause := if ok then none else some .cberr } }
        else none
      | none => none
    | .wret w r =>
      match ms.ws[w]? with
      | some m => if m.cause == some r && !m.over then
          some { ms with ws := ms.ws.set w { m with cause := none, over := true } } else none
      | none => none

/-- the core monitor on the core observables of a layered history -/
def liftMon {μ : Type} (mon : ObsMonitor Obs μ) : ObsMonitor WObs μ where
  init := mon.init
  step := fun ms o =>
    match o with
    | .core o => mon.step ms o
    | _ => some ms

/-- **C15 with the watcher clause** -/
def monC15W : ObsMonitor WObs (C15St × WatchSt) := Broadcast.monProd (liftMon monC15) monWatch

/-! ## parsing -/

def WObs.parse : List String → Option WObs
  | ["winv", w, i] => do pure (.winv (← w.toNat?) (← i.toNat?) false)
  | ["winv", w, i, "ech"] => do pure (.winv (← w.toNat?) (← i.toNat?) true)
  | ["wcall", w, t] => do pure (.wcall (← w.toNat?) (← t.toNat?))
  | ["wcbin", w, v] => do pure (.wcbin (← w.toNat?) (← v.toNat?))
  | ["wcbout", w, "ok"] => do pure (.wcbout (← w.toNat?) true)
  | ["wcbout", w, "err"] => do pure (.wcbout (← w.toNat?) false)
  | ["wret", w, "cberr"] => do pure (.wret (← w.toNat?) .cberr)
  | ["wret", w, "canceled"] => do pure (.wret (← w.toNat?) .canceled)
  | ["wret", w, "nil"] => do pure (.wret (← w.toNat?) .nil)
  | ["wret", w, "err", e] => do pure (.wret (← w.toNat?) (.err (← e.toNat?)))
  | l => (Obs.parse l).map .core

end UtilModel.CContainer
