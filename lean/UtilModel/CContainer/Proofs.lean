import UtilModel.CContainer.Model
import UtilModel.Broadcast.Util
/-!
# ccontainer.CContainer — invariants and helper lemmas

* `Inv`: well-formed channel generations and the **parked invariant** — a waiter parked on an open
  channel has a condition that is false on the current content (every operation that changes the
  content broadcasts in the same critical section),
* `step_val`: the content changes only in `opCS` events, by `Op.newVal`,
* `step_wRet`: the only steps after which a wait call is about to return a given result.
-/
namespace UtilModel.CContainer
open UtilModel

theorem newVal_of_not_stores (m val : Nat) (o : Op) (h : o.stores m val = false) :
    o.newVal m val = val := by
  cases o with
  | get => rfl
  | set v => simp [Op.stores] at h; simp [Op.newVal, h]
  | swap f =>
    cases f with
    | nilcb => simp only [Op.newVal, SwapF.apply]; exact ite_self _
    | inc => simp [Op.stores, SwapF.apply] at h; simp [Op.newVal, h, SwapF.apply]
    | setk k => simp [Op.stores, SwapF.apply] at h; simp [Op.newVal, h, SwapF.apply]
    | clear => simp [Op.stores, SwapF.apply] at h; simp [Op.newVal, h, SwapF.apply]

theorem inc_newVal (m val : Nat) (hm : m ≠ 1) : (Op.swap .inc).newVal m val = val + 1 := by
  have hne : compare m val (val + 1) = false := by
    unfold compare
    have h1 : (val == val + 1) = false := by simp
    rw [h1]
    by_cases hm0 : m = 0
    · simp [hm0]
    · have hpos : 0 < m := Nat.pos_of_ne_zero hm0
      have hlt := Nat.mod_lt val hpos
      have : val % m ≠ (val + 1) % m := by
        intro h
        rw [Nat.add_mod] at h
        by_cases hlast : val % m + 1 < m
        · rw [Nat.mod_eq_of_lt (by omega : 1 < m), Nat.mod_eq_of_lt hlast] at h; omega
        · have hm2 : 1 < m := by omega
          rw [Nat.mod_eq_of_lt hm2] at h
          have : val % m + 1 = m := by omega
          rw [this, Nat.mod_self] at h; omega
      simp [hm0, this]
  simp [Op.newVal, SwapF.apply, hne]

/-- what a parked waiter can rely on -/
def parkedOK (m val : Nat) (bc : Bcast) (k : WKind) (ch : Nat) : Prop :=
  ch < bc.next ∧ (bc.closed ch = false → k.eval m val = .no)

structure Inv (s : St) : Prop where
  bcwf : s.bc.WF
  /-- **no lost wake-up**: parked on an open channel ⇒ condition false on the current content -/
  parked : ∀ (t : Nat) (k : WKind) (e : Option ECh) (ch : Nat),
    s.th[t]? = some (.wParked k e ch) → parkedOK s.m s.val s.bc k ch

theorem init_inv : Inv ({} : St) := by
  refine ⟨Bcast.wf_init, ?_⟩
  intro t k e ch h; simp at h

theorem inv_set (s : St) (t : Nat) (a b : TS) (val : Nat) (bc : Bcast) (cx : List Nat)
    (hi : Inv s) (_ha : s.th[t]? = some a) (hbc : bc.WF) (hnext : s.bc.next ≤ bc.next)
    (hp : ∀ (u : Nat) (k : WKind) (e : Option ECh) (ch : Nat), u ≠ t →
            s.th[u]? = some (.wParked k e ch) → (bc.closed ch = false → k.eval s.m val = .no))
    (hbp : ∀ k e ch, b = .wParked k e ch → parkedOK s.m val bc k ch) :
    Inv { s with val := val, bc := bc, th := s.th.set t b, cx := cx } := by
  refine ⟨hbc, ?_⟩
  intro u k e ch hu
  simp only at hu
  rcases getElem?_set_cases s.th t u b _ hu with ⟨_, hx⟩ | ⟨hne, hx⟩
  · exact hbp k e ch hx.symm
  · have := (hi.parked u k e ch hx).1
    exact ⟨by simp only; omega, hp u k e ch hne hx⟩

theorem inv_move (s : St) (t : Nat) (a b : TS) (cx : List Nat) (hi : Inv s) (ha : s.th[t]? = some a)
    (hbp : ∀ k e ch, b = .wParked k e ch → ∃ e', a = .wParked k e' ch) :
    Inv { s with th := s.th.set t b, cx := cx } := by
  refine inv_set s t a b s.val s.bc cx hi ha hi.bcwf (Nat.le_refl _) ?_ ?_
  · intro u k e ch _ hu; exact (hi.parked u k e ch hu).2
  · intro k e ch h
    obtain ⟨e', he'⟩ := hbp k e ch h
    subst he'
    exact hi.parked t k e' ch ha

theorem inv_append (s : St) (b : TS) (hi : Inv s) (hbp : ∀ k e ch, b ≠ .wParked k e ch) :
    Inv { s with th := s.th ++ [b] } := by
  refine ⟨hi.bcwf, ?_⟩
  intro u k e ch hu
  rcases getElem?_snoc_cases _ _ _ _ hu with ⟨_, h'⟩ | ⟨_, h'⟩
  · exact hi.parked u k e ch h'
  · exact absurd h'.symm (hbp k e ch)

theorem waitAttempt_inv (s : St) (t : Nat) (a : TS) (k : WKind) (e : Option ECh) (hi : Inv s)
    (ha : s.th[t]? = some a) : Inv (waitAttempt s t k e) := by
  obtain ⟨g1, g2, g3, g4, g5, g6, g7⟩ := Bcast.getWaitCh_spec s.bc hi.bcwf
  have keep : ∀ (u : Nat) (k' : WKind) (e' : Option ECh) (ch : Nat), u ≠ t →
      s.th[u]? = some (.wParked k' e' ch) →
      (s.bc.getWaitCh.1.closed ch = false → k'.eval s.m s.val = .no) := by
    intro u k' e' ch _ hu hc
    have hc' : s.bc.closed ch = false := by
      cases h : s.bc.closed ch
      · rfl
      · rw [Bcast.closed_mono_get s.bc hi.bcwf ch h] at hc; cases hc
    exact (hi.parked u k' e' ch hu).2 hc'
  unfold waitAttempt
  split
  · exact inv_set s t a _ s.val _ s.cx hi ha g7 g3 keep (by intro k' e' c h; cases h)
  · exact inv_set s t a _ s.val _ s.cx hi ha g7 g3 keep (by intro k' e' c h; cases h)
  · rename_i hev
    refine inv_set s t a _ s.val _ s.cx hi ha g7 g3 keep ?_
    intro k' e' c h
    cases h
    exact ⟨g2, fun _ => hev⟩

theorem onECh_inv (s s' : St) (t : Nat) (f : ECh → Option ECh) (hi : Inv s)
    (hs : onECh s t f = some s') : Inv s' := by
  unfold onECh at hs
  split at hs
  · rename_i k e h
    cases hf : f e with
    | none => simp [hf] at hs
    | some e' =>
      simp [hf] at hs; subst hs
      exact inv_move s t _ _ s.cx hi h (by intro k' e'' c hb; cases hb)
  · rename_i k e c h
    cases hf : f e with
    | none => simp [hf] at hs
    | some e' =>
      simp [hf] at hs; subst hs
      exact inv_move s t _ _ s.cx hi h (by intro k' e'' c' hb; cases hb; exact ⟨_, rfl⟩)
  · simp at hs; subst hs; exact hi
  · simp at hs; subst hs; exact hi
  · simp at hs

theorem step_inv (s : St) (e : Ev) (s' : St) (hi : Inv s) (hs : step s e = some s') : Inv s' := by
  cases e with
  | new v m =>
    simp only [step] at hs; split at hs <;> simp at hs; subst hs
    rename_i hth
    refine ⟨hi.bcwf, ?_⟩
    intro t k e ch h; simp [hth] at h
  | invOp t o =>
    simp only [step] at hs; split at hs <;> simp at hs; subst hs
    exact inv_append s _ hi (by intro k e c h; cases h)
  | opCS t =>
    simp only [step] at hs; split at hs <;> simp at hs; subst hs
    rename_i o h
    cases hst : o.stores s.m s.val with
    | true =>
      obtain ⟨_, b2, b3, b4, _⟩ := Bcast.broadcast_spec s.bc
      simp only [if_true]
      refine inv_set s t _ _ _ _ s.cx hi h b3 (by omega) ?_ (by intro k e c hb; cases hb)
      intro u k e ch _ hu hc
      rw [b4 ch (hi.parked u k e ch hu).1] at hc; cases hc
    | false =>
      simp only [Bool.false_eq_true, if_false]
      rw [newVal_of_not_stores s.m s.val o hst]
      exact inv_move s t _ _ s.cx hi h (by intro k e c hb; cases hb)
  | retOp t r =>
    simp only [step] at hs; split at hs <;> simp at hs
    obtain ⟨_, rfl⟩ := hs; rename_i o r' h _
    exact inv_move s t _ _ s.cx hi h (by intro k e c hb; cases hb)
  | invWait t k ech =>
    simp only [step] at hs; split at hs <;> simp at hs; subst hs
    exact inv_append s _ hi (by intro k e c h; cases h)
  | waitCS t =>
    simp only [step] at hs; split at hs <;> simp at hs; subst hs
    rename_i k e h
    exact waitAttempt_inv s t _ k e hi h
  | wakeCS t =>
    simp only [step] at hs; split at hs <;> simp at hs
    obtain ⟨_, rfl⟩ := hs; rename_i k e c h _
    exact waitAttempt_inv s t _ k e hi h
  | ctxTake t =>
    simp only [step] at hs; split at hs <;> simp at hs
    obtain ⟨_, rfl⟩ := hs; rename_i k e c h _
    exact inv_move s t _ _ s.cx hi h (by intro k e c hb; cases hb)
  | errTake t =>
    simp only [step] at hs; split at hs <;> try simp at hs
    rename_i k e c h
    split at hs
    · simp at hs; subst hs
      exact inv_move s t _ _ s.cx hi h (by intro k e c hb; cases hb)
    · simp at hs; subst hs
      exact inv_move s t _ _ s.cx hi h (by intro k e c hb; cases hb)
    · split at hs <;> simp at hs; subst hs
      exact inv_move s t _ _ s.cx hi h (by intro k e c hb; cases hb)
  | retWait t r =>
    simp only [step] at hs; split at hs <;> simp at hs
    obtain ⟨_, rfl⟩ := hs; rename_i r' h _
    exact inv_move s t _ _ s.cx hi h (by intro k e c hb; cases hb)
  | envCancel t =>
    simp only [step] at hs; split at hs <;> simp at hs; subst hs
    exact ⟨hi.bcwf, hi.parked⟩
  | envErr t e => exact onECh_inv s s' t _ hi hs
  | envErrClose t => exact onECh_inv s s' t _ hi hs
  | quiesce B =>
    simp only [step] at hs; split at hs <;> simp at hs; subst hs; exact hi

/-- the invariant holds after every event list -/
theorem reachable_inv (es : List Ev) (s : St) (h : model.run model.init es = some s) : Inv s :=
  model.run_invariant Inv (fun s e s' hi hs => step_inv s e s' hi hs) _ _ es init_inv h


/-! ## the content changes only in `opCS`, by the operation's own function -/

def TS.pendingOp : TS → Option Op
  | .opInv o => some o
  | _ => none

/-- the cell operation an event executes, if it is a critical section of Get/Set/Swap -/
def opOf (s : St) : Ev → Option Op
  | .opCS t =>
    match s.th[t]? with
    | some ts => TS.pendingOp ts
    | none => none
  | _ => none

/-- the cell operations executed along a run, in order -/
def opsAlong (s : St) : List Ev → List Op
  | [] => []
  | e :: es => (match opOf s e with
      | some o => [o]
      | none => []) ++ (match step s e with
      | some s' => opsAlong s' es
      | none => [])

theorem waitAttempt_val (s : St) (t : Nat) (k : WKind) (e : Option ECh) :
    (waitAttempt s t k e).val = s.val ∧ (waitAttempt s t k e).m = s.m ∧
    (waitAttempt s t k e).cx = s.cx := by
  unfold waitAttempt; split <;> exact ⟨rfl, rfl, rfl⟩

theorem onECh_val (s s' : St) (t : Nat) (f : ECh → Option ECh) (hs : onECh s t f = some s') :
    s'.val = s.val ∧ s'.m = s.m ∧ s'.cx = s.cx ∧ s'.bc = s.bc := by
  unfold onECh at hs
  split at hs
  · rename_i k e h
    cases hf : f e with
    | none => simp [hf] at hs
    | some e' => simp [hf] at hs; subst hs; exact ⟨rfl, rfl, rfl, rfl⟩
  · rename_i k e c h
    cases hf : f e with
    | none => simp [hf] at hs
    | some e' => simp [hf] at hs; subst hs; exact ⟨rfl, rfl, rfl, rfl⟩
  · simp at hs; subst hs; exact ⟨rfl, rfl, rfl, rfl⟩
  · simp at hs; subst hs; exact ⟨rfl, rfl, rfl, rfl⟩
  · simp at hs

theorem step_val (s : St) (e : Ev) (s' : St) (hs : step s e = some s')
    (hnew : ∀ v m, e ≠ .new v m) :
    s'.m = s.m ∧ s'.val = (match opOf s e with
      | some o => o.newVal s.m s.val
      | none => s.val) := by
  cases e with
  | new v m => exact absurd rfl (hnew v m)
  | invOp t o =>
    simp only [step] at hs; split at hs <;> simp at hs; subst hs; simp [opOf]
  | opCS t =>
    simp only [step] at hs; split at hs <;> simp at hs; subst hs
    rename_i o h
    simp [opOf, h, TS.pendingOp]
  | retOp t r =>
    simp only [step] at hs; split at hs <;> simp at hs
    obtain ⟨_, rfl⟩ := hs; simp [opOf]
  | invWait t k ech =>
    simp only [step] at hs; split at hs <;> simp at hs; subst hs; simp [opOf]
  | waitCS t =>
    simp only [step] at hs; split at hs <;> simp at hs; subst hs
    rename_i k e _
    have := waitAttempt_val s t k e
    simp [opOf, this.1, this.2.1]
  | wakeCS t =>
    simp only [step] at hs; split at hs <;> simp at hs
    obtain ⟨_, rfl⟩ := hs
    rename_i k e _ _ _
    have := waitAttempt_val s t k e
    simp [opOf, this.1, this.2.1]
  | ctxTake t =>
    simp only [step] at hs; split at hs <;> simp at hs
    obtain ⟨_, rfl⟩ := hs; simp [opOf]
  | errTake t =>
    simp only [step] at hs; split at hs <;> try simp at hs
    split at hs
    · simp at hs; subst hs; simp [opOf]
    · simp at hs; subst hs; simp [opOf]
    · split at hs <;> simp at hs; subst hs; simp [opOf]
  | retWait t r =>
    simp only [step] at hs; split at hs <;> simp at hs
    obtain ⟨_, rfl⟩ := hs; simp [opOf]
  | envCancel t =>
    simp only [step] at hs; split at hs <;> simp at hs; subst hs; simp [opOf]
  | envErr t e =>
    have := onECh_val s s' t _ hs; simp [opOf, this.1, this.2.1]
  | envErrClose t =>
    have := onECh_val s s' t _ hs; simp [opOf, this.1, this.2.1]
  | quiesce B =>
    simp only [step] at hs; split at hs <;> simp at hs; subst hs; simp [opOf]

/-! ## how a wait call gets its result -/

theorem set_hit {α : Type} (l : List α) (u t : Nat) (b x : α) (h1 : (l.set u b)[t]? = some x)
    (h0 : l[t]? ≠ some x) : u = t ∧ b = x := by
  rcases getElem?_set_cases l u t b x h1 with ⟨h, hx⟩ | ⟨_, hx⟩
  · exact ⟨h.symm, hx.symm⟩
  · exact absurd hx h0

theorem snoc_hit {α : Type} (l : List α) (t : Nat) (b x : α) (h1 : (l ++ [b])[t]? = some x)
    (h0 : l[t]? ≠ some x) : t = l.length ∧ b = x := by
  rcases getElem?_snoc_cases l b x t h1 with ⟨_, hx⟩ | ⟨h, hx⟩
  · exact absurd hx h0
  · exact ⟨h, hx.symm⟩

/-- call `t` is a wait call with condition `k` about to run its critical section -/
def waitingWith (s : St) (t : Nat) (k : WKind) : Prop :=
  (∃ e, s.th[t]? = some (.wLoop k e)) ∨
  ∃ e c, s.th[t]? = some (.wParked k e c) ∧ s.bc.closed c = true

/-- the result a successful pass returns: the sampled value (nil for `WaitValueEmpty`) -/
def okResult (k : WKind) (v : Nat) : WRes :=
  match k with
  | .empty => .ok
  | _ => .val v

/-- the error channel of a wait call -/
def TS.ech : TS → Option ECh
  | .wLoop _ e => e
  | .wParked _ e _ => e
  | _ => none

def echOf (s : St) (t : Nat) : Option ECh := (s.th[t]?).bind TS.ech

theorem waitAttempt_wRet (s : St) (u t : Nat) (k : WKind) (e : Option ECh) (r : WRes)
    (h1 : (waitAttempt s u k e).th[t]? = some (.wRet r)) (h0 : s.th[t]? ≠ some (.wRet r)) :
    u = t ∧ ((k.eval s.m s.val = .ok ∧ r = okResult k s.val) ∨
             (k.eval s.m s.val = .error ∧ r = .err verrCode)) := by
  unfold waitAttempt at h1
  split at h1
  · rename_i hev
    obtain ⟨h, hb⟩ := set_hit _ _ _ _ _ h1 h0
    cases hb; exact ⟨h, Or.inr ⟨hev, rfl⟩⟩
  · rename_i hev
    obtain ⟨h, hb⟩ := set_hit _ _ _ _ _ h1 h0
    refine ⟨h, Or.inl ⟨hev, ?_⟩⟩
    cases k <;> simp at hb <;> simp [okResult, hb]
  · obtain ⟨_, hb⟩ := set_hit _ _ _ _ _ h1 h0
    cases hb

theorem onECh_wRet (s s' : St) (u t : Nat) (f : ECh → Option ECh) (r : WRes)
    (hs : onECh s u f = some s') (h1 : s'.th[t]? = some (.wRet r)) : s.th[t]? = some (.wRet r) := by
  apply Classical.byContradiction
  intro h0
  unfold onECh at hs
  split at hs
  · rename_i k e h
    cases hf : f e with
    | none => simp [hf] at hs
    | some e' =>
      simp [hf] at hs; subst hs
      obtain ⟨_, hb⟩ := set_hit _ _ _ _ _ h1 h0; cases hb
  · rename_i k e c h
    cases hf : f e with
    | none => simp [hf] at hs
    | some e' =>
      simp [hf] at hs; subst hs
      obtain ⟨_, hb⟩ := set_hit _ _ _ _ _ h1 h0; cases hb
  · simp at hs; subst hs; exact h0 h1
  · simp at hs; subst hs; exact h0 h1
  · simp at hs

/-- the only steps after which call `t` is about to return `r` -/
theorem step_wRet (s s' : St) (e : Ev) (t : Nat) (r : WRes) (hs : step s e = some s')
    (h1 : s'.th[t]? = some (.wRet r)) (h0 : s.th[t]? ≠ some (.wRet r)) :
    (∃ k, (e = .waitCS t ∨ e = .wakeCS t) ∧ waitingWith s t k ∧ s'.val = s.val ∧
      ((k.eval s.m s.val = .ok ∧ r = okResult k s.val) ∨
       (k.eval s.m s.val = .error ∧ r = .err verrCode))) ∨
    (r = .canceled ∧ e = .ctxTake t ∧ s.cx.contains t = true) ∨
    (e = .errTake t ∧ ∃ ech, echOf s t = some ech ∧
      ((∃ err, ech.q.head? = some (some err) ∧ r = .err err) ∨
       (ech.q = [] ∧ ech.closed = true ∧ r = .canceled))) := by
  cases e with
  | new v m =>
    simp only [step] at hs; split at hs <;> simp at hs; subst hs; exact absurd h1 h0
  | invOp u o =>
    simp only [step] at hs; split at hs <;> simp at hs; subst hs
    obtain ⟨_, hb⟩ := snoc_hit _ _ _ _ h1 h0; cases hb
  | opCS u =>
    simp only [step] at hs; split at hs <;> simp at hs; subst hs
    obtain ⟨_, hb⟩ := set_hit _ _ _ _ _ h1 h0; cases hb
  | retOp u r' =>
    simp only [step] at hs; split at hs <;> simp at hs
    obtain ⟨_, rfl⟩ := hs
    obtain ⟨_, hb⟩ := set_hit _ _ _ _ _ h1 h0; cases hb
  | invWait u k ech =>
    simp only [step] at hs; split at hs <;> simp at hs; subst hs
    obtain ⟨_, hb⟩ := snoc_hit _ _ _ _ h1 h0; cases hb
  | waitCS u =>
    simp only [step] at hs; split at hs <;> simp at hs; subst hs
    rename_i k e h
    obtain ⟨hu, hr⟩ := waitAttempt_wRet s u t k e r h1 h0
    subst hu
    left
    exact ⟨k, Or.inl rfl, Or.inl ⟨e, h⟩, (waitAttempt_val s u k e).1, hr⟩
  | wakeCS u =>
    simp only [step] at hs; split at hs <;> simp at hs
    obtain ⟨hcl, rfl⟩ := hs
    rename_i k e c h
    obtain ⟨hu, hr⟩ := waitAttempt_wRet s u t k e r h1 h0
    subst hu
    left
    exact ⟨k, Or.inr rfl, Or.inr ⟨e, c, h, hcl⟩, (waitAttempt_val s u k e).1, hr⟩
  | ctxTake u =>
    simp only [step] at hs; split at hs <;> simp at hs
    obtain ⟨hcx, rfl⟩ := hs
    obtain ⟨hu, hb⟩ := set_hit _ _ _ _ _ h1 h0
    cases hb; subst hu
    right; left; exact ⟨rfl, rfl, by simpa using hcx⟩
  | errTake u =>
    simp only [step] at hs; split at hs <;> try simp at hs
    rename_i k ech c h
    split at hs
    · rename_i err rest hq
      simp at hs; subst hs
      obtain ⟨hu, hb⟩ := set_hit _ _ _ _ _ h1 h0
      cases hb; subst hu
      right; right
      exact ⟨rfl, ech, by simp [echOf, h, TS.ech], Or.inl ⟨err, by simp [hq], rfl⟩⟩
    · simp at hs; subst hs
      obtain ⟨_, hb⟩ := set_hit _ _ _ _ _ h1 h0; cases hb
    · rename_i hq
      split at hs <;> simp at hs; subst hs
      rename_i hcl
      obtain ⟨hu, hb⟩ := set_hit _ _ _ _ _ h1 h0
      cases hb; subst hu
      right; right
      exact ⟨rfl, ech, by simp [echOf, h, TS.ech], Or.inr ⟨hq, hcl, rfl⟩⟩
  | retWait u r' =>
    simp only [step] at hs; split at hs <;> simp at hs
    obtain ⟨_, rfl⟩ := hs
    obtain ⟨_, hb⟩ := set_hit _ _ _ _ _ h1 h0; cases hb
  | envCancel u =>
    simp only [step] at hs; split at hs <;> simp at hs; subst hs; exact absurd h1 h0
  | envErr u e => exact absurd (onECh_wRet s s' u t _ r hs h1) h0
  | envErrClose u => exact absurd (onECh_wRet s s' u t _ r hs h1) h0
  | quiesce B =>
    simp only [step] at hs; split at hs <;> simp at hs; subst hs; exact absurd h1 h0

theorem retWait_from (s s' : St) (t : Nat) (r : WRes) (hs : step s (.retWait t r) = some s') :
    s.th[t]? = some (.wRet r) := by
  simp only [step] at hs; split at hs <;> simp at hs
  obtain ⟨rfl, _⟩ := hs; rename_i h; exact h

theorem retOp_from (s s' : St) (t r : Nat) (hs : step s (.retOp t r) = some s') :
    ∃ o, s.th[t]? = some (.opRan o r) := by
  simp only [step] at hs; split at hs <;> simp at hs
  obtain ⟨rfl, _⟩ := hs; rename_i o _ h; exact ⟨o, h⟩


/-! ## the error sources: a context is cancelled only by `env cancel`, an error channel carries only
what `env errsend` put there and is closed only by `env errclose` -/

/-- the error channel of call `t` satisfies `P` -/
def echHas (P : ECh → Prop) (th : List TS) (t : Nat) : Prop :=
  ∃ ech, (th[t]?).bind TS.ech = some ech ∧ P ech

theorem echHas_set (P : ECh → Prop) (th : List TS) (u t : Nat) (b : TS)
    (h1 : echHas P (th.set u b) t) (h0 : ¬ echHas P th t) :
    u = t ∧ ∃ ech, TS.ech b = some ech ∧ P ech := by
  obtain ⟨ech, he, hp⟩ := h1
  by_cases hut : u = t
  · subst hut
    refine ⟨rfl, ech, ?_, hp⟩
    cases hb : (th.set u b)[u]? with
    | none => simp [hb] at he
    | some x =>
      rw [hb] at he
      rcases getElem?_set_cases th u u b x hb with ⟨_, hx⟩ | ⟨hne, _⟩
      · subst hx; simpa using he
      · exact absurd rfl hne
  · exfalso; apply h0
    refine ⟨ech, ?_, hp⟩
    rw [getElem?_set_ne' _ _ _ _ hut] at he; exact he

theorem echHas_snoc (P : ECh → Prop) (th : List TS) (t : Nat) (b : TS)
    (h1 : echHas P (th ++ [b]) t) (h0 : ¬ echHas P th t) :
    ∃ ech, TS.ech b = some ech ∧ P ech := by
  obtain ⟨ech, he, hp⟩ := h1
  cases hb : (th ++ [b])[t]? with
  | none => simp [hb] at he
  | some x =>
    rw [hb] at he
    rcases getElem?_snoc_cases th b x t hb with ⟨_, hx⟩ | ⟨_, hx⟩
    · exfalso; apply h0; exact ⟨ech, by rw [hx]; exact he, hp⟩
    · subst hx; exact ⟨ech, by simpa using he, hp⟩

theorem waitAttempt_ech (P : ECh → Prop) (s : St) (u t : Nat) (k : WKind) (e : Option ECh) (a : TS)
    (ha : s.th[u]? = some a) (hae : TS.ech a = e)
    (h1 : echHas P (waitAttempt s u k e).th t) : echHas P s.th t := by
  apply Classical.byContradiction
  intro h0
  unfold waitAttempt at h1
  split at h1
  · obtain ⟨_, ech, hb, _⟩ := echHas_set P _ _ _ _ h1 h0; simp [TS.ech] at hb
  · obtain ⟨_, ech, hb, _⟩ := echHas_set P _ _ _ _ h1 h0; simp [TS.ech] at hb
  · obtain ⟨hu, ech, hb, hp⟩ := echHas_set P _ _ _ _ h1 h0
    subst hu
    apply h0
    exact ⟨ech, by simp [ha, hae]; simpa [TS.ech] using hb, hp⟩

/-- the only steps that can make the error channel of call `t` satisfy `P`, for a `P` that is false
of a fresh channel and survives popping a nil message backwards -/
theorem step_echHas (P : ECh → Prop) (hempty : ¬ P {})
    (hpop : ∀ (ech : ECh) (rest : List (Option Nat)), ech.q = none :: rest → P { ech with q := rest } → P ech)
    (s s' : St) (e : Ev) (t : Nat) (hs : step s e = some s')
    (h1 : echHas P s'.th t) (h0 : ¬ echHas P s.th t) :
    ∃ ech, echOf s t = some ech ∧ ¬ P ech ∧
      ((∃ m, e = .envErr t m ∧ P { ech with q := ech.q ++ [m] }) ∨
       (e = .envErrClose t ∧ P { ech with closed := true })) := by
  have viaECh : ∀ (f : ECh → Option ECh), onECh s t f = some s' →
      ∃ ech ech', echOf s t = some ech ∧ f ech = some ech' ∧ P ech' ∧ ¬ P ech := by
    intro f hs
    unfold onECh at hs
    split at hs
    · rename_i k e0 h
      cases hf : f e0 with
      | none => simp [hf] at hs
      | some e' =>
        simp [hf] at hs; subst hs
        obtain ⟨_, ech, hb, hp⟩ := echHas_set P _ _ _ _ h1 h0
        simp [TS.ech] at hb; subst hb
        refine ⟨e0, e', by simp [echOf, h, TS.ech], hf, hp, ?_⟩
        intro hp0; apply h0; exact ⟨e0, by simp [h, TS.ech], hp0⟩
    · rename_i k e0 c h
      cases hf : f e0 with
      | none => simp [hf] at hs
      | some e' =>
        simp [hf] at hs; subst hs
        obtain ⟨_, ech, hb, hp⟩ := echHas_set P _ _ _ _ h1 h0
        simp [TS.ech] at hb; subst hb
        refine ⟨e0, e', by simp [echOf, h, TS.ech], hf, hp, ?_⟩
        intro hp0; apply h0; exact ⟨e0, by simp [h, TS.ech], hp0⟩
    · simp at hs; subst hs; exact absurd h1 h0
    · simp at hs; subst hs; exact absurd h1 h0
    · simp at hs
  have other : ∀ (u : Nat) (f : ECh → Option ECh), u ≠ t → onECh s u f = some s' → False := by
    intro u f hut hs
    unfold onECh at hs
    split at hs
    · rename_i k e0 h
      cases hf : f e0 with
      | none => simp [hf] at hs
      | some e' =>
        simp [hf] at hs; subst hs
        exact hut (echHas_set P _ _ _ _ h1 h0).1
    · rename_i k e0 c h
      cases hf : f e0 with
      | none => simp [hf] at hs
      | some e' =>
        simp [hf] at hs; subst hs
        exact hut (echHas_set P _ _ _ _ h1 h0).1
    · simp at hs; subst hs; exact h0 h1
    · simp at hs; subst hs; exact h0 h1
    · simp at hs
  cases e with
  | new v m =>
    simp only [step] at hs; split at hs <;> simp at hs; subst hs; exact absurd h1 h0
  | invOp u o =>
    simp only [step] at hs; split at hs <;> simp at hs; subst hs
    obtain ⟨ech, hb, _⟩ := echHas_snoc P _ _ _ h1 h0; simp [TS.ech] at hb
  | opCS u =>
    simp only [step] at hs; split at hs <;> simp at hs; subst hs
    obtain ⟨_, ech, hb, _⟩ := echHas_set P _ _ _ _ h1 h0; simp [TS.ech] at hb
  | retOp u r' =>
    simp only [step] at hs; split at hs <;> simp at hs
    obtain ⟨_, rfl⟩ := hs
    obtain ⟨_, ech, hb, _⟩ := echHas_set P _ _ _ _ h1 h0; simp [TS.ech] at hb
  | invWait u k ech =>
    simp only [step] at hs; split at hs <;> simp at hs; subst hs
    obtain ⟨ech', hb, hp⟩ := echHas_snoc P _ _ _ h1 h0
    cases ech <;> simp [TS.ech] at hb
    subst hb; exact absurd hp hempty
  | waitCS u =>
    simp only [step] at hs; split at hs <;> simp at hs; subst hs
    rename_i k e h
    exact absurd (waitAttempt_ech P s u t k e _ h rfl h1) h0
  | wakeCS u =>
    simp only [step] at hs; split at hs <;> simp at hs
    obtain ⟨_, rfl⟩ := hs
    rename_i k e c h _
    exact absurd (waitAttempt_ech P s u t k e _ h rfl h1) h0
  | ctxTake u =>
    simp only [step] at hs; split at hs <;> simp at hs
    obtain ⟨_, rfl⟩ := hs
    obtain ⟨_, ech, hb, _⟩ := echHas_set P _ _ _ _ h1 h0; simp [TS.ech] at hb
  | errTake u =>
    simp only [step] at hs; split at hs <;> try simp at hs
    rename_i k ech c h
    split at hs
    · simp at hs; subst hs
      obtain ⟨_, ech', hb, _⟩ := echHas_set P _ _ _ _ h1 h0; simp [TS.ech] at hb
    · rename_i rest hq
      simp at hs; subst hs
      obtain ⟨hu, ech', hb, hp⟩ := echHas_set P _ _ _ _ h1 h0
      simp [TS.ech] at hb; subst hb; subst hu
      exfalso; apply h0
      exact ⟨ech, by simp [h, TS.ech], hpop ech rest hq hp⟩
    · split at hs <;> simp at hs; subst hs
      obtain ⟨_, ech', hb, _⟩ := echHas_set P _ _ _ _ h1 h0; simp [TS.ech] at hb
  | retWait u r' =>
    simp only [step] at hs; split at hs <;> simp at hs
    obtain ⟨_, rfl⟩ := hs
    obtain ⟨_, ech, hb, _⟩ := echHas_set P _ _ _ _ h1 h0; simp [TS.ech] at hb
  | envCancel u =>
    simp only [step] at hs; split at hs <;> simp at hs; subst hs; exact absurd h1 h0
  | envErr u m =>
    by_cases hut : u = t
    · subst hut
      obtain ⟨ech, ech', g1, g2, g3, g4⟩ := viaECh _ hs
      split at g2 <;> simp at g2
      subst g2
      exact ⟨ech, g1, g4, Or.inl ⟨m, rfl, g3⟩⟩
    · exact (other u _ hut hs).elim
  | envErrClose u =>
    by_cases hut : u = t
    · subst hut
      obtain ⟨ech, ech', g1, g2, g3, g4⟩ := viaECh _ hs
      split at g2 <;> simp at g2
      subst g2
      exact ⟨ech, g1, g4, Or.inr ⟨rfl, g3⟩⟩
    · exact (other u _ hut hs).elim
  | quiesce B =>
    simp only [step] at hs; split at hs <;> simp at hs; subst hs; exact absurd h1 h0

/-- a context is only ever marked cancelled by its `env cancel` -/
theorem step_cx (s s' : St) (e : Ev) (t : Nat) (hs : step s e = some s')
    (h1 : s'.cx.contains t = true) (h0 : s.cx.contains t = false) : e = .envCancel t := by
  cases e with
  | envCancel u =>
    simp only [step] at hs; split at hs <;> simp at hs; subst hs
    simp at h1 h0
    rcases h1 with h | h
    · rw [h]
    · exact absurd h h0
  | new v m => simp only [step] at hs; split at hs <;> simp at hs; subst hs; simp_all
  | invOp u o => simp only [step] at hs; split at hs <;> simp at hs; subst hs; simp_all
  | opCS u => simp only [step] at hs; split at hs <;> simp at hs; subst hs; simp_all
  | retOp u r =>
    simp only [step] at hs; split at hs <;> simp at hs
    obtain ⟨_, rfl⟩ := hs; simp_all
  | invWait u k ech => simp only [step] at hs; split at hs <;> simp at hs; subst hs; simp_all
  | waitCS u =>
    simp only [step] at hs; split at hs <;> simp at hs; subst hs
    rename_i k e _
    rw [(waitAttempt_val s u k e).2.2] at h1; simp_all
  | wakeCS u =>
    simp only [step] at hs; split at hs <;> simp at hs
    obtain ⟨_, rfl⟩ := hs
    rename_i k e _ _ _
    rw [(waitAttempt_val s u k e).2.2] at h1; simp_all
  | ctxTake u =>
    simp only [step] at hs; split at hs <;> simp at hs
    obtain ⟨_, rfl⟩ := hs; simp_all
  | errTake u =>
    simp only [step] at hs; split at hs <;> try simp at hs
    split at hs
    · simp at hs; subst hs; simp_all
    · simp at hs; subst hs; simp_all
    · split at hs <;> simp at hs; subst hs; simp_all
  | retWait u r =>
    simp only [step] at hs; split at hs <;> simp at hs
    obtain ⟨_, rfl⟩ := hs; simp_all
  | envErr u m => rw [(onECh_val s s' u _ hs).2.2.1] at h1; simp_all
  | envErrClose u => rw [(onECh_val s s' u _ hs).2.2.1] at h1; simp_all
  | quiesce B => simp only [step] at hs; split at hs <;> simp at hs; subst hs; simp_all

end UtilModel.CContainer
