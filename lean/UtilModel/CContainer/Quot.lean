import UtilModel.Core.LTSCompleteQ
import UtilModel.CContainer.Proofs
/-!
# ccontainer.CContainer — the state equality of the checker is a bisimulation quotient

The checker de-duplicates states with `instBEqSt` (equality of `St.norm`: a waiter's channel id is
replaced by closed/open, the allocation counter is dropped). This file proves what
`rejectH_sound_quot` needs:

* `EquivBEq St`, `LawfulHashable St` (the hash is the hash of the normal form),
* `quotok_ccontainer : model.QuotOK` — on reachable states (`Inv`: every channel a waiter is parked
  on has been allocated), `==`-equal states enable the same events and the successors are `==`.

The channel-renaming argument is factored once: `th_transport` says that if closedness of every
allocated channel changes by the same function `· || b` in both states (`b = false`: nothing or a
`getWaitCh`; `b = true`: a broadcast), the normal forms of the thread lists stay equal.
-/
namespace UtilModel.CContainer
open UtilModel

/-- normal form of a thread state w.r.t. a closedness predicate -/
def TS.normBy (cl : Nat → Bool) : TS → TS
  | .wParked k e c => .wParked k e (if cl c then 0 else 1)
  | ts => ts

theorem TS.norm_eq (s : St) : TS.norm s = TS.normBy s.bc.closed := by
  funext a; cases a <;> rfl

/-- the content of `s == t` -/
structure Rel (s t : St) : Prop where
  val : s.val = t.val
  m : s.m = t.m
  cur : s.bc.cur.isSome = t.bc.cur.isSome
  th : s.th.map (TS.normBy s.bc.closed) = t.th.map (TS.normBy t.bc.closed)
  cx : s.cx = t.cx

theorem beq_iff_norm (s t : St) : (s == t) = true ↔ s.norm = t.norm := by
  show (s.norm == t.norm) = true ↔ _
  exact beq_iff_eq

theorem beq_iff (s t : St) : (s == t) = true ↔ Rel s t := by
  rw [beq_iff_norm]
  simp only [St.norm, Prod.mk.injEq, TS.norm_eq]
  constructor
  · rintro ⟨h1, h2, h3, h4, h5⟩; exact ⟨h1, h2, h3, h4, h5⟩
  · rintro ⟨h1, h2, h3, h4, h5⟩; exact ⟨h1, h2, h3, h4, h5⟩

instance instEquivBEqSt : EquivBEq St where
  rfl := by intro a; exact (beq_iff_norm a a).mpr rfl
  symm := by intro a b h; exact (beq_iff_norm b a).mpr ((beq_iff_norm a b).mp h).symm
  trans := by
    intro a b c h1 h2
    exact (beq_iff_norm a c).mpr (((beq_iff_norm a b).mp h1).trans ((beq_iff_norm b c).mp h2))

instance instLawfulHashableSt : LawfulHashable St where
  hash_eq := by
    intro a b h
    show hash a.norm = hash b.norm
    rw [(beq_iff_norm a b).mp h]

/-! ## thread states up to renaming -/

theorem normBy_comp (g cl : Nat → Bool) (a : TS) :
    TS.normBy g (TS.normBy cl a) = TS.normBy (fun c => g (if cl c then 0 else 1)) a := by
  cases a <;> rfl

theorem normBy_congr (cl cl' : Nat → Bool) (a : TS)
    (h : ∀ k e c, a = .wParked k e c → cl c = cl' c) : TS.normBy cl a = TS.normBy cl' a := by
  cases a <;> simp [TS.normBy]
  rename_i k e c
  rw [h k e c rfl]

/-- a state that is not parked is related only to itself -/
theorem normBy_inv (cl cl' : Nat → Bool) (a b : TS) (h : TS.normBy cl a = TS.normBy cl' b)
    (ha : ∀ k e c, a ≠ .wParked k e c) : b = a := by
  cases a <;> cases b <;> simp_all [TS.normBy]

theorem normBy_inv_parked (cl cl' : Nat → Bool) (k : WKind) (e : Option ECh) (c : Nat) (b : TS)
    (h : TS.normBy cl (.wParked k e c) = TS.normBy cl' b) :
    ∃ c', b = .wParked k e c' ∧ cl c = cl' c' := by
  cases b <;> simp [TS.normBy] at h
  rename_i k' e' c'
  obtain ⟨rfl, rfl, h⟩ := h
  refine ⟨c', rfl, ?_⟩
  cases h1 : cl c <;> cases h2 : cl' c' <;> simp [h1, h2] at h ⊢

theorem normBy_parked (cl cl' : Nat → Bool) (k : WKind) (e : Option ECh) (c c' : Nat) (h : cl c = cl' c') :
    TS.normBy cl (.wParked k e c) = TS.normBy cl' (.wParked k e c') := by
  simp [TS.normBy, h]

theorem normBy_same (cl cl' : Nat → Bool) (a : TS) (ha : ∀ k e c, a ≠ .wParked k e c) :
    TS.normBy cl a = TS.normBy cl' a := by
  cases a <;> simp_all [TS.normBy]

/-- discharges "this thread state is not parked" -/
local macro "cc_np" : tactic => `(tactic| (intro _ _ _ hh; cases hh))

theorem Rel.lookup {s t : St} (h : Rel s t) (i : Nat) :
    (s.th[i]?).map (TS.normBy s.bc.closed) = (t.th[i]?).map (TS.normBy t.bc.closed) := by
  have := congrArg (fun l => l[i]?) h.th
  simpa [List.getElem?_map] using this

theorem Rel.length {s t : St} (h : Rel s t) : s.th.length = t.th.length := by
  have := congrArg List.length h.th
  simpa using this

theorem Rel.get {s t : St} (h : Rel s t) (i : Nat) (a : TS) (ha : s.th[i]? = some a) :
    ∃ b, t.th[i]? = some b ∧ TS.normBy s.bc.closed a = TS.normBy t.bc.closed b := by
  have := h.lookup i
  rw [ha] at this
  cases hb : t.th[i]? with
  | none => simp [hb] at this
  | some b => simp [hb] at this; exact ⟨b, rfl, this⟩

theorem Rel.get_same {s t : St} (h : Rel s t) (i : Nat) (a : TS) (ha : s.th[i]? = some a)
    (hnp : ∀ k e c, a ≠ .wParked k e c) : t.th[i]? = some a := by
  obtain ⟨b, hb, hab⟩ := h.get i a ha
  rw [normBy_inv _ _ a b hab hnp] at hb; exact hb

theorem Rel.get_parked {s t : St} (h : Rel s t) (i : Nat) (k : WKind) (e : Option ECh) (c : Nat)
    (ha : s.th[i]? = some (.wParked k e c)) :
    ∃ c', t.th[i]? = some (.wParked k e c') ∧ s.bc.closed c = t.bc.closed c' := by
  obtain ⟨b, hb, hab⟩ := h.get i _ ha
  obtain ⟨c', rfl, hc⟩ := normBy_inv_parked _ _ k e c b hab
  exact ⟨c', hb, hc⟩

/-- **the renaming argument**: closedness of the allocated channels changes by `· || b` on both
sides ⇒ the normal forms of the thread lists stay equal -/
theorem th_transport (s t : St) (hs : Inv s) (ht : Inv t) (h : Rel s t) (b : Bool)
    (cls clt : Nat → Bool)
    (h1 : ∀ c, c < s.bc.next → cls c = (s.bc.closed c || b))
    (h2 : ∀ c, c < t.bc.next → clt c = (t.bc.closed c || b)) :
    s.th.map (TS.normBy cls) = t.th.map (TS.normBy clt) := by
  have key : ∀ (u : St) (cl : Nat → Bool), Inv u → (∀ c, c < u.bc.next → cl c = (u.bc.closed c || b)) →
      u.th.map (TS.normBy cl) =
        (u.th.map (TS.normBy u.bc.closed)).map (TS.normBy (fun n => (n == 0) || b)) := by
    intro u cl hu hcl
    rw [List.map_map]
    apply List.map_congr_left
    intro a ha
    simp only [Function.comp, normBy_comp]
    apply normBy_congr
    intro k e c hac
    subst hac
    obtain ⟨i, hi⟩ := List.getElem?_of_mem ha
    rw [hcl c (hu.parked i k e c hi).1]
    cases u.bc.closed c <;> simp
  rw [key s cls hs h1, key t clt ht h2, h.th]

theorem getWaitCh_closed_eq (bc : Bcast) (hwf : bc.WF) (c : Nat) (hc : c < bc.next) :
    bc.getWaitCh.1.closed c = bc.closed c := by
  obtain ⟨_, _, _, g4, g5, g6, _⟩ := Bcast.getWaitCh_spec bc hwf
  by_cases hcg : c = bc.getWaitCh.2
  · subst hcg
    rw [g5]
    cases h : bc.closed bc.getWaitCh.2
    · rfl
    · exact absurd rfl (g6 _ h)
  · exact g4 c hcg

/-- thread `i` moves to related states, the shared variables to related values -/
theorem rel_set (s t : St) (h : Rel s t) (i : Nat) (a b : TS) (val : Nat) (bcs bct : Bcast)
    (cx : List Nat) (hcur : bcs.cur.isSome = bct.cur.isSome)
    (hth : s.th.map (TS.normBy bcs.closed) = t.th.map (TS.normBy bct.closed))
    (hab : TS.normBy bcs.closed a = TS.normBy bct.closed b) :
    Rel { s with val := val, bc := bcs, th := s.th.set i a, cx := cx }
        { t with val := val, bc := bct, th := t.th.set i b, cx := cx } := by
  refine ⟨rfl, h.m, hcur, ?_, rfl⟩
  simp only [List.map_set, hth, hab]

/-- thread `i` moves, nothing else changes -/
theorem rel_move (s t : St) (h : Rel s t) (i : Nat) (a b : TS)
    (hab : TS.normBy s.bc.closed a = TS.normBy t.bc.closed b) :
    Rel { s with th := s.th.set i a } { t with th := t.th.set i b } := by
  refine ⟨h.val, h.m, h.cur, ?_, h.cx⟩
  simp only [List.map_set, h.th, hab]

/-- build `Rel` for two states whose thread lists are updates of related lists -/
theorem rel_mk (s' t' : St) (hv : s'.val = t'.val) (hm : s'.m = t'.m)
    (hcur : s'.bc.cur.isSome = t'.bc.cur.isSome) (hcx : s'.cx = t'.cx) (i : Nat) (a b : TS)
    (ths tht : List TS) (hs' : s'.th = ths.set i a) (ht' : t'.th = tht.set i b)
    (hth : ths.map (TS.normBy s'.bc.closed) = tht.map (TS.normBy t'.bc.closed))
    (hab : TS.normBy s'.bc.closed a = TS.normBy t'.bc.closed b) : Rel s' t' := by
  refine ⟨hv, hm, hcur, ?_, hcx⟩
  rw [hs', ht']
  simp only [List.map_set, hth, hab]

theorem rel_mk_append (s' t' : St) (hv : s'.val = t'.val) (hm : s'.m = t'.m)
    (hcur : s'.bc.cur.isSome = t'.bc.cur.isSome) (hcx : s'.cx = t'.cx) (a : TS)
    (ths tht : List TS) (hs' : s'.th = ths ++ [a]) (ht' : t'.th = tht ++ [a])
    (hth : ths.map (TS.normBy s'.bc.closed) = tht.map (TS.normBy t'.bc.closed))
    (ha : ∀ k e c, a ≠ .wParked k e c) : Rel s' t' := by
  refine ⟨hv, hm, hcur, ?_, hcx⟩
  rw [hs', ht']
  simp only [List.map_append, hth, List.map_cons, List.map_nil]
  cases a <;> simp_all [TS.normBy]

theorem rel_waitAttempt (s t : St) (hs : Inv s) (ht : Inv t) (h : Rel s t) (i : Nat) (k : WKind)
    (e : Option ECh) : Rel (waitAttempt s i k e) (waitAttempt t i k e) := by
  obtain ⟨g1, _, _, _, g5, _, _⟩ := Bcast.getWaitCh_spec s.bc hs.bcwf
  obtain ⟨f1, _, _, _, f5, _, _⟩ := Bcast.getWaitCh_spec t.bc ht.bcwf
  have hth := th_transport s t hs ht h false s.bc.getWaitCh.1.closed t.bc.getWaitCh.1.closed
    (fun c hc => by simp [getWaitCh_closed_eq s.bc hs.bcwf c hc])
    (fun c hc => by simp [getWaitCh_closed_eq t.bc ht.bcwf c hc])
  have hcur : s.bc.getWaitCh.1.cur.isSome = t.bc.getWaitCh.1.cur.isSome := by rw [g1, f1]; rfl
  have hev : k.eval t.m t.val = k.eval s.m s.val := by rw [h.m, h.val]
  unfold waitAttempt
  rw [hev]
  cases k.eval s.m s.val <;> simp only
  · exact rel_mk _ _ h.val h.m hcur h.cx i _ _ s.th t.th rfl rfl hth (by rw [h.val]; exact normBy_same _ _ _ (by cc_np))
  · exact rel_mk _ _ h.val h.m hcur h.cx i _ _ s.th t.th rfl rfl hth
      (normBy_parked _ _ k e _ _ (by simp only; rw [g5, f5]))
  · exact rel_mk _ _ h.val h.m hcur h.cx i _ _ s.th t.th rfl rfl hth (normBy_same _ _ _ (by cc_np))

theorem rel_onECh (s t : St) (h : Rel s t) (i : Nat) (f : ECh → Option ECh) (s' : St)
    (hst : onECh s i f = some s') : ∃ t', onECh t i f = some t' ∧ Rel s' t' := by
  unfold onECh at hst ⊢
  split at hst
  · rename_i k e hth
    rw [h.get_same i _ hth (by cc_np)]
    cases hf : f e with
    | none => simp [hf] at hst
    | some e' =>
      simp [hf] at hst; subst hst
      simp only [hf, Option.map_some]
      refine ⟨_, rfl, ?_⟩
      exact rel_mk _ _ h.val h.m h.cur h.cx i _ _ s.th t.th rfl rfl h.th (normBy_same _ _ _ (by cc_np))
  · rename_i k e c hth
    obtain ⟨c', hc', hcc⟩ := h.get_parked i k (some e) c hth
    rw [hc']
    cases hf : f e with
    | none => simp [hf] at hst
    | some e' =>
      simp [hf] at hst; subst hst
      simp only [hf, Option.map_some]
      refine ⟨_, rfl, ?_⟩
      exact rel_mk _ _ h.val h.m h.cur h.cx i _ _ s.th t.th rfl rfl h.th
        (normBy_parked _ _ k _ _ _ hcc)
  · rename_i r hth
    rw [h.get_same i _ hth (by cc_np)]
    simp at hst; subst hst; exact ⟨_, rfl, h⟩
  · rename_i hth
    rw [h.get_same i _ hth (by cc_np)]
    simp at hst; subst hst; exact ⟨_, rfl, h⟩
  · simp at hst

theorem Rel.get_none {s t : St} (h : Rel s t) (i : Nat) (ha : s.th[i]? = none) : t.th[i]? = none := by
  have := h.lookup i
  rw [ha] at this
  cases hb : t.th[i]? with
  | none => rfl
  | some b => simp [hb] at this

theorem rel_quiescent (s t : St) (h : Rel s t) : quiescent s = quiescent t := by
  unfold quiescent
  rw [h.length]
  congr 1
  funext i
  cases hsi : s.th[i]? with
  | none => rw [h.get_none i hsi]
  | some a =>
    cases a with
    | wParked k e c =>
      obtain ⟨c', hc', hcc⟩ := h.get_parked i k e c hsi
      rw [hc']
      simp only [TS.quiet, hcc, h.cx]
    | _ => rw [h.get_same i _ hsi (by cc_np)]; simp only [TS.quiet]

theorem rel_pendingIds (s t : St) (h : Rel s t) : pendingIds s = pendingIds t := by
  unfold pendingIds
  rw [h.length]
  congr 1
  funext i
  cases hsi : s.th[i]? with
  | none => rw [h.get_none i hsi]
  | some a =>
    cases a with
    | wParked k e c =>
      obtain ⟨c', hc', hcc⟩ := h.get_parked i k e c hsi
      rw [hc']
    | _ => rw [h.get_same i _ hsi (by cc_np)]

/-- **`==` is a bisimulation on well-formed states** -/
theorem step_rel (s t : St) (hs : Inv s) (ht : Inv t) (h : Rel s t) (e : Ev) (s' : St)
    (hst : step s e = some s') : ∃ t', step t e = some t' ∧ Rel s' t' := by
  cases e with
  | new v m =>
    simp only [step] at hst ⊢
    split at hst <;> simp at hst; subst hst
    rename_i hth
    have hth' : t.th = [] := List.eq_nil_of_length_eq_zero (by rw [← h.length, hth]; rfl)
    simp only [hth', if_true]
    refine ⟨_, rfl, ⟨rfl, rfl, h.cur, ?_, h.cx⟩⟩
    simp [hth]
  | invOp i o =>
    simp only [step] at hst ⊢
    split at hst <;> simp at hst; subst hst
    rename_i hi
    rw [if_pos (by rw [← h.length]; exact hi)]
    refine ⟨_, rfl, ?_⟩
    exact rel_mk_append _ _ h.val h.m h.cur h.cx _ s.th t.th rfl rfl h.th (by cc_np)
  | opCS i =>
    simp only [step] at hst ⊢
    split at hst <;> simp at hst; subst hst
    rename_i o hth
    rw [h.get_same i _ hth (by cc_np)]
    refine ⟨_, rfl, ?_⟩
    rw [← h.m, ← h.val]
    obtain ⟨b1, _, _, b4, _⟩ := Bcast.broadcast_spec s.bc
    obtain ⟨d1, _, _, d4, _⟩ := Bcast.broadcast_spec t.bc
    cases hsto : o.stores s.m s.val with
    | true =>
      simp only [if_true]
      refine rel_mk _ _ rfl rfl (by simp only; rw [b1, d1]) h.cx i _ _ s.th t.th rfl rfl ?_
        (normBy_same _ _ _ (by cc_np))
      exact th_transport s t hs ht h true _ _ (fun c hc => by simp [b4 c hc]) (fun c hc => by simp [d4 c hc])
    | false =>
      simp only [Bool.false_eq_true, if_false]
      exact rel_mk _ _ rfl rfl h.cur h.cx i _ _ s.th t.th rfl rfl h.th (normBy_same _ _ _ (by cc_np))
  | retOp i r =>
    simp only [step] at hst ⊢
    split at hst <;> simp at hst
    obtain ⟨hr, rfl⟩ := hst; rename_i o r' hth
    rw [h.get_same i _ hth (by cc_np)]
    simp only [hr, if_true]
    refine ⟨_, rfl, ?_⟩
    exact rel_mk _ _ h.val h.m h.cur h.cx i _ _ s.th t.th rfl rfl h.th (normBy_same _ _ _ (by cc_np))
  | invWait i k ech =>
    simp only [step] at hst ⊢
    split at hst <;> simp at hst; subst hst
    rename_i hi
    rw [if_pos (by rw [← h.length]; exact hi)]
    refine ⟨_, rfl, ?_⟩
    exact rel_mk_append _ _ h.val h.m h.cur h.cx _ s.th t.th rfl rfl h.th (by cc_np)
  | waitCS i =>
    simp only [step] at hst ⊢
    split at hst <;> simp at hst; subst hst
    rename_i k e hth
    rw [h.get_same i _ hth (by cc_np)]
    exact ⟨_, rfl, rel_waitAttempt s t hs ht h i k e⟩
  | wakeCS i =>
    simp only [step] at hst ⊢
    split at hst <;> simp at hst
    obtain ⟨hcl, rfl⟩ := hst; rename_i k e c hth
    obtain ⟨c', hc', hcc⟩ := h.get_parked i k e c hth
    rw [hc']
    simp only [← hcc, hcl, if_true]
    exact ⟨_, rfl, rel_waitAttempt s t hs ht h i k e⟩
  | ctxTake i =>
    simp only [step] at hst ⊢
    split at hst <;> simp at hst
    obtain ⟨hcx, rfl⟩ := hst; rename_i k e c hth
    obtain ⟨c', hc', hcc⟩ := h.get_parked i k e c hth
    rw [hc']
    rw [if_pos (by rw [← h.cx]; simpa using hcx)]
    refine ⟨_, rfl, ?_⟩
    exact rel_mk _ _ h.val h.m h.cur h.cx i _ _ s.th t.th rfl rfl h.th (normBy_same _ _ _ (by cc_np))
  | errTake i =>
    simp only [step] at hst ⊢
    split at hst <;> try simp at hst
    rename_i k e c hth
    obtain ⟨c', hc', hcc⟩ := h.get_parked i k (some e) c hth
    rw [hc']
    simp only
    split at hst
    · rename_i err rest hq
      simp at hst; subst hst
      refine ⟨_, rfl, ?_⟩
      exact rel_mk _ _ h.val h.m h.cur h.cx i _ _ s.th t.th rfl rfl h.th (normBy_same _ _ _ (by cc_np))
    · rename_i rest hq
      simp at hst; subst hst
      refine ⟨_, rfl, ?_⟩
      exact rel_mk _ _ h.val h.m h.cur h.cx i _ _ s.th t.th rfl rfl h.th (normBy_same _ _ _ (by cc_np))
    · rename_i hq
      split at hst <;> simp at hst; subst hst
      rename_i hclosed
      simp only [hclosed, if_true]
      refine ⟨_, rfl, ?_⟩
      exact rel_mk _ _ h.val h.m h.cur h.cx i _ _ s.th t.th rfl rfl h.th (normBy_same _ _ _ (by cc_np))
  | retWait i r =>
    simp only [step] at hst ⊢
    split at hst <;> simp at hst
    obtain ⟨hr, rfl⟩ := hst; rename_i r' hth
    rw [h.get_same i _ hth (by cc_np)]
    simp only [hr, if_true]
    refine ⟨_, rfl, ?_⟩
    exact rel_mk _ _ h.val h.m h.cur h.cx i _ _ s.th t.th rfl rfl h.th (normBy_same _ _ _ (by cc_np))
  | envCancel i =>
    simp only [step] at hst ⊢
    split at hst <;> simp at hst; subst hst
    rename_i hi
    rw [if_pos (by rw [← h.length]; exact hi)]
    exact ⟨_, rfl, ⟨h.val, h.m, h.cur, h.th, by simp only [h.cx]⟩⟩
  | envErr i e => exact rel_onECh s t h i _ s' hst
  | envErrClose i => exact rel_onECh s t h i _ s' hst
  | quiesce B =>
    simp only [step] at hst ⊢
    split at hst <;> simp at hst; subst hst
    rename_i hq
    rw [if_pos (by rw [← rel_quiescent s t h, ← rel_pendingIds s t h]; exact hq)]
    exact ⟨_, rfl, h⟩

/-- `==` is a bisimulation on reachable states (the same event answers) -/
theorem quotok : model.QuotOK := by
  refine ⟨?_⟩
  intro s t ⟨es, hs⟩ ⟨et, ht⟩ hst e s' hstep
  obtain ⟨t', h1, h2⟩ := step_rel s t (reachable_inv es s hs) (reachable_inv et t ht)
    ((beq_iff s t).mp hst) e s' hstep
  exact ⟨e, t', rfl, h1, (beq_iff s' t').mpr h2⟩

end UtilModel.CContainer
