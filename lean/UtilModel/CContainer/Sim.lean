import UtilModel.CContainer.Proofs
import UtilModel.CContainer.Monitors
/-!
# ccontainer: simulation proof for the monitor `monC15`

`RelC s ms` relates a model state to a monitor state. Its core is the soundness of the monitor's
two views of the cell content:

* `poss` — when the monitor believes the content is one of `l`, it is; a *solo* writer pins it to
  the image of the saved set once its critical section has run; every pending call has *seen* all
  of `poss` (or nothing is claimed about it);
* increment counting — while every writer is `SwapValue(increment)` the content is
  `base + #finished increments + #increments that ran but have not returned`.
-/
namespace UtilModel.CContainer
open UtilModel

def isPendW : CEntry → Bool
  | .op o _ _ _ true => o.isWriter
  | _ => false

def isIncInv : TS → Bool
  | .opInv (.swap .inc) => true
  | _ => false

def isIncRan : TS → Bool
  | .opRan (.swap .inc) _ => true
  | _ => false

/-- every value the monitor thinks possible has been seen by the entry (or it claims nothing) -/
def SeenOK (ms : C15St) (seen : Option (List Nat)) : Prop :=
  ∀ l', seen = some l' → ∃ l, ms.poss = some l ∧ ∀ w ∈ l, w ∈ l'

def EchOK (ms : C15St) (t : Nat) (ech : Option ECh) : Prop :=
  ∀ c, ech = some c → (∀ e, some e ∈ c.q → (t, e) ∈ ms.errsent) ∧ (c.closed = true → t ∈ ms.errclosed)

/-- the monitor's acceptance condition for the response `r` of wait call `t` -/
def RetOK (ms : C15St) (t : Nat) (k : WKind) (seen : Option (List Nat)) (lo : Nat) : WRes → Prop
  | .val v => k ≠ .empty ∧ k.eval ms.m v = .ok ∧ mayBe seen (· == v) = true ∧ ms.inBounds lo 0 v = true
  | .ok => k = .empty ∧ mayBe seen (fun v => k.eval ms.m v == .ok) = true
  | .err e => (t, e) ∈ ms.errsent ∨ (e = verrCode ∧ mayBe seen (fun v => k.eval ms.m v == .error) = true)
  | .canceled => t ∈ ms.cancelled ∨ t ∈ ms.errclosed

/-- bounds on the content `v0` read by an operation, from the increment counters -/
def BoundOK (ms : C15St) (lo : Nat) (o : Op) (v0 : Nat) : Prop :=
  ms.incOnly = true → ms.m ≠ 1 →
    ms.base + lo ≤ v0 ∧ v0 + (if o.isInc then 1 else 0) ≤ ms.base + ms.incInv

/-- monitor entry `e` describes call `t` in state `ts` -/
def CorrC (val : Nat) (ms : C15St) (t : Nat) (e : CEntry) : TS → Prop
  | .opInv o => ∃ seen lo clean, e = .op o seen lo clean true ∧ SeenOK ms seen ∧ lo ≤ ms.incDone ∧
      (clean = true → ms.nwr = 0)
  | .opRan o r => ∃ seen lo clean, e = .op o seen lo clean true ∧
      (clean = true → ms.nwr = 0 ∧ (o = .get → val = r)) ∧
      ∃ v0, r = o.result v0 ∧ mayBe seen (· == v0) = true ∧ BoundOK ms lo o v0
  | .done => (∃ o seen lo clean, e = .op o seen lo clean false) ∨ (∃ k seen lo, e = .wait k seen lo)
  | .wLoop k ech => ∃ seen lo, e = .wait k seen lo ∧ SeenOK ms seen ∧ lo ≤ ms.incDone ∧ EchOK ms t ech
  | .wParked k ech _ => ∃ seen lo, e = .wait k seen lo ∧ SeenOK ms seen ∧ lo ≤ ms.incDone ∧ EchOK ms t ech
  | .wRet r => ∃ k seen lo, e = .wait k seen lo ∧ RetOK ms t k seen lo r

structure RelC (s : St) (ms : C15St) : Prop where
  inv : Inv s
  len : ms.calls.length = s.th.length
  hm : ms.m = s.m
  hcx : ms.cancelled = s.cx
  corr : ∀ (t : Nat) (ts : TS), s.th[t]? = some ts →
    ∃ e, ms.calls[t]? = some e ∧ CorrC s.val ms t e ts
  val : ∀ l, ms.poss = some l → s.val ∈ l
  nwr : ms.nwr = ms.calls.countP isPendW
  p1 : ∀ l, ms.poss = some l → ms.nwr = 0 ∨ ∃ ds, ms.solo = some ds
  solo : ∀ (d : Nat) (saved : Option (List Nat)), ms.solo = some (d, saved) →
    ∃ o seen lo clean, ms.calls[d]? = some (.op o seen lo clean true) ∧ o.isWriter = true ∧ ms.nwr = 1 ∧
      (saved = none → ms.poss = none) ∧
      (∀ l0, saved = some l0 → ms.poss = some (l0 ++ l0.map (o.newVal ms.m)) ∧
        ∀ ts, s.th[d]? = some ts →
          (ts = .opInv o → s.val ∈ l0) ∧ (∀ r, ts = .opRan o r → s.val ∈ l0.map (o.newVal ms.m)))
  icnt : ms.incInv = ms.incDone + s.th.countP isIncInv + s.th.countP isIncRan
  ival : ms.incOnly = true → ms.m ≠ 1 → s.val = ms.base + ms.incDone + s.th.countP isIncRan
  ionly : ms.incOnly = true → ∀ (t : Nat) (o : Op), s.th[t]? = some (.opInv o) → o.isWriter = true →
    o = .swap .inc
  fresh : s.th = [] → ms.incDone = 0 ∧ ms.incInv = 0

theorem relC_init : RelC model.init monC15.init := by
  refine ⟨init_inv, rfl, rfl, rfl, ?_, ?_, rfl, ?_, ?_, rfl, ?_, ?_, fun _ => ⟨rfl, rfl⟩⟩
  · intro t ts h; simp [model] at h
  · intro l h; simp [monC15] at h; subst h; simp [model]
  · intro l _; exact Or.inl rfl
  · intro d saved h; simp [monC15] at h
  · intro _ _; simp [model, monC15]
  · intro _ t o h; simp [model] at h

/-! ## small facts about `mayBe`, `addSeen`, `knownV` -/

theorem mayBe_of_mem (seen : Option (List Nat)) (p : Nat → Bool) (v : Nat) (hp : p v = true)
    (h : ∀ l, seen = some l → v ∈ l) : mayBe seen p = true := by
  cases seen with
  | none => rfl
  | some l => simp only [mayBe]; rw [List.any_eq_true]; exact ⟨v, h l rfl, hp⟩

theorem mayBe_addSeen (n seen : Option (List Nat)) (p : Nat → Bool) (h : mayBe seen p = true) :
    mayBe (addSeen n seen) p = true := by
  cases seen with
  | none => rfl
  | some l =>
    cases n with
    | none => rfl
    | some l2 =>
      simp only [addSeen, Option.map, mayBe] at h ⊢
      rw [List.any_eq_true] at h ⊢
      obtain ⟨x, hx, hpx⟩ := h
      exact ⟨x, by simp [hx], hpx⟩

theorem knownV_spec (o : Option (List Nat)) (v : Nat) (h : knownV o = some v) :
    ∃ l, o = some l ∧ ∀ w ∈ l, w = v := by
  cases o with
  | none => simp [knownV] at h
  | some l =>
    cases l with
    | nil => simp [knownV] at h
    | cons a r =>
      simp only [knownV] at h
      split at h <;> simp at h
      subst h
      rename_i hall
      refine ⟨_, rfl, ?_⟩
      intro w hw
      simp at hw
      rcases hw with hw | hw
      · exact hw
      · simp at hall; exact hall w hw

theorem one_pendW (calls : List CEntry) (d t : Nat) (ed et : CEntry) (h1 : calls.countP isPendW = 1)
    (hd : calls[d]? = some ed) (ht : calls[t]? = some et) (pd : isPendW ed = true)
    (pt : isPendW et = true) : t = d := by
  apply Classical.byContradiction
  intro hne
  have := countP_ge_two isPendW calls t d _ _ hne ht hd pt pd
  omega

theorem nilcb_newVal (m v : Nat) : (Op.swap .nilcb).newVal m v = v := by
  simp only [Op.newVal, SwapF.apply]; exact ite_self _

theorem nonwriter_newVal (m v : Nat) (o : Op) (h : o.isWriter = false) : o.newVal m v = v := by
  cases o with
  | get => rfl
  | set x => simp [Op.isWriter] at h
  | swap f => cases f <;> simp [Op.isWriter] at h; exact nilcb_newVal m v


/-! ## monotonicity of the entry/thread correspondence in the monitor state -/

theorem inBounds_mono (ms ms' : C15St) (lo add v : Nat) (hm : ms'.m = ms.m) (hb : ms'.base = ms.base)
    (hi : ms.incInv ≤ ms'.incInv) (ho : ms'.incOnly = true → ms.incOnly = true)
    (h : ms.inBounds lo add v = true) : ms'.inBounds lo add v = true := by
  unfold C15St.inBounds at h ⊢
  rw [hm, hb]
  cases ho' : ms'.incOnly with
  | false => simp
  | true =>
    rw [ho ho'] at h
    simp at h ⊢
    rcases h with h | h
    · exact Or.inl h
    · exact Or.inr ⟨h.1, by omega⟩

/-- how the monitor state may evolve while an entry stays as it is -/
structure MsMono (ms ms' : C15St) : Prop where
  m : ms'.m = ms.m
  base : ms'.base = ms.base
  incInv : ms.incInv ≤ ms'.incInv
  incDone : ms.incDone ≤ ms'.incDone
  incOnly : ms'.incOnly = true → ms.incOnly = true
  errsent : ∀ x, x ∈ ms.errsent → x ∈ ms'.errsent
  cancelled : ∀ x, x ∈ ms.cancelled → x ∈ ms'.cancelled
  errclosed : ∀ x, x ∈ ms.errclosed → x ∈ ms'.errclosed
  nwr : ms.nwr = 0 → ms'.nwr = 0
  /-- the possible set only shrinks (or stays unknown) -/
  poss : ∀ l, ms.poss = some l → ∃ l2, ms'.poss = some l2 ∧ ∀ w ∈ l2, w ∈ l

theorem MsMono.refl (ms : C15St) : MsMono ms ms :=
  ⟨rfl, rfl, Nat.le_refl _, Nat.le_refl _, fun h => h, fun _ h => h, fun _ h => h, fun _ h => h,
   fun h => h, fun l h => ⟨l, h, fun _ h => h⟩⟩

theorem seenOK_mono (ms ms' : C15St) (hmm : MsMono ms ms') (seen : Option (List Nat))
    (h : SeenOK ms seen) : SeenOK ms' seen := by
  intro l' hl'
  obtain ⟨l, h1, h2⟩ := h l' hl'
  obtain ⟨l2, h3, h4⟩ := hmm.poss l h1
  exact ⟨l2, h3, fun w hw => h2 w (h4 w hw)⟩

theorem boundOK_mono (ms ms' : C15St) (hmm : MsMono ms ms') (lo : Nat) (o : Op) (v0 : Nat)
    (h : BoundOK ms lo o v0) : BoundOK ms' lo o v0 := by
  intro h1 h2
  have := h (hmm.incOnly h1) (by rw [← hmm.m]; exact h2)
  rw [hmm.base]
  have := hmm.incInv
  omega

theorem retOK_mono (ms ms' : C15St) (hmm : MsMono ms ms') (t : Nat) (k : WKind)
    (seen : Option (List Nat)) (lo : Nat) (r : WRes) (h : RetOK ms t k seen lo r) :
    RetOK ms' t k seen lo r := by
  cases r with
  | val v =>
    obtain ⟨h1, h2, h3, h4⟩ := h
    exact ⟨h1, by rw [hmm.m]; exact h2, h3, inBounds_mono ms ms' lo 0 v hmm.m hmm.base hmm.incInv hmm.incOnly h4⟩
  | ok =>
    obtain ⟨h1, h2⟩ := h
    exact ⟨h1, by rw [hmm.m]; exact h2⟩
  | err e =>
    rcases h with h | ⟨h1, h2⟩
    · exact Or.inl (hmm.errsent _ h)
    · exact Or.inr ⟨h1, by rw [hmm.m]; exact h2⟩
  | canceled =>
    rcases h with h | h
    · exact Or.inl (hmm.cancelled _ h)
    · exact Or.inr (hmm.errclosed _ h)

theorem echOK_mono (ms ms' : C15St) (hmm : MsMono ms ms') (t : Nat) (ech : Option ECh)
    (h : EchOK ms t ech) : EchOK ms' t ech := by
  intro c hc
  obtain ⟨h1, h2⟩ := h c hc
  exact ⟨fun e he => hmm.errsent _ (h1 e he), fun hcl => hmm.errclosed _ (h2 hcl)⟩

/-- an entry that the monitor step leaves alone still describes its thread -/
theorem corrC_keep (val val' : Nat) (ms ms' : C15St) (hmm : MsMono ms ms') (t : Nat) (e : CEntry)
    (ts : TS) (hval : val' = val ∨ ms.nwr ≠ 0) (h : CorrC val ms t e ts) : CorrC val' ms' t e ts := by
  cases ts with
  | opInv o =>
    obtain ⟨seen, lo, clean, h1, h2, h3, h4⟩ := h
    exact ⟨seen, lo, clean, h1, seenOK_mono ms ms' hmm seen h2, Nat.le_trans h3 hmm.incDone,
      fun hc => hmm.nwr (h4 hc)⟩
  | opRan o r =>
    obtain ⟨seen, lo, clean, h1, h2, v0, h3, h4, h5⟩ := h
    refine ⟨seen, lo, clean, h1, ?_, v0, h3, h4, boundOK_mono ms ms' hmm lo o v0 h5⟩
    intro hc
    obtain ⟨g1, g2⟩ := h2 hc
    refine ⟨hmm.nwr g1, fun ho => ?_⟩
    rcases hval with hv | hv
    · rw [hv]; exact g2 ho
    · exact absurd g1 hv
  | done => exact h
  | wLoop k ech =>
    obtain ⟨seen, lo, h1, h2, h3, h4⟩ := h
    exact ⟨seen, lo, h1, seenOK_mono ms ms' hmm seen h2, Nat.le_trans h3 hmm.incDone,
      echOK_mono ms ms' hmm t ech h4⟩
  | wParked k ech ch =>
    obtain ⟨seen, lo, h1, h2, h3, h4⟩ := h
    exact ⟨seen, lo, h1, seenOK_mono ms ms' hmm seen h2, Nat.le_trans h3 hmm.incDone,
      echOK_mono ms ms' hmm t ech h4⟩
  | wRet r =>
    obtain ⟨k, seen, lo, h1, h2⟩ := h
    exact ⟨k, seen, lo, h1, retOK_mono ms ms' hmm t k seen lo r h2⟩

/-! ## internal steps: a thread moves, the monitor state does not change -/

theorem relC_move (s : St) (ms : C15St) (t : Nat) (a b : TS) (val' : Nat) (bc' : Bcast)
    (hR : RelC s ms) (ha : s.th[t]? = some a)
    (hinv : Inv { s with val := val', bc := bc', th := s.th.set t b })
    (hval : val' = s.val ∨ ms.nwr ≠ 0)
    (hcorr : ∀ e, CorrC s.val ms t e a → CorrC val' ms t e b)
    (hposs : ∀ l, ms.poss = some l → val' ∈ l)
    (hsolo : ∀ (d : Nat) (o : Op) (l0 : List Nat) (seen : Option (List Nat)) (lo : Nat) (clean : Bool),
      ms.solo = some (d, some l0) → ms.calls[d]? = some (.op o seen lo clean true) →
      ∀ ts, (s.th.set t b)[d]? = some ts →
        (ts = .opInv o → val' ∈ l0) ∧ (∀ r, ts = .opRan o r → val' ∈ l0.map (o.newVal ms.m)))
    (hA : (s.th.set t b).countP isIncInv + (s.th.set t b).countP isIncRan =
          s.th.countP isIncInv + s.th.countP isIncRan)
    (hival : ms.incOnly = true → ms.m ≠ 1 → val' = ms.base + ms.incDone + (s.th.set t b).countP isIncRan)
    (hinvb : ∀ o, b = .opInv o → a = .opInv o) :
    RelC { s with val := val', bc := bc', th := s.th.set t b } ms := by
  have old : ∀ (u : Nat) (ts : TS), (s.th.set t b)[u]? = some ts →
      (u = t ∧ ts = b) ∨ (u ≠ t ∧ s.th[u]? = some ts) :=
    fun u ts hu => getElem?_set_cases s.th t u b ts hu
  have hne : s.th ≠ [] := by
    intro h; rw [h] at ha; simp at ha
  refine ⟨hinv, by simp [hR.len], hR.hm, hR.hcx, ?_, hposs, hR.nwr, hR.p1, ?_, ?_, hival, ?_, ?_⟩
  · intro u ts hu
    rcases old u ts hu with ⟨hut, hts⟩ | ⟨_, h0⟩
    · subst hut; subst hts
      obtain ⟨e, he, hm⟩ := hR.corr u a ha
      exact ⟨e, he, hcorr e hm⟩
    · obtain ⟨e, he, hm⟩ := hR.corr u ts h0
      exact ⟨e, he, corrC_keep s.val val' ms ms (MsMono.refl ms) u e ts hval hm⟩
  · intro d saved hs
    obtain ⟨o, seen, lo, clean, h1, h2, h3, h4, h5⟩ := hR.solo d saved hs
    refine ⟨o, seen, lo, clean, h1, h2, h3, h4, ?_⟩
    intro l0 hl0
    subst hl0
    exact ⟨(h5 l0 rfl).1, hsolo d o l0 seen lo clean hs h1⟩
  · have := hR.icnt
    simp only; omega
  · intro hio u o hu hw
    rcases old u (.opInv o) hu with ⟨hut, hts⟩ | ⟨_, h0⟩
    · subst hut
      exact hR.ionly hio u o (by rw [ha, hinvb o hts.symm]) hw
    · exact hR.ionly hio u o h0 hw
  · intro h
    simp only at h
    have : (s.th.set t b).length = 0 := by rw [h]; rfl
    simp at this
    exact absurd this hne


/-! ### the critical section of Get/Set/Swap -/

@[simp] theorem isIncInv_opRan (o : Op) (r : Nat) : isIncInv (.opRan o r) = false := rfl
@[simp] theorem isIncRan_opInv (o : Op) : isIncRan (.opInv o) = false := rfl

theorem isPendW_of_writer (o : Op) (seen : Option (List Nat)) (lo : Nat) (clean : Bool)
    (h : o.isWriter = true) : isPendW (.op o seen lo clean true) = true := by simp [isPendW, h]

theorem relC_opCS (s : St) (ms : C15St) (t : Nat) (o : Op) (hR : RelC s ms)
    (ha : s.th[t]? = some (.opInv o))
    (hinv : Inv { s with val := o.newVal s.m s.val
                         bc := if o.stores s.m s.val then s.bc.broadcast else s.bc
                         th := s.th.set t (.opRan o (o.result s.val)) }) :
    RelC { s with val := o.newVal s.m s.val
                  bc := if o.stores s.m s.val then s.bc.broadcast else s.bc
                  th := s.th.set t (.opRan o (o.result s.val)) } ms := by
  obtain ⟨et, het, seen, lo, clean, hete, hseen, hlo, hclean⟩ := hR.corr t _ ha
  subst hete
  have hmm := hR.hm
  have hlt := lt_of_getElem? ha
  -- a writer is a pending writer entry
  have hwr : o.isWriter = true → ms.nwr ≠ 0 := by
    intro hw
    have := countP_pos_of_getElem? isPendW ms.calls t _ het (isPendW_of_writer o seen lo clean hw)
    rw [hR.nwr]; omega
  have hnw : o.isWriter = false → o.newVal s.m s.val = s.val := nonwriter_newVal s.m s.val o
  -- the solo writer, if this call is a writer, is this call
  have hsolo_me : o.isWriter = true → ∀ d saved, ms.solo = some (d, saved) → d = t := by
    intro hw d saved hs
    obtain ⟨o', seen', lo', clean', h1, h2, h3, _, _⟩ := hR.solo d saved hs
    exact (one_pendW ms.calls d t _ _ (by rw [← hR.nwr]; exact h3) h1 het
      (isPendW_of_writer o' seen' lo' clean' h2) (isPendW_of_writer o seen lo clean hw)).symm
  -- counting the increments
  have cA := countP_set isIncInv s.th t _ (.opRan o (o.result s.val)) ha
  have cR := countP_set isIncRan s.th t _ (.opRan o (o.result s.val)) ha
  have hincA : o = .swap .inc → 0 < s.th.countP isIncInv := by
    intro ho; subst ho
    exact countP_pos_of_getElem? isIncInv s.th t _ ha rfl
  refine relC_move s ms t _ _ _ _ hR ha hinv ?_ ?_ ?_ ?_ ?_ ?_ (by intro o' h; cases h)
  · -- hval
    cases hw : o.isWriter
    · exact Or.inl (hnw hw)
    · exact Or.inr (hwr hw)
  · -- hcorr
    intro e he
    obtain ⟨seen2, lo2, clean2, g1, g2, g3, g4⟩ := he
    refine ⟨seen2, lo2, clean2, g1, ?_, s.val, rfl, ?_, ?_⟩
    · intro hc
      refine ⟨g4 hc, fun ho => ?_⟩
      subst ho; rfl
    · apply mayBe_of_mem _ _ s.val (by simp)
      intro l' hl'
      obtain ⟨l, p1, p2⟩ := g2 l' hl'
      exact p2 _ (hR.val l p1)
    · intro hio hm1
      have hv := hR.ival hio hm1
      have hc := hR.icnt
      constructor
      · omega
      · by_cases hinc : o = .swap .inc
        · have := hincA hinc
          subst hinc; simp [Op.isInc]; omega
        · have : o.isInc = false := by
            cases o with
            | get => rfl
            | set v => rfl
            | swap f => cases f <;> simp [Op.isInc] at hinc ⊢
          simp [this]; omega
  · -- hposs
    intro l hl
    cases hw : o.isWriter with
    | false => rw [hnw hw]; exact hR.val l hl
    | true =>
      rcases hR.p1 l hl with h0 | ⟨⟨d, saved⟩, hs⟩
      · exact absurd h0 (hwr hw)
      · have hd := hsolo_me hw d saved hs
        subst hd
        obtain ⟨o', seen', lo', clean', h1, _, _, h4, h5⟩ := hR.solo d saved hs
        rw [het] at h1; cases h1
        cases saved with
        | none => rw [h4 rfl] at hl; cases hl
        | some l0 =>
          obtain ⟨k1, k2⟩ := h5 l0 rfl
          rw [k1] at hl; cases hl
          have := (k2 _ ha).1 rfl
          rw [hmm]
          simp only [List.mem_append, List.mem_map]
          exact Or.inr ⟨s.val, this, rfl⟩
  · -- hsolo
    intro d o' l0 seen' lo' clean' hs hd ts hts
    obtain ⟨o2, seen2, lo2, clean2, h1, h2, h3, _, h5⟩ := hR.solo d (some l0) hs
    rw [hd] at h1; cases h1
    obtain ⟨_, k2⟩ := h5 l0 rfl
    rcases getElem?_set_cases s.th t d _ ts hts with ⟨hdt, hx⟩ | ⟨hdt, hx⟩
    · subst hdt; subst hx
      rw [het] at hd; cases hd
      refine ⟨(by intro h; cases h), fun r _ => ?_⟩
      have := (k2 _ ha).1 rfl
      rw [hmm]
      simp only [List.mem_map]
      exact ⟨s.val, this, rfl⟩
    · have hnotw : o.isWriter = false := by
        cases hw : o.isWriter
        · rfl
        · exact absurd (hsolo_me hw d _ hs) hdt
      rw [hnw hnotw]
      exact k2 ts hx
  · -- hA
    by_cases hinc : o = .swap .inc
    · subst hinc
      have e1 : isIncInv (.opInv (.swap .inc)) = true := rfl
      have e2 : isIncRan (.opRan (.swap .inc) ((Op.swap .inc).result s.val)) = true := rfl
      rw [e1, isIncInv_opRan] at cA; rw [isIncRan_opInv, e2] at cR
      simp at cA cR
      omega
    · have h1 : isIncInv (.opInv o) = false := by
        cases o with
        | get => rfl
        | set v => rfl
        | swap f => cases f <;> simp [isIncInv] at hinc ⊢
      have h2 : isIncRan (.opRan o (o.result s.val)) = false := by
        cases o with
        | get => rfl
        | set v => rfl
        | swap f => cases f <;> simp [isIncRan] at hinc ⊢
      rw [h1, isIncInv_opRan] at cA; rw [isIncRan_opInv, h2] at cR
      simp at cA cR
      omega
  · -- hival
    intro hio hm1
    have hv := hR.ival hio hm1
    by_cases hinc : o = .swap .inc
    · subst hinc
      rw [inc_newVal s.m s.val (by rw [← hmm]; exact hm1)]
      have e2 : isIncRan (.opRan (.swap .inc) ((Op.swap .inc).result s.val)) = true := rfl
      rw [isIncRan_opInv, e2] at cR
      simp at cR
      omega
    · have hnotw : o.isWriter = false := by
        cases hw : o.isWriter
        · rfl
        · exact absurd (hR.ionly hio t o ha hw) hinc
      have h2 : isIncRan (.opRan o (o.result s.val)) = false := by
        cases o with
        | get => rfl
        | set v => rfl
        | swap f => cases f <;> simp [isIncRan] at hinc ⊢
      rw [isIncRan_opInv, h2] at cR
      simp at cR
      rw [hnw hnotw, cR]; exact hv


/-! ### internal steps of a wait call -/

theorem relC_wmove (s : St) (ms : C15St) (t : Nat) (a b : TS) (bc' : Bcast)
    (hR : RelC s ms) (ha : s.th[t]? = some a)
    (hinv : Inv { s with bc := bc', th := s.th.set t b })
    (hawait : ∀ e, CorrC s.val ms t e a → ∃ k seen lo, e = .wait k seen lo)
    (hcorr : ∀ e, CorrC s.val ms t e a → CorrC s.val ms t e b)
    (hfa : isIncInv a = false ∧ isIncRan a = false) (hfb : isIncInv b = false ∧ isIncRan b = false)
    (hinvb : ∀ o, b ≠ .opInv o) : RelC { s with bc := bc', th := s.th.set t b } ms := by
  have cA := countP_set isIncInv s.th t a b ha
  have cR := countP_set isIncRan s.th t a b ha
  rw [hfa.1, hfb.1] at cA; rw [hfa.2, hfb.2] at cR
  simp at cA cR
  refine relC_move s ms t a b s.val bc' hR ha hinv (Or.inl rfl) hcorr hR.val ?_ (by omega) ?_
    (fun o h => absurd h (hinvb o))
  · intro d o l0 seen lo clean hs hd ts hts
    obtain ⟨o2, seen2, lo2, clean2, h1, _, _, _, h5⟩ := hR.solo d (some l0) hs
    rw [hd] at h1; cases h1
    rcases getElem?_set_cases s.th t d _ ts hts with ⟨hdt, _⟩ | ⟨_, hx⟩
    · subst hdt
      obtain ⟨e, he, hm⟩ := hR.corr d a ha
      obtain ⟨k, seen', lo', hk⟩ := hawait e hm
      rw [he] at hd; cases hd; cases hk
    · exact (h5 l0 rfl).2 ts hx
  · intro hio hm1
    rw [cR]; exact hR.ival hio hm1

theorem inBounds_of_val (s : St) (ms : C15St) (hR : RelC s ms) (lo : Nat) (hlo : lo ≤ ms.incDone) :
    ms.inBounds lo 0 s.val = true := by
  unfold C15St.inBounds
  cases hio : ms.incOnly with
  | false => simp
  | true =>
    by_cases hm1 : ms.m = 1
    · simp [hm1]
    · have hv := hR.ival hio hm1
      have hc := hR.icnt
      simp [hm1]
      omega

theorem relC_waitAttempt (s : St) (ms : C15St) (t : Nat) (a : TS) (k : WKind) (ech : Option ECh)
    (hR : RelC s ms) (ha : s.th[t]? = some a)
    (hca : ∀ e, CorrC s.val ms t e a →
      ∃ seen lo, e = .wait k seen lo ∧ SeenOK ms seen ∧ lo ≤ ms.incDone ∧ EchOK ms t ech)
    (hfa : isIncInv a = false ∧ isIncRan a = false) :
    RelC (waitAttempt s t k ech) ms := by
  have hinv := waitAttempt_inv s t a k ech hR.inv ha
  have hmm := hR.hm
  have seenval : ∀ seen, SeenOK ms seen → ∀ (p : Nat → Bool), p s.val = true → mayBe seen p = true := by
    intro seen hs p hp
    apply mayBe_of_mem _ _ s.val hp
    intro l' hl'
    obtain ⟨l, p1, p2⟩ := hs l' hl'
    exact p2 _ (hR.val l p1)
  cases hev : k.eval s.m s.val with
  | error =>
    simp only [waitAttempt, hev] at hinv ⊢
    refine relC_wmove s ms t a _ _ hR ha hinv ?_ ?_ hfa ⟨rfl, rfl⟩ (by intro o h; cases h)
    · intro e he; obtain ⟨seen, lo, h1, _⟩ := hca e he; exact ⟨k, seen, lo, h1⟩
    · intro e he
      obtain ⟨seen, lo, h1, h2, h3, h4⟩ := hca e he
      refine ⟨k, seen, lo, h1, Or.inr ⟨rfl, ?_⟩⟩
      exact seenval seen h2 _ (by rw [hmm, hev]; rfl)
  | ok =>
    simp only [waitAttempt, hev] at hinv ⊢
    refine relC_wmove s ms t a _ _ hR ha hinv ?_ ?_ hfa ⟨rfl, rfl⟩ (by intro o h; cases h)
    · intro e he; obtain ⟨seen, lo, h1, _⟩ := hca e he; exact ⟨k, seen, lo, h1⟩
    · intro e he
      obtain ⟨seen, lo, h1, h2, h3, h4⟩ := hca e he
      refine ⟨k, seen, lo, h1, ?_⟩
      cases k with
      | empty => exact ⟨rfl, seenval seen h2 _ (by rw [hmm, hev]; rfl)⟩
      | value => exact ⟨by simp, by rw [hmm]; exact hev, seenval seen h2 _ (by simp), inBounds_of_val s ms hR lo h3⟩
      | change old => exact ⟨by simp, by rw [hmm]; exact hev, seenval seen h2 _ (by simp), inBounds_of_val s ms hR lo h3⟩
      | vnil => exact ⟨by simp, by rw [hmm]; exact hev, seenval seen h2 _ (by simp), inBounds_of_val s ms hR lo h3⟩
      | veq x => exact ⟨by simp, by rw [hmm]; exact hev, seenval seen h2 _ (by simp), inBounds_of_val s ms hR lo h3⟩
      | vge x => exact ⟨by simp, by rw [hmm]; exact hev, seenval seen h2 _ (by simp), inBounds_of_val s ms hR lo h3⟩
      | verr x => exact ⟨by simp, by rw [hmm]; exact hev, seenval seen h2 _ (by simp), inBounds_of_val s ms hR lo h3⟩
  | no =>
    simp only [waitAttempt, hev] at hinv ⊢
    refine relC_wmove s ms t a _ _ hR ha hinv ?_ ?_ hfa ⟨rfl, rfl⟩ (by intro o h; cases h)
    · intro e he; obtain ⟨seen, lo, h1, _⟩ := hca e he; exact ⟨k, seen, lo, h1⟩
    · intro e he
      obtain ⟨seen, lo, h1, h2, h3, h4⟩ := hca e he
      exact ⟨seen, lo, h1, h2, h3, h4⟩


/-! ### environment actions -/

/-- the monitor learns about more fired error sources; nothing else changes -/
theorem relC_env (s : St) (ms : C15St) (cx' cn' : List Nat) (es' : List (Nat × Nat)) (ec' : List Nat)
    (hR : RelC s ms) (hcn : cn' = cx')
    (h0 : ∀ x, x ∈ ms.cancelled → x ∈ cn')
    (h1 : ∀ x, x ∈ ms.errsent → x ∈ es') (h2 : ∀ x, x ∈ ms.errclosed → x ∈ ec') :
    RelC { s with cx := cx' } { ms with cancelled := cn', errsent := es', errclosed := ec' } := by
  have hmm : MsMono ms { ms with cancelled := cn', errsent := es', errclosed := ec' } :=
    ⟨rfl, rfl, Nat.le_refl _, Nat.le_refl _, fun h => h, h1, h0, h2, fun h => h,
     fun l h => ⟨l, h, fun _ h => h⟩⟩
  refine ⟨⟨hR.inv.bcwf, hR.inv.parked⟩, hR.len, hR.hm, hcn, ?_, hR.val, hR.nwr, hR.p1, hR.solo,
    hR.icnt, hR.ival, hR.ionly, hR.fresh⟩
  intro u ts hu
  obtain ⟨e, he, hm⟩ := hR.corr u ts hu
  exact ⟨e, he, corrC_keep s.val s.val ms _ hmm u e ts (Or.inl rfl) hm⟩

theorem relC_onECh (s s' : St) (ms : C15St) (t : Nat) (f : ECh → Option ECh)
    (hR : RelC s ms) (hs : onECh s t f = some s') (hinv : Inv s')
    (hf : ∀ c c', f c = some c' → EchOK ms t (some c) → EchOK ms t (some c')) : RelC s' ms := by
  unfold onECh at hs
  split at hs
  · rename_i k e h
    cases hfe : f e with
    | none => simp [hfe] at hs
    | some e' =>
      simp [hfe] at hs; subst hs
      refine relC_wmove s ms t _ _ s.bc hR h hinv ?_ ?_ ⟨rfl, rfl⟩ ⟨rfl, rfl⟩ (by intro o h; cases h)
      · intro en hen; obtain ⟨seen, lo, h1, _⟩ := hen; exact ⟨k, seen, lo, h1⟩
      · intro en hen
        obtain ⟨seen, lo, h1, h2, h3, h4⟩ := hen
        exact ⟨seen, lo, h1, h2, h3, hf e e' hfe h4⟩
  · rename_i k e c h
    cases hfe : f e with
    | none => simp [hfe] at hs
    | some e' =>
      simp [hfe] at hs; subst hs
      refine relC_wmove s ms t _ _ s.bc hR h hinv ?_ ?_ ⟨rfl, rfl⟩ ⟨rfl, rfl⟩ (by intro o h; cases h)
      · intro en hen; obtain ⟨seen, lo, h1, _⟩ := hen; exact ⟨k, seen, lo, h1⟩
      · intro en hen
        obtain ⟨seen, lo, h1, h2, h3, h4⟩ := hen
        exact ⟨seen, lo, h1, h2, h3, hf e e' hfe h4⟩
  · simp at hs; subst hs; exact hR
  · simp at hs; subst hs; exact hR
  · simp at hs


/-! ### a call is invoked -/

theorem mayBe_imp (seen : Option (List Nat)) (p q : Nat → Bool) (hpq : ∀ v, p v = true → q v = true)
    (h : mayBe seen p = true) : mayBe seen q = true := by
  cases seen with
  | none => rfl
  | some l =>
    simp only [mayBe] at h ⊢
    rw [List.any_eq_true] at h ⊢
    obtain ⟨x, hx, hpx⟩ := h
    exact ⟨x, hx, hpq x hpx⟩

theorem isPendW_see (n : Option (List Nat)) (e : CEntry) : isPendW (e.see n) = isPendW e := by
  cases e with
  | op o seen lo clean pend => cases pend <;> rfl
  | wait k seen lo => rfl

theorem countP_map_see (n : Option (List Nat)) (l : List CEntry) :
    (l.map (CEntry.see n)).countP isPendW = l.countP isPendW := by
  induction l with
  | nil => rfl
  | cons a r ih => simp [List.countP_cons, isPendW_see, ih]

theorem seenOK_addSeen (ms' : C15St) (seen : Option (List Nat)) :
    SeenOK ms' (addSeen ms'.poss seen) := by
  intro l' hl'
  cases seen with
  | none => simp [addSeen] at hl'
  | some l1 =>
    cases hp : ms'.poss with
    | none => rw [hp] at hl'; simp [addSeen] at hl'
    | some l2 =>
      rw [hp] at hl'; simp [addSeen] at hl'
      subst hl'
      exact ⟨l2, rfl, fun w hw => by simp [hw]⟩

/-- monitor-state evolution at the invocation of a writer, as far as old entries are concerned -/
structure MsInv (ms ms' : C15St) : Prop where
  m : ms'.m = ms.m
  base : ms'.base = ms.base
  incInv : ms.incInv ≤ ms'.incInv
  incDone : ms'.incDone = ms.incDone
  incOnly : ms'.incOnly = true → ms.incOnly = true
  errsent : ms'.errsent = ms.errsent
  cancelled : ms'.cancelled = ms.cancelled
  errclosed : ms'.errclosed = ms.errclosed

theorem MsInv.boundOK {ms ms' : C15St} (h : MsInv ms ms') (lo : Nat) (o : Op) (v0 : Nat)
    (hb : BoundOK ms lo o v0) : BoundOK ms' lo o v0 := by
  intro h1 h2
  have := hb (h.incOnly h1) (by rw [← h.m]; exact h2)
  rw [h.base]
  have := h.incInv
  omega

theorem corrC_see (val : Nat) (ms ms' : C15St) (hmi : MsInv ms ms') (t : Nat) (e : CEntry) (ts : TS)
    (h : CorrC val ms t e ts) : CorrC val ms' t (e.see ms'.poss) ts := by
  cases ts with
  | opInv o =>
    obtain ⟨seen, lo, clean, h1, h2, h3, h4⟩ := h
    subst h1
    exact ⟨_, lo, false, rfl, seenOK_addSeen ms' seen, (by rw [hmi.incDone]; exact h3),
      (fun hc => by cases hc)⟩
  | opRan o r =>
    obtain ⟨seen, lo, clean, h1, h2, v0, h3, h4, h5⟩ := h
    subst h1
    exact ⟨_, lo, false, rfl, (fun hc => by cases hc), v0, h3, mayBe_addSeen _ _ _ h4,
      hmi.boundOK lo o v0 h5⟩
  | done =>
    rcases h with ⟨o, seen, lo, clean, h1⟩ | ⟨k, seen, lo, h1⟩
    · subst h1; exact Or.inl ⟨o, seen, lo, clean, rfl⟩
    · subst h1; exact Or.inr ⟨k, _, lo, rfl⟩
  | wLoop k ech =>
    obtain ⟨seen, lo, h1, h2, h3, h4⟩ := h
    subst h1
    refine ⟨_, lo, rfl, seenOK_addSeen ms' seen, by rw [hmi.incDone]; exact h3, ?_⟩
    intro c hc
    obtain ⟨g1, g2⟩ := h4 c hc
    exact ⟨fun e he => by rw [hmi.errsent]; exact g1 e he, fun hcl => by rw [hmi.errclosed]; exact g2 hcl⟩
  | wParked k ech ch =>
    obtain ⟨seen, lo, h1, h2, h3, h4⟩ := h
    subst h1
    refine ⟨_, lo, rfl, seenOK_addSeen ms' seen, by rw [hmi.incDone]; exact h3, ?_⟩
    intro c hc
    obtain ⟨g1, g2⟩ := h4 c hc
    exact ⟨fun e he => by rw [hmi.errsent]; exact g1 e he, fun hcl => by rw [hmi.errclosed]; exact g2 hcl⟩
  | wRet r =>
    obtain ⟨k, seen, lo, h1, h2⟩ := h
    subst h1
    refine ⟨k, _, lo, rfl, ?_⟩
    cases r with
    | val v =>
      obtain ⟨g1, g2, g3, g4⟩ := h2
      exact ⟨g1, by rw [hmi.m]; exact g2, mayBe_addSeen _ _ _ g3,
        inBounds_mono ms ms' lo 0 v hmi.m hmi.base hmi.incInv hmi.incOnly g4⟩
    | ok =>
      obtain ⟨g1, g2⟩ := h2
      exact ⟨g1, by rw [hmi.m]; exact mayBe_addSeen _ _ _ g2⟩
    | err e =>
      rcases h2 with g | ⟨g1, g2⟩
      · exact Or.inl (by rw [hmi.errsent]; exact g)
      · exact Or.inr ⟨g1, by rw [hmi.m]; exact mayBe_addSeen _ _ _ g2⟩
    | canceled =>
      rcases h2 with g | g
      · exact Or.inl (by rw [hmi.cancelled]; exact g)
      · exact Or.inr (by rw [hmi.errclosed]; exact g)


/-- invocation of a call that is not a writer: only a new entry and a new thread -/
theorem relC_append (s : St) (ms : C15St) (b : TS) (e' : CEntry) (hR : RelC s ms)
    (hinv : Inv { s with th := s.th ++ [b] })
    (hpw : isPendW e' = false)
    (hcb : CorrC s.val ms s.th.length e' b)
    (hfb : isIncInv b = false ∧ isIncRan b = false)
    (hnw : ∀ o, b = .opInv o → o.isWriter = false) :
    RelC { s with th := s.th ++ [b] } { ms with calls := ms.calls ++ [e'] } := by
  have hmm : MsMono ms { ms with calls := ms.calls ++ [e'] } :=
    ⟨rfl, rfl, Nat.le_refl _, Nat.le_refl _, fun h => h, fun _ h => h, fun _ h => h, fun _ h => h,
     fun h => h, fun l h => ⟨l, h, fun _ h => h⟩⟩
  have oldT : ∀ (u : Nat) (ts : TS), (s.th ++ [b])[u]? = some ts →
      (u < s.th.length ∧ s.th[u]? = some ts) ∨ (u = s.th.length ∧ ts = b) :=
    fun u ts hu => getElem?_snoc_cases s.th b ts u hu
  refine ⟨hinv, by simp [hR.len], hR.hm, hR.hcx, ?_, hR.val, ?_, hR.p1, ?_, ?_, ?_, ?_, ?_⟩
  · intro u ts hu
    rcases oldT u ts hu with ⟨_, h0⟩ | ⟨hul, hts⟩
    · obtain ⟨e, he, hm⟩ := hR.corr u ts h0
      exact ⟨e, getElem?_snoc_left _ _ _ _ he, corrC_keep s.val s.val ms _ hmm u e ts (Or.inl rfl) hm⟩
    · subst hts
      refine ⟨e', by simp only; rw [hul, ← hR.len]; simp, ?_⟩
      rw [hul]
      exact corrC_keep s.val s.val ms _ hmm _ e' ts (Or.inl rfl) hcb
  · simp only [countP_append_one, hpw]; simpa using hR.nwr
  · intro d saved hs
    obtain ⟨o, seen, lo, clean, h1, h2, h3, h4, h5⟩ := hR.solo d saved hs
    refine ⟨o, seen, lo, clean, getElem?_snoc_left _ _ _ _ h1, h2, h3, h4, ?_⟩
    intro l0 hl0
    obtain ⟨k1, k2⟩ := h5 l0 hl0
    refine ⟨k1, ?_⟩
    intro ts hu
    rcases oldT d ts hu with ⟨_, h0⟩ | ⟨hdl, _⟩
    · exact k2 ts h0
    · have := lt_of_getElem? h1; rw [hR.len] at this; omega
  · simp only [countP_append_one, hfb.1, hfb.2]; simpa using hR.icnt
  · intro hio hm1
    simp only [countP_append_one, hfb.2]; simpa using hR.ival hio hm1
  · intro hio u o hu hw
    rcases oldT u _ hu with ⟨_, h0⟩ | ⟨_, hts⟩
    · exact hR.ionly hio u o h0 hw
    · rw [hnw o hts.symm] at hw; cases hw
  · intro h; simp at h

/-- invocation of a writer (`SetValue`, `SwapValue` with a callback) -/
theorem relC_invWriter (s : St) (ms : C15St) (o : Op) (hR : RelC s ms) (hw : o.isWriter = true)
    (hinv : Inv { s with th := s.th ++ [.opInv o] }) :
    RelC { s with th := s.th ++ [.opInv o] }
      { ms with
        calls := ms.calls.map (CEntry.see (if ms.nwr = 0 then ms.poss.map (fun l => l ++ l.map (o.newVal ms.m)) else none)) ++
          [.op o (if ms.nwr = 0 then ms.poss.map (fun l => l ++ l.map (o.newVal ms.m)) else none) ms.incDone false true]
        poss := if ms.nwr = 0 then ms.poss.map (fun l => l ++ l.map (o.newVal ms.m)) else none
        nwr := ms.nwr + 1
        solo := if ms.nwr = 0 then some (ms.calls.length, ms.poss) else none
        incOnly := ms.incOnly && o.isInc
        incInv := ms.incInv + (if o.isInc then 1 else 0) } := by
  generalize hposs' : (if ms.nwr = 0 then ms.poss.map (fun l => l ++ l.map (o.newVal ms.m)) else none) = poss'
  generalize hms' : ({ ms with
        calls := ms.calls.map (CEntry.see poss') ++ [.op o poss' ms.incDone false true]
        poss := poss'
        nwr := ms.nwr + 1
        solo := if ms.nwr = 0 then some (ms.calls.length, ms.poss) else none
        incOnly := ms.incOnly && o.isInc
        incInv := ms.incInv + (if o.isInc then 1 else 0) } : C15St) = ms'
  have e_calls : ms'.calls = ms.calls.map (CEntry.see ms'.poss) ++ [.op o ms'.poss ms.incDone false true] := by
    rw [← hms']
  have e_poss : ms'.poss = poss' := by rw [← hms']
  have e_nwr : ms'.nwr = ms.nwr + 1 := by rw [← hms']
  have e_solo : ms'.solo = if ms.nwr = 0 then some (ms.calls.length, ms.poss) else none := by rw [← hms']
  have e_only : ms'.incOnly = (ms.incOnly && o.isInc) := by rw [← hms']
  have e_inv : ms'.incInv = ms.incInv + (if o.isInc then 1 else 0) := by rw [← hms']
  have e_done : ms'.incDone = ms.incDone := by rw [← hms']
  have e_m : ms'.m = ms.m := by rw [← hms']
  have e_base : ms'.base = ms.base := by rw [← hms']
  have e_cn : ms'.cancelled = ms.cancelled := by rw [← hms']
  have e_es : ms'.errsent = ms.errsent := by rw [← hms']
  have e_ec : ms'.errclosed = ms.errclosed := by rw [← hms']
  have hmi : MsInv ms ms' :=
    ⟨e_m, e_base, by rw [e_inv]; omega, e_done, by intro h; rw [e_only] at h; simp at h; exact h.1,
     e_es, e_cn, e_ec⟩
  have oldT : ∀ (u : Nat) (ts : TS), (s.th ++ [.opInv o])[u]? = some ts →
      (u < s.th.length ∧ s.th[u]? = some ts) ∨ (u = s.th.length ∧ ts = .opInv o) :=
    fun u ts hu => getElem?_snoc_cases s.th _ ts u hu
  have hlenm : (ms.calls.map (CEntry.see ms'.poss)).length = s.th.length := by simp [hR.len]
  have hnew : ms'.calls[s.th.length]? = some (.op o ms'.poss ms.incDone false true) := by
    rw [e_calls, List.getElem?_append_right (by rw [hlenm]; omega), hlenm]; simp
  have hisinc : isIncInv (.opInv o) = o.isInc := by
    cases o with
    | get => rfl
    | set v => rfl
    | swap f => cases f <;> rfl
  refine ⟨hinv, by rw [e_calls]; simp [hR.len], by rw [e_m]; exact hR.hm, by rw [e_cn]; exact hR.hcx,
    ?_, ?_, ?_, ?_, ?_, ?_, ?_, ?_, ?_⟩
  · -- corr
    intro u ts hu
    rcases oldT u ts hu with ⟨hlt, h0⟩ | ⟨hul, hts⟩
    · obtain ⟨e, he, hm⟩ := hR.corr u ts h0
      refine ⟨e.see ms'.poss, ?_, corrC_see s.val ms ms' hmi u e ts hm⟩
      rw [e_calls, List.getElem?_append_left (by rw [hlenm]; exact hlt)]
      simp [he]
    · subst hts
      refine ⟨_, by rw [hul]; exact hnew, ?_⟩
      refine ⟨ms'.poss, ms.incDone, false, rfl, ?_, by rw [e_done]; exact Nat.le_refl _, fun h => by cases h⟩
      intro l' hl'; exact ⟨l', hl', fun _ h => h⟩
  · -- val
    intro l hl
    rw [e_poss, ← hposs'] at hl
    split at hl
    · cases hp : ms.poss with
      | none => rw [hp] at hl; simp at hl
      | some l0 =>
        rw [hp] at hl; simp at hl; subst hl
        simp [hR.val l0 hp]
    · cases hl
  · -- nwr
    rw [e_nwr, e_calls, countP_append_one, countP_map_see, isPendW_of_writer o _ _ _ hw, hR.nwr]; rfl
  · -- p1
    intro l hl
    rw [e_poss, ← hposs'] at hl
    split at hl
    · rename_i hn; right; rw [e_solo, if_pos hn]; exact ⟨_, rfl⟩
    · cases hl
  · -- solo
    intro d saved hs
    rw [e_solo] at hs
    split at hs <;> simp at hs
    rename_i hn
    obtain ⟨hd, hsv⟩ := hs
    subst hsv
    refine ⟨o, ms'.poss, ms.incDone, false, by rw [← hd, hR.len]; exact hnew, hw, by rw [e_nwr]; omega,
      ?_, ?_⟩
    · intro hnone; rw [e_poss, ← hposs', if_pos hn, hnone]; rfl
    · intro l0 hl0
      refine ⟨by rw [e_poss, ← hposs', if_pos hn, hl0, e_m]; rfl, ?_⟩
      intro ts hu
      rcases oldT d ts hu with ⟨hlt, _⟩ | ⟨_, hts⟩
      · rw [← hd, hR.len] at hlt; omega
      · subst hts
        exact ⟨fun _ => hR.val l0 hl0, fun r h => by cases h⟩
  · -- icnt
    rw [e_inv, e_done]
    simp only [countP_append_one, hisinc, isIncRan_opInv]
    have := hR.icnt
    cases o.isInc <;> simp <;> omega
  · -- ival
    intro hio hm1
    rw [e_only] at hio; simp at hio
    rw [e_base, e_done]
    simp only [countP_append_one, isIncRan_opInv]
    simpa using hR.ival hio.1 (by rw [← e_m]; exact hm1)
  · -- ionly
    intro hio u o' hu hw'
    rw [e_only] at hio; simp at hio
    rcases oldT u _ hu with ⟨_, h0⟩ | ⟨_, hts⟩
    · exact hR.ionly hio.1 u o' h0 hw'
    · have ho : o' = o := by injection hts
      rw [ho]
      have hinc := hio.2
      cases o with
      | get => simp [Op.isInc] at hinc
      | set v => simp [Op.isInc] at hinc
      | swap f => cases f <;> simp [Op.isInc] at hinc ⊢
  · intro h; simp at h


/-! ### Get/Set/Swap returns -/

theorem inBounds_of_boundOK (ms : C15St) (lo : Nat) (o : Op) (v0 : Nat) (h : BoundOK ms lo o v0) :
    ms.inBounds lo (if o.isInc then 1 else 0) (v0 + (if o.isInc then 1 else 0)) = true := by
  unfold C15St.inBounds
  cases hio : ms.incOnly with
  | false => simp
  | true =>
    by_cases hm1 : ms.m = 1
    · simp [hm1]
    · have := h hio hm1
      simp [hm1]
      omega

theorem okRes_of_corr (ms : C15St) (o : Op) (seen : Option (List Nat)) (lo r v0 : Nat)
    (hr : r = o.result v0) (hmay : mayBe seen (· == v0) = true) (hb : BoundOK ms lo o v0) :
    okResOf ms o seen lo r = true := by
  have hib := inBounds_of_boundOK ms lo o v0 hb
  subst hr
  cases o with
  | get => simpa [okResOf, Op.result, Op.isInc, hmay] using hib
  | set v => rfl
  | swap f =>
    have hm2 : mayBe seen (fun v => f.apply v == f.apply v0) = true :=
      mayBe_imp seen _ _ (by intro v hv; simp at hv; simp [hv]) hmay
    cases f with
    | inc => simpa [okResOf, Op.result, Op.isInc, hm2, hmay, SwapF.apply] using hib
    | nilcb => simpa [okResOf, Op.result, Op.isInc, hm2, hmay, SwapF.apply] using hib
    | setk k => simp [okResOf, Op.result, hm2]
    | clear => simp [okResOf, Op.result, hm2]

theorem isIncRan_eq (o : Op) (r : Nat) : isIncRan (.opRan o r) = o.isInc := by
  cases o with
  | get => rfl
  | set v => rfl
  | swap f => cases f <;> rfl

theorem relC_retOp (s : St) (ms : C15St) (t : Nat) (o : Op) (r : Nat) (hR : RelC s ms)
    (ha : s.th[t]? = some (.opRan o r)) (hinv : Inv { s with th := s.th.set t .done }) :
    ∃ ms', monC15.step ms (.retOp t r) = some ms' ∧ RelC { s with th := s.th.set t .done } ms' := by
  obtain ⟨et, het, seen, lo, clean, hete, hclean, v0, hr, hmay, hbound⟩ := hR.corr t _ ha
  subst hete
  have hok := okRes_of_corr ms o seen lo r v0 hr hmay hbound
  refine ⟨retOpMs ms t o seen lo clean r, by simp only [monC15, het, hok, if_true], ?_⟩
  have hlt : t < ms.calls.length := lt_of_getElem? het
  have old : ∀ (u : Nat) (ts : TS), (s.th.set t .done)[u]? = some ts →
      (u = t ∧ ts = .done) ∨ (u ≠ t ∧ s.th[u]? = some ts) :=
    fun u ts hu => getElem?_set_cases s.th t u .done ts hu
  have hne : s.th ≠ [] := by intro h; rw [h] at ha; simp at ha
  have cA := countP_set isIncInv s.th t _ .done ha
  have cR := countP_set isIncRan s.th t _ .done ha
  rw [isIncInv_opRan] at cA
  rw [isIncRan_eq] at cR
  have hA' : (s.th.set t .done).countP isIncInv = s.th.countP isIncInv := by simpa [isIncInv] using cA
  have hR' : (s.th.set t .done).countP isIncRan + (if o.isInc then 1 else 0) = s.th.countP isIncRan := by
    simpa [isIncRan] using cR
  generalize hms' : retOpMs ms t o seen lo clean r = ms'
  have e_calls : ms'.calls = ms.calls.set t (.op o seen lo clean false) := by
    rw [← hms']; unfold retOpMs; split <;> (try split) <;> rfl
  have e_m : ms'.m = ms.m := by rw [← hms']; unfold retOpMs; split <;> (try split) <;> rfl
  have e_base : ms'.base = ms.base := by rw [← hms']; unfold retOpMs; split <;> (try split) <;> rfl
  have e_cn : ms'.cancelled = ms.cancelled := by rw [← hms']; unfold retOpMs; split <;> (try split) <;> rfl
  have e_es : ms'.errsent = ms.errsent := by rw [← hms']; unfold retOpMs; split <;> (try split) <;> rfl
  have e_ec : ms'.errclosed = ms.errclosed := by rw [← hms']; unfold retOpMs; split <;> (try split) <;> rfl
  have e_only : ms'.incOnly = ms.incOnly := by rw [← hms']; unfold retOpMs; split <;> (try split) <;> rfl
  have e_inv : ms'.incInv = ms.incInv := by rw [← hms']; unfold retOpMs; split <;> (try split) <;> rfl
  -- the common part: everything except poss / nwr / solo / incDone
  have finish : MsMono ms ms' → (∀ l, ms'.poss = some l → s.val ∈ l) →
      ms'.nwr = (ms.calls.set t (.op o seen lo clean false)).countP isPendW →
      (∀ l, ms'.poss = some l → ms'.nwr = 0 ∨ ∃ ds, ms'.solo = some ds) →
      (∀ (d : Nat) (saved : Option (List Nat)), ms'.solo = some (d, saved) →
        ms.solo = some (d, saved) ∧ d ≠ t ∧ ms'.nwr = ms.nwr ∧ ms'.poss = ms.poss) →
      ms'.incDone = ms.incDone + (if o.isInc then 1 else 0) →
      RelC { s with th := s.th.set t .done } ms' := by
    intro hmm hval hnwr hp1 hsolo hdone
    refine ⟨hinv, by rw [e_calls]; simp [hR.len], by rw [e_m]; exact hR.hm, by rw [e_cn]; exact hR.hcx,
      ?_, hval, by rw [e_calls]; exact hnwr, hp1, ?_, ?_, ?_, ?_, ?_⟩
    · intro u ts hu
      rcases old u ts hu with ⟨hut, hts⟩ | ⟨hut, h0⟩
      · subst hut; subst hts
        exact ⟨_, by rw [e_calls]; simp [hlt], Or.inl ⟨o, seen, lo, clean, rfl⟩⟩
      · obtain ⟨e, he, hm⟩ := hR.corr u ts h0
        exact ⟨e, by rw [e_calls, getElem?_set_ne' _ _ _ _ (fun h => hut h.symm)]; exact he,
          corrC_keep s.val s.val ms ms' hmm u e ts (Or.inl rfl) hm⟩
    · intro d saved hs
      obtain ⟨hs0, hdt, hn, hp⟩ := hsolo d saved hs
      obtain ⟨o2, seen2, lo2, clean2, h1, h2, h3, h4, h5⟩ := hR.solo d saved hs0
      refine ⟨o2, seen2, lo2, clean2, by rw [e_calls, getElem?_set_ne' _ _ _ _ (fun h => hdt h.symm)]; exact h1,
        h2, by rw [hn]; exact h3, by rw [hp]; exact h4, ?_⟩
      intro l0 hl0
      obtain ⟨k1, k2⟩ := h5 l0 hl0
      refine ⟨by rw [hp, e_m]; exact k1, ?_⟩
      intro ts hu
      rcases old d ts hu with ⟨hut, _⟩ | ⟨_, h0⟩
      · exact absurd hut hdt
      · rw [e_m]; exact k2 ts h0
    · rw [e_inv, hdone, hA']
      have h1 := hR.icnt
      cases hi : o.isInc <;> simp [hi] at hR' ⊢ <;> omega
    · intro hio hm1
      rw [e_only] at hio
      rw [e_m] at hm1
      rw [e_base, hdone]
      have h1 := hR.ival hio hm1
      cases hi : o.isInc <;> simp [hi] at hR' ⊢ <;> omega
    · intro hio u o' hu hw'
      rw [e_only] at hio
      rcases old u _ hu with ⟨_, hts⟩ | ⟨_, h0⟩
      · cases hts
      · exact hR.ionly hio u o' h0 hw'
    · intro h
      simp only at h
      have : (s.th.set t .done).length = 0 := by rw [h]; rfl
      simp at this
      exact absurd this hne
  cases hw : o.isWriter with
  | true =>
    have hpw : isPendW (.op o seen lo clean true) = true := isPendW_of_writer o seen lo clean hw
    have hn1 : 0 < ms.nwr := by
      rw [hR.nwr]; exact countP_pos_of_getElem? isPendW ms.calls t _ het hpw
    have e_nwr : ms'.nwr = ms.nwr - 1 := by rw [← hms']; unfold retOpMs; rw [if_pos hw]
    have e_solo : ms'.solo = none := by rw [← hms']; unfold retOpMs; rw [if_pos hw]
    have e_done : ms'.incDone = ms.incDone + (if o.isInc then 1 else 0) := by
      rw [← hms']; unfold retOpMs; rw [if_pos hw]
    have e_poss : ms'.poss = (match ms.solo with
        | some (d, saved) => if d = t then saved.map (fun l => l.map (o.newVal ms.m)) else none
        | none => none) := by
      rw [← hms']; unfold retOpMs; rw [if_pos hw]; rfl
    -- if a solo writer is recorded, it is this call
    have solo_me : ∀ d saved, ms.solo = some (d, saved) → d = t ∧ ms.nwr = 1 ∧
        (saved = none → ms.poss = none) ∧
        (∀ l0, saved = some l0 → ms.poss = some (l0 ++ l0.map (o.newVal ms.m)) ∧
          s.val ∈ l0.map (o.newVal ms.m)) := by
      intro d saved hs
      obtain ⟨o2, seen2, lo2, clean2, h1, h2, h3, h4, h5⟩ := hR.solo d saved hs
      have hd : d = t := (one_pendW ms.calls d t _ _ (by rw [← hR.nwr]; exact h3) h1 het
        (isPendW_of_writer o2 seen2 lo2 clean2 h2) hpw).symm
      subst hd
      rw [het] at h1; cases h1
      refine ⟨rfl, h3, h4, ?_⟩
      intro l0 hl0
      obtain ⟨k1, k2⟩ := h5 l0 hl0
      exact ⟨k1, (k2 _ ha).2 r rfl⟩
    -- the new possible set, when known, is the image of the saved one
    have newposs : ∀ l, ms'.poss = some l → ∃ l0, ms.solo = some (t, some l0) ∧
        l = l0.map (o.newVal ms.m) := by
      intro l hl
      rw [e_poss] at hl
      cases hs : ms.solo with
      | none => rw [hs] at hl; cases hl
      | some ds =>
        obtain ⟨d, saved⟩ := ds
        rw [hs] at hl
        simp only at hl
        obtain ⟨hd, _, _, _⟩ := solo_me d saved hs
        subst hd
        simp at hl
        cases saved with
        | none => simp at hl
        | some l0 => simp at hl; exact ⟨l0, rfl, hl.symm⟩
    apply finish
    · -- MsMono
      refine ⟨e_m, e_base, by rw [e_inv]; exact Nat.le_refl _, by rw [e_done]; omega,
        by rw [e_only]; exact fun h => h, by rw [e_es]; exact fun _ h => h,
        by rw [e_cn]; exact fun _ h => h, by rw [e_ec]; exact fun _ h => h,
        by intro h; omega, ?_⟩
      intro l hl
      rcases hR.p1 l hl with h0 | ⟨⟨d, saved⟩, hs⟩
      · omega
      · obtain ⟨hd, _, h4, h5⟩ := solo_me d saved hs
        subst hd
        cases saved with
        | none => rw [h4 rfl] at hl; cases hl
        | some l0 =>
          obtain ⟨k1, _⟩ := h5 l0 rfl
          rw [k1] at hl; cases hl
          refine ⟨l0.map (o.newVal ms.m), by rw [e_poss, hs]; simp, ?_⟩
          intro w hw'; simp only [List.mem_append]; exact Or.inr hw'
    · -- val
      intro l hl
      obtain ⟨l0, hs, hl0⟩ := newposs l hl
      subst hl0
      exact ((solo_me t (some l0) hs).2.2.2 l0 rfl).2
    · -- nwr
      rw [e_nwr]
      have h := countP_set isPendW ms.calls t _ (.op o seen lo clean false) het
      rw [hpw] at h
      simp [isPendW] at h
      rw [hR.nwr]; omega
    · -- p1
      intro l hl
      obtain ⟨l0, hs, _⟩ := newposs l hl
      left
      rw [e_nwr, (solo_me t (some l0) hs).2.1]
    · intro d saved hs; rw [e_solo] at hs; cases hs
    · exact e_done
  | false =>
    have hpw0 : isPendW (.op o seen lo clean true) = false := by simp [isPendW, hw]
    have hinc0 : o.isInc = false := by
      cases o with
      | get => rfl
      | set v => rfl
      | swap f => cases f <;> simp [Op.isWriter] at hw <;> rfl
    have hwf : ¬ (o.isWriter = true) := by simp [hw]
    have e_nwr : ms'.nwr = ms.nwr := by
      rw [← hms']; unfold retOpMs; rw [if_neg hwf]; split <;> rfl
    have e_solo : ms'.solo = ms.solo := by
      rw [← hms']; unfold retOpMs; rw [if_neg hwf]; split <;> rfl
    have e_done : ms'.incDone = ms.incDone := by
      rw [← hms']; unfold retOpMs; rw [if_neg hwf]; split <;> rfl
    have hnwr : ms'.nwr = (ms.calls.set t (.op o seen lo clean false)).countP isPendW := by
      rw [e_nwr]
      have h := countP_set isPendW ms.calls t _ (.op o seen lo clean false) het
      rw [hpw0] at h
      simp [isPendW] at h
      rw [hR.nwr]; omega
    have hsolo_keep : ∀ (d : Nat) (saved : Option (List Nat)), ms.solo = some (d, saved) → d ≠ t := by
      intro d saved hs hdt
      subst hdt
      obtain ⟨o2, seen2, lo2, clean2, h1, h2, _, _, _⟩ := hR.solo d saved hs
      rw [het] at h1; cases h1
      rw [hw] at h2; cases h2
    by_cases hcg : (clean && o == .get) = true
    · -- a read that overlapped no writer pins the content
      simp at hcg
      obtain ⟨hc, hog⟩ := hcg
      subst hog
      obtain ⟨hn0, hvr⟩ := hclean hc
      have hvr := hvr rfl
      have e_poss : ms'.poss = some [r] := by
        rw [← hms']; unfold retOpMs; rw [if_neg hwf, if_pos (by simp [hc])]
      apply finish
      · refine ⟨e_m, e_base, by rw [e_inv]; exact Nat.le_refl _, by rw [e_done]; exact Nat.le_refl _,
          by rw [e_only]; exact fun h => h, by rw [e_es]; exact fun _ h => h,
          by rw [e_cn]; exact fun _ h => h, by rw [e_ec]; exact fun _ h => h,
          by intro h; rw [e_nwr]; exact h, ?_⟩
        intro l hl
        refine ⟨[r], e_poss, ?_⟩
        intro w hw'; simp at hw'; subst hw'; rw [← hvr]; exact hR.val l hl
      · intro l hl; rw [e_poss] at hl; cases hl; simp [hvr]
      · exact hnwr
      · intro l _; left; rw [e_nwr]; exact hn0
      · intro d saved hs
        rw [e_solo] at hs
        obtain ⟨_, _, _, _, _, _, h3, _, _⟩ := hR.solo d saved hs
        omega
      · rw [e_done, hinc0]; rfl
    · have e_poss : ms'.poss = ms.poss := by
        rw [← hms']; unfold retOpMs; rw [if_neg hwf, if_neg hcg]
      apply finish
      · exact ⟨e_m, e_base, by rw [e_inv]; exact Nat.le_refl _, by rw [e_done]; exact Nat.le_refl _,
          by rw [e_only]; exact fun h => h, by rw [e_es]; exact fun _ h => h,
          by rw [e_cn]; exact fun _ h => h, by rw [e_ec]; exact fun _ h => h,
          by intro h; rw [e_nwr]; exact h, by intro l hl; exact ⟨l, by rw [e_poss]; exact hl, fun _ h => h⟩⟩
      · intro l hl; rw [e_poss] at hl; exact hR.val l hl
      · exact hnwr
      · intro l hl; rw [e_poss] at hl; rw [e_nwr, e_solo]; exact hR.p1 l hl
      · intro d saved hs
        rw [e_solo] at hs
        exact ⟨hs, hsolo_keep d saved hs, e_nwr, e_poss⟩
      · rw [e_done, hinc0]; rfl


/-! ### the simulation step -/

theorem c15_sim_step (s : St) (e : Ev) (s' : St) (ms : C15St) (hR : RelC s ms)
    (hs : step s e = some s') :
    match Ev.obs e with
    | none => RelC s' ms
    | some o => ∃ ms', monC15.step ms o = some ms' ∧ RelC s' ms' := by
  have hinv' := step_inv s e s' hR.inv hs
  cases e with
  | new v m =>
    simp only [step] at hs; split at hs <;> simp at hs; subst hs
    rename_i hth
    have hcalls : ms.calls = [] := by
      have := hR.len; rw [hth] at this; simpa using this
    refine ⟨_, rfl, ?_⟩
    refine ⟨hinv', hR.len, rfl, hR.hcx, ?_, ?_, hR.nwr, ?_, ?_, hR.icnt, ?_, ?_, hR.fresh⟩
    · intro t ts h; simp [hth] at h
    · intro l hl; simp at hl; subst hl; simp
    · intro l _; left; simp only; rw [hR.nwr, hcalls]; rfl
    · intro d saved hsolo
      obtain ⟨o, seen, lo, clean, h1, _⟩ := hR.solo d saved hsolo
      rw [hcalls] at h1; simp at h1
    · intro _ _
      obtain ⟨h1, _⟩ := hR.fresh hth
      simp only [h1, hth]; simp
    · intro _ t o h; simp [hth] at h
  | invOp t o =>
    simp only [step] at hs; split at hs <;> simp at hs; subst hs
    simp only [Ev.obs, monC15]
    cases hw : o.isWriter with
    | true =>
      simp only [if_true]
      exact ⟨_, rfl, relC_invWriter s ms o hR hw hinv'⟩
    | false =>
      simp only [Bool.false_eq_true, if_false]
      refine ⟨_, rfl, ?_⟩
      refine relC_append s ms _ _ hR hinv' (by simp [isPendW, hw]) ?_ ⟨?_, rfl⟩ ?_
      · refine ⟨ms.poss, ms.incDone, ms.nwr == 0, rfl, ?_, Nat.le_refl _, by intro h; simpa using h⟩
        intro l' hl'; exact ⟨l', hl', fun _ h => h⟩
      · cases o with
        | get => rfl
        | set v => rfl
        | swap f => cases f <;> simp [Op.isWriter] at hw <;> rfl
      · intro o' h; cases h; exact hw
  | opCS t =>
    simp only [step] at hs; split at hs <;> simp at hs; subst hs
    rename_i o h
    exact relC_opCS s ms t o hR h hinv'
  | retOp t r =>
    simp only [step] at hs; split at hs <;> simp at hs
    obtain ⟨hr, rfl⟩ := hs; rename_i o r' h
    subst hr
    exact relC_retOp s ms t o r hR h hinv'
  | invWait t k ech =>
    simp only [step] at hs; split at hs <;> simp at hs; subst hs
    simp only [Ev.obs, monC15]
    refine ⟨_, rfl, ?_⟩
    refine relC_append s ms _ _ hR hinv' rfl ?_ ⟨rfl, rfl⟩ (by intro o h; cases h)
    refine ⟨ms.poss, ms.incDone, rfl, ?_, Nat.le_refl _, ?_⟩
    · intro l' hl'; exact ⟨l', hl', fun _ h => h⟩
    · intro c hc
      cases ech <;> simp at hc
      subst hc
      exact ⟨by intro e he; simp at he, by intro h; cases h⟩
  | waitCS t =>
    simp only [step] at hs; split at hs <;> simp at hs; subst hs
    rename_i k ech h
    exact relC_waitAttempt s ms t _ k ech hR h (by intro e he; exact he) ⟨rfl, rfl⟩
  | wakeCS t =>
    simp only [step] at hs; split at hs <;> simp at hs
    obtain ⟨_, rfl⟩ := hs; rename_i k ech c h _
    exact relC_waitAttempt s ms t _ k ech hR h (by intro e he; exact he) ⟨rfl, rfl⟩
  | ctxTake t =>
    simp only [step] at hs; split at hs <;> simp at hs
    obtain ⟨hcx, rfl⟩ := hs; rename_i k ech c h
    refine relC_wmove s ms t _ _ s.bc hR h hinv' ?_ ?_ ⟨rfl, rfl⟩ ⟨rfl, rfl⟩ (by intro o h; cases h)
    · intro e he; obtain ⟨seen, lo, h1, _⟩ := he; exact ⟨k, seen, lo, h1⟩
    · intro e he
      obtain ⟨seen, lo, h1, _⟩ := he
      exact ⟨k, seen, lo, h1, Or.inl (by rw [hR.hcx]; exact hcx)⟩
  | errTake t =>
    simp only [step] at hs; split at hs <;> try simp at hs
    rename_i k ech c h
    split at hs
    · rename_i err rest hq
      simp at hs; subst hs
      refine relC_wmove s ms t _ _ s.bc hR h hinv' ?_ ?_ ⟨rfl, rfl⟩ ⟨rfl, rfl⟩ (by intro o h; cases h)
      · intro e he; obtain ⟨seen, lo, h1, _⟩ := he; exact ⟨k, seen, lo, h1⟩
      · intro e he
        obtain ⟨seen, lo, h1, _, _, h4⟩ := he
        exact ⟨k, seen, lo, h1, Or.inl ((h4 ech rfl).1 err (by rw [hq]; simp))⟩
    · rename_i rest hq
      simp at hs; subst hs
      refine relC_wmove s ms t _ _ s.bc hR h hinv' ?_ ?_ ⟨rfl, rfl⟩ ⟨rfl, rfl⟩ (by intro o h; cases h)
      · intro e he; obtain ⟨seen, lo, h1, _⟩ := he; exact ⟨k, seen, lo, h1⟩
      · intro e he
        obtain ⟨seen, lo, h1, h2, h3, h4⟩ := he
        refine ⟨seen, lo, h1, h2, h3, ?_⟩
        intro c' hc'
        cases hc'
        obtain ⟨g1, g2⟩ := h4 ech rfl
        exact ⟨fun e he => g1 e (by rw [hq]; simp [he]), g2⟩
    · rename_i hq
      split at hs <;> simp at hs; subst hs
      rename_i hcl
      refine relC_wmove s ms t _ _ s.bc hR h hinv' ?_ ?_ ⟨rfl, rfl⟩ ⟨rfl, rfl⟩ (by intro o h; cases h)
      · intro e he; obtain ⟨seen, lo, h1, _⟩ := he; exact ⟨k, seen, lo, h1⟩
      · intro e he
        obtain ⟨seen, lo, h1, _, _, h4⟩ := he
        exact ⟨k, seen, lo, h1, Or.inr ((h4 ech rfl).2 hcl)⟩
  | retWait t r =>
    simp only [step] at hs; split at hs <;> simp at hs
    obtain ⟨hr, rfl⟩ := hs; rename_i r' h
    subst hr
    obtain ⟨e, he, k, seen, lo, h1, h2⟩ := hR.corr t _ h
    subst h1
    have hmove : RelC { s with th := s.th.set t .done } ms :=
      relC_wmove s ms t _ _ s.bc hR h hinv'
        (by intro e' he'; obtain ⟨k', seen', lo', g1, _⟩ := he'; exact ⟨k', seen', lo', g1⟩)
        (by intro e' he'; obtain ⟨k', seen', lo', g1, _⟩ := he'; exact Or.inr ⟨k', seen', lo', g1⟩)
        ⟨rfl, rfl⟩ ⟨rfl, rfl⟩ (by intro o h; cases h)
    refine ⟨ms, ?_, hmove⟩
    simp only [monC15, he]
    cases r with
    | val v =>
      obtain ⟨g1, g2, g3, g4⟩ := h2
      have : (k != WKind.empty) = true := by simpa using g1
      simp [this, g2, g3, g4]
    | ok =>
      obtain ⟨g1, g2⟩ := h2
      simp [g1] at g2 ⊢
      exact g2
    | err e =>
      rcases h2 with g | ⟨g1, g2⟩
      · simp [g]
      · subst g1; simp [g2]
    | canceled =>
      rcases h2 with g | g
      · simp [g]
      · simp [g]
  | envCancel t =>
    simp only [step] at hs; split at hs <;> simp at hs; subst hs
    refine ⟨_, rfl, ?_⟩
    have := relC_env s ms (t :: s.cx) (t :: ms.cancelled) ms.errsent ms.errclosed hR
      (by rw [hR.hcx]) (fun x h => by simp [h]) (fun _ h => h) (fun _ h => h)
    exact this
  | envErr t m =>
    cases m with
    | none =>
      refine ⟨ms, rfl, ?_⟩
      refine relC_onECh s s' ms t _ hR hs hinv' ?_
      intro c c' hf hok
      split at hf <;> simp at hf
      subst hf
      intro c2 hc2; cases hc2
      obtain ⟨g1, g2⟩ := hok c rfl
      exact ⟨fun e he => g1 e (by simp at he; exact he), g2⟩
    | some err =>
      refine ⟨_, rfl, ?_⟩
      have hR2 := relC_env s ms s.cx ms.cancelled ((t, err) :: ms.errsent) ms.errclosed hR hR.hcx
        (fun _ h => h) (fun x h => by simp [h]) (fun _ h => h)
      have hs2 : onECh { s with cx := s.cx } t
          (fun c => if c.closed then none else some { c with q := c.q ++ [some err] }) = some s' := hs
      refine relC_onECh _ s' _ t _ hR2 hs2 hinv' ?_
      intro c c' hf hok
      split at hf <;> simp at hf
      subst hf
      intro c2 hc2; cases hc2
      obtain ⟨g1, g2⟩ := hok c rfl
      refine ⟨?_, g2⟩
      intro e he
      simp at he
      rcases he with he | he
      · exact g1 e he
      · subst he; simp
  | envErrClose t =>
    refine ⟨_, rfl, ?_⟩
    have hR2 := relC_env s ms s.cx ms.cancelled ms.errsent (t :: ms.errclosed) hR hR.hcx
      (fun _ h => h) (fun _ h => h) (fun x h => by simp [h])
    have hs2 : onECh { s with cx := s.cx } t
        (fun c => if c.closed then none else some { c with closed := true }) = some s' := hs
    refine relC_onECh _ s' _ t _ hR2 hs2 hinv' ?_
    intro c c' hf hok
    split at hf <;> simp at hf
    subst hf
    intro c2 hc2; cases hc2
    obtain ⟨g1, _⟩ := hok c rfl
    exact ⟨g1, fun _ => by simp⟩
  | quiesce B =>
    simp only [step] at hs; split at hs <;> simp at hs
    rename_i hcond
    subst hs
    obtain ⟨hq, hB⟩ := hcond
    refine ⟨ms, ?_, hR⟩
    simp only [monC15]
    by_cases hc : (ms.nwr == 0) = true
    · simp only [hc, if_true]
      cases hk : knownV ms.poss with
      | none => rfl
      | some v =>
        simp only
        obtain ⟨l, hl, hall⟩ := knownV_spec _ _ hk
        have hxv : s.val = v := hall _ (hR.val l hl)
        rw [if_pos]
        rw [List.all_eq_true]
        intro c hcB
        rw [hB] at hcB
        simp only [pendingIds, List.mem_filter, List.mem_range] at hcB
        obtain ⟨hlt, hm⟩ := hcB
        cases hth : s.th[c]? with
        | none => simp [hth] at hm
        | some ts =>
          cases ts <;> simp [hth] at hm
          rename_i k ech ch
          obtain ⟨e, he, seen, lo, h1, _⟩ := hR.corr c _ hth
          subst h1
          simp only [he]
          have hopen : s.bc.closed ch = false := by
            unfold quiescent at hq
            rw [List.all_eq_true] at hq
            have := hq c (by simp [hlt])
            simp only [hth, TS.quiet] at this
            simp at this
            exact this.1.1
          have hev := (hR.inv.parked c k ech ch hth).2 hopen
          rw [hR.hm, ← hxv, hev]; rfl
    · simp only [hc]; rfl

end UtilModel.CContainer
