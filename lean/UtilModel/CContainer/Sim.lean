import UtilModel.CContainer.Proofs
import UtilModel.CContainer.Monitors
/-!
# ccontainer: simulation proof for the monitor `monC15`

`RelC s ms` relates a model state to a monitor state. Its core is the soundness of the monitor's
two views of the cell content:

* `poss` — when the monitor believes the content is one of `l`, it is; a *solo* writer pins it to
  the image of the saved set once its critical section has run; every pending call has *seen* all
  of `poss` (or nothing is claimed about it);
* increment counting — while every writer is `SwapValue(increment)` the content is
  `base + #finished increments + #increments that ran but have not returned`.
-/
namespace UtilModel.CContainer
open UtilModel

def isPendW : CEntry → Bool
  | .op o _ _ _ true => o.isWriter
  | _ => false

def isIncInv : TS → Bool
  | .opInv (.swap .inc) => true
  | _ => false

def isIncRan : TS → Bool
  | .opRan (.swap .inc) _ => true
  | _ => false

/-- every value the monitor thinks possible has been seen by the entry (or it claims nothing) -/
def SeenOK (ms : C15St) (seen : Option (List Nat)) : Prop :=
  ∀ l', seen = some l' → ∃ l, ms.poss = some l ∧ ∀ w ∈ l, w ∈ l'

def EchOK (ms : C15St) (t : Nat) (ech : Option ECh) : Prop :=
  ∀ c, ech = some c → (∀ e, some e ∈ c.q → (t, e) ∈ ms.errsent) ∧ (c.closed = true → t ∈ ms.errclosed)

/-- the monitor's acceptance condition for the response `r` of wait call `t` -/
def RetOK (ms : C15St) (t : Nat) (k : WKind) (seen : Option (List Nat)) (lo : Nat) : WRes → Prop
  | .val v => k ≠ .empty ∧ k.eval ms.m v = .ok ∧ mayBe seen (· == v) = true ∧ ms.inBounds lo 0 v = true
  | .ok => k = .empty ∧ mayBe seen (fun v => k.eval ms.m v == .ok) = true
  | .err e => (t, e) ∈ ms.errsent ∨ (e = verrCode ∧ mayBe seen (fun v => k.eval ms.m v == .error) = true)
  | .canceled => t ∈ ms.cancelled ∨ t ∈ ms.errclosed

/-- bounds on the content `v0` read by an operation, from the increment counters -/
def BoundOK (ms : C15St) (lo : Nat) (o : Op) (v0 : Nat) : Prop :=
  ms.incOnly = true → ms.m ≠ 1 →
    ms.base + lo ≤ v0 ∧ v0 + (if o.isInc then 1 else 0) ≤ ms.base + ms.incInv

/-- monitor entry `e` describes call `t` in state `ts` -/
def CorrC (val : Nat) (ms : C15St) (t : Nat) (e : CEntry) : TS → Prop
  | .opInv o => ∃ seen lo clean, e = .op o seen lo clean true ∧ SeenOK ms seen ∧ lo ≤ ms.incDone ∧
      (clean = true → ms.nwr = 0)
  | .opRan o r => ∃ seen lo clean, e = .op o seen lo clean true ∧
      (clean = true → ms.nwr = 0 ∧ (o = .get → val = r)) ∧
      ∃ v0, r = o.result v0 ∧ mayBe seen (· == v0) = true ∧ BoundOK ms lo o v0
  | .done => (∃ o seen lo clean, e = .op o seen lo clean false) ∨ (∃ k seen lo, e = .wait k seen lo)
  | .wLoop k ech => ∃ seen lo, e = .wait k seen lo ∧ SeenOK ms seen ∧ lo ≤ ms.incDone ∧ EchOK ms t ech
  | .wParked k ech _ => ∃ seen lo, e = .wait k seen lo ∧ SeenOK ms seen ∧ lo ≤ ms.incDone ∧ EchOK ms t ech
  | .wRet r => ∃ k seen lo, e = .wait k seen lo ∧ RetOK ms t k seen lo r

structure RelC (s : St) (ms : C15St) : Prop where
  inv : Inv s
  len : ms.calls.length = s.th.length
  hm : ms.m = s.m
  hcx : ms.cancelled = s.cx
  corr : ∀ (t : Nat) (ts : TS), s.th[t]? = some ts →
    ∃ e, ms.calls[t]? = some e ∧ CorrC s.val ms t e ts
  val : ∀ l, ms.poss = some l → s.val ∈ l
  nwr : ms.nwr = ms.calls.countP isPendW
  p1 : ∀ l, ms.poss = some l → ms.nwr = 0 ∨ ∃ ds, ms.solo = some ds
  solo : ∀ (d : Nat) (saved : Option (List Nat)), ms.solo = some (d, saved) →
    ∃ o seen lo clean, ms.calls[d]? = some (.op o seen lo clean true) ∧ o.isWriter = true ∧ ms.nwr = 1 ∧
      (saved = none → ms.poss = none) ∧
      (∀ l0, saved = some l0 → ms.poss = some (l0 ++ l0.map (o.newVal ms.m)) ∧
        ∀ ts, s.th[d]? = some ts →
          (ts = .opInv o → s.val ∈ l0) ∧ (∀ r, ts = .opRan o r → s.val ∈ l0.map (o.newVal ms.m)))
  icnt : ms.incInv = ms.incDone + s.th.countP isIncInv + s.th.countP isIncRan
  ival : ms.incOnly = true → ms.m ≠ 1 → s.val = ms.base + ms.incDone + s.th.countP isIncRan
  ionly : ms.incOnly = true → ∀ (t : Nat) (o : Op), s.th[t]? = some (.opInv o) → o.isWriter = true →
    o = .swap .inc
  fresh : s.th = [] → ms.incDone = 0 ∧ ms.incInv = 0

theorem relC_init : RelC model.init monC15.init := by
  refine ⟨init_inv, rfl, rfl, rfl, ?_, ?_, rfl, ?_, ?_, rfl, ?_, ?_, fun _ => ⟨rfl, rfl⟩⟩
  · intro t ts h; simp [model] at h
  · intro l h; simp [monC15] at h; subst h; simp [model]
  · intro l _; exact Or.inl rfl
  · intro d saved h; simp [monC15] at h
  · intro _ _; simp [model, monC15]
  · intro _ t o h; simp [model] at h

/-! ## small facts about `mayBe`, `addSeen`, `knownV` -/

theorem mayBe_of_mem (seen : Option (List Nat)) (p : Nat → Bool) (v : Nat) (hp : p v = true)
    (h : ∀ l, seen = some l → v ∈ l) : mayBe seen p = true := by
  cases seen with
  | none => rfl
  | some l => simp only [mayBe]; rw [List.any_eq_true]; exact ⟨v, h l rfl, hp⟩

theorem mayBe_addSeen (n seen : Option (List Nat)) (p : Nat → Bool) (h : mayBe seen p = true) :
    mayBe (addSeen n seen) p = true := by
  cases seen with
  | none => rfl
  | some l =>
    cases n with
    | none => rfl
    | some l2 =>
      simp only [addSeen, Option.map, mayBe] at h ⊢
      rw [List.any_eq_true] at h ⊢
      obtain ⟨x, hx, hpx⟩ := h
      exact ⟨x, by simp [hx], hpx⟩

theorem knownV_spec (o : Option (List Nat)) (v : Nat) (h : knownV o = some v) :
    ∃ l, o = some l ∧ ∀ w ∈ l, w = v := by
  cases o with
  | none => simp [knownV] at h
  | some l =>
    cases l with
    | nil => simp [knownV] at h
    | cons a r =>
      simp only [knownV] at h
      split at h <;> simp at h
      subst h
      rename_i hall
      refine ⟨_, rfl, ?_⟩
      intro w hw
      simp at hw
      rcases hw with hw | hw
      · exact hw
      · simp at hall; exact hall w hw

theorem one_pendW (calls : List CEntry) (d t : Nat) (ed et : CEntry) (h1 : calls.countP isPendW = 1)
    (hd : calls[d]? = some ed) (ht : calls[t]? = some et) (pd : isPendW ed = true)
    (pt : isPendW et = true) : t = d := by
  apply Classical.byContradiction
  intro hne
  have := countP_ge_two isPendW calls t d _ _ hne ht hd pt pd
  omega

theorem nilcb_newVal (m v : Nat) : (Op.swap .nilcb).newVal m v = v := by
  simp only [Op.newVal, SwapF.apply]; exact ite_self _

theorem nonwriter_newVal (m v : Nat) (o : Op) (h : o.isWriter = false) : o.newVal m v = v := by
  cases o with
  | get => rfl
  | set x => simp [Op.isWriter] at h
  | swap f => cases f <;> simp [Op.isWriter] at h; exact nilcb_newVal m v


/-! ## monotonicity of the entry/thread correspondence in the monitor state -/

theorem inBounds_mono (ms ms' : C15St) (lo add v : Nat) (hm : ms'.m = ms.m) (hb : ms'.base = ms.base)
    (hi : ms.incInv ≤ ms'.incInv) (ho : ms'.incOnly = true → ms.incOnly = true)
    (h : ms.inBounds lo add v = true) : ms'.inBounds lo add v = true := by
  unfold C15St.inBounds at h ⊢
  rw [hm, hb]
  cases ho' : ms'.incOnly with
  | false => simp
  | true =>
    rw [ho ho'] at h
    simp at h ⊢
    rcases h with h | h
    · exact Or.inl h
    · exact Or.inr ⟨h.1, by omega⟩

/-- how the monitor state may evolve while an entry stays as it is -/
structure MsMono (ms ms' : C15St) : Prop where
  m : ms'.m = ms.m
  base : ms'.base = ms.base
  incInv : ms.incInv ≤ ms'.incInv
  incDone : ms.incDone ≤ ms'.incDone
  incOnly : ms'.incOnly = true → ms.incOnly = true
  errsent : ∀ x, x ∈ ms.errsent → x ∈ ms'.errsent
  cancelled : ∀ x, x ∈ ms.cancelled → x ∈ ms'.cancelled
  errclosed : ∀ x, x ∈ ms.errclosed → x ∈ ms'.errclosed
  nwr : ms.nwr = 0 → ms'.nwr = 0
  /-- the possible set only shrinks (or stays unknown) -/
  poss : ∀ l, ms.poss = some l → ∃ l2, ms'.poss = some l2 ∧ ∀ w ∈ l2, w ∈ l

theorem MsMono.refl (ms : C15St) : MsMono ms ms :=
  ⟨rfl, rfl, Nat.le_refl _, Nat.le_refl _, fun h => h, fun _ h => h, fun _ h => h, fun _ h => h,
   fun h => h, fun l h => ⟨l, h, fun _ h => h⟩⟩

theorem seenOK_mono (ms ms' : C15St) (hmm : MsMono ms ms') (seen : Option (List Nat))
    (h : SeenOK ms seen) : SeenOK ms' seen := by
  intro l' hl'
  obtain ⟨l, h1, h2⟩ := h l' hl'
  obtain ⟨l2, h3, h4⟩ := hmm.poss l h1
  exact ⟨l2, h3, fun w hw => h2 w (h4 w hw)⟩

theorem boundOK_mono (ms ms' : C15St) (hmm : MsMono ms ms') (lo : Nat) (o : Op) (v0 : Nat)
    (h : BoundOK ms lo o v0) : BoundOK ms' lo o v0 := by
  intro h1 h2
  have := h (hmm.incOnly h1) (by rw [← hmm.m]; exact h2)
  rw [hmm.base]
  have := hmm.incInv
  omega

theorem retOK_mono (ms ms' : C15St) (hmm : MsMono ms ms') (t : Nat) (k : WKind)
    (seen : Option (List Nat)) (lo : Nat) (r : WRes) (h : RetOK ms t k seen lo r) :
    RetOK ms' t k seen lo r := by
  cases r with
  | val v =>
    obtain ⟨h1, h2, h3, h4⟩ := h
    exact ⟨h1, by rw [hmm.m]; exact h2, h3, inBounds_mono ms ms' lo 0 v hmm.m hmm.base hmm.incInv hmm.incOnly h4⟩
  | ok =>
    obtain ⟨h1, h2⟩ := h
    exact ⟨h1, by rw [hmm.m]; exact h2⟩
  | err e =>
    rcases h with h | ⟨h1, h2⟩
    · exact Or.inl (hmm.errsent _ h)
    · exact Or.inr ⟨h1, by rw [hmm.m]; exact h2⟩
  | canceled =>
    rcases h with h | h
    · exact Or.inl (hmm.cancelled _ h)
    · exact Or.inr (hmm.errclosed _ h)

theorem echOK_mono (ms ms' : C15St) (hmm : MsMono ms ms') (t : Nat) (ech : Option ECh)
    (h : EchOK ms t ech) : EchOK ms' t ech := by
  intro c hc
  obtain ⟨h1, h2⟩ := h c hc
  exact ⟨fun e he => hmm.errsent _ (h1 e he), fun hcl => hmm.errclosed _ (h2 hcl)⟩

/-- an entry that the monitor step leaves alone still describes its thread -/
theorem corrC_keep (val val' : Nat) (ms ms' : C15St) (hmm : MsMono ms ms') (t : Nat) (e : CEntry)
    (ts : TS) (hval : val' = val ∨ ms.nwr ≠ 0) (h : CorrC val ms t e ts) : CorrC val' ms' t e ts := by
  cases ts with
  | opInv o =>
    obtain ⟨seen, lo, clean, h1, h2, h3, h4⟩ := h
    exact ⟨seen, lo, clean, h1, seenOK_mono ms ms' hmm seen h2, Nat.le_trans h3 hmm.incDone,
      fun hc => hmm.nwr (h4 hc)⟩
  | opRan o r =>
    obtain ⟨seen, lo, clean, h1, h2, v0, h3, h4, h5⟩ := h
    refine ⟨seen, lo, clean, h1, ?_, v0, h3, h4, boundOK_mono ms ms' hmm lo o v0 h5⟩
    intro hc
    obtain ⟨g1, g2⟩ := h2 hc
    refine ⟨hmm.nwr g1, fun ho => ?_⟩
    rcases hval with hv | hv
    · rw [hv]; exact g2 ho
    · exact absurd g1 hv
  | done => exact h
  | wLoop k ech =>
    obtain ⟨seen, lo, h1, h2, h3, h4⟩ := h
    exact ⟨seen, lo, h1, seenOK_mono ms ms' hmm seen h2, Nat.le_trans h3 hmm.incDone,
      echOK_mono ms ms' hmm t ech h4⟩
  | wParked k ech ch =>
    obtain ⟨seen, lo, h1, h2, h3, h4⟩ := h
    exact ⟨seen, lo, h1, seenOK_mono ms ms' hmm seen h2, Nat.le_trans h3 hmm.incDone,
      echOK_mono ms ms' hmm t ech h4⟩
  | wRet r =>
    obtain ⟨k, seen, lo, h1, h2⟩ := h
    exact ⟨k, seen, lo, h1, retOK_mono ms ms' hmm t k seen lo r h2⟩

/-! ## internal steps: a thread moves, the monitor state does not change -/

theorem relC_move (s : St) (ms : C15St) (t : Nat) (a b : TS) (val' : Nat) (bc' : Bcast)
    (hR : RelC s ms) (ha : s.th[t]? = some a)
    (hinv : Inv { s with val := val', bc := bc', th := s.th.set t b })
    (hval : val' = s.val ∨ ms.nwr ≠ 0)
    (hcorr : ∀ e, CorrC s.val ms t e a → CorrC val' ms t e b)
    (hposs : ∀ l, ms.poss = some l → val' ∈ l)
    (hsolo : ∀ (d : Nat) (o : Op) (l0 : List Nat) (seen : Option (List Nat)) (lo : Nat) (clean : Bool),
      ms.solo = some (d, some l0) → ms.calls[d]? = some (.op o seen lo clean true) →
      ∀ ts, (s.th.set t b)[d]? = some ts →
        (ts = .opInv o → val' ∈ l0) ∧ (∀ r, ts = .opRan o r → val' ∈ l0.map (o.newVal ms.m)))
    (hA : (s.th.set t b).countP isIncInv + (s.th.set t b).countP isIncRan =
          s.th.countP isIncInv + s.th.countP isIncRan)
    (hival : ms.incOnly = true → ms.m ≠ 1 → val' = ms.base + ms.incDone + (s.th.set t b).countP isIncRan)
    (hinvb : ∀ o, b = .opInv o → a = .opInv o) :
    RelC { s with val := val', bc := bc', th := s.th.set t b } ms := by
  have old : ∀ (u : Nat) (ts : TS), (s.th.set t b)[u]? = some ts →
      (u = t ∧ ts = b) ∨ (u ≠ t ∧ s.th[u]? = some ts) :=
    fun u ts hu => getElem?_set_cases s.th t u b ts hu
  have hne : s.th ≠ [] := by
    intro h; rw [h] at ha; simp at ha
  refine ⟨hinv, by simp [hR.len], hR.hm, hR.hcx, ?_, hposs, hR.nwr, hR.p1, ?_, ?_, hival, ?_, ?_⟩
  · intro u ts hu
    rcases old u ts hu with ⟨hut, hts⟩ | ⟨_, h0⟩
    · subst hut; subst hts
      obtain ⟨e, he, hm⟩ := hR.corr u a ha
      exact ⟨e, he, hcorr e hm⟩
    · obtain ⟨e, he, hm⟩ := hR.corr u ts h0
      exact ⟨e, he, corrC_keep s.val val' ms ms (MsMono.refl ms) u e ts hval hm⟩
  · intro d saved hs
    obtain ⟨o, seen, lo, clean, h1, h2, h3, h4, h5⟩ := hR.solo d saved hs
    refine ⟨o, seen, lo, clean, h1, h2, h3, h4, ?_⟩
    intro l0 hl0
    subst hl0
    exact ⟨(h5 l0 rfl).1, hsolo d o l0 seen lo clean hs h1⟩
  · have := hR.icnt
    simp only; omega
  · intro hio u o hu hw
    rcases old u (.opInv o) hu with ⟨hut, hts⟩ | ⟨_, h0⟩
    · subst hut
      exact hR.ionly hio u o (by rw [ha, hinvb o hts.symm]) hw
    · exact hR.ionly hio u o h0 hw
  · intro h
    simp only at h
    have : (s.th.set t b).length = 0 := by rw [h]; rfl
    simp at this
    exact absurd this hne


/-! ### the critical section of Get/Set/Swap -/

@[simp] theorem isIncInv_opRan (o : Op) (r : Nat) : isIncInv (.opRan o r) = false := rfl
@[simp] theorem isIncRan_opInv (o : Op) : isIncRan (.opInv o) = false := rfl

theorem isPendW_of_writer (o : Op) (seen : Option (List Nat)) (lo : Nat) (clean : Bool)
    (h : o.isWriter = true) : isPendW (.op o seen lo clean true) = true := by simp [isPendW, h]

theorem relC_opCS (s : St) (ms : C15St) (t : Nat) (o : Op) (hR : RelC s ms)
    (ha : s.th[t]? = some (.opInv o))
    (hinv : Inv { s with val := o.newVal s.m s.val
                         bc := if o.stores s.m s.val then s.bc.broadcast else s.bc
                         th := s.th.set t (.opRan o (o.result s.val)) }) :
    RelC { s with val := o.newVal s.m s.val
                  bc := if o.stores s.m s.val then s.bc.broadcast else s.bc
                  th := s.th.set t (.opRan o (o.result s.val)) } ms := by
  obtain ⟨et, het, seen, lo, clean, hete, hseen, hlo, hclean⟩ := hR.corr t _ ha
  subst hete
  have hmm := hR.hm
  have hlt := lt_of_getElem? ha
  -- a writer is a pending writer entry
  have hwr : o.isWriter = true → ms.nwr ≠ 0 := by
    intro hw
    have := countP_pos_of_getElem? isPendW ms.calls t _ het (isPendW_of_writer o seen lo clean hw)
    rw [hR.nwr]; omega
  have hnw : o.isWriter = false → o.newVal s.m s.val = s.val := nonwriter_newVal s.m s.val o
  -- the solo writer, if this call is a writer, is this call
  have hsolo_me : o.isWriter = true → ∀ d saved, ms.solo = some (d, saved) → d = t := by
    intro hw d saved hs
    obtain ⟨o', seen', lo', clean', h1, h2, h3, _, _⟩ := hR.solo d saved hs
    exact (one_pendW ms.calls d t _ _ (by rw [← hR.nwr]; exact h3) h1 het
      (isPendW_of_writer o' seen' lo' clean' h2) (isPendW_of_writer o seen lo clean hw)).symm
  -- counting the increments
  have cA := countP_set isIncInv s.th t _ (.opRan o (o.result s.val)) ha
  have cR := countP_set isIncRan s.th t _ (.opRan o (o.result s.val)) ha
  have hincA : o = .swap .inc → 0 < s.th.countP isIncInv := by
    intro ho; subst ho
    exact countP_pos_of_getElem? isIncInv s.th t _ ha rfl
  refine relC_move s ms t _ _ _ _ hR ha hinv ?_ ?_ ?_ ?_ ?_ ?_ (by intro o' h; cases h)
  · -- hval
    cases hw : o.isWriter
    · exact Or.inl (hnw hw)
    · exact Or.inr (hwr hw)
  · -- hcorr
    intro e he
    obtain ⟨seen2, lo2, clean2, g1, g2, g3, g4⟩ := he
    refine ⟨seen2, lo2, clean2, g1, ?_, s.val, rfl, ?_, ?_⟩
    · intro hc
      refine ⟨g4 hc, fun ho => ?_⟩
      subst ho; rfl
    · apply mayBe_of_mem _ _ s.val (by simp)
      intro l' hl'
      obtain ⟨l, p1, p2⟩ := g2 l' hl'
      exact p2 _ (hR.val l p1)
    · intro hio hm1
      have hv := hR.ival hio hm1
      have hc := hR.icnt
      constructor
      · omega
      · by_cases hinc : o = .swap .inc
        · have := hincA hinc
          subst hinc; simp [Op.isInc]; omega
        · have : o.isInc = false := by
            cases o with
            | get => rfl
            | set v => rfl
            | swap f => cases f <;> simp [Op.isInc] at hinc ⊢
          simp [this]; omega
  · -- hposs
    intro l hl
    cases hw : o.isWriter with
    | false => rw [hnw hw]; exact hR.val l hl
    | true =>
      rcases hR.p1 l hl with h0 | ⟨⟨d, saved⟩, hs⟩
      · exact absurd h0 (hwr hw)
      · have hd := hsolo_me hw d saved hs
        subst hd
        obtain ⟨o', seen', lo', clean', h1, _, _, h4, h5⟩ := hR.solo d saved hs
        rw [het] at h1; cases h1
        cases saved with
        | none => rw [h4 rfl] at hl; cases hl
        | some l0 =>
          obtain ⟨k1, k2⟩ := h5 l0 rfl
          rw [k1] at hl; cases hl
          have := (k2 _ ha).1 rfl
          rw [hmm]
          simp only [List.mem_append, List.mem_map]
          exact Or.inr ⟨s.val, this, rfl⟩
  · -- hsolo
    intro d o' l0 seen' lo' clean' hs hd ts hts
    obtain ⟨o2, seen2, lo2, clean2, h1, h2, h3, _, h5⟩ := hR.solo d (some l0) hs
    rw [hd] at h1; cases h1
    obtain ⟨_, k2⟩ := h5 l0 rfl
    rcases getElem?_set_cases s.th t d _ ts hts with ⟨hdt, hx⟩ | ⟨hdt, hx⟩
    · subst hdt; subst hx
      rw [het] at hd; cases hd
      refine ⟨(by intro h; cases h), fun r _ => ?_⟩
      have := (k2 _ ha).1 rfl
      rw [hmm]
      simp only [List.mem_map]
      exact ⟨s.val, this, rfl⟩
    · have hnotw : o.isWriter = false := by
        cases hw : o.isWriter
        · rfl
        · exact absurd (hsolo_me hw d _ hs) hdt
      rw [hnw hnotw]
      exact k2 ts hx
  · -- hA
    by_cases hinc : o = .swap .inc
    · subst hinc
      have e1 : isIncInv (.opInv (.swap .inc)) = true := rfl
      have e2 : isIncRan (.opRan (.swap .inc) ((Op.swap .inc).result s.val)) = true := rfl
      rw [e1, isIncInv_opRan] at cA; rw [isIncRan_opInv, e2] at cR
      simp at cA cR
      omega
    · have h1 : isIncInv (.opInv o) = false := by
        cases o with
        | get => rfl
        | set v => rfl
        | swap f => cases f <;> simp [isIncInv] at hinc ⊢
      have h2 : isIncRan (.opRan o (o.result s.val)) = false := by
        cases o with
        | get => rfl
        | set v => rfl
        | swap f => cases f <;> simp [isIncRan] at hinc ⊢
      rw [h1, isIncInv_opRan] at cA; rw [isIncRan_opInv, h2] at cR
      simp at cA cR
      omega
  · -- hival
    intro hio hm1
    have hv := hR.ival hio hm1
    by_cases hinc : o = .swap .inc
    · subst hinc
      rw [inc_newVal s.m s.val (by rw [← hmm]; exact hm1)]
      have e2 : isIncRan (.opRan (.swap .inc) ((Op.swap .inc).result s.val)) = true := rfl
      rw [isIncRan_opInv, e2] at cR
      simp at cR
      omega
    · have hnotw : o.isWriter = false := by
        cases hw : o.isWriter
        · rfl
        · exact absurd (hR.ionly hio t o ha hw) hinc
      have h2 : isIncRan (.opRan o (o.result s.val)) = false := by
        cases o with
        | get => rfl
        | set v => rfl
        | swap f => cases f <;> simp [isIncRan] at hinc ⊢
      rw [isIncRan_opInv, h2] at cR
      simp at cR
      rw [hnw hnotw, cR]; exact hv


/-! ### internal steps of a wait call -/

theorem relC_wmove (s : St) (ms : C15St) (t : Nat) (a b : TS) (bc' : Bcast)
    (hR : RelC s ms) (ha : s.th[t]? = some a)
    (hinv : Inv { s with bc := bc', th := s.th.set t b })
    (hawait : ∀ e, CorrC s.val ms t e a → ∃ k seen lo, e = .wait k seen lo)
    (hcorr : ∀ e, CorrC s.val ms t e a → CorrC s.val ms t e b)
    (hfa : isIncInv a = false ∧ isIncRan a = false) (hfb : isIncInv b = false ∧ isIncRan b = false)
    (hinvb : ∀ o, b ≠ .opInv o) : RelC { s with bc := bc', th := s.th.set t b } ms := by
  have cA := countP_set isIncInv s.th t a b ha
  have cR := countP_set isIncRan s.th t a b ha
  rw [hfa.1, hfb.1] at cA; rw [hfa.2, hfb.2] at cR
  simp at cA cR
  refine relC_move s ms t a b s.val bc' hR ha hinv (Or.inl rfl) hcorr hR.val ?_ (by omega) ?_
    (fun o h => absurd h (hinvb o))
  · intro d o l0 seen lo clean hs hd ts hts
    obtain ⟨o2, seen2, lo2, clean2, h1, _, _, _, h5⟩ := hR.solo d (some l0) hs
    rw [hd] at h1; cases h1
    rcases getElem?_set_cases s.th t d _ ts hts with ⟨hdt, _⟩ | ⟨_, hx⟩
    · subst hdt
      obtain ⟨e, he, hm⟩ := hR.corr d a ha
      obtain ⟨k, seen', lo', hk⟩ := hawait e hm
      rw [he] at hd; cases hd; cases hk
    · exact (h5 l0 rfl).2 ts hx
  · intro hio hm1
    rw [cR]; exact hR.ival hio hm1

theorem inBounds_of_val (s : St) (ms : C15St) (hR : RelC s ms) (lo : Nat) (hlo : lo ≤ ms.incDone) :
    ms.inBounds lo 0 s.val = true := by
  unfold C15St.inBounds
  cases hio : ms.incOnly with
  | false => simp
  | true =>
    by_cases hm1 : ms.m = 1
    · simp [hm1]
    · have hv := hR.ival hio hm1
      have hc := hR.icnt
      simp [hm1]
      omega

theorem relC_waitAttempt (s : St) (ms : C15St) (t : Nat) (a : TS) (k : WKind) (ech : Option ECh)
    (hR : RelC s ms) (ha : s.th[t]? = some a)
    (hca : ∀ e, CorrC s.val ms t e a →
      ∃ seen lo, e = .wait k seen lo ∧ SeenOK ms seen ∧ lo ≤ ms.incDone ∧ EchOK ms t ech)
    (hfa : isIncInv a = false ∧ isIncRan a = false) :
    RelC (waitAttempt s t k ech) ms := by
  have hinv := waitAttempt_inv s t a k ech hR.inv ha
  have hmm := hR.hm
  have seenval : ∀ seen, SeenOK ms seen → ∀ (p : Nat → Bool), p s.val = true → mayBe seen p = true := by
    intro seen hs p hp
    apply mayBe_of_mem _ _ s.val hp
    intro l' hl'
    obtain ⟨l, p1, p2⟩ := hs l' hl'
    exact p2 _ (hR.val l p1)
  cases hev : k.eval s.m s.val with
  | error =>
    simp only [waitAttempt, hev] at hinv ⊢
    refine relC_wmove s ms t a _ _ hR ha hinv ?_ ?_ hfa ⟨rfl, rfl⟩ (by intro o h; cases h)
    · intro e he; obtain ⟨seen, lo, h1, _⟩ := hca e he; exact ⟨k, seen, lo, h1⟩
    · intro e he
      obtain ⟨seen, lo, h1, h2, h3, h4⟩ := hca e he
      refine ⟨k, seen, lo, h1, Or.inr ⟨rfl, ?_⟩⟩
      exact seenval seen h2 _ (by rw [hmm, hev]; rfl)
  | ok =>
    simp only [waitAttempt, hev] at hinv ⊢
    refine relC_wmove s ms t a _ _ hR ha hinv ?_ ?_ hfa ⟨rfl, rfl⟩ (by intro o h; cases h)
    · intro e he; obtain ⟨seen, lo, h1, _⟩ := hca e he; exact ⟨k, seen, lo, h1⟩
    · intro e he
      obtain ⟨seen, lo, h1, h2, h3, h4⟩ := hca e he
      refine ⟨k, seen, lo, h1, ?_⟩
      have hval : RetOK ms t k seen lo (.val s.val) ↔
          (k ≠ .empty ∧ k.eval ms.m s.val = .ok ∧ mayBe seen (· == s.val) = true ∧
            ms.inBounds lo 0 s.val = true) := Iff.rfl
      cases k with
      | empty => exact ⟨rfl, seenval seen h2 _ (by rw [hmm, hev]; rfl)⟩
      | value => exact ⟨by simp, by rw [hmm]; exact hev, seenval seen h2 _ (by simp), inBounds_of_val s ms hR lo h3⟩
      | change old => exact ⟨by simp, by rw [hmm]; exact hev, seenval seen h2 _ (by simp), inBounds_of_val s ms hR lo h3⟩
      | vnil => exact ⟨by simp, by rw [hmm]; exact hev, seenval seen h2 _ (by simp), inBounds_of_val s ms hR lo h3⟩
      | veq x => exact ⟨by simp, by rw [hmm]; exact hev, seenval seen h2 _ (by simp), inBounds_of_val s ms hR lo h3⟩
      | vge x => exact ⟨by simp, by rw [hmm]; exact hev, seenval seen h2 _ (by simp), inBounds_of_val s ms hR lo h3⟩
      | verr x => exact ⟨by simp, by rw [hmm]; exact hev, seenval seen h2 _ (by simp), inBounds_of_val s ms hR lo h3⟩
  | no =>
    simp only [waitAttempt, hev] at hinv ⊢
    refine relC_wmove s ms t a _ _ hR ha hinv ?_ ?_ hfa ⟨rfl, rfl⟩ (by intro o h; cases h)
    · intro e he; obtain ⟨seen, lo, h1, _⟩ := hca e he; exact ⟨k, seen, lo, h1⟩
    · intro e he
      obtain ⟨seen, lo, h1, h2, h3, h4⟩ := hca e he
      exact ⟨seen, lo, h1, h2, h3, h4⟩

end UtilModel.CContainer
