import UtilModel.Core.LTSHash
import UtilModel.Core.LTSComplete
import UtilModel.CContainer.Props
/-!
# CContainer — end-to-end transfer

If the driver's trace-inclusion decision accepts a history recorded from the Go implementation, the
property monitor accepts that history: composition of the checker's soundness theorem
(`accepts_sound` / `acceptsH_sound`) with this package's observable-form property theorem.
-/
namespace UtilModel

theorem C15_accepted (cap fuel : Nat) (h : List CContainer.Obs)
    (ha : CContainer.model.acceptsH cap fuel h = true) : CContainer.monC15.accepts h = true :=
  acceptedH_satisfies CContainer.model (fun h => CContainer.monC15.accepts h = true)
    CContainer.C15_obs cap fuel h ha

/-! ## completeness of the candidate lists

`complete_ccontainer`: every enabled internal event is in `cands s` and every enabled observable
event is in `evsOf s o`.

There is no `reject_sound_ccontainer` here: `rejectH_sound` needs `LawfulBEq St`, and the state
equality the checker uses (`instBEqSt`, equality of `St.norm`: channel ids up to closed/open) is a
deliberate quotient, not the real equality. The REJECT direction for this model needs a version of
`rejectH_sound` for an equivalence that is a bisimulation on well-formed states. -/

theorem CContainer.mem_internalCands (n t : Nat) (e : CContainer.Ev) (ht : t < n)
    (he : e ∈ [CContainer.Ev.opCS t, .waitCS t, .wakeCS t, .ctxTake t, .errTake t]) :
    e ∈ CContainer.internalCands n := by
  unfold CContainer.internalCands
  exact List.mem_flatMap.mpr ⟨t, List.mem_range.mpr ht, he⟩

theorem CContainer.Ev.obs_ev (e : CContainer.Ev) (o : CContainer.Obs) (h : e.obs = some o) : o.ev = e := by
  cases e <;> simp [CContainer.Ev.obs] at h <;> subst h <;> rfl

theorem complete_ccontainer : CContainer.model.Complete := by
  refine ⟨?_, fun _ e _ o _ ho => by simp [CContainer.model, CContainer.Ev.obs_ev e o ho]⟩
  intro s e s' hs ho
  show e ∈ CContainer.internalCands s.th.length
  change CContainer.step s e = some s' at hs
  change e.obs = none at ho
  cases e <;> simp [CContainer.Ev.obs] at ho <;> simp only [CContainer.step] at hs
  all_goals
    split at hs <;> try simp at hs
    all_goals
      rename_i hth
      have hlt := (List.getElem?_eq_some_iff.mp hth).1
      refine CContainer.mem_internalCands _ _ _ hlt ?_
      simp
end UtilModel
