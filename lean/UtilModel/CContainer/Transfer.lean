import UtilModel.Core.LTSHash
import UtilModel.CContainer.Props
/-!
# CContainer — end-to-end transfer

If the driver's trace-inclusion decision accepts a history recorded from the Go implementation, the
property monitor accepts that history: composition of the checker's soundness theorem
(`accepts_sound` / `acceptsH_sound`) with this package's observable-form property theorem.
-/
namespace UtilModel

theorem C15_accepted (cap fuel : Nat) (h : List CContainer.Obs)
    (ha : CContainer.model.acceptsH cap fuel h = true) : CContainer.monC15.accepts h = true :=
  acceptedH_satisfies CContainer.model (fun h => CContainer.monC15.accepts h = true)
    CContainer.C15_obs cap fuel h ha

end UtilModel
