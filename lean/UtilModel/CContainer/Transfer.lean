import UtilModel.Core.LTSHash
import UtilModel.Core.LTSComplete
import UtilModel.CContainer.Props
import UtilModel.CContainer.Quot
import UtilModel.CContainer.WQuot
/-!
# CContainer — end-to-end transfer

If the driver's trace-inclusion decision accepts a history recorded from the Go implementation, the
property monitor accepts that history: composition of the checker's soundness theorem
(`accepts_sound` / `acceptsH_sound`) with this package's observable-form property theorem.
-/
namespace UtilModel

theorem C15_accepted (cap fuel : Nat) (h : List CContainer.Obs)
    (ha : CContainer.model.acceptsH cap fuel h = true) : CContainer.monC15.accepts h = true :=
  acceptedH_satisfies CContainer.model (fun h => CContainer.monC15.accepts h = true)
    CContainer.C15_obs cap fuel h ha

/-! ## completeness of the candidate lists

`complete_ccontainer`: every enabled internal event is in `cands s` and every enabled observable
event is in `evsOf s o`.

`reject_sound_ccontainer`: the state equality the checker uses (`instBEqSt`, equality of `St.norm`:
channel ids up to closed/open) is a deliberate quotient, not the real equality, so `rejectH_sound` does
not apply; `CContainer/Quot.lean` proves that it is an equivalence compatible with the hash and a
bisimulation on reachable states, which is what `rejectH_sound_quot` needs. -/

theorem CContainer.mem_internalCands (n t : Nat) (e : CContainer.Ev) (ht : t < n)
    (he : e ∈ [CContainer.Ev.opCS t, .waitCS t, .wakeCS t, .ctxTake t, .errTake t]) :
    e ∈ CContainer.internalCands n := by
  unfold CContainer.internalCands
  exact List.mem_flatMap.mpr ⟨t, List.mem_range.mpr ht, he⟩

theorem CContainer.Ev.obs_ev (e : CContainer.Ev) (o : CContainer.Obs) (h : e.obs = some o) : o.ev = e := by
  cases e <;> simp [CContainer.Ev.obs] at h <;> subst h <;> rfl

theorem complete_ccontainer : CContainer.model.Complete := by
  refine ⟨?_, fun _ e _ o _ ho => by simp [CContainer.model, CContainer.Ev.obs_ev e o ho]⟩
  intro s e s' hs ho
  show e ∈ CContainer.internalCands s.th.length
  change CContainer.step s e = some s' at hs
  change e.obs = none at ho
  cases e <;> simp [CContainer.Ev.obs] at ho <;> simp only [CContainer.step] at hs
  all_goals
    split at hs <;> try simp at hs
    all_goals
      rename_i hth
      have hlt := (List.getElem?_eq_some_iff.mp hth).1
      refine CContainer.mem_internalCands _ _ _ hlt ?_
      simp

theorem quotok_ccontainer : CContainer.model.QuotOK := CContainer.quotok

/-- **A REJECT of the CContainer correspondence is about the model**: when the driver's run fails at
an observable without having hit the exploration bounds, no run of the model projects to the
recorded history. -/
theorem reject_sound_ccontainer (cap fuel : Nat) (h : List CContainer.Obs) (i : Nat)
    (hfail : (CContainer.model.accRunH cap fuel [CContainer.model.init] h 0 false 1).failedAt = some i)
    (htr : (CContainer.model.accRunH cap fuel [CContainer.model.init] h 0 false 1).truncated = false) :
    ¬ ∃ es s, CContainer.model.run CContainer.model.init es = some s ∧
      es.filterMap CContainer.model.obs = h :=
  rejectH_sound_quot CContainer.model complete_ccontainer quotok_ccontainer cap fuel h i hfail htr


/-! ## the layered model `wmodel` (WatchChanges), the one the driver checks against

The core theorems lift: internal events of `wmodel` are exactly the internal core events, and the
state equality of `WSt` is the core quotient plus equality of the watcher table
(`CContainer/WQuot.lean`). -/

theorem complete_ccontainer_w : CContainer.wmodel.Complete := by
  refine ⟨?_, ?_⟩
  · intro s e s' hs ho
    show e ∈ (CContainer.internalCands s.core.th.length).map .core
    change CContainer.wstep s e = some s' at hs
    change e.obs = none at ho
    cases e <;> simp [CContainer.WEv.obs] at ho
    rename_i e0
    exact List.mem_map.mpr ⟨e0, complete_ccontainer.cands s.core e0 s'.core
      (CContainer.wstep_core s s' e0 hs).1 ho, rfl⟩
  · intro s e s' o _hs ho
    show e ∈ [o.ev]
    change e.obs = some o at ho
    cases e <;> simp [CContainer.WEv.obs] at ho
    case core e0 =>
      obtain ⟨o0, ho0, rfl⟩ := ho
      simp [CContainer.WObs.ev]
      exact (CContainer.Ev.obs_ev e0 o0 ho0).symm
    all_goals (subst ho; simp [CContainer.WObs.ev])

theorem quotok_ccontainer_w : CContainer.wmodel.QuotOK := CContainer.wquotok

/-- **A REJECT of the CContainer/WatchChanges correspondence is about the model**: when the driver's
run fails at an observable without having hit the exploration bounds, no run of the layered model
projects to the recorded history. -/
theorem reject_sound_ccontainer_w (cap fuel : Nat) (h : List CContainer.WObs) (i : Nat)
    (hfail : (CContainer.wmodel.accRunH cap fuel [CContainer.wmodel.init] h 0 false 1).failedAt = some i)
    (htr : (CContainer.wmodel.accRunH cap fuel [CContainer.wmodel.init] h 0 false 1).truncated = false) :
    ¬ ∃ es s, CContainer.wmodel.run CContainer.wmodel.init es = some s ∧
      es.filterMap CContainer.wmodel.obs = h :=
  rejectH_sound_quot CContainer.wmodel complete_ccontainer_w quotok_ccontainer_w cap fuel h i hfail htr

end UtilModel
