import UtilModel.Core.LTS
import UtilModel.Core.Bcast
import UtilModel.Core.Count
/-!
# ccontainer.CContainer — model (ccontainer/ccontainer.go)

A cell holding a small `Nat` (`0` = the empty value), with an optional custom equality "equal modulo
`m`" (`NewCContainerWithEqual`; `m = 0`: plain `==`).

One *thread* = one API call, numbered in invocation order by the harness. `GetValue`, `SetValue`,
`SwapValue` run their whole body inside `Broadcast.HoldLock`, so each is **one atomic event**
(`opCS`). `WaitValueWithValidator` (and `WaitValue`, `WaitValueChange`, `WaitValueEmpty`, which are
thin wrappers) loops: one critical section reads the value **and** the wait channel
(ccontainer.go:83-86), the validator is evaluated on the sampled value (a pure function of the
value, so evaluating it at the sampling instant is equivalent), then a `select` on ctx.Done, the
error channel and the wait channel.
-/
namespace UtilModel.CContainer
open UtilModel

/-- `compare` of the container: `==`, or the custom equality -/
def compare (m a b : Nat) : Bool := a == b || (m != 0 && a % m == b % m)

/-- the callback family of `SwapValue` -/
inductive SwapF where
  | inc | setk (k : Nat) | clear | nilcb
deriving DecidableEq, Repr, Hashable

def SwapF.apply : SwapF → Nat → Nat
  | .inc, v => v + 1
  | .setk k, _ => k
  | .clear, _ => 0
  | .nilcb, v => v

/-- the three cell operations -/
inductive Op where
  | get | set (v : Nat) | swap (f : SwapF)
deriving DecidableEq, Repr, Hashable

/-- cell content after an operation (a value equal to the old one w.r.t. `compare` is not stored) -/
def Op.newVal (m val : Nat) : Op → Nat
  | .get => val
  | .set v => if compare m val v then val else v
  | .swap f => if compare m val (f.apply val) then val else f.apply val

/-- does the operation broadcast? exactly when it stores -/
def Op.stores (m val : Nat) : Op → Bool
  | .get => false
  | .set v => !compare m val v
  | .swap .nilcb => false
  | .swap f => !compare m val (f.apply val)

/-- what the operation returns (`SwapValue` returns the callback's result even when not stored) -/
def Op.result (val : Nat) : Op → Nat
  | .get => val
  | .set _ => 0
  | .swap f => f.apply val

/-- the wait conditions -/
inductive WKind where
  | value               -- WaitValue: a non-empty value
  | change (old : Nat)  -- WaitValueChange(old)
  | empty               -- WaitValueEmpty
  | vnil                -- WaitValueWithValidator with a nil validator
  | veq (k : Nat)       -- validator v == k
  | vge (k : Nat)       -- validator v >= k
  | verr (k : Nat)      -- validator: error when v == k, true when v > k
deriving DecidableEq, Repr, Hashable

inductive CRes where
  | ok | no | error
deriving DecidableEq, Repr

def WKind.eval (m : Nat) : WKind → Nat → CRes
  | .value, v => if compare m 0 v then .no else .ok
  | .change old, v => if compare m old v then .no else .ok
  | .empty, v => if compare m 0 v then .ok else .no
  | .vnil, v => if compare m v 0 then .no else .ok
  | .veq k, v => if v = k then .ok else .no
  | .vge k, v => if k ≤ v then .ok else .no
  | .verr k, v => if v = k then .error else if k < v then .ok else .no

/-- error code of the erroring validator; the codes sent on error channels are ≥ 2 -/
def verrCode : Nat := 1

/-- result of a wait call -/
inductive WRes where
  | val (v : Nat)   -- returned the value `v`
  | ok              -- WaitValueEmpty returned nil
  | err (e : Nat)
  | canceled
deriving DecidableEq, Repr, Hashable

/-- an error channel handed to a wait call: buffered messages (`none` = a nil error) and closedness -/
structure ECh where
  q : List (Option Nat) := []
  closed : Bool := false
deriving DecidableEq, Repr, Hashable

def ECh.ready (e : ECh) : Bool := !e.q.isEmpty || e.closed

inductive TS where
  | opInv (o : Op)                               -- Get/Set/Swap invoked; critical section not yet run
  | opRan (o : Op) (r : Nat)                     -- critical section done, result `r`; not yet returned
  | wLoop (k : WKind) (e : Option ECh)           -- wait call at the top of its loop
  | wParked (k : WKind) (e : Option ECh) (ch : Nat)  -- in the select
  | wRet (r : WRes)                              -- about to return
  | done
deriving DecidableEq, Repr, Hashable

structure St where
  val : Nat := 0
  m : Nat := 0
  bc : Bcast := {}
  th : List TS := []
  cx : List Nat := []
deriving DecidableEq, Repr

/-! ### state merging in the subset construction
As in the Broadcast model: which *closed* channel a waiter is parked on is irrelevant (closed
channels stay closed, the one open channel is `bc.cur`), so states are compared after renaming
channels to closed/open. `accepts_sound` holds for any `BEq`. -/

def TS.norm (s : St) : TS → TS
  | .wParked k e c => .wParked k e (if s.bc.closed c then 0 else 1)
  | ts => ts

def St.norm (s : St) : Nat × Nat × Bool × List TS × List Nat :=
  (s.val, s.m, s.bc.cur.isSome, s.th.map (TS.norm s), s.cx)

instance (priority := high) instBEqSt : BEq St := ⟨fun a b => a.norm == b.norm⟩

/-- consistent with `instBEqSt` (used by the hash-indexed checker) -/
instance instHashableSt : Hashable St := ⟨fun s => hash s.norm⟩

inductive Obs where
  | new (v m : Nat)                          -- `new v m`: container created
  | invOp (t : Nat) (o : Op)                 -- `inv t get` / `inv t set v` / `inv t swap inc|setk k|clear|nil`
  | retOp (t : Nat) (r : Nat)                -- `ret t get v` / `ret t set` (r = 0) / `ret t swap r`
  | invWait (t : Nat) (k : WKind) (ech : Bool)  -- `inv t wait <kind> [ech]`
  | retWait (t : Nat) (r : WRes)             -- `ret t wait val v|ok|err e|canceled`
  | envCancel (t : Nat)                      -- `env cancel t`
  | envErr (t : Nat) (e : Option Nat)        -- `env errsend t e` / `env errnil t`
  | envErrClose (t : Nat)                    -- `env errclose t`
  | quiesce (pending : List Nat)
deriving DecidableEq, Repr

inductive Ev where
  | new (v m : Nat)
  | invOp (t : Nat) (o : Op)
  | opCS (t : Nat)               -- the critical section of Get/Set/Swap
  | retOp (t : Nat) (r : Nat)
  | invWait (t : Nat) (k : WKind) (ech : Bool)
  | waitCS (t : Nat)             -- sample value and wait channel, evaluate the condition
  | wakeCS (t : Nat)             -- select took the wait channel; loop, critical section again
  | ctxTake (t : Nat)            -- select took ctx.Done
  | errTake (t : Nat)            -- select took the error channel
  | retWait (t : Nat) (r : WRes)
  | envCancel (t : Nat)
  | envErr (t : Nat) (e : Option Nat)
  | envErrClose (t : Nat)
  | quiesce (pending : List Nat)
deriving DecidableEq, Repr

def Ev.obs : Ev → Option Obs
  | .new v m => some (.new v m)
  | .invOp t o => some (.invOp t o)
  | .retOp t r => some (.retOp t r)
  | .invWait t k e => some (.invWait t k e)
  | .retWait t r => some (.retWait t r)
  | .envCancel t => some (.envCancel t)
  | .envErr t e => some (.envErr t e)
  | .envErrClose t => some (.envErrClose t)
  | .quiesce B => some (.quiesce B)
  | _ => none

def Obs.ev : Obs → Ev
  | .new v m => .new v m
  | .invOp t o => .invOp t o
  | .retOp t r => .retOp t r
  | .invWait t k e => .invWait t k e
  | .retWait t r => .retWait t r
  | .envCancel t => .envCancel t
  | .envErr t e => .envErr t e
  | .envErrClose t => .envErrClose t
  | .quiesce B => .quiesce B

theorem Obs.ev_obs (o : Obs) : o.ev.obs = some o := by cases o <;> rfl

def internalCands (n : Nat) : List Ev :=
  (List.range n).flatMap fun t => [.opCS t, .waitCS t, .wakeCS t, .ctxTake t, .errTake t]

/-- the critical section of a wait call plus the evaluation of its condition on the sampled value
(ccontainer.go:83-98). Note that the wait channel is taken in every pass, also a successful one. -/
def waitAttempt (s : St) (t : Nat) (k : WKind) (e : Option ECh) : St :=
  let bc' := s.bc.getWaitCh.1
  match k.eval s.m s.val with
  | .error => { s with bc := bc', th := s.th.set t (.wRet (.err verrCode)) }
  | .ok => { s with bc := bc', th := s.th.set t (.wRet (match k with
      | .empty => .ok
      | _ => .val s.val)) }
  | .no => { s with bc := bc', th := s.th.set t (.wParked k e s.bc.getWaitCh.2) }

/-- an environment action on the error channel of call `t` -/
def onECh (s : St) (t : Nat) (f : ECh → Option ECh) : Option St :=
  match s.th[t]? with
  | some (.wLoop k (some e)) => (f e).map fun e' => { s with th := s.th.set t (.wLoop k (some e')) }
  | some (.wParked k (some e) c) => (f e).map fun e' => { s with th := s.th.set t (.wParked k (some e') c) }
  | some (.wRet _) => some s       -- the call no longer reads its channel
  | some .done => some s
  | _ => none

def TS.quiet (s : St) (t : Nat) : TS → Bool
  | .wParked _ e ch => !s.bc.closed ch && !s.cx.contains t && !(match e with
      | some e => e.ready
      | none => false)
  | .done => true
  | _ => false

def pendingIds (s : St) : List Nat :=
  (List.range s.th.length).filter fun t => match s.th[t]? with
    | some (.wParked _ _ _) => true
    | _ => false

def quiescent (s : St) : Bool :=
  (List.range s.th.length).all fun t => match s.th[t]? with
    | some ts => TS.quiet s t ts
    | none => true

def step (s : St) : Ev → Option St
  | .new v m => if s.th = [] then some { s with val := v, m := m } else none
  | .invOp t o => if t = s.th.length then some { s with th := s.th ++ [.opInv o] } else none
  | .opCS t =>
    match s.th[t]? with
    | some (.opInv o) =>
      some { s with val := o.newVal s.m s.val
                    bc := if o.stores s.m s.val then s.bc.broadcast else s.bc
                    th := s.th.set t (.opRan o (o.result s.val)) }
    | _ => none
  | .retOp t r =>
    match s.th[t]? with
    | some (.opRan _ r') => if r = r' then some { s with th := s.th.set t .done } else none
    | _ => none
  | .invWait t k ech =>
    if t = s.th.length then some { s with th := s.th ++ [.wLoop k (if ech then some {} else none)] } else none
  | .waitCS t =>
    match s.th[t]? with
    | some (.wLoop k e) => some (waitAttempt s t k e)
    | _ => none
  | .wakeCS t =>
    match s.th[t]? with
    | some (.wParked k e c) => if s.bc.closed c then some (waitAttempt s t k e) else none
    | _ => none
  | .ctxTake t =>
    match s.th[t]? with
    | some (.wParked _ _ _) => if s.cx.contains t then some { s with th := s.th.set t (.wRet .canceled) } else none
    | _ => none
  | .errTake t =>
    match s.th[t]? with
    | some (.wParked k (some e) _) =>
      match e.q with
      | some err :: _ => some { s with th := s.th.set t (.wRet (.err err)) }
      | none :: rest => some { s with th := s.th.set t (.wLoop k (some { e with q := rest })) }
      | [] => if e.closed then some { s with th := s.th.set t (.wRet .canceled) } else none
    | _ => none
  | .retWait t r =>
    match s.th[t]? with
    | some (.wRet r') => if r = r' then some { s with th := s.th.set t .done } else none
    | _ => none
  | .envCancel t => if t < s.th.length then some { s with cx := t :: s.cx } else none
  | .envErr t e => onECh s t fun c => if c.closed then none else some { c with q := c.q ++ [e] }
  | .envErrClose t => onECh s t fun c => if c.closed then none else some { c with closed := true }
  | .quiesce B => if quiescent s ∧ B = pendingIds s then some s else none

def model : OLTS St Ev Obs where
  init := {}
  step := step
  obs := Ev.obs
  cands := fun s => internalCands s.th.length
  evsOf := fun _ o => [o.ev]

/-! ## parsing of harness lines -/

def parseNats : List String → Option (List Nat)
  | [] => some []
  | x :: xs => do let n ← x.toNat?; let r ← parseNats xs; pure (n :: r)

def parseKind : List String → Option (WKind × Bool)
  | "value" :: r => some (.value, r == ["ech"])
  | "change" :: o :: r => do pure (.change (← o.toNat?), r == ["ech"])
  | "empty" :: r => some (.empty, r == ["ech"])
  | "vnil" :: r => some (.vnil, r == ["ech"])
  | "veq" :: k :: r => do pure (.veq (← k.toNat?), r == ["ech"])
  | "vge" :: k :: r => do pure (.vge (← k.toNat?), r == ["ech"])
  | "verr" :: k :: r => do pure (.verr (← k.toNat?), r == ["ech"])
  | _ => none

def parseSwapF : List String → Option SwapF
  | ["inc"] => some .inc
  | ["setk", k] => do pure (.setk (← k.toNat?))
  | ["clear"] => some .clear
  | ["nil"] => some .nilcb
  | _ => none

def Obs.parse : List String → Option Obs
  | ["new", v, m] => do pure (.new (← v.toNat?) (← m.toNat?))
  | ["inv", t, "get"] => do pure (.invOp (← t.toNat?) .get)
  | ["inv", t, "set", v] => do pure (.invOp (← t.toNat?) (.set (← v.toNat?)))
  | "inv" :: t :: "swap" :: f => do pure (.invOp (← t.toNat?) (.swap (← parseSwapF f)))
  | ["ret", t, "get", v] => do pure (.retOp (← t.toNat?) (← v.toNat?))
  | ["ret", t, "set"] => do pure (.retOp (← t.toNat?) 0)
  | ["ret", t, "swap", r] => do pure (.retOp (← t.toNat?) (← r.toNat?))
  | "inv" :: t :: "wait" :: k => do
    let (k, e) ← parseKind k
    pure (.invWait (← t.toNat?) k e)
  | ["ret", t, "wait", "val", v] => do pure (.retWait (← t.toNat?) (.val (← v.toNat?)))
  | ["ret", t, "wait", "ok"] => do pure (.retWait (← t.toNat?) .ok)
  | ["ret", t, "wait", "err", e] => do pure (.retWait (← t.toNat?) (.err (← e.toNat?)))
  | ["ret", t, "wait", "canceled"] => do pure (.retWait (← t.toNat?) .canceled)
  | ["env", "cancel", t] => do pure (.envCancel (← t.toNat?))
  | ["env", "errsend", t, e] => do pure (.envErr (← t.toNat?) (some (← e.toNat?)))
  | ["env", "errnil", t] => do pure (.envErr (← t.toNat?) none)
  | ["env", "errclose", t] => do pure (.envErrClose (← t.toNat?))
  | "quiesce" :: ts => do pure (.quiesce (← parseNats ts))
  | _ => none

end UtilModel.CContainer
