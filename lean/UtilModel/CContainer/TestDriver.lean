import UtilModel.Core.Driver
import UtilModel.Core.DriverH
import UtilModel.CContainer.Model
import UtilModel.CContainer.WModel
/-! Development driver for this component only:
`lake env lean --run UtilModel/CContainer/TestDriver.lean ccontainer < hist` -/
open UtilModel

def main (args : List String) : IO UInt32 :=
  driverMain [
    mkEntryH "ccontainer" CContainer.wmodel CContainer.WObs.parse [MonEntry.ofMonitor "C15" CContainer.monC15W]
  ] args
