import UtilModel.RefCount.Proofs4
/-!
# refcount: accounting of release-function calls (who is released, when, with what in `pend`)
-/
set_option linter.unusedSimpArgs false
set_option linter.unusedVariables false
namespace UtilModel.RefCount
open UtilModel

/-- ghost: the release function returned by resolver call `i` has been called -/
def released (s : St) (i : Nat) : Bool :=
  match s.calls[i]? with
  | some c => c.released
  | none => false

def CbItem.isRel (i : Nat) : CbItem → Bool
  | .rel j _ _ => j == i
  | _ => false

/-- number of pending calls of the release function of call `i` -/
def relItems (p : List (List CbItem)) (i : Nat) : Nat := (p.flatten.countP (CbItem.isRel i))

theorem relItems_addBatch (p : List (List CbItem)) (b : List CbItem) (i : Nat) :
    relItems (addBatch p b) i = relItems p i + b.countP (CbItem.isRel i) := by
  unfold addBatch relItems
  split
  · rename_i h; simp at h; simp [h]
  · simp [List.countP_append]

theorem cbItems_noRel (th : List TS) (res : Bool) (v e : Nat) (i : Nat) :
    (cbItems th res v e).countP (CbItem.isRel i) = 0 := by
  rw [List.countP_eq_zero]
  intro x hx
  simp only [cbItems, List.mem_filterMap] at hx
  obtain ⟨a, _, ha⟩ := hx
  split at ha
  · split at ha <;> simp at ha
    subst ha; simp [CbItem.isRel]
  · simp at ha

theorem shutdown_pend (s : St) : (shutdown s).pend =
    addBatch (if s.resolved then addBatch s.pend (cbItems s.th false 0 0) else s.pend)
      (match s.rel with
       | some i => [.rel i (invOf s.calls i) (shutdown s).target]
       | none => []) := by
  have ht := shutdown_target s
  unfold shutdown clearResolved at *
  cases hr : s.rcancel <;> cases hl : s.rel <;> cases hres : s.resolved <;>
    simp [hr, hl, hres, addBatch] at ht ⊢
  all_goals
    rename_i a b
    simp only [invOf, cancelCall_get]
    cases s.calls[b]? <;> simp
    split <;> rfl


def b2n (b : Bool) : Nat := if b then 1 else 0

/-- `valueRel`, when set, is the not-yet-called release function of an existing call -/
def RelOk (s : St) : Prop := ∀ (i : Nat), s.rel = some i → ∃ (c : Call), s.calls[i]? = some c ∧ c.released = false

theorem relOk_of_core (s : St) (hc : Core s) : RelOk s := by
  intro i hr
  obtain ⟨c, h1, _, _, h4, _⟩ := rel_is_cur s hc i hr
  exact ⟨c, h1, h4⟩

theorem shutdown_released (s : St) (h : RelOk s) (i : Nat) :
    released (shutdown s) i = (released s i || (s.rel == some i)) := by
  unfold released
  rw [shutdown_calls]
  cases hc : s.calls[i]? with
  | none =>
    simp
    intro hr; obtain ⟨c, h1, _⟩ := h i hr; rw [hc] at h1; cases h1
  | some c => simp [updCall]

theorem shutdown_relItems (s : St) (i : Nat) :
    relItems (shutdown s).pend i = relItems s.pend i + b2n (s.rel == some i) := by
  rw [shutdown_pend, relItems_addBatch]
  have h1 : relItems (if s.resolved = true then addBatch s.pend (cbItems s.th false 0 0) else s.pend) i
      = relItems s.pend i := by
    split
    · rw [relItems_addBatch, cbItems_noRel]; rfl
    · rfl
  rw [h1]
  cases hr : s.rel with
  | none => simp [b2n]
  | some j =>
    by_cases hji : j = i
    · subst hji; simp [b2n, CbItem.isRel]
    · simp [b2n, CbItem.isRel, hji]

/-- accounting equation for one operation: pending calls + calls made so far stay in step with the
ghost flag -/
def Acct (s s' : St) (i : Nat) : Prop :=
  relItems s'.pend i + b2n (released s i) = relItems s.pend i + b2n (released s' i)

theorem acct_shutdown (s : St) (h : RelOk s) (i : Nat) : Acct s (shutdown s) i := by
  unfold Acct
  rw [shutdown_relItems, shutdown_released s h]
  by_cases hr : s.rel = some i
  · obtain ⟨c, h1, h2⟩ := h i hr
    simp [released, h1, h2, hr, b2n]
  · have : (s.rel == some i) = false := by simpa using hr
    simp [this, b2n]

theorem released_spawned (s1 : St) (i : Nat) : released (spawned s1) i = released s1 i := by
  unfold released spawned
  simp only
  by_cases hlt : i < s1.calls.length
  · rw [List.getElem?_append_left hlt]
  · have h1 : s1.calls[i]? = none := List.getElem?_eq_none (by omega)
    rw [h1]
    by_cases he : i = s1.calls.length
    · subst he; simp [newCall]
    · have : (s1.calls ++ [newCall s1])[i]? = none := List.getElem?_eq_none (by simp; omega)
      rw [this]

theorem acct_startResolve (s : St) (h : RelOk s) (i : Nat) : Acct s (startResolve s) i := by
  rw [startResolve_eq]
  split
  · exact acct_shutdown s h i
  · have := acct_shutdown s h i
    unfold Acct at *
    rw [released_spawned]
    exact this

theorem acct_afterRemove (s : St) (h : RelOk s) (i : Nat) : Acct s (afterRemove s) i := by
  unfold afterRemove
  split
  · split
    · exact acct_shutdown s h i
    · rfl
  · rfl


/-- this event is a call of the release function of call `i` -/
def emits (e : Ev) (i : Nat) : Nat :=
  match e with
  | .cb (.rel j _ _) => if j = i then 1 else 0
  | _ => 0

theorem released_setCall (s : St) (i : Nat) (c c' : Call) (j : Nat) (h : s.calls[i]? = some c)
    (hr : c'.released = c.released) : released (setCall s i c') j = released s j := by
  unfold released setCall
  simp only [List.getElem?_set]
  by_cases hij : i = j
  · subst hij; rw [h]; simp [lt_of_getElem? h, hr]
  · simp [hij]

theorem acct_setCall (s : St) (i : Nat) (c c' : Call) (n : Nat) (j : Nat) (h : s.calls[i]? = some c)
    (hr : c'.released = c.released) : Acct s { setCall s i c' with ninv := n } j := by
  unfold Acct
  have : released { setCall s i c' with ninv := n } j = released s j := released_setCall s i c c' j h hr
  rw [this]; rfl

theorem relItems_cons (b : List CbItem) (rest : List (List CbItem)) (i : Nat) :
    relItems (b :: rest) i = b.countP (CbItem.isRel i) + relItems rest i := by
  simp [relItems, List.countP_append]

theorem countP_erase_mem {α : Type} [DecidableEq α] (p : α → Bool) (l : List α) (a : α) (h : a ∈ l) :
    (l.erase a).countP p + (if p a then 1 else 0) = l.countP p := by
  induction l with
  | nil => simp at h
  | cons x xs ih =>
    by_cases hx : x = a
    · subst hx; simp [List.countP_cons]
    · have hmem : a ∈ xs := by
        simp at h; rcases h with h | h
        · exact absurd h.symm hx
        · exact h
      have := ih hmem
      rw [List.erase_cons_tail (by simpa using hx)]
      simp only [List.countP_cons]; omega

/-- **accounting**: in every step, pending release calls of `i` + the call made by this event +
the ghost flag before = pending before + the ghost flag after -/
theorem step_acct (s s' : St) (e : Ev) (i : Nat) (hi : Inv s) (hs : step s e = some s') :
    relItems s'.pend i + emits e i + b2n (released s i) = relItems s.pend i + b2n (released s' i) := by
  have hrel := relOk_of_core s hi.core
  cases e with
  | cfg k c t =>
    simp only [step] at hs; split at hs <;> simp at hs; subst hs; rfl
  | invAddRef a k =>
    simp only [step] at hs; split at hs <;> simp at hs; subst hs; rfl
  | invHook a =>
    simp only [step] at hs; split at hs <;> simp at hs; subst hs; rfl
  | retAddRef a =>
    simp only [step] at hs; split at hs <;> try simp at hs
    obtain ⟨_, rfl⟩ := hs; rfl
  | invRelease b r =>
    simp only [step] at hs; split at hs <;> try simp at hs
    split at hs <;> try simp at hs
    subst hs; rfl
  | relSwap b =>
    simp only [step] at hs; split at hs <;> try simp at hs
    split at hs <;> simp at hs <;> subst hs <;> rfl
  | retRelease b =>
    simp only [step] at hs; split at hs <;> try simp at hs
    obtain ⟨_, rfl⟩ := hs; rfl
  | selfRelSwap a =>
    simp only [step] at hs; split at hs <;> try simp at hs
    obtain ⟨_, hs⟩ := hs
    split at hs <;> simp at hs <;> subst hs <;> rfl
  | invSetCtx a c cl =>
    simp only [step] at hs; split at hs <;> simp at hs; subst hs; rfl
  | retSetCtx a u =>
    simp only [step] at hs; split at hs <;> try simp at hs
    obtain ⟨_, rfl⟩ := hs; rfl
  | envCancelCtx c =>
    simp only [step] at hs; split at hs <;> simp at hs; subst hs
    simp only [emits, Nat.add_zero]
    have : released { s with dead := c :: s.dead, calls := s.calls.map fun x =>
        if x.root = c then { x with ci := { x.ci with cancelled := true } } else x } i = released s i := by
      unfold released
      simp only [List.getElem?_map]
      cases s.calls[i]? with
      | none => rfl
      | some x => simp; split <;> rfl
    rw [this]
  | envReleased k =>
    simp only [step] at hs; split at hs <;> simp at hs; subst hs; rfl
  | quiesce B =>
    simp only [step] at hs; split at hs <;> simp at hs; subst hs; rfl
  | probe v e =>
    simp only [step] at hs; split at hs <;> simp at hs; subst hs; rfl
  | enter j k =>
    simp only [step] at hs; split at hs <;> try simp at hs
    rename_i c h
    obtain ⟨_, rfl⟩ := hs
    exact acct_setCall s j c _ _ i h rfl
  | giveUp j =>
    simp only [step] at hs; split at hs <;> try simp at hs
    rename_i c h
    obtain ⟨_, rfl⟩ := hs
    exact acct_setCall s j c { c with ci := { c.ci with st := .draining } } s.ninv i h rfl
  | drained j =>
    simp only [step] at hs; split at hs <;> try simp at hs
    rename_i c h
    obtain ⟨_, rfl⟩ := hs
    exact acct_setCall s j c { c with ci := { c.ci with st := .returned }, fin := true } s.ninv i h rfl
  | leave j k v hr e =>
    simp only [step] at hs; split at hs <;> try simp at hs
    rename_i c h
    obtain ⟨_, rfl⟩ := hs
    exact acct_setCall s j c { c with ci := { c.ci with st := .returned }, res := some (v, hr, e) } s.ninv i h rfl
  | done j =>
    simp only [step] at hs; split at hs <;> try simp at hs
    rename_i c h
    obtain ⟨_, rfl⟩ := hs
    exact acct_setCall s j c { c with ci := { c.ci with st := .closed } } s.ninv i h rfl
  | cb it =>
    simp only [step] at hs; split at hs <;> try simp at hs
    rename_i b rest hp
    obtain ⟨hmem, rfl⟩ := hs
    show relItems (if b = [] ∨ b = [it] then rest else b.erase it :: rest) i + emits (.cb it) i + b2n (released s i)
      = relItems s.pend i + b2n (released s i)
    rw [hp]
    have hcount : (b.erase it).countP (CbItem.isRel i) + emits (.cb it) i = b.countP (CbItem.isRel i) := by
      have := countP_erase_mem (CbItem.isRel i) b it hmem
      rw [← this]
      cases it with
      | refcb r vis res v e => simp [CbItem.isRel, emits]
      | rel j k seen =>
        by_cases hj : j = i
        · subst hj; simp [CbItem.isRel, emits]
        · simp [CbItem.isRel, emits, hj]
    have hpe : relItems (if b = [] ∨ b = [it] then rest else b.erase it :: rest) i
        = (b.erase it).countP (CbItem.isRel i) + relItems rest i := by
      split
      · rename_i h
        have : b.erase it = [] := List.erase_eq_nil_iff.mpr h
        simp [this]
      · exact relItems_cons _ _ _
    rw [hpe, relItems_cons]; omega
  | addRefCS a =>
    simp only [step] at hs; split at hs <;> try simp at hs
    rename_i k ha
    obtain ⟨_, hs⟩ := hs
    split at hs
    · simp at hs; subst hs
      exact acct_startResolve { s with th := s.th.set a (.ref k .done true false false none), owner := .thr a } hrel i
    · split at hs <;> simp at hs <;> subst hs
      · show relItems (addBatch s.pend [CbItem.refcb a (k == CbKind.rcd) true s.value s.verr]) i + 0 + b2n (released s i)
          = relItems s.pend i + b2n (released s i)
        rw [relItems_addBatch]; simp [CbItem.isRel]
      · rfl
  | relCS b =>
    simp only [step] at hs; split at hs <;> try simp at hs
    split at hs <;> try simp at hs
    case h_2 => obtain ⟨_, rfl⟩ := hs; rfl
    obtain ⟨_, rfl⟩ := hs
    exact acct_afterRemove _ (by exact hrel) i
  | selfRelCS a =>
    simp only [step] at hs; split at hs <;> try simp at hs
    obtain ⟨_, rfl⟩ := hs
    exact acct_afterRemove _ (by exact hrel) i
  | setCtxCS a =>
    simp only [step] at hs; split at hs <;> try simp at hs
    rename_i c clear u ha
    split at hs <;> simp at hs <;> obtain ⟨_, rfl⟩ := hs
    · rfl
    · exact acct_startResolve { s with ctx := c, th := s.th.set a (.ctx c clear .done true), owner := .thr a } hrel i
  | relRun j =>
    simp only [step] at hs; split at hs <;> try simp at hs
    split at hs <;> try simp at hs
    split at hs <;> simp at hs <;> obtain ⟨_, rfl⟩ := hs
    · exact acct_startResolve { s with relRuns := s.relRuns.eraseIdx j, owner := .other } hrel i
    · rfl
  | store j =>
    simp only [step] at hs; split at hs <;> try simp at hs
    rename_i c h
    split at hs <;> try simp at hs
    rename_i val hasRel err hr
    obtain ⟨⟨hst, hnf, _⟩, hs⟩ := hs
    have hcr : c.released = false := by
      cases hcr : c.released
      · rfl
      · have := (hi.core.relFin j c h hcr).1; rw [hnf] at this; cases this
    split at hs
    · simp at hs; subst hs
      show relItems (addBatch s.pend (cbItems s.th true val err)) i + 0 + b2n (released s i)
        = relItems s.pend i + b2n (released (setCall s j { c with fin := true, stored := true }) i)
      rw [relItems_addBatch, cbItems_noRel, released_setCall s j c { c with fin := true, stored := true } i h rfl]
      omega
    · split at hs <;> simp at hs <;> subst hs
      · show relItems (addBatch s.pend [CbItem.rel j (c.inv.getD 0) s.target]) i + 0 + b2n (released s i)
          = relItems s.pend i + b2n (released (setCall s j { c with fin := true, released := true }) i)
        rw [relItems_addBatch]
        by_cases hji : j = i
        · subst hji
          have h1 : released s j = false := by simp [released, h, hcr]
          have h2 : released (setCall s j { c with fin := true, released := true }) j = true := by
            simp [released, setCall, lt_of_getElem? h]
          rw [h1, h2]; simp [CbItem.isRel, b2n]
        · have h2 : released (setCall s j { c with fin := true, released := true }) i = released s i := by
            unfold released setCall; simp [List.getElem?_set, hji]
          rw [h2]; simp [CbItem.isRel, hji]
      · show relItems s.pend i + 0 + b2n (released s i)
          = relItems s.pend i + b2n (released (setCall s j { c with fin := true }) i)
        rw [released_setCall s j c { c with fin := true } i h rfl]
        omega

end UtilModel.RefCount
