import UtilModel.RefCount.Props
/-!
# refcount: thread-table invariant and "a pending API call is never stuck" (no deadlock)
-/
set_option linter.unusedSimpArgs false
set_option linter.unusedVariables false
namespace UtilModel.RefCount
open UtilModel

/-- invariant of the thread table alone -/
structure ThInv (th : List TS) : Prop where
  /-- an `AddRef` call that has not run its critical section has a pristine entry -/
  fresh : ∀ (a : Nat) (k : CbKind) (live flag self : Bool) (told : Option Nat),
    th[a]? = some (.ref k .inv live flag self told) → live = false ∧ flag = false ∧ self = false ∧ told = none
  /-- a `Release` call names a reference whose `AddRef` has returned -/
  target : ∀ (b r : Nat) (pc : RelPc), th[b]? = some (.rel r pc) →
    ∃ k live flag self told, th[r]? = some (.ref k .retd live flag self told)

theorem thinv_nil : ThInv [] := ⟨by intros; simp_all, by intros; simp_all⟩

theorem thinv_append (th : List TS) (h : ThInv th) (x : TS)
    (hx : (∀ k live flag self told, x = .ref k .inv live flag self told →
            live = false ∧ flag = false ∧ self = false ∧ told = none) ∧
          (∀ r pc, x = .rel r pc → ∃ k live flag self told, th[r]? = some (.ref k .retd live flag self told))) :
    ThInv (th ++ [x]) := by
  refine ⟨?_, ?_⟩
  · intro a k live flag self told ha
    rcases getElem?_snoc_cases _ _ _ _ ha with ⟨_, h1⟩ | ⟨_, h1⟩
    · exact h.fresh a k live flag self told h1
    · exact hx.1 k live flag self told h1.symm
  · intro b r pc hb
    rcases getElem?_snoc_cases _ _ _ _ hb with ⟨_, h1⟩ | ⟨_, h1⟩
    · obtain ⟨k, l, f, sf, t, h2⟩ := h.target b r pc h1
      exact ⟨k, l, f, sf, t, getElem?_snoc_left _ _ _ _ h2⟩
    · obtain ⟨k, l, f, sf, t, h2⟩ := hx.2 r pc h1.symm
      exact ⟨k, l, f, sf, t, getElem?_snoc_left _ _ _ _ h2⟩

/-- replacing an entry by one of the same constructor; a `retd` reference stays `retd` -/
theorem thinv_set (th : List TS) (h : ThInv th) (a : Nat) (old new : TS) (ha : th[a]? = some old)
    (h1 : ∀ k live flag self told, new = .ref k .inv live flag self told →
            live = false ∧ flag = false ∧ self = false ∧ told = none)
    (h2 : ∀ r pc, new = .rel r pc → ∃ pc', old = .rel r pc')
    (h3 : ∀ k live flag self told, old = .ref k .retd live flag self told →
            ∃ live' flag' self' told', new = .ref k .retd live' flag' self' told') :
    ThInv (th.set a new) := by
  refine ⟨?_, ?_⟩
  · intro x k live flag self told hx
    rcases getElem?_set_cases th a x new _ hx with ⟨_, e⟩ | ⟨_, e⟩
    · exact h1 k live flag self told e.symm
    · exact h.fresh x k live flag self told e
  · intro b r pc hb
    have hold : ∃ pc', th[b]? = some (.rel r pc') := by
      rcases getElem?_set_cases th a b new _ hb with ⟨hb', e⟩ | ⟨_, e⟩
      · obtain ⟨pc', e2⟩ := h2 r pc e.symm
        exact ⟨pc', by rw [hb', ha, e2]⟩
      · exact ⟨pc, e⟩
    obtain ⟨pc', hb0⟩ := hold
    obtain ⟨k, l, f, sf, t, hr⟩ := h.target b r pc' hb0
    by_cases hra : r = a
    · subst hra
      rw [ha] at hr; cases hr
      obtain ⟨l', f', sf', t', e⟩ := h3 k l f sf t rfl
      exact ⟨k, l', f', sf', t', by rw [e]; simp [lt_of_getElem? ha]⟩
    · exact ⟨k, l, f, sf, t, by rw [getElem?_set_ne' _ _ _ _ (Ne.symm hra)]; exact hr⟩

theorem thinv_tellAll (th : List TS) (h : ThInv th) (t : Option Nat) : ThInv (tellAll th t) := by
  refine ⟨?_, ?_⟩
  · intro a k live flag self told ha
    rw [tellAll_get] at ha
    cases hx : th[a]? with
    | none => simp [hx] at ha
    | some x =>
      simp [hx] at ha
      cases x with
      | ref k2 pc2 live2 f2 sf2 told2 =>
        cases live2 <;> simp [tell1] at ha
        · obtain ⟨rfl, rfl, rfl, rfl, rfl, rfl⟩ := ha
          exact h.fresh a k2 false f2 sf2 told2 hx
        · split at ha <;> simp at ha
          · obtain ⟨rfl, rfl, rfl, rfl, rfl, rfl⟩ := ha
            exact h.fresh a k2 true f2 sf2 told2 hx
          · obtain ⟨rfl, rfl, rfl, rfl, rfl, rfl⟩ := ha
            have := h.fresh a k2 true f2 sf2 told2 hx
            simp at this
      | rel r pc => simp [tell1] at ha
      | ctx c cl pc u => simp [tell1] at ha
  · intro b r pc hb
    rw [tellAll_get] at hb
    cases hx : th[b]? with
    | none => simp [hx] at hb
    | some x =>
      simp [hx] at hb
      have hxe : x = .rel r pc := by
        cases x with
        | ref k2 pc2 live2 f2 sf2 told2 =>
          cases live2 <;> simp [tell1] at hb
          split at hb <;> simp at hb
        | rel r2 pc2 => simpa [tell1] using hb
        | ctx c cl pc2 u => simp [tell1] at hb
      subst hxe
      obtain ⟨k, l, f, sf, t2, hr⟩ := h.target b r pc hx
      cases l
      · exact ⟨k, false, f, sf, t2, by rw [tellAll_get, hr]; simp [tell1]⟩
      · by_cases hk : k = .nil
        · exact ⟨k, true, f, sf, t2, by rw [tellAll_get, hr]; simp [tell1, hk]⟩
        · exact ⟨k, true, f, sf, t, by rw [tellAll_get, hr]; simp [tell1, hk]⟩


theorem thinv_shutdown (s : St) (h : ThInv s.th) : ThInv (shutdown s).th := by
  rw [shutdown_th]; split
  · exact thinv_tellAll _ h none
  · exact h

theorem startResolve_th (s : St) : (startResolve s).th = (shutdown s).th := by
  rw [startResolve_eq]; split <;> rfl

theorem thinv_startResolve (s : St) (h : ThInv s.th) : ThInv (startResolve s).th := by
  rw [startResolve_th]; exact thinv_shutdown s h

theorem thinv_afterRemove (s : St) (h : ThInv s.th) : ThInv (afterRemove s).th := by
  unfold afterRemove
  split
  · split
    · exact thinv_shutdown s h
    · exact h
  · exact h

theorem step_thinv (s s' : St) (e : Ev) (h : ThInv s.th) (hs : step s e = some s') : ThInv s'.th := by
  have noinv : ∀ (k : CbKind) (pc : Pc) (l f sf : Bool) (t : Option Nat), pc ≠ .inv →
      ∀ k' l' f' sf' t', TS.ref k pc l f sf t = .ref k' .inv l' f' sf' t' →
        l' = false ∧ f' = false ∧ sf' = false ∧ t' = none := by
    intro k pc l f sf t hpc k' l' f' sf' t' he; cases he; exact absurd rfl hpc
  cases e with
  | cfg k c t => simp only [step] at hs; split at hs <;> simp at hs; subst hs; exact h
  | invAddRef a k =>
    simp only [step] at hs; split at hs <;> simp at hs; subst hs
    exact thinv_append _ h _ ⟨(by intro _ _ _ _ _ he; cases he; simp), (by intro _ _ he; cases he)⟩
  | invHook a =>
    simp only [step] at hs; split at hs <;> simp at hs; subst hs
    exact thinv_append _ h _ ⟨(by intro _ _ _ _ _ he; cases he; simp), (by intro _ _ he; cases he)⟩
  | invSetCtx a c cl =>
    simp only [step] at hs; split at hs <;> simp at hs; subst hs
    exact thinv_append _ h _ ⟨(by intro _ _ _ _ _ he; cases he), (by intro _ _ he; cases he)⟩
  | invRelease b r =>
    simp only [step] at hs; split at hs <;> try simp at hs
    split at hs <;> try simp at hs
    subst hs
    rename_i k l f sf t hr
    exact thinv_append _ h _ ⟨(by intro _ _ _ _ _ he; cases he), (by intro r' pc he; cases he; exact ⟨k, l, f, sf, t, hr⟩)⟩
  | retAddRef a =>
    simp only [step] at hs; split at hs <;> try simp at hs
    rename_i k l f sf t ha
    obtain ⟨_, rfl⟩ := hs
    exact thinv_set _ h a _ _ ha (by intro _ _ _ _ _ he; cases he) (by intro _ _ he; cases he)
      (by intro _ _ _ _ _ he; cases he)
  | retRelease b =>
    simp only [step] at hs; split at hs <;> try simp at hs
    rename_i r hb
    obtain ⟨_, rfl⟩ := hs
    exact thinv_set _ h b _ _ hb (by intro _ _ _ _ _ he; cases he) (by intro _ _ he; cases he; exact ⟨_, rfl⟩)
      (by intro _ _ _ _ _ he; cases he)
  | retSetCtx a u =>
    simp only [step] at hs; split at hs <;> try simp at hs
    rename_i c cl u2 ha
    obtain ⟨_, rfl⟩ := hs
    exact thinv_set _ h a _ _ ha (by intro _ _ _ _ _ he; cases he) (by intro _ _ he; cases he)
      (by intro _ _ _ _ _ he; cases he)
  | relSwap b =>
    simp only [step] at hs; split at hs <;> try simp at hs
    rename_i r hb
    obtain ⟨k0, l0, f0, sf0, t0, hr0⟩ := h.target b r _ hb
    split at hs <;> simp at hs <;> subst hs
    · rename_i k pc live self told hr
      rw [hr0] at hr; cases hr
      have hne : r ≠ b := by intro e; subst e; rw [hb] at hr0; cases hr0
      have h1 := thinv_set _ h r _ (.ref k0 .retd l0 true sf0 t0) hr0 (by intro _ _ _ _ _ he; cases he)
        (by intro _ _ he; cases he) (by intro _ _ _ _ _ he; cases he; exact ⟨_, _, _, _, rfl⟩)
      have hb' : (s.th.set r (.ref k0 .retd l0 true sf0 t0))[b]? = some (.rel r .inv) := by
        rw [getElem?_set_ne' _ _ _ _ hne]; exact hb
      exact thinv_set _ h1 b _ _ hb' (by intro _ _ _ _ _ he; cases he) (by intro _ _ he; cases he; exact ⟨_, rfl⟩)
        (by intro _ _ _ _ _ he; cases he)
    · exact thinv_set _ h b _ _ hb (by intro _ _ _ _ _ he; cases he) (by intro _ _ he; cases he; exact ⟨_, rfl⟩)
        (by intro _ _ _ _ _ he; cases he)
  | selfRelSwap a =>
    simp only [step] at hs; split at hs <;> try simp at hs
    rename_i pc l f sf t ha
    obtain ⟨hpc, hs⟩ := hs
    split at hs <;> simp at hs <;> subst hs
    · exact h
    · exact thinv_set _ h a _ _ ha (noinv _ _ _ _ _ _ hpc) (by intro _ _ he; cases he)
        (by intro _ _ _ _ _ he; cases he; exact ⟨_, _, _, _, rfl⟩)
  | envCancelCtx c => simp only [step] at hs; split at hs <;> simp at hs; subst hs; exact h
  | envReleased k => simp only [step] at hs; split at hs <;> simp at hs; subst hs; exact h
  | quiesce B => simp only [step] at hs; split at hs <;> simp at hs; subst hs; exact h
  | probe v er => simp only [step] at hs; split at hs <;> simp at hs; subst hs; exact h
  | cb it =>
    simp only [step] at hs; split at hs <;> try simp at hs
    obtain ⟨_, rfl⟩ := hs; exact h
  | enter i k =>
    simp only [step] at hs; split at hs <;> try simp at hs
    obtain ⟨_, rfl⟩ := hs; exact h
  | giveUp i =>
    simp only [step] at hs; split at hs <;> try simp at hs
    obtain ⟨_, rfl⟩ := hs; exact h
  | drained i =>
    simp only [step] at hs; split at hs <;> try simp at hs
    obtain ⟨_, rfl⟩ := hs; exact h
  | leave i k v hr er =>
    simp only [step] at hs; split at hs <;> try simp at hs
    obtain ⟨_, rfl⟩ := hs; exact h
  | done i =>
    simp only [step] at hs; split at hs <;> try simp at hs
    obtain ⟨_, rfl⟩ := hs; exact h
  | store i =>
    simp only [step] at hs; split at hs <;> try simp at hs
    split at hs <;> try simp at hs
    obtain ⟨_, hs⟩ := hs
    split at hs
    · simp at hs; subst hs; exact thinv_tellAll _ h _
    · split at hs <;> simp at hs <;> subst hs <;> exact h
  | relRun j =>
    simp only [step] at hs; split at hs <;> try simp at hs
    split at hs <;> try simp at hs
    split at hs <;> simp at hs <;> obtain ⟨_, rfl⟩ := hs
    · exact thinv_startResolve _ h
    · exact h
  | setCtxCS a =>
    simp only [step] at hs; split at hs <;> try simp at hs
    rename_i c cl u ha
    have h1 : ∀ u', ThInv (s.th.set a (.ctx c cl .done u')) := fun u' =>
      thinv_set _ h a _ _ ha (by intro _ _ _ _ _ he; cases he) (by intro _ _ he; cases he)
        (by intro _ _ _ _ _ he; cases he)
    split at hs <;> simp at hs <;> obtain ⟨_, rfl⟩ := hs
    · exact h1 false
    · exact thinv_startResolve { s with ctx := c, th := s.th.set a (.ctx c cl .done true), owner := .thr a } (h1 true)
  | addRefCS a =>
    simp only [step] at hs; split at hs <;> try simp at hs
    rename_i k ha
    obtain ⟨_, hs⟩ := hs
    have h1 : ∀ t, ThInv (s.th.set a (.ref k .done true false false t)) := fun t =>
      thinv_set _ h a _ _ ha (by intro _ _ _ _ _ he; cases he) (by intro _ _ he; cases he)
        (by intro _ _ _ _ _ he; cases he)
    split at hs
    · simp at hs; subst hs
      exact thinv_startResolve { s with th := s.th.set a (.ref k .done true false false none), owner := .thr a } (h1 none)
    · split at hs <;> simp at hs <;> subst hs
      · simp only [List.set_set]; exact h1 s.cur
      · exact h1 none
  | relCS b =>
    simp only [step] at hs; split at hs <;> try simp at hs
    rename_i r hb
    split at hs <;> try simp at hs
    case h_2 =>
      obtain ⟨_, rfl⟩ := hs
      exact thinv_set _ h b _ _ hb (by intro _ _ _ _ _ he; cases he) (by intro _ _ he; cases he; exact ⟨_, rfl⟩)
        (by intro _ _ _ _ _ he; cases he)
    rename_i k pc flag self told hr
    obtain ⟨_, rfl⟩ := hs
    have hpc : pc = .retd := by
      obtain ⟨k0, l0, f0, sf0, t0, hr0⟩ := h.target b r _ hb
      rw [hr0] at hr; cases hr; rfl
    subst hpc
    have hne : r ≠ b := by intro e; subst e; rw [hb] at hr; cases hr
    have h1 := thinv_set _ h r _ (.ref k .retd false flag self told) hr (by intro _ _ _ _ _ he; cases he)
      (by intro _ _ he; cases he) (by intro _ _ _ _ _ he; cases he; exact ⟨_, _, _, _, rfl⟩)
    have hb' : (s.th.set r (.ref k .retd false flag self told))[b]? = some (.rel r .cs) := by
      rw [getElem?_set_ne' _ _ _ _ hne]; exact hb
    have h2 := thinv_set _ h1 b _ (.rel r .done) hb' (by intro _ _ _ _ _ he; cases he)
      (by intro _ _ he; cases he; exact ⟨_, rfl⟩) (by intro _ _ _ _ _ he; cases he)
    exact thinv_afterRemove { s with th := (s.th.set r (.ref k .retd false flag self told)).set b (.rel r .done), owner := .thr b } h2
  | selfRelCS a =>
    simp only [step] at hs; split at hs <;> try simp at hs
    rename_i pc flag told ha
    obtain ⟨_, rfl⟩ := hs
    have hpc : pc ≠ .inv := by
      intro e; subst e
      have := h.fresh a _ _ _ _ _ ha; simp at this
    have h1 := thinv_set _ h a _ (.ref .hook pc false flag false told) ha (noinv _ _ _ _ _ _ hpc)
      (by intro _ _ he; cases he) (by intro _ _ _ _ _ he; cases he; exact ⟨_, _, _, _, rfl⟩)
    exact thinv_afterRemove { s with th := s.th.set a (.ref .hook pc false flag false told), owner := .self a } h1

theorem reachable_thinv (es : List Ev) (s : St) (h : model.run model.init es = some s) : ThInv s.th :=
  model.run_invariant (fun s => ThInv s.th) (fun s e s' hi hs => step_thinv s s' e hi hs) _ _ es thinv_nil h


/-- **C09 (no deadlock, part 2) `api_not_stuck`.** In every reachable state, a pending `AddRef`,
`Release`, `SetContext` or `ClearContext` call is never stuck: while a critical section still owes
callback entries (`pend ≠ []`) the next entry is enabled, and once the mutex is free the call's own
next step (its critical section, its once-flag swap, or its return) is enabled. Together with
`quiescent_no_pending_api` (no such call is pending at a quiescent point): these calls always
complete, whatever the argument (nil callback included) — no deadlock in the model. -/
theorem api_not_stuck (es : List Ev) (s : St) (h : model.run model.init es = some s)
    (a : Nat) (t : TS) (ha : s.th[a]? = some t) (hp : t.pendingApi = true) :
    ∃ e s', step s e = some s' ∧
      ((∃ it, e = .cb it) ∨ e = .addRefCS a ∨ e = .retAddRef a ∨ e = .relSwap a ∨ e = .relCS a ∨
       e = .retRelease a ∨ e = .setCtxCS a ∨ ∃ u, e = .retSetCtx a u) := by
  have hi := reachable_inv es s h
  have ht := reachable_thinv es s h
  have fin : ∀ (e : Ev), (step s e).isSome = true →
      ((∃ it, e = .cb it) ∨ e = .addRefCS a ∨ e = .retAddRef a ∨ e = .relSwap a ∨ e = .relCS a ∨
       e = .retRelease a ∨ e = .setCtxCS a ∨ ∃ u, e = .retSetCtx a u) →
      ∃ e s', step s e = some s' ∧
        ((∃ it, e = .cb it) ∨ e = .addRefCS a ∨ e = .retAddRef a ∨ e = .relSwap a ∨ e = .relCS a ∨
         e = .retRelease a ∨ e = .setCtxCS a ∨ ∃ u, e = .retSetCtx a u) := by
    intro e he hc
    obtain ⟨s', hs'⟩ := Option.isSome_iff_exists.mp he
    exact ⟨e, s', hs', hc⟩
  cases hpe : s.pend with
  | cons b rest =>
    have hne := hi.core.pendNE b (by rw [hpe]; simp)
    cases hb : b with
    | nil => exact absurd hb hne
    | cons it its =>
      refine fin (.cb it) ?_ (Or.inl ⟨it, rfl⟩)
      simp [step, hpe, hb]
  | nil =>
    have hfree : s.free = true := by simp [St.free, hpe]
    have hun : ∀ o, unlockedFor s o = true := by intro o; simp [unlockedFor, hpe]
    cases t with
    | ref k pc live flag self told =>
      cases pc with
      | inv =>
        obtain ⟨rfl, rfl, rfl, rfl⟩ := ht.fresh a k live flag self told ha
        refine fin (.addRefCS a) ?_ (Or.inr (Or.inl rfl))
        simp only [step, ha, hfree, if_true]
        split
        · rfl
        · split <;> rfl
      | done =>
        have hk : k ≠ .hook := by intro e; subst e; simp [TS.pendingApi] at hp
        exact fin (.retAddRef a) (by simp [step, ha, hk, hun]) (Or.inr (Or.inr (Or.inl rfl)))
      | retd => cases k <;> simp [TS.pendingApi, TS.quiet] at hp
    | rel r pc =>
      obtain ⟨k, l, f, sf, tl, hr⟩ := ht.target a r pc ha
      cases pc with
      | inv =>
        refine fin (.relSwap a) ?_ (Or.inr (Or.inr (Or.inr (Or.inl rfl))))
        cases f <;> simp [step, ha, hr]
      | cs =>
        refine fin (.relCS a) ?_ (Or.inr (Or.inr (Or.inr (Or.inr (Or.inl rfl)))))
        cases l <;> simp [step, ha, hr, hfree]
      | done =>
        exact fin (.retRelease a) (by simp [step, ha, hun]) (Or.inr (Or.inr (Or.inr (Or.inr (Or.inr (Or.inl rfl))))))
      | retd => simp [TS.pendingApi, TS.quiet] at hp
    | ctx c cl pc u =>
      cases pc with
      | inv =>
        refine fin (.setCtxCS a) ?_ (Or.inr (Or.inr (Or.inr (Or.inr (Or.inr (Or.inr (Or.inl rfl)))))))
        by_cases hc : s.ctx = c <;> simp [step, ha, hfree, hc]
      | done =>
        refine fin (.retSetCtx a (if cl then none else some u)) ?_
          (Or.inr (Or.inr (Or.inr (Or.inr (Or.inr (Or.inr (Or.inr ⟨_, rfl⟩)))))))
        simp [step, ha, hun]
      | retd => simp [TS.pendingApi, TS.quiet] at hp

end UtilModel.RefCount
