import UtilModel.RefCount.Model
import UtilModel.Core.Bcast
import UtilModel.Core.Monitor
/-!
# refcount consumers — `Access`, `Wait`, `Resolve`, `ResolveWithReleased` composed with the RefCount model

A consumer call is a client of the *notification stream* of its own reference (a `hook` reference of
the base model, named by the id of the consumer call): the base model emits every callback entry of
that reference as the internal event `cb (refcb a false res v e)`; here that event additionally runs
the consumer's callback body (one `HoldLock` section on Access's private `Broadcast`, a
`PromiseContainer.SetPromise/SetResult`, or the `WaitWithReleased` closure — all executed while
`r.mtx` is held, so one atomic action).

`Access` (refcount.go:261-343), one event each: the snapshot section (290-296), the watcher's
`cbCancel()` (306-313, enabled while the snapshot's wait channel is closed), callback entry / return
(harness-controlled), the `ctx.Err()` check (322), the nonce re-check section (328-330), leaving the
final `select` (337-341), the deferred `ref.Release()` (swap, then `removeRef` section of the base
model), the return.

`Wait` / `Resolve` (184-192, 233-239): the reference callback replaces the content of a
`PromiseContainer`; `Await` returns a result that is present when it looks, or `Canceled`.
`AddRefPromise` (168-181) as a step of its own (`COp.promise`): the same reference callback and
`PromiseContainer`, but nobody awaits: the call stays pending (its reference is held), and the harness
reads the container without blocking right before every quiescence line (`probeProm`, enabled in a
quiescent state with exactly the model's content) — between the invalidation of a value and the
arrival of its replacement the container must be empty.
`ResolveWithReleased` (198-254): the closure of `WaitWithReleased` sets a plain promise on the first
result and, on the first later notification that is not "same generation, resolved", starts (once) a
goroutine that releases the reference and calls `released`. Since /repo 5e4f384 (repair of DESIGN §7
D15, the unsynchronised `ref` variable) that goroutine first waits until `WaitWithReleased` has
returned (`<-refSet`); the model lets its `Release` happen at any point after it was started — an
over-approximation (the code's goroutine merely starts a little later); the data race itself is a
memory-model matter and not modelled.
-/
namespace UtilModel.RefCount.Cons
open UtilModel UtilModel.RefCount

inductive COp where
  | access | wait | resolve | rwr (cb : Bool)
  | promise     -- `AddRefPromise` as a step of its own: the harness keeps the promise and reads it at quiescence points
deriving DecidableEq, Repr, Hashable

inductive CPc where
  | start
  | look
  | calling (v n ch : Nat)
  | incb (m v n ch : Nat)
  | afterCb (r n ch : Nat)
  | recheck (r n ch : Nat)
  | waiting (n ch : Nat)
  | awaiting
  | exitWait (v e : Nat)     -- result decided and `ref.Release()` called (once-flag swapped); waiting for its `removeRef` section (if it won the swap)
  | exitKeep (v e : Nat)     -- result decided; the reference is handed to the caller
  | returned
deriving DecidableEq, Repr, Hashable

inductive GoPc where
  | none | rel | relWait | done
deriving DecidableEq, Repr, Hashable

structure Con where
  op : COp
  pc : CPc := .start
  cancelled : Bool := false          -- caller context
  -- Access: the variables guarded by its private Broadcast
  cres : Bool := false
  cv : Nat := 0
  ce : Nat := 0
  cnonce : Nat := 0
  bc : Bcast := {}
  wcancel : Bool := false            -- the watcher has cancelled the callback context
  ncb : Nat := 0                     -- callback entries so far
  -- Wait / Resolve: content of the PromiseContainer; ResolveWithReleased: content of the promise
  prom : Option (Nat × Nat) := none
  wres : Bool := false               -- WaitWithReleased: currResolved
  wnonce : Nat := 0                  -- WaitWithReleased: currNonce
  go : GoPc := .none                 -- WaitWithReleased: the once-only release goroutine
  mainOwns : Bool := false           -- the call's own `ref.Release()` won the once-flag: it runs `removeRef`
  goOwns : Bool := false             -- the release goroutine's `ref.Release()` won the once-flag
deriving DecidableEq, Repr, Hashable

structure CSt where
  b : St := {}
  ct : List (Option Con) := []
deriving DecidableEq, Repr, Hashable

inductive CObs where
  | base (o : Obs)
  | inv (a : Nat) (op : COp)
  | cbin (a m v : Nat)
  | cbout (a m r : Nat)
  | ret (a v e : Nat)
  | cancelCall (a : Nat)
  | cbinReleased (a : Nat)
  | probeCtx (a m : Nat) (c : Bool)
  | probeProm (a : Nat) (has : Bool) (v e : Nat)
deriving DecidableEq, Repr, Hashable

inductive CEv where
  | base (e : Ev)
  | inv (a : Nat) (op : COp)
  | snap (a : Nat)
  | watch (a : Nat)
  | cbin (a m v : Nat)
  | cbout (a m r : Nat)
  | check (a : Nat)
  | recheck (a : Nat)
  | waitCancel (a : Nat)
  | await (a : Nat)
  | awaitCancel (a : Nat)
  | ret (a v e : Nat)
  | envCancelCall (a : Nat)
  | goRel (a : Nat)
  | goCb (a : Nat)
  | probeCtx (a m : Nat) (c : Bool)
  | probeProm (a : Nat) (has : Bool) (v e : Nat)
  | probe (v e : Nat)
  | quiesce (B : List Nat)
deriving DecidableEq, Repr, Hashable

def CEv.obs : CEv → Option CObs
  | .base e => (Ev.obs e).map .base
  | .inv a op => some (.inv a op)
  | .cbin a m v => some (.cbin a m v)
  | .cbout a m r => some (.cbout a m r)
  | .ret a v e => some (.ret a v e)
  | .envCancelCall a => some (.cancelCall a)
  | .goCb a => some (.cbinReleased a)
  | .probeCtx a m c => some (.probeCtx a m c)
  | .probeProm a h v e => some (.probeProm a h v e)
  | .probe v e => some (.base (.probe v e))
  | .quiesce B => some (.base (.quiesce B))
  | _ => none

def getCon (s : CSt) (a : Nat) : Option Con := (s.ct[a]?).join

def setCon (s : CSt) (a : Nat) (c : Con) : CSt := { s with ct := s.ct.set a (some c) }

/-- the reference callback of consumer `c`, called with `(res, v, e)` while `r.mtx` is held and
`r.nonce = nonce` -/
def hook (c : Con) (nonce : Nat) (res : Bool) (v e : Nat) : Con :=
  match c.op with
  | .access =>
    -- 270-278
    if res ≠ c.cres ∨ v ≠ c.cv ∨ e ≠ c.ce then
      { c with cres := res, cv := v, ce := e, cnonce := c.cnonce + 1, bc := c.bc.broadcast }
    else c
  | .wait | .resolve | .promise =>
    -- 171-177
    { c with prom := if res then some (v, e) else none }
  | .rwr _ =>
    -- 205-226
    if c.wres then
      if !res ∨ nonce ≠ c.wnonce then
        if c.go = .none then { c with go := .rel } else c
      else c
    else if res ∨ e ≠ 0 then { c with wres := true, wnonce := nonce, prom := some (v, e) }
    else c

/-- Access is at the top of its loop, or parked in the final `select` on a closed wait channel -/
def canLook (c : Con) : Bool :=
  match c.pc with
  | .look => true
  | .waiting _ ch => c.bc.closed ch
  | _ => false

/-- the result is decided and the consumer calls `ref.Release()`: the swap of the once-flag happens
here (the deferred / error-path `Release` follows the deciding action without any shared access in
between); the `removeRef` section, if this call won the swap, is the base event `selfRelCS`. -/
def flagOf (s : St) (a : Nat) : Bool :=
  match s.th[a]? with
  | some (.ref _ _ _ flag _ _) => flag
  | _ => false

def exitRel (s : CSt) (a : Nat) (c : Con) (v e : Nat) : Option CSt :=
  match step s.b (.selfRelSwap a) with
  | some b' => some (setCon { s with b := b' } a { c with pc := .exitWait v e, mainOwns := !flagOf s.b a })
  | none => none

/-- does the base event append a thread entry (so the consumer table stays aligned)? -/
def appendsThread : Ev → Bool
  | .invAddRef _ _ | .invRelease _ _ | .invSetCtx _ _ _ => true
  | _ => false

def selfPending (s : St) (a : Nat) : Bool :=
  match s.th[a]? with
  | some (.ref _ _ _ _ self _) => self
  | _ => false

def Con.quiet (c : Con) : Bool :=
  (match c.pc with
   | .incb _ _ _ ch => !(c.bc.closed ch && !c.wcancel)
   | .waiting _ ch => !c.bc.closed ch && !c.cancelled
   | .awaiting => c.op == .promise || (c.prom.isNone && !c.cancelled)
   | .returned => true
   | _ => false) &&
  (c.go == .none || c.go == .done)

def cquiescent (s : CSt) : Bool :=
  quiescent s.b && s.ct.all fun oc => match oc with
    | some c => c.quiet
    | none => true

def cpendingIds (s : CSt) : List Nat :=
  (List.range s.b.th.length).filter fun a =>
    (match s.b.th[a]? with
     | some t => t.pendingApi
     | none => false) ||
    (match getCon s a with
     | some c => c.pc != .returned
     | none => false)

def cstep (s : CSt) : CEv → Option CSt
  | .base e =>
    match e with
    | .invHook _ | .selfRelSwap _ | .probe _ _ | .quiesce _ => none
    | .addRefCS a =>
      match step s.b e with
      | some b' =>
        match getCon s a with
        | some c =>
          if c.pc = .start then
            some (setCon { s with b := b' } a { c with pc := if c.op = .access then .look else .awaiting })
          else none
        | none => some { s with b := b' }
      | none => none
    | .cb (.refcb a false res v er) =>
      match step s.b e with
      | some b' =>
        match getCon s a with
        | some c => some (setCon { s with b := b' } a (hook c s.b.nonce res v er))
        | none => some { s with b := b' }
      | none => none
    | e =>
      match step s.b e with
      | some b' => some { s with b := b', ct := if appendsThread e then s.ct ++ [none] else s.ct }
      | none => none
  | .inv a op =>
    match step s.b (.invHook a) with
    | some b' => some { b := b', ct := s.ct ++ [some { op := op }] }
    | none => none
  | .snap a =>
    match getCon s a with
    | some c =>
      -- at the top of the loop, or leaving the final `select` through the closed wait channel (340)
      if canLook c ∧ unlockedFor s.b (.thr a) then
        -- 290-296: one HoldLock section of the private Broadcast
        let n := c.cnonce + 1
        let g := c.bc.getWaitCh
        let c1 : Con := { c with cnonce := n, bc := g.1, wcancel := false }
        if c.ce ≠ 0 then exitRel s a c1 0 c.ce
        else if c.cres then some (setCon s a { c1 with pc := .calling c.cv n g.2 })
        else some (setCon s a { c1 with pc := .waiting n g.2 })
      else none
    | none => none
  | .watch a =>
    match getCon s a with
    | some c =>
      match c.pc with
      | .calling _ _ ch | .incb _ _ _ ch =>
        if c.bc.closed ch ∧ !c.wcancel then some (setCon s a { c with wcancel := true }) else none
      | _ => none
    | none => none
  | .cbin a m v =>
    match getCon s a with
    | some c =>
      match c.pc with
      | .calling v' n ch =>
        if v = v' ∧ m = c.ncb then some (setCon s a { c with pc := .incb m v n ch, ncb := c.ncb + 1 }) else none
      | _ => none
    | none => none
  | .cbout a m r =>
    match getCon s a with
    | some c =>
      match c.pc with
      | .incb m' _ n ch => if m = m' then some (setCon s a { c with pc := .afterCb r n ch, wcancel := false }) else none
      | _ => none
    | none => none
  | .check a =>
    match getCon s a with
    | some c =>
      match c.pc with
      | .afterCb r n ch =>
        if c.cancelled then exitRel s a c 0 9
        else some (setCon s a { c with pc := .recheck r n ch })
      | _ => none
    | none => none
  | .recheck a =>
    match getCon s a with
    | some c =>
      match c.pc with
      | .recheck r n ch =>
        if c.cnonce = n then exitRel s a c 0 r
        else some (setCon s a { c with pc := .waiting n ch })
      | _ => none
    | none => none
  | .waitCancel a =>
    match getCon s a with
    | some c =>
      match c.pc with
      | .waiting _ _ => if c.cancelled then exitRel s a c 0 9 else none
      | _ => none
    | none => none
  | .await a =>
    match getCon s a with
    | some c =>
      if c.pc = .awaiting ∧ c.op ≠ .promise ∧ unlockedFor s.b (.thr a) then
        match c.prom with
        | some (v, e) =>
          if e ≠ 0 then exitRel s a c v e
          else some (setCon s a { c with pc := .exitKeep v 0 })
        | none => none
      else none
    | none => none
  | .awaitCancel a =>
    match getCon s a with
    | some c =>
      if c.pc = .awaiting ∧ c.op ≠ .promise ∧ c.cancelled then exitRel s a c 0 9 else none
    | none => none
  | .ret a v e =>
    match getCon s a with
    | some c =>
      match c.pc with
      | .exitWait v' e' =>
        -- `Release()` returns at once when it lost the swap, else after its own `removeRef` section
        if v = v' ∧ e = e' ∧ (!c.mainOwns || (!selfPending s.b a && unlockedFor s.b (.self a))) then
          some (setCon s a { c with pc := .returned })
        else none
      | .exitKeep v' e' =>
        if v = v' ∧ e = e' then
          match s.b.th[a]? with
          | some (.ref k _ live flag self told) =>
            some (setCon { s with b := { s.b with th := s.b.th.set a (.ref k .retd live flag self told) } } a
              { c with pc := .returned })
          | _ => none
        else none
      | _ => none
    | none => none
  | .envCancelCall a =>
    match getCon s a with
    | some c => some (setCon s a { c with cancelled := true })
    | none => none
  | .goRel a =>
    match getCon s a with
    | some c =>
      if c.go = .rel then
        match step s.b (.selfRelSwap a) with
        | some b' => some (setCon { s with b := b' } a
            { c with go := if c.op = .rwr true then .relWait else .done, goOwns := !flagOf s.b a })
        | none => none
      else none
    | none => none
  | .goCb a =>
    match getCon s a with
    | some c =>
      if c.go = .relWait ∧ (!c.goOwns || (!selfPending s.b a && unlockedFor s.b (.self a))) then
        some (setCon s a { c with go := .done })
      else none
    | none => none
  | .probeCtx a m cc =>
    match getCon s a with
    | some c =>
      match c.pc with
      | .incb m' _ _ _ => if m = m' ∧ cc = (c.wcancel || c.cancelled) ∧ cquiescent s then some s else none
      | _ => none
    | none => none
  | .probeProm a has v e =>
    -- the harness reads the promise container of an `AddRefPromise` step (non-blocking) right before
    -- it logs a quiescence point
    match getCon s a with
    | some c =>
      if c.op = .promise ∧ c.pc = .awaiting ∧ c.prom = (if has then some (v, e) else none) ∧ cquiescent s then some s
      else none
    | none => none
  | .probe v e => if cquiescent s ∧ v = s.b.target ∧ e = s.b.targetErr then some s else none
  | .quiesce B => if cquiescent s ∧ B = cpendingIds s then some s else none

/-- every internal event that can be enabled in `s` (`complete_refcount_consumers` in Transfer.lean):
the internal events of the base model (callback entries of hook references included, in any order —
the RefCount iterates over a map) and the local steps of every consumer call. No partial-order
reduction: a REJECT is a statement about the model as it is. -/
def callInternal (s : CSt) : List CEv :=
  ((allInternal s.b).map .base) ++
  ((List.range s.ct.length).flatMap fun a =>
    [.snap a, .watch a, .check a, .recheck a, .waitCancel a, .await a, .awaitCancel a, .goRel a])

def ccands (s : CSt) : List CEv := callInternal s

def cevsOf (s : CSt) : CObs → List CEv
  | .base (.probe v e) => [.probe v e]
  | .base (.quiesce B) => [.quiesce B]
  | .base o => (evsOf s.b o).map .base
  | .inv a op => [.inv a op]
  | .cbin a m v => [.cbin a m v]
  | .cbout a m r => [.cbout a m r]
  | .ret a v e => [.ret a v e]
  | .cancelCall a => [.envCancelCall a]
  | .cbinReleased a => [.goCb a]
  | .probeCtx a m c => [.probeCtx a m c]
  | .probeProm a h v e => [.probeProm a h v e]

def cmodel : OLTS CSt CEv CObs where
  init := {}
  step := cstep
  obs := CEv.obs
  cands := ccands
  evsOf := cevsOf

def parseOp : List String → Option COp
  | ["access"] => some .access
  | ["wait"] => some .wait
  | ["resolve"] => some .resolve
  | ["rwr", "1"] => some (.rwr true)
  | ["rwr", "0"] => some (.rwr false)
  | ["promise"] => some .promise
  | _ => none

def CObs.parse : List String → Option CObs
  | ["inv", a, "access"] => do pure (.inv (← a.toNat?) .access)
  | ["inv", a, "wait"] => do pure (.inv (← a.toNat?) .wait)
  | ["inv", a, "resolve"] => do pure (.inv (← a.toNat?) .resolve)
  | ["inv", a, "rwr", c] => do pure (.inv (← a.toNat?) (.rwr (← parseBit c)))
  | ["inv", a, "promise"] => do pure (.inv (← a.toNat?) .promise)
  | ["cbin", "access", a, m, v] => do pure (.cbin (← a.toNat?) (← m.toNat?) (← v.toNat?))
  | ["cbout", "access", a, m, r] => do pure (.cbout (← a.toNat?) (← m.toNat?) (← r.toNat?))
  | ["ret", a, "cons", v, e] => do pure (.ret (← a.toNat?) (← v.toNat?) (← e.toNat?))
  | ["env", "cancelcall", a] => do pure (.cancelCall (← a.toNat?))
  | ["cbin", "released", a] => do pure (.cbinReleased (← a.toNat?))
  | ["probe", "accessctx", a, m, c] => do pure (.probeCtx (← a.toNat?) (← m.toNat?) (← parseBit c))
  | ["probe", "promise", a, h, v, e] => do pure (.probeProm (← a.toNat?) (← parseBit h) (← v.toNat?) (← e.toNat?))
  | l => (Obs.parse l).map .base

end UtilModel.RefCount.Cons
