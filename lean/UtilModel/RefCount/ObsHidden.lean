import UtilModel.RefCount.ObsHeld
/-!
# refcount: C08 "released only after hidden" in observable form — every trace of the model is
accepted by `monHidden`
-/
set_option linter.unusedSimpArgs false
set_option linter.unusedVariables false
namespace UtilModel.RefCount
open UtilModel

/-! ## values name their entry -/

def ValOk (s : St) : Prop :=
  ∀ (i : Nat) (c : Call) (v : Nat) (h : Bool) (e k : Nat), s.calls[i]? = some c → c.res = some (v, h, e) →
    c.inv = some k → v = 0 ∨ v = k + 1

theorem valOk_step (s s' : St) (e : Ev) (hi : Inv s) (hx : Idx s) (hv : ValOk s) (hs : step s e = some s') :
    ValOk s' := by
  obtain ⟨f1, _, _⟩ := calls_frame s s' e hs
  intro i c' v h er k hc' hr hk
  rcases f1 i c' hc' with ⟨c, hc, ⟨a1, a2, _⟩⟩ | ⟨_, _, h0, _⟩
  · rcases a2 with a2 | ⟨hrun, k0, v0, h0, e0, he, hk0, hres, hval⟩
    · have hcr : c.res.isSome := by rw [← a2, hr]; rfl
      have hinv : c'.inv = c.inv := by
        rcases a1 with a1 | ⟨hw, _, _⟩
        · exact a1
        · rcases hi.core.resSt i c hc hcr with h1 | h1 <;> (rw [hw] at h1; cases h1)
      exact hv i c v h er k hc (by rw [← a2]; exact hr) (by rw [← hinv]; exact hk)
    · have hinv : c'.inv = c.inv := by
        rcases a1 with a1 | ⟨hw, _, _⟩
        · exact a1
        · rw [hrun] at hw; cases hw
      rw [hr] at hres; simp at hres; obtain ⟨rfl, rfl, rfl⟩ := hres
      rw [hinv, hk0] at hk; cases hk
      exact hval
  · rw [h0] at hr; cases hr

/-! ## shape of `pend`: a release call is the last thing a critical section does -/

def CbItem.isRelItem : CbItem → Bool
  | .rel _ _ _ => true
  | _ => false

/-- only the last batch may contain release calls, and then it contains nothing else -/
def RelLast : List (List CbItem) → Prop
  | [] => True
  | [b] => (∃ x ∈ b, x.isRelItem = true) → ∀ x ∈ b, x.isRelItem = true
  | b :: b2 :: rest => (∀ x ∈ b, x.isRelItem = false) ∧ RelLast (b2 :: rest)

theorem relLast_tail (b : List CbItem) (rest : List (List CbItem)) (h : RelLast (b :: rest)) : RelLast rest := by
  cases rest with
  | nil => trivial
  | cons b2 r => exact h.2

theorem relLast_erase (b : List CbItem) (rest : List (List CbItem)) (it : CbItem) (h : RelLast (b :: rest)) :
    RelLast (b.erase it :: rest) := by
  cases rest with
  | nil =>
    intro ⟨x, hx, hxr⟩ y hy
    exact h ⟨x, List.mem_of_mem_erase hx, hxr⟩ y (List.mem_of_mem_erase hy)
  | cons b2 r => exact ⟨fun x hx => h.1 x (List.mem_of_mem_erase hx), h.2⟩

/-- if the head batch contains a release call, nothing else is owed -/
theorem relLast_head (b : List CbItem) (rest : List (List CbItem)) (h : RelLast (b :: rest)) (x : CbItem)
    (hx : x ∈ b) (hxr : x.isRelItem = true) : rest = [] ∧ ∀ y ∈ b, y.isRelItem = true := by
  cases rest with
  | nil => exact ⟨rfl, h ⟨x, hx, hxr⟩⟩
  | cons b2 r => have := h.1 x hx; rw [hxr] at this; cases this

theorem cbItems_noRelItem (th : List TS) (res : Bool) (v e : Nat) : ∀ x ∈ cbItems th res v e, x.isRelItem = false := by
  intro x hx
  obtain ⟨a, k, pc, f, sf, t, _, _, rfl⟩ := mem_cbItems th res v e x hx
  rfl

/-- the callbacks of one critical section: an optional batch without release calls, then an optional
batch of release calls -/
theorem relLast_two (X Y : List CbItem) (hX : ∀ x ∈ X, x.isRelItem = false) (hY : ∀ y ∈ Y, y.isRelItem = true) :
    RelLast (addBatch (addBatch [] X) Y) := by
  unfold addBatch
  by_cases h1 : X.isEmpty <;> by_cases h2 : Y.isEmpty <;> simp [h1, h2, RelLast]
  · intro _ _ _; exact hY
  · intro _ _ _ y hy; have := hX y hy; simp_all
  · exact ⟨hX, fun _ _ _ => hY⟩


/-- outside critical sections `pend` only shrinks, by the callback entry that is being made -/
theorem pend_nonlock (s s' : St) (e : Ev) (hs : step s e = some s') (hl : isLock e = false) :
    s'.pend = s.pend ∨ ∃ it b rest, e = .cb it ∧ s.pend = b :: rest ∧ it ∈ b ∧
      s'.pend = (if (b.erase it).isEmpty then rest else b.erase it :: rest) := by
  cases e <;> simp [isLock] at hl
  case cfg kp c t => simp only [step] at hs; split at hs <;> simp at hs; subst hs; exact Or.inl rfl
  case invAddRef a kd => simp only [step] at hs; split at hs <;> simp at hs; subst hs; exact Or.inl rfl
  case invHook a => simp only [step] at hs; split at hs <;> simp at hs; subst hs; exact Or.inl rfl
  case retAddRef a =>
    simp only [step] at hs; split at hs <;> try simp at hs
    obtain ⟨_, rfl⟩ := hs; exact Or.inl rfl
  case invRelease b r =>
    simp only [step] at hs; split at hs <;> try simp at hs
    split at hs <;> try simp at hs
    subst hs; exact Or.inl rfl
  case relSwap b =>
    simp only [step] at hs; split at hs <;> try simp at hs
    split at hs <;> simp at hs <;> subst hs <;> exact Or.inl rfl
  case retRelease b =>
    simp only [step] at hs; split at hs <;> try simp at hs
    obtain ⟨_, rfl⟩ := hs; exact Or.inl rfl
  case selfRelSwap a =>
    simp only [step] at hs; split at hs <;> try simp at hs
    obtain ⟨_, hs⟩ := hs
    split at hs <;> simp at hs <;> subst hs <;> exact Or.inl rfl
  case invSetCtx a c cl => simp only [step] at hs; split at hs <;> simp at hs; subst hs; exact Or.inl rfl
  case retSetCtx a u =>
    simp only [step] at hs; split at hs <;> try simp at hs
    obtain ⟨_, rfl⟩ := hs; exact Or.inl rfl
  case envCancelCtx c => simp only [step] at hs; split at hs <;> simp at hs; subst hs; exact Or.inl rfl
  case envReleased k => simp only [step] at hs; split at hs <;> simp at hs; subst hs; exact Or.inl rfl
  case quiesce B => simp only [step] at hs; split at hs <;> simp at hs; subst hs; exact Or.inl rfl
  case probe v er => simp only [step] at hs; split at hs <;> simp at hs; subst hs; exact Or.inl rfl
  case enter j k =>
    simp only [step] at hs; split at hs <;> try simp at hs
    obtain ⟨_, rfl⟩ := hs; exact Or.inl rfl
  case giveUp j =>
    simp only [step] at hs; split at hs <;> try simp at hs
    obtain ⟨_, rfl⟩ := hs; exact Or.inl rfl
  case drained j =>
    simp only [step] at hs; split at hs <;> try simp at hs
    obtain ⟨_, rfl⟩ := hs; exact Or.inl rfl
  case leave j k v hr er =>
    simp only [step] at hs; split at hs <;> try simp at hs
    obtain ⟨_, rfl⟩ := hs; exact Or.inl rfl
  case done j =>
    simp only [step] at hs; split at hs <;> try simp at hs
    obtain ⟨_, rfl⟩ := hs; exact Or.inl rfl
  case cb it =>
    simp only [step] at hs
    cases hp : s.pend with
    | nil => simp [hp] at hs
    | cons b rest =>
      simp only [hp] at hs
      split at hs
      · rename_i hmem
        injection hs with hs
        subst hs
        exact Or.inr ⟨it, b, rest, rfl, rfl, hmem, rfl⟩
      · cases hs

theorem relLast_shutdown (s0 : St) (h : s0.pend = []) : RelLast (shutdown s0).pend := by
  rw [shutdown_pend, h]
  have : (if s0.resolved = true then addBatch [] (cbItems s0.th false 0 0) else ([] : List (List CbItem)))
      = addBatch [] (if s0.resolved = true then cbItems s0.th false 0 0 else []) := by
    split <;> simp [addBatch]
  rw [this]
  apply relLast_two
  · intro x hx; split at hx
    · exact cbItems_noRelItem _ _ _ _ x hx
    · cases hx
  · intro y hy
    cases hr : s0.rel with
    | none => simp [hr] at hy
    | some j => simp [hr] at hy; subst hy; rfl

theorem relLast_step (s s' : St) (e : Ev) (h : RelLast s.pend) (hs : step s e = some s') : RelLast s'.pend := by
  by_cases hl : isLock e = false
  · rcases pend_nonlock s s' e hs hl with h1 | ⟨it, b, rest, _, hp, _, h1⟩
    · rw [h1]; exact h
    · rw [h1]; rw [hp] at h
      split
      · exact relLast_tail b rest h
      · exact relLast_erase b rest it h
  · have hl : isLock e = true := by simpa using hl
    have hfree := lock_free s s' e hs hl
    have start : ∀ s0 : St, s0.pend = [] → RelLast (startResolve s0).pend := by
      intro s0 h0; rw [(startResolve_fields s0).1]; exact relLast_shutdown s0 h0
    have after : ∀ s0 : St, s0.pend = [] → RelLast (afterRemove s0).pend := by
      intro s0 h0; unfold afterRemove
      split
      · split
        · exact relLast_shutdown s0 h0
        · rw [h0]; trivial
      · rw [h0]; trivial
    cases e with
    | addRefCS a =>
      simp only [step] at hs; split at hs <;> try simp at hs
      rename_i k ha
      obtain ⟨_, hs⟩ := hs
      split at hs
      · simp at hs; subst hs; exact start _ hfree
      · split at hs <;> simp at hs <;> subst hs
        · show RelLast (addBatch s.pend [CbItem.refcb a (k == CbKind.rcd) true s.value s.verr])
          rw [hfree]
          have := relLast_two [CbItem.refcb a (k == CbKind.rcd) true s.value s.verr] [] (by intro x hx; simp at hx; subst hx; rfl) (by intro y hy; cases hy)
          simpa [addBatch] using this
        · show RelLast s.pend
          rw [hfree]; trivial
    | relCS b =>
      simp only [step] at hs; split at hs <;> try simp at hs
      split at hs <;> try simp at hs
      case h_2 => obtain ⟨_, rfl⟩ := hs; show RelLast s.pend; rw [hfree]; trivial
      obtain ⟨_, rfl⟩ := hs; exact after _ hfree
    | selfRelCS a =>
      simp only [step] at hs; split at hs <;> try simp at hs
      obtain ⟨_, rfl⟩ := hs; exact after _ hfree
    | setCtxCS a =>
      simp only [step] at hs; split at hs <;> try simp at hs
      split at hs <;> simp at hs <;> obtain ⟨_, rfl⟩ := hs
      · show RelLast s.pend; rw [hfree]; trivial
      · exact start _ hfree
    | relRun r =>
      simp only [step] at hs; split at hs <;> try simp at hs
      split at hs <;> try simp at hs
      split at hs <;> simp at hs <;> obtain ⟨_, rfl⟩ := hs
      · exact start _ hfree
      · show RelLast s.pend; rw [hfree]; trivial
    | store i =>
      simp only [step] at hs; split at hs <;> try simp at hs
      rename_i c hc
      split at hs <;> try simp at hs
      rename_i val hasRel err hres
      obtain ⟨_, hs⟩ := hs
      split at hs
      · simp at hs; subst hs
        show RelLast (addBatch s.pend (cbItems s.th true val err))
        rw [hfree]
        have := relLast_two (cbItems s.th true val err) [] (cbItems_noRelItem _ _ _ _) (by intro y hy; cases hy)
        simpa [addBatch] using this
      · split at hs <;> simp at hs <;> subst hs
        · show RelLast (addBatch s.pend [CbItem.rel i (c.inv.getD 0) s.target])
          rw [hfree]
          have := relLast_two [] [CbItem.rel i (c.inv.getD 0) s.target] (by intro x hx; cases hx) (by intro y hy; simp at hy; subst hy; rfl)
          simpa [addBatch] using this
        · show RelLast s.pend; rw [hfree]; trivial
    | _ => simp [isLock] at hl


/-! ## when the stored value is dropped, every live reference with a callback is owed a "gone" -/

theorem mem_flatten_addBatch_left (p : List (List CbItem)) (b : List CbItem) (x : CbItem)
    (h : x ∈ p.flatten) : x ∈ (addBatch p b).flatten := by
  unfold addBatch; split
  · exact h
  · simp only [List.flatten_append, List.mem_append]; exact Or.inl h

theorem mem_flatten_addBatch_right (p : List (List CbItem)) (b : List CbItem) (x : CbItem)
    (h : x ∈ b) : x ∈ (addBatch p b).flatten := by
  unfold addBatch; split
  · rename_i he; simp at he; rw [he] at h; cases h
  · simp only [List.flatten_append, List.mem_append]; right; simpa using h

theorem gone_in_shutdown (s0 : St) (hres : s0.resolved = true) (r : Nat) (k : CbKind) (pc : Pc)
    (f sf : Bool) (t : Option Nat) (hth : (shutdown s0).th[r]? = some (.ref k pc true f sf t)) (hk : k ≠ .nil) :
    CbItem.refcb r (k == .rcd) false 0 0 ∈ (shutdown s0).pend.flatten := by
  rw [shutdown_th, hres] at hth
  simp only [if_true] at hth
  have hm := mem_cbItems_of_tellAll s0.th none r k pc f sf t false 0 0 hth hk
  rw [shutdown_pend, hres]
  simp only [if_true]
  exact mem_flatten_addBatch_left _ _ _ (mem_flatten_addBatch_right _ _ _ hm)

theorem gone_items (s s' : St) (e : Ev) (hi : Inv s) (hs : step s e = some s') (i : Nat)
    (hcur : s.cur = some i) (hcur' : s'.cur = none) (r : Nat) (k : CbKind) (pc : Pc) (f sf : Bool)
    (t : Option Nat) (hth : s'.th[r]? = some (.ref k pc true f sf t)) (hk : k ≠ .nil) :
    CbItem.refcb r (k == .rcd) false 0 0 ∈ s'.pend.flatten := by
  have hres : s.resolved = true := by rw [hi.core.resCur, hcur]; rfl
  have hl : isLock e = true := by
    cases hl : isLock e
    · have := (nonlock_frame s s' e hs hl).2.1; rw [hcur, hcur'] at this; cases this
    · rfl
  have shut : ∀ s0 : St, s0.resolved = true → (shutdown s0).th[r]? = some (.ref k pc true f sf t) →
      CbItem.refcb r (k == .rcd) false 0 0 ∈ (shutdown s0).pend.flatten :=
    fun s0 h0 h1 => gone_in_shutdown s0 h0 r k pc f sf t h1 hk
  have start : ∀ s0 : St, s0.resolved = true → (startResolve s0).th[r]? = some (.ref k pc true f sf t) →
      CbItem.refcb r (k == .rcd) false 0 0 ∈ (startResolve s0).pend.flatten := by
    intro s0 h0 h1
    rw [(startResolve_fields s0).1]; rw [startResolve_th] at h1; exact shut s0 h0 h1
  have after : ∀ s0 : St, s0.resolved = true → s0.cur = some i → (afterRemove s0).cur = none →
      (afterRemove s0).th[r]? = some (.ref k pc true f sf t) →
      CbItem.refcb r (k == .rcd) false 0 0 ∈ (afterRemove s0).pend.flatten := by
    intro s0 h0 hc0 hc1 h1
    unfold afterRemove at hc1 h1 ⊢
    split
    · split
      · rename_i g1 g2; rw [if_pos g1, if_pos g2] at h1; exact shut s0 h0 h1
      · rename_i g1 g2; rw [if_pos g1, if_neg g2] at hc1; rw [hc0] at hc1; cases hc1
    · rename_i g1; rw [if_neg g1] at hc1; rw [hc0] at hc1; cases hc1
  cases e with
  | addRefCS a =>
    simp only [step] at hs; split at hs <;> try simp at hs
    obtain ⟨_, hs⟩ := hs
    split at hs
    · simp at hs; subst hs; exact start _ hres hth
    · split at hs <;> simp at hs <;> subst hs
      · simp at hcur'; rw [hcur] at hcur'; cases hcur'
      · simp at hcur'; rw [hcur] at hcur'; cases hcur'
  | relCS b =>
    simp only [step] at hs; split at hs <;> try simp at hs
    split at hs <;> try simp at hs
    case h_2 => obtain ⟨_, rfl⟩ := hs; simp at hcur'; rw [hcur] at hcur'; cases hcur'
    obtain ⟨_, rfl⟩ := hs; exact after _ hres hcur hcur' hth
  | selfRelCS a =>
    simp only [step] at hs; split at hs <;> try simp at hs
    obtain ⟨_, rfl⟩ := hs; exact after _ hres hcur hcur' hth
  | setCtxCS a =>
    simp only [step] at hs; split at hs <;> try simp at hs
    split at hs <;> simp at hs <;> obtain ⟨_, rfl⟩ := hs
    · simp at hcur'; rw [hcur] at hcur'; cases hcur'
    · exact start _ hres hth
  | relRun j =>
    simp only [step] at hs; split at hs <;> try simp at hs
    split at hs <;> try simp at hs
    split at hs <;> simp at hs <;> obtain ⟨_, rfl⟩ := hs
    · exact start _ hres hth
    · simp at hcur'; rw [hcur] at hcur'; cases hcur'
  | store j =>
    simp only [step] at hs; split at hs <;> try simp at hs
    split at hs <;> try simp at hs
    obtain ⟨_, hs⟩ := hs
    split at hs
    · simp at hs; subst hs; simp [setCall] at hcur'
    · split at hs <;> simp at hs <;> subst hs <;> (simp [setCall] at hcur'; rw [hcur] at hcur'; cases hcur')
  | _ => simp [isLock] at hl


/-! ## an entry whose `released()` was called is superseded once its section has run -/

theorem startResolve_nonce (s0 : St) : (startResolve s0).nonce = s0.nonce + 1 := by
  rw [startResolve_eq]; split <;> simp [spawned]

theorem afterRemove_nonce_le (s0 : St) : s0.nonce ≤ (afterRemove s0).nonce := by
  unfold afterRemove; split
  · split
    · simp
    · exact Nat.le_refl _
  · exact Nat.le_refl _

theorem afterRemove_nonce_le' (s0 : St) (n : Nat) (h : s0.nonce = n) : n ≤ (afterRemove s0).nonce := by
  rw [← h]; exact afterRemove_nonce_le s0

theorem afterRemove_relRuns (s0 : St) : (afterRemove s0).relRuns = s0.relRuns := by
  unfold afterRemove; split
  · split
    · simp
    · rfl
  · rfl

theorem startResolve_relRuns (s0 : St) : (startResolve s0).relRuns = s0.relRuns := by
  rw [startResolve_eq]; split <;> simp [spawned]

/-- the generation only grows; pending `released()` sections stay pending until they run -/
theorem runs_nonce_frame (s s' : St) (e : Ev) (hs : step s e = some s') :
    s.nonce ≤ s'.nonce ∧ ((∀ j, e ≠ .relRun j) → ∀ i ∈ s.relRuns, i ∈ s'.relRuns) := by
  cases e with
  | relRun r =>
    simp only [step] at hs; split at hs <;> try simp at hs
    split at hs <;> try simp at hs
    split at hs <;> simp at hs <;> obtain ⟨_, rfl⟩ := hs
    · exact ⟨by rw [startResolve_nonce]; simp, fun h => absurd rfl (h r)⟩
    · exact ⟨Nat.le_refl _, fun h => absurd rfl (h r)⟩
  | envReleased k =>
    simp only [step] at hs; split at hs <;> simp at hs; subst hs
    exact ⟨Nat.le_refl _, fun _ i hi => by simp [hi]⟩
  | cfg kp c t => simp only [step] at hs; split at hs <;> simp at hs; subst hs; exact ⟨Nat.le_refl _, fun _ _ h => h⟩
  | invAddRef a kd => simp only [step] at hs; split at hs <;> simp at hs; subst hs; exact ⟨Nat.le_refl _, fun _ _ h => h⟩
  | invHook a => simp only [step] at hs; split at hs <;> simp at hs; subst hs; exact ⟨Nat.le_refl _, fun _ _ h => h⟩
  | retAddRef a =>
    simp only [step] at hs; split at hs <;> try simp at hs
    obtain ⟨_, rfl⟩ := hs; exact ⟨Nat.le_refl _, fun _ _ h => h⟩
  | invRelease b r =>
    simp only [step] at hs; split at hs <;> try simp at hs
    split at hs <;> try simp at hs
    subst hs; exact ⟨Nat.le_refl _, fun _ _ h => h⟩
  | relSwap b =>
    simp only [step] at hs; split at hs <;> try simp at hs
    split at hs <;> simp at hs <;> subst hs <;> exact ⟨Nat.le_refl _, fun _ _ h => h⟩
  | retRelease b =>
    simp only [step] at hs; split at hs <;> try simp at hs
    obtain ⟨_, rfl⟩ := hs; exact ⟨Nat.le_refl _, fun _ _ h => h⟩
  | selfRelSwap a =>
    simp only [step] at hs; split at hs <;> try simp at hs
    obtain ⟨_, hs⟩ := hs
    split at hs <;> simp at hs <;> subst hs <;> exact ⟨Nat.le_refl _, fun _ _ h => h⟩
  | invSetCtx a c cl => simp only [step] at hs; split at hs <;> simp at hs; subst hs; exact ⟨Nat.le_refl _, fun _ _ h => h⟩
  | retSetCtx a u =>
    simp only [step] at hs; split at hs <;> try simp at hs
    obtain ⟨_, rfl⟩ := hs; exact ⟨Nat.le_refl _, fun _ _ h => h⟩
  | envCancelCtx c => simp only [step] at hs; split at hs <;> simp at hs; subst hs; exact ⟨Nat.le_refl _, fun _ _ h => h⟩
  | quiesce B => simp only [step] at hs; split at hs <;> simp at hs; subst hs; exact ⟨Nat.le_refl _, fun _ _ h => h⟩
  | probe v er => simp only [step] at hs; split at hs <;> simp at hs; subst hs; exact ⟨Nat.le_refl _, fun _ _ h => h⟩
  | cb it =>
    simp only [step] at hs; split at hs <;> try simp at hs
    obtain ⟨_, rfl⟩ := hs; exact ⟨Nat.le_refl _, fun _ _ h => h⟩
  | enter j k =>
    simp only [step] at hs; split at hs <;> try simp at hs
    obtain ⟨_, rfl⟩ := hs; exact ⟨Nat.le_refl _, fun _ _ h => h⟩
  | giveUp j =>
    simp only [step] at hs; split at hs <;> try simp at hs
    obtain ⟨_, rfl⟩ := hs; exact ⟨Nat.le_refl _, fun _ _ h => h⟩
  | drained j =>
    simp only [step] at hs; split at hs <;> try simp at hs
    obtain ⟨_, rfl⟩ := hs; exact ⟨Nat.le_refl _, fun _ _ h => h⟩
  | leave j k v hr er =>
    simp only [step] at hs; split at hs <;> try simp at hs
    obtain ⟨_, rfl⟩ := hs; exact ⟨Nat.le_refl _, fun _ _ h => h⟩
  | done j =>
    simp only [step] at hs; split at hs <;> try simp at hs
    obtain ⟨_, rfl⟩ := hs; exact ⟨Nat.le_refl _, fun _ _ h => h⟩
  | store j =>
    simp only [step] at hs; split at hs <;> try simp at hs
    split at hs <;> try simp at hs
    obtain ⟨_, hs⟩ := hs
    split at hs
    · simp at hs; subst hs; exact ⟨Nat.le_refl _, fun _ _ h => h⟩
    · split at hs <;> simp at hs <;> subst hs <;> exact ⟨Nat.le_refl _, fun _ _ h => h⟩
  | addRefCS a =>
    simp only [step] at hs; split at hs <;> try simp at hs
    obtain ⟨_, hs⟩ := hs
    split at hs
    · simp at hs; subst hs
      exact ⟨by rw [startResolve_nonce]; simp, fun _ i h => by rw [startResolve_relRuns]; exact h⟩
    · split at hs <;> simp at hs <;> subst hs <;> exact ⟨Nat.le_refl _, fun _ _ h => h⟩
  | relCS b =>
    simp only [step] at hs; split at hs <;> try simp at hs
    split at hs <;> try simp at hs
    case h_2 => obtain ⟨_, rfl⟩ := hs; exact ⟨Nat.le_refl _, fun _ _ h => h⟩
    obtain ⟨_, rfl⟩ := hs
    refine ⟨?_, fun _ i h => by rw [afterRemove_relRuns]; exact h⟩
    exact afterRemove_nonce_le' _ s.nonce rfl
  | selfRelCS a =>
    simp only [step] at hs; split at hs <;> try simp at hs
    obtain ⟨_, rfl⟩ := hs
    refine ⟨?_, fun _ i h => by rw [afterRemove_relRuns]; exact h⟩
    exact afterRemove_nonce_le' _ s.nonce rfl
  | setCtxCS a =>
    simp only [step] at hs; split at hs <;> try simp at hs
    split at hs <;> simp at hs <;> obtain ⟨_, rfl⟩ := hs
    · exact ⟨Nat.le_refl _, fun _ _ h => h⟩
    · exact ⟨by rw [startResolve_nonce]; simp, fun _ i h => by rw [startResolve_relRuns]; exact h⟩

theorem relRun_facts (s s' : St) (j : Nat) (hs : step s (.relRun j) = some s') :
    ∃ i0 c0, s.relRuns[j]? = some i0 ∧ s.calls[i0]? = some c0 ∧
      (∀ i ∈ s.relRuns, i ≠ i0 → i ∈ s'.relRuns) ∧ (c0.nonce = s.nonce → s'.nonce = s.nonce + 1) := by
  simp only [step] at hs; split at hs <;> try simp at hs
  rename_i i0 hj
  split at hs <;> try simp at hs
  rename_i c0 hc0
  have keep : ∀ i ∈ s.relRuns, i ≠ i0 → i ∈ s.relRuns.eraseIdx j := by
    intro i hi hne
    rw [List.mem_eraseIdx_iff_getElem?]
    obtain ⟨p, hp⟩ := List.getElem?_of_mem hi
    refine ⟨p, ?_, hp⟩
    intro e; subst e; rw [hj] at hp; cases hp; exact hne rfl
  split at hs <;> simp at hs <;> obtain ⟨hfree, rfl⟩ := hs
  · refine ⟨i0, c0, hj, hc0, ?_, fun _ => startResolve_nonce _⟩
    intro i hi hne; rw [startResolve_relRuns]; exact keep i hi hne
  · rename_i hn
    exact ⟨i0, c0, hj, hc0, keep, fun h => absurd h hn⟩


def InvalOk (s : St) (iv : List Nat) : Prop :=
  ∀ k ∈ iv, k < s.ninv ∧ ∀ (i : Nat) (c : Call), s.calls[i]? = some c → c.inv = some k →
    i ∈ s.relRuns ∨ c.nonce < s.nonce

theorem invalOk_step (s s' : St) (e : Ev) (iv iv' : List Nat) (hi : Inv s) (hx : Idx s)
    (h : InvalOk s iv) (hs : step s e = some s')
    (hiv : ∀ k, k ∈ iv' → k ∈ iv ∨ e = .envReleased k) : InvalOk s' iv' := by
  obtain ⟨f1, f2, f3⟩ := calls_frame s s' e hs
  obtain ⟨hnon, hruns⟩ := runs_nonce_frame s s' e hs
  have hninv : s.ninv ≤ s'.ninv := by rcases f3 with ⟨h1, _⟩ | ⟨h1, _⟩ <;> omega
  intro k hk
  rcases hiv k hk with hk0 | he
  · obtain ⟨hlt, hq⟩ := h k hk0
    refine ⟨by omega, ?_⟩
    intro i c' hc' hck
    rcases f1 i c' hc' with ⟨c, hc, ⟨a1, _, _, a4, _⟩⟩ | ⟨_, h0, _⟩
    · have hinv : c.inv = some k := by
        rcases a1 with a1 | ⟨_, a1, _⟩
        · rw [← a1]; exact hck
        · rw [a1] at hck; cases hck; omega
      rcases hq i c hc hinv with hr | hn
      · by_cases hrr : ∀ j, e ≠ .relRun j
        · exact Or.inl (hruns hrr i hr)
        · have ⟨j, hj⟩ : ∃ j, e = .relRun j := by
            cases e <;> simp at hrr ⊢
          subst hj
          obtain ⟨i0, c0, _, hc0, hkeep, hnn⟩ := relRun_facts s s' j hs
          by_cases hi0 : i = i0
          · subst hi0; rw [hc] at hc0; cases hc0
            right; rw [a4]
            by_cases hcn : c.nonce = s.nonce
            · rw [hnn hcn]; omega
            · have := hi.core.nonceLe i c hc; omega
          · exact Or.inl (hkeep i hr hi0)
      · right; rw [a4]; omega
    · rw [h0] at hck; cases hck
  · subst he
    have hs0 := hs
    simp only [step] at hs0; split at hs0 <;> simp at hs0
    rename_i j hf
    subst hs0
    have hfj := List.find?_some hf
    cases hcj : s.calls[j]? with
    | none => simp [hcj] at hfj
    | some cj =>
      simp [hcj] at hfj
      refine ⟨hx.lt j cj k hcj hfj, ?_⟩
      intro i c hc hck
      have : i = j := hx.inj i j c cj k hc hcj hck hfj
      subst this
      left; simp


/-! ## the release function does not see its own value in the target container -/

def SeenOk (s : St) : Prop :=
  ∀ (i k seen : Nat), CbItem.rel i k seen ∈ s.pend.flatten → seen ≠ k + 1

theorem target_not_own (s : St) (hi : Inv s) (hx : Idx s) (hv : ValOk s) (i k : Nat) (c : Call)
    (hc : s.calls[i]? = some c) (hk : c.inv = some k) (hr : c.released = true) : s.target ≠ k + 1 := by
  intro ht
  have htv := hi.core.tgtVal
  rw [ht] at htv
  have hval : s.value = k + 1 := by
    split at htv
    · exact htv.symm
    · cases htv
  cases hcur : s.cur with
  | none => have := (hi.core.curNone hcur).2.1; omega
  | some j =>
    obtain ⟨cj, h, hcj, _, _, _, hres, _, hnr⟩ := hi.core.curSome j hcur
    obtain ⟨kj, hkj⟩ := Option.isSome_iff_exists.mp (hx.res j cj hcj (by rw [hres]; rfl))
    rcases hv j cj _ h _ kj hcj hres hkj with h0 | h0
    · omega
    · have hkk : kj = k := by omega
      subst hkk
      have := hx.inj j i cj c kj hcj hc hkj hk
      subst this; rw [hc] at hcj; cases hcj
      obtain ⟨_, v, e, hres2⟩ := hi.core.relFin j c hc hr
      rw [hres] at hres2; simp at hres2
      have := hnr hres2.2.1
      rw [hr] at this; cases this

theorem seenOk_step (s s' : St) (e : Ev) (hi : Inv s) (hi' : Inv s') (hx' : Idx s') (hv' : ValOk s')
    (hp' : PendOk s') (h : SeenOk s) (hs : step s e = some s') : SeenOk s' := by
  intro i k seen hmem
  rcases items_frame s s' e hi hs _ hmem with hold | hnew
  · exact h i k seen hold
  · obtain ⟨_, h1, hseen⟩ := newItem_rel s s' i k seen hnew
    have hin : relIn s'.pend i k := by
      simp only [List.mem_flatten] at hmem
      obtain ⟨b, hb, hm⟩ := hmem
      exact ⟨b, hb, seen, hm⟩
    obtain ⟨c', hc', hk'⟩ := hp' i k hin
    rw [hseen]
    exact target_not_own s' hi' hx' hv' i k c' hc' hk' (by simpa [released, hc'] using h1)

/-! ## what the monitor remembers as "last told" -/

def HidOk (s : St) (last : List (Nat × Option Nat)) (ri : List Nat) : Prop :=
  ∀ (r k : Nat), (r, some k) ∈ last → r ∉ ri →
    (∃ pc l f sf t, s.th[r]? = some (.ref .rcd pc l f sf t) ∧ pc ≠ .inv) ∧
    ∃ (i : Nat) (c : Call), s.calls[i]? = some c ∧ c.inv = some k ∧
      (s.cur = some i ∨ CbItem.refcb r true false 0 0 ∈ s.pend.flatten)

/-- what `HidOk` says about one pair -/
def HidPair (s : St) (r k : Nat) : Prop :=
  (∃ pc l f sf t, s.th[r]? = some (.ref .rcd pc l f sf t) ∧ pc ≠ .inv) ∧
  ∃ (i : Nat) (c : Call), s.calls[i]? = some c ∧ c.inv = some k ∧
    (s.cur = some i ∨ CbItem.refcb r true false 0 0 ∈ s.pend.flatten)

theorem hidPair_step (s s' : St) (e : Ev) (ri' : List Nat) (r k : Nat)
    (hi : Inv s) (hx : Idx s) (hrel' : RelInvOk s' ri') (h : HidPair s r k) (hs : step s e = some s')
    (hnr : r ∉ ri') (hcb : e ≠ .cb (.refcb r true false 0 0)) : HidPair s' r k := by
  obtain ⟨⟨pc, l, f, sf, t, hth, hpc⟩, i, c, hc, hk, hdisj⟩ := h
  obtain ⟨pc', l', f', sf', t', hth', hpc'⟩ := ref_persist s s' e hs r .rcd pc l f sf t hth hpc
  refine ⟨⟨pc', l', f', sf', t', hth', hpc'⟩, ?_⟩
  obtain ⟨c', hc', g, _⟩ := call_persist s s' e hi hx hs i c hc
  refine ⟨i, c', hc', g k hk, ?_⟩
  by_cases hl : isLock e = false
  · obtain ⟨_, hcur, _⟩ := nonlock_frame s s' e hs hl
    rcases hdisj with hd | hd
    · exact Or.inl (by rw [hcur]; exact hd)
    · right
      rcases pend_nonlock s s' e hs hl with h1 | ⟨it, b, rest, he, hp, hit, h1⟩
      · rw [h1]; exact hd
      · rw [h1]
        rw [hp] at hd
        have hne : CbItem.refcb r true false 0 0 ≠ it := by
          intro e1; subst e1; exact hcb he
        simp only [List.flatten_cons, List.mem_append] at hd
        split
        · rename_i hemp
          rcases hd with hd | hd
          · have : b.erase it = [] := by simpa using hemp
            have hm : CbItem.refcb r true false 0 0 ∈ b.erase it := (List.mem_erase_of_ne hne).mpr hd
            rw [this] at hm; cases hm
          · exact hd
        · simp only [List.flatten_cons, List.mem_append]
          rcases hd with hd | hd
          · exact Or.inl ((List.mem_erase_of_ne hne).mpr hd)
          · exact Or.inr hd
  · have hl : isLock e = true := by simpa using hl
    have hfree := lock_free s s' e hs hl
    have hcur0 : s.cur = some i := by
      rcases hdisj with hd | hd
      · exact hd
      · rw [hfree] at hd; simp at hd
    cases hcur' : s'.cur with
    | some j =>
      left
      rcases cur_frame s s' e hs j hcur' with h1 | ⟨he, cj, hcj, _, hnf⟩
      · rw [hcur0] at h1; cases h1; rfl
      · -- a fresh store needs an unresolved container
        exfalso
        have hres : s.resolved = true := by rw [hi.core.resCur, hcur0]; rfl
        subst he
        have hs0 := hs
        simp only [step, hcj] at hs0
        split at hs0 <;> try simp at hs0
        obtain ⟨_, hs0⟩ := hs0
        split at hs0
        · rename_i hn
          -- the stored call and this fresh call have the same nonce: they are the same, but it is finished
          obtain ⟨ci, _, hci, hni, _, hfi, _⟩ := hi.core.curSome i hcur0
          have := fresh_unique s hi.core i j ci cj hci hcj hni hn
          subst this; rw [hci] at hcj; cases hcj
          rw [hfi] at hnf; cases hnf
        · split at hs0 <;> simp at hs0 <;> subst hs0 <;>
            (simp [setCall] at hcur'; rw [hcur0] at hcur'; cases hcur'; 
             obtain ⟨ci, _, hci, _, _, hfi, _⟩ := hi.core.curSome i hcur0
             rw [hci] at hcj; cases hcj; rw [hfi] at hnf; cases hnf)
    | none =>
      right
      have hlive : l' = true := by
        cases l'
        · exact absurd (hrel'.2 r .rcd pc' f' sf' t' hth' hpc' (by simp)) hnr
        · rfl
      subst hlive
      have := gone_items s s' e hi hs i hcur0 hcur' r .rcd pc' f' sf' t' hth' (by simp)
      simpa using this


theorem hidOk_step (s s' : St) (e : Ev) (last : List (Nat × Option Nat)) (ri ri' : List Nat)
    (hi : Inv s) (hx : Idx s) (hrel' : RelInvOk s' ri') (h : HidOk s last ri) (hs : step s e = some s')
    (hri : ∀ r, r ∈ ri → r ∈ ri')
    (hcb : ∀ r, e ≠ .cb (.refcb r true false 0 0)) : HidOk s' last ri' := by
  intro r k hmem hnr
  exact hidPair_step s s' e ri' r k hi hx hrel' (h r k hmem (fun hr => hnr (hri r hr))) hs hnr (hcb r)


/-! ## the simulation -/

def RelHid (s : St) (m : HiddenSt) : Prop :=
  Inv s ∧ Idx s ∧ ThInv s.th ∧ PendOk s ∧ AcctOk s ∧ ValOk s ∧ RelLast s.pend ∧ LatestOk s m.latest ∧
  RelInvOk s m.relInv ∧ VOk s ∧ HidOk s m.last m.relInv ∧ SeenOk s ∧ InvalOk s m.inval

theorem relHid_step (s s' : St) (e : Ev) (m m' : HiddenSt) (hR : RelHid s m) (hs : step s e = some s')
    (hlat : LatestOk s' m'.latest)
    (hri : ∀ r, r ∈ m.relInv → r ∈ m'.relInv) (hri2 : ∀ b r, e = .invRelease b r → r ∈ m'.relInv)
    (hhid : RelInvOk s' m'.relInv → HidOk s' m'.last m'.relInv)
    (hiv : ∀ k, k ∈ m'.inval → k ∈ m.inval ∨ e = .envReleased k) : RelHid s' m' := by
  obtain ⟨hi, hx, ht, hp, ha, hv, hrl, _, hrel, hvo, _, hseen, hinv⟩ := hR
  have hi' := step_inv s e s' hi hs
  have hx' := idx_step s s' e hx hs
  have ht' := step_thinv s s' e ht hs
  have hp' := pendOk_step s s' e hi hx hp hs
  have hv' := valOk_step s s' e hi hx hv hs
  have hrel' := relInvOk_step s s' e _ _ hrel hs hri hri2
  exact ⟨hi', hx', ht', hp', acctOk_step s s' e hi ha hs, hv', relLast_step s s' e hrl hs, hlat, hrel',
    vOk_step s s' e hi ht' hvo hs, hhid hrel', seenOk_step s s' e hi hi' hx' hv' hp' hseen hs,
    invalOk_step s s' e _ _ hi hx hinv hs hiv⟩

theorem mem_setLast (l : List (Nat × Option Nat)) (r r' : Nat) (v : Option Nat) (k : Nat)
    (h : (r', some k) ∈ setLast l r v) : (r' = r ∧ v = some k) ∨ (r' ≠ r ∧ (r', some k) ∈ l) := by
  simp only [setLast, List.mem_cons, List.mem_filter] at h
  rcases h with h | ⟨h1, h2⟩
  · simp at h; exact Or.inl ⟨h.1, h.2.symm⟩
  · exact Or.inr ⟨by simpa using h2, h1⟩

theorem hid_sim_step (s : St) (e : Ev) (s' : St) (m : HiddenSt) (hR : RelHid s m) (hs : step s e = some s') :
    match Ev.obs e with
    | none => RelHid s' m
    | some o => ∃ m', monHidden.step m o = some m' ∧ RelHid s' m' := by
  have hR0 := hR
  obtain ⟨hi, hx, ht, hp, ha, hv, hrl, hlat, hrel, hvo, hhid, hseen, hinv⟩ := hR
  have same : (∀ j k v hh er, e ≠ .leave j k v hh er) → (∀ b r, e ≠ .invRelease b r) →
      (∀ k, e ≠ .envReleased k) → (∀ r, e ≠ .cb (.refcb r true false 0 0)) → RelHid s' m := by
    intro n1 n2 n3 n4
    exact relHid_step s s' e m m hR0 hs (latest_other s s' e hi _ hlat hs n1) (fun _ h => h)
      (fun b r he => absurd he (n2 b r))
      (fun hrel' => hidOk_step s s' e _ _ _ hi hx hrel' hhid hs (fun _ h => h) n4)
      (fun k h => Or.inl h)
  cases e with
  | leave j k v hh er =>
    refine ⟨{ m with latest := some k }, by simp [Ev.obs, monHidden], ?_⟩
    exact relHid_step s s' _ m _ hR0 hs (latest_leave s s' hi m.latest j k v hh er hs) (fun _ h => h)
      (by intro b r he; cases he)
      (fun hrel' => hidOk_step s s' _ _ _ _ hi hx hrel' hhid hs (fun _ h => h) (by simp))
      (fun k h => Or.inl h)
  | invRelease b r =>
    refine ⟨{ m with relInv := r :: m.relInv }, by simp [Ev.obs, monHidden], ?_⟩
    exact relHid_step s s' _ m _ hR0 hs (latest_other s s' _ hi _ hlat hs (by simp))
      (fun _ h => List.mem_cons_of_mem _ h) (by intro b' r' he; cases he; exact List.mem_cons_self)
      (fun hrel' => hidOk_step s s' _ _ _ _ hi hx hrel' hhid hs (fun _ h => List.mem_cons_of_mem _ h) (by simp))
      (fun k h => Or.inl h)
  | envReleased k =>
    refine ⟨{ m with inval := k :: m.inval }, by simp [Ev.obs, monHidden], ?_⟩
    exact relHid_step s s' _ m _ hR0 hs (latest_other s s' _ hi _ hlat hs (by simp)) (fun _ h => h)
      (by intro b r he; cases he)
      (fun hrel' => hidOk_step s s' _ _ _ _ hi hx hrel' hhid hs (fun _ h => h) (by simp))
      (by
        intro k' h
        simp only [List.mem_cons] at h
        rcases h with rfl | h
        · exact Or.inr rfl
        · exact Or.inl h)
  | quiesce B =>
    have hs0 := hs
    simp only [step] at hs0; split at hs0 <;> simp at hs0
    rename_i hq
    obtain ⟨hpe, hrr, _⟩ := quiescent_settled s hi hq.1
    have hok : monHidden.step m (.quiesce B) = some m := by
      simp [monHidden]
      intro r ok hmem hnr
      cases ok with
      | none => simp
      | some k =>
        simp
        intro hkm
        obtain ⟨_, i, c, hc, hck, hd⟩ := hhid r k hmem hnr
        have hcur : s.cur = some i := by
          rcases hd with hd | hd
          · exact hd
          · rw [hpe] at hd; simp at hd
        obtain ⟨ci, _, hci, hni, _⟩ := hi.core.curSome i hcur
        rw [hc] at hci; cases hci
        rcases (hinv k hkm).2 i c hc hck with h1 | h1
        · rw [hrr] at h1; cases h1
        · omega
    exact ⟨m, by simpa [Ev.obs] using hok, same (by simp) (by simp) (by simp) (by simp)⟩
  | cb it =>
    cases it with
    | rel i k seen =>
      have hs0 := hs
      simp only [step] at hs0; split at hs0 <;> try simp at hs0
      rename_i b rest hpe
      have hmem : CbItem.rel i k seen ∈ s.pend.flatten := by rw [hpe]; simp; exact Or.inl hs0.1
      have hin : relIn s.pend i k := ⟨b, by rw [hpe]; simp, seen, hs0.1⟩
      obtain ⟨ci, hci, hcik⟩ := hp i k hin
      have hone : 0 < relItems s.pend i := by
        rw [hpe, relItems_cons]
        have : 0 < b.countP (CbItem.isRel i) := by
          rw [List.countP_pos_iff]; exact ⟨_, hs0.1, by simp [CbItem.isRel]⟩
        omega
      have hrelsd : ci.released = true := by
        have := ha i
        cases hr : released s i
        · rw [hr] at this; simp [b2n] at this; omega
        · simpa [released, hci] using hr
      have hok : monHidden.step m (.cbinRel k seen) = some m := by
        simp [monHidden]
        refine ⟨hseen i k seen hmem, ?_⟩
        intro r ok hm hok2
        cases ok with
        | none => simp at hok2
        | some k' =>
          simp at hok2; subst hok2
          by_cases hr : r ∈ m.relInv
          · exact hr
          · exfalso
            obtain ⟨_, i', c', hc', hk', hd⟩ := hhid r k' hm hr
            have : i' = i := hx.inj i' i c' ci k' hc' hci hk' hcik
            subst this
            have e1 : c' = ci := by rw [hc'] at hci; exact Option.some.inj hci
            rw [← e1] at hrelsd
            rcases hd with hd | hd
            · obtain ⟨cj, h, hcj, _, _, _, hres, _, hnr⟩ := hi.core.curSome i' hd
              have e2 : c' = cj := by rw [hc'] at hcj; exact Option.some.inj hcj
              rw [← e2] at hres hnr
              obtain ⟨_, v, er, hres2⟩ := hi.core.relFin i' c' hc' hrelsd
              rw [hres] at hres2; simp at hres2
              have := hnr hres2.2.1; rw [hrelsd] at this; cases this
            · rw [hpe] at hrl
              obtain ⟨hrest, hall⟩ := relLast_head b rest hrl _ hs0.1 rfl
              rw [hpe, hrest] at hd
              simp at hd
              have := hall _ hd; cases this
      exact ⟨m, by simpa [Ev.obs] using hok, same (by simp) (by simp) (by simp) (by simp)⟩
    | refcb r vis res v er =>
      cases vis with
      | false => exact same (by simp) (by simp) (by simp) (by simp)
      | true =>
        have hs0 := hs
        simp only [step] at hs0; split at hs0 <;> try simp at hs0
        rename_i b rest hpe
        have hmem : CbItem.refcb r true res v er ∈ s.pend.flatten := by rw [hpe]; simp; exact Or.inl hs0.1
        refine ⟨{ m with last := setLast m.last r (if res then m.latest else none) }, by simp [Ev.obs, monHidden], ?_⟩
        refine relHid_step s s' _ m _ hR0 hs (latest_other s s' _ hi _ hlat hs (by simp)) (fun _ h => h)
          (by intro b' r' he; cases he) ?_ (fun k h => Or.inl h)
        intro hrel' r' k' hm hnr
        rcases mem_setLast _ _ _ _ _ hm with ⟨rfl, hval⟩ | ⟨hne, hold⟩
        · -- the reference that has just been told
          cases res with
          | false => simp at hval
          | true =>
            simp at hval
            obtain ⟨⟨i, hcur⟩, pc, l, f, sf, t, hth, hpc⟩ := hvo r' v er hmem
            obtain ⟨c, _, hc, _, _, _, hres, _⟩ := hi.core.curSome i hcur
            have hlt := hlat.2 i c hcur hc
            have hpair : HidPair s r' k' :=
              ⟨⟨pc, l, f, sf, t, hth, hpc⟩, i, c, hc, by rw [← hlt]; exact hval, Or.inl hcur⟩
            exact hidPair_step s s' _ _ r' k' hi hx hrel' hpair hs hnr (by simp)
        · exact hidPair_step s s' _ _ r' k' hi hx hrel' (hhid r' k' hold hnr) hs hnr
            (by intro he; simp at he; exact hne he.1.symm)
  | cfg kp c t => exact ⟨m, rfl, same (by simp) (by simp) (by simp) (by simp)⟩
  | invAddRef a kd => exact ⟨m, rfl, same (by simp) (by simp) (by simp) (by simp)⟩
  | addRefCS a => exact same (by simp) (by simp) (by simp) (by simp)
  | retAddRef a => exact ⟨m, rfl, same (by simp) (by simp) (by simp) (by simp)⟩
  | relSwap b => exact same (by simp) (by simp) (by simp) (by simp)
  | relCS b => exact same (by simp) (by simp) (by simp) (by simp)
  | retRelease b => exact ⟨m, rfl, same (by simp) (by simp) (by simp) (by simp)⟩
  | invSetCtx a c cl => exact ⟨m, rfl, same (by simp) (by simp) (by simp) (by simp)⟩
  | setCtxCS a => exact same (by simp) (by simp) (by simp) (by simp)
  | retSetCtx a u => exact ⟨m, rfl, same (by simp) (by simp) (by simp) (by simp)⟩
  | envCancelCtx c => exact ⟨m, rfl, same (by simp) (by simp) (by simp) (by simp)⟩
  | relRun r => exact same (by simp) (by simp) (by simp) (by simp)
  | enter i k => exact ⟨m, rfl, same (by simp) (by simp) (by simp) (by simp)⟩
  | giveUp i => exact same (by simp) (by simp) (by simp) (by simp)
  | drained i => exact same (by simp) (by simp) (by simp) (by simp)
  | store i => exact same (by simp) (by simp) (by simp) (by simp)
  | done i => exact same (by simp) (by simp) (by simp) (by simp)
  | invHook a => exact ⟨m, rfl, same (by simp) (by simp) (by simp) (by simp)⟩
  | selfRelSwap a => exact same (by simp) (by simp) (by simp) (by simp)
  | selfRelCS a => exact same (by simp) (by simp) (by simp) (by simp)
  | probe v er => exact ⟨m, rfl, same (by simp) (by simp) (by simp) (by simp)⟩

/-- **C08 (observable form, `monHidden`).** Every observable trace of the model is accepted by `monHidden`:
`released` callbacks come only after every holder was told the value is gone, and at quiescence no held
reference is still given a result whose `released()` was called. -/
theorem rel_hidden_obs (es : List Ev) (s : St) (h : model.run model.init es = some s) :
    monHidden.accepts (es.filterMap model.obs) = true :=
  monitor_accepts_of_simulation model monHidden RelHid
    ⟨init_inv, idx_init, thinv_nil, by intro i k ⟨b, hb, _⟩; simp [model] at hb,
      by intro i; simp [model, relItems],
      by intro i c v hh e k hc; simp [model] at hc,
      by simp [model, RelLast],
      ⟨by intro i c hc; simp [model] at hc, by intro i c hc; simp [model] at hc⟩,
      ⟨by intro b r pc hb; simp [model] at hb, by intro r k pc f sf t hr; simp [model] at hr⟩,
      by intro r v er hm; simp [model] at hm,
      by intro r k hm; simp [monHidden] at hm,
      by intro i k seen hm; simp [model] at hm,
      by intro k hk; simp [monHidden] at hk⟩
    (fun s e s' ms hR hs => by
      have h := hid_sim_step s e s' ms hR hs
      cases e with
      | cb it =>
        cases it with
        | refcb r vis res v er => cases vis <;> exact h
        | rel i k seen => exact h
      | _ => exact h) es s h

end UtilModel.RefCount
