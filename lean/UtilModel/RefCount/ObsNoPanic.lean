import UtilModel.RefCount.Props
/-!
# refcount: C09 "no panic, no deadlock" in observable form — every trace of the model is accepted by
`monNoPanic` (no `ret … panic`; no AddRef / Release / SetContext / ClearContext call pending at a
quiescence point)
-/
set_option linter.unusedSimpArgs false
set_option linter.unusedVariables false
namespace UtilModel.RefCount
open UtilModel

theorem noPanic_sim_step (s : St) (e : Ev) (s' : St) (m : List Nat) (hs : step s e = some s') :
    match Ev.obs e with
    | none => True
    | some o => ∃ m', monNoPanic.step m o = some m' ∧ True := by
  cases e with
  | quiesce B =>
    simp only [step] at hs; split at hs <;> simp at hs
    rename_i hq
    have hB : B = [] := by rw [hq.2]; exact quiescent_no_pending_api s hq.1
    subst hB
    exact ⟨m, by simp [Ev.obs, monNoPanic], trivial⟩
  | cb it =>
    cases it with
    | refcb r vis res v er => cases vis <;> simp [Ev.obs, monNoPanic]
    | rel i k seen => simp [Ev.obs, monNoPanic]
  | _ => simp [Ev.obs, monNoPanic]

/-- **C09 (observable form) `no_panic_obs`.** Every observable trace of the RefCount model is
accepted by `monNoPanic`: no API call returns by panicking, and at every quiescence point no
`AddRef` / `Release` / `SetContext` / `ClearContext` call is still pending (no deadlock), for every
event list and every argument (nil callback included). -/
theorem no_panic_obs (es : List Ev) (s : St) (h : model.run model.init es = some s) :
    monNoPanic.accepts (es.filterMap model.obs) = true :=
  monitor_accepts_of_simulation model monNoPanic (fun _ _ => True) trivial
    (fun s e s' ms _ hs => by
      have h := noPanic_sim_step s e s' ms hs
      cases e with
      | cb it =>
        cases it with
        | refcb r vis res v er => cases vis <;> exact h
        | rel i k seen => exact h
      | _ => exact h) es s h

end UtilModel.RefCount
