import UtilModel.RefCount.ConsRelB
import UtilModel.RefCount.Frame7
/-!
# refcount consumers: `monC10Released` accepts every trace of the composed model
(the `released` callback of `ResolveWithReleased` runs at most once, only for a call that passed one,
only after an invalidation)
-/
set_option linter.unusedSimpArgs false
set_option linter.unusedVariables false
namespace UtilModel.RefCount.Cons
open UtilModel UtilModel.RefCount

/-- some value has been invalidated: a `released()` callback was called or a context was set -/
def Why (m : C10St) : Prop := m.inval ≠ [] ∨ m.anyCtx = true

def LiveTh (b : St) (a : Nat) : Prop := ∃ k pc f sf t, b.th[a]? = some (TS.ref k pc true f sf t)

/-- a notification is owed only to a reference that is in the table -/
def IL2 (b : St) : Prop := ∀ (a : Nat) (res : Bool) (v e : Nat), AItem b a res v e → LiveTh b a

theorem liveTh_back (b b' : St) (be : Ev) (a : Nat) (hs : step b be = some b') (h : LiveTh b' a) :
    LiveTh b a ∨ be = .addRefCS a := by
  obtain ⟨k, pc, f, sf, t, hth⟩ := h
  obtain ⟨f1, _⟩ := th_frame b b' be hs
  rcases f1 a _ hth with ⟨x, hx, hst⟩ | ⟨_, hnw⟩
  · cases x with
    | rel r0 pc0 => simp [ThStep] at hst
    | ctx c0 cl0 pc0 u0 => simp [ThStep] at hst
    | ref k0 pc0 l0 f0 sf0 t0 =>
      obtain ⟨_, _, hl, _⟩ := hst
      rcases hl with hl | ⟨_, _, he⟩ | ⟨_, hl, _⟩
      · subst hl; exact Or.inl ⟨k0, pc0, f0, sf0, t0, hx⟩
      · exact Or.inr he
      · cases hl
  · rcases hnw with ⟨k0, _, _, hx'⟩ | ⟨_, hx'⟩ | ⟨r0, _, hx'⟩ | ⟨c1, cl1, _, hx'⟩ <;> cases hx'

theorem liveTh_fwd_nonlock (b b' : St) (be : Ev) (a : Nat) (hs : step b be = some b') (hl : isLock be = false)
    (h : LiveTh b a) : LiveTh b' a := by
  obtain ⟨k, pc, f, sf, t, hth⟩ := h
  obtain ⟨f1, f2⟩ := th_frame b b' be hs
  obtain ⟨x', hx'⟩ := f2 a _ hth
  rcases f1 a x' hx' with ⟨x, hx, hst⟩ | ⟨hn, _⟩
  · rw [hth] at hx; cases hx
    cases x' with
    | rel r0 pc0 => simp [ThStep] at hst
    | ctx c0 cl0 pc0 u0 => simp [ThStep] at hst
    | ref k0 pc0 l0 f0 sf0 t0 =>
      obtain ⟨_, _, hlv, _⟩ := hst
      rcases hlv with hlv | ⟨hlv, _⟩ | ⟨_, _, hlv⟩
      · subst hlv; exact ⟨k0, pc0, f0, sf0, t0, hx'⟩
      · cases hlv
      · exfalso
        rcases hlv with ⟨b0, he, _⟩ | ⟨he, _⟩ <;> (subst he; simp [isLock] at hl)
  · rw [hth] at hn; cases hn

theorem il2_step (b b' : St) (be : Ev) (hi : Inv b) (h : IL2 b) (hs : step b be = some b') : IL2 b' := by
  intro a res v e hm
  rcases items_frame b b' be hi hs _ hm with hold | hnew
  · have hl : isLock be = false := by
      cases hl : isLock be
      · rfl
      · have := lock_free b b' be hs hl; rw [this] at hold; simp at hold
    exact liveTh_fwd_nonlock b b' be a hs hl (h a res v e hold)
  · cases res with
    | true =>
      obtain ⟨k, pc, f, sf, t, i, hth, _⟩ := newItem_deliver b b' a false v e hnew
      exact ⟨k, pc, f, sf, t, hth⟩
    | false =>
      obtain ⟨k, pc, f, sf, t, hth, _⟩ := newItem_gone b b' a false v e hnew
      exact ⟨k, pc, f, sf, t, hth⟩

theorem liveTh_keep (b : St) (a a0 : Nat) (k : CbKind) (pc pc' : Pc) (live flag self : Bool) (told : Option Nat)
    (hth : b.th[a0]? = some (TS.ref k pc live flag self told)) :
    LiveTh { b with th := b.th.set a0 (TS.ref k pc' live flag self told) } a ↔ LiveTh b a := by
  constructor
  · rintro ⟨k1, pc1, f1, sf1, t1, h⟩
    rcases getElem?_set_cases b.th a0 a _ _ h with ⟨ha, he⟩ | ⟨_, h0⟩
    · subst ha
      injection he with e1 e2 e3 e4 e5 e6
      subst e3
      exact ⟨k, pc, flag, self, told, hth⟩
    · exact ⟨k1, pc1, f1, sf1, t1, h0⟩
  · rintro ⟨k1, pc1, f1, sf1, t1, h⟩
    by_cases ha : a0 = a
    · subst ha
      rw [hth] at h
      injection h with h
      injection h with e1 e2 e3 e4 e5 e6
      subst e3
      exact ⟨k, pc', flag, self, told, by show (b.th.set a0 _)[a0]? = _; simp [lt_of_getElem? hth]⟩
    · exact ⟨k1, pc1, f1, sf1, t1, by show (b.th.set a0 _)[a]? = _; rw [getElem?_set_ne' _ _ _ _ ha]; exact h⟩

/-- a generation change while `a`'s reference is in the table has a reason the monitor has seen -/
theorem nonce_why (b b' : St) (be : Ev) (m : C10St) (a : Nat) (hs : step b be = some b')
    (hruns : RunsOk b m.inval) (hany : CtxAny b m.anyCtx) (hl' : LiveTh b' a) (hne : be ≠ .addRefCS a)
    (hn : b'.nonce ≠ b.nonce) : Why m := by
  rcases nonce_cases b b' be hs hn with ⟨a0, rfl⟩ | ⟨j, rfl⟩ | ⟨_, hz⟩ | ⟨a', rfl, h1⟩
  · obtain ⟨_, ⟨c, cl, u0, g2⟩, _⟩ := setCtx_facts b b' a0 hs
    exact Or.inr (hany a0 c cl .inv u0 g2)
  · left
    have hs0 := hs
    simp only [step] at hs0; split at hs0 <;> try simp at hs0
    rename_i i1 hj
    obtain ⟨c, k0, _, _, hm⟩ := hruns i1 (List.mem_of_getElem? hj)
    intro hnil; rw [hnil] at hm; cases hm
  · exfalso
    obtain ⟨k, pc, f, sf, t, hth⟩ := hl'
    have := liveRefs_of b' a k pc f sf t hth
    omega
  · exfalso
    have hne' : a' ≠ a := by intro e0; subst e0; exact hne rfl
    obtain ⟨k, pc, f, sf, t, hth⟩ := hl'
    have hs0 := hs
    simp only [step] at hs0; split at hs0 <;> try simp at hs0
    rename_i k' ha'
    obtain ⟨t', hth'⟩ := addRef_th b b' a' k' hs ha'
    have := countP_ge_two TS.isLive b'.th a' a _ _ hne' hth' hth (by simp [TS.isLive]) (by simp [TS.isLive])
    unfold liveRefs at h1
    omega

structure CC1 (b : St) (m : C10St) (a : Nat) (c : Con) : Prop where
  st : c.pc = .start → c.wres = false ∧ c.go = .none
  gop : c.go = .relWait → c.op = .rwr true
  f1 : a ∈ m.fired → c.go = .done
  gw : c.go ≠ .none → Why m
  nw : c.wres = true → LiveTh b a → b.nonce ≠ c.wnonce → Why m

theorem trk_why (m : C10St) (o : CObs) (h : Why m) : Why (trk m o) := by
  have same : (trk m o).inval = m.inval → (trk m o).anyCtx = m.anyCtx → Why (trk m o) := by
    intro e1 e2; unfold Why; rw [e1, e2]; exact h
  cases o with
  | base bo =>
    cases bo with
    | envReleased k => exact Or.inl (by simp [trk])
    | invSetCtx a c cl => exact Or.inr rfl
    | _ => exact same rfl rfl
  | inv a op => exact same rfl rfl
  | cbin a i v => exact same rfl rfl
  | cbout a i r => exact same rfl rfl
  | ret a v e =>
    have := trk_fields m (.ret a v e) (by simp)
    exact same this.1 this.2.2.1
  | cancelCall a => exact same rfl rfl
  | cbinReleased a => exact same rfl rfl
  | probeCtx a i c => exact same rfl rfl
  | probeProm a _ _ _ => exact same rfl rfl

theorem trk_fired_back (m : C10St) (o : CObs) (a : Nat) (h : a ∈ (trk m o).fired) :
    a ∈ m.fired ∨ o = .cbinReleased a := by
  cases o with
  | base bo => cases bo <;> exact Or.inl h
  | inv a' op => exact Or.inl h
  | cbin a' i v => exact Or.inl h
  | cbout a' i r => exact Or.inl h
  | ret a' v e =>
    simp only [trk] at h
    left
    split at h
    · exact h
    · split at h <;> exact h
    · exact h
  | cancelCall a' => exact Or.inl h
  | cbinReleased a' =>
    simp only [trk, List.mem_cons] at h
    rcases h with rfl | h
    · exact Or.inr rfl
    · exact Or.inl h
  | probeCtx a' i c => exact Or.inl h
  | probeProm a' _ _ _ => exact Or.inl h

theorem cc1_mon (b : St) (m : C10St) (o : CObs) (a : Nat) (c : Con) (h : CC1 b m a c) (hne : o ≠ .cbinReleased a) :
    CC1 b (trk m o) a c :=
  { st := h.st, gop := h.gop
    f1 := by
      intro hm
      rcases trk_fired_back m o a hm with g | g
      · exact h.f1 g
      · exact absurd g hne
    gw := fun hg => trk_why m o (h.gw hg)
    nw := fun h1 h2 h3 => trk_why m o (h.nw h1 h2 h3) }

/-- the `nw` clause along a base step that is not the `AddRef` section of `a` -/
theorem nw_step (b b' : St) (be : Ev) (m : C10St) (a : Nat) (c : Con) (hs : step b be = some b')
    (hruns : RunsOk b m.inval) (hany : CtxAny b m.anyCtx) (hne : be ≠ .addRefCS a)
    (h : c.wres = true → LiveTh b a → b.nonce ≠ c.wnonce → Why m) :
    c.wres = true → LiveTh b' a → b'.nonce ≠ c.wnonce → Why m := by
  intro hw hl' hn
  by_cases hnn : b'.nonce = b.nonce
  · rcases liveTh_back b b' be a hs hl' with hl | he
    · exact h hw hl (by rw [← hnn]; exact hn)
    · exact absurd he hne
  · exact nonce_why b b' be m a hs hruns hany hl' hne hnn

theorem cc1_base (b b' : St) (be : Ev) (m : C10St) (a : Nat) (c : Con) (h : CC1 b m a c) (hs : step b be = some b')
    (hruns : RunsOk b m.inval) (hany : CtxAny b m.anyCtx) (hne : be ≠ .addRefCS a) : CC1 b' m a c :=
  { st := h.st, gop := h.gop, f1 := h.f1, gw := h.gw, nw := nw_step b b' be m a c hs hruns hany hne h.nw }

theorem cc1_keep (b : St) (m : C10St) (a a0 : Nat) (k : CbKind) (pc pc' : Pc) (live flag self : Bool)
    (told : Option Nat) (c : Con) (h : CC1 b m a c) (hth : b.th[a0]? = some (TS.ref k pc live flag self told)) :
    CC1 { b with th := b.th.set a0 (TS.ref k pc' live flag self told) } m a c :=
  { st := h.st, gop := h.gop, f1 := h.f1, gw := h.gw
    nw := fun h1 h2 h3 => h.nw h1 ((liveTh_keep b a a0 k pc pc' live flag self told hth).mp h2) h3 }

theorem cc1_upd (b' : St) (m' : C10St) (a : Nat) (c c' : Con) (h : CC1 b' m' a c) (e1 : c'.wres = c.wres)
    (e2 : c'.wnonce = c.wnonce) (e3 : c'.go = c.go) (e4 : c'.op = c.op) (hst : c'.pc = .start → c.pc = .start) :
    CC1 b' m' a c' :=
  { st := by intro hp; rw [e1, e3]; exact h.st (hst hp)
    gop := by rw [e3, e4]; exact h.gop
    f1 := by rw [e3]; exact h.f1
    gw := by rw [e3]; exact h.gw
    nw := by rw [e1, e2]; exact h.nw }

theorem hook_go_cases (c : Con) (n : Nat) (res : Bool) (v e : Nat) :
    (hook c n res v e).go = c.go ∨
    (c.go = .none ∧ (hook c n res v e).go = .rel ∧ c.wres = true ∧ (res = false ∨ n ≠ c.wnonce)) := by
  unfold hook
  cases hop : c.op with
  | access => simp only []; split <;> exact Or.inl rfl
  | wait => exact Or.inl rfl
  | resolve => exact Or.inl rfl
  | promise => exact Or.inl rfl
  | rwr cb =>
    simp only []
    by_cases hw : c.wres = true
    · rw [if_pos hw]
      by_cases hcond : (!res) = true ∨ n ≠ c.wnonce
      · rw [if_pos hcond]
        by_cases hg : c.go = .none
        · rw [if_pos hg]
          refine Or.inr ⟨hg, rfl, hw, ?_⟩
          rcases hcond with h | h
          · exact Or.inl (by simpa using h)
          · exact Or.inr h
        · rw [if_neg hg]; exact Or.inl rfl
      · rw [if_neg hcond]; exact Or.inl rfl
    · rw [if_neg hw]
      split <;> exact Or.inl rfl

theorem hook_wres (c : Con) (n : Nat) (res : Bool) (v e : Nat) :
    ((hook c n res v e).wres = c.wres ∧ (hook c n res v e).wnonce = c.wnonce) ∨
    (c.wres = false ∧ (hook c n res v e).wres = true ∧ (hook c n res v e).wnonce = n) := by
  unfold hook
  cases hop : c.op with
  | access => simp only []; split <;> exact Or.inl ⟨rfl, rfl⟩
  | wait => exact Or.inl ⟨rfl, rfl⟩
  | resolve => exact Or.inl ⟨rfl, rfl⟩
  | promise => exact Or.inl ⟨rfl, rfl⟩
  | rwr cb =>
    simp only []
    by_cases hw : c.wres = true
    · rw [if_pos hw]
      (repeat' split) <;> exact Or.inl ⟨rfl, rfl⟩
    · have hw' : c.wres = false := by simpa using hw
      rw [if_neg hw]
      split
      · exact Or.inr ⟨hw', rfl, rfl⟩
      · exact Or.inl ⟨rfl, rfl⟩

/-- the clauses after a base move given by `OwnBase` (default form) -/
theorem cc1_own (s s' : CSt) (m : C10St) (a : Nat) (c : Con) (P : Prop) (h : CC1 s.b m a c) (hb : BInv s.b m)
    (hob : (P ∧ step s.b (.selfRelSwap a) = some s'.b) ∨ s'.b = s.b) :
    CC1 s'.b m a c := by
  rcases hob with ⟨_, hst⟩ | hbb
  · exact cc1_base s.b s'.b _ m a c h hst hb.runs hb.any (by simp)
  · rw [hbb]; exact h

theorem cc1_trans (s s' : CSt) (e : CEv) (m : C10St) (a : Nat) (c c' : Con) (ht : Trans s e a c c')
    (hs : cstep s e = some s') (h1 : getCon s a = some c) (h2 : getCon s' a = some c')
    (h : CC1 s.b m a c) (hcb : CB s.b m a c) (hb : BInv s.b m) (hil : IL s.b) (hil2 : IL2 s.b) :
    CC1 s'.b (after m e) a c' := by
  cases ht with
  | hook a c res v er =>
    show CC1 s'.b m a (hook c s.b.nonce res v er)
    have hob := own_base s s' _ a c _ hs h1 h2 (Or.inr (Or.inl ⟨res, v, er, rfl⟩))
    simp only [OwnBase] at hob
    have hmem := cb_mem s.b s'.b _ hob
    obtain ⟨g1, g2⟩ := hb.item a false res v er hmem
    have hnn : s'.b.nonce = s.b.nonce := by
      apply Classical.byContradiction
      intro hne
      rcases nonce_cases s.b s'.b _ hob hne with ⟨a0, he⟩ | ⟨j, he⟩ | ⟨⟨b0, he | he⟩, _⟩ | ⟨a0, he, _⟩ <;> cases he
    have hnstart : c.pc ≠ .start := by
      intro hp
      obtain ⟨hth, _⟩ := hcb.start hp
      obtain ⟨k, pc, l, f, sf, t, hth2, hpc⟩ := hil a res v er hmem
      rw [hth] at hth2; cases hth2; exact hpc rfl
    have h' := cc1_base s.b s'.b _ m a c h hob hb.runs hb.any (by simp)
    have hlive : LiveTh s.b a := hil2 a res v er hmem
    have hwhy_go : (hook c s.b.nonce res v er).go ≠ c.go → Why m := by
      intro hne
      rcases hook_go_cases c s.b.nonce res v er with hg | ⟨_, _, hw, hc⟩
      · exact absurd hg hne
      · rcases hc with hc | hc
        · exact (g2 hc).2.2.2
        · exact h.nw hw hlive hc
    exact
      { st := by rw [hook_pc]; exact fun hp => absurd hp hnstart
        gop := by
          intro hg
          rw [hook_op]
          rcases hook_go_cases c s.b.nonce res v er with hg2 | ⟨_, hg2, _⟩
          · exact h.gop (by rw [← hg2]; exact hg)
          · rw [hg2] at hg; cases hg
        f1 := by
          intro hm
          have := h.f1 hm
          rcases hook_go_cases c s.b.nonce res v er with hg2 | ⟨hg2, _⟩
          · rw [hg2]; exact this
          · rw [this] at hg2; cases hg2
        gw := by
          intro hg
          by_cases hsame : (hook c s.b.nonce res v er).go = c.go
          · exact h.gw (by rw [← hsame]; exact hg)
          · exact hwhy_go hsame
        nw := by
          intro hw hl hn
          rcases hook_wres c s.b.nonce res v er with ⟨q1, q2⟩ | ⟨_, _, q3⟩
          · exact h'.nw (by rw [← q1]; exact hw) hl (by rw [← q2]; exact hn)
          · rw [q3, hnn] at hn; exact absurd rfl hn }
  | started a c hs0 =>
    show CC1 s'.b m a _
    obtain ⟨hw, hg⟩ := h.st hs0
    exact
      { st := by intro hp; by_cases hop : c.op = COp.access <;> simp [hop] at hp
        gop := by intro hg'; have : c.go = .relWait := hg'; rw [hg] at this; cases this
        f1 := h.f1
        gw := h.gw
        nw := by intro hw'; have : c.wres = true := hw'; rw [hw] at this; cases this }
  | snapErr a c hl he =>
    show CC1 s'.b m a _
    have hob := own_base s s' _ a c _ hs h1 h2 (Or.inr (Or.inr (Or.inl rfl)))
    simp only [OwnBase] at hob
    exact cc1_upd _ _ a c _ (cc1_own s s' m a c _ h hb hob) rfl rfl rfl rfl (by simp [snapped])
  | snapCall a c hl he hr =>
    show CC1 s'.b m a _
    have hob := own_base s s' _ a c _ hs h1 h2 (Or.inr (Or.inr (Or.inl rfl)))
    simp only [OwnBase] at hob
    exact cc1_upd _ _ a c _ (cc1_own s s' m a c _ h hb hob) rfl rfl rfl rfl (by simp [snapped])
  | snapWait a c hl he hr =>
    show CC1 s'.b m a _
    have hob := own_base s s' _ a c _ hs h1 h2 (Or.inr (Or.inr (Or.inl rfl)))
    simp only [OwnBase] at hob
    exact cc1_upd _ _ a c _ (cc1_own s s' m a c _ h hb hob) rfl rfl rfl rfl (by simp [snapped])
  | watch a c =>
    show CC1 s'.b m a _
    have hob := own_base s s' _ a c _ hs h1 h2 (Or.inr (Or.inr (Or.inr (Or.inl rfl))))
    simp only [OwnBase] at hob
    exact cc1_upd _ _ a c _ (cc1_own s s' m a c _ h hb hob) rfl rfl rfl rfl (fun hp => hp)
  | cbin a i v n ch c hpc hm =>
    show CC1 s'.b (trk m (.cbin a i v)) a _
    have hob := own_base s s' _ a c _ hs h1 h2 (Or.inr (Or.inr (Or.inr (Or.inr (Or.inl ⟨i, v, rfl⟩)))))
    simp only [OwnBase] at hob
    exact cc1_upd _ _ a c _ (cc1_mon _ m _ a c (cc1_own s s' m a c _ h hb hob) (by simp)) rfl rfl rfl rfl (by simp)
  | cbout a i r v n ch c hpc =>
    show CC1 s'.b (trk m (.cbout a i r)) a _
    have hob := own_base s s' _ a c _ hs h1 h2
      (Or.inr (Or.inr (Or.inr (Or.inr (Or.inr (Or.inl ⟨i, r, rfl⟩))))))
    simp only [OwnBase] at hob
    exact cc1_upd _ _ a c _ (cc1_mon _ m _ a c (cc1_own s s' m a c _ h hb hob) (by simp)) rfl rfl rfl rfl (by simp)
  | checkCancel a r n ch c hpc hc =>
    show CC1 s'.b m a _
    have hob := own_base s s' _ a c _ hs h1 h2
      (Or.inr (Or.inr (Or.inr (Or.inr (Or.inr (Or.inr (Or.inl rfl)))))))
    simp only [OwnBase] at hob
    exact cc1_upd _ _ a c _ (cc1_own s s' m a c _ h hb hob) rfl rfl rfl rfl (by simp)
  | checkGo a r n ch c hpc hc =>
    show CC1 s'.b m a _
    have hob := own_base s s' _ a c _ hs h1 h2
      (Or.inr (Or.inr (Or.inr (Or.inr (Or.inr (Or.inr (Or.inl rfl)))))))
    simp only [OwnBase] at hob
    exact cc1_upd _ _ a c _ (cc1_own s s' m a c _ h hb hob) rfl rfl rfl rfl (by simp)
  | recheckSame a r n ch c hpc hn =>
    show CC1 s'.b m a _
    have hob := own_base s s' _ a c _ hs h1 h2
      (Or.inr (Or.inr (Or.inr (Or.inr (Or.inr (Or.inr (Or.inr (Or.inl rfl))))))))
    simp only [OwnBase] at hob
    exact cc1_upd _ _ a c _ (cc1_own s s' m a c _ h hb hob) rfl rfl rfl rfl (by simp)
  | recheckDiff a r n ch c hpc hn =>
    show CC1 s'.b m a _
    have hob := own_base s s' _ a c _ hs h1 h2
      (Or.inr (Or.inr (Or.inr (Or.inr (Or.inr (Or.inr (Or.inr (Or.inl rfl))))))))
    simp only [OwnBase] at hob
    exact cc1_upd _ _ a c _ (cc1_own s s' m a c _ h hb hob) rfl rfl rfl rfl (by simp)
  | waitCancel a n ch c hpc hc =>
    show CC1 s'.b m a _
    have hob := own_base s s' _ a c _ hs h1 h2
      (Or.inr (Or.inr (Or.inr (Or.inr (Or.inr (Or.inr (Or.inr (Or.inr (Or.inl rfl)))))))))
    simp only [OwnBase] at hob
    exact cc1_upd _ _ a c _ (cc1_own s s' m a c _ h hb hob) rfl rfl rfl rfl (by simp)
  | awaitErr a v x c hpc hp he =>
    show CC1 s'.b m a _
    have hob := own_base s s' _ a c _ hs h1 h2
      (Or.inr (Or.inr (Or.inr (Or.inr (Or.inr (Or.inr (Or.inr (Or.inr (Or.inr (Or.inl rfl))))))))))
    simp only [OwnBase] at hob
    exact cc1_upd _ _ a c _ (cc1_own s s' m a c _ h hb hob) rfl rfl rfl rfl (by simp)
  | awaitOk a v c hpc hp =>
    show CC1 s'.b m a _
    have hob := own_base s s' _ a c _ hs h1 h2
      (Or.inr (Or.inr (Or.inr (Or.inr (Or.inr (Or.inr (Or.inr (Or.inr (Or.inr (Or.inl rfl))))))))))
    simp only [OwnBase] at hob
    exact cc1_upd _ _ a c _ (cc1_own s s' m a c _ h hb hob) rfl rfl rfl rfl (by simp)
  | awaitCancel a c hpc hc =>
    show CC1 s'.b m a _
    have hob := own_base s s' _ a c _ hs h1 h2
      (Or.inr (Or.inr (Or.inr (Or.inr (Or.inr (Or.inr (Or.inr (Or.inr (Or.inr (Or.inr (Or.inl rfl)))))))))))
    simp only [OwnBase] at hob
    exact cc1_upd _ _ a c _ (cc1_own s s' m a c _ h hb hob) rfl rfl rfl rfl (by simp)
  | retWait a v x c hpc =>
    show CC1 s'.b (trk m (.ret a v x)) a _
    have hbb : s'.b = s.b := by
      simp only [cstep, h1] at hs
      rw [hpc] at hs
      simp at hs
      obtain ⟨_, rfl⟩ := hs; rfl
    rw [hbb]
    exact cc1_upd _ _ a c _ (cc1_mon _ m _ a c h (by simp)) rfl rfl rfl rfl (by simp)
  | retKeep a v x c hpc =>
    show CC1 s'.b (trk m (.ret a v x)) a _
    have hmv : ∃ k pc live flag self told, s.b.th[a]? = some (TS.ref k pc live flag self told) ∧
        s'.b = { s.b with th := s.b.th.set a (TS.ref k .retd live flag self told) } := by
      simp only [cstep, h1] at hs
      rw [hpc] at hs
      simp at hs
      split at hs <;> simp at hs
      rename_i k pc live flag self told hth
      subst hs
      exact ⟨k, pc, live, flag, self, told, hth, rfl⟩
    obtain ⟨k, pc, live, flag, self, told, hth, hbb⟩ := hmv
    rw [hbb]
    exact cc1_upd _ _ a c _ (cc1_mon _ m _ a c (cc1_keep s.b m a a k pc .retd live flag self told c h hth) (by simp))
      rfl rfl rfl rfl (by simp)
  | cancel a c =>
    show CC1 s'.b (trk m (.cancelCall a)) a _
    have hbb : s'.b = s.b := by
      simp [cstep, h1] at hs
      subst hs; rfl
    rw [hbb]
    exact cc1_upd _ _ a c _ (cc1_mon _ m _ a c h (by simp)) rfl rfl rfl rfl (fun hp => hp)
  | goRel a c hg =>
    show CC1 s'.b m a _
    have hob := own_base s s' _ a c _ hs h1 h2
      (Or.inr (Or.inr (Or.inr (Or.inr (Or.inr (Or.inr (Or.inr (Or.inr (Or.inr (Or.inr (Or.inr (Or.inr (Or.inr (Or.inl rfl))))))))))))))
    simp only [OwnBase] at hob
    have h' := cc1_base s.b s'.b _ m a c h hob hb.runs hb.any (by simp)
    have hnst : c.pc ≠ .start := by intro hp; have := (h.st hp).2; rw [this] at hg; cases hg
    exact
      { st := fun hp => absurd hp hnst
        gop := by
          intro hg'
          by_cases hop : c.op = .rwr true
          · exact hop
          · simp [hop] at hg'
        f1 := by
          intro hm
          have := h.f1 hm
          rw [this] at hg; cases hg
        gw := fun _ => h.gw (by rw [hg]; simp)
        nw := h'.nw }
  | goCb a c hg =>
    show CC1 s'.b (trk m (.cbinReleased a)) a _
    have hbb : s'.b = s.b := by
      simp only [cstep, h1] at hs
      split at hs <;> simp at hs
      subst hs; rfl
    rw [hbb]
    have hnst : c.pc ≠ .start := by intro hp; have := (h.st hp).2; rw [this] at hg; cases hg
    exact
      { st := fun hp => absurd hp hnst
        gop := by simp
        f1 := fun _ => rfl
        gw := fun _ => trk_why m _ (h.gw (by rw [hg]; simp))
        nw := fun q1 q2 q3 => trk_why m _ (h.nw q1 q2 q3) }

/-! ## the relation -/

def RC1 (s : CSt) (m : C10St) : Prop :=
  RB s m ∧ IL2 s.b ∧ (∀ a ∈ m.fired, a < s.ct.length) ∧
  ∀ (a : Nat) (c : Con), getCon s a = some c → CC1 s.b m a c

theorem obs_released (e : CEv) (a : Nat) (h : CEv.obs e = some (.cbinReleased a)) : e = .goCb a := by
  cases e <;> simp [CEv.obs] at h
  case goCb a' => rw [h]

theorem il2_keep (b : St) (a0 : Nat) (k : CbKind) (pc : Pc) (live flag self : Bool) (told : Option Nat) (h : IL2 b)
    (hth : b.th[a0]? = some (TS.ref k pc live flag self told)) :
    IL2 { b with th := b.th.set a0 (TS.ref k .retd live flag self told) } := by
  intro a res v e hm
  exact (liveTh_keep b a a0 k pc .retd live flag self told hth).mpr (h a res v e hm)

theorem rc1_step (s : CSt) (e : CEv) (s' : CSt) (m : C10St) (h : RC1 s m) (hs : cstep s e = some s') :
    RC1 s' (after m e) := by
  obtain ⟨hrb, hil2, hff, hcons⟩ := h
  have hrb' := rb_step s e s' m hrb hs
  obtain ⟨hra, hci, hil, hfr, hcbs⟩ := hrb
  obtain ⟨⟨hal, hb⟩, hfresh, hcas⟩ := hra
  have hmono := ct_length_mono s s' e hs
  have hmove := cstep_base s s' e hs
  have hil2' : IL2 s'.b := by
    rcases hmove with ⟨be, _, hst, _⟩ | ⟨a0, op, _, hst, _⟩ | ⟨a0, hst, _⟩ | ⟨hbb, _⟩ |
        ⟨a0, v, x, k, pc, live, flag, self, told, c0, _, _, hth0, hbb, _⟩
    · exact il2_step s.b s'.b be hb.inv hil2 hst
    · exact il2_step s.b s'.b _ hb.inv hil2 hst
    · exact il2_step s.b s'.b _ hb.inv hil2 hst
    · rw [hbb]; exact hil2
    · rw [hbb]; exact il2_keep s.b a0 k pc live flag self told hil2 hth0
  have hff' : ∀ a ∈ (after m e).fired, a < s'.ct.length := by
    intro a ha
    unfold after at ha
    cases hob : CEv.obs e with
    | none => rw [hob] at ha; exact Nat.lt_of_lt_of_le (hff a ha) hmono
    | some o =>
      rw [hob] at ha
      rcases trk_fired_back m o a ha with g | g
      · exact Nat.lt_of_lt_of_le (hff a g) hmono
      · subst g
        have he := obs_released e a hob; subst he
        simp only [cstep] at hs
        cases hc : getCon s a with
        | none => simp [hc] at hs
        | some c => exact Nat.lt_of_lt_of_le (getCon_lt s a c hc) hmono
  refine ⟨hrb', hil2', hff', ?_⟩
  intro a c' hc'
  have mon : ∀ (c : Con), CC1 s.b m a c → ¬ Targets e a → CC1 s.b (after m e) a c := by
    intro c hcc hnt
    unfold after
    cases hob : CEv.obs e with
    | none => exact hcc
    | some o =>
      refine cc1_mon s.b m o a c hcc ?_
      intro he
      exact hnt (by rw [obs_released e a (by rw [hob, he])]; simp [Targets])
  rcases (cstep_frame s s' e hs).1 a c' hc' with hun | ⟨c, hc, ht⟩ | ⟨hnone, a', op, he, hcn⟩
  · have hcc := hcons a c' hun
    by_cases htg : Targets e a
    · have ht := own_trans_full s s' e a c' c' hs hun hc' htg
      exact cc1_trans s s' e m a c' c' ht hs hun hc' hcc (hcbs a c' hun) hb hil hil2
    · have hcc1 := mon c' hcc htg
      have hruns : RunsOk s.b (after m e).inval ∧ CtxAny s.b (after m e).anyCtx := by
        -- the monitor lists only grow
        unfold after
        cases hob : CEv.obs e with
        | none => exact ⟨hb.runs, hb.any⟩
        | some o =>
          refine ⟨?_, ?_⟩
          · intro i hi
            obtain ⟨c, k, g1, g2, g3⟩ := hb.runs i hi
            refine ⟨c, k, g1, g2, ?_⟩
            cases o with
            | base bo =>
              cases bo with
              | envReleased k' => exact List.mem_cons_of_mem _ g3
              | _ => exact g3
            | ret a' v x =>
              have := (trk_fields m (.ret a' v x) (by simp)).1
              rw [this]; exact g3
            | _ => exact g3
          · intro a' c cl pc u ha'
            have := hb.any a' c cl pc u ha'
            cases o with
            | base bo =>
              cases bo with
              | invSetCtx a'' c'' cl'' => rfl
              | _ => exact this
            | ret a'' v x =>
              have h3 := (trk_fields m (.ret a'' v x) (by simp)).2.2.1
              rw [h3]; exact this
            | _ => exact this
      rcases hmove with ⟨be, he, hst, _, n1, n2, _⟩ | ⟨a0, op, he, hst, _⟩ | ⟨a0, hst, _, _, hlist⟩ | ⟨hbb, _⟩ |
          ⟨a0, v, x, k, pc, live, flag, self, told, c0, he, _, hth0, hbb, _⟩
      · exact cc1_base s.b s'.b be _ a c' hcc1 hst hruns.1 hruns.2
          (by intro hbe; exact htg (by rw [he, hbe]; simp [Targets]))
      · exact cc1_base s.b s'.b _ _ a c' hcc1 hst hruns.1 hruns.2 (by simp)
      · exact cc1_base s.b s'.b _ _ a c' hcc1 hst hruns.1 hruns.2 (by simp)
      · rw [hbb]; exact hcc1
      · rw [hbb]; exact cc1_keep s.b _ a a0 k pc .retd live flag self told c' hcc1 hth0
  · exact cc1_trans s s' e m a c c' ht hs hc hc' (hcons a c hc) (hcbs a c hc) hb hil hil2
  · subst he
    have haa := (inv_new s s' a a' op hal hs).2 c' hnone hc'
    subst haa
    subst hcn
    have hlen := (inv_new s s' a a op hal hs).1
    show CC1 s'.b (trk m (.inv a op)) a { op := op }
    exact
      { st := fun _ => ⟨rfl, rfl⟩
        gop := by simp
        f1 := by
          intro hm
          have hm' : a ∈ m.fired := hm
          have := hff a hm'
          omega
        gw := by simp
        nw := by simp }

theorem rc1_init : RC1 ({} : CSt) ({} : C10St) :=
  ⟨rb_init, (by intro a res v e hm; simp [AItem] at hm), (by intro a ha; cases ha),
    (by intro a c h; simp [getCon] at h)⟩

theorem chkReleased_ok (s : CSt) (e : CEv) (s' : CSt) (m : C10St) (o : CObs) (h : RC1 s m)
    (hs : cstep s e = some s') (hob : CEv.obs e = some o) : chkReleased m o = true := by
  obtain ⟨⟨⟨_, _, hcas⟩, _⟩, _, _, hcons⟩ := h
  cases o with
  | cbinReleased a =>
    have he := obs_released e a hob; subst he
    simp only [cstep] at hs
    cases hc : getCon s a with
    | none => simp [hc] at hs
    | some c =>
      simp only [hc] at hs
      split at hs <;> simp at hs
      rename_i hcond
      have hca := hcas a c hc
      have hcc := hcons a c hc
      have hop := hcc.gop hcond.1
      have h1 : opOf m a = some (.rwr true) := by rw [hca.ops, hop]
      have h2 : m.fired.contains a = false := by
        cases hcon : m.fired.contains a
        · rfl
        · have := hcc.f1 (by simpa using hcon)
          rw [this] at hcond; simp at hcond
      have h3 : (!m.inval.isEmpty || m.anyCtx) = true := by
        rcases hcc.gw (by rw [hcond.1]; simp) with g | g
        · cases hl : m.inval with
          | nil => exact absurd hl g
          | cons x xs => simp
        · simp [g]
      show (opOf m a == some (.rwr true) && !m.fired.contains a && (!m.inval.isEmpty || m.anyCtx)) = true
      rw [h1, h2, h3]; rfl
  | base bo => rfl
  | inv a op => rfl
  | cancelCall a => rfl
  | ret a v x => rfl
  | probeCtx a i c => rfl
  | probeProm a _ _ _ => rfl
  | cbin a i v => rfl
  | cbout a i r => rfl

/-- **C10 (observable form, `released_once`).** Every observable trace of the composed model is accepted
by `monC10Released`: the `released` callback of a `ResolveWithReleased` call runs at most once, only for
a call that passed a callback, and only after some value was invalidated (a `released()` callback was
called or a context was set). -/
theorem c10_released_obs (es : List CEv) (s : CSt) (h : cmodel.run cmodel.init es = some s) :
    monC10Released.accepts (es.filterMap cmodel.obs) = true :=
  clause_sim chkReleased RC1 rc1_init rc1_step chkReleased_ok es s h

end UtilModel.RefCount.Cons
