import UtilModel.RefCount.ConsTrans
import UtilModel.RefCount.ConsMonitors
import UtilModel.RefCount.ObsHidden
import UtilModel.RefCount.ObsC09
import UtilModel.RefCount.ObsNoPanic
import UtilModel.RefCount.Frame5
import UtilModel.RefCount.ObsEv
/-!
# refcount consumers: the base-model monitors `monC08c`, `monC09c` accept every observable trace of
the composed model — the simulation relations of the base model, lifted along `cstep`
-/
set_option linter.unusedSimpArgs false
set_option linter.unusedVariables false
namespace UtilModel.RefCount
open UtilModel

/-! ## length of the thread table -/

def newThread : Ev → Bool
  | .invAddRef _ _ | .invRelease _ _ | .invSetCtx _ _ _ | .invHook _ => true
  | _ => false

theorem shutdown_th_length (s0 : St) : (shutdown s0).th.length = s0.th.length := by
  rw [shutdown_th]; split <;> simp [tellAll]

theorem startResolve_th_length (s0 : St) : (startResolve s0).th.length = s0.th.length := by
  rw [startResolve_th]; exact shutdown_th_length s0

theorem afterRemove_th_length (s0 : St) : (afterRemove s0).th.length = s0.th.length := by
  unfold afterRemove; split
  · split
    · exact shutdown_th_length s0
    · rfl
  · rfl

theorem th_length_step (s s' : St) (e : Ev) (hs : step s e = some s') :
    s'.th.length = s.th.length + (if newThread e then 1 else 0) := by
  cases e with
  | cfg kp c t => simp only [step] at hs; split at hs <;> simp at hs; subst hs; simp [newThread]
  | envCancelCtx c => simp only [step] at hs; split at hs <;> simp at hs; subst hs; simp [newThread]
  | envReleased k => simp only [step] at hs; split at hs <;> simp at hs; subst hs; simp [newThread]
  | quiesce B => simp only [step] at hs; split at hs <;> simp at hs; subst hs; simp [newThread]
  | probe v er => simp only [step] at hs; split at hs <;> simp at hs; subst hs; simp [newThread]
  | cb it =>
    simp only [step] at hs; split at hs <;> try simp at hs
    obtain ⟨_, rfl⟩ := hs; simp [newThread]
  | enter i k =>
    simp only [step] at hs; split at hs <;> try simp at hs
    obtain ⟨_, rfl⟩ := hs; simp [newThread, setCall]
  | giveUp i =>
    simp only [step] at hs; split at hs <;> try simp at hs
    obtain ⟨_, rfl⟩ := hs; simp [newThread, setCall]
  | drained i =>
    simp only [step] at hs; split at hs <;> try simp at hs
    obtain ⟨_, rfl⟩ := hs; simp [newThread, setCall]
  | leave i k v hr er =>
    simp only [step] at hs; split at hs <;> try simp at hs
    obtain ⟨_, rfl⟩ := hs; simp [newThread, setCall]
  | done i =>
    simp only [step] at hs; split at hs <;> try simp at hs
    obtain ⟨_, rfl⟩ := hs; simp [newThread, setCall]
  | store i =>
    simp only [step] at hs; split at hs <;> try simp at hs
    split at hs <;> try simp at hs
    obtain ⟨_, hs⟩ := hs
    split at hs
    · simp at hs; subst hs; simp [newThread, setCall, tellAll]
    · split at hs <;> simp at hs <;> subst hs <;> simp [newThread, setCall]
  | relRun r =>
    simp only [step] at hs; split at hs <;> try simp at hs
    split at hs <;> try simp at hs
    split at hs <;> simp at hs <;> obtain ⟨_, rfl⟩ := hs
    · rw [startResolve_th_length]; simp [newThread]
    · simp [newThread]
  | invAddRef a k => simp only [step] at hs; split at hs <;> simp at hs; subst hs; simp [newThread]
  | invHook a => simp only [step] at hs; split at hs <;> simp at hs; subst hs; simp [newThread]
  | invRelease b r =>
    simp only [step] at hs; split at hs <;> try simp at hs
    split at hs <;> try simp at hs
    subst hs; simp [newThread]
  | invSetCtx a c cl => simp only [step] at hs; split at hs <;> simp at hs; subst hs; simp [newThread]
  | retAddRef a =>
    simp only [step] at hs; split at hs <;> try simp at hs
    obtain ⟨_, rfl⟩ := hs; simp [newThread]
  | retRelease b =>
    simp only [step] at hs; split at hs <;> try simp at hs
    obtain ⟨_, rfl⟩ := hs; simp [newThread]
  | retSetCtx a0 u0 =>
    simp only [step] at hs; split at hs <;> try simp at hs
    obtain ⟨_, rfl⟩ := hs; simp [newThread]
  | selfRelSwap a =>
    simp only [step] at hs; split at hs <;> try simp at hs
    obtain ⟨_, hs⟩ := hs
    split at hs <;> simp at hs <;> subst hs <;> simp [newThread]
  | relSwap b =>
    simp only [step] at hs; split at hs <;> try simp at hs
    split at hs <;> simp at hs <;> subst hs <;> simp [newThread]
  | setCtxCS a0 =>
    simp only [step] at hs; split at hs <;> try simp at hs
    split at hs <;> simp at hs <;> obtain ⟨_, rfl⟩ := hs
    · simp [newThread]
    · rw [startResolve_th_length]; simp [newThread]
  | addRefCS a =>
    simp only [step] at hs; split at hs <;> try simp at hs
    obtain ⟨_, hs⟩ := hs
    split at hs
    · simp at hs; subst hs; rw [startResolve_th_length]; simp [newThread]
    · split at hs <;> simp at hs <;> subst hs <;> simp [newThread]
  | relCS b =>
    simp only [step] at hs; split at hs <;> try simp at hs
    split at hs <;> try simp at hs
    case h_2 => obtain ⟨_, rfl⟩ := hs; simp [newThread]
    obtain ⟨_, rfl⟩ := hs
    rw [afterRemove_th_length]; simp [newThread]
  | selfRelCS a =>
    simp only [step] at hs; split at hs <;> try simp at hs
    obtain ⟨_, rfl⟩ := hs
    rw [afterRemove_th_length]; simp [newThread]

namespace Cons

/-! ## what a step of the composed model does to the base component -/

/-- the base component moves by a base event, stays, or (return of `Wait` / `Resolve` /
`ResolveWithReleased` with a reference) has the consumer's own thread entry marked as returned -/
def BaseMove (s s' : CSt) (e : CEv) : Prop :=
  (∃ be, e = .base be ∧ step s.b be = some s'.b ∧
    s'.ct.length = s.ct.length + (if appendsThread be then 1 else 0) ∧
    (∀ a, be ≠ .invHook a) ∧ (∀ a, be ≠ .selfRelSwap a) ∧ (∀ v x, be ≠ .probe v x) ∧ (∀ B, be ≠ .quiesce B)) ∨
  (∃ a op, e = .inv a op ∧ step s.b (.invHook a) = some s'.b ∧ s'.ct = s.ct ++ [some { op := op }]) ∨
  (∃ a, step s.b (.selfRelSwap a) = some s'.b ∧ CEv.obs e = none ∧ s'.ct.length = s.ct.length ∧
    (e = .snap a ∨ e = .check a ∨ e = .recheck a ∨ e = .waitCancel a ∨ e = .await a ∨ e = .awaitCancel a ∨
      e = .goRel a)) ∨
  (s'.b = s.b ∧ s'.ct.length = s.ct.length ∧ (∀ be, e ≠ .base be) ∧ (∀ a op, e ≠ .inv a op)) ∨
  (∃ a v x k pc live flag self told c, e = .ret a v x ∧ getCon s a = some c ∧
    s.b.th[a]? = some (TS.ref k pc live flag self told) ∧
    s'.b = { s.b with th := s.b.th.set a (TS.ref k .retd live flag self told) } ∧ s'.ct.length = s.ct.length)

theorem setCon_ct_length (s : CSt) (a : Nat) (c : Con) : (setCon s a c).ct.length = s.ct.length := by
  simp [setCon]

theorem exitRel_move (s s' : CSt) (a : Nat) (c : Con) (v e : Nat) (h : exitRel s a c v e = some s') :
    step s.b (.selfRelSwap a) = some s'.b ∧ s'.ct.length = s.ct.length := by
  unfold exitRel at h
  cases hst : step s.b (.selfRelSwap a) with
  | none => simp [hst] at h
  | some b' =>
    simp [hst] at h; subst h
    exact ⟨rfl, by simp [setCon]⟩

theorem cstep_base (s s' : CSt) (e : CEv) (hs : cstep s e = some s') : BaseMove s s' e := by
  have same : s'.b = s.b → s'.ct.length = s.ct.length → (∀ be, e ≠ .base be) → (∀ a op, e ≠ .inv a op) →
      BaseMove s s' e := fun h1 h2 h3 h4 => Or.inr (Or.inr (Or.inr (Or.inl ⟨h1, h2, h3, h4⟩)))
  have swap : ∀ a, step s.b (.selfRelSwap a) = some s'.b → CEv.obs e = none → s'.ct.length = s.ct.length →
      (e = .snap a ∨ e = .check a ∨ e = .recheck a ∨ e = .waitCancel a ∨ e = .await a ∨ e = .awaitCancel a ∨
        e = .goRel a) →
      BaseMove s s' e := fun a h1 h2 h3 h4 => Or.inr (Or.inr (Or.inl ⟨a, h1, h2, h3, h4⟩))
  cases e with
  | base be =>
    left
    have generic : ∀ (b' : St), step s.b be = some b' → (∀ a, be ≠ .invHook a) → (∀ a, be ≠ .selfRelSwap a) →
        (∀ v x, be ≠ .probe v x) → (∀ B, be ≠ .quiesce B) →
        s' = { s with b := b', ct := if appendsThread be then s.ct ++ [none] else s.ct } →
        ∃ be', CEv.base be = .base be' ∧ step s.b be' = some s'.b ∧
          s'.ct.length = s.ct.length + (if appendsThread be' then 1 else 0) ∧
          (∀ a, be' ≠ .invHook a) ∧ (∀ a, be' ≠ .selfRelSwap a) ∧ (∀ v x, be' ≠ .probe v x) ∧ (∀ B, be' ≠ .quiesce B) := by
      intro b' hst n1 n2 n3 n4 hs'
      subst hs'
      refine ⟨be, rfl, hst, ?_, n1, n2, n3, n4⟩
      split <;> simp
    cases be with
    | invHook a => simp [cstep] at hs
    | selfRelSwap a => simp [cstep] at hs
    | probe v e => simp [cstep] at hs
    | quiesce B => simp [cstep] at hs
    | addRefCS a =>
      simp only [cstep] at hs
      cases hst : step s.b (.addRefCS a) with
      | none => simp [hst] at hs
      | some b' =>
        simp only [hst] at hs
        cases hc : getCon s a with
        | none =>
          simp [hc] at hs; subst hs
          exact ⟨_, rfl, hst, by simp [appendsThread], by simp, by simp, by simp, by simp⟩
        | some c =>
          simp only [hc] at hs
          split at hs <;> simp at hs
          subst hs
          exact ⟨_, rfl, hst, by simp [appendsThread, setCon], by simp, by simp, by simp, by simp⟩
    | cb it =>
      cases it with
      | rel i k seen =>
        simp only [cstep] at hs
        cases hst : step s.b (.cb (.rel i k seen)) with
        | none => simp [hst] at hs
        | some b' =>
          simp [hst, appendsThread] at hs; subst hs
          exact ⟨_, rfl, hst, by simp [appendsThread], by simp, by simp, by simp, by simp⟩
      | refcb a vis res v er =>
        cases vis with
        | true =>
          simp only [cstep] at hs
          cases hst : step s.b (.cb (.refcb a true res v er)) with
          | none => simp [hst] at hs
          | some b' =>
            simp [hst, appendsThread] at hs; subst hs
            exact ⟨_, rfl, hst, by simp [appendsThread], by simp, by simp, by simp, by simp⟩
        | false =>
          simp only [cstep] at hs
          cases hst : step s.b (.cb (.refcb a false res v er)) with
          | none => simp [hst] at hs
          | some b' =>
            simp only [hst] at hs
            cases hc : getCon s a with
            | none =>
              simp [hc] at hs; subst hs
              exact ⟨_, rfl, hst, by simp [appendsThread], by simp, by simp, by simp, by simp⟩
            | some c =>
              simp [hc] at hs; subst hs
              exact ⟨_, rfl, hst, by simp [appendsThread, setCon], by simp, by simp, by simp, by simp⟩
    | _ =>
      simp only [cstep] at hs
      split at hs <;> simp at hs
      rename_i b' hst
      exact generic b' hst (by simp) (by simp) (by simp) (by simp) hs.symm
  | inv a op =>
    simp only [cstep] at hs
    cases hst : step s.b (.invHook a) with
    | none => simp [hst] at hs
    | some b' =>
      simp [hst] at hs; subst hs
      exact Or.inr (Or.inl ⟨a, op, rfl, hst, rfl⟩)
  | snap a =>
    simp only [cstep] at hs
    cases hc : getCon s a with
    | none => simp [hc] at hs
    | some c =>
      simp only [hc] at hs
      split at hs <;> try simp at hs
      split at hs
      · split at hs <;> simp at hs <;> subst hs <;>
          exact same rfl (by simp [setCon]) (by simp) (by simp)
      · obtain ⟨h1, h2⟩ := exitRel_move s s' a _ 0 c.ce hs
        exact swap a h1 rfl h2 (Or.inl rfl)
  | watch a =>
    simp only [cstep] at hs
    cases hc : getCon s a with
    | none => simp [hc] at hs
    | some c =>
      simp only [hc] at hs
      split at hs <;> try simp at hs
      all_goals
        obtain ⟨_, rfl⟩ := hs
        exact same rfl (by simp [setCon]) (by simp) (by simp)
  | cbin a m v =>
    simp only [cstep] at hs
    cases hc : getCon s a with
    | none => simp [hc] at hs
    | some c =>
      simp only [hc] at hs
      split at hs <;> try simp at hs
      obtain ⟨_, rfl⟩ := hs
      exact same rfl (by simp [setCon]) (by simp) (by simp)
  | cbout a m r =>
    simp only [cstep] at hs
    cases hc : getCon s a with
    | none => simp [hc] at hs
    | some c =>
      simp only [hc] at hs
      split at hs <;> try simp at hs
      obtain ⟨_, rfl⟩ := hs
      exact same rfl (by simp [setCon]) (by simp) (by simp)
  | check a =>
    simp only [cstep] at hs
    cases hc : getCon s a with
    | none => simp [hc] at hs
    | some c =>
      simp only [hc] at hs
      split at hs <;> try simp at hs
      split at hs
      · obtain ⟨h1, h2⟩ := exitRel_move s s' a c 0 9 hs
        exact swap a h1 rfl h2 (Or.inr (Or.inl rfl))
      · simp at hs; subst hs
        exact same rfl (by simp [setCon]) (by simp) (by simp)
  | recheck a =>
    simp only [cstep] at hs
    cases hc : getCon s a with
    | none => simp [hc] at hs
    | some c =>
      simp only [hc] at hs
      split at hs <;> try simp at hs
      rename_i r n ch hpc
      split at hs
      · obtain ⟨h1, h2⟩ := exitRel_move s s' a c 0 r hs
        exact swap a h1 rfl h2 (Or.inr (Or.inr (Or.inl rfl)))
      · simp at hs; subst hs
        exact same rfl (by simp [setCon]) (by simp) (by simp)
  | waitCancel a =>
    simp only [cstep] at hs
    cases hc : getCon s a with
    | none => simp [hc] at hs
    | some c =>
      simp only [hc] at hs
      split at hs <;> try simp at hs
      obtain ⟨h1, h2⟩ := exitRel_move s s' a c 0 9 hs.2
      exact swap a h1 rfl h2 (Or.inr (Or.inr (Or.inr (Or.inl rfl))))
  | await a =>
    simp only [cstep] at hs
    cases hc : getCon s a with
    | none => simp [hc] at hs
    | some c =>
      simp only [hc] at hs
      split at hs <;> try simp at hs
      split at hs <;> try simp at hs
      rename_i v e _
      split at hs
      · simp at hs; subst hs
        exact same rfl (by simp [setCon]) (by simp) (by simp)
      · obtain ⟨h1, h2⟩ := exitRel_move s s' a c v e hs
        exact swap a h1 rfl h2 (Or.inr (Or.inr (Or.inr (Or.inr (Or.inl rfl)))))
  | awaitCancel a =>
    simp only [cstep] at hs
    cases hc : getCon s a with
    | none => simp [hc] at hs
    | some c =>
      simp only [hc] at hs
      split at hs <;> try simp at hs
      obtain ⟨h1, h2⟩ := exitRel_move s s' a c 0 9 hs
      exact swap a h1 rfl h2 (Or.inr (Or.inr (Or.inr (Or.inr (Or.inr (Or.inl rfl))))))
  | ret a v e =>
    simp only [cstep] at hs
    cases hc : getCon s a with
    | none => simp [hc] at hs
    | some c =>
      simp only [hc] at hs
      split at hs <;> try simp at hs
      · obtain ⟨_, rfl⟩ := hs
        exact same rfl (by simp [setCon]) (by simp) (by simp)
      · obtain ⟨_, hs⟩ := hs
        split at hs <;> simp at hs
        subst hs
        rename_i k pc live flag self told hth
        exact Or.inr (Or.inr (Or.inr (Or.inr ⟨a, v, e, k, pc, live, flag, self, told, c, rfl, hc, hth, rfl,
          by simp [setCon]⟩)))
  | envCancelCall a =>
    simp only [cstep] at hs
    cases hc : getCon s a with
    | none => simp [hc] at hs
    | some c =>
      simp [hc] at hs; subst hs
      exact same rfl (by simp [setCon]) (by simp) (by simp)
  | goRel a =>
    simp only [cstep] at hs
    cases hc : getCon s a with
    | none => simp [hc] at hs
    | some c =>
      simp only [hc] at hs
      split at hs <;> try simp at hs
      cases hst : step s.b (.selfRelSwap a) with
      | none => simp [hst] at hs
      | some b' =>
        simp [hst] at hs; subst hs
        exact swap a hst rfl (by simp [setCon]) (Or.inr (Or.inr (Or.inr (Or.inr (Or.inr (Or.inr rfl))))))
  | goCb a =>
    simp only [cstep] at hs
    cases hc : getCon s a with
    | none => simp [hc] at hs
    | some c =>
      simp only [hc] at hs
      split at hs <;> simp at hs
      subst hs
      exact same rfl (by simp [setCon]) (by simp) (by simp)
  | probeCtx a m cc =>
    simp only [cstep] at hs
    cases hc : getCon s a with
    | none => simp [hc] at hs
    | some c =>
      simp only [hc] at hs
      split at hs <;> try simp at hs
      obtain ⟨_, rfl⟩ := hs
      exact same rfl rfl (by simp) (by simp)
  | probeProm a h v e =>
    obtain ⟨rfl, _⟩ := probeProm_step s s' a h v e hs
    exact same rfl rfl (by simp) (by simp)
  | probe v e =>
    simp only [cstep] at hs; split at hs <;> simp at hs; subst hs
    exact same rfl rfl (by simp) (by simp)
  | quiesce B =>
    simp only [cstep] at hs; split at hs <;> simp at hs; subst hs
    exact same rfl rfl (by simp) (by simp)

/-! ## consumers sit on `hook` threads; the two tables have the same length -/

def CAlign (s : CSt) : Prop :=
  s.ct.length = s.b.th.length ∧
  ∀ (a : Nat) (c : Con), getCon s a = some c →
    ∃ pc l f sf t, s.b.th[a]? = some (TS.ref .hook pc l f sf t)

theorem hook_persist (s s' : St) (e : Ev) (hs : step s e = some s') (r : Nat) (pc : Pc)
    (l f sf : Bool) (t : Option Nat) (h : s.th[r]? = some (TS.ref .hook pc l f sf t)) :
    ∃ pc' l' f' sf' t', s'.th[r]? = some (TS.ref .hook pc' l' f' sf' t') := by
  obtain ⟨f1, f2⟩ := th_frame s s' e hs
  obtain ⟨x', hx'⟩ := f2 r _ h
  rcases f1 r x' hx' with ⟨x, hx, hst⟩ | ⟨hn, _⟩
  · rw [h] at hx; cases hx
    cases x' with
    | rel r0 pc0 => simp [ThStep] at hst
    | ctx c0 cl0 pc0 u0 => simp [ThStep] at hst
    | ref k0 pc0 l0 f0 sf0 t0 =>
      obtain ⟨hkk, _⟩ := hst
      subst hkk
      exact ⟨_, _, _, _, _, hx'⟩
  · rw [h] at hn; cases hn

theorem calign_step (s s' : CSt) (e : CEv) (h : CAlign s) (hs : cstep s e = some s') : CAlign s' := by
  obtain ⟨hlen, hth⟩ := h
  have hframe := cstep_frame s s' e hs
  rcases cstep_base s s' e hs with ⟨be, he, hst, hct, n1, _, _, _⟩ | ⟨a0, op, he, hst, hct⟩ |
      ⟨a0, hst, _, hct, _⟩ | ⟨hb, hct, n1, n2⟩ | ⟨a0, v, x, k, pc, live, flag, self, told, c0, he, hc0, hth0, hb, hct⟩
  · -- a base event
    refine ⟨?_, ?_⟩
    · rw [hct, th_length_step s.b s'.b be hst, hlen]
      cases be <;> simp [appendsThread, newThread] <;> exact absurd rfl (n1 _)
    · intro a c' hc'
      rcases hframe.1 a c' hc' with h0 | ⟨c, h0, _⟩ | ⟨_, a', op, he', _⟩
      · obtain ⟨pc, l, f, sf, t, ht⟩ := hth a c' h0
        exact hook_persist s.b s'.b be hst a pc l f sf t ht
      · obtain ⟨pc, l, f, sf, t, ht⟩ := hth a c h0
        exact hook_persist s.b s'.b be hst a pc l f sf t ht
      · rw [he] at he'; cases he'
  · -- a new consumer
    have hst0 := hst
    simp only [step] at hst0; split at hst0 <;> simp at hst0
    rename_i hg
    refine ⟨?_, ?_⟩
    · rw [hct, ← hst0]; simp [hlen]
    · intro a c' hc'
      by_cases hlt : a < s.ct.length
      · have hc0 : getCon s a = some c' := by
          unfold getCon at hc' ⊢
          rw [hct, List.getElem?_append_left hlt] at hc'; exact hc'
        obtain ⟨pc, l, f, sf, t, ht⟩ := hth a c' hc0
        exact hook_persist s.b s'.b _ hst a pc l f sf t ht
      · have hlt' := getCon_lt s' a c' hc'
        rw [hct] at hlt'
        simp at hlt'
        have ha : a = s.b.th.length := by omega
        refine ⟨.inv, false, false, false, none, ?_⟩
        rw [← hst0, ha]; simp
  · -- the once-flag swap of a consumer's own `Release`
    refine ⟨?_, ?_⟩
    · rw [hct, th_length_step s.b s'.b _ hst, hlen]; simp [newThread]
    · intro a c' hc'
      rcases hframe.1 a c' hc' with h0 | ⟨c, h0, _⟩ | ⟨h0, a', op, he', _⟩
      · obtain ⟨pc, l, f, sf, t, ht⟩ := hth a c' h0
        exact hook_persist s.b s'.b _ hst a pc l f sf t ht
      · obtain ⟨pc, l, f, sf, t, ht⟩ := hth a c h0
        exact hook_persist s.b s'.b _ hst a pc l f sf t ht
      · exfalso
        have := getCon_lt s' a c' hc'
        rw [hct] at this
        subst he'
        simp [cstep] at hs
        cases hst2 : step s.b (.invHook a') with
        | none => simp [hst2] at hs
        | some b' =>
          simp [hst2] at hs; subst hs
          simp at hct
  · -- the base component stays
    refine ⟨by rw [hct, hb, hlen], ?_⟩
    intro a c' hc'
    rw [hb]
    rcases hframe.1 a c' hc' with h0 | ⟨c, h0, _⟩ | ⟨_, a', op, he', _⟩
    · exact hth a c' h0
    · exact hth a c h0
    · exact absurd he' (n2 a' op)
  · -- the reference is handed to the caller
    refine ⟨by rw [hct, hb, hlen]; simp, ?_⟩
    intro a c' hc'
    have hold : ∃ c, getCon s a = some c := by
      rcases hframe.1 a c' hc' with h0 | ⟨c, h0, _⟩ | ⟨_, a', op, he', _⟩
      · exact ⟨c', h0⟩
      · exact ⟨c, h0⟩
      · rw [he] at he'; cases he'
    obtain ⟨c, hc⟩ := hold
    obtain ⟨pc1, l, f, sf, t, ht⟩ := hth a c hc
    rw [hb]
    by_cases ha : a0 = a
    · subst ha
      rw [hth0] at ht; cases ht
      exact ⟨.retd, live, flag, self, told, by simp [lt_of_getElem? hth0]⟩
    · exact ⟨pc1, l, f, sf, t, by simp [List.getElem?_set, ha]; exact ht⟩

/-! ## lifting a simulation of the base model -/

/-- a base monitor whose relation is kept when a `hook` thread entry is marked as returned, and that
ignores `invHook`, `probe` and the argument of `quiesce`, accepts the composed model as well -/
theorem lift_sim {μ : Type} (M : ObsMonitor Obs μ) (R : St → μ → Prop)
    (hsim : ∀ s e s' m, R s m → step s e = some s' →
      match Ev.obs e with
      | none => R s' m
      | some o => ∃ m', M.step m o = some m' ∧ R s' m')
    (hhook : ∀ m a, M.step m (.invHook a) = some m)
    (hprobe : ∀ m v x, M.step m (.probe v x) = some m)
    (hqB : ∀ m B B', M.step m (.quiesce B) = M.step m (.quiesce B'))
    (hkeep : ∀ s m a pc live flag self told, R s m → s.th[a]? = some (TS.ref .hook pc live flag self told) →
      R { s with th := s.th.set a (TS.ref .hook .retd live flag self told) } m)
    (s : CSt) (e : CEv) (s' : CSt) (m : μ) (hR : CAlign s ∧ R s.b m) (hs : cstep s e = some s') :
    match CEv.obs e with
    | none => CAlign s' ∧ R s'.b m
    | some o => ∃ m', (liftMon M).step m o = some m' ∧ CAlign s' ∧ R s'.b m' := by
  obtain ⟨hal, hR⟩ := hR
  have hal' := calign_step s s' e hal hs
  rcases cstep_base s s' e hs with ⟨be, he, hst, _, n1, n2, n3, n4⟩ | ⟨a0, op, he, hst, _⟩ |
      ⟨a0, hst, hobs, _⟩ | ⟨hb, _, n1, n2⟩ | ⟨a0, v, x, k, pc, live, flag, self, told, c0, he, hc0, hth0, hb, _⟩
  · subst he
    have h := hsim s.b be s'.b m hR hst
    show match (Ev.obs be).map CObs.base with
      | none => CAlign s' ∧ R s'.b m
      | some o => ∃ m', (liftMon M).step m o = some m' ∧ CAlign s' ∧ R s'.b m'
    cases hob : Ev.obs be with
    | none => rw [hob] at h; exact ⟨hal', h⟩
    | some o =>
      rw [hob] at h
      obtain ⟨m', hm', hR'⟩ := h
      exact ⟨m', hm', hal', hR'⟩
  · subst he
    have h := hsim s.b (.invHook a0) s'.b m hR hst
    obtain ⟨m', hm', hR'⟩ := h
    have : m' = m := by
      have h2 : M.step m (.invHook a0) = some m' := hm'
      rw [hhook] at h2; cases h2; rfl
    subst this
    exact ⟨m', rfl, hal', hR'⟩
  · have h := hsim s.b (.selfRelSwap a0) s'.b m hR hst
    rw [hobs]
    exact ⟨hal', h⟩
  · -- the base component stays
    have hR' : R s'.b m := by rw [hb]; exact hR
    cases e with
    | base be => exact absurd rfl (n1 be)
    | inv a op => exact absurd rfl (n2 a op)
    | probe v x => exact ⟨m, hprobe m v x, hal', hR'⟩
    | quiesce B =>
      have hs0 := hs
      simp only [cstep] at hs0; split at hs0 <;> simp at hs0
      rename_i hq
      have hqb : quiescent s.b = true := by
        have := hq.1; unfold cquiescent at this; simp only [Bool.and_eq_true] at this; exact this.1
      have hst : step s.b (.quiesce (pendingIds s.b)) = some s.b := by simp [step, hqb]
      have h := hsim s.b _ s.b m hR hst
      obtain ⟨m', hm', hR2⟩ := h
      refine ⟨m', ?_, hal', by rw [hb]; exact hR2⟩
      show M.step m (.quiesce B) = some m'
      rw [hqB m B (pendingIds s.b)]; exact hm'
    | snap a => exact ⟨hal', hR'⟩
    | watch a => exact ⟨hal', hR'⟩
    | cbin a i v => exact ⟨m, rfl, hal', hR'⟩
    | cbout a i r => exact ⟨m, rfl, hal', hR'⟩
    | check a => exact ⟨hal', hR'⟩
    | recheck a => exact ⟨hal', hR'⟩
    | waitCancel a => exact ⟨hal', hR'⟩
    | await a => exact ⟨hal', hR'⟩
    | awaitCancel a => exact ⟨hal', hR'⟩
    | ret a v x => exact ⟨m, rfl, hal', hR'⟩
    | envCancelCall a => exact ⟨m, rfl, hal', hR'⟩
    | goRel a => exact ⟨hal', hR'⟩
    | goCb a => exact ⟨m, rfl, hal', hR'⟩
    | probeCtx a i c => exact ⟨m, rfl, hal', hR'⟩
    | probeProm a h v x => exact ⟨m, rfl, hal', hR'⟩
  · subst he
    obtain ⟨pc1, l, f, sf, t, ht⟩ := hal.2 a0 c0 hc0
    rw [hth0] at ht; cases ht
    refine ⟨m, rfl, hal', ?_⟩
    rw [hb]
    exact hkeep s.b m a0 pc live flag self told hR hth0

/-- `lift_sim`, stated with the observation function of `cmodel` -/
theorem lift_sim' {μ : Type} (M : ObsMonitor Obs μ) (R : St → μ → Prop)
    (hsim : ∀ s e s' m, R s m → step s e = some s' →
      match Ev.obs e with
      | none => R s' m
      | some o => ∃ m', M.step m o = some m' ∧ R s' m')
    (hhook : ∀ m a, M.step m (.invHook a) = some m)
    (hprobe : ∀ m v x, M.step m (.probe v x) = some m)
    (hqB : ∀ m B B', M.step m (.quiesce B) = M.step m (.quiesce B'))
    (hkeep : ∀ s m a pc live flag self told, R s m → s.th[a]? = some (TS.ref .hook pc live flag self told) →
      R { s with th := s.th.set a (TS.ref .hook .retd live flag self told) } m)
    (s : CSt) (e : CEv) (s' : CSt) (m : μ) (hR : CAlign s ∧ R s.b m) (hs : cmodel.step s e = some s') :
    match cmodel.obs e with
    | none => CAlign s' ∧ R s'.b m
    | some o => ∃ m', (liftMon M).step m o = some m' ∧ CAlign s' ∧ R s'.b m' := by
  have h := lift_sim M R hsim hhook hprobe hqB hkeep s e s' m hR hs
  cases e with
  | base be =>
    cases be with
    | cb it =>
      cases it with
      | refcb r vis res v er => cases vis <;> exact h
      | rel i k seen => exact h
    | _ => exact h
  | _ => exact h

/-! ## the base relations survive marking a `hook` thread entry as returned -/

theorem relOnce_keep (s : St) (m : List Nat) (a : Nat) (pc : Pc) (live flag self : Bool) (told : Option Nat)
    (h : RelOnce s m) (hth : s.th[a]? = some (TS.ref .hook pc live flag self told)) :
    RelOnce { s with th := s.th.set a (TS.ref .hook .retd live flag self told) } m := by
  obtain ⟨hi, hx, hp, ha, hnd, hm⟩ := h
  exact ⟨inv_ref_upd s a .hook pc .retd live flag flag self self told s.owner hi hth,
    ⟨hx.lt, hx.inj, hx.wait, hx.res⟩, hp, ha, hnd, hm⟩

theorem relC09_keep (s : St) (m : Option Nat) (a : Nat) (pc : Pc) (live flag self : Bool) (told : Option Nat)
    (h : RelC09 s m) (hth : s.th[a]? = some (TS.ref .hook pc live flag self told)) :
    RelC09 { s with th := s.th.set a (TS.ref .hook .retd live flag self told) } m := by
  obtain ⟨hi, h1, h2⟩ := h
  exact ⟨inv_ref_upd s a .hook pc .retd live flag flag self self told s.owner hi hth, h1, h2⟩

theorem relHid_keep (s : St) (m : HiddenSt) (a : Nat) (pc : Pc) (live flag self : Bool) (told : Option Nat)
    (h : RelHid s m) (hth : s.th[a]? = some (TS.ref .hook pc live flag self told)) :
    RelHid { s with th := s.th.set a (TS.ref .hook .retd live flag self told) } m := by
  obtain ⟨hi, hx, ht, hp, ha, hv, hrl, hlat, hrel, hvo, hhid, hseen, hinv⟩ := h
  have hlt := lt_of_getElem? hth
  have other : ∀ (r : Nat) (x : TS), r ≠ a → s.th[r]? = some x →
      (s.th.set a (TS.ref .hook .retd live flag self told))[r]? = some x := by
    intro r x hr hx; rw [getElem?_set_ne' _ _ _ _ (Ne.symm hr)]; exact hx
  refine ⟨inv_ref_upd s a .hook pc .retd live flag flag self self told s.owner hi hth,
    ⟨hx.lt, hx.inj, hx.wait, hx.res⟩, ?_, hp, ha, hv, hrl, hlat, ⟨?_, ?_⟩, ?_, ?_, hseen, hinv⟩
  · exact thinv_set _ ht a _ _ hth (by intro _ _ _ _ _ he; cases he) (by intro _ _ he; cases he)
      (by intro _ _ _ _ _ he; cases he; exact ⟨_, _, _, _, rfl⟩)
  · intro b r pcb hb
    rcases getElem?_set_cases s.th a b _ _ hb with ⟨_, he⟩ | ⟨_, h0⟩
    · cases he
    · exact hrel.1 b r pcb h0
  · intro r k pcr f sf t hr hpc hk
    rcases getElem?_set_cases s.th a r _ _ hr with ⟨_, he⟩ | ⟨_, h0⟩
    · cases he; exact absurd rfl hk
    · exact hrel.2 r k pcr f sf t h0 hpc hk
  · intro r v er hmem
    obtain ⟨hcur, pc1, l, f, sf, t, h1, h2⟩ := hvo r v er hmem
    have hra : r ≠ a := by intro e; subst e; rw [hth] at h1; cases h1
    exact ⟨hcur, pc1, l, f, sf, t, other r _ hra h1, h2⟩
  · intro r k hm hnr
    obtain ⟨⟨pc1, l, f, sf, t, h1, h2⟩, hrest⟩ := hhid r k hm hnr
    have hra : r ≠ a := by intro e; subst e; rw [hth] at h1; cases h1
    exact ⟨⟨pc1, l, f, sf, t, other r _ hra h1, h2⟩, hrest⟩

/-! ## the lifted monitors accept every trace of the composed model -/

theorem liftMon_rcBoth_run {μ ν : Type} (a : ObsMonitor Obs μ) (b : ObsMonitor Obs ν) (m : μ × ν)
    (h : List CObs) :
    ((liftMon (a.rcBoth b)).run m h).isSome = (((liftMon a).run m.1 h).isSome && ((liftMon b).run m.2 h).isSome) := by
  induction h generalizing m with
  | nil => simp [ObsMonitor.run]
  | cons o os ih =>
    simp only [ObsMonitor.run]
    cases o with
    | base bo =>
      have hp : (liftMon (a.rcBoth b)).step m (.base bo) = match a.step m.1 bo, b.step m.2 bo with
        | some x, some y => some (x, y)
        | _, _ => none := rfl
      have ha : (liftMon a).step m.1 (.base bo) = a.step m.1 bo := rfl
      have hb : (liftMon b).step m.2 (.base bo) = b.step m.2 bo := rfl
      rw [hp, ha, hb]
      cases hx : a.step m.1 bo with
      | none => simp
      | some x =>
        cases hy : b.step m.2 bo with
        | none => simp
        | some y => simpa using ih (x, y)
    | inv a' op => simpa [liftMon] using ih m
    | cbin a' i v => simpa [liftMon] using ih m
    | cbout a' i r => simpa [liftMon] using ih m
    | ret a' v e => simpa [liftMon] using ih m
    | cancelCall a' => simpa [liftMon] using ih m
    | cbinReleased a' => simpa [liftMon] using ih m
    | probeCtx a' i c => simpa [liftMon] using ih m
    | probeProm a' h v x => simpa [liftMon] using ih m

theorem liftMon_rcBoth_accepts {μ ν : Type} (a : ObsMonitor Obs μ) (b : ObsMonitor Obs ν) (h : List CObs) :
    (liftMon (a.rcBoth b)).accepts h = ((liftMon a).accepts h && (liftMon b).accepts h) := by
  simp only [ObsMonitor.accepts]
  exact liftMon_rcBoth_run a b (a.init, b.init) h

theorem calign_init : CAlign ({} : CSt) := ⟨rfl, by intro a c h; simp [getCon] at h⟩

theorem once_obs_c (es : List CEv) (s : CSt) (h : cmodel.run cmodel.init es = some s) :
    (liftMon monOnce).accepts (es.filterMap cmodel.obs) = true :=
  monitor_accepts_of_simulation cmodel (liftMon monOnce) (fun s m => CAlign s ∧ RelOnce s.b m)
    ⟨calign_init, init_inv, idx_init, by intro i k ⟨b, hb, _⟩; simp [cmodel] at hb,
      by intro i; simp [cmodel, relItems, released, b2n], List.nodup_nil,
      by
        intro k
        constructor
        · intro hk; cases hk
        · intro ⟨i, c, v, e, hc, _⟩; simp [cmodel] at hc⟩
    (fun s e s' ms hR hs => by
      have h := lift_sim' monOnce RelOnce (fun s e s' m hR hs => once_sim_step s e s' m hR hs)
        (fun _ _ => rfl) (fun _ _ _ => rfl) (fun _ _ _ => rfl)
        (fun s m a pc live flag self told hR hth => relOnce_keep s m a pc live flag self told hR hth)
        s e s' ms hR hs
      generalize cmodel.obs e = o at h ⊢
      cases o with
      | none => exact h
      | some o => exact h) es s h

theorem hidden_obs_c (es : List CEv) (s : CSt) (h : cmodel.run cmodel.init es = some s) :
    (liftMon monHidden).accepts (es.filterMap cmodel.obs) = true :=
  monitor_accepts_of_simulation cmodel (liftMon monHidden) (fun s m => CAlign s ∧ RelHid s.b m)
    ⟨calign_init, init_inv, idx_init, thinv_nil, by intro i k ⟨b, hb, _⟩; simp [cmodel] at hb,
      by intro i; simp [cmodel, relItems],
      by intro i c v hh e k hc; simp [cmodel] at hc,
      by simp [cmodel, RelLast],
      ⟨by intro i c hc; simp [cmodel] at hc, by intro i c hc; simp [cmodel] at hc⟩,
      ⟨by intro b r pc hb; simp [cmodel] at hb, by intro r k pc f sf t hr; simp [cmodel] at hr⟩,
      by intro r v er hm; simp [cmodel] at hm,
      by intro r k hm; simp [liftMon, monHidden] at hm,
      by intro i k seen hm; simp [cmodel] at hm,
      by intro k hk; simp [liftMon, monHidden] at hk⟩
    (fun s e s' ms hR hs => by
      have h := lift_sim' monHidden RelHid (fun s e s' m hR hs => hid_sim_step s e s' m hR hs)
        (fun _ _ => rfl) (fun _ _ _ => rfl) (fun _ _ _ => rfl)
        (fun s m a pc live flag self told hR hth => relHid_keep s m a pc live flag self told hR hth)
        s e s' ms hR hs
      generalize cmodel.obs e = o at h ⊢
      cases o with
      | none => exact h
      | some o => exact h) es s h

theorem one_resolver_obs_c (es : List CEv) (s : CSt) (h : cmodel.run cmodel.init es = some s) :
    (liftMon monOneResolver).accepts (es.filterMap cmodel.obs) = true :=
  monitor_accepts_of_simulation cmodel (liftMon monOneResolver) (fun s m => CAlign s ∧ RelC09 s.b m)
    ⟨calign_init, init_inv, by intro j k ⟨c, hc, _⟩; simp [cmodel] at hc,
      by intro k hk; simp [liftMon, monOneResolver] at hk⟩
    (fun s e s' ms hR hs => by
      have h := lift_sim' monOneResolver RelC09 (fun s e s' m hR hs => c09_sim_step s e s' m hR hs)
        (fun _ _ => rfl) (fun _ _ _ => rfl) (fun _ _ _ => rfl)
        (fun s m a pc live flag self told hR hth => relC09_keep s m a pc live flag self told hR hth)
        s e s' ms hR hs
      generalize cmodel.obs e = o at h ⊢
      cases o with
      | none => exact h
      | some o => exact h) es s h

/-- **C08 on the composed model (observable form).** Every observable trace of the composed model
(RefCount + `Access` / `Wait` / `Resolve` / `ResolveWithReleased` calls) is accepted by `monC08c`, the
C08 clauses evaluated by `./check C08` on histories of the consumers harness. -/
theorem c08c_obs (es : List CEv) (s : CSt) (h : cmodel.run cmodel.init es = some s) :
    monC08c.accepts (es.filterMap cmodel.obs) = true := by
  simp only [monC08c, liftMon_rcBoth_accepts, once_obs_c es s h, hidden_obs_c es s h, Bool.and_self]

/-! ## no panic, no pending API call at quiescence — on the composed model -/

def NotHook (t : TS) : Prop := ∀ pc l f sf tl, t ≠ TS.ref .hook pc l f sf tl

def NpOk (s : CSt) (m : List Nat) : Prop :=
  CAlign s ∧ ∀ a ∈ m, ∃ t, s.b.th[a]? = some t ∧ NotHook t

theorem notHook_persist (s s' : St) (e : Ev) (hs : step s e = some s') (a : Nat) (t : TS)
    (h : s.th[a]? = some t) (hn : NotHook t) : ∃ t', s'.th[a]? = some t' ∧ NotHook t' := by
  obtain ⟨f1, f2⟩ := th_frame s s' e hs
  obtain ⟨x', hx'⟩ := f2 a _ h
  refine ⟨x', hx', ?_⟩
  rcases f1 a x' hx' with ⟨x, hx, hst⟩ | ⟨hnone, _⟩
  · rw [h] at hx; cases hx
    intro pc l f sf tl he
    subst he
    cases t with
    | rel r0 pc0 => simp [ThStep] at hst
    | ctx c0 cl0 pc0 u0 => simp [ThStep] at hst
    | ref k0 pc0 l0 f0 sf0 t0 =>
      obtain ⟨hkk, _⟩ := hst
      subst hkk
      exact hn pc0 l0 f0 sf0 t0 rfl
  · rw [h] at hnone; cases hnone

theorem np_quiesce_ok (s : CSt) (m : List Nat) (hR : NpOk s m) (hq : cquiescent s = true) :
    (cpendingIds s).any m.contains = false := by
  obtain ⟨hal, hm⟩ := hR
  have hqb : quiescent s.b = true := by
    unfold cquiescent at hq; simp only [Bool.and_eq_true] at hq; exact hq.1
  cases hany : (cpendingIds s).any m.contains
  · rfl
  · exfalso
    rw [List.any_eq_true] at hany
    obtain ⟨a, haB, ham⟩ := hany
    have ham' : a ∈ m := by simpa using ham
    obtain ⟨t, ht, hnh⟩ := hm a ham'
    unfold cpendingIds at haB
    simp only [List.mem_filter, Bool.or_eq_true] at haB
    have hquiet := quiet_of_quiescent s.b hqb a t ht
    rcases haB.2 with h1 | h1
    · rw [ht] at h1
      simp only at h1
      cases t with
      | ref k pc l f sf tl =>
        cases k <;> simp [TS.pendingApi, hquiet] at h1
      | rel r pc => simp [TS.pendingApi, hquiet] at h1
      | ctx c cl pc u => simp [TS.pendingApi, hquiet] at h1
    · cases hc : getCon s a with
      | none => simp [hc] at h1
      | some c =>
        obtain ⟨pc, l, f, sf, tl, ht2⟩ := hal.2 a c hc
        rw [ht] at ht2; cases ht2
        exact hnh pc l f sf tl rfl

theorem np_sim_step (s : CSt) (e : CEv) (s' : CSt) (m : List Nat) (hR : NpOk s m) (hs : cstep s e = some s') :
    match CEv.obs e with
    | none => NpOk s' m
    | some o => ∃ m', (liftMon monNoPanic).step m o = some m' ∧ NpOk s' m' := by
  have hR0 := hR
  obtain ⟨hal, hm⟩ := hR
  have hal' := calign_step s s' e hal hs
  rcases cstep_base s s' e hs with ⟨be, he, hst, _, n1, n2, n3, n4⟩ | ⟨a0, op, he, hst, _⟩ |
      ⟨a0, hst, hobs, _⟩ | ⟨hb, _, n1, n2⟩ | ⟨a0, v, x, k, pc, live, flag, self, told, c0, he, hc0, hth0, hb, _⟩
  · subst he
    have keep : ∀ a ∈ m, ∃ t, s'.b.th[a]? = some t ∧ NotHook t := by
      intro a ha
      obtain ⟨t, ht, hn⟩ := hm a ha
      exact notHook_persist s.b s'.b be hst a t ht hn
    have other : (∀ a k, be ≠ .invAddRef a k) → (∀ b r, be ≠ .invRelease b r) → (∀ a c cl, be ≠ .invSetCtx a c cl) →
        (match (Ev.obs be).map CObs.base with
          | none => NpOk s' m
          | some o => ∃ m', (liftMon monNoPanic).step m o = some m' ∧ NpOk s' m') := by
      intro h1 h2 h3
      cases be with
      | invAddRef a k => exact absurd rfl (h1 a k)
      | invRelease b r => exact absurd rfl (h2 b r)
      | invSetCtx a c cl => exact absurd rfl (h3 a c cl)
      | invHook a => exact absurd rfl (n1 a)
      | selfRelSwap a => exact absurd rfl (n2 a)
      | probe v x => exact absurd rfl (n3 v x)
      | quiesce B => exact absurd rfl (n4 B)
      | cb it =>
        cases it with
        | refcb r vis res v er =>
          cases vis
          · exact ⟨hal', keep⟩
          · exact ⟨m, rfl, hal', keep⟩
        | rel i k seen => exact ⟨m, rfl, hal', keep⟩
      | cfg kp c t => exact ⟨m, rfl, hal', keep⟩
      | addRefCS a => exact ⟨hal', keep⟩
      | retAddRef a => exact ⟨m, rfl, hal', keep⟩
      | relSwap b => exact ⟨hal', keep⟩
      | relCS b => exact ⟨hal', keep⟩
      | retRelease b => exact ⟨m, rfl, hal', keep⟩
      | setCtxCS a => exact ⟨hal', keep⟩
      | retSetCtx a u => exact ⟨m, rfl, hal', keep⟩
      | envCancelCtx c => exact ⟨m, rfl, hal', keep⟩
      | envReleased k => exact ⟨m, rfl, hal', keep⟩
      | relRun r => exact ⟨hal', keep⟩
      | enter i k => exact ⟨m, rfl, hal', keep⟩
      | giveUp i => exact ⟨hal', keep⟩
      | drained i => exact ⟨hal', keep⟩
      | leave i k v hh er => exact ⟨m, rfl, hal', keep⟩
      | store i => exact ⟨hal', keep⟩
      | done i => exact ⟨hal', keep⟩
      | selfRelCS a => exact ⟨hal', keep⟩
    by_cases h1 : ∃ a k, be = .invAddRef a k
    · obtain ⟨a, k, rfl⟩ := h1
      refine ⟨a :: m, rfl, hal', ?_⟩
      intro a' ha'
      simp only [List.mem_cons] at ha'
      rcases ha' with rfl | ha'
      · simp only [step] at hst; split at hst <;> simp at hst
        rename_i hg
        rw [← hst]
        exact ⟨TS.ref k .inv false false false none, by rw [hg.2.1]; simp,
          by intro pc l f sf tl he; cases he; exact hg.2.2 rfl⟩
      · exact keep a' ha'
    by_cases h2 : ∃ b r, be = .invRelease b r
    · obtain ⟨b, r, rfl⟩ := h2
      refine ⟨b :: m, rfl, hal', ?_⟩
      intro a' ha'
      simp only [List.mem_cons] at ha'
      rcases ha' with rfl | ha'
      · simp only [step] at hst; split at hst <;> try simp at hst
        rename_i hg
        split at hst <;> try simp at hst
        rw [← hst]
        exact ⟨TS.rel r .inv, by rw [hg]; simp, by intro pc l f sf tl he; cases he⟩
      · exact keep a' ha'
    by_cases h3 : ∃ a c cl, be = .invSetCtx a c cl
    · obtain ⟨a, c, cl, rfl⟩ := h3
      refine ⟨a :: m, rfl, hal', ?_⟩
      intro a' ha'
      simp only [List.mem_cons] at ha'
      rcases ha' with rfl | ha'
      · simp only [step] at hst; split at hst <;> simp at hst
        rename_i hg
        rw [← hst]
        exact ⟨TS.ctx c cl .inv false, by rw [hg.2.1]; simp, by intro pc l f sf tl he; cases he⟩
      · exact keep a' ha'
    exact other (fun a k he => h1 ⟨a, k, he⟩) (fun b r he => h2 ⟨b, r, he⟩) (fun a c cl he => h3 ⟨a, c, cl, he⟩)
  · subst he
    refine ⟨m, rfl, hal', ?_⟩
    intro a ha
    obtain ⟨t, ht, hn⟩ := hm a ha
    exact notHook_persist s.b s'.b _ hst a t ht hn
  · rw [hobs]
    refine ⟨hal', ?_⟩
    intro a ha
    obtain ⟨t, ht, hn⟩ := hm a ha
    exact notHook_persist s.b s'.b _ hst a t ht hn
  · have hR' : NpOk s' m := ⟨hal', by rw [hb]; exact hm⟩
    cases e with
    | base be => exact absurd rfl (n1 be)
    | inv a op => exact absurd rfl (n2 a op)
    | probe v x => exact ⟨m, rfl, hR'⟩
    | quiesce B =>
      have hs0 := hs
      simp only [cstep] at hs0; split at hs0 <;> simp at hs0
      rename_i hq
      have := np_quiesce_ok s m hR0 hq.1
      refine ⟨m, ?_, hR'⟩
      show (if B.any m.contains then none else some m) = some m
      rw [hq.2, this]; rfl
    | snap a => exact hR'
    | watch a => exact hR'
    | cbin a i v => exact ⟨m, rfl, hR'⟩
    | cbout a i r => exact ⟨m, rfl, hR'⟩
    | check a => exact hR'
    | recheck a => exact hR'
    | waitCancel a => exact hR'
    | await a => exact hR'
    | awaitCancel a => exact hR'
    | ret a v x => exact ⟨m, rfl, hR'⟩
    | envCancelCall a => exact ⟨m, rfl, hR'⟩
    | goRel a => exact hR'
    | goCb a => exact ⟨m, rfl, hR'⟩
    | probeCtx a i c => exact ⟨m, rfl, hR'⟩
    | probeProm a h v x => exact ⟨m, rfl, hR'⟩
  · subst he
    refine ⟨m, rfl, hal', ?_⟩
    intro a ha
    obtain ⟨t, ht, hn⟩ := hm a ha
    obtain ⟨pc1, l, f, sf, tl, ht2⟩ := hal.2 a0 c0 hc0
    have hne : a0 ≠ a := by
      intro e0; subst e0
      rw [ht] at ht2; cases ht2
      exact hn pc1 l f sf tl rfl
    rw [hb]
    exact ⟨t, by simp [List.getElem?_set, hne]; exact ht, hn⟩

theorem no_panic_obs_c (es : List CEv) (s : CSt) (h : cmodel.run cmodel.init es = some s) :
    (liftMon monNoPanic).accepts (es.filterMap cmodel.obs) = true :=
  monitor_accepts_of_simulation cmodel (liftMon monNoPanic) NpOk
    ⟨calign_init, by intro a ha; simp [liftMon, monNoPanic] at ha⟩
    (fun s e s' ms hR hs => by
      have h := np_sim_step s e s' ms hR hs
      have hobs : cmodel.obs e = CEv.obs e := rfl
      rw [hobs]
      generalize CEv.obs e = o at h ⊢
      cases o with
      | none => exact h
      | some o => exact h) es s h

/-- **C09 on the composed model (observable form).** Every observable trace of the composed model is
accepted by `monC09c`: resolver entries and returns alternate, no call panics, and at a quiescence
point no `AddRef` / `Release` / `SetContext` / `ClearContext` call is pending. -/
theorem c09c_obs (es : List CEv) (s : CSt) (h : cmodel.run cmodel.init es = some s) :
    monC09c.accepts (es.filterMap cmodel.obs) = true := by
  simp only [monC09c, liftMon_rcBoth_accepts, one_resolver_obs_c es s h, no_panic_obs_c es s h, Bool.and_self]

end Cons
end UtilModel.RefCount
