import UtilModel.RefCount.Consumers
import UtilModel.RefCount.Monitors
/-!
# refcount consumers: property C10 as an executable monitor over observable histories

Mentions only API-level events: invocations / responses of `Access`, `Wait`, `Resolve`,
`ResolveWithReleased`, entries / returns of the `Access` callback with the value it was given, the
state of the callback context at quiescence points ("promptly" = by the next quiescence), calls of the
`released` callback, calls of the resolvers' release functions, `released()` invocations and context
changes (the two ways a value is invalidated), cancellation of caller contexts.

Resolver entry `k` returns the value `k+1` (or the empty value), so the release function of the value
`v ≠ 0` is the one of entry `v-1`. Error ids: 1..3 resolver errors, 4..6 errors returned by `Access`
callbacks, 9 `context.Canceled`.
-/
namespace UtilModel.RefCount.Cons
open UtilModel UtilModel.RefCount

/-- lift a monitor over base observables to the composed observables -/
def liftMon {μ : Type} (m : ObsMonitor Obs μ) : ObsMonitor CObs μ where
  init := m.init
  step := fun st o =>
    match o with
    | .base b => m.step st b
    | _ => some st

structure C10St where
  resVals : List (Nat × Nat) := []        -- (value, error) of every resolver return
  zeroEntries : List Nat := []            -- entries that returned the zero value of `T` with a nil error
  relSeen : List Nat := []                -- resolver entries whose release function has run
  inval : List Nat := []                  -- resolver entries whose released() has been called
  ctxCalls : List Nat := []               -- SetContext / ClearContext calls in flight
  anyCtx : Bool := false                  -- a SetContext / ClearContext has been invoked at all
  ops : List (Nat × COp) := []
  cancelled : List Nat := []              -- consumer calls whose caller context was cancelled
  /-- (call, m, entry of the value if known, invalidated before the callback returned) -/
  accCur : List (Nat × Nat × Option Nat × Bool) := []
  accLast : List (Nat × Nat × Bool × Nat) := []   -- (call, m, invalidated before return, callback result)
  accCount : List (Nat × Nat) := []       -- (call, number of callback entries)
  held : List (Nat × Option Nat) := []    -- (call, entry of the value) returned together with a reference
  relInv : List Nat := []                 -- references whose Release has been invoked
  fired : List Nat := []                  -- ResolveWithReleased calls whose released callback ran
deriving Repr

def opOf (m : C10St) (a : Nat) : Option COp := (m.ops.find? (·.1 == a)).map (·.2)

def countOf (l : List (Nat × Nat)) (a : Nat) : Nat := ((l.find? (·.1 == a)).map (·.2)).getD 0

/-- the resolver entry a successfully resolved value `v` came from: entry `v-1` for a non-zero value;
for the zero value of `T` the entry is known when exactly one entry has returned it so far -/
def entryOf (m : C10St) (v : Nat) : Option Nat :=
  if v ≠ 0 then some (v - 1)
  else match m.zeroEntries with
    | [k] => some k
    | _ => none

def entInvalidated (m : C10St) (ent : Option Nat) : Bool :=
  match ent with
  | some k => m.relSeen.contains k || m.inval.contains k
  | none => false

def monC10 : ObsMonitor CObs C10St where
  init := {}
  step := fun m o =>
    match o with
    | .base (.cboutResolver k v _ e) =>
      some { m with resVals := (v, e) :: m.resVals
                    zeroEntries := if v = 0 ∧ e = 0 then k :: m.zeroEntries else m.zeroEntries }
    | .base (.envReleased k) => some { m with inval := k :: m.inval }
    | .base (.invSetCtx a _ _) => some { m with ctxCalls := a :: m.ctxCalls, anyCtx := true }
    | .base (.retSetCtx a _) => some { m with ctxCalls := m.ctxCalls.erase a }
    | .base (.invRelease _ r) => some { m with relInv := r :: m.relInv }
    | .base (.cbinRel k _) =>
      -- wait_keeps_alive: not while a reference returned with that value is held, unless invalidated
      if m.held.any (fun p => p.2 == some k && !m.relInv.contains p.1) && !m.inval.contains k && m.ctxCalls.isEmpty
      then none
      else some { m with relSeen := k :: m.relSeen
                         accCur := m.accCur.map fun p => if p.2.2.1 == some k then (p.1, p.2.1, p.2.2.1, true) else p }
    | .inv a op => some { m with ops := (a, op) :: m.ops }
    | .cancelCall a => some { m with cancelled := a :: m.cancelled }
    | .cbin a i v =>
      -- access_value_current (observable part): a resolved value without error, entries numbered, one at a time
      if opOf m a == some .access && m.resVals.contains (v, 0) && i == countOf m.accCount a &&
         !m.accCur.any (·.1 == a) then
        some { m with accCur := (a, i, entryOf m v, false) :: m.accCur
                      accCount := (a, i + 1) :: m.accCount.filter (·.1 != a) }
      else none
    | .cbout a i r =>
      match m.accCur.find? (fun p => p.1 == a && p.2.1 == i) with
      | some p => some { m with accCur := m.accCur.filter (·.1 != a)
                                accLast := (a, i, p.2.2.2, r) :: m.accLast.filter (·.1 != a) }
      | none => none
    | .probeCtx a i c =>
      -- access_cancel: by the next quiescence the callback context of an invalidated value (or of a
      -- cancelled caller) is cancelled — zero values included
      match m.accCur.find? (fun p => p.1 == a && p.2.1 == i) with
      | some p => if (entInvalidated m p.2.2.1 || m.cancelled.contains a) && !c then none else some m
      | none => none
    | .ret a v e =>
      match opOf m a with
      | some .access =>
        -- access_result: the error is `Canceled` of a cancelled caller, or a resolver's error, or the
        -- result of the last callback, whose value was not invalidated before it returned (a
        -- disjunction: the model does not restrict the error ids a callback may return)
        if m.accCur.any (·.1 == a) then none
        else if (e == 9 && m.cancelled.contains a) || (e != 0 && m.resVals.any (·.2 == e)) ||
            (match m.accLast.find? (·.1 == a) with
             | some p => p.2.2.2 == e && !p.2.2.1
             | none => false) then some m else none
      | some _ =>
        if e == 9 && m.cancelled.contains a then some m
        else if !m.resVals.contains (v, e) then none
        else if e ≠ 0 then some m
        else
          -- a value that is already released when it is returned must have been invalidated
          match entryOf m v with
          | some k =>
            if m.relSeen.contains k && !m.inval.contains k && !m.anyCtx then none
            else some { m with held := (a, some k) :: m.held }
          | none => some { m with held := (a, none) :: m.held }
      | none => none
    | .cbinReleased a =>
      -- released_once: at most once, only for a call that passed a callback, only after an invalidation
      if opOf m a == some (.rwr true) && !m.fired.contains a && (!m.inval.isEmpty || m.anyCtx) then
        some { m with fired := a :: m.fired }
      else none
    | .base (.quiesce _) =>
      -- released_once (exactly when): a held value that has been invalidated (its release function ran,
      -- or its released() was called) has fired the callback by the next quiescence point
      if m.held.all fun p =>
          !(opOf m p.1 == some (.rwr true) && !m.relInv.contains p.1 && entInvalidated m p.2) ||
          m.fired.contains p.1
      then some m else none
    | _ => some m

/-- base clauses that remain meaningful in the presence of consumer references -/
abbrev monC08c := liftMon (monOnce.rcBoth monHidden)
abbrev monC09c := liftMon (monOneResolver.rcBoth monNoPanic)

end UtilModel.RefCount.Cons
