import UtilModel.RefCount.Consumers
import UtilModel.RefCount.Monitors
/-!
# refcount consumers: property C10 as an executable monitor over observable histories

Mentions only API-level events: invocations / responses of `Access`, `Wait`, `Resolve`,
`ResolveWithReleased`, entries / returns of the `Access` callback with the value it was given, the
state of the callback context at quiescence points ("promptly" = by the next quiescence), calls of the
`released` callback, calls of the resolvers' release functions, `released()` invocations and context
changes (the two ways a value is invalidated), cancellation of caller contexts.

Resolver entry `k` returns the value `k+1` (or the empty value), so the release function of the value
`v ≠ 0` is the one of entry `v-1`. Error ids: 1..3 resolver errors, 4..6 errors returned by `Access`
callbacks, 9 `context.Canceled`.
-/
namespace UtilModel.RefCount.Cons
open UtilModel UtilModel.RefCount

/-- lift a monitor over base observables to the composed observables -/
def liftMon {μ : Type} (m : ObsMonitor Obs μ) : ObsMonitor CObs μ where
  init := m.init
  step := fun st o =>
    match o with
    | .base b => m.step st b
    | _ => some st

structure C10St where
  resVals : List (Nat × Nat) := []        -- (value, error) of every resolver return
  zeroEntries : List Nat := []            -- entries that returned the zero value of `T` with a nil error
  relSeen : List Nat := []                -- resolver entries whose release function has run
  inval : List Nat := []                  -- resolver entries whose released() has been called
  ctxCalls : List Nat := []               -- SetContext / ClearContext calls in flight
  anyCtx : Bool := false                  -- a SetContext / ClearContext has been invoked at all
  ops : List (Nat × COp) := []
  cancelled : List Nat := []              -- consumer calls whose caller context was cancelled
  /-- (call, m, entry of the value if known, invalidated before the callback returned) -/
  accCur : List (Nat × Nat × Option Nat × Bool) := []
  accLast : List (Nat × Nat × Bool × Nat) := []   -- (call, m, invalidated before return, callback result)
  accCount : List (Nat × Nat) := []       -- (call, number of callback entries)
  held : List (Nat × Option Nat) := []    -- (call, entry of the value) returned together with a reference
  relInv : List Nat := []                 -- references whose Release has been invoked
  fired : List Nat := []                  -- ResolveWithReleased calls whose released callback ran
deriving Repr

def opOf (m : C10St) (a : Nat) : Option COp := (m.ops.find? (·.1 == a)).map (·.2)

def countOf (l : List (Nat × Nat)) (a : Nat) : Nat := ((l.find? (·.1 == a)).map (·.2)).getD 0

/-- the resolver entry a successfully resolved value `v` came from: entry `v-1` for a non-zero value;
for the zero value of `T` the entry is known when exactly one entry has returned it so far -/
def entryOf (m : C10St) (v : Nat) : Option Nat :=
  if v ≠ 0 then some (v - 1)
  else match m.zeroEntries with
    | [k] => some k
    | _ => none

def entInvalidated (m : C10St) (ent : Option Nat) : Bool :=
  match ent with
  | some k => m.relSeen.contains k || m.inval.contains k
  | none => false

/-- the bookkeeping shared by all clauses of C10: it never fails -/
def trk (m : C10St) (o : CObs) : C10St :=
  match o with
  | .base (.cboutResolver k v _ e) =>
    { m with resVals := (v, e) :: m.resVals
             zeroEntries := if v = 0 ∧ e = 0 then k :: m.zeroEntries else m.zeroEntries }
  | .base (.envReleased k) => { m with inval := k :: m.inval }
  | .base (.invSetCtx a _ _) => { m with ctxCalls := a :: m.ctxCalls, anyCtx := true }
  | .base (.retSetCtx a _) => { m with ctxCalls := m.ctxCalls.erase a }
  | .base (.invRelease _ r) => { m with relInv := r :: m.relInv }
  | .base (.cbinRel k _) =>
    { m with relSeen := k :: m.relSeen
             accCur := m.accCur.map fun p => if p.2.2.1 == some k then (p.1, p.2.1, p.2.2.1, true) else p }
  | .inv a op => { m with ops := (a, op) :: m.ops }
  | .cancelCall a => { m with cancelled := a :: m.cancelled }
  | .cbin a i v =>
    { m with accCur := (a, i, entryOf m v, false) :: m.accCur
             accCount := (a, i + 1) :: m.accCount.filter (·.1 != a) }
  | .cbout a i r =>
    let fl := match m.accCur.find? (fun p => p.1 == a && p.2.1 == i) with
      | some p => p.2.2.2
      | none => false
    { m with accCur := m.accCur.filter (·.1 != a)
             accLast := (a, i, fl, r) :: m.accLast.filter (·.1 != a) }
  | .ret a v e =>
    match opOf m a with
    | some .access => m
    | some _ => if e = 0 then { m with held := (a, entryOf m v) :: m.held } else m
    | none => m
  | .cbinReleased a => { m with fired := a :: m.fired }
  | _ => m

/-- a clause monitor: the shared bookkeeping plus one check -/
def clause (chk : C10St → CObs → Bool) : ObsMonitor CObs C10St where
  init := {}
  step := fun m o => if chk m o then some (trk m o) else none

/-- **access_value_current (observable part).** The Access callback is entered by an `Access` call
only, with a value some resolver returned without error, entries numbered, one at a time, returns
matching entries; `Access` does not return while its callback runs; `Wait` / `Resolve` /
`ResolveWithReleased` return `Canceled` to a cancelled caller or a result some resolver returned. -/
def chkValue (m : C10St) (o : CObs) : Bool :=
  match o with
  | .cbin a i v =>
    opOf m a == some .access && m.resVals.contains (v, 0) && i == countOf m.accCount a &&
      !m.accCur.any (·.1 == a)
  | .cbout a i _ => (m.accCur.find? (fun p => p.1 == a && p.2.1 == i)).isSome
  | .ret a v e =>
    match opOf m a with
    | some .access => !m.accCur.any (·.1 == a)
    | some _ => (e == 9 && m.cancelled.contains a) || m.resVals.contains (v, e)
    | none => false
  | _ => true

/-- **access_result.** The error `Access` returns is `Canceled` of a cancelled caller, or a resolver's
error, or the result of the last callback, whose value was not invalidated before it returned (a
disjunction: the model does not restrict the error ids a callback may return). -/
def chkResult (m : C10St) (o : CObs) : Bool :=
  match o with
  | .ret a _ e =>
    match opOf m a with
    | some .access =>
      (e == 9 && m.cancelled.contains a) || (e != 0 && m.resVals.any (·.2 == e)) ||
        (match m.accLast.find? (·.1 == a) with
         | some p => p.2.2.2 == e && !p.2.2.1
         | none => false)
    | _ => true
  | _ => true

/-- **released_once.** The `released` callback runs at most once, only for a call that passed one,
only after an invalidation. -/
def chkReleased (m : C10St) (o : CObs) : Bool :=
  match o with
  | .cbinReleased a =>
    opOf m a == some (.rwr true) && !m.fired.contains a && (!m.inval.isEmpty || m.anyCtx)
  | _ => true

/-- **access_cancel.** By the next quiescence point the callback context of an invalidated value
(or of a cancelled caller) is cancelled — zero values included. -/
def chkCancel (m : C10St) (o : CObs) : Bool :=
  match o with
  | .probeCtx a i c =>
    match m.accCur.find? (fun p => p.1 == a && p.2.1 == i) with
    | some p => !((entInvalidated m p.2.2.1 || m.cancelled.contains a) && !c)
    | none => false
  | _ => true

/-- **released_once (exactly when).** A held value that has been invalidated (its release function
ran, or its `released()` was called) has fired the callback by the next quiescence point. -/
def chkFires (m : C10St) (o : CObs) : Bool :=
  match o with
  | .base (.quiesce _) =>
    m.held.all fun p =>
      !(opOf m p.1 == some (.rwr true) && !m.relInv.contains p.1 && entInvalidated m p.2) ||
      m.fired.contains p.1
  | _ => true

/-- **wait_keeps_alive.** A release function does not run while a reference returned with that value
is held, unless the value was invalidated; a value that is already released when it is returned must
have been invalidated. -/
def chkAlive (m : C10St) (o : CObs) : Bool :=
  match o with
  | .base (.cbinRel k _) =>
    !(m.held.any (fun p => p.2 == some k && !m.relInv.contains p.1) && !m.inval.contains k && m.ctxCalls.isEmpty)
  | .ret a v e =>
    match opOf m a with
    | some .access => true
    | some _ =>
      e != 0 ||
        (match entryOf m v with
         | some k => !(m.relSeen.contains k && !m.inval.contains k && !m.anyCtx)
         | none => true)
    | none => true
  | _ => true

abbrev monC10Value := clause chkValue
abbrev monC10Result := clause chkResult
abbrev monC10Released := clause chkReleased
abbrev monC10Cancel := clause chkCancel
abbrev monC10Fires := clause chkFires
abbrev monC10Alive := clause chkAlive

/-- C10 = the conjunction of its clause monitors (they share the bookkeeping `trk`) -/
abbrev monC10 :=
  (monC10Value.rcBoth monC10Result).rcBoth
    ((monC10Released.rcBoth monC10Cancel).rcBoth (monC10Fires.rcBoth monC10Alive))

/-- base clauses that remain meaningful in the presence of consumer references -/
abbrev monC08c := liftMon (monOnce.rcBoth monHidden)
abbrev monC09c := liftMon (monOneResolver.rcBoth monNoPanic)

end UtilModel.RefCount.Cons
