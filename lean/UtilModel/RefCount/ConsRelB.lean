import UtilModel.RefCount.ConsFrameB
/-!
# refcount consumers: the view of an `Access` call follows the container — relation for
`monC10Result` (access_result) and `monC10Cancel` (access_cancel)
-/
set_option linter.unusedSimpArgs false
set_option linter.unusedVariables false
namespace UtilModel.RefCount.Cons
open UtilModel UtilModel.RefCount

def LoopPc (c : Con) : Prop :=
  match c.pc with
  | .look | .calling _ _ _ | .incb _ _ _ _ | .afterCb _ _ _ | .recheck _ _ _ | .waiting _ _ => True
  | _ => False

/-- a notification is owed only to a reference that has been added -/
def IL (b : St) : Prop :=
  ∀ (a : Nat) (res : Bool) (v e : Nat), AItem b a res v e →
    ∃ k pc l f sf t, b.th[a]? = some (TS.ref k pc l f sf t) ∧ pc ≠ .inv

theorem il_step (b b' : St) (be : Ev) (hi : Inv b) (ht' : ThInv b'.th) (h : IL b) (hs : step b be = some b') : IL b' := by
  intro a res v e hm
  rcases items_frame b b' be hi hs _ hm with hold | hnew
  · obtain ⟨k, pc, l, f, sf, t, hth, hpc⟩ := h a res v e hold
    obtain ⟨pc', l', f', sf', t', hth', hpc'⟩ := ref_persist b b' be hs a k pc l f sf t hth hpc
    exact ⟨k, pc', l', f', sf', t', hth', hpc'⟩
  · have key : ∀ k pc f sf t, b'.th[a]? = some (TS.ref k pc true f sf t) →
        ∃ k pc l f sf t, b'.th[a]? = some (TS.ref k pc l f sf t) ∧ pc ≠ .inv := by
      intro k pc f sf t hth
      refine ⟨k, pc, true, f, sf, t, hth, ?_⟩
      intro hp; subst hp
      have := ht'.fresh a _ _ _ _ _ hth; simp at this
    cases res with
    | true =>
      obtain ⟨k, pc, f, sf, t, i, hth, _⟩ := newItem_deliver b b' a false v e hnew
      exact key k pc f sf t hth
    | false =>
      obtain ⟨k, pc, f, sf, t, hth, _⟩ := newItem_gone b b' a false v e hnew
      exact key k pc f sf t hth

structure CB (b : St) (m : C10St) (a : Nat) (c : Con) : Prop where
  go : c.op = .access → c.go = .none
  start : c.pc = .start → b.th[a]? = some (TS.ref .hook .inv false false false none) ∧ c.cres = false ∧ c.ce = 0
  live : LoopPc c → HookLive b a
  vz : c.cres = false → c.ce = 0
  v : LoopPc c → (∃ res v e, AItem b a res v e) ∨ (c.cres = true → CurIs b c.cv c.ce)
  alt : LoopPc c → ∀ v e, AItem b a true v e → c.cres = false ∨ (c.cv = v ∧ c.ce = e)
  j0 : ∀ v n ch, c.pc = .calling v n ch → c.cnonce = n → AItem b a false 0 0 ∨ CurIs b v 0
  j1 : ∀ i v n ch, c.pc = .incb i v n ch → c.cnonce = n → ∀ k fl, (a, i, some k, fl) ∈ m.accCur →
        AItem b a false 0 0 ∨ CurEnt b k
  flag : ∀ i v n ch, c.pc = .incb i v n ch → ∀ ent, (a, i, ent, true) ∈ m.accCur → c.cnonce ≠ n
  after : ∀ r n ch, (c.pc = .afterCb r n ch ∨ c.pc = .recheck r n ch) →
        ∃ i fl, m.accLast.find? (·.1 == a) = some (a, i, fl, r) ∧ (fl = true → c.cnonce ≠ n)
  exita : c.op = .access → ∀ v x, c.pc = .exitWait v x →
        (x = 9 ∧ a ∈ m.cancelled) ∨ (x ≠ 0 ∧ ∃ p ∈ m.resVals, p.2 = x) ∨
        ∃ i, m.accLast.find? (·.1 == a) = some (a, i, false, x)
  canc2 : a ∈ m.cancelled → c.cancelled = true

/-! ## the bookkeeping -/

theorem trk_accCur_back2 (m : C10St) (o : CObs) (p : Nat × Nat × Option Nat × Bool) (h : p ∈ (trk m o).accCur) :
    (∃ p0 ∈ m.accCur, p0.1 = p.1 ∧ p0.2.1 = p.2.1 ∧ p0.2.2.1 = p.2.2.1 ∧
      (p.2.2.2 = true → p0.2.2.2 = true ∨ ∃ k seen, o = .base (.cbinRel k seen) ∧ p.2.2.1 = some k)) ∨
    (∃ v, o = .cbin p.1 p.2.1 v ∧ p.2.2.1 = entryOf m v ∧ p.2.2.2 = false) := by
  have same : p ∈ m.accCur →
      (∃ p0 ∈ m.accCur, p0.1 = p.1 ∧ p0.2.1 = p.2.1 ∧ p0.2.2.1 = p.2.2.1 ∧
        (p.2.2.2 = true → p0.2.2.2 = true ∨ ∃ k seen, o = .base (.cbinRel k seen) ∧ p.2.2.1 = some k)) :=
    fun hp => ⟨p, hp, rfl, rfl, rfl, fun h => Or.inl h⟩
  cases o with
  | base bo =>
    cases bo with
    | cbinRel k seen =>
      left
      simp only [trk, List.mem_map] at h
      obtain ⟨p0, hp0, he⟩ := h
      split at he
      · rename_i hk
        subst he
        exact ⟨p0, hp0, rfl, rfl, rfl, fun _ => Or.inr ⟨k, seen, rfl, by simpa using hk⟩⟩
      · subst he
        exact ⟨p0, hp0, rfl, rfl, rfl, fun h => Or.inl h⟩
    | _ => exact Or.inl (same h)
  | inv a' op => exact Or.inl (same h)
  | cbin a' i v =>
    simp only [trk, List.mem_cons] at h
    rcases h with rfl | h
    · exact Or.inr ⟨v, rfl, rfl, rfl⟩
    · exact Or.inl (same h)
  | cbout a' i r =>
    simp only [trk, List.mem_filter] at h
    exact Or.inl (same h.1)
  | ret a' v e =>
    simp only [trk] at h
    refine Or.inl (same ?_)
    split at h
    · exact h
    · split at h <;> exact h
    · exact h
  | cancelCall a' => exact Or.inl (same h)
  | cbinReleased a' => exact Or.inl (same h)
  | probeCtx a' i c => exact Or.inl (same h)
  | probeProm a' _ _ _ => exact Or.inl (same h)

theorem find_cons_filter_ne {β : Type} (l : List (Nat × β)) (a a' : Nat) (x : β) (h : a' ≠ a) :
    ((a', x) :: l.filter (·.1 != a')).find? (·.1 == a) = l.find? (·.1 == a) := by
  have h1 : (a' == a) = false := by simpa using h
  simp only [List.find?_cons, h1]
  induction l with
  | nil => rfl
  | cons y ys ih =>
    simp only [List.filter_cons]
    by_cases hy : y.1 = a'
    · have : (y.1 != a') = false := by simp [hy]
      have hya : (y.1 == a) = false := by rw [hy]; exact h1
      simp only [this, List.find?_cons, hya]
      simpa using ih
    · have : (y.1 != a') = true := by simpa using hy
      simp only [this, if_true, List.find?_cons]
      cases (y.1 == a)
      · simpa using ih
      · rfl

theorem trk_accLast (m : C10St) (o : CObs) (a : Nat) (h : ∀ i r, o ≠ .cbout a i r) :
    (trk m o).accLast.find? (·.1 == a) = m.accLast.find? (·.1 == a) := by
  cases o with
  | base bo => cases bo <;> rfl
  | inv a' op => rfl
  | cbin a' i v => rfl
  | cbout a' i r =>
    have hne : a' ≠ a := by intro e; subst e; exact h i r rfl
    exact find_cons_filter_ne m.accLast a a' _ hne
  | ret a' v e =>
    simp only [trk]
    split
    · rfl
    · split <;> rfl
    · rfl
  | cancelCall a' => rfl
  | cbinReleased a' => rfl
  | probeCtx a' i c => rfl
  | probeProm a' _ _ _ => rfl

theorem trk_cancelled_back (m : C10St) (o : CObs) (a : Nat) (h : a ∈ (trk m o).cancelled) :
    a ∈ m.cancelled ∨ o = .cancelCall a := by
  cases o with
  | base bo => cases bo <;> exact Or.inl h
  | inv a' op => exact Or.inl h
  | cbin a' i v => exact Or.inl h
  | cbout a' i r => exact Or.inl h
  | ret a' v e =>
    simp only [trk] at h
    left
    split at h
    · exact h
    · split at h <;> exact h
    · exact h
  | cancelCall a' =>
    simp only [trk, List.mem_cons] at h
    rcases h with rfl | h
    · exact Or.inr rfl
    · exact Or.inl h
  | cbinReleased a' => exact Or.inl h
  | probeCtx a' i c => exact Or.inl h
  | probeProm a' _ _ _ => exact Or.inl h

/-- the bookkeeping moves, the consumer and the base state stay -/
theorem cb_mon (b : St) (m : C10St) (o : CObs) (a : Nat) (c : Con) (h : CB b m a c)
    (h1 : ∀ i v, o ≠ .cbin a i v) (h2 : ∀ i r, o ≠ .cbout a i r) (h3 : o ≠ .cancelCall a)
    (hflag : ∀ k seen, o = .base (.cbinRel k seen) → ∀ i v n ch fl, c.pc = .incb i v n ch →
      (a, i, some k, fl) ∈ m.accCur → c.cnonce ≠ n) : CB b (trk m o) a c :=
  { go := h.go, start := h.start, live := h.live, vz := h.vz, v := h.v, alt := h.alt, j0 := h.j0
    j1 := by
      intro i v n ch hpc hn k fl hm
      rcases trk_accCur_back2 m o _ hm with ⟨p0, hp0, g1, g2, g3, _⟩ | ⟨v', he, _⟩
      · have : p0 = (a, i, some k, p0.2.2.2) := by
          obtain ⟨x1, x2, x3, x4⟩ := p0
          simp at g1 g2 g3; subst g1; subst g2; subst g3; rfl
        rw [this] at hp0
        exact h.j1 i v n ch hpc hn k _ hp0
      · exact absurd he (h1 _ _)
    flag := by
      intro i v n ch hpc ent hm
      rcases trk_accCur_back2 m o _ hm with ⟨p0, hp0, g1, g2, g3, g4⟩ | ⟨v', he, _⟩
      · have hp : p0 = (a, i, ent, p0.2.2.2) := by
          obtain ⟨x1, x2, x3, x4⟩ := p0
          simp at g1 g2 g3; subst g1; subst g2; subst g3; rfl
        rcases g4 rfl with g | ⟨k, seen, he, hk⟩
        · rw [hp] at hp0; rw [g] at hp0
          exact h.flag i v n ch hpc ent hp0
        · simp at hk; subst hk
          rw [hp] at hp0
          exact hflag k seen he i v n ch _ hpc hp0
      · exact absurd he (h1 _ _)
    after := by
      intro r n ch hpc
      rw [trk_accLast m o a h2]; exact h.after r n ch hpc
    exita := by
      intro hop v x hpc
      rcases h.exita hop v x hpc with ⟨g1, g2⟩ | ⟨g1, p, hp, g2⟩ | ⟨i, g⟩
      · exact Or.inl ⟨g1, trk_cancelled m o a g2⟩
      · exact Or.inr (Or.inl ⟨g1, p, trk_resVals m o p hp, g2⟩)
      · exact Or.inr (Or.inr ⟨i, by rw [trk_accLast m o a h2]; exact g⟩)
    canc2 := by
      intro hm
      rcases trk_cancelled_back m o a hm with g | g
      · exact h.canc2 g
      · exact absurd g h3 }

/-- the base state moves (by an event that is not an event of consumer `a`, except possibly the
delivery of a notification that repeats `a`'s view), the consumer and the bookkeeping stay -/
theorem cb_base (b b' : St) (be : Ev) (m : C10St) (a : Nat) (c : Con) (h : CB b m a c)
    (hi : Inv b) (hi' : Inv b') (hx : Idx b) (ht : ThInv b.th) (ht' : ThInv b'.th) (hok : ConOk c)
    (hs : step b be = some b') (n1 : be ≠ .selfRelSwap a) (n2 : be ≠ .addRefCS a)
    (n3 : ∀ res v e, be = .cb (.refcb a false res v e) →
      c.cres = res ∧ c.cv = v ∧ c.ce = e ∧ (res = true → CurIs b v e)) : CB b' m a c := by
  have cbcur : ∀ res v e, be = .cb (.refcb a false res v e) → b'.cur = b.cur := by
    intro res v e he; subst he
    exact (nonlock_frame b b' _ hs (by simp [isLock])).2.1
  have fwd : ∀ res v e, AItem b a res v e → (c.cres = res ∧ c.cv = v ∧ c.ce = e → False) → AItem b' a res v e := by
    intro res v e hm hne
    refine item_fwd b b' be _ hs hm ?_
    intro he
    obtain ⟨g1, g2, g3, _⟩ := n3 res v e he
    exact hne ⟨g1, g2, g3⟩
  exact
    { go := h.go
      start := by
        intro hpc
        obtain ⟨hth, g1, g2⟩ := h.start hpc
        refine ⟨?_, g1, g2⟩
        obtain ⟨f1, f2⟩ := th_frame b b' be hs
        obtain ⟨x', hx'⟩ := f2 a _ hth
        rcases f1 a x' hx' with ⟨x, hx0, hst⟩ | ⟨hn, _⟩
        · rw [hth] at hx0; cases hx0
          cases x' with
          | rel r0 pc0 => simp [ThStep] at hst
          | ctx c0 cl0 pc0 u0 => simp [ThStep] at hst
          | ref k0 pc0 l0 f0 sf0 t0 =>
            obtain ⟨hkk, hpc0, _⟩ := hst
            subst hkk
            rcases hpc0 with hp | ⟨_, _, he⟩ | ⟨hp, _⟩
            · subst hp
              obtain ⟨q1, q2, q3, q4⟩ := ht'.fresh a _ _ _ _ _ hx'
              subst q1; subst q2; subst q3; subst q4
              exact hx'
            · exact absurd he n2
            · cases hp
        · rw [hth] at hn; cases hn
      live := fun hl => hookLive_step b b' be a ht (h.live hl) hs n1
      vz := h.vz
      v := by
        intro hl
        have hlive' := hookLive_step b b' be a ht (h.live hl) hs n1
        by_cases hany' : ∃ res v e, AItem b' a res v e
        · exact Or.inl hany'
        · right
          intro hr
          by_cases hany : ∃ res v e, AItem b a res v e
          · obtain ⟨res, v, e, hm⟩ := hany
            by_cases hbe : be = .cb (.refcb a false res v e)
            · obtain ⟨g1, g2, g3, g4⟩ := n3 res v e hbe
              rw [g2, g3]
              exact curIs_persist b b' be hi hx hs v e (g4 (by rw [← g1]; exact hr)) (cbcur res v e hbe)
            · exact absurd ⟨res, v, e, item_fwd b b' be _ hs hm hbe⟩ hany'
          · have hcur : CurIs b c.cv c.ce := by
              rcases h.v hl with g | g
              · exact absurd g hany
              · exact g hr
            by_cases hc : b'.cur = b.cur
            · exact curIs_persist b b' be hi hx hs _ _ hcur hc
            · exfalso
              obtain ⟨i0, _, _, hi0, _⟩ := hcur
              have := cur_drop b b' be a hi hi' hs i0 hi0 (by rw [← hi0]; exact hc) hlive'
              exact hany' ⟨false, 0, 0, this.2⟩
      alt := by
        intro hl v e hm
        by_cases hold : AItem b a true v e
        · exact h.alt hl v e hold
        · cases hcr : c.cres with
          | false => exact Or.inl rfl
          | true =>
            right
            have hlk : isLock be = true := by
              cases hlk : isLock be
              · exact absurd ((nonlock_frame b b' be hs hlk).2.2 _ hm) hold
              · rfl
            have hpe := lock_free b b' be hs hlk
            have hnew : NewItem b b' (.refcb a false true v e) := by
              rcases items_frame b b' be hi hs _ hm with g | g
              · exact absurd g hold
              · exact g
            obtain ⟨k, pc, f, sf, t, i, _, _, _, hcur', hv, he⟩ := newItem_deliver b b' a false v e hnew
            have hcur : CurIs b c.cv c.ce := by
              rcases h.v hl with ⟨r2, v2, e2, g⟩ | g
              · unfold AItem at g; rw [hpe] at g; simp at g
              · exact g hcr
            obtain ⟨i0, c0, h0, hi0, hc0, hr0⟩ := hcur
            have := cur_no_swap b b' be hi hi' hs i0 i hi0 hcur'
            subst this
            obtain ⟨v1, v2⟩ := value_eq b b' be hi hi' hx hs i hi0 hcur'
            obtain ⟨c1, hh1, k1, _, _, _, k5, _⟩ := hi.core.curSome i hi0
            rw [hc0] at k1; cases k1
            rw [hr0] at k5; simp at k5
            rw [hv, he, v1, v2]
            exact ⟨k5.1, k5.2.2⟩
      j0 := by
        intro v n ch hpc hn
        have hl : LoopPc c := by unfold LoopPc; rw [hpc]; trivial
        have hlive' := hookLive_step b b' be a ht (h.live hl) hs n1
        have hview : c.cres = true := by
          have := hok.2; rw [hpc] at this; exact (this.2 hn).1
        rcases h.j0 v n ch hpc hn with g | g
        · exact Or.inl (fwd false 0 0 g (by intro ⟨q, _⟩; rw [hview] at q; cases q))
        · by_cases hc : b'.cur = b.cur
          · exact Or.inr (curIs_persist b b' be hi hx hs _ _ g hc)
          · obtain ⟨i0, _, _, hi0, _⟩ := g
            exact Or.inl (cur_drop b b' be a hi hi' hs i0 hi0 (by rw [← hi0]; exact hc) hlive').2
      j1 := by
        intro i v n ch hpc hn k fl hm
        have hl : LoopPc c := by unfold LoopPc; rw [hpc]; trivial
        have hlive' := hookLive_step b b' be a ht (h.live hl) hs n1
        have hview : c.cres = true := by
          have := hok.2; rw [hpc] at this; exact (this.2 hn).1
        rcases h.j1 i v n ch hpc hn k fl hm with g | g
        · exact Or.inl (fwd false 0 0 g (by intro ⟨q, _⟩; rw [hview] at q; cases q))
        · by_cases hc : b'.cur = b.cur
          · exact Or.inr (curEnt_persist b b' be hi hx hs _ g hc)
          · obtain ⟨i0, _, hi0, _⟩ := g
            exact Or.inl (cur_drop b b' be a hi hi' hs i0 hi0 (by rw [← hi0]; exact hc) hlive').2
      flag := h.flag
      after := h.after
      exita := h.exita
      canc2 := h.canc2 }

/-- the reference of another consumer is handed to its caller -/
theorem cb_keep (b : St) (m : C10St) (a a0 : Nat) (x : TS) (c : Con) (h : CB b m a c) (hne : a0 ≠ a) :
    CB { b with th := b.th.set a0 x } m a c :=
  { go := h.go
    start := by
      intro hpc
      obtain ⟨g1, g2⟩ := h.start hpc
      exact ⟨by show (b.th.set a0 x)[a]? = _; rw [getElem?_set_ne' _ _ _ _ hne]; exact g1, g2⟩
    live := by
      intro hl
      obtain ⟨f, t, g⟩ := h.live hl
      exact ⟨f, t, by show (b.th.set a0 x)[a]? = _; rw [getElem?_set_ne' _ _ _ _ hne]; exact g⟩
    vz := h.vz, v := h.v, alt := h.alt, j0 := h.j0, j1 := h.j1, flag := h.flag, after := h.after
    exita := h.exita, canc2 := h.canc2 }

theorem loop_access (c : Con) (hok : OpOk c) (h : LoopPc c) : c.op = .access :=
  access_of_pc c hok (by unfold LoopPc at h; exact h)

/-- a consumer that is not an `Access` call -/
theorem cb_na (b' : St) (m' : C10St) (a : Nat) (c' : Con) (hop : c'.op ≠ .access) (hok : OpOk c')
    (hstart : c'.pc = .start → b'.th[a]? = some (TS.ref .hook .inv false false false none) ∧ c'.cres = false ∧ c'.ce = 0)
    (hvz : c'.cres = false → c'.ce = 0) (hc2 : a ∈ m'.cancelled → c'.cancelled = true) : CB b' m' a c' :=
  { go := fun h => absurd h hop
    start := hstart
    live := fun hl => absurd (loop_access c' hok hl) hop
    vz := hvz
    v := fun hl => absurd (loop_access c' hok hl) hop
    alt := fun hl => absurd (loop_access c' hok hl) hop
    j0 := fun v n ch hpc => absurd (loop_access c' hok (by unfold LoopPc; rw [hpc]; trivial)) hop
    j1 := fun i v n ch hpc => absurd (loop_access c' hok (by unfold LoopPc; rw [hpc]; trivial)) hop
    flag := fun i v n ch hpc => absurd (loop_access c' hok (by unfold LoopPc; rw [hpc]; trivial)) hop
    after := by
      intro r n ch hpc
      exfalso
      rcases hpc with hpc | hpc <;> exact hop (loop_access c' hok (by unfold LoopPc; rw [hpc]; trivial))
    exita := fun h => absurd h hop
    canc2 := hc2 }

/-- an `Access` call that has left its loop -/
theorem cb_out (b' : St) (m' : C10St) (a : Nat) (c' : Con) (hnl : ¬ LoopPc c') (hns : c'.pc ≠ .start)
    (hgo : c'.op = .access → c'.go = .none) (hvz : c'.cres = false → c'.ce = 0)
    (hex : c'.op = .access → ∀ v x, c'.pc = .exitWait v x →
      (x = 9 ∧ a ∈ m'.cancelled) ∨ (x ≠ 0 ∧ ∃ p ∈ m'.resVals, p.2 = x) ∨
      ∃ i, m'.accLast.find? (·.1 == a) = some (a, i, false, x))
    (hc2 : a ∈ m'.cancelled → c'.cancelled = true) : CB b' m' a c' :=
  { go := hgo
    start := fun h => absurd h hns
    live := fun hl => absurd hl hnl
    vz := hvz
    v := fun hl => absurd hl hnl
    alt := fun hl => absurd hl hnl
    j0 := fun v n ch hpc => absurd (by unfold LoopPc; rw [hpc]; trivial) hnl
    j1 := fun i v n ch hpc => absurd (by unfold LoopPc; rw [hpc]; trivial) hnl
    flag := fun i v n ch hpc => absurd (by unfold LoopPc; rw [hpc]; trivial) hnl
    after := by
      intro r n ch hpc
      exfalso
      rcases hpc with hpc | hpc <;> exact hnl (by unfold LoopPc; rw [hpc]; trivial)
    exita := hex
    canc2 := hc2 }

theorem hook_access (c : Con) (nonce : Nat) (res : Bool) (v e : Nat) (hop : c.op = .access) :
    hook c nonce res v e =
      if res ≠ c.cres ∨ v ≠ c.cv ∨ e ≠ c.ce then
        { c with cres := res, cv := v, ce := e, cnonce := c.cnonce + 1, bc := c.bc.broadcast }
      else c := by
  unfold hook; rw [hop]

theorem hook_view_na (c : Con) (nonce : Nat) (res : Bool) (v e : Nat) (hop : c.op ≠ .access) :
    (hook c nonce res v e).cres = c.cres ∧ (hook c nonce res v e).ce = c.ce := by
  unfold hook
  cases h : c.op with
  | access => exact absurd h hop
  | wait => simp
  | resolve => simp
  | promise => simp
  | rwr cb => simp only []; (repeat' split) <;> exact ⟨rfl, rfl⟩

theorem addRef_th (b b' : St) (a : Nat) (k : CbKind) (hs : step b (.addRefCS a) = some b')
    (hth : b.th[a]? = some (TS.ref k .inv false false false none)) :
    ∃ t, b'.th[a]? = some (TS.ref k .done true false false t) := by
  have hlt := lt_of_getElem? hth
  simp only [step] at hs; split at hs <;> try simp at hs
  rename_i k' ha
  rw [hth] at ha; cases ha
  obtain ⟨_, hs⟩ := hs
  split at hs
  · simp at hs; subst hs
    rw [startResolve_th, shutdown_th]
    split
    · rw [tellAll_get]; simp [hlt, tell1]
    · exact ⟨none, by simp [hlt]⟩
  · split at hs <;> simp at hs <;> subst hs
    · exact ⟨b.cur, by simp [hlt]⟩
    · exact ⟨none, by simp [hlt]⟩

/-- the clauses of consumer `a` after its own transition -/
theorem cb_trans (s s' : CSt) (e : CEv) (m : C10St) (a : Nat) (c c' : Con) (ht : Trans s e a c c')
    (hs : cstep s e = some s') (h1 : getCon s a = some c) (h2 : getCon s' a = some c')
    (h : CB s.b m a c) (hca : CA m a c) (hb : BInv s.b m) (hi' : Inv s'.b) (ht' : ThInv s'.b.th) (hil : IL s.b)
    (hok : ConOk c) : CB s'.b (after m e) a c' := by
  have hopk' := opOk_trans s e a c c' ht hca.opok
  have hacc : LoopPc c → c.op = .access := loop_access c hca.opok
  cases ht with
  | hook a c res v er =>
    show CB s'.b m a (hook c s.b.nonce res v er)
    have hob := own_base s s' _ a c _ hs h1 h2 (Or.inr (Or.inl ⟨res, v, er, rfl⟩))
    simp only [OwnBase] at hob
    have hmem := cb_mem s.b s'.b _ hob
    obtain ⟨g1, g2⟩ := hb.item a false res v er hmem
    have hcur : s'.b.cur = s.b.cur := (nonlock_frame s.b s'.b _ hob (by simp [isLock])).2.1
    have hsub : ∀ it, it ∈ s'.b.pend.flatten → it ∈ s.b.pend.flatten :=
      (nonlock_frame s.b s'.b _ hob (by simp [isLock])).2.2
    have hnstart : c.pc ≠ .start := by
      intro hp
      obtain ⟨hth, _⟩ := h.start hp
      obtain ⟨k, pc, l, f, sf, t, hth2, hpc⟩ := hil a res v er hmem
      rw [hth] at hth2; cases hth2; exact hpc rfl
    have hpc := hook_pc c s.b.nonce res v er
    obtain ⟨hf1, _⟩ := hook_fields c s.b.nonce res v er
    by_cases hop : c.op = .access
    · rw [hook_access c _ res v er hop]
      by_cases hchg : res ≠ c.cres ∨ v ≠ c.cv ∨ er ≠ c.ce
      · rw [if_pos hchg]
        have hlive : LoopPc c → HookLive s'.b a :=
          fun hl => hookLive_step s.b s'.b _ a hb.thi (h.live hl) hob (by simp)
        have snap : ∀ n ch, SnapOk c n ch → c.cnonce + 1 ≠ n := by
          intro n ch hsn; have := hsn.2.1; omega
        exact
          { go := h.go
            start := fun hp => absurd hp hnstart
            live := hlive
            vz := by
              intro hr
              have hr' : res = false := hr
              exact (g2 hr').2.2.1
            v := by
              intro hl
              by_cases hany' : ∃ r2 v2 e2, AItem s'.b a r2 v2 e2
              · exact Or.inl hany'
              · right
                intro hr
                have hr' : res = true := hr
                exact curIs_persist s.b s'.b _ hb.inv hb.idx hob v er (g1 hr') hcur
            alt := by
              intro hl v2 e2 hm2
              cases hres : res with
              | false => exact Or.inl rfl
              | true =>
                right
                obtain ⟨g3, _⟩ := hb.item a false true v2 e2 (hsub _ hm2)
                obtain ⟨i1, c1, hh1, k1, k2, k3⟩ := g1 hres
                obtain ⟨i2, c2, hh2, q1, q2, q3⟩ := g3 rfl
                rw [k1] at q1; cases q1
                rw [k2] at q2; cases q2
                rw [k3] at q3; simp at q3
                exact ⟨q3.1, q3.2.2⟩
            j0 := by
              intro v0 n ch hp hn
              exfalso
              have hp' : c.pc = .calling v0 n ch := hp
              have := hok.2; rw [hp'] at this
              exact snap n ch this.1 hn
            j1 := by
              intro i v0 n ch hp hn
              exfalso
              have hp' : c.pc = .incb i v0 n ch := hp
              have := hok.2; rw [hp'] at this
              exact snap n ch this.1 hn
            flag := by
              intro i v0 n ch hp ent hm
              have hp' : c.pc = .incb i v0 n ch := hp
              have := hok.2; rw [hp'] at this
              exact snap n ch this.1
            after := by
              intro r n ch hp
              obtain ⟨i, fl, q1, q2⟩ := h.after r n ch hp
              refine ⟨i, fl, q1, fun _ => ?_⟩
              have hsn : SnapOk c n ch := by
                have := hok.2
                rcases hp with hp | hp
                · have hp' : c.pc = .afterCb r n ch := hp
                  rw [hp'] at this; exact this
                · have hp' : c.pc = .recheck r n ch := hp
                  rw [hp'] at this; exact this
              exact snap n ch hsn
            exita := h.exita
            canc2 := h.canc2 }
      · rw [if_neg hchg]
        have hview : c.cres = res ∧ c.cv = v ∧ c.ce = er := by
          refine ⟨?_, ?_, ?_⟩
          · cases hr : c.cres <;> cases hr2 : res <;> simp_all
          · exact Classical.byContradiction fun hne => hchg (Or.inr (Or.inl (fun e0 => hne e0.symm)))
          · exact Classical.byContradiction fun hne => hchg (Or.inr (Or.inr (fun e0 => hne e0.symm)))
        refine cb_base s.b s'.b _ m a c h hb.inv hi' hb.idx hb.thi ht' hok hob (by simp) (by simp) ?_
        intro r2 v2 e2 he
        cases he
        exact ⟨hview.1, hview.2.1, hview.2.2, g1⟩
    · obtain ⟨q1, q2⟩ := hook_view_na c s.b.nonce res v er hop
      refine cb_na _ _ a _ (by rw [hook_op]; exact hop) hopk' (by rw [hpc]; exact fun hp => absurd hp hnstart) ?_ ?_
      · rw [q1, q2]; exact h.vz
      · rw [hf1]; exact h.canc2
  | started a c hs0 =>
    show CB s'.b m a _
    have hob := own_base s s' _ a c _ hs h1 h2 (Or.inl rfl)
    simp only [OwnBase] at hob
    obtain ⟨hth, hcr, hce⟩ := h.start hs0
    obtain ⟨t, hth'⟩ := addRef_th s.b s'.b a .hook hob hth
    by_cases hop : c.op = COp.access
    · simp only [hop, if_true]
      exact
        { go := fun _ => h.go hop
          start := by simp
          live := fun _ => ⟨false, t, hth'⟩
          vz := h.vz
          v := fun _ => Or.inr (fun hr => by rw [hcr] at hr; cases hr)
          alt := fun _ _ _ _ => Or.inl hcr
          j0 := by simp
          j1 := by simp
          flag := by simp
          after := by simp
          exita := by simp
          canc2 := h.canc2 }
    · simp only [hop, if_false]
      exact cb_na _ _ a _ hop (by simpa [hop] using hopk') (by simp) h.vz h.canc2
  | snapErr a c hl he =>
    show CB s'.b m a _
    have hloop : LoopPc c := by unfold canLook at hl; unfold LoopPc; split at hl <;> simp_all
    refine cb_out _ _ a _ (by simp [LoopPc]) (by simp) h.go h.vz ?_ h.canc2
    intro _ v x hp
    simp [snapped] at hp
    right; left
    refine ⟨by rw [← hp.2]; exact he, ?_⟩
    have hcr : c.cres = true := by
      cases hr : c.cres
      · exact absurd (h.vz hr) he
      · rfl
    exact ⟨_, hca.view hcr, by rw [← hp.2]⟩
  | snapCall a c hl he hr =>
    show CB s'.b m a _
    have hloop : LoopPc c := by unfold canLook at hl; unfold LoopPc; split at hl <;> simp_all
    have hob := own_base s s' _ a c _ hs h1 h2 (Or.inr (Or.inr (Or.inl rfl)))
    simp only [OwnBase] at hob
    have hbb : s'.b = s.b := by
      rcases hob with ⟨⟨v, x, hp⟩, _⟩ | hbb
      · simp [snapped] at hp
      · exact hbb
    rw [hbb]
    exact
      { go := h.go
        start := by simp
        live := fun _ => h.live hloop
        vz := h.vz
        v := fun _ => h.v hloop
        alt := fun _ => h.alt hloop
        j0 := by
          intro v0 n ch hp _
          simp [snapped] at hp
          rw [← hp.1]
          rcases h.v hloop with ⟨r2, v2, e2, hm⟩ | g
          · cases r2 with
            | false =>
              obtain ⟨_, q⟩ := hb.item a false false v2 e2 hm
              obtain ⟨_, q2, q3, _⟩ := q rfl
              subst q2; subst q3
              exact Or.inl hm
            | true =>
              rcases h.alt hloop v2 e2 hm with q | ⟨q1, q2⟩
              · rw [hr] at q; cases q
              · obtain ⟨q3, _⟩ := hb.item a false true v2 e2 hm
                right
                rw [q1, ← he, q2]
                exact q3 rfl
          · right
            have := g hr
            rw [he] at this; exact this
        j1 := by simp
        flag := by simp
        after := by simp
        exita := by simp
        canc2 := h.canc2 }
  | snapWait a c hl he hr =>
    show CB s'.b m a _
    have hloop : LoopPc c := by unfold canLook at hl; unfold LoopPc; split at hl <;> simp_all
    have hob := own_base s s' _ a c _ hs h1 h2 (Or.inr (Or.inr (Or.inl rfl)))
    simp only [OwnBase] at hob
    have hbb : s'.b = s.b := by
      rcases hob with ⟨⟨v, x, hp⟩, _⟩ | hbb
      · simp [snapped] at hp
      · exact hbb
    rw [hbb]
    exact
      { go := h.go, start := by simp, live := fun _ => h.live hloop, vz := h.vz, v := fun _ => h.v hloop
        alt := fun _ => h.alt hloop, j0 := by simp, j1 := by simp, flag := by simp, after := by simp
        exita := by simp, canc2 := h.canc2 }
  | watch a c =>
    show CB s'.b m a _
    have hbb : s'.b = s.b := by
      simp only [cstep, h1] at hs
      split at hs <;> try simp at hs
      all_goals (obtain ⟨_, rfl⟩ := hs; rfl)
    rw [hbb]
    exact
      { go := h.go, start := h.start, live := h.live, vz := h.vz, v := h.v, alt := h.alt, j0 := h.j0, j1 := h.j1
        flag := h.flag, after := h.after, exita := h.exita, canc2 := h.canc2 }
  | cbin a i v n ch c hpc hm =>
    show CB s'.b (trk m (.cbin a i v)) a _
    have hloop : LoopPc c := by unfold LoopPc; rw [hpc]; trivial
    have hob := own_base s s' _ a c _ hs h1 h2 (Or.inr (Or.inr (Or.inr (Or.inr (Or.inl ⟨i, v, rfl⟩)))))
    simp only [OwnBase] at hob
    have hbb : s'.b = s.b := by
      rcases hob with ⟨⟨v', x, hp⟩, _⟩ | hbb
      · simp at hp
      · exact hbb
    rw [hbb]
    have notail : ∀ p ∈ m.accCur, p.1 ≠ a := by
      intro p hp hpa
      obtain ⟨v', n', ch', hh⟩ := hca.idx p hp hpa
      rw [hpc] at hh; cases hh
    exact
      { go := h.go
        start := by simp
        live := fun _ => h.live hloop
        vz := h.vz
        v := fun _ => h.v hloop
        alt := fun _ => h.alt hloop
        j0 := by simp
        j1 := by
          intro i' v' n' ch' hp hn k fl hmem
          simp at hp
          have hn0 : c.cnonce = n := by rw [hp.2.2.1]; exact hn
          simp only [trk, List.mem_cons] at hmem
          rcases hmem with he | hmem
          · simp at he
            rcases h.j0 v n ch hpc hn0 with g | g
            · exact Or.inl g
            · exact Or.inr (entry_link s.b m hb.idx hb.val hb.zero v k g he.2.1.symm)
          · exact absurd rfl (notail _ hmem)
        flag := by
          intro i' v' n' ch' hp ent hmem
          simp only [trk, List.mem_cons] at hmem
          rcases hmem with he | hmem
          · simp at he
          · exact absurd rfl (notail _ hmem)
        after := by simp
        exita := by simp
        canc2 := h.canc2 }
  | cbout a i r v n ch c hpc =>
    show CB s'.b (trk m (.cbout a i r)) a _
    have hloop : LoopPc c := by unfold LoopPc; rw [hpc]; trivial
    have hob := own_base s s' _ a c _ hs h1 h2
      (Or.inr (Or.inr (Or.inr (Or.inr (Or.inr (Or.inl ⟨i, r, rfl⟩))))))
    simp only [OwnBase] at hob
    have hbb : s'.b = s.b := by
      rcases hob with ⟨⟨v', x, hp⟩, _⟩ | hbb
      · simp at hp
      · exact hbb
    rw [hbb]
    exact
      { go := h.go
        start := by simp
        live := fun _ => h.live hloop
        vz := h.vz
        v := fun _ => h.v hloop
        alt := fun _ => h.alt hloop
        j0 := by simp
        j1 := by simp
        flag := by simp
        after := by
          intro r' n' ch' hp
          simp at hp
          rw [← hp.1, ← hp.2.1]
          refine ⟨i, (match m.accCur.find? (fun p => p.1 == a && p.2.1 == i) with
            | some p => p.2.2.2
            | none => false), (by
              simp [trk, List.find?_cons]
              generalize List.find? (fun p => p.fst == a && p.snd.fst == i) m.accCur = o
              cases o <;> rfl), ?_⟩
          intro hfl
          cases hf : m.accCur.find? (fun p => p.1 == a && p.2.1 == i) with
          | none => simp [hf] at hfl
          | some p =>
            simp [hf] at hfl
            have hp1 := List.find?_some hf
            have hp2 := List.mem_of_find?_eq_some hf
            simp at hp1
            have : p = (a, i, p.2.2.1, true) := by
              obtain ⟨x1, x2, x3, x4⟩ := p
              simp at hp1 hfl; obtain ⟨rfl, rfl⟩ := hp1; subst hfl; rfl
            rw [this] at hp2
            exact h.flag i v n ch hpc _ hp2
        exita := by simp
        canc2 := h.canc2 }
  | checkCancel a r n ch c hpc hc =>
    show CB s'.b m a _
    refine cb_out _ _ a _ (by simp [LoopPc]) (by simp) h.go h.vz ?_ h.canc2
    intro _ v x hp
    simp at hp
    exact Or.inl ⟨hp.2.symm, hca.canc hc⟩
  | checkGo a r n ch c hpc hc =>
    show CB s'.b m a _
    have hloop : LoopPc c := by unfold LoopPc; rw [hpc]; trivial
    have hob := own_base s s' _ a c _ hs h1 h2
      (Or.inr (Or.inr (Or.inr (Or.inr (Or.inr (Or.inr (Or.inl rfl)))))))
    simp only [OwnBase] at hob
    have hbb : s'.b = s.b := by
      rcases hob with ⟨⟨v', x, hp⟩, _⟩ | hbb
      · simp at hp
      · exact hbb
    rw [hbb]
    exact
      { go := h.go, start := by simp, live := fun _ => h.live hloop, vz := h.vz, v := fun _ => h.v hloop
        alt := fun _ => h.alt hloop, j0 := by simp, j1 := by simp, flag := by simp
        after := by
          intro r' n' ch' hp
          simp at hp
          rw [← hp.1, ← hp.2.1]
          exact h.after r n ch (Or.inl hpc)
        exita := by simp, canc2 := h.canc2 }
  | recheckSame a r n ch c hpc hn =>
    show CB s'.b m a _
    refine cb_out _ _ a _ (by simp [LoopPc]) (by simp) h.go h.vz ?_ h.canc2
    intro _ v x hp
    simp at hp
    obtain ⟨i, fl, q1, q2⟩ := h.after r n ch (Or.inr hpc)
    right; right
    cases fl with
    | true => exact absurd hn (q2 rfl)
    | false => exact ⟨i, by rw [← hp.2]; exact q1⟩
  | recheckDiff a r n ch c hpc hn =>
    show CB s'.b m a _
    have hloop : LoopPc c := by unfold LoopPc; rw [hpc]; trivial
    have hob := own_base s s' _ a c _ hs h1 h2
      (Or.inr (Or.inr (Or.inr (Or.inr (Or.inr (Or.inr (Or.inr (Or.inl rfl))))))))
    simp only [OwnBase] at hob
    have hbb : s'.b = s.b := by
      rcases hob with ⟨⟨v', x, hp⟩, _⟩ | hbb
      · simp at hp
      · exact hbb
    rw [hbb]
    exact
      { go := h.go, start := by simp, live := fun _ => h.live hloop, vz := h.vz, v := fun _ => h.v hloop
        alt := fun _ => h.alt hloop, j0 := by simp, j1 := by simp, flag := by simp, after := by simp
        exita := by simp, canc2 := h.canc2 }
  | waitCancel a n ch c hpc hc =>
    show CB s'.b m a _
    refine cb_out _ _ a _ (by simp [LoopPc]) (by simp) h.go h.vz ?_ h.canc2
    intro _ v x hp
    simp at hp
    exact Or.inl ⟨hp.2.symm, hca.canc hc⟩
  | awaitErr a v x c hpc hp he =>
    show CB s'.b m a _
    have hop : c.op ≠ .access := fun ha => (hca.opok.1 ha).1 hpc
    exact cb_na _ _ a _ hop hopk' (by simp) h.vz h.canc2
  | awaitOk a v c hpc hp =>
    show CB s'.b m a _
    have hop : c.op ≠ .access := fun ha => (hca.opok.1 ha).1 hpc
    exact cb_na _ _ a _ hop hopk' (by simp) h.vz h.canc2
  | awaitCancel a c hpc hc =>
    show CB s'.b m a _
    have hop : c.op ≠ .access := fun ha => (hca.opok.1 ha).1 hpc
    exact cb_na _ _ a _ hop hopk' (by simp) h.vz h.canc2
  | retWait a v x c hpc =>
    show CB s'.b (trk m (.ret a v x)) a _
    refine cb_out _ _ a _ (by simp [LoopPc]) (by simp) h.go h.vz (by simp) ?_
    intro hm
    rcases trk_cancelled_back m _ a hm with g | g
    · exact h.canc2 g
    · cases g
  | retKeep a v x c hpc =>
    show CB s'.b (trk m (.ret a v x)) a _
    refine cb_out _ _ a _ (by simp [LoopPc]) (by simp) h.go h.vz (by simp) ?_
    intro hm
    rcases trk_cancelled_back m _ a hm with g | g
    · exact h.canc2 g
    · cases g
  | cancel a c =>
    show CB s'.b (trk m (.cancelCall a)) a _
    have hbb : s'.b = s.b := by
      simp [cstep, h1] at hs
      subst hs; rfl
    rw [hbb]
    exact
      { go := h.go, start := h.start, live := h.live, vz := h.vz, v := h.v, alt := h.alt, j0 := h.j0
        j1 := h.j1, flag := h.flag, after := h.after
        exita := by
          intro hop v x hp
          rcases h.exita hop v x hp with ⟨g1, g2⟩ | g | g
          · exact Or.inl ⟨g1, List.mem_cons_of_mem _ g2⟩
          · exact Or.inr (Or.inl g)
          · exact Or.inr (Or.inr g)
        canc2 := fun _ => rfl }
  | goRel a c hg =>
    show CB s'.b m a _
    have hop : c.op ≠ .access := by intro ha; have := h.go ha; rw [this] at hg; cases hg
    have hob := own_base s s' _ a c _ hs h1 h2
      (Or.inr (Or.inr (Or.inr (Or.inr (Or.inr (Or.inr (Or.inr (Or.inr (Or.inr (Or.inr (Or.inr (Or.inr (Or.inr (Or.inl rfl))))))))))))))
    simp only [OwnBase] at hob
    refine cb_na _ _ a _ hop hopk' ?_ h.vz h.canc2
    intro hp
    exfalso
    obtain ⟨hth, _⟩ := h.start hp
    simp only [step, hth] at hob
    simp at hob
  | goCb a c hg =>
    show CB s'.b (trk m (.cbinReleased a)) a _
    have hop : c.op ≠ .access := by intro ha; have := h.go ha; rw [this] at hg; cases hg
    have hob := own_base s s' _ a c _ hs h1 h2
      (Or.inr (Or.inr (Or.inr (Or.inr (Or.inr (Or.inr (Or.inr (Or.inr (Or.inr (Or.inr (Or.inr (Or.inr (Or.inr (Or.inr rfl))))))))))))))
    simp only [OwnBase] at hob
    have hbb : s'.b = s.b := by
      simp only [cstep, h1] at hs
      split at hs <;> simp at hs
      subst hs; rfl
    rw [hbb]
    exact cb_na _ _ a _ hop hopk' h.start h.vz h.canc2

/-! ## the relation -/

def RB (s : CSt) (m : C10St) : Prop :=
  RA s m ∧ CInv s ∧ IL s.b ∧ (∀ a ∈ m.cancelled, a < s.ct.length) ∧
  ∀ (a : Nat) (c : Con), getCon s a = some c → CB s.b m a c

theorem obs_cancel (e : CEv) (a : Nat) (h : CEv.obs e = some (.cancelCall a)) : e = .envCancelCall a := by
  cases e <;> simp [CEv.obs] at h
  case envCancelCall a' => rw [h]

theorem obs_rel (be : Ev) (k seen : Nat) (h : Ev.obs be = some (.cbinRel k seen)) : ∃ i, be = .cb (.rel i k seen) := by
  cases be <;> simp [Ev.obs] at h
  case cb it =>
    cases it with
    | rel i k' seen' => simp [Ev.obs] at h; exact ⟨i, by rw [h.1, h.2]⟩
    | refcb r vis res v er => cases vis <;> simp [Ev.obs] at h

/-- when the release function of entry `k` is called, an `Access` callback that was given entry `k`
has had its snapshot superseded -/
theorem flag_now (b b' : St) (m : C10St) (a i k seen : Nat) (c : Con) (hb : BInv b m) (h : CB b m a c)
    (hs : step b (.cb (.rel i k seen)) = some b') (j v n ch : Nat) (fl : Bool) (hpc : c.pc = .incb j v n ch)
    (hm : (a, j, some k, fl) ∈ m.accCur) : c.cnonce ≠ n := by
  intro hn
  have hs0 := hs
  simp only [step] at hs0; split at hs0 <;> try simp at hs0
  rename_i bt rest hpe
  have hrl := hb.rlast
  rw [hpe] at hrl
  obtain ⟨hrest, hall⟩ := relLast_head bt rest hrl _ hs0.1 rfl
  have noitem : ¬ AItem b a false 0 0 := by
    intro hi
    unfold AItem at hi
    rw [hpe, hrest] at hi
    simp at hi
    have := hall _ hi; cases this
  rcases h.j1 j v n ch hpc hn k fl hm with g | ⟨i1, c1, hcur, hc1, hk1⟩
  · exact noitem g
  · have hin : relIn b.pend i k := ⟨bt, by rw [hpe]; simp, seen, hs0.1⟩
    obtain ⟨ci, hci, hcik⟩ := hb.pend i k hin
    have : i1 = i := hb.idx.inj i1 i c1 ci k hc1 hci hk1 hcik
    subst this
    rw [hc1] at hci; cases hci
    have hone : 0 < relItems b.pend i1 := by
      rw [hpe, relItems_cons]
      have : 0 < bt.countP (CbItem.isRel i1) := by
        rw [List.countP_pos_iff]; exact ⟨_, hs0.1, by simp [CbItem.isRel]⟩
      omega
    have hrel : c1.released = true := by
      have := hb.acct i1
      cases hr : released b i1
      · rw [hr] at this; simp [b2n] at this; omega
      · simpa [released, hc1] using hr
    obtain ⟨cj, hh, hcj, _, _, _, hres, _, hnr⟩ := hb.inv.core.curSome i1 hcur
    rw [hc1] at hcj; cases hcj
    obtain ⟨_, v', er, hres2⟩ := hb.inv.core.relFin i1 c1 hc1 hrel
    rw [hres] at hres2; simp at hres2
    have := hnr hres2.2.1; rw [hrel] at this; cases this

theorem il_keep (b : St) (a0 : Nat) (k : CbKind) (live flag self : Bool) (told : Option Nat) (h : IL b) :
    IL { b with th := b.th.set a0 (TS.ref k .retd live flag self told) } := by
  intro a res v e hm
  obtain ⟨k1, pc, l, f, sf, t, hth, hpc⟩ := h a res v e hm
  by_cases ha : a0 = a
  · subst ha
    exact ⟨k, .retd, live, flag, self, told, by simp [lt_of_getElem? hth], by simp⟩
  · exact ⟨k1, pc, l, f, sf, t, by show (b.th.set a0 _)[a]? = _; rw [getElem?_set_ne' _ _ _ _ ha]; exact hth, hpc⟩

theorem rb_step (s : CSt) (e : CEv) (s' : CSt) (m : C10St) (h : RB s m) (hs : cstep s e = some s') :
    RB s' (after m e) := by
  obtain ⟨hra, hci, hil, hfr, hcons⟩ := h
  have hra' := ra_step s e s' m hra hs
  have hci' := cstep_inv s s' e hci hs
  obtain ⟨⟨hal, hb⟩, hfresh, hcas⟩ := hra
  have hb' := hra'.1.2
  have hmono := ct_length_mono s s' e hs
  have hmove := cstep_base s s' e hs
  have hil' : IL s'.b := by
    rcases hmove with ⟨be, _, hst, _⟩ | ⟨a0, op, _, hst, _⟩ | ⟨a0, hst, _⟩ | ⟨hbb, _⟩ |
        ⟨a0, v, x, k, pc, live, flag, self, told, c0, _, _, _, hbb, _⟩
    · exact il_step s.b s'.b be hb.inv hb'.thi hil hst
    · exact il_step s.b s'.b _ hb.inv hb'.thi hil hst
    · exact il_step s.b s'.b _ hb.inv hb'.thi hil hst
    · rw [hbb]; exact hil
    · rw [hbb]; exact il_keep s.b a0 k live flag self told hil
  have hfr' : ∀ a ∈ (after m e).cancelled, a < s'.ct.length := by
    intro a ha
    unfold after at ha
    cases hob : CEv.obs e with
    | none => rw [hob] at ha; exact Nat.lt_of_lt_of_le (hfr a ha) hmono
    | some o =>
      rw [hob] at ha
      rcases trk_cancelled_back m o a ha with g | g
      · exact Nat.lt_of_lt_of_le (hfr a g) hmono
      · subst g
        have he := obs_cancel e a hob; subst he
        simp only [cstep] at hs
        cases hc : getCon s a with
        | none => simp [hc] at hs
        | some c => exact Nat.lt_of_lt_of_le (getCon_lt s a c hc) hmono
  refine ⟨hra', hci', hil', hfr', ?_⟩
  intro a c' hc'
  -- the bookkeeping part for a consumer that the event does not belong to
  have mon : ∀ (b0 : St) (c : Con), CB b0 m a c → ¬ Targets e a → getCon s a = some c →
      (b0 = s.b) → CB b0 (after m e) a c := by
    intro b0 c hcb hnt hc hb0
    unfold after
    cases hob : CEv.obs e with
    | none => exact hcb
    | some o =>
      refine cb_mon b0 m o a c hcb ?_ ?_ ?_ ?_
      · intro i v he; exact hnt (by rw [obs_cbin e a i v (by rw [hob, he])]; simp [Targets])
      · intro i r he; exact hnt (by rw [obs_cbout e a i r (by rw [hob, he])]; simp [Targets])
      · intro he; exact hnt (by rw [obs_cancel e a (by rw [hob, he])]; simp [Targets])
      · intro k seen he j v n ch fl hpc hm
        subst he
        -- the event is the call of a release function
        cases e with
        | base be =>
          have ho2 : Ev.obs be = some (.cbinRel k seen) := by simpa [CEv.obs] using hob
          obtain ⟨i, rfl⟩ := obs_rel be k seen ho2
          rcases hmove with ⟨be', he', hst, _⟩ | ⟨a0, op, he', _⟩ | ⟨a0, _, hobs, _⟩ | ⟨_, _, n1, _⟩ |
              ⟨a0, v', x, k', pc, live, flag, self, told, c0, he', _⟩
          · cases he'
            rw [hb0] at hcb
            exact flag_now s.b s'.b m a i k seen c hb hcb hst j v n ch fl hpc hm
          · cases he'
          · simp [CEv.obs, Ev.obs] at hobs
          · exact absurd rfl (n1 _)
          · cases he'
        | probe v' x => simp [CEv.obs] at hob
        | quiesce B => simp [CEv.obs] at hob
        | inv a' op => simp [CEv.obs] at hob
        | snap a' => simp [CEv.obs] at hob
        | watch a' => simp [CEv.obs] at hob
        | cbin a' i' v' => simp [CEv.obs] at hob
        | cbout a' i' r' => simp [CEv.obs] at hob
        | check a' => simp [CEv.obs] at hob
        | recheck a' => simp [CEv.obs] at hob
        | waitCancel a' => simp [CEv.obs] at hob
        | await a' => simp [CEv.obs] at hob
        | awaitCancel a' => simp [CEv.obs] at hob
        | ret a' v' x => simp [CEv.obs] at hob
        | envCancelCall a' => simp [CEv.obs] at hob
        | goRel a' => simp [CEv.obs] at hob
        | goCb a' => simp [CEv.obs] at hob
        | probeCtx a' i' c0 => simp [CEv.obs] at hob
        | probeProm a' _ _ _ => simp [CEv.obs] at hob
  rcases (cstep_frame s s' e hs).1 a c' hc' with hun | ⟨c, hc, ht⟩ | ⟨hnone, a', op, he, hcn⟩
  · have hcb := hcons a c' hun
    have hok := hci.cons a c' hun
    by_cases htg : Targets e a
    · have ht := own_trans_full s s' e a c' c' hs hun hc' htg
      exact cb_trans s s' e m a c' c' ht hs hun hc' hcb (hcas a c' hun) hb hb'.inv hb'.thi hil hok
    · have hcb1 := mon s.b c' hcb htg hun rfl
      rcases hmove with ⟨be, he, hst, _, n1, n2, _⟩ | ⟨a0, op, he, hst, _⟩ | ⟨a0, hst, _, _, hlist⟩ | ⟨hbb, _⟩ |
          ⟨a0, v, x, k, pc, live, flag, self, told, c0, he, _, _, hbb, _⟩
      · refine cb_base s.b s'.b be _ a c' hcb1 hb.inv hb'.inv hb.idx hb.thi hb'.thi hok hst (n2 a) ?_ ?_
        · intro hbe; exact htg (by rw [he, hbe]; simp [Targets])
        · intro res v er hbe; exact absurd (by rw [he, hbe]; simp [Targets]) htg
      · refine cb_base s.b s'.b _ _ a c' hcb1 hb.inv hb'.inv hb.idx hb.thi hb'.thi hok hst (by simp) (by simp) ?_
        intro res v er hbe; cases hbe
      · have hne := other_swap s s' e a a0 hlist htg
        refine cb_base s.b s'.b _ _ a c' hcb1 hb.inv hb'.inv hb.idx hb.thi hb'.thi hok hst ?_ (by simp) ?_
        · intro hh; cases hh; exact hne rfl
        · intro res v er hbe; cases hbe
      · rw [hbb]; exact hcb1
      · have hne : a0 ≠ a := by
          intro e0; subst e0; exact htg (by rw [he]; simp [Targets])
        rw [hbb]
        exact cb_keep s.b _ a a0 _ c' hcb1 hne
  · exact cb_trans s s' e m a c c' ht hs hc hc' (hcons a c hc) (hcas a c hc) hb hb'.inv hb'.thi hil (hci.cons a c hc)
  · subst he
    have haa := (inv_new s s' a a' op hal hs).2 c' hnone hc'
    subst haa
    subst hcn
    have hlen := (inv_new s s' a a op hal hs).1
    show CB s'.b (trk m (.inv a op)) a { op := op }
    have hth : s'.b.th[a]? = some (TS.ref .hook .inv false false false none) := by
      simp only [cstep] at hs
      cases hst : step s.b (.invHook a) with
      | none => simp [hst] at hs
      | some b' =>
        simp [hst] at hs; subst hs
        simp only [step] at hst; split at hst <;> simp at hst
        rename_i hg
        rw [← hst, hg.2]; simp
    exact
      { go := by simp
        start := fun _ => ⟨hth, rfl, rfl⟩
        live := by simp [LoopPc]
        vz := by simp
        v := by simp [LoopPc]
        alt := by simp [LoopPc]
        j0 := by simp
        j1 := by simp
        flag := by simp
        after := by simp
        exita := by simp
        canc2 := by
          intro hm
          have hm' : a ∈ m.cancelled := hm
          have := hfr a hm'
          omega }

theorem rb_init : RB ({} : CSt) ({} : C10St) :=
  ⟨ra_init, cinit_inv, (by intro a res v e hm; simp [AItem] at hm), (by intro a ha; cases ha),
    (by intro a c h; simp [getCon] at h)⟩

theorem obs_probeCtx (e : CEv) (a i : Nat) (cc : Bool) (h : CEv.obs e = some (.probeCtx a i cc)) :
    e = .probeCtx a i cc := by
  cases e <;> simp [CEv.obs] at h
  case probeCtx a' i' c' => rw [h.1, h.2.1, h.2.2]

/-! ## the checks -/

theorem chkResult_ok (s : CSt) (e : CEv) (s' : CSt) (m : C10St) (o : CObs) (h : RB s m) (hs : cstep s e = some s')
    (hob : CEv.obs e = some o) : chkResult m o = true := by
  obtain ⟨⟨_, _, hcas⟩, _, _, _, hcons⟩ := h
  cases o with
  | ret a v x =>
    have he := obs_ret e a v x hob; subst he
    simp only [cstep] at hs
    cases hc : getCon s a with
    | none => simp [hc] at hs
    | some c =>
      have hca := hcas a c hc
      have hcb := hcons a c hc
      simp only [hc] at hs
      show (match opOf m a with
        | some .access =>
          (x == 9 && m.cancelled.contains a) || (x != 0 && m.resVals.any (·.2 == x)) ||
            (match m.accLast.find? (·.1 == a) with
             | some p => p.2.2.2 == x && !p.2.2.1
             | none => false)
        | _ => true) = true
      rw [hca.ops]
      cases hop : c.op with
      | access =>
        simp only
        split at hs <;> try simp at hs
        · rename_i v' x' hpc
          obtain ⟨⟨rfl, rfl, _⟩, _⟩ := hs
          rcases hcb.exita hop v x hpc with ⟨g1, g2⟩ | ⟨g1, p, hp, g2⟩ | ⟨i, g⟩
          · simp [g1, g2]
          · have : m.resVals.any (·.2 == x) = true := by
              rw [List.any_eq_true]; exact ⟨p, hp, by simp [g2]⟩
            simp [g1, this]
          · simp [g]
        · rename_i v' x' hpc
          exact absurd hpc ((hca.opok.1 hop).2 v' x')
      | wait => rfl
      | resolve => rfl
      | promise => rfl
      | rwr cb => rfl
  | base bo => rfl
  | inv a op => rfl
  | cancelCall a => rfl
  | cbinReleased a => rfl
  | probeCtx a i c => rfl
  | probeProm a _ _ _ => rfl
  | cbin a i v => rfl
  | cbout a i r => rfl

theorem chkCancel_ok (s : CSt) (e : CEv) (s' : CSt) (m : C10St) (o : CObs) (h : RB s m) (hs : cstep s e = some s')
    (hob : CEv.obs e = some o) : chkCancel m o = true := by
  obtain ⟨⟨⟨_, hb⟩, _, hcas⟩, hci, _, _, hcons⟩ := h
  cases o with
  | probeCtx a i cc =>
    have he := obs_probeCtx e a i cc hob; subst he
    simp only [cstep] at hs
    cases hc : getCon s a with
    | none => simp [hc] at hs
    | some c =>
      have hca := hcas a c hc
      have hcb := hcons a c hc
      have hok := hci.cons a c hc
      simp only [hc] at hs
      split at hs <;> try simp at hs
      rename_i i' v n ch hpc
      obtain ⟨⟨rfl, hcc, hq⟩, _⟩ := hs
      obtain ⟨p0, hp0, hpa0⟩ := hca.incb i v n ch hpc
      obtain ⟨v', n', ch', hh⟩ := hca.idx p0 hp0 hpa0
      rw [hpc] at hh
      have hpi0 : p0.2.1 = i := by cases hh; rfl
      have hsome : (m.accCur.find? (fun p => p.1 == a && p.2.1 == i)).isSome = true := by
        rw [List.find?_isSome]; exact ⟨p0, hp0, by simp [hpa0, hpi0]⟩
      obtain ⟨p, hf⟩ := Option.isSome_iff_exists.mp hsome
      show (match m.accCur.find? (fun p => p.1 == a && p.2.1 == i) with
        | some p => !((entInvalidated m p.2.2.1 || m.cancelled.contains a) && !cc)
        | none => false) = true
      rw [hf]
      simp only
      have hp1 := List.find?_some hf
      have hp2 := List.mem_of_find?_eq_some hf
      simp at hp1
      -- the state is quiescent
      have hqb : quiescent s.b = true := by
        unfold cquiescent at hq; simp only [Bool.and_eq_true] at hq; exact hq.1
      have hqc : c.quiet = true := by
        unfold cquiescent at hq
        simp only [Bool.and_eq_true, List.all_eq_true] at hq
        have hmem : some c ∈ s.ct := by
          unfold getCon at hc
          cases hx : s.ct[a]? with
          | none => simp [hx] at hc
          | some y => simp [hx] at hc; subst hc; exact List.mem_of_getElem? hx
        exact hq.2 _ hmem
      obtain ⟨hpe, hrr, _⟩ := quiescent_settled s.b hb.inv hqb
      cases hccv : cc with
      | true => simp
      | false =>
        rw [hccv] at hcc
        have hw : c.wcancel = false ∧ c.cancelled = false := by
          cases h1 : c.wcancel <;> cases h2 : c.cancelled <;> simp [h1, h2] at hcc
          exact ⟨rfl, rfl⟩
        have hnc : m.cancelled.contains a = false := by
          cases hcon : m.cancelled.contains a
          · rfl
          · have := hcb.canc2 (by simpa using hcon); rw [hw.2] at this; cases this
        have hsn : SnapOk c n ch ∧ (c.cnonce = n → c.cres = true ∧ c.cv = v ∧ c.ce = 0) := by
          have := hok.2; rw [hpc] at this; exact this
        have hn : c.cnonce = n := by
          apply Classical.byContradiction
          intro hne
          have hcl := hsn.1.2.2.mpr hne
          unfold Con.quiet at hqc
          rw [hpc] at hqc
          simp [hcl, hw.1] at hqc
        have hent : entInvalidated m p.2.2.1 = false := by
          cases hk : p.2.2.1 with
          | none => rfl
          | some k =>
            have hpm : (a, i, some k, p.2.2.2) ∈ m.accCur := by
              have : p = (a, i, some k, p.2.2.2) := by
                obtain ⟨x1, x2, x3, x4⟩ := p
                simp at hp1 hk; obtain ⟨rfl, rfl⟩ := hp1; subst hk; rfl
              rw [← this]; exact hp2
            have hce : CurEnt s.b k := by
              rcases hcb.j1 i v n ch hpc hn k _ hpm with g | g
              · unfold AItem at g; rw [hpe] at g; simp at g
              · exact g
            obtain ⟨i1, c1, hcur, hc1, hk1⟩ := hce
            obtain ⟨cj, hh, hcj, hnon, _, _, hres, _, hnr⟩ := hb.inv.core.curSome i1 hcur
            rw [hc1] at hcj; cases hcj
            show (m.relSeen.contains k || m.inval.contains k) = false
            have h1 : m.relSeen.contains k = false := by
              cases hcon : m.relSeen.contains k
              · rfl
              · exfalso
                obtain ⟨i2, c2, hc2, hk2, hr2⟩ := hb.seen k (by simpa using hcon)
                have : i2 = i1 := hb.idx.inj i2 i1 c2 c1 k hc2 hc1 hk2 hk1
                subst this
                rw [hc1] at hc2; cases hc2
                obtain ⟨_, v', er, hres2⟩ := hb.inv.core.relFin i2 c1 hc1 hr2
                rw [hres] at hres2; simp at hres2
                have := hnr hres2.2.1; rw [hr2] at this; cases this
            have h2 : m.inval.contains k = false := by
              cases hcon : m.inval.contains k
              · rfl
              · exfalso
                rcases (hb.inval k (by simpa using hcon)).2 i1 c1 hc1 hk1 with g | g
                · rw [hrr] at g; cases g
                · omega
            rw [h1, h2]; rfl
        rw [hent, hnc]; rfl
  | base bo => rfl
  | inv a op => rfl
  | cancelCall a => rfl
  | cbinReleased a => rfl
  | probeProm a _ _ _ => rfl
  | ret a v x => rfl
  | cbin a i v => rfl
  | cbout a i r => rfl

/-- **C10 (observable form, `access_result`).** Every observable trace of the composed model is
accepted by `monC10Result`: the error `Access` returns is `Canceled` of a cancelled caller, a resolver's
error, or the result of its last callback invocation — and that only if the value that invocation was
given had not been invalidated (its release function called) before the invocation returned. -/
theorem c10_result_obs (es : List CEv) (s : CSt) (h : cmodel.run cmodel.init es = some s) :
    monC10Result.accepts (es.filterMap cmodel.obs) = true :=
  clause_sim chkResult RB rb_init rb_step chkResult_ok es s h

/-- **C10 (observable form, `access_cancel`).** Every observable trace of the composed model is accepted
by `monC10Cancel`: at every quiescence point the context of an Access callback in progress is cancelled
if its caller was cancelled or the value it was given has been invalidated (its release function has
run, or its `released()` was called) — zero values included. -/
theorem c10_cancel_obs (es : List CEv) (s : CSt) (h : cmodel.run cmodel.init es = some s) :
    monC10Cancel.accepts (es.filterMap cmodel.obs) = true :=
  clause_sim chkCancel RB rb_init rb_step chkCancel_ok es s h

end UtilModel.RefCount.Cons
