import UtilModel.RefCount.Props
/-!
# refcount: frame lemma for resolver calls — what one step can do to the entry number (`inv`), the
result (`res`) and the ghost flags of a call
-/
set_option linter.unusedSimpArgs false
set_option linter.unusedVariables false
namespace UtilModel.RefCount
open UtilModel

/-- events whose critical section may call a release function -/
def released_by (e : Ev) (j : Nat) : Prop :=
  e = .store j ∨ (∃ a, e = .addRefCS a ∨ e = .relCS a ∨ e = .selfRelCS a ∨ e = .setCtxCS a ∨ e = .relRun a)

/-- field-level description of what event `e` (taken in `s`) did to call `j` -/
def CallStep (s : St) (e : Ev) (j : Nat) (c c' : Call) : Prop :=
  (c'.inv = c.inv ∨ (c.ci.st = .waiting ∧ c'.inv = some s.ninv ∧ e = .enter j s.ninv)) ∧
  (c'.res = c.res ∨ (c.ci.st = .running ∧ ∃ k v h er, e = .leave j k v h er ∧ c.inv = some k ∧ c'.res = some (v, h, er) ∧
      (v = 0 ∨ v = k + 1))) ∧
  (c.released = true → c'.released = true) ∧ c'.nonce = c.nonce ∧ (c'.ci.st = .waiting → c.ci.st = .waiting) ∧
  (c'.fin = false → c.fin = false) ∧ (c.stored = true → c'.stored = true) ∧
  (c'.stored = true → c.stored = true ∨ e = .store j) ∧ (c'.released = true → c.released = true ∨ released_by e j) ∧
  c'.root = c.root

theorem callStep_refl (s : St) (e : Ev) (j : Nat) (c : Call) : CallStep s e j c c :=
  ⟨Or.inl rfl, Or.inl rfl, fun h => h, rfl, fun h => h, fun h => h, fun h => h, fun h => Or.inl h, fun h => Or.inl h, rfl⟩

/-- the calls of the successor state, described call by call -/
def CallsFrame (s s' : St) (e : Ev) : Prop :=
  (∀ (j : Nat) (c' : Call), s'.calls[j]? = some c' →
    (∃ c, s.calls[j]? = some c ∧ CallStep s e j c c') ∨
    (s.calls[j]? = none ∧ c'.inv = none ∧ c'.res = none ∧ c'.released = false)) ∧
  (∀ (j : Nat) (c : Call), s.calls[j]? = some c → ∃ c', s'.calls[j]? = some c') ∧
  ((s'.ninv = s.ninv ∧ ∀ j, e ≠ .enter j s.ninv) ∨ (s'.ninv = s.ninv + 1 ∧ ∃ j, e = .enter j s.ninv))

theorem frame_sameCalls (s s' : St) (e : Ev) (h1 : s'.calls = s.calls) (h2 : s'.ninv = s.ninv)
    (h3 : ∀ j, e ≠ .enter j s.ninv) : CallsFrame s s' e := by
  refine ⟨?_, ?_, Or.inl ⟨h2, h3⟩⟩
  · intro j c' h; left; exact ⟨c', by rw [← h1]; exact h, callStep_refl s e j c'⟩
  · intro j c h; exact ⟨c, by rw [h1]; exact h⟩

theorem frame_shutdown (s s0 : St) (e : Ev) (h1 : s0.calls = s.calls) (h2 : s0.ninv = s.ninv)
    (h3 : ∀ j, e ≠ .enter j s.ninv) (h4 : ∀ j, released_by e j) : CallsFrame s (shutdown s0) e := by
  refine ⟨?_, ?_, Or.inl ⟨by simp [h2], h3⟩⟩
  · intro j c' h
    obtain ⟨c, g1, g2⟩ := shutdown_call s0 j c' h
    left
    refine ⟨c, by rw [← h1]; exact g1, ?_⟩
    rw [g2]
    exact ⟨Or.inl rfl, Or.inl rfl, by intro hr; simp [updCall, hr], rfl, fun h => h, fun h => h, fun h => h,
      fun h => Or.inl h, fun _ => Or.inr (h4 j), rfl⟩
  · intro j c h
    rw [← h1] at h
    exact ⟨updCall s0 j c, by rw [shutdown_calls, h]; rfl⟩

theorem frame_startResolve (s s0 : St) (e : Ev) (h1 : s0.calls = s.calls) (h2 : s0.ninv = s.ninv)
    (h3 : ∀ j, e ≠ .enter j s.ninv) (h4 : ∀ j, released_by e j) : CallsFrame s (startResolve s0) e := by
  rw [startResolve_eq]
  split
  · exact frame_shutdown s s0 e h1 h2 h3 h4
  · obtain ⟨f1, f2, f3⟩ := frame_shutdown s s0 e h1 h2 h3 h4
    refine ⟨?_, ?_, ?_⟩
    · intro j c' h
      rcases spawned_call _ j c' h with ⟨_, g⟩ | ⟨hj, g⟩
      · exact f1 j c' g
      · right
        refine ⟨?_, by rw [g]; rfl, by rw [g]; rfl, by rw [g]; rfl⟩
        rw [hj, shutdown_calls_length, h1]
        exact List.getElem?_eq_none (Nat.le_refl _)
    · intro j c h
      obtain ⟨c', g⟩ := f2 j c h
      exact ⟨c', by simp only [spawned]; rw [List.getElem?_append_left (lt_of_getElem? g)]; exact g⟩
    · simpa [spawned] using f3

theorem frame_afterRemove (s s0 : St) (e : Ev) (h1 : s0.calls = s.calls) (h2 : s0.ninv = s.ninv)
    (h3 : ∀ j, e ≠ .enter j s.ninv) (h4 : ∀ j, released_by e j) : CallsFrame s (afterRemove s0) e := by
  unfold afterRemove
  split
  · split
    · exact frame_shutdown s s0 e h1 h2 h3 h4
    · exact frame_sameCalls s s0 e h1 h2 h3
  · exact frame_sameCalls s s0 e h1 h2 h3

theorem frame_setCall (s : St) (e : Ev) (i : Nat) (c c' : Call) (s' : St) (h : s.calls[i]? = some c)
    (hs : s'.calls = s.calls.set i c') (hst : CallStep s e i c c')
    (hn : (s'.ninv = s.ninv ∧ ∀ j, e ≠ .enter j s.ninv) ∨ (s'.ninv = s.ninv + 1 ∧ ∃ j, e = .enter j s.ninv)) :
    CallsFrame s s' e := by
  have hlt := lt_of_getElem? h
  refine ⟨?_, ?_, hn⟩
  · intro j x hx
    rw [hs] at hx
    rcases getElem?_set_cases s.calls i j c' x hx with ⟨hj, rfl⟩ | ⟨_, g⟩
    · left; exact ⟨c, hj ▸ h, hj ▸ hst⟩
    · left; exact ⟨x, g, callStep_refl s e j x⟩
  · intro j x hx
    rw [hs]
    by_cases hij : i = j
    · subst hij; exact ⟨c', by simp [hlt]⟩
    · exact ⟨x, by simp [List.getElem?_set, hij]; exact hx⟩


/-- **frame for resolver calls**: every step changes the calls only as `CallStep` says -/
theorem calls_frame (s s' : St) (e : Ev) (hs : step s e = some s') : CallsFrame s s' e := by
  cases e with
  | cfg kp c t => simp only [step] at hs; split at hs <;> simp at hs; subst hs; exact frame_sameCalls _ _ _ rfl rfl (by simp)
  | invAddRef a kd => simp only [step] at hs; split at hs <;> simp at hs; subst hs; exact frame_sameCalls _ _ _ rfl rfl (by simp)
  | invHook a => simp only [step] at hs; split at hs <;> simp at hs; subst hs; exact frame_sameCalls _ _ _ rfl rfl (by simp)
  | retAddRef a =>
    simp only [step] at hs; split at hs <;> try simp at hs
    obtain ⟨_, rfl⟩ := hs; exact frame_sameCalls _ _ _ rfl rfl (by simp)
  | invRelease b r =>
    simp only [step] at hs; split at hs <;> try simp at hs
    split at hs <;> try simp at hs
    subst hs; exact frame_sameCalls _ _ _ rfl rfl (by simp)
  | relSwap b =>
    simp only [step] at hs; split at hs <;> try simp at hs
    split at hs <;> simp at hs <;> subst hs <;> exact frame_sameCalls _ _ _ rfl rfl (by simp)
  | retRelease b =>
    simp only [step] at hs; split at hs <;> try simp at hs
    obtain ⟨_, rfl⟩ := hs; exact frame_sameCalls _ _ _ rfl rfl (by simp)
  | selfRelSwap a =>
    simp only [step] at hs; split at hs <;> try simp at hs
    obtain ⟨_, hs⟩ := hs
    split at hs <;> simp at hs <;> subst hs <;> exact frame_sameCalls _ _ _ rfl rfl (by simp)
  | invSetCtx a c cl => simp only [step] at hs; split at hs <;> simp at hs; subst hs; exact frame_sameCalls _ _ _ rfl rfl (by simp)
  | retSetCtx a u =>
    simp only [step] at hs; split at hs <;> try simp at hs
    obtain ⟨_, rfl⟩ := hs; exact frame_sameCalls _ _ _ rfl rfl (by simp)
  | envCancelCtx c =>
    simp only [step] at hs; split at hs <;> simp at hs; subst hs
    refine ⟨?_, ?_, Or.inl ⟨rfl, by simp⟩⟩
    · intro j c' h
      simp at h
      obtain ⟨x, hx, rfl⟩ := h
      left; refine ⟨x, hx, ?_⟩
      split
      · exact ⟨Or.inl rfl, Or.inl rfl, fun h => h, rfl, fun h => h, fun h => h, fun h => h, fun h => Or.inl h, fun h => Or.inl h, rfl⟩
      · exact callStep_refl _ _ _ _
    · intro j x hx; simp [hx]
  | envReleased k => simp only [step] at hs; split at hs <;> simp at hs; subst hs; exact frame_sameCalls _ _ _ rfl rfl (by simp)
  | quiesce B => simp only [step] at hs; split at hs <;> simp at hs; subst hs; exact frame_sameCalls _ _ _ rfl rfl (by simp)
  | probe v er => simp only [step] at hs; split at hs <;> simp at hs; subst hs; exact frame_sameCalls _ _ _ rfl rfl (by simp)
  | cb it =>
    simp only [step] at hs; split at hs <;> try simp at hs
    obtain ⟨_, rfl⟩ := hs; exact frame_sameCalls _ _ _ rfl rfl (by simp)
  | enter i k =>
    simp only [step] at hs; split at hs <;> try simp at hs
    rename_i c h
    obtain ⟨⟨hw, _, hk⟩, rfl⟩ := hs
    subst hk
    -- the entry number of a waiting call is still unset (it is set here, once)
    refine frame_setCall s _ i c _ _ h rfl ?_ (Or.inr ⟨rfl, i, rfl⟩)
    exact ⟨Or.inr ⟨hw, rfl, rfl⟩, Or.inl rfl, fun h => h, rfl, by simp, fun h => h, fun h => h, fun h => Or.inl h, fun h => Or.inl h, rfl⟩
  | giveUp i =>
    simp only [step] at hs; split at hs <;> try simp at hs
    rename_i c h
    obtain ⟨_, rfl⟩ := hs
    exact frame_setCall s _ i c _ _ h rfl ⟨Or.inl rfl, Or.inl rfl, fun h => h, rfl, by simp, by simp, fun h => h, fun h => Or.inl h, fun h => Or.inl h, rfl⟩ (Or.inl ⟨rfl, by simp⟩)
  | drained i =>
    simp only [step] at hs; split at hs <;> try simp at hs
    rename_i c h
    obtain ⟨_, rfl⟩ := hs
    exact frame_setCall s _ i c _ _ h rfl ⟨Or.inl rfl, Or.inl rfl, fun h => h, rfl, by simp, by simp, fun h => h, fun h => Or.inl h, fun h => Or.inl h, rfl⟩ (Or.inl ⟨rfl, by simp⟩)
  | done i =>
    simp only [step] at hs; split at hs <;> try simp at hs
    rename_i c h
    obtain ⟨_, rfl⟩ := hs
    exact frame_setCall s _ i c _ _ h rfl ⟨Or.inl rfl, Or.inl rfl, fun h => h, rfl, by simp, by simp, fun h => h, fun h => Or.inl h, fun h => Or.inl h, rfl⟩ (Or.inl ⟨rfl, by simp⟩)
  | leave i k v hr er =>
    simp only [step] at hs; split at hs <;> try simp at hs
    rename_i c h
    obtain ⟨⟨hw, hk, hval⟩, rfl⟩ := hs
    refine frame_setCall s _ i c _ _ h rfl ?_ (Or.inl ⟨rfl, by simp⟩)
    exact ⟨Or.inl rfl, Or.inr ⟨hw, k, v, hr, er, rfl, hk, rfl, hval⟩, fun h => h, rfl, by simp, fun h => h, fun h => h, fun h => Or.inl h, fun h => Or.inl h, rfl⟩
  | store i =>
    simp only [step] at hs; split at hs <;> try simp at hs
    rename_i c h
    split at hs <;> try simp at hs
    obtain ⟨_, hs⟩ := hs
    split at hs
    · simp at hs; subst hs
      exact frame_setCall s _ i c { c with fin := true, stored := true } _ h rfl
        ⟨Or.inl rfl, Or.inl rfl, fun h => h, rfl, by simp, by simp, fun _ => rfl, fun _ => Or.inr rfl, fun h => Or.inl h, rfl⟩ (Or.inl ⟨rfl, by simp⟩)
    · split at hs <;> simp at hs <;> subst hs
      · exact frame_setCall s _ i c { c with fin := true, released := true } _ h rfl
          ⟨Or.inl rfl, Or.inl rfl, fun _ => rfl, rfl, by simp, by simp, fun h => h, fun h => Or.inl h,
            fun _ => Or.inr (Or.inl rfl), rfl⟩ (Or.inl ⟨rfl, by simp⟩)
      · exact frame_setCall s _ i c { c with fin := true } _ h rfl
          ⟨Or.inl rfl, Or.inl rfl, fun h => h, rfl, by simp, by simp, fun h => h, fun h => Or.inl h, fun h => Or.inl h, rfl⟩ (Or.inl ⟨rfl, by simp⟩)
  | addRefCS a =>
    simp only [step] at hs; split at hs <;> try simp at hs
    obtain ⟨_, hs⟩ := hs
    split at hs
    · simp at hs; subst hs; exact frame_startResolve s _ _ rfl rfl (by simp) (fun _ => Or.inr ⟨a, Or.inl rfl⟩)
    · split at hs <;> simp at hs <;> subst hs <;> exact frame_sameCalls _ _ _ rfl rfl (by simp)
  | relCS b =>
    simp only [step] at hs; split at hs <;> try simp at hs
    split at hs <;> try simp at hs
    case h_2 => obtain ⟨_, rfl⟩ := hs; exact frame_sameCalls _ _ _ rfl rfl (by simp)
    obtain ⟨_, rfl⟩ := hs
    exact frame_afterRemove s _ _ rfl rfl (by simp) (fun _ => Or.inr ⟨b, Or.inr (Or.inl rfl)⟩)
  | selfRelCS a =>
    simp only [step] at hs; split at hs <;> try simp at hs
    obtain ⟨_, rfl⟩ := hs
    exact frame_afterRemove s _ _ rfl rfl (by simp) (fun _ => Or.inr ⟨a, Or.inr (Or.inr (Or.inl rfl))⟩)
  | setCtxCS a =>
    simp only [step] at hs; split at hs <;> try simp at hs
    split at hs <;> simp at hs <;> obtain ⟨_, rfl⟩ := hs
    · exact frame_sameCalls _ _ _ rfl rfl (by simp)
    · exact frame_startResolve s _ _ rfl rfl (by simp) (fun _ => Or.inr ⟨a, Or.inr (Or.inr (Or.inr (Or.inl rfl)))⟩)
  | relRun r =>
    simp only [step] at hs; split at hs <;> try simp at hs
    split at hs <;> try simp at hs
    split at hs <;> simp at hs <;> obtain ⟨_, rfl⟩ := hs
    · exact frame_startResolve s _ _ rfl rfl (by simp) (fun _ => Or.inr ⟨r, Or.inr (Or.inr (Or.inr (Or.inr rfl)))⟩)
    · exact frame_sameCalls _ _ _ rfl rfl (by simp)

end UtilModel.RefCount
