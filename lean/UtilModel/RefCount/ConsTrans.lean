import UtilModel.RefCount.ConsProofs
/-!
# refcount consumers: the local transitions of one consumer call, and the frame lemma
"every step of the composed model changes at most one consumer entry, by one of these transitions".
-/
set_option linter.unusedSimpArgs false
set_option linter.unusedVariables false
namespace UtilModel.RefCount.Cons
open UtilModel UtilModel.RefCount

/-- the snapshot section's update of the Access variables -/
def snapped (c : Con) : Con :=
  { c with cnonce := c.cnonce + 1, bc := c.bc.getWaitCh.1, wcancel := false }

/-- `Trans s e a c c'`: event `e`, taken in state `s`, moves consumer `a` from `c` to `c'` -/
inductive Trans (s : CSt) : CEv → Nat → Con → Con → Prop where
  | hook (a : Nat) (c : Con) (res : Bool) (v er : Nat) :
      Trans s (.base (.cb (.refcb a false res v er))) a c (hook c s.b.nonce res v er)
  | started (a : Nat) (c : Con) (h : c.pc = .start) :
      Trans s (.base (.addRefCS a)) a c { c with pc := if c.op = .access then .look else .awaiting }
  | snapErr (a : Nat) (c : Con) (h : canLook c = true) (he : c.ce ≠ 0) :
      Trans s (.snap a) a c { snapped c with pc := .exitWait 0 c.ce, mainOwns := !flagOf s.b a }
  | snapCall (a : Nat) (c : Con) (h : canLook c = true) (he : c.ce = 0) (hr : c.cres = true) :
      Trans s (.snap a) a c { snapped c with pc := .calling c.cv (c.cnonce + 1) c.bc.getWaitCh.2 }
  | snapWait (a : Nat) (c : Con) (h : canLook c = true) (he : c.ce = 0) (hr : c.cres = false) :
      Trans s (.snap a) a c { snapped c with pc := .waiting (c.cnonce + 1) c.bc.getWaitCh.2 }
  | watch (a : Nat) (c : Con) : Trans s (.watch a) a c { c with wcancel := true }
  | cbin (a m v n ch : Nat) (c : Con) (h : c.pc = .calling v n ch) (hm : m = c.ncb) :
      Trans s (.cbin a m v) a c { c with pc := .incb m v n ch, ncb := c.ncb + 1 }
  | cbout (a m r v n ch : Nat) (c : Con) (h : c.pc = .incb m v n ch) :
      Trans s (.cbout a m r) a c { c with pc := .afterCb r n ch, wcancel := false }
  | checkCancel (a r n ch : Nat) (c : Con) (h : c.pc = .afterCb r n ch) (hc : c.cancelled = true) :
      Trans s (.check a) a c { c with pc := .exitWait 0 9, mainOwns := !flagOf s.b a }
  | checkGo (a r n ch : Nat) (c : Con) (h : c.pc = .afterCb r n ch) (hc : c.cancelled = false) :
      Trans s (.check a) a c { c with pc := .recheck r n ch }
  | recheckSame (a r n ch : Nat) (c : Con) (h : c.pc = .recheck r n ch) (hn : c.cnonce = n) :
      Trans s (.recheck a) a c { c with pc := .exitWait 0 r, mainOwns := !flagOf s.b a }
  | recheckDiff (a r n ch : Nat) (c : Con) (h : c.pc = .recheck r n ch) (hn : c.cnonce ≠ n) :
      Trans s (.recheck a) a c { c with pc := .waiting n ch }
  | waitCancel (a n ch : Nat) (c : Con) (h : c.pc = .waiting n ch) (hc : c.cancelled = true) :
      Trans s (.waitCancel a) a c { c with pc := .exitWait 0 9, mainOwns := !flagOf s.b a }
  | awaitErr (a v e : Nat) (c : Con) (h : c.pc = .awaiting) (hp : c.prom = some (v, e)) (he : e ≠ 0)
      (hop : c.op ≠ .promise) :
      Trans s (.await a) a c { c with pc := .exitWait v e, mainOwns := !flagOf s.b a }
  | awaitOk (a v : Nat) (c : Con) (h : c.pc = .awaiting) (hp : c.prom = some (v, 0)) (hop : c.op ≠ .promise) :
      Trans s (.await a) a c { c with pc := .exitKeep v 0 }
  | awaitCancel (a : Nat) (c : Con) (h : c.pc = .awaiting) (hc : c.cancelled = true) (hop : c.op ≠ .promise) :
      Trans s (.awaitCancel a) a c { c with pc := .exitWait 0 9, mainOwns := !flagOf s.b a }
  | retWait (a v e : Nat) (c : Con) (h : c.pc = .exitWait v e) : Trans s (.ret a v e) a c { c with pc := .returned }
  | retKeep (a v e : Nat) (c : Con) (h : c.pc = .exitKeep v e) : Trans s (.ret a v e) a c { c with pc := .returned }
  | cancel (a : Nat) (c : Con) : Trans s (.envCancelCall a) a c { c with cancelled := true }
  | goRel (a : Nat) (c : Con) (h : c.go = .rel) :
      Trans s (.goRel a) a c { c with go := if c.op = .rwr true then .relWait else .done, goOwns := !flagOf s.b a }
  | goCb (a : Nat) (c : Con) (h : c.go = .relWait) : Trans s (.goCb a) a c { c with go := .done }

/-- what a step does to the consumer table -/
def Frame (s s' : CSt) (e : CEv) : Prop :=
  (∀ (a : Nat) (c' : Con), getCon s' a = some c' →
    getCon s a = some c' ∨ (∃ c, getCon s a = some c ∧ Trans s e a c c') ∨
    (getCon s a = none ∧ ∃ a' op, e = .inv a' op ∧ c' = { op := op })) ∧
  (∀ (a : Nat) (c : Con), getCon s a = some c → ∃ c', getCon s' a = some c')

theorem frame_same (s s' : CSt) (e : CEv) (h : ∀ a, getCon s' a = getCon s a) : Frame s s' e := by
  refine ⟨?_, ?_⟩
  · intro a c' hc'; left; rw [← h a]; exact hc'
  · intro a c hc; exact ⟨c, by rw [h a]; exact hc⟩

theorem frame_set (s : CSt) (b' : St) (e : CEv) (a : Nat) (c c1 : Con) (hc : getCon s a = some c)
    (ht : Trans s e a c c1) : Frame s (setCon { s with b := b' } a c1) e := by
  refine ⟨?_, ?_⟩
  · intro x c' hc'
    rcases getCon_setCon_cases { s with b := b' } a x c1 c' hc' with ⟨rfl, rfl⟩ | ⟨_, h⟩
    · right; left; exact ⟨c, hc, ht⟩
    · left; exact h
  · intro x y hy
    rw [getCon_setCon]
    split
    · exact ⟨c1, rfl⟩
    · exact ⟨y, hy⟩

theorem frame_exitRel (s s' : CSt) (e : CEv) (a : Nat) (c c1 : Con) (v er : Nat) (hc : getCon s a = some c)
    (ht : Trans s e a c { c1 with pc := .exitWait v er, mainOwns := !flagOf s.b a }) (h : exitRel s a c1 v er = some s') : Frame s s' e := by
  unfold exitRel at h
  split at h <;> simp at h
  subst h
  exact frame_set s _ e a c _ hc ht


theorem cstep_frame_base (s s' : CSt) (e : Ev) (hs : cstep s (.base e) = some s') : Frame s s' (.base e) := by
  have generic : ∀ (b' : St),
      Frame s { s with b := b', ct := if appendsThread e then s.ct ++ [none] else s.ct } (.base e) := by
    intro b'
    refine ⟨?_, ?_⟩
    · intro a c' hc'
      left
      split at hc'
      · exact getCon_append_none s b' a c' hc'
      · exact hc'
    · intro a c hc
      refine ⟨c, ?_⟩
      split
      · unfold getCon at hc ⊢
        simp only
        rw [List.getElem?_append_left (getCon_lt s a c hc)]; exact hc
      · exact hc
  cases e with
  | invHook a => simp [cstep] at hs
  | selfRelSwap a => simp [cstep] at hs
  | probe v e => simp [cstep] at hs
  | quiesce B => simp [cstep] at hs
  | addRefCS a =>
    simp only [cstep] at hs
    cases hst : step s.b (.addRefCS a) with
    | none => simp [hst] at hs
    | some b' =>
      simp only [hst] at hs
      cases hc : getCon s a with
      | none => simp [hc] at hs; subst hs; exact frame_same _ _ _ (fun _ => rfl)
      | some c =>
        simp only [hc] at hs
        split at hs <;> simp at hs
        subst hs
        rename_i hpc
        exact frame_set s b' _ a c _ hc (.started a c hpc)
  | cb it =>
    cases it with
    | rel i k seen =>
      simp only [cstep] at hs
      cases hst : step s.b (.cb (.rel i k seen)) with
      | none => simp [hst] at hs
      | some b' => simp [hst, appendsThread] at hs; subst hs; simpa [appendsThread] using generic b'
    | refcb a vis res v er =>
      cases vis with
      | true =>
        simp only [cstep] at hs
        cases hst : step s.b (.cb (.refcb a true res v er)) with
        | none => simp [hst] at hs
        | some b' => simp [hst, appendsThread] at hs; subst hs; simpa [appendsThread] using generic b'
      | false =>
        simp only [cstep] at hs
        cases hst : step s.b (.cb (.refcb a false res v er)) with
        | none => simp [hst] at hs
        | some b' =>
          simp only [hst] at hs
          cases hc : getCon s a with
          | none => simp [hc] at hs; subst hs; exact frame_same _ _ _ (fun _ => rfl)
          | some c =>
            simp [hc] at hs; subst hs
            exact frame_set s b' _ a c _ hc (.hook a c res v er)
  | _ =>
    simp only [cstep] at hs
    split at hs <;> simp at hs
    subst hs
    rename_i b' hst
    exact generic b'

/-- **frame**: a step changes at most one consumer entry, by one of the transitions of `Trans` -/
theorem cstep_frame (s s' : CSt) (e : CEv) (hs : cstep s e = some s') : Frame s s' e := by
  cases e with
  | base e => exact cstep_frame_base s s' e hs
  | inv a op =>
    simp only [cstep] at hs
    cases hst : step s.b (.invHook a) with
    | none => simp [hst] at hs
    | some b' =>
      simp [hst] at hs; subst hs
      refine ⟨?_, ?_⟩
      · intro x c' hc'
        by_cases hlt : x < s.ct.length
        · left
          unfold getCon at hc' ⊢
          simp only at hc'
          rw [List.getElem?_append_left hlt] at hc'; exact hc'
        · right; right
          have hnone : getCon s x = none := by
            unfold getCon; rw [List.getElem?_eq_none (by omega)]; rfl
          rcases getCon_append_some s b' _ x c' hc' with h | h
          · rw [hnone] at h; cases h
          · exact ⟨hnone, a, op, rfl, h⟩
      · intro x c hc
        refine ⟨c, ?_⟩
        unfold getCon at hc ⊢
        simp only
        rw [List.getElem?_append_left (getCon_lt s x c hc)]; exact hc
  | snap a =>
    simp only [cstep] at hs
    cases hc : getCon s a with
    | none => simp [hc] at hs
    | some c =>
      simp only [hc] at hs
      split at hs <;> try simp at hs
      rename_i hcond
      split at hs
      · split at hs <;> simp at hs <;> subst hs
        · rename_i hce hres
          exact frame_set s s.b _ a c _ hc (.snapCall a c hcond.1 hce hres)
        · rename_i hce hres
          exact frame_set s s.b _ a c _ hc (.snapWait a c hcond.1 hce (by simpa using hres))
      · rename_i hce
        exact frame_exitRel s s' _ a c (snapped c) 0 c.ce hc (.snapErr a c hcond.1 hce) hs
  | watch a =>
    simp only [cstep] at hs
    cases hc : getCon s a with
    | none => simp [hc] at hs
    | some c =>
      simp only [hc] at hs
      split at hs <;> try simp at hs
      all_goals
        obtain ⟨_, rfl⟩ := hs
        exact frame_set s s.b _ a c _ hc (.watch a c)
  | cbin a m v =>
    simp only [cstep] at hs
    cases hc : getCon s a with
    | none => simp [hc] at hs
    | some c =>
      simp only [hc] at hs
      split at hs <;> try simp at hs
      rename_i v' n ch hpc
      obtain ⟨⟨rfl, rfl⟩, rfl⟩ := hs
      exact frame_set s s.b _ a c _ hc (.cbin a _ v n ch c hpc rfl)
  | cbout a m r =>
    simp only [cstep] at hs
    cases hc : getCon s a with
    | none => simp [hc] at hs
    | some c =>
      simp only [hc] at hs
      split at hs <;> try simp at hs
      rename_i m' v n ch hpc
      obtain ⟨rfl, rfl⟩ := hs
      exact frame_set s s.b _ a c _ hc (.cbout a m r v n ch c hpc)
  | check a =>
    simp only [cstep] at hs
    cases hc : getCon s a with
    | none => simp [hc] at hs
    | some c =>
      simp only [hc] at hs
      split at hs <;> try simp at hs
      rename_i r n ch hpc
      split at hs
      · rename_i hcan
        exact frame_exitRel s s' _ a c c 0 9 hc (.checkCancel a r n ch c hpc hcan) hs
      · rename_i hcan
        simp at hs; subst hs
        exact frame_set s s.b _ a c _ hc (.checkGo a r n ch c hpc (by simpa using hcan))
  | recheck a =>
    simp only [cstep] at hs
    cases hc : getCon s a with
    | none => simp [hc] at hs
    | some c =>
      simp only [hc] at hs
      split at hs <;> try simp at hs
      rename_i r n ch hpc
      split at hs
      · rename_i hn
        exact frame_exitRel s s' _ a c c 0 r hc (.recheckSame a r n ch c hpc hn) hs
      · rename_i hn
        simp at hs; subst hs
        exact frame_set s s.b _ a c _ hc (.recheckDiff a r n ch c hpc hn)
  | waitCancel a =>
    simp only [cstep] at hs
    cases hc : getCon s a with
    | none => simp [hc] at hs
    | some c =>
      simp only [hc] at hs
      split at hs <;> try simp at hs
      rename_i n ch hpc
      exact frame_exitRel s s' _ a c c 0 9 hc (.waitCancel a n ch c hpc hs.1) hs.2
  | await a =>
    simp only [cstep] at hs
    cases hc : getCon s a with
    | none => simp [hc] at hs
    | some c =>
      simp only [hc] at hs
      split at hs <;> try simp at hs
      rename_i hcond
      split at hs <;> try simp at hs
      rename_i v e hp
      split at hs
      · rename_i he
        simp at hs; subst hs
        subst he
        exact frame_set s s.b _ a c _ hc (.awaitOk a v c hcond.1 hp hcond.2.1)
      · rename_i he
        exact frame_exitRel s s' _ a c c v e hc (.awaitErr a v e c hcond.1 hp he hcond.2.1) hs
  | awaitCancel a =>
    simp only [cstep] at hs
    cases hc : getCon s a with
    | none => simp [hc] at hs
    | some c =>
      simp only [hc] at hs
      split at hs <;> try simp at hs
      rename_i hcond
      exact frame_exitRel s s' _ a c c 0 9 hc (.awaitCancel a c hcond.1 hcond.2.2 hcond.2.1) hs
  | ret a v e =>
    simp only [cstep] at hs
    cases hc : getCon s a with
    | none => simp [hc] at hs
    | some c =>
      simp only [hc] at hs
      split at hs <;> try simp at hs
      · rename_i v' e' hpc
        obtain ⟨⟨rfl, rfl, _⟩, rfl⟩ := hs
        exact frame_set s s.b _ a c _ hc (.retWait a v e c hpc)
      · rename_i v' e' hpc
        obtain ⟨⟨rfl, rfl⟩, hs⟩ := hs
        split at hs <;> simp at hs
        subst hs
        exact frame_set s _ _ a c _ hc (.retKeep a v e c hpc)
  | envCancelCall a =>
    simp only [cstep] at hs
    cases hc : getCon s a with
    | none => simp [hc] at hs
    | some c =>
      simp [hc] at hs; subst hs
      exact frame_set s s.b _ a c _ hc (.cancel a c)
  | goRel a =>
    simp only [cstep] at hs
    cases hc : getCon s a with
    | none => simp [hc] at hs
    | some c =>
      simp only [hc] at hs
      split at hs <;> try simp at hs
      rename_i hgo
      cases hst : step s.b (.selfRelSwap a) with
      | none => simp [hst] at hs
      | some b' =>
        simp [hst] at hs; subst hs
        exact frame_set s b' _ a c _ hc (.goRel a c hgo)
  | goCb a =>
    simp only [cstep] at hs
    cases hc : getCon s a with
    | none => simp [hc] at hs
    | some c =>
      simp only [hc] at hs
      split at hs <;> simp at hs
      subst hs
      rename_i hcond
      exact frame_set s s.b _ a c _ hc (.goCb a c hcond.1)
  | probeCtx a m cc =>
    simp only [cstep] at hs
    cases hc : getCon s a with
    | none => simp [hc] at hs
    | some c =>
      simp only [hc] at hs
      split at hs <;> try simp at hs
      obtain ⟨_, rfl⟩ := hs; exact frame_same _ _ _ (fun _ => rfl)
  | probeProm a h v e => rw [(probeProm_step s s' a h v e hs).1]; exact frame_same _ _ _ (fun _ => rfl)
  | probe v e =>
    simp only [cstep] at hs; split at hs <;> simp at hs; subst hs; exact frame_same _ _ _ (fun _ => rfl)
  | quiesce B =>
    simp only [cstep] at hs; split at hs <;> simp at hs; subst hs; exact frame_same _ _ _ (fun _ => rfl)

end UtilModel.RefCount.Cons
