import UtilModel.Core.LTS
import UtilModel.Core.Monitor
/-!
# `WaitRefCountContainer` (refcount.go:108-127) over the two target containers of a RefCount

`WaitRefCountContainer(ctx, target, targetErr)` starts a helper goroutine that waits for a non-nil
content of `targetErr` (`CContainer.WaitValue`) and hands it to the caller through the one-slot
channel `errCh` with a non-blocking send, and then waits itself for a non-empty content of `target`
(`target.WaitValue(ctx, errCh)`): it returns the value, or the error the helper handed over, or the
context's error.

The two containers are driven directly by the harness (`SetValue`, as the RefCount does in `resolve`
and `clearResolvedState`). One event per `HoldLock` section of a container's Broadcast:

* `mlook a`   the caller's look at `target` (ccontainer.go:83-86): a non-empty value is returned, else it
              parks in the `select` (103-117) on the wait channel it took in the same section;
* `mwake a` / `mcancel a` / `merr a`   the three ways out of that `select`;
* `hlook a` / `hwake a` / `hcancel a`   the same for the helper on `targetErr`; a look that finds an error
              puts it into the channel's buffer (the helper is the only sender, so the slot is free) and
              the helper ends.

The harness can hold the lock of `target`'s Broadcast (a `SwapValue` callback that blocks): while it
does no look at `target` happens. A wake-up is modelled by a generation counter per container that
every `SetValue` bumps (a spurious wake-up only leads to another look).
-/
namespace UtilModel.RefCount.Wrc
open UtilModel

inductive MPc where
  | look
  | parked (g : Nat)
  | exit (v e : Nat)
  | returned
deriving DecidableEq, Repr, Hashable

inductive HPc where
  | none            -- no `targetErr` container: no helper
  | look
  | parked (g : Nat)
  | done
deriving DecidableEq, Repr, Hashable

structure W where
  pc : MPc := .look
  h : HPc := .look
  buf : Nat := 0               -- `errCh` (one slot; 0 = empty)
  cancelled : Bool := false    -- the caller's context
deriving DecidableEq, Repr, Hashable

structure St where
  cfgd : Bool := false
  hasE : Bool := true          -- a `targetErr` container is given
  tgt : Nat := 0               -- content of `target` (0 = empty)
  tgen : Nat := 0
  terr : Nat := 0              -- content of `targetErr` (0 = nil)
  egen : Nat := 0
  locked : Bool := false       -- the harness holds the lock of `target`'s Broadcast
  ws : List W := []
deriving DecidableEq, Repr, Hashable

inductive Obs where
  | cfg (hasE : Bool)
  | setT (v : Nat)
  | setE (e : Nat)
  | lock
  | unlock
  | inv (a : Nat)
  | ret (a v e : Nat)
  | cancel (a : Nat)
  | quiesce (B : List Nat)
deriving DecidableEq, Repr, Hashable

inductive Ev where
  | cfg (hasE : Bool)
  | setT (v : Nat)
  | setE (e : Nat)
  | lock
  | unlock
  | inv (a : Nat)
  | mlook (a : Nat)
  | mwake (a : Nat)
  | mcancel (a : Nat)
  | merr (a : Nat)
  | hlook (a : Nat)
  | hwake (a : Nat)
  | hcancel (a : Nat)
  | ret (a v e : Nat)
  | cancel (a : Nat)
  | quiesce (B : List Nat)
deriving DecidableEq, Repr, Hashable

def Ev.obs : Ev → Option Obs
  | .cfg h => some (.cfg h)
  | .setT v => some (.setT v)
  | .setE e => some (.setE e)
  | .lock => some .lock
  | .unlock => some .unlock
  | .inv a => some (.inv a)
  | .ret a v e => some (.ret a v e)
  | .cancel a => some (.cancel a)
  | .quiesce B => some (.quiesce B)
  | _ => none

def setW (s : St) (a : Nat) (w : W) : St := { s with ws := s.ws.set a w }

/-- nothing more happens to this call without the environment -/
def W.quiet (s : St) (w : W) : Bool :=
  (match w.pc with
   | .look => s.locked
   | .parked g => g == s.tgen && !w.cancelled && w.buf == 0
   | .exit _ _ => false
   | .returned => true) &&
  (match w.h with
   | .none => true
   | .look => false
   | .parked g => g == s.egen && !w.cancelled
   | .done => true)

def quiescent (s : St) : Bool := s.cfgd && s.ws.all (W.quiet s)

def pendingIds (s : St) : List Nat :=
  (List.range s.ws.length).filter fun a =>
    match s.ws[a]? with
    | some w => w.pc != .returned
    | none => false

def step (s : St) : Ev → Option St
  | .cfg h => if s.cfgd then none else some { s with cfgd := true, hasE := h }
  | .setT v => if s.cfgd ∧ !s.locked then some { s with tgt := v, tgen := s.tgen + 1 } else none
  | .setE e => if s.cfgd ∧ s.hasE then some { s with terr := e, egen := s.egen + 1 } else none
  | .lock => if s.cfgd ∧ !s.locked then some { s with locked := true } else none
  | .unlock => if s.locked then some { s with locked := false } else none
  | .inv a =>
    if s.cfgd ∧ a = s.ws.length then
      some { s with ws := s.ws ++ [{ h := if s.hasE then .look else .none }] }
    else none
  | .mlook a =>
    match s.ws[a]? with
    | some w =>
      if w.pc = .look ∧ !s.locked then
        some (setW s a { w with pc := if s.tgt ≠ 0 then .exit s.tgt 0 else .parked s.tgen })
      else none
    | none => none
  | .mwake a =>
    match s.ws[a]? with
    | some w =>
      match w.pc with
      | .parked g => if g ≠ s.tgen then some (setW s a { w with pc := .look }) else none
      | _ => none
    | none => none
  | .mcancel a =>
    match s.ws[a]? with
    | some w =>
      match w.pc with
      | .parked _ => if w.cancelled then some (setW s a { w with pc := .exit 0 9 }) else none
      | _ => none
    | none => none
  | .merr a =>
    match s.ws[a]? with
    | some w =>
      match w.pc with
      | .parked _ => if w.buf ≠ 0 then some (setW s a { w with pc := .exit 0 w.buf, buf := 0 }) else none
      | _ => none
    | none => none
  | .hlook a =>
    match s.ws[a]? with
    | some w =>
      if w.h = .look then
        some (setW s a (if s.terr ≠ 0 then { w with h := .done, buf := s.terr } else { w with h := .parked s.egen }))
      else none
    | none => none
  | .hwake a =>
    match s.ws[a]? with
    | some w =>
      match w.h with
      | .parked g => if g ≠ s.egen then some (setW s a { w with h := .look }) else none
      | _ => none
    | none => none
  | .hcancel a =>
    match s.ws[a]? with
    | some w =>
      match w.h with
      | .parked _ => if w.cancelled then some (setW s a { w with h := .done }) else none
      | _ => none
    | none => none
  | .ret a v e =>
    match s.ws[a]? with
    | some w => if w.pc = .exit v e then some (setW s a { w with pc := .returned }) else none
    | none => none
  | .cancel a =>
    match s.ws[a]? with
    | some w => some (setW s a { w with cancelled := true })
    | none => none
  | .quiesce B => if quiescent s ∧ B = pendingIds s then some s else none

def cands (s : St) : List Ev :=
  (List.range s.ws.length).flatMap fun a =>
    [.mlook a, .mwake a, .mcancel a, .merr a, .hlook a, .hwake a, .hcancel a]

def evsOf (_ : St) : Obs → List Ev
  | .cfg h => [.cfg h]
  | .setT v => [.setT v]
  | .setE e => [.setE e]
  | .lock => [.lock]
  | .unlock => [.unlock]
  | .inv a => [.inv a]
  | .ret a v e => [.ret a v e]
  | .cancel a => [.cancel a]
  | .quiesce B => [.quiesce B]

def model : OLTS St Ev Obs where
  init := {}
  step := step
  obs := Ev.obs
  cands := cands
  evsOf := evsOf

def parseNats : List String → Option (List Nat)
  | [] => some []
  | x :: xs => do let n ← x.toNat?; let r ← parseNats xs; pure (n :: r)

def Obs.parse : List String → Option Obs
  | ["cfg", "0"] => some (.cfg false)
  | ["cfg", "1"] => some (.cfg true)
  | ["env", "sett", v] => do pure (.setT (← v.toNat?))
  | ["env", "sete", e] => do pure (.setE (← e.toNat?))
  | ["env", "lock"] => some .lock
  | ["env", "unlock"] => some .unlock
  | ["inv", a, "wrc"] => do pure (.inv (← a.toNat?))
  | ["ret", a, "wrc", v, e] => do pure (.ret (← a.toNat?) (← v.toNat?) (← e.toNat?))
  | ["env", "cancelcall", a] => do pure (.cancel (← a.toNat?))
  | "quiesce" :: ts => do pure (.quiesce (← parseNats ts))
  | _ => none

/-! ## the property monitor -/

structure MW where
  seenT : List Nat := []       -- non-empty contents of `target` since the call started
  seenE : List Nat := []       -- non-nil contents of `targetErr` since the call started
  cancelled : Bool := false
  returned : Bool := false
deriving Repr

structure MSt where
  hasE : Bool := true
  tgt : Nat := 0
  terr : Nat := 0
  locked : Bool := false
  ws : List MW := []
deriving Repr

/-- the quiescence clause for one pending call -/
def pendOk (m : MSt) (a : Nat) : Bool :=
  match m.ws[a]? with
  | some w => w.returned || w.cancelled || m.locked || (m.tgt == 0 && (!m.hasE || m.terr == 0))
  | none => false

/-- **C10, `WaitRefCountContainer`.** A call returns once; it returns a non-empty value that `target`
held at some moment since the call started (with a nil error), or (with the empty value) an error
that `targetErr` held at some moment since the call started, or `Canceled` if its context was
cancelled. *No lost result:* at a quiescence point a call whose context is alive is still pending
only if `target` is empty and `targetErr` is nil (or the harness holds `target`'s lock). -/
def monWrc : ObsMonitor Obs MSt where
  init := {}
  step := fun m o =>
    match o with
    | .cfg h => some { m with hasE := h }
    | .setT v =>
      some { m with tgt := v
                    ws := m.ws.map fun w => if v ≠ 0 ∧ !w.returned then { w with seenT := v :: w.seenT } else w }
    | .setE e =>
      some { m with terr := e
                    ws := m.ws.map fun w => if e ≠ 0 ∧ !w.returned then { w with seenE := e :: w.seenE } else w }
    | .lock => some { m with locked := true }
    | .unlock => some { m with locked := false }
    | .inv a =>
      if a = m.ws.length then
        some { m with ws := m.ws ++ [{ seenT := if m.tgt ≠ 0 then [m.tgt] else []
                                       seenE := if m.terr ≠ 0 then [m.terr] else [] }] }
      else none
    | .ret a v e =>
      match m.ws[a]? with
      | some w =>
        if !w.returned ∧
            ((e = 0 ∧ v ≠ 0 ∧ v ∈ w.seenT) ∨ (e ≠ 0 ∧ v = 0 ∧ (e ∈ w.seenE ∨ (e = 9 ∧ w.cancelled)))) then
          some { m with ws := m.ws.set a { w with returned := true } }
        else none
      | none => none
    | .cancel a =>
      match m.ws[a]? with
      | some w => some { m with ws := m.ws.set a { w with cancelled := true } }
      | none => none
    | .quiesce B =>
      if B.all (pendOk m) then some m else none

end UtilModel.RefCount.Wrc
