import UtilModel.RefCount.ConsRelA
import UtilModel.RefCount.Frame6
/-!
# refcount consumers: base-model facts about the thread entry and the pending notifications of a consumer
-/
set_option linter.unusedSimpArgs false
set_option linter.unusedVariables false
namespace UtilModel.RefCount.Cons
open UtilModel UtilModel.RefCount

/-- a notification `(res, v, e)` for consumer `a` is owed by the running critical section -/
def AItem (b : St) (a : Nat) (res : Bool) (v e : Nat) : Prop := CbItem.refcb a false res v e ∈ b.pend.flatten

def CurIs (b : St) (v e : Nat) : Prop :=
  ∃ (i : Nat) (ci : Call) (h : Bool), b.cur = some i ∧ b.calls[i]? = some ci ∧ ci.res = some (v, h, e)

def CurEnt (b : St) (k : Nat) : Prop :=
  ∃ (i : Nat) (ci : Call), b.cur = some i ∧ b.calls[i]? = some ci ∧ ci.inv = some k

/-- the consumer's reference is in the table and the consumer has not called `Release` -/
def HookLive (b : St) (a : Nat) : Prop :=
  ∃ (f : Bool) (t : Option Nat), b.th[a]? = some (TS.ref .hook .done true f false t)

theorem hookLive_step (b b' : St) (be : Ev) (a : Nat) (ht : ThInv b.th) (h : HookLive b a)
    (hs : step b be = some b') (hne : be ≠ .selfRelSwap a) : HookLive b' a := by
  obtain ⟨f, t, hth⟩ := h
  have hcs : be ≠ .selfRelCS a := by
    intro e; subst e
    simp only [step] at hs; split at hs <;> try simp at hs
    rename_i pc flag told ha
    rw [hth] at ha; cases ha
  obtain ⟨pc', l', f', t', hth'⟩ := self_frame b b' be hs a .hook .done true f false t hth hne hcs
  obtain ⟨f1, _⟩ := th_frame b b' be hs
  rcases f1 a _ hth' with ⟨x, hx, hst⟩ | ⟨hn, _⟩
  · rw [hth] at hx; cases hx
    obtain ⟨_, hpc, hl, _⟩ := hst
    have hpc' : pc' = .done := by
      rcases hpc with hp | ⟨hp, _⟩ | ⟨_, _, he⟩
      · exact hp
      · cases hp
      · exfalso
        subst he
        simp only [step] at hs; split at hs <;> try simp at hs
        rename_i k l0 f0 sf0 t0 ha
        rw [hth] at ha; cases ha
        exact hs.1.1 rfl
    have hl' : l' = true := by
      rcases hl with hp | ⟨hp, _⟩ | ⟨_, _, hp⟩
      · exact hp
      · cases hp
      · exfalso
        rcases hp with ⟨b0, he, hb0⟩ | ⟨he, _⟩
        · obtain ⟨k0, l0, f0, sf0, t0, hr0⟩ := ht.target b0 a _ hb0
          rw [hth] at hr0; cases hr0
        · exact hcs he
    subst hpc'; subst hl'
    exact ⟨f', t', hth'⟩
  · rw [hth] at hn; cases hn

theorem item_fwd (b b' : St) (be : Ev) (it : CbItem) (hs : step b be = some b') (h : it ∈ b.pend.flatten)
    (hne : be ≠ .cb it) : it ∈ b'.pend.flatten := by
  have hl : isLock be = false := by
    cases hl : isLock be
    · rfl
    · have := lock_free b b' be hs hl; rw [this] at h; simp at h
  rcases pend_nonlock b b' be hs hl with hp | ⟨it2, bt, rest, he, hpe, hit, hp'⟩
  · rw [hp]; exact h
  · rw [hp']
    refine mem_after_erase bt rest it2 it (by rw [← hpe]; exact h) ?_
    intro e0; subst e0; exact hne he

theorem curIs_persist (b b' : St) (be : Ev) (hi : Inv b) (hx : Idx b) (hs : step b be = some b') (v e : Nat)
    (h : CurIs b v e) (hc : b'.cur = b.cur) : CurIs b' v e := by
  obtain ⟨i, ci, hh, h1, h2, h3⟩ := h
  obtain ⟨c', hc', _, g2⟩ := call_persist b b' be hi hx hs i ci h2
  exact ⟨i, c', hh, by rw [hc]; exact h1, hc', by rw [g2 (by simp [h3]), h3]⟩

theorem curEnt_persist (b b' : St) (be : Ev) (hi : Inv b) (hx : Idx b) (hs : step b be = some b') (k : Nat)
    (h : CurEnt b k) (hc : b'.cur = b.cur) : CurEnt b' k := by
  obtain ⟨i, ci, h1, h2, h3⟩ := h
  obtain ⟨c', hc', g1, _⟩ := call_persist b b' be hi hx hs i ci h2
  exact ⟨i, c', by rw [hc]; exact h1, hc', g1 k h3⟩

/-- the current call is never replaced directly by another one -/
theorem cur_no_swap (b b' : St) (be : Ev) (hi : Inv b) (hi' : Inv b') (hs : step b be = some b') (i0 i : Nat)
    (h0 : b.cur = some i0) (h1 : b'.cur = some i) : i = i0 := by
  rcases cur_frame b b' be hs i h1 with h | ⟨he, c, hc, _, hfin⟩
  · rw [h0] at h; cases h; rfl
  · obtain ⟨c0, _, k1, k2, _, k4, _⟩ := hi.core.curSome i0 h0
    obtain ⟨c', _, g1, g2, _⟩ := hi'.core.curSome i h1
    obtain ⟨f1, _, _⟩ := calls_frame b b' be hs
    have hn' : c'.nonce = c.nonce := by
      rcases f1 i c' g1 with ⟨cc, hcc, hstep⟩ | ⟨hn, _⟩
      · rw [hc] at hcc; cases hcc; exact hstep.2.2.2.1
      · rw [hc] at hn; cases hn
    have hle := hi.core.nonceLe i c hc
    have hmono := (runs_nonce_frame b b' be hs).1
    have hcn : c.nonce = c0.nonce := by omega
    rcases Nat.lt_trichotomy i i0 with hlt | heq | hgt
    · have := hi.core.nonceLt i i0 c c0 hc k1 hlt; omega
    · exact heq
    · have := hi.core.nonceLt i0 i c0 c k1 hc hgt; omega

/-- when the current call is dropped, every consumer whose reference is in the table is owed "gone" -/
theorem cur_drop (b b' : St) (be : Ev) (a : Nat) (hi : Inv b) (hi' : Inv b') (hs : step b be = some b') (i0 : Nat)
    (h0 : b.cur = some i0) (h1 : b'.cur ≠ some i0) (hl : HookLive b' a) :
    b'.cur = none ∧ AItem b' a false 0 0 := by
  have hnone : b'.cur = none := by
    cases hc : b'.cur with
    | none => rfl
    | some i =>
      have := cur_no_swap b b' be hi hi' hs i0 i h0 hc
      subst this; exact absurd hc h1
  obtain ⟨f, t, hth⟩ := hl
  exact ⟨hnone, gone_items b b' be hi hs i0 h0 hnone a .hook .done f false t hth (by simp)⟩

/-- when a result is stored, every consumer whose reference is in the table is owed its delivery -/
theorem cur_store (b b' : St) (be : Ev) (a : Nat) (hs : step b be = some b') (i : Nat)
    (h0 : b.cur ≠ some i) (h1 : b'.cur = some i) (hl : HookLive b' a) : ∃ v e, AItem b' a true v e := by
  rcases cur_frame b b' be hs i h1 with h | ⟨he, _⟩
  · exact absurd h h0
  · subst he
    obtain ⟨f, t, hth⟩ := hl
    have hs0 := hs
    simp only [step] at hs0; split at hs0 <;> try simp at hs0
    rename_i c hc
    split at hs0 <;> try simp at hs0
    rename_i val hasRel err hres
    obtain ⟨⟨_, _, hfree⟩, hs0⟩ := hs0
    have hpe : b.pend = [] := by simpa [St.free] using hfree
    split at hs0
    · simp at hs0; subst hs0
      have hin := mem_cbItems_of_tellAll b.th (some i) a .hook .done f false t true val err hth (by simp)
      refine ⟨val, err, ?_⟩
      show _ ∈ (addBatch b.pend _).flatten
      rw [hpe]
      have hne : (cbItems b.th true val err).isEmpty = false := by
        cases hemp : (cbItems b.th true val err).isEmpty
        · rfl
        · rw [List.isEmpty_iff] at hemp; rw [hemp] at hin; cases hin
      simp [addBatch, hne]; exact hin
    · split at hs0 <;> simp at hs0 <;> subst hs0 <;> exact absurd h1 h0

/-- the entry the monitor computes for a value is the entry of the call that produced it -/
theorem entry_link (b : St) (m : C10St) (hx : Idx b) (hv : ValOk b) (hz : ZeroOk b m.zeroEntries) (v k : Nat)
    (h : CurIs b v 0) (hk : entryOf m v = some k) : CurEnt b k := by
  obtain ⟨i, ci, hh, h1, h2, h3⟩ := h
  have hinv := hx.res i ci h2 (by rw [h3]; rfl)
  obtain ⟨k', hk'⟩ := Option.isSome_iff_exists.mp hinv
  refine ⟨i, ci, h1, h2, ?_⟩
  rw [hk']
  unfold entryOf at hk
  by_cases hv0 : v = 0
  · subst hv0
    simp only [ne_eq, not_true_eq_false, if_false] at hk
    have hmem := hz i ci hh k' h2 h3 hk'
    split at hk
    · rename_i k0 hze
      rw [hze] at hmem
      simp at hmem
      cases hk
      rw [hmem]
    · cases hk
  · simp [hv0] at hk
    rcases hv i ci v hh 0 k' h2 h3 hk' with h0 | h0
    · exact absurd h0 hv0
    · congr 1; omega

/-! ## every event of consumer `a` moves consumer `a` -/

theorem exitRel_get (s s' : CSt) (a : Nat) (c1 : Con) (v e : Nat) (h : exitRel s a c1 v e = some s')
    (hlt : a < s.ct.length) :
    getCon s' a = some { c1 with pc := .exitWait v e, mainOwns := !flagOf s.b a } := by
  unfold exitRel at h
  cases hst : step s.b (.selfRelSwap a) with
  | none => simp [hst] at h
  | some b' =>
    simp [hst] at h; subst h
    rw [getCon_setCon]
    have : a < ({ s with b := b' } : CSt).ct.length := hlt
    simp [this]

/-- the events that belong to consumer `a` -/
def Targets (e : CEv) (a : Nat) : Prop :=
  e = .base (.addRefCS a) ∨ (∃ res v er, e = .base (.cb (.refcb a false res v er))) ∨ e = .snap a ∨ e = .watch a ∨
  (∃ i v, e = .cbin a i v) ∨ (∃ i r, e = .cbout a i r) ∨ e = .check a ∨ e = .recheck a ∨ e = .waitCancel a ∨
  e = .await a ∨ e = .awaitCancel a ∨ (∃ v x, e = .ret a v x) ∨ e = .envCancelCall a ∨ e = .goRel a ∨ e = .goCb a

theorem own_trans_full (s s' : CSt) (e : CEv) (a : Nat) (c c' : Con) (hs : cstep s e = some s')
    (h1 : getCon s a = some c) (h2 : getCon s' a = some c') (ht : Targets e a) : Trans s e a c c' := by
  have hlt := getCon_lt s a c h1
  have fin : ∀ (b' : St) (c1 : Con), s' = setCon { s with b := b' } a c1 → Trans s e a c c1 → Trans s e a c c' := by
    intro b' c1 hs' htr
    subst hs'
    rw [getCon_setCon] at h2
    have : a < ({ s with b := b' } : CSt).ct.length := hlt
    simp [this] at h2; subst h2; exact htr
  have finX : ∀ (c1 : Con) (v x : Nat), exitRel s a c1 v x = some s' →
      Trans s e a c { c1 with pc := .exitWait v x, mainOwns := !flagOf s.b a } → Trans s e a c c' := by
    intro c1 v x hx htr
    have := exitRel_get s s' a c1 v x hx hlt
    rw [h2] at this; cases this; exact htr
  rcases ht with rfl | ⟨res, v, er, rfl⟩ | rfl | rfl | ⟨i, v, rfl⟩ | ⟨i, r, rfl⟩ | rfl | rfl | rfl | rfl | rfl |
      ⟨v, x, rfl⟩ | rfl | rfl | rfl
  · simp only [cstep] at hs
    cases hst : step s.b (.addRefCS a) with
    | none => simp [hst] at hs
    | some b' =>
      simp only [hst, h1] at hs
      split at hs <;> simp at hs
      rename_i hpc
      exact fin b' _ hs.symm (.started a c hpc)
  · simp only [cstep] at hs
    cases hst : step s.b (.cb (.refcb a false res v er)) with
    | none => simp [hst] at hs
    | some b' =>
      simp [hst, h1] at hs
      exact fin b' _ hs.symm (.hook a c res v er)
  · simp only [cstep, h1] at hs
    split at hs <;> try simp at hs
    rename_i hcond
    split at hs
    · split at hs <;> simp at hs
      · rename_i hce hres
        exact fin s.b _ hs.symm (.snapCall a c hcond.1 hce hres)
      · rename_i hce hres
        exact fin s.b _ hs.symm (.snapWait a c hcond.1 hce (by simpa using hres))
    · rename_i hce
      exact finX (snapped c) 0 c.ce hs (.snapErr a c hcond.1 hce)
  · simp only [cstep, h1] at hs
    split at hs <;> try simp at hs
    all_goals
      obtain ⟨_, hs⟩ := hs
      exact fin s.b _ hs.symm (.watch a c)
  · exact own_trans s s' _ a c c' hs h1 h2 (Or.inl ⟨i, v, rfl⟩)
  · exact own_trans s s' _ a c c' hs h1 h2 (Or.inr (Or.inl ⟨i, r, rfl⟩))
  · simp only [cstep, h1] at hs
    split at hs <;> try simp at hs
    rename_i r n ch hpc
    split at hs
    · rename_i hcan
      exact finX c 0 9 hs (.checkCancel a r n ch c hpc hcan)
    · rename_i hcan
      simp at hs
      exact fin s.b _ hs.symm (.checkGo a r n ch c hpc (by simpa using hcan))
  · simp only [cstep, h1] at hs
    split at hs <;> try simp at hs
    rename_i r n ch hpc
    split at hs
    · rename_i hn
      exact finX c 0 r hs (.recheckSame a r n ch c hpc hn)
    · rename_i hn
      simp at hs
      exact fin s.b _ hs.symm (.recheckDiff a r n ch c hpc hn)
  · simp only [cstep, h1] at hs
    split at hs <;> try simp at hs
    rename_i n ch hpc
    exact finX c 0 9 hs.2 (.waitCancel a n ch c hpc hs.1)
  · simp only [cstep, h1] at hs
    split at hs <;> try simp at hs
    rename_i hcond
    split at hs <;> try simp at hs
    rename_i v e hp
    split at hs
    · rename_i he
      simp at hs
      subst he
      exact fin s.b _ hs.symm (.awaitOk a v c hcond.1 hp hcond.2.1)
    · rename_i he
      exact finX c v e hs (.awaitErr a v e c hcond.1 hp he hcond.2.1)
  · simp only [cstep, h1] at hs
    split at hs <;> try simp at hs
    rename_i hcond
    exact finX c 0 9 hs (.awaitCancel a c hcond.1 hcond.2.2 hcond.2.1)
  · exact own_trans s s' _ a c c' hs h1 h2 (Or.inr (Or.inr (Or.inl ⟨v, x, rfl⟩)))
  · exact own_trans s s' _ a c c' hs h1 h2 (Or.inr (Or.inr (Or.inr (Or.inl rfl))))
  · simp only [cstep, h1] at hs
    split at hs <;> try simp at hs
    rename_i hgo
    cases hst : step s.b (.selfRelSwap a) with
    | none => simp [hst] at hs
    | some b' =>
      simp [hst] at hs
      exact fin b' _ hs.symm (.goRel a c hgo)
  · exact own_trans s s' _ a c c' hs h1 h2 (Or.inr (Or.inr (Or.inr (Or.inr rfl))))

/-- what the event of consumer `a` does to the base component -/
def OwnBase (s s' : CSt) (e : CEv) (a : Nat) (c' : Con) : Prop :=
  match e with
  | .base be => step s.b be = some s'.b
  | .goRel _ => step s.b (.selfRelSwap a) = some s'.b
  | .ret _ _ _ => True
  | _ => ((∃ v x, c'.pc = .exitWait v x) ∧ step s.b (.selfRelSwap a) = some s'.b) ∨ s'.b = s.b

theorem own_base (s s' : CSt) (e : CEv) (a : Nat) (c c' : Con) (hs : cstep s e = some s')
    (h1 : getCon s a = some c) (h2 : getCon s' a = some c') (ht : Targets e a) : OwnBase s s' e a c' := by
  have hlt := getCon_lt s a c h1
  have same : s'.b = s.b → (∀ be, e ≠ .base be) → (∀ a0, e ≠ .goRel a0) → (∀ a0 v x, e ≠ .ret a0 v x) →
      OwnBase s s' e a c' := by
    intro hb n1 n2 n3
    cases e with
    | base be => exact absurd rfl (n1 be)
    | goRel a0 => exact absurd rfl (n2 a0)
    | ret a0 v x => exact absurd rfl (n3 a0 v x)
    | _ => exact Or.inr hb
  have exit : ∀ (c1 : Con) (v x : Nat), exitRel s a c1 v x = some s' → (∀ be, e ≠ .base be) → (∀ a0, e ≠ .goRel a0) →
      (∀ a0 v x, e ≠ .ret a0 v x) → OwnBase s s' e a c' := by
    intro c1 v x hx n1 n2 n3
    have hget := exitRel_get s s' a c1 v x hx hlt
    rw [h2] at hget
    have hpc : ∃ v x, c'.pc = .exitWait v x := by cases hget; exact ⟨v, x, rfl⟩
    have hmv := (exitRel_move s s' a c1 v x hx).1
    cases e with
    | base be => exact absurd rfl (n1 be)
    | goRel a0 => exact absurd rfl (n2 a0)
    | ret a0 v x => exact absurd rfl (n3 a0 v x)
    | _ => exact Or.inl ⟨hpc, hmv⟩
  rcases ht with rfl | ⟨res, v, er, rfl⟩ | rfl | rfl | ⟨i, v, rfl⟩ | ⟨i, r, rfl⟩ | rfl | rfl | rfl | rfl | rfl |
      ⟨v, x, rfl⟩ | rfl | rfl | rfl
  · simp only [cstep] at hs
    cases hst : step s.b (.addRefCS a) with
    | none => simp [hst] at hs
    | some b' =>
      simp only [hst, h1] at hs
      split at hs <;> simp at hs
      subst hs
      exact hst
  · simp only [cstep] at hs
    cases hst : step s.b (.cb (.refcb a false res v er)) with
    | none => simp [hst] at hs
    | some b' =>
      simp [hst, h1] at hs
      subst hs
      exact hst
  · simp only [cstep, h1] at hs
    split at hs <;> try simp at hs
    split at hs
    · split at hs <;> simp at hs <;> subst hs <;> exact same rfl (by simp) (by simp) (by simp)
    · exact exit (snapped c) 0 c.ce hs (by simp) (by simp) (by simp)
  · simp only [cstep, h1] at hs
    split at hs <;> try simp at hs
    all_goals
      obtain ⟨_, rfl⟩ := hs
      exact same rfl (by simp) (by simp) (by simp)
  · simp only [cstep, h1] at hs
    split at hs <;> try simp at hs
    obtain ⟨_, rfl⟩ := hs
    exact same rfl (by simp) (by simp) (by simp)
  · simp only [cstep, h1] at hs
    split at hs <;> try simp at hs
    obtain ⟨_, rfl⟩ := hs
    exact same rfl (by simp) (by simp) (by simp)
  · simp only [cstep, h1] at hs
    split at hs <;> try simp at hs
    split at hs
    · exact exit c 0 9 hs (by simp) (by simp) (by simp)
    · simp at hs; subst hs; exact same rfl (by simp) (by simp) (by simp)
  · simp only [cstep, h1] at hs
    split at hs <;> try simp at hs
    rename_i r n ch hpc
    split at hs
    · exact exit c 0 r hs (by simp) (by simp) (by simp)
    · simp at hs; subst hs; exact same rfl (by simp) (by simp) (by simp)
  · simp only [cstep, h1] at hs
    split at hs <;> try simp at hs
    exact exit c 0 9 hs.2 (by simp) (by simp) (by simp)
  · simp only [cstep, h1] at hs
    split at hs <;> try simp at hs
    split at hs <;> try simp at hs
    rename_i v e hp
    split at hs
    · simp at hs; subst hs; exact same rfl (by simp) (by simp) (by simp)
    · exact exit c v e hs (by simp) (by simp) (by simp)
  · simp only [cstep, h1] at hs
    split at hs <;> try simp at hs
    exact exit c 0 9 hs (by simp) (by simp) (by simp)
  · trivial
  · simp [cstep, h1] at hs; subst hs
    exact same rfl (by simp) (by simp) (by simp)
  · simp only [cstep, h1] at hs
    split at hs <;> try simp at hs
    cases hst : step s.b (.selfRelSwap a) with
    | none => simp [hst] at hs
    | some b' =>
      simp [hst] at hs; subst hs
      exact hst
  · simp only [cstep, h1] at hs
    split at hs <;> simp at hs
    subst hs
    exact same rfl (by simp) (by simp) (by simp)

/-- an event that does not belong to consumer `a` does not swap `a`'s once-flag -/
theorem other_swap (s s' : CSt) (e : CEv) (a a0 : Nat)
    (h : e = .snap a0 ∨ e = .check a0 ∨ e = .recheck a0 ∨ e = .waitCancel a0 ∨ e = .await a0 ∨ e = .awaitCancel a0 ∨
      e = .goRel a0) (hnt : ¬ Targets e a) : a0 ≠ a := by
  intro e0; subst e0
  apply hnt
  rcases h with h | h | h | h | h | h | h <;> subst h <;> simp [Targets]

end UtilModel.RefCount.Cons
