import UtilModel.RefCount.Frame4
/-!
# refcount: frame lemmas for "which call is inside the resolver", the cancelled contexts and the
target flag
-/
set_option linter.unusedSimpArgs false
set_option linter.unusedVariables false
namespace UtilModel.RefCount
open UtilModel

/-- call `j` of `s'` comes from call `j` of `s` with the same phase and entry number -/
def SameRun (s s' : St) : Prop :=
  ∀ (j : Nat) (c' : Call), s'.calls[j]? = some c' → c'.ci.st = .running →
    ∃ c, s.calls[j]? = some c ∧ c.ci.st = .running ∧ c.inv = c'.inv

theorem sameRun_refl (s s' : St) (h : s'.calls = s.calls) : SameRun s s' := by
  intro j c' hc' hr; exact ⟨c', by rw [← h]; exact hc', hr, rfl⟩

theorem sameRun_trans (s1 s2 s3 : St) (h1 : SameRun s1 s2) (h2 : SameRun s2 s3) : SameRun s1 s3 := by
  intro j c' hc' hr
  obtain ⟨c, hc, hr2, hi2⟩ := h2 j c' hc' hr
  obtain ⟨c0, hc0, hr0, hi0⟩ := h1 j c hc hr2
  exact ⟨c0, hc0, hr0, by rw [hi0, hi2]⟩

theorem sameRun_shutdown (s0 : St) : SameRun s0 (shutdown s0) := by
  intro j c' hc' hr
  obtain ⟨c, hc, rfl⟩ := shutdown_call s0 j c' hc'
  exact ⟨c, hc, by simpa [updCall] using hr, by simp [updCall]⟩

theorem sameRun_startResolve (s0 : St) : SameRun s0 (startResolve s0) := by
  rw [startResolve_eq]; split
  · exact sameRun_shutdown s0
  · refine sameRun_trans _ _ _ (sameRun_shutdown s0) ?_
    intro j c' hc' hr
    rcases spawned_call (shutdown s0) j c' hc' with ⟨_, h⟩ | ⟨_, h⟩
    · exact ⟨c', h, hr, rfl⟩
    · rw [h] at hr; simp [newCall] at hr

theorem sameRun_afterRemove (s0 : St) : SameRun s0 (afterRemove s0) := by
  unfold afterRemove
  split
  · split
    · exact sameRun_shutdown s0
    · exact sameRun_refl _ _ rfl
  · exact sameRun_refl _ _ rfl

theorem sameRun_setCall (s : St) (i : Nat) (c c' : Call) (h : s.calls[i]? = some c)
    (h2 : c'.ci.st ≠ .running) : SameRun s (setCall s i c') := by
  intro j x hx hr
  unfold setCall at hx
  simp only [List.getElem?_set] at hx
  by_cases hij : i = j
  · subst hij
    simp [lt_of_getElem? h] at hx
    subst hx; exact absurd hr h2
  · simp [hij] at hx; exact ⟨x, hx, hr, rfl⟩

/-- a call that is inside the resolver after a step was so before, or has just entered -/
theorem run_back (s s' : St) (e : Ev) (hs : step s e = some s') (j : Nat) (c' : Call)
    (hc' : s'.calls[j]? = some c') (hr : c'.ci.st = .running) :
    (∃ c, s.calls[j]? = some c ∧ c.ci.st = .running ∧ c.inv = c'.inv) ∨ (∃ k, e = .enter j k ∧ c'.inv = some k) := by
  by_cases hent : ∃ i k, e = .enter i k
  · obtain ⟨i, k, rfl⟩ := hent
    simp only [step] at hs; split at hs <;> try simp at hs
    rename_i c hc
    obtain ⟨_, rfl⟩ := hs
    by_cases hij : i = j
    · subst hij
      right
      simp [setCall, lt_of_getElem? hc] at hc'
      subst hc'
      exact ⟨k, rfl, rfl⟩
    · left
      simp [setCall, List.getElem?_set, hij] at hc'
      exact ⟨c', hc', hr, rfl⟩
  left
  suffices h : SameRun s s' from h j c' hc' hr
  cases e with
  | enter i k => exact absurd ⟨i, k, rfl⟩ hent
  | leave i k v hh er =>
    simp only [step] at hs; split at hs <;> try simp at hs
    rename_i c h
    obtain ⟨_, rfl⟩ := hs
    exact sameRun_setCall s i c _ h (by simp)
  | cfg kp c t => simp only [step] at hs; split at hs <;> simp at hs; subst hs; exact sameRun_refl _ _ rfl
  | invAddRef a kd => simp only [step] at hs; split at hs <;> simp at hs; subst hs; exact sameRun_refl _ _ rfl
  | invHook a => simp only [step] at hs; split at hs <;> simp at hs; subst hs; exact sameRun_refl _ _ rfl
  | retAddRef a =>
    simp only [step] at hs; split at hs <;> try simp at hs
    obtain ⟨_, rfl⟩ := hs; exact sameRun_refl _ _ rfl
  | invRelease b r =>
    simp only [step] at hs; split at hs <;> try simp at hs
    split at hs <;> try simp at hs
    subst hs; exact sameRun_refl _ _ rfl
  | relSwap b =>
    simp only [step] at hs; split at hs <;> try simp at hs
    split at hs <;> simp at hs <;> subst hs <;> exact sameRun_refl _ _ rfl
  | retRelease b =>
    simp only [step] at hs; split at hs <;> try simp at hs
    obtain ⟨_, rfl⟩ := hs; exact sameRun_refl _ _ rfl
  | selfRelSwap a =>
    simp only [step] at hs; split at hs <;> try simp at hs
    obtain ⟨_, hs⟩ := hs
    split at hs <;> simp at hs <;> subst hs <;> exact sameRun_refl _ _ rfl
  | invSetCtx a c cl => simp only [step] at hs; split at hs <;> simp at hs; subst hs; exact sameRun_refl _ _ rfl
  | retSetCtx a u =>
    simp only [step] at hs; split at hs <;> try simp at hs
    obtain ⟨_, rfl⟩ := hs; exact sameRun_refl _ _ rfl
  | envCancelCtx c =>
    simp only [step] at hs; split at hs <;> simp at hs; subst hs
    intro j x hx hr
    simp only [List.getElem?_map] at hx
    cases hc : s.calls[j]? with
    | none => simp [hc] at hx
    | some y =>
      simp [hc] at hx
      subst hx
      refine ⟨y, rfl, ?_, ?_⟩
      · split at hr <;> simpa using hr
      · split <;> rfl
  | envReleased k' => simp only [step] at hs; split at hs <;> simp at hs; subst hs; exact sameRun_refl _ _ rfl
  | quiesce B => simp only [step] at hs; split at hs <;> simp at hs; subst hs; exact sameRun_refl _ _ rfl
  | probe v er => simp only [step] at hs; split at hs <;> simp at hs; subst hs; exact sameRun_refl _ _ rfl
  | cb it =>
    simp only [step] at hs; split at hs <;> try simp at hs
    obtain ⟨_, rfl⟩ := hs; exact sameRun_refl _ _ rfl
  | giveUp i =>
    simp only [step] at hs; split at hs <;> try simp at hs
    rename_i c h
    obtain ⟨_, rfl⟩ := hs
    exact sameRun_setCall s i c _ h (by simp)
  | drained i =>
    simp only [step] at hs; split at hs <;> try simp at hs
    rename_i c h
    obtain ⟨_, rfl⟩ := hs
    exact sameRun_setCall s i c _ h (by simp)
  | done i =>
    simp only [step] at hs; split at hs <;> try simp at hs
    rename_i c h
    obtain ⟨_, rfl⟩ := hs
    exact sameRun_setCall s i c _ h (by simp)
  | store i =>
    simp only [step] at hs; split at hs <;> try simp at hs
    rename_i c h
    split at hs <;> try simp at hs
    obtain ⟨⟨hst, _, _⟩, hs⟩ := hs
    split at hs
    · simp at hs; subst hs
      exact sameRun_setCall s i c { c with fin := true, stored := true } h (by simp [hst])
    · split at hs <;> simp at hs <;> subst hs
      · exact sameRun_setCall s i c { c with fin := true, released := true } h (by simp [hst])
      · exact sameRun_setCall s i c { c with fin := true } h (by simp [hst])
  | addRefCS a =>
    simp only [step] at hs; split at hs <;> try simp at hs
    rename_i k ha
    obtain ⟨_, hs⟩ := hs
    split at hs
    · simp at hs; subst hs
      exact sameRun_trans s { s with th := s.th.set a (.ref k .done true false false none), owner := .thr a } _
        (sameRun_refl _ _ rfl) (sameRun_startResolve _)
    · split at hs <;> simp at hs <;> subst hs <;> exact sameRun_refl _ _ rfl
  | relCS b =>
    simp only [step] at hs; split at hs <;> try simp at hs
    rename_i r hb
    split at hs <;> try simp at hs
    case h_2 => obtain ⟨_, rfl⟩ := hs; exact sameRun_refl _ _ rfl
    rename_i k pc flag self told hr0
    obtain ⟨_, rfl⟩ := hs
    exact sameRun_trans s { s with th := (s.th.set r (.ref k pc false flag self told)).set b (.rel r .done), owner := .thr b } _
      (sameRun_refl _ _ rfl) (sameRun_afterRemove _)
  | selfRelCS a =>
    simp only [step] at hs; split at hs <;> try simp at hs
    rename_i pc flag told ha
    obtain ⟨_, rfl⟩ := hs
    exact sameRun_trans s { s with th := s.th.set a (.ref .hook pc false flag false told), owner := .self a } _
      (sameRun_refl _ _ rfl) (sameRun_afterRemove _)
  | setCtxCS a =>
    simp only [step] at hs; split at hs <;> try simp at hs
    rename_i c cl u ha
    split at hs <;> simp at hs <;> obtain ⟨_, rfl⟩ := hs
    · exact sameRun_refl _ _ rfl
    · exact sameRun_trans s { s with ctx := c, th := s.th.set a (.ctx c cl .done true), owner := .thr a } _
        (sameRun_refl _ _ rfl) (sameRun_startResolve _)
  | relRun r =>
    simp only [step] at hs; split at hs <;> try simp at hs
    split at hs <;> try simp at hs
    split at hs <;> simp at hs <;> obtain ⟨_, rfl⟩ := hs
    · exact sameRun_trans s { s with relRuns := s.relRuns.eraseIdx r, owner := .other } _
        (sameRun_refl _ _ rfl) (sameRun_startResolve _)
    · exact sameRun_refl _ _ rfl

/-- a call inside the resolver has an entry number -/
def RunInvOk (s : St) : Prop := ∀ (i : Nat) (c : Call), s.calls[i]? = some c → c.ci.st = .running → c.inv.isSome = true

theorem runInvOk_step (s s' : St) (e : Ev) (h : RunInvOk s) (hs : step s e = some s') : RunInvOk s' := by
  intro i c' hc' hr
  rcases run_back s s' e hs i c' hc' hr with ⟨c, hc, hr0, hinv⟩ | ⟨k, _, hk⟩
  · rw [← hinv]; exact h i c hc hr0
  · rw [hk]; rfl

/-! ## cancelled contexts, target flag -/

theorem startResolve_misc (s0 : St) :
    (startResolve s0).dead = s0.dead ∧ ((startResolve s0).tgt = s0.tgt ∧ (startResolve s0).tgtE = s0.tgtE) := by
  rw [startResolve_eq]; split <;> simp [spawned]

theorem afterRemove_misc (s0 : St) :
    (afterRemove s0).dead = s0.dead ∧ ((afterRemove s0).tgt = s0.tgt ∧ (afterRemove s0).tgtE = s0.tgtE) := by
  unfold afterRemove; split
  · split
    · simp
    · exact ⟨rfl, rfl, rfl⟩
  · exact ⟨rfl, rfl, rfl⟩

theorem misc_frame (s s' : St) (e : Ev) (hs : step s e = some s') :
    ((∀ c, e ≠ .envCancelCtx c) → s'.dead = s.dead) ∧ (∀ c, e = .envCancelCtx c → s'.dead = c :: s.dead) ∧
    ((∀ k c t, e ≠ .cfg k c t) → s'.tgt = s.tgt ∧ s'.tgtE = s.tgtE) ∧
    (∀ k c t, e = .cfg k c t → s'.tgt = cfgTgt t ∧ s'.tgtE = cfgTgtE t) := by
  have triv : s'.dead = s.dead → (s'.tgt = s.tgt ∧ s'.tgtE = s.tgtE) → (∀ c, e ≠ .envCancelCtx c) → (∀ k c t, e ≠ .cfg k c t) →
      ((∀ c, e ≠ .envCancelCtx c) → s'.dead = s.dead) ∧ (∀ c, e = .envCancelCtx c → s'.dead = c :: s.dead) ∧
      ((∀ k c t, e ≠ .cfg k c t) → s'.tgt = s.tgt ∧ s'.tgtE = s.tgtE) ∧
    (∀ k c t, e = .cfg k c t → s'.tgt = cfgTgt t ∧ s'.tgtE = cfgTgtE t) :=
    fun h1 h2 n1 n2 => ⟨fun _ => h1, fun c he => absurd he (n1 c), fun _ => h2, fun k c t he => absurd he (n2 k c t)⟩
  cases e with
  | cfg kp c t =>
    simp only [step] at hs; split at hs <;> simp at hs
    subst hs
    exact ⟨fun _ => rfl, (by intro c he; cases he), fun h => absurd rfl (h kp c t), (by intro k c' t' he; cases he; exact ⟨rfl, rfl⟩)⟩
  | envCancelCtx c =>
    simp only [step] at hs; split at hs <;> simp at hs; subst hs
    exact ⟨fun h => absurd rfl (h c), (by intro c' he; cases he; rfl), fun _ => ⟨rfl, rfl⟩, (by intro k c' t' he; cases he)⟩
  | relRun r =>
    simp only [step] at hs; split at hs <;> try simp at hs
    split at hs <;> try simp at hs
    split at hs <;> simp at hs <;> obtain ⟨_, rfl⟩ := hs
    · have := startResolve_misc { s with relRuns := s.relRuns.eraseIdx r, owner := .other }
      exact triv this.1 this.2 (by simp) (by simp)
    · exact triv rfl ⟨rfl, rfl⟩ (by simp) (by simp)
  | envReleased k =>
    simp only [step] at hs; split at hs <;> simp at hs; subst hs
    exact triv rfl ⟨rfl, rfl⟩ (by simp) (by simp)
  | invAddRef a kd => simp only [step] at hs; split at hs <;> simp at hs; subst hs; exact triv rfl ⟨rfl, rfl⟩ (by simp) (by simp)
  | invHook a => simp only [step] at hs; split at hs <;> simp at hs; subst hs; exact triv rfl ⟨rfl, rfl⟩ (by simp) (by simp)
  | retAddRef a =>
    simp only [step] at hs; split at hs <;> try simp at hs
    obtain ⟨_, rfl⟩ := hs; exact triv rfl ⟨rfl, rfl⟩ (by simp) (by simp)
  | invRelease b r =>
    simp only [step] at hs; split at hs <;> try simp at hs
    split at hs <;> try simp at hs
    subst hs; exact triv rfl ⟨rfl, rfl⟩ (by simp) (by simp)
  | relSwap b =>
    simp only [step] at hs; split at hs <;> try simp at hs
    split at hs <;> simp at hs <;> subst hs <;> exact triv rfl ⟨rfl, rfl⟩ (by simp) (by simp)
  | retRelease b =>
    simp only [step] at hs; split at hs <;> try simp at hs
    obtain ⟨_, rfl⟩ := hs; exact triv rfl ⟨rfl, rfl⟩ (by simp) (by simp)
  | selfRelSwap a =>
    simp only [step] at hs; split at hs <;> try simp at hs
    obtain ⟨_, hs⟩ := hs
    split at hs <;> simp at hs <;> subst hs <;> exact triv rfl ⟨rfl, rfl⟩ (by simp) (by simp)
  | invSetCtx a c cl => simp only [step] at hs; split at hs <;> simp at hs; subst hs; exact triv rfl ⟨rfl, rfl⟩ (by simp) (by simp)
  | retSetCtx a u =>
    simp only [step] at hs; split at hs <;> try simp at hs
    obtain ⟨_, rfl⟩ := hs; exact triv rfl ⟨rfl, rfl⟩ (by simp) (by simp)
  | quiesce B => simp only [step] at hs; split at hs <;> simp at hs; subst hs; exact triv rfl ⟨rfl, rfl⟩ (by simp) (by simp)
  | probe v er => simp only [step] at hs; split at hs <;> simp at hs; subst hs; exact triv rfl ⟨rfl, rfl⟩ (by simp) (by simp)
  | cb it =>
    simp only [step] at hs; split at hs <;> try simp at hs
    obtain ⟨_, rfl⟩ := hs; exact triv rfl ⟨rfl, rfl⟩ (by simp) (by simp)
  | enter j k =>
    simp only [step] at hs; split at hs <;> try simp at hs
    obtain ⟨_, rfl⟩ := hs; exact triv rfl ⟨rfl, rfl⟩ (by simp) (by simp)
  | giveUp j =>
    simp only [step] at hs; split at hs <;> try simp at hs
    obtain ⟨_, rfl⟩ := hs; exact triv rfl ⟨rfl, rfl⟩ (by simp) (by simp)
  | drained j =>
    simp only [step] at hs; split at hs <;> try simp at hs
    obtain ⟨_, rfl⟩ := hs; exact triv rfl ⟨rfl, rfl⟩ (by simp) (by simp)
  | leave j k v hr er =>
    simp only [step] at hs; split at hs <;> try simp at hs
    obtain ⟨_, rfl⟩ := hs; exact triv rfl ⟨rfl, rfl⟩ (by simp) (by simp)
  | done j =>
    simp only [step] at hs; split at hs <;> try simp at hs
    obtain ⟨_, rfl⟩ := hs; exact triv rfl ⟨rfl, rfl⟩ (by simp) (by simp)
  | store j =>
    simp only [step] at hs; split at hs <;> try simp at hs
    split at hs <;> try simp at hs
    obtain ⟨_, hs⟩ := hs
    split at hs
    · simp at hs; subst hs; exact triv rfl ⟨rfl, rfl⟩ (by simp) (by simp)
    · split at hs <;> simp at hs <;> subst hs <;> exact triv rfl ⟨rfl, rfl⟩ (by simp) (by simp)
  | addRefCS a =>
    simp only [step] at hs; split at hs <;> try simp at hs
    rename_i k ha
    obtain ⟨_, hs⟩ := hs
    split at hs
    · simp at hs; subst hs
      have := startResolve_misc { s with th := s.th.set a (.ref k .done true false false none), owner := .thr a }
      exact triv this.1 this.2 (by simp) (by simp)
    · split at hs <;> simp at hs <;> subst hs <;> exact triv rfl ⟨rfl, rfl⟩ (by simp) (by simp)
  | relCS b =>
    simp only [step] at hs; split at hs <;> try simp at hs
    rename_i r hb
    split at hs <;> try simp at hs
    case h_2 => obtain ⟨_, rfl⟩ := hs; exact triv rfl ⟨rfl, rfl⟩ (by simp) (by simp)
    rename_i k pc flag self told hr
    obtain ⟨_, rfl⟩ := hs
    have := afterRemove_misc { s with th := (s.th.set r (.ref k pc false flag self told)).set b (.rel r .done), owner := .thr b }
    exact triv this.1 this.2 (by simp) (by simp)
  | selfRelCS a =>
    simp only [step] at hs; split at hs <;> try simp at hs
    rename_i pc flag told ha
    obtain ⟨_, rfl⟩ := hs
    have := afterRemove_misc { s with th := s.th.set a (.ref .hook pc false flag false told), owner := .self a }
    exact triv this.1 this.2 (by simp) (by simp)
  | setCtxCS a =>
    simp only [step] at hs; split at hs <;> try simp at hs
    rename_i c cl u ha
    split at hs <;> simp at hs <;> obtain ⟨_, rfl⟩ := hs
    · exact triv rfl ⟨rfl, rfl⟩ (by simp) (by simp)
    · have := startResolve_misc { s with ctx := c, th := s.th.set a (.ctx c cl .done true), owner := .thr a }
      exact triv this.1 this.2 (by simp) (by simp)

end UtilModel.RefCount
