import UtilModel.RefCount.Proofs5
/-!
# refcount: which events call a release function (classification)
-/
set_option linter.unusedSimpArgs false
set_option linter.unusedVariables false
namespace UtilModel.RefCount
open UtilModel

/-- the four ways a critical section reaches `shutdown` with a stored value, described by the
intermediate state `s1` (the section's own bookkeeping done, `shutdown` not yet) -/
inductive ShutKind (s : St) (e : Ev) (s1 s' : St) (i : Nat) : Prop where
  /-- `SetContext` with a different context -/
  | ctxChange (a : Nat) (he : e = .setCtxCS a) (hc : s1.ctx ≠ s.ctx) (h' : s' = startResolve s1)
  /-- the `released()` callback of this very call, nonce unchanged -/
  | releasedCb (j : Nat) (he : e = .relRun j) (hj : s.relRuns[j]? = some i) (h' : s' = startResolve s1)
  /-- `Release` of the last reference -/
  | lastRef (b : Nat) (he : e = .relCS b ∨ e = .selfRelCS b) (h0 : liveRefs s1 = 0) (h' : s' = shutdown s1)

/-- the shared variables `shutdown` looks at are those of `s` -/
def SameShared (s s1 : St) : Prop :=
  s1.calls = s.calls ∧ s1.rel = s.rel ∧ s1.resolved = s.resolved ∧ s1.pend = s.pend ∧ s1.tgt = s.tgt ∧
  s1.cur = s.cur ∧ s1.rcancel = s.rcancel ∧ s1.value = s.value ∧ s1.verr = s.verr ∧ s1.target = s.target ∧
  s1.nonce = s.nonce

theorem released_startResolve (s1 : St) (i : Nat) : released (startResolve s1) i = released (shutdown s1) i := by
  rw [startResolve_eq]; split
  · rfl
  · exact released_spawned _ i

theorem flip_shutdown (s1 : St) (i : Nat) (h1 : released (shutdown s1) i = true) (h : RelOk s1)
    (h0 : released s1 i = false) : s1.rel = some i := by
  rw [shutdown_released s1 h, h0] at h1
  simpa using h1

theorem flip_afterRemove (s1 : St) (i : Nat) (h1 : released (afterRemove s1) i = true) (h : RelOk s1)
    (h0 : released s1 i = false) :
    s1.rel = some i ∧ liveRefs s1 = 0 ∧ afterRemove s1 = shutdown s1 := by
  unfold afterRemove at h1 ⊢
  split at h1
  · rename_i hl
    split at h1
    · rename_i hk
      exact ⟨flip_shutdown s1 i h1 h h0, hl, by rw [if_pos hl, if_pos hk]⟩
    · rw [h0] at h1; cases h1
  · rw [h0] at h1; cases h1


/-- the state after the final section of `resolve` with a stale nonce and a release function -/
def staleSt (s : St) (i : Nat) (c : Call) : St :=
  { setCall s i { c with fin := true, released := true } with
      owner := .call i, pend := addBatch s.pend [.rel i (c.inv.getD 0) s.target] }

/-- **classification**: an event in which the release function of call `i` gets called is a
`shutdown` of the stored value `i` (context change, `released()` of `i`, last reference dropped) or
the final section of the stale call `i` itself. -/
theorem flip_cases (s s' : St) (e : Ev) (i : Nat) (hi : Inv s) (hs : step s e = some s')
    (h0 : released s i = false) (h1 : released s' i = true) :
    (s.rel = some i ∧ ∃ s1, ShutKind s e s1 s' i ∧ SameShared s s1) ∨
    (e = .store i ∧ ∃ c val err, s.calls[i]? = some c ∧ c.res = some (val, true, err) ∧
      c.nonce ≠ s.nonce ∧ c.stored = false ∧ c.fin = false ∧ s' = staleSt s i c) := by
  have hrel := relOk_of_core s hi.core
  have nf : ∀ (s2 : St), released s2 i = released s i → released s2 i = true → False := by
    intro s2 h2 h3; rw [h2, h0] at h3; cases h3
  cases e with
  | cfg k c t =>
    simp only [step] at hs; split at hs <;> simp at hs; subst hs; exact (nf _ rfl h1).elim
  | invAddRef a k =>
    simp only [step] at hs; split at hs <;> simp at hs; subst hs; exact (nf _ rfl h1).elim
  | invHook a =>
    simp only [step] at hs; split at hs <;> simp at hs; subst hs; exact (nf _ rfl h1).elim
  | retAddRef a =>
    simp only [step] at hs; split at hs <;> try simp at hs
    obtain ⟨_, rfl⟩ := hs; exact (nf _ rfl h1).elim
  | invRelease b r =>
    simp only [step] at hs; split at hs <;> try simp at hs
    split at hs <;> try simp at hs
    subst hs; exact (nf _ rfl h1).elim
  | relSwap b =>
    simp only [step] at hs; split at hs <;> try simp at hs
    split at hs <;> simp at hs <;> subst hs <;> exact (nf _ rfl h1).elim
  | retRelease b =>
    simp only [step] at hs; split at hs <;> try simp at hs
    obtain ⟨_, rfl⟩ := hs; exact (nf _ rfl h1).elim
  | selfRelSwap a =>
    simp only [step] at hs; split at hs <;> try simp at hs
    obtain ⟨_, hs⟩ := hs
    split at hs <;> simp at hs <;> subst hs <;> exact (nf _ rfl h1).elim
  | invSetCtx a c cl =>
    simp only [step] at hs; split at hs <;> simp at hs; subst hs; exact (nf _ rfl h1).elim
  | retSetCtx a u =>
    simp only [step] at hs; split at hs <;> try simp at hs
    obtain ⟨_, rfl⟩ := hs; exact (nf _ rfl h1).elim
  | envCancelCtx c =>
    simp only [step] at hs; split at hs <;> simp at hs; subst hs
    refine (nf _ ?_ h1).elim
    unfold released
    simp only [List.getElem?_map]
    cases s.calls[i]? with
    | none => rfl
    | some x => simp; split <;> rfl
  | envReleased k =>
    simp only [step] at hs; split at hs <;> simp at hs; subst hs; exact (nf _ rfl h1).elim
  | quiesce B =>
    simp only [step] at hs; split at hs <;> simp at hs; subst hs; exact (nf _ rfl h1).elim
  | probe v e =>
    simp only [step] at hs; split at hs <;> simp at hs; subst hs; exact (nf _ rfl h1).elim
  | cb it =>
    simp only [step] at hs; split at hs <;> try simp at hs
    obtain ⟨_, rfl⟩ := hs; exact (nf _ rfl h1).elim
  | enter j k =>
    simp only [step] at hs; split at hs <;> try simp at hs
    rename_i c h
    obtain ⟨_, rfl⟩ := hs
    exact (nf _ (released_setCall s j c { c with ci := { c.ci with st := .running }, inv := some k } i h rfl) h1).elim
  | giveUp j =>
    simp only [step] at hs; split at hs <;> try simp at hs
    rename_i c h
    obtain ⟨_, rfl⟩ := hs
    exact (nf _ (released_setCall s j c { c with ci := { c.ci with st := .draining } } i h rfl) h1).elim
  | drained j =>
    simp only [step] at hs; split at hs <;> try simp at hs
    rename_i c h
    obtain ⟨_, rfl⟩ := hs
    exact (nf _ (released_setCall s j c { c with ci := { c.ci with st := .returned }, fin := true } i h rfl) h1).elim
  | leave j k v hr e =>
    simp only [step] at hs; split at hs <;> try simp at hs
    rename_i c h
    obtain ⟨_, rfl⟩ := hs
    exact (nf _ (released_setCall s j c { c with ci := { c.ci with st := .returned }, res := some (v, hr, e) } i h rfl) h1).elim
  | done j =>
    simp only [step] at hs; split at hs <;> try simp at hs
    rename_i c h
    obtain ⟨_, rfl⟩ := hs
    exact (nf _ (released_setCall s j c { c with ci := { c.ci with st := .closed } } i h rfl) h1).elim
  | addRefCS a =>
    simp only [step] at hs; split at hs <;> try simp at hs
    rename_i k ha
    obtain ⟨_, hs⟩ := hs
    split at hs
    · rename_i hcond
      simp at hs; subst hs
      rw [released_startResolve] at h1
      have hr := flip_shutdown _ i h1 (by exact hrel) (by exact h0)
      obtain ⟨_, _, _, _, _, hcur⟩ := rel_is_cur s hi.core i hr
      have : s.resolved = true := by rw [hi.core.resCur, hcur]; rfl
      have h2 := hcond.2; simp [this] at h2
    · split at hs <;> simp at hs <;> subst hs <;> exact (nf _ rfl h1).elim
  | relCS b =>
    simp only [step] at hs; split at hs <;> try simp at hs
    split at hs <;> try simp at hs
    case h_2 => obtain ⟨_, rfl⟩ := hs; exact (nf _ rfl h1).elim
    obtain ⟨_, rfl⟩ := hs
    obtain ⟨hr, hl, heq⟩ := flip_afterRemove _ i h1 (by exact hrel) (by exact h0)
    exact Or.inl ⟨hr, _, .lastRef b (Or.inl rfl) hl heq, ⟨rfl, rfl, rfl, rfl, rfl, rfl, rfl, rfl, rfl, rfl, rfl⟩⟩
  | selfRelCS a =>
    simp only [step] at hs; split at hs <;> try simp at hs
    obtain ⟨_, rfl⟩ := hs
    obtain ⟨hr, hl, heq⟩ := flip_afterRemove _ i h1 (by exact hrel) (by exact h0)
    exact Or.inl ⟨hr, _, .lastRef a (Or.inr rfl) hl heq, ⟨rfl, rfl, rfl, rfl, rfl, rfl, rfl, rfl, rfl, rfl, rfl⟩⟩
  | setCtxCS a =>
    simp only [step] at hs; split at hs <;> try simp at hs
    rename_i c clear u ha
    split at hs <;> simp at hs <;> obtain ⟨hfree, rfl⟩ := hs
    · exact (nf _ rfl h1).elim
    · rename_i hne
      rw [released_startResolve] at h1
      have hr := flip_shutdown _ i h1 (by exact hrel) (by exact h0)
      exact Or.inl ⟨hr, _, .ctxChange a rfl (fun h => hne h.symm) rfl, ⟨rfl, rfl, rfl, rfl, rfl, rfl, rfl, rfl, rfl, rfl, rfl⟩⟩
  | relRun j =>
    simp only [step] at hs; split at hs <;> try simp at hs
    rename_i i' hj
    split at hs <;> try simp at hs
    rename_i c hc
    split at hs <;> simp at hs <;> obtain ⟨hfree, rfl⟩ := hs
    · rename_i hn
      rw [released_startResolve] at h1
      have hr := flip_shutdown _ i h1 (by exact hrel) (by exact h0)
      obtain ⟨c2, g1, _, _, _, hcur⟩ := rel_is_cur s hi.core i hr
      obtain ⟨c3, _, g3, g4, _⟩ := hi.core.curSome i hcur
      have : i' = i := fresh_unique s hi.core i' i c c3 hc g3 hn g4
      subst this
      exact Or.inl ⟨hr, _, .releasedCb j rfl hj rfl, ⟨rfl, rfl, rfl, rfl, rfl, rfl, rfl, rfl, rfl, rfl, rfl⟩⟩
    · exact (nf _ rfl h1).elim
  | store j =>
    simp only [step] at hs; split at hs <;> try simp at hs
    rename_i c h
    split at hs <;> try simp at hs
    rename_i val hasRel err hr
    obtain ⟨⟨hst, hnf, _⟩, hs⟩ := hs
    have hcr : c.released = false := by
      cases hcr : c.released
      · rfl
      · have := (hi.core.relFin j c h hcr).1; rw [hnf] at this; cases this
    split at hs
    · simp at hs; subst hs
      exact (nf _ (released_setCall s j c { c with fin := true, stored := true } i h rfl) h1).elim
    · rename_i hn
      split at hs <;> simp at hs <;> subst hs
      · rename_i hrel'
        by_cases hji : j = i
        · subst hji
          right
          have hns : c.stored = false := by
            cases hcs : c.stored
            · rfl
            · have := (hi.core.storedFin j c h hcs).1; rw [hnf] at this; cases this
          exact ⟨rfl, c, val, err, h, by rw [hr, hrel'], hn, hns, hnf, rfl⟩
        · exfalso
          refine nf _ ?_ h1
          unfold released setCall; simp [List.getElem?_set, hji]
      · exact (nf _ (released_setCall s j c { c with fin := true } i h rfl) h1).elim

end UtilModel.RefCount
