import UtilModel.RefCount.ObsHidden
import UtilModel.RefCount.Frame4
/-!
# refcount: every observable trace of the model is accepted by `monEventually`
-/
set_option linter.unusedSimpArgs false
set_option linter.unusedVariables false
namespace UtilModel.RefCount
open UtilModel

/-! ## the result of an entry that returned a release function -/

def ErrOk (s : St) (un : List (Nat × Nat)) : Prop :=
  ∀ (k er : Nat), (k, er) ∈ un → ∃ (i : Nat) (c : Call) (v : Nat) (h : Bool),
    s.calls[i]? = some c ∧ c.inv = some k ∧ c.res = some (v, h, er)

theorem errOk_step (s s' : St) (e : Ev) (un un' : List (Nat × Nat)) (hi : Inv s) (hx : Idx s)
    (h : ErrOk s un) (hs : step s e = some s')
    (hsub : ∀ k er, (k, er) ∈ un' → (k, er) ∈ un ∨ ∃ j v hh, e = .leave j k v hh er) : ErrOk s' un' := by
  intro k er hk
  rcases hsub k er hk with h0 | ⟨j, v, hh, rfl⟩
  · obtain ⟨i, c, v, hh, hc, hck, hr⟩ := h k er h0
    obtain ⟨c', hc', g1, g2⟩ := call_persist s s' e hi hx hs i c hc
    exact ⟨i, c', v, hh, hc', g1 k hck, by rw [g2 (by simp [hr]), hr]⟩
  · simp only [step] at hs; split at hs <;> try simp at hs
    rename_i c hc
    obtain ⟨⟨_, hck, _⟩, rfl⟩ := hs
    exact ⟨j, { c with ci := { c.ci with st := .returned }, res := some (v, hh, er) }, v, hh,
      by simp [setCall, lt_of_getElem? hc], hck, rfl⟩

/-! ## entries that have returned are numbered below `ninv` -/

theorem ninv_mono (s s' : St) (e : Ev) (hs : step s e = some s') : s.ninv ≤ s'.ninv := by
  obtain ⟨_, _, f3⟩ := calls_frame s s' e hs
  rcases f3 with ⟨h1, _⟩ | ⟨h1, _⟩ <;> omega

def RetOk (s : St) (l : List Nat) : Prop := ∀ k ∈ l, k < s.ninv

theorem retOk_step (s s' : St) (e : Ev) (l l' : List Nat) (hx : Idx s) (h : RetOk s l) (hs : step s e = some s')
    (hsub : ∀ k, k ∈ l' → k ∈ l ∨ ∃ j v hh er, e = .leave j k v hh er) : RetOk s' l' := by
  have hm := ninv_mono s s' e hs
  intro k hk
  rcases hsub k hk with h0 | ⟨j, v, hh, er, rfl⟩
  · have := h k h0; omega
  · simp only [step] at hs; split at hs <;> try simp at hs
    rename_i c hc
    obtain ⟨⟨_, hck, _⟩, rfl⟩ := hs
    have := hx.lt j c k hc hck
    simpa [setCall] using this

/-! ## the snapshot taken when a `SetContext` call was invoked -/

def snapOf (l : List (Nat × List Nat)) (a : Nat) : List Nat := ((l.find? (·.1 == a)).map (·.2)).getD []

def SnapOk (s : St) (sn : List (Nat × List Nat)) : Prop :=
  ∀ (a c : Nat) (cl : Bool) (pc : Pc) (u : Bool), s.th[a]? = some (TS.ctx c cl pc u) →
    ∀ k ∈ snapOf sn a, k < s.ninv ∧ (pc ≠ .inv → u = true → InvalOk s [k])

theorem snapOk_step (s s' : St) (e : Ev) (sn sn' : List (Nat × List Nat)) (hi : Inv s) (hx : Idx s)
    (h : SnapOk s sn) (hs : step s e = some s')
    (hsn : (sn' = sn ∧ ∀ a c cl, e ≠ .invSetCtx a c cl) ∨ ∃ a0 c0 cl0 ret, e = .invSetCtx a0 c0 cl0 ∧ sn' = (a0, ret) :: sn ∧ RetOk s ret) :
    SnapOk s' sn' := by
  obtain ⟨f1, _⟩ := th_frame s s' e hs
  have hm := ninv_mono s s' e hs
  intro a c cl pc u ha k hk
  rcases f1 a _ ha with ⟨x, hx0, hst⟩ | ⟨hnone, hnw⟩
  · -- an old thread
    have hsnap : snapOf sn' a = snapOf sn a := by
      rcases hsn with ⟨rfl, _⟩ | ⟨a0, c0, cl0, ret, he, rfl, _⟩
      · rfl
      · subst he
        have : a0 ≠ a := by
          intro e0; subst e0
          simp only [step] at hs; split at hs <;> simp at hs
          rename_i hg
          have := lt_of_getElem? hx0
          omega
        simp [snapOf, List.find?_cons, this]
    rw [hsnap] at hk
    cases x with
    | ref k0 pc0 l0 f0 sf0 t0 => simp [ThStep] at hst
    | rel r0 pc0 => simp [ThStep] at hst
    | ctx c0 cl0 pc0 u0 =>
      obtain ⟨rfl, rfl, hpc⟩ := hst
      obtain ⟨hlt, hold⟩ := h a c cl pc0 u0 hx0 k hk
      refine ⟨by omega, ?_⟩
      intro hpc' hu
      by_cases hcs : e = .setCtxCS a
      · subst hcs
        obtain ⟨c3, cl3, u3, u4, g1, g2, _, g4⟩ := setCtx_cs s s' a hs
        rw [ha] at g2; cases g2
        have hn := g4 hu
        obtain ⟨f1c, _, _⟩ := calls_frame s s' _ hs
        intro k' hk'
        simp at hk'; subst hk'
        refine ⟨by omega, ?_⟩
        intro i c' hc' hck'
        right
        rcases f1c i c' hc' with ⟨c0, hc0, hstep⟩ | ⟨_, hnv, _⟩
        · have := hi.core.nonceLe i c0 hc0
          have h4 := hstep.2.2.2.1
          omega
        · rw [hnv] at hck'; cases hck'
      · obtain ⟨pc2, hu2⟩ := upd_frame s s' e hs a c cl pc0 u0 hx0 hcs
        rw [ha] at hu2; cases hu2
        have hpc0 : pc0 ≠ .inv := by
          rcases hpc with hp | ⟨_, _, he⟩ | ⟨hp, _, _⟩
          · rw [← hp]; exact hpc'
          · exact absurd he hcs
          · rw [hp]; simp
        exact invalOk_step s s' e [k] [k] hi hx (hold hpc0 hu) hs (fun _ hk => Or.inl hk)
  · -- a new thread
    rcases hnw with ⟨k0, _, _, hx'⟩ | ⟨_, hx'⟩ | ⟨r, _, hx'⟩ | ⟨c1, cl1, he, hx'⟩
    · cases hx'
    · cases hx'
    · cases hx'
    · cases hx'
      rcases hsn with ⟨_, hno⟩ | ⟨a0, c0, cl0, ret, he2, rfl, hret⟩
      · exact absurd he (hno a c cl)
      · rw [he] at he2; cases he2
        simp [snapOf] at hk
        refine ⟨?_, by intro hp; exact absurd rfl hp⟩
        have := hret k hk; omega

/-! ## the context known to the monitor -/

def CtxVal (s : St) (mc : Option Nat) : Prop :=
  ∀ c, mc = some c →
    (s.ctx = c ∨ ∃ (a : Nat) (cl u : Bool), s.th[a]? = some (TS.ctx c cl .inv u)) ∧
    (∀ (a c' : Nat) (cl u : Bool), s.th[a]? = some (TS.ctx c' cl .inv u) → c' = c)

/-- a `SetContext` call that has not run its critical section in `s'` had not in `s` -/
theorem ctx_inv_back (s s' : St) (e : Ev) (hs : step s e = some s') (a c : Nat) (cl u : Bool)
    (ha : s'.th[a]? = some (TS.ctx c cl .inv u)) :
    (∃ u0, s.th[a]? = some (TS.ctx c cl .inv u0)) ∨ (s.th[a]? = none ∧ e = .invSetCtx a c cl) := by
  obtain ⟨f1, _⟩ := th_frame s s' e hs
  rcases f1 a _ ha with ⟨x, hx0, hst⟩ | ⟨hnone, hnw⟩
  · cases x with
    | ref k0 pc0 l0 f0 sf0 t0 => simp [ThStep] at hst
    | rel r0 pc0 => simp [ThStep] at hst
    | ctx c0 cl0 pc0 u0 =>
      obtain ⟨rfl, rfl, hpc⟩ := hst
      rcases hpc with hp | ⟨_, hp, _⟩ | ⟨_, hp, _⟩
      · subst hp; exact Or.inl ⟨u0, hx0⟩
      · cases hp
      · cases hp
  · rcases hnw with ⟨k0, _, _, hx'⟩ | ⟨_, hx'⟩ | ⟨r, _, hx'⟩ | ⟨c1, cl1, he, hx'⟩
    · cases hx'
    · cases hx'
    · cases hx'
    · cases hx'; exact Or.inr ⟨hnone, he⟩

theorem ctxVal_other (s s' : St) (e : Ev) (mc : Option Nat) (h : CtxVal s mc) (hs : step s e = some s')
    (h1 : ∀ kp c t, e ≠ .cfg kp c t) (h2 : ∀ a c cl, e ≠ .invSetCtx a c cl) : CtxVal s' mc := by
  intro c hc
  obtain ⟨g1, g2⟩ := h c hc
  have second : ∀ (a c' : Nat) (cl u : Bool), s'.th[a]? = some (TS.ctx c' cl .inv u) → c' = c := by
    intro a c' cl u ha
    rcases ctx_inv_back s s' e hs a c' cl u ha with ⟨u0, h0⟩ | ⟨_, he⟩
    · exact g2 a c' cl u0 h0
    · exact absurd he (h2 a c' cl)
  refine ⟨?_, second⟩
  have hcf := cfg_frame s s' e hs
  rcases hcf with ⟨kp, c0, t, he, _⟩ | ⟨_, _, hctx⟩
  · exact absurd he (h1 kp c0 t)
  by_cases hcs : ∃ a, e = .setCtxCS a
  · obtain ⟨a, rfl⟩ := hcs
    obtain ⟨c3, cl3, u3, u4, k1, k2, k3, _⟩ := setCtx_cs s s' a hs
    left; rw [k3]; exact g2 a c3 cl3 u3 k1
  · have hne : ∀ a, e ≠ .setCtxCS a := fun a he => hcs ⟨a, he⟩
    rcases g1 with g1 | ⟨a, cl, u, ha⟩
    · left; rw [hctx hne]; exact g1
    · right
      obtain ⟨pc', hu⟩ := upd_frame s s' e hs a c cl .inv u ha (hne a)
      obtain ⟨f1, _⟩ := th_frame s s' e hs
      rcases f1 a _ hu with ⟨x, hx0, hst⟩ | ⟨hnone, _⟩
      · rw [ha] at hx0; cases hx0
        obtain ⟨_, _, hpc⟩ := hst
        rcases hpc with hp | ⟨_, _, he⟩ | ⟨hp, _, _⟩
        · subst hp; exact ⟨a, cl, u, hu⟩
        · exact absurd he (hne a)
        · cases hp
      · rw [ha] at hnone; cases hnone

theorem ctxVal_cfg (s s' : St) (hi : Inv s) (kp : Bool) (c0 : Nat) (t : Nat)
    (hs : step s (.cfg kp c0 t) = some s') : CtxVal s' (some c0) := by
  intro c hc; cases hc
  rcases cfg_frame s s' _ hs with ⟨kp', c', t', he, hcf, _, _, hctx⟩ | ⟨hcf, _⟩
  · cases he
    refine ⟨Or.inl hctx, ?_⟩
    intro a c' cl u ha
    rcases ctx_inv_back s s' _ hs a c' cl u ha with ⟨u0, h0⟩ | ⟨_, he⟩
    · rw [(hi.core.pre hcf).1] at h0; simp at h0
    · cases he
  · exfalso
    simp only [step] at hs; split at hs <;> simp at hs
    rename_i hc0
    subst hs
    simp at hcf
    simp [hcf] at hc0

theorem ctxVal_inv (s s' : St) (cc : List Nat) (hcc : CtxOk s cc) (a0 c0 : Nat) (cl0 : Bool)
    (hs : step s (.invSetCtx a0 c0 cl0) = some s') :
    CtxVal s' (if cc.isEmpty then some c0 else none) := by
  intro c hc
  split at hc <;> try cases hc
  rename_i hemp
  have hs0 := hs
  simp only [step] at hs0; split at hs0 <;> simp at hs0
  rename_i hg
  subst hs0
  refine ⟨Or.inr ⟨a0, cl0, false, by rw [hg.2.1]; simp⟩, ?_⟩
  intro a c' cl u ha
  rcases ctx_inv_back s _ _ hs a c' cl u ha with ⟨u0, h0⟩ | ⟨_, he⟩
  · have := hcc a c' cl .inv u0 h0 (by simp)
    simp at hemp; rw [hemp] at this; cases this
  · cases he; rfl

/-! ## references whose `AddRef` returned; consumer-owned references; `Release` threads -/

def AddedOk (s : St) (ad : List Nat) : Prop :=
  ∀ (r : Nat) (k : CbKind) (l f sf : Bool) (t : Option Nat), s.th[r]? = some (TS.ref k .retd l f sf t) → r ∈ ad

theorem addedOk_step (s s' : St) (e : Ev) (ad ad' : List Nat) (h : AddedOk s ad) (hs : step s e = some s')
    (hsub : ∀ r, r ∈ ad → r ∈ ad') (hnew : ∀ a, e = .retAddRef a → a ∈ ad') : AddedOk s' ad' := by
  obtain ⟨f1, _⟩ := th_frame s s' e hs
  intro r k l f sf t hr
  rcases f1 r _ hr with ⟨x, hx0, hst⟩ | ⟨_, hnw⟩
  · cases x with
    | rel r0 pc0 => simp [ThStep] at hst
    | ctx c0 cl0 pc0 u0 => simp [ThStep] at hst
    | ref k0 pc0 l0 f0 sf0 t0 =>
      obtain ⟨_, hpc, _⟩ := hst
      rcases hpc with hp | ⟨_, hp, _⟩ | ⟨_, _, he⟩
      · subst hp; exact hsub r (h r k0 l0 f0 sf0 t0 hx0)
      · cases hp
      · exact hnew r he
  · rcases hnw with ⟨k0, _, _, hx'⟩ | ⟨_, hx'⟩ | ⟨r0, _, hx'⟩ | ⟨c1, cl1, _, hx'⟩ <;> cases hx'

def HookOk (s : St) (hk : Bool) : Prop :=
  ∀ (r : Nat) (pc : Pc) (l f sf : Bool) (t : Option Nat), s.th[r]? = some (TS.ref .hook pc l f sf t) → hk = true

theorem hookOk_step (s s' : St) (e : Ev) (hk hk' : Bool) (h : HookOk s hk) (hs : step s e = some s')
    (hsub : hk = true → hk' = true) (hnew : ∀ a, e = .invHook a → hk' = true) : HookOk s' hk' := by
  obtain ⟨f1, _⟩ := th_frame s s' e hs
  intro r pc l f sf t hr
  rcases f1 r _ hr with ⟨x, hx0, hst⟩ | ⟨_, hnw⟩
  · cases x with
    | rel r0 pc0 => simp [ThStep] at hst
    | ctx c0 cl0 pc0 u0 => simp [ThStep] at hst
    | ref k0 pc0 l0 f0 sf0 t0 =>
      obtain ⟨hkk, _⟩ := hst
      subst hkk
      exact hsub (h r pc0 l0 f0 sf0 t0 hx0)
  · rcases hnw with ⟨k0, _, hne, hx'⟩ | ⟨he, hx'⟩ | ⟨r0, _, hx'⟩ | ⟨c1, cl1, _, hx'⟩
    · cases hx'; exact absurd rfl hne
    · exact hnew r he
    · cases hx'
    · cases hx'

def RelConv (s : St) (ri : List Nat) : Prop :=
  ∀ r ∈ ri, ∃ (b : Nat) (pc : RelPc), s.th[b]? = some (TS.rel r pc)

theorem relConv_step (s s' : St) (e : Ev) (ri ri' : List Nat) (h : RelConv s ri) (hs : step s e = some s')
    (hsub : ∀ r, r ∈ ri' → r ∈ ri ∨ ∃ b, e = .invRelease b r) : RelConv s' ri' := by
  obtain ⟨f1, f2⟩ := th_frame s s' e hs
  intro r hr
  rcases hsub r hr with h0 | ⟨b, rfl⟩
  · obtain ⟨b, pc, hb⟩ := h r h0
    obtain ⟨x', hx'⟩ := f2 b _ hb
    rcases f1 b x' hx' with ⟨x, hx0, hst⟩ | ⟨hnone, _⟩
    · rw [hb] at hx0; cases hx0
      cases x' with
      | ref k0 pc0 l0 f0 sf0 t0 => simp [ThStep] at hst
      | ctx c0 cl0 pc0 u0 => simp [ThStep] at hst
      | rel r0 pc0 => simp [ThStep] at hst; subst hst; exact ⟨b, pc0, hx'⟩
    · rw [hb] at hnone; cases hnone
  · simp only [step] at hs; split at hs <;> try simp at hs
    rename_i hg
    split at hs <;> try simp at hs
    subst hs
    exact ⟨b, .inv, by rw [hg]; simp⟩

def CfgOk (s : St) (kp : Bool) : Prop := s.cfgd = true → kp = s.keep

theorem cfgOk_step (s s' : St) (e : Ev) (kp kp' : Bool) (h : CfgOk s kp) (hs : step s e = some s')
    (hk : (∃ k c t, e = .cfg k c t ∧ kp' = k) ∨ ((∀ k c t, e ≠ .cfg k c t) ∧ kp' = kp)) : CfgOk s' kp' := by
  intro hc
  rcases cfg_frame s s' e hs with ⟨k, c, t, he, _, _, hkeep, _⟩ | ⟨g1, g2, _⟩
  · rcases hk with ⟨k2, c2, t2, he2, rfl⟩ | ⟨hne, _⟩
    · rw [he] at he2; cases he2; exact hkeep.symm
    · exact absurd he (hne k c t)
  · rcases hk with ⟨k2, c2, t2, rfl, rfl⟩ | ⟨_, rfl⟩
    · exfalso
      simp only [step] at hs; split at hs <;> simp at hs
      rename_i hc0
      subst hs
      simp at g1
      simp [g1] at hc0
    · rw [g2]; exact h (by rw [← g1]; exact hc)

/-! ## the simulation -/

def UnSub (un : List (Nat × Nat)) (mo : List Nat) : Prop := ∀ p ∈ un, p.1 ∈ mo

theorem once_other (s s' : St) (e : Ev) (mo : List Nat) (hR : RelOnce s mo) (hs : step s e = some s')
    (h1 : ∀ j k v er, e ≠ .leave j k v true er) (h2 : ∀ i k seen, e ≠ .cb (.rel i k seen)) : RelOnce s' mo := by
  have h := once_sim_step s e s' mo hR hs
  cases e with
  | leave j k v hh er =>
    cases hh with
    | true => exact absurd rfl (h1 j k v er)
    | false => obtain ⟨m', hm', hR'⟩ := h; cases hm'; exact hR'
  | cb it =>
    cases it with
    | rel i k seen => exact absurd rfl (h2 i k seen)
    | refcb r vis res v er =>
      cases vis with
      | false => exact h
      | true => obtain ⟨m', hm', hR'⟩ := h; cases hm'; exact hR'
  | cfg kp c t => obtain ⟨m', hm', hR'⟩ := h; cases hm'; exact hR'
  | invAddRef a kd => obtain ⟨m', hm', hR'⟩ := h; cases hm'; exact hR'
  | addRefCS a => exact h
  | retAddRef a => obtain ⟨m', hm', hR'⟩ := h; cases hm'; exact hR'
  | invRelease b r => obtain ⟨m', hm', hR'⟩ := h; cases hm'; exact hR'
  | relSwap b => exact h
  | relCS b => exact h
  | retRelease b => obtain ⟨m', hm', hR'⟩ := h; cases hm'; exact hR'
  | invSetCtx a c cl => obtain ⟨m', hm', hR'⟩ := h; cases hm'; exact hR'
  | setCtxCS a => exact h
  | retSetCtx a u => obtain ⟨m', hm', hR'⟩ := h; cases hm'; exact hR'
  | envCancelCtx c => obtain ⟨m', hm', hR'⟩ := h; cases hm'; exact hR'
  | envReleased k => obtain ⟨m', hm', hR'⟩ := h; cases hm'; exact hR'
  | relRun r => exact h
  | enter i k => obtain ⟨m', hm', hR'⟩ := h; cases hm'; exact hR'
  | giveUp i => exact h
  | drained i => exact h
  | store i => exact h
  | done i => exact h
  | invHook a => obtain ⟨m', hm', hR'⟩ := h; cases hm'; exact hR'
  | selfRelSwap a => exact h
  | selfRelCS a => exact h
  | probe v er => obtain ⟨m', hm', hR'⟩ := h; cases hm'; exact hR'
  | quiesce B => obtain ⟨m', hm', hR'⟩ := h; cases hm'; exact hR'

def RelEv (s : St) (m : EvSt) : Prop :=
  Inv s ∧ Idx s ∧ ThInv s.th ∧ RelTh s.th ∧ (∃ mo, RelOnce s mo ∧ UnSub m.unrel mo) ∧ ErrOk s m.unrel ∧
  LatestOk s m.latest ∧ InvalOk s m.inval ∧ RetOk s m.returned ∧ SnapOk s m.ctxSnap ∧ CfgOk s m.keep ∧
  CtxVal s m.ctx ∧ CtxOk s m.ctxCalls ∧ AddedOk s m.added ∧ HookOk s m.hooks ∧ RelConv s m.relInv

theorem liveRefs_pos (s : St) (h : 0 < liveRefs s) :
    ∃ (r : Nat) (k : CbKind) (pc : Pc) (f sf : Bool) (t : Option Nat), s.th[r]? = some (TS.ref k pc true f sf t) := by
  unfold liveRefs at h
  rw [List.countP_pos_iff] at h
  obtain ⟨x, hx, hl⟩ := h
  obtain ⟨r, hr⟩ := List.getElem?_of_mem hx
  cases x with
  | ref k pc l f sf t => simp [TS.isLive] at hl; subst hl; exact ⟨r, k, pc, f, sf, t, hr⟩
  | rel r0 pc => simp [TS.isLive] at hl
  | ctx c cl pc u => simp [TS.isLive] at hl

theorem quiet_of_quiescent (s : St) (hq : quiescent s = true) (a : Nat) (x : TS) (h : s.th[a]? = some x) :
    x.quiet = true := by
  unfold quiescent at hq
  simp only [Bool.and_eq_true] at hq
  obtain ⟨⟨_, hth⟩, _⟩ := hq
  rw [List.all_eq_true] at hth
  exact hth x (List.mem_of_getElem? h)

theorem ev_quiesce_ok (s : St) (m : EvSt) (B : List Nat) (hR : RelEv s m) (hq : quiescent s = true) :
    monEventually.step m (.quiesce B) = some m := by
  obtain ⟨hi, hx, ht, hrt, ⟨mo, hRO, hsub⟩, herr, hlat, hinval, _, _, hcfg, hctx, _, hadd, hhook, hconv⟩ := hR
  obtain ⟨hpe, hrr, hfin⟩ := quiescent_settled s hi hq
  have hcfgd : s.cfgd = true := by
    unfold quiescent at hq; simp only [Bool.and_eq_true] at hq; exact hq.1.1.1.1
  have hall : m.unrel.all (fun p => some p.1 == m.latest && !m.inval.contains p.1 &&
      (!(m.added.filter (fun r => !m.relInv.contains r)).isEmpty || m.hooks || (m.keep && p.2 == 0)) &&
      m.ctx != some 0) = true := by
    rw [List.all_eq_true]
    intro p hp
    obtain ⟨k, er⟩ := p
    have hk := (hRO.2.2.2.2.2 k).1 (hsub _ hp)
    obtain ⟨i, c, v, e0, hc, hck, hres, hacc⟩ := hk
    obtain ⟨i2, c2, v2, h2, hc2, hck2, hres2⟩ := herr k er hp
    have : i2 = i := hx.inj i2 i c2 c k hc2 hc hck2 hck
    subst this
    rw [hc] at hc2; cases hc2
    rw [hres] at hres2; cases hres2
    rw [hpe] at hacc
    have hnr : c.released = false := by
      cases hr : c.released
      · rfl
      · simp [relItems, released, hc, hr, b2n] at hacc
    have hf := hfin i2 c hc (by simp [hres])
    have hrel := hi.core.noLeak i2 c v er hc hf hres hnr
    obtain ⟨c3, g1, _, _, _, hcur⟩ := rel_is_cur s hi.core i2 hrel
    obtain ⟨c4, hh, k1, k2, _, _, k5, _⟩ := hi.core.curSome i2 hcur
    rw [hc] at k1; cases k1
    rw [hres] at k5; simp at k5
    have hresd : s.resolved = true := by rw [hi.core.resCur, hcur]; rfl
    obtain ⟨hkept, hctx0⟩ := hi.live.kept hresd
    have hl := hlat.2 i2 c hcur hc
    -- 1: latest
    have e1 : (some k == m.latest) = true := by rw [hl, hck]; simp
    -- 2: not invalidated
    have e2 : m.inval.contains k = false := by
      cases hcon : m.inval.contains k
      · rfl
      · exfalso
        have hmem : k ∈ m.inval := by simpa using hcon
        rcases (hinval k hmem).2 i2 c hc hck with h1 | h1
        · rw [hrr] at h1; cases h1
        · omega
    -- 3: kept for a reason
    have e3 : (!(m.added.filter (fun r => !m.relInv.contains r)).isEmpty || m.hooks || (m.keep && er == 0)) = true := by
      rcases hkept with hlive | ⟨hkp, hve⟩
      · obtain ⟨r, kd, pc, f, sf, t, hr⟩ := liveRefs_pos s hlive
        by_cases hkd : kd = .hook
        · subst hkd
          have := hhook r pc true f sf t hr
          simp [this]
        · have hqt := quiet_of_quiescent s hq r _ hr
          have hpc : pc = .retd := by
            cases kd <;> simp [TS.quiet] at hqt <;> first | exact hqt | exact absurd rfl hkd
          subst hpc
          have hra := hadd r kd true f sf t hr
          have hnri : r ∉ m.relInv := by
            intro hin
            obtain ⟨b, pcb, hb⟩ := hconv r hin
            obtain ⟨b', hb'⟩ := hrt.unfin r kd _ f sf t b pcb hr hb
            rcases hb' with hb' | hb'
            · have := quiet_of_quiescent s hq b' _ hb'; simp [TS.quiet] at this
            · have := quiet_of_quiescent s hq b' _ hb'; simp [TS.quiet] at this
          have hmem : r ∈ m.added.filter (fun r => !m.relInv.contains r) := by
            simp [List.mem_filter, hra, hnri]
          have hne : (m.added.filter (fun r => !m.relInv.contains r)).isEmpty = false := by
            cases hemp : (m.added.filter (fun r => !m.relInv.contains r)).isEmpty
            · rfl
            · rw [List.isEmpty_iff] at hemp; rw [hemp] at hmem; cases hmem
          rw [hne]; simp
      · have hmk := hcfg hcfgd
        rw [← k5.2.2] at hve
        simp [hmk, hkp, hve]
    -- 4: the context is set
    have e4 : (m.ctx != some 0) = true := by
      cases hmc : m.ctx with
      | none => simp
      | some c0 =>
        by_cases hc0 : c0 = 0
        · subst hc0
          exfalso
          rcases (hctx 0 hmc).1 with h0 | ⟨a, cl, u, ha⟩
          · exact hctx0 h0
          · have := quiet_of_quiescent s hq a _ ha; simp [TS.quiet] at this
        · simp [hc0]
    simp only [e1, e2, e3, e4]; rfl
  simp only [monEventually]
  rw [if_pos hall]

theorem ev_sim_step (s : St) (e : Ev) (s' : St) (m : EvSt) (hR : RelEv s m) (hs : step s e = some s') :
    match Ev.obs e with
    | none => RelEv s' m
    | some o => ∃ m', monEventually.step m o = some m' ∧ RelEv s' m' := by
  have hR0 := hR
  obtain ⟨hi, hx, ht, hrt, ⟨mo, hRO, hsub⟩, herr, hlat, hinval, hret, hsnap, hcfg, hctx, hcc, hadd, hhook, hconv⟩ := hR
  have hi' := step_inv s e s' hi hs
  have hx' := idx_step s s' e hx hs
  have ht' := step_thinv s s' e ht hs
  have hrt' := step_relTh s s' e ht hrt hs
  have c_once : (∀ j k v er, e ≠ .leave j k v true er) → (∀ i k seen, e ≠ .cb (.rel i k seen)) →
      ∃ mo', RelOnce s' mo' ∧ UnSub m.unrel mo' :=
    fun h1 h2 => ⟨mo, once_other s s' e mo hRO hs h1 h2, hsub⟩
  have c_err : ErrOk s' m.unrel := errOk_step s s' e _ _ hi hx herr hs (fun _ _ h => Or.inl h)
  have c_lat : (∀ j k v hh er, e ≠ .leave j k v hh er) → LatestOk s' m.latest :=
    fun h1 => latest_other s s' e hi _ hlat hs h1
  have c_inval : InvalOk s' m.inval := invalOk_step s s' e _ _ hi hx hinval hs (fun _ h => Or.inl h)
  have c_ret : RetOk s' m.returned := retOk_step s s' e _ _ hx hret hs (fun _ h => Or.inl h)
  have c_snap : (∀ a c cl, e ≠ .invSetCtx a c cl) → SnapOk s' m.ctxSnap :=
    fun h1 => snapOk_step s s' e _ _ hi hx hsnap hs (Or.inl ⟨rfl, h1⟩)
  have c_cfg : (∀ k c t, e ≠ .cfg k c t) → CfgOk s' m.keep :=
    fun h1 => cfgOk_step s s' e _ _ hcfg hs (Or.inr ⟨h1, rfl⟩)
  have c_ctx : (∀ k c t, e ≠ .cfg k c t) → (∀ a c cl, e ≠ .invSetCtx a c cl) → CtxVal s' m.ctx :=
    fun h1 h2 => ctxVal_other s s' e _ hctx hs h1 h2
  have c_cc : (∀ a c cl, e ≠ .invSetCtx a c cl) → CtxOk s' m.ctxCalls :=
    fun h1 => ctxOk_step s s' e _ _ hcc hs (fun _ h _ => h) (fun a c cl he => absurd he (h1 a c cl))
  have c_add : (∀ a, e ≠ .retAddRef a) → AddedOk s' m.added :=
    fun h1 => addedOk_step s s' e _ _ hadd hs (fun _ h => h) (fun a he => absurd he (h1 a))
  have c_hook : (∀ a, e ≠ .invHook a) → HookOk s' m.hooks :=
    fun h1 => hookOk_step s s' e _ _ hhook hs (fun h => h) (fun a he => absurd he (h1 a))
  have c_conv : RelConv s' m.relInv := relConv_step s s' e _ _ hconv hs (fun _ h => Or.inl h)
  have same : (∀ j k v hh er, e ≠ .leave j k v hh er) → (∀ i k seen, e ≠ .cb (.rel i k seen)) →
      (∀ a c cl, e ≠ .invSetCtx a c cl) → (∀ k c t, e ≠ .cfg k c t) → (∀ a, e ≠ .retAddRef a) →
      (∀ a, e ≠ .invHook a) → RelEv s' m := by
    intro n1 n2 n3 n4 n5 n6
    exact ⟨hi', hx', ht', hrt', c_once (fun j k v er => n1 j k v true er) n2, c_err, c_lat n1, c_inval, c_ret,
      c_snap n3, c_cfg n4, c_ctx n4 n3, c_cc n3, c_add n5, c_hook n6, c_conv⟩
  cases e with
  | leave j k v hh er =>
    refine ⟨{ m with latest := some k, returned := k :: m.returned
                     unrel := if hh then (k, er) :: m.unrel else m.unrel }, by simp [Ev.obs, monEventually], ?_⟩
    have h1 := once_sim_step s _ s' mo hRO hs
    refine ⟨hi', hx', ht', hrt', ?_, ?_, latest_leave s s' hi m.latest j k v hh er hs, c_inval, ?_,
      c_snap (by simp), c_cfg (by simp), c_ctx (by simp) (by simp), c_cc (by simp), c_add (by simp),
      c_hook (by simp), c_conv⟩
    · cases hh with
      | false =>
        obtain ⟨m', hm', hR'⟩ := h1; cases hm'
        exact ⟨mo, hR', hsub⟩
      | true =>
        obtain ⟨m', hm', hR'⟩ := h1; cases hm'
        refine ⟨k :: mo, hR', ?_⟩
        intro p hp
        simp only [if_true, List.mem_cons] at hp
        rcases hp with rfl | hp
        · exact List.mem_cons_self
        · exact List.mem_cons_of_mem _ (hsub p hp)
    · refine errOk_step s s' _ _ _ hi hx herr hs ?_
      intro k' er' hp
      cases hh with
      | false => exact Or.inl hp
      | true =>
        simp only [if_true, List.mem_cons] at hp
        rcases hp with hp | hp
        · cases hp; exact Or.inr ⟨j, v, true, rfl⟩
        · exact Or.inl hp
    · refine retOk_step s s' _ _ _ hx hret hs ?_
      intro k' hk'
      simp only [List.mem_cons] at hk'
      rcases hk' with rfl | hk'
      · exact Or.inr ⟨j, v, hh, er, rfl⟩
      · exact Or.inl hk'
  | cb it =>
    cases it with
    | rel i k seen =>
      refine ⟨{ m with unrel := m.unrel.filter (·.1 != k) }, by simp [Ev.obs, monEventually], ?_⟩
      have h1 := once_sim_step s _ s' mo hRO hs
      obtain ⟨m', hm', hR'⟩ := h1
      have hm2 : (if mo.contains k then some (mo.erase k) else none) = some m' := hm'
      split at hm2 <;> try cases hm2
      refine ⟨hi', hx', ht', hrt', ⟨mo.erase k, hR', ?_⟩, ?_, c_lat (by simp), c_inval, c_ret,
        c_snap (by simp), c_cfg (by simp), c_ctx (by simp) (by simp), c_cc (by simp), c_add (by simp),
        c_hook (by simp), c_conv⟩
      · intro p hp
        simp only [List.mem_filter] at hp
        have hne : p.1 ≠ k := by simpa using hp.2
        exact (List.mem_erase_of_ne hne).mpr (hsub p hp.1)
      · refine errOk_step s s' _ _ _ hi hx herr hs ?_
        intro k' er' hp
        simp only [List.mem_filter] at hp
        exact Or.inl hp.1
    | refcb r vis res v er =>
      cases vis with
      | false => exact same (by simp) (by simp) (by simp) (by simp) (by simp) (by simp)
      | true => exact ⟨m, rfl, same (by simp) (by simp) (by simp) (by simp) (by simp) (by simp)⟩
  | cfg kp c t =>
    refine ⟨{ m with keep := kp, ctx := some c }, by simp [Ev.obs, monEventually], ?_⟩
    exact ⟨hi', hx', ht', hrt', c_once (by simp) (by simp), c_err, c_lat (by simp), c_inval, c_ret,
      c_snap (by simp), cfgOk_step s s' _ _ _ hcfg hs (Or.inl ⟨kp, c, t, rfl, rfl⟩), ctxVal_cfg s s' hi kp c t hs,
      c_cc (by simp), c_add (by simp), c_hook (by simp), c_conv⟩
  | retAddRef a =>
    refine ⟨{ m with added := a :: m.added }, by simp [Ev.obs, monEventually], ?_⟩
    exact ⟨hi', hx', ht', hrt', c_once (by simp) (by simp), c_err, c_lat (by simp), c_inval, c_ret,
      c_snap (by simp), c_cfg (by simp), c_ctx (by simp) (by simp), c_cc (by simp),
      addedOk_step s s' _ _ _ hadd hs (fun _ h => List.mem_cons_of_mem _ h)
        (by intro a' he; cases he; exact List.mem_cons_self),
      c_hook (by simp), c_conv⟩
  | invRelease b r =>
    refine ⟨{ m with relInv := r :: m.relInv }, by simp [Ev.obs, monEventually], ?_⟩
    exact ⟨hi', hx', ht', hrt', c_once (by simp) (by simp), c_err, c_lat (by simp), c_inval, c_ret,
      c_snap (by simp), c_cfg (by simp), c_ctx (by simp) (by simp), c_cc (by simp), c_add (by simp),
      c_hook (by simp),
      relConv_step s s' _ _ _ hconv hs (by
        intro r' hr'
        simp only [List.mem_cons] at hr'
        rcases hr' with rfl | hr'
        · exact Or.inr ⟨b, rfl⟩
        · exact Or.inl hr')⟩
  | envReleased k =>
    refine ⟨{ m with inval := k :: m.inval }, by simp [Ev.obs, monEventually], ?_⟩
    exact ⟨hi', hx', ht', hrt', c_once (by simp) (by simp), c_err, c_lat (by simp),
      invalOk_step s s' _ _ _ hi hx hinval hs (by
        intro k' hk'
        simp only [List.mem_cons] at hk'
        rcases hk' with rfl | hk'
        · exact Or.inr rfl
        · exact Or.inl hk'),
      c_ret, c_snap (by simp), c_cfg (by simp), c_ctx (by simp) (by simp), c_cc (by simp), c_add (by simp),
      c_hook (by simp), c_conv⟩
  | invSetCtx a c cl =>
    refine ⟨{ m with ctxCalls := a :: m.ctxCalls, ctx := if m.ctxCalls.isEmpty then some c else none
                     ctxSnap := (a, m.returned) :: m.ctxSnap }, by simp [Ev.obs, monEventually], ?_⟩
    exact ⟨hi', hx', ht', hrt', c_once (by simp) (by simp), c_err, c_lat (by simp), c_inval, c_ret,
      snapOk_step s s' _ _ _ hi hx hsnap hs (Or.inr ⟨a, c, cl, m.returned, rfl, rfl, hret⟩),
      c_cfg (by simp), ctxVal_inv s s' _ hcc a c cl hs,
      ctxOk_step s s' _ _ _ hcc hs (fun _ h _ => List.mem_cons_of_mem _ h)
        (by intro a' c' cl' he; cases he; exact List.mem_cons_self),
      c_add (by simp), c_hook (by simp), c_conv⟩
  | retSetCtx a u =>
    refine ⟨{ m with ctxCalls := m.ctxCalls.erase a
                     inval := if u == some true then snapOf m.ctxSnap a ++ m.inval else m.inval },
      by simp [Ev.obs, monEventually, snapOf], ?_⟩
    have hinv' : InvalOk s' (if u == some true then snapOf m.ctxSnap a ++ m.inval else m.inval) := by
      split
      · rename_i hu
        have hu' : u = some true := by simpa using hu
        subst hu'
        have hs0 := hs
        simp only [step] at hs0; split at hs0 <;> try simp at hs0
        rename_i c0 cl0 u0 ha
        obtain ⟨⟨_, hupd⟩, _⟩ := hs0
        have hcl : cl0 = false ∧ u0 = true := by
          cases cl0 <;> simp at hupd
          exact ⟨rfl, hupd⟩
        obtain ⟨rfl, rfl⟩ := hcl
        have hold : InvalOk s (snapOf m.ctxSnap a ++ m.inval) := by
          intro k hk
          simp only [List.mem_append] at hk
          rcases hk with hk | hk
          · exact (hsnap a c0 false .done true ha k hk).2 (by simp) rfl k (by simp)
          · exact hinval k hk
        exact invalOk_step s s' _ _ _ hi hx hold hs (fun _ h => Or.inl h)
      · exact c_inval
    exact ⟨hi', hx', ht', hrt', c_once (by simp) (by simp), c_err, c_lat (by simp), hinv', c_ret,
      c_snap (by simp), c_cfg (by simp), c_ctx (by simp) (by simp),
      ctxOk_step s s' _ _ _ hcc hs (by
        intro a' h hne
        have : a' ≠ a := by intro e; subst e; exact hne u rfl
        exact (List.mem_erase_of_ne this).mpr h) (by intro a' c' cl' he; cases he),
      c_add (by simp), c_hook (by simp), c_conv⟩
  | invHook a =>
    refine ⟨{ m with hooks := true }, by simp [Ev.obs, monEventually], ?_⟩
    exact ⟨hi', hx', ht', hrt', c_once (by simp) (by simp), c_err, c_lat (by simp), c_inval, c_ret,
      c_snap (by simp), c_cfg (by simp), c_ctx (by simp) (by simp), c_cc (by simp), c_add (by simp),
      hookOk_step s s' _ _ _ hhook hs (fun _ => rfl) (fun _ _ => rfl), c_conv⟩
  | quiesce B =>
    have hs0 := hs
    simp only [step] at hs0; split at hs0 <;> simp at hs0
    rename_i hq
    exact ⟨m, by simpa [Ev.obs] using ev_quiesce_ok s m B hR0 hq.1,
      same (by simp) (by simp) (by simp) (by simp) (by simp) (by simp)⟩
  | invAddRef a kd => exact ⟨m, rfl, same (by simp) (by simp) (by simp) (by simp) (by simp) (by simp)⟩
  | addRefCS a => exact same (by simp) (by simp) (by simp) (by simp) (by simp) (by simp)
  | relSwap b => exact same (by simp) (by simp) (by simp) (by simp) (by simp) (by simp)
  | relCS b => exact same (by simp) (by simp) (by simp) (by simp) (by simp) (by simp)
  | retRelease b => exact ⟨m, rfl, same (by simp) (by simp) (by simp) (by simp) (by simp) (by simp)⟩
  | setCtxCS a => exact same (by simp) (by simp) (by simp) (by simp) (by simp) (by simp)
  | envCancelCtx c => exact ⟨m, rfl, same (by simp) (by simp) (by simp) (by simp) (by simp) (by simp)⟩
  | relRun r => exact same (by simp) (by simp) (by simp) (by simp) (by simp) (by simp)
  | enter i k => exact ⟨m, rfl, same (by simp) (by simp) (by simp) (by simp) (by simp) (by simp)⟩
  | giveUp i => exact same (by simp) (by simp) (by simp) (by simp) (by simp) (by simp)
  | drained i => exact same (by simp) (by simp) (by simp) (by simp) (by simp) (by simp)
  | store i => exact same (by simp) (by simp) (by simp) (by simp) (by simp) (by simp)
  | done i => exact same (by simp) (by simp) (by simp) (by simp) (by simp) (by simp)
  | selfRelSwap a => exact same (by simp) (by simp) (by simp) (by simp) (by simp) (by simp)
  | selfRelCS a => exact same (by simp) (by simp) (by simp) (by simp) (by simp) (by simp)
  | probe v er => exact ⟨m, rfl, same (by simp) (by simp) (by simp) (by simp) (by simp) (by simp)⟩

/-- **C08 (observable form, `monEventually`).** Every observable trace of the model is accepted by
`monEventually`: at every quiescence point each release function that was returned and not yet called
belongs to the latest resolver result, that result was not invalidated (`released()` called, or a
`SetContext` invoked after it returned reported a change), it is kept only while a reference is held
or (keep-unreferenced and no error), and the context is set. -/
theorem rel_eventually_obs (es : List Ev) (s : St) (h : model.run model.init es = some s) :
    monEventually.accepts (es.filterMap model.obs) = true :=
  monitor_accepts_of_simulation model monEventually RelEv
    ⟨init_inv, idx_init, thinv_nil, relTh_nil,
      ⟨[], ⟨init_inv, idx_init, by intro i k ⟨b, hb, _⟩; simp [model] at hb,
        by intro i; simp [model, relItems, released, b2n], List.nodup_nil,
        by
          intro k
          constructor
          · intro hk; cases hk
          · intro ⟨i, c, v, e, hc, _⟩; simp [model] at hc⟩,
        by intro p hp; simp [monEventually] at hp⟩,
      by intro k er hp; simp [monEventually] at hp,
      ⟨by intro i c hc; simp [model] at hc, by intro i c hc; simp [model] at hc⟩,
      by intro k hk; simp [monEventually] at hk,
      by intro k hk; simp [monEventually] at hk,
      by intro a c cl pc u ha; simp [model] at ha,
      by intro hc; simp [model] at hc,
      by intro c hc; simp [monEventually] at hc,
      by intro a c cl pc u ha; simp [model] at ha,
      by intro r k l f sf t hr; simp [model] at hr,
      by intro r pc l f sf t hr; simp [model] at hr,
      by intro r hr; simp [monEventually] at hr⟩
    (fun s e s' ms hR hs => by
      have h := ev_sim_step s e s' ms hR hs
      cases e with
      | cb it =>
        cases it with
        | refcb r vis res v er => cases vis <;> exact h
        | rel i k seen => exact h
      | _ => exact h) es s h

/-- **C08 (observable form, whole monitor).** Every observable trace of the model is accepted by `monC08`,
the conjunction of the four clause monitors that `./check C08` evaluates on implementation histories. -/
theorem c08_obs (es : List Ev) (s : St) (h : model.run model.init es = some s) :
    monC08.accepts (es.filterMap model.obs) = true := by
  simp only [ObsMonitor.rcBoth_accepts, rel_once_obs es s h, rel_hidden_obs es s h, rel_held_obs es s h,
    rel_eventually_obs es s h, Bool.and_self]

end UtilModel.RefCount
