import UtilModel.Core.LTS
import UtilModel.Core.Count
import UtilModel.Core.Chain
/-!
# refcount.RefCount — model (refcount/refcount.go, read line by line at the current HEAD)

One event = one atomic action of the code:

* one critical section on `r.mtx` (`AddRef` 155-164, `removeRef` 347-357, `SetContext` 135-142, the
  `released` closure 428-438, the final section of `resolve` 449-477). The user callbacks that the
  code invokes *inside* such a section (reference callbacks, release functions) are logged by the
  harness from inside the callback; the model therefore executes the state change of the section at
  once and keeps the callback entries the section still has to perform in `pend` (a list of
  *batches*: `callRefCbsLocked` ranges over a Go map, so the order inside one batch is free, the
  order of batches is the program order). While `pend ≠ []` the mutex is held: no other critical
  section can run. `owner` remembers whose section it is, because that thread's *next* action (its
  `ret`, the `close(doneCh)` of `resolve`) comes only after the unlock.
* the atomic `rel.Swap(true)` of `Ref.Release` (75),
* one `select` decision of `resolve` (418-424), the blocking `<-waitCh` of the cancelled branch (421),
* entry / return of the resolver function (447) — harness-controlled,
* `close(doneCh)` (414, deferred),
* one API invocation / response, one environment action.

`released()` (427-445): `TryLock` succeeded → the section runs inline, else a fresh goroutine runs
it. Both mean "the section runs at some point after the call"; the model keeps one pending run per
invocation (`relRuns`) and lets it execute at any later point at which the mutex is free (an
over-approximation of the inline case, which merely happens sooner).

Values are `Nat`s, `0` is the empty value of `T`; errors are `Nat`s, `0` is `nil`; context ids are
`Nat`s, `0` is the nil context. Distinct resolver invocations return distinct non-empty values
(invocation `k` returns `k+1` or the empty value) — a harness discipline stated in the guard of
`leave`, so that "the target holds *that* value" is observable.
-/
namespace UtilModel.RefCount
open UtilModel

instance rcHashIS : Hashable Chain.IS := ⟨fun x => match x with
  | .waiting => 11 | .draining => 12 | .running => 13 | .returned => 14 | .closed => 15⟩
instance rcHashInst : Hashable Chain.Inst :=
  ⟨fun x => mixHash (hash x.pred) (mixHash (hash x.st) (hash x.cancelled))⟩

/-- kind of callback passed to `AddRef`: `nil`, a non-nil function that logs nothing, a recording
function (logs `cbin refcb …`), or the internal callback of a consumer (`Access`, `Wait…`). -/
inductive CbKind where
  | nil | quiet | rcd | hook
deriving DecidableEq, Repr, Hashable

inductive Pc where
  | inv | done | retd
deriving DecidableEq, Repr, Hashable

inductive RelPc where
  | inv | cs | done | retd
deriving DecidableEq, Repr, Hashable

/-- one harness actor = one API call, numbered in invocation (log) order. A reference is named by
the id of the `AddRef` call that created it. -/
inductive TS where
  /-- `AddRef(cb)`; `live` = member of `r.refs`; `flag` = `Ref.rel` (the once-flag); `self` = a
  release issued by the owning consumer won the swap, `removeRef` pending; `told` (ghost) = the
  resolver call whose result this reference was last given (`none` after `resolved=false`). -/
  | ref (k : CbKind) (pc : Pc) (live flag self : Bool) (told : Option Nat)
  /-- `Ref.Release()` of reference `r` -/
  | rel (r : Nat) (pc : RelPc)
  /-- `SetContext(c)` (`clear`: called through `ClearContext`) ; `upd` = return value -/
  | ctx (c : Nat) (clear : Bool) (pc : Pc) (upd : Bool)
deriving DecidableEq, Repr, Hashable

/-- a user-callback entry performed inside a critical section -/
inductive CbItem where
  /-- reference callback of reference `r` (`vis`: recording kind, i.e. logged) -/
  | refcb (r : Nat) (vis : Bool) (res : Bool) (v e : Nat)
  /-- release function of resolver call `i` (invocation `k`); `seen` = `target.GetValue()` read inside -/
  | rel (i k seen : Nat)
deriving DecidableEq, Repr, Hashable

inductive Owner where
  | thr (a : Nat) | call (i : Nat) | self (a : Nat) | other
deriving DecidableEq, Repr, Hashable

/-- one `resolve` goroutine -/
structure Call where
  ci : Chain.Inst                      -- pred (waitCh), state, cancelled (its ctx)
  nonce : Nat
  root : Nat                           -- the container ctx it was derived from
  inv : Option Nat := none             -- index of its resolver invocation
  res : Option (Nat × Bool × Nat) := none   -- (val, hasRel, err) returned by the resolver
  fin : Bool := false                  -- final critical section done (or skipped: drained)
  stored : Bool := false               -- ghost: its result was stored
  released : Bool := false             -- ghost: its release function has been called
deriving DecidableEq, Repr, Hashable

structure St where
  cfgd : Bool := false
  keep : Bool := false
  tgt : Bool := true                   -- `target` container given (non-nil)
  tgtE : Bool := true                  -- `targetErr` container given (non-nil)
  ctx : Nat := 0
  dead : List Nat := []                -- cancelled root contexts
  th : List TS := []
  nonce : Nat := 0
  resolved : Bool := false
  value : Nat := 0
  verr : Nat := 0
  rel : Option Nat := none             -- valueRel (the call whose release func it is)
  cur : Option Nat := none             -- ghost: call whose result is stored
  rcancel : Option Nat := none         -- resolveCtxCancel (the call it cancels)
  target : Nat := 0
  targetErr : Nat := 0
  calls : List Call := []
  waitCh : Option Nat := none
  ninv : Nat := 0
  relRuns : List Nat := []             -- pending `released` sections (call indices)
  pend : List (List CbItem) := []
  owner : Owner := .other
  panic : Bool := false
deriving DecidableEq, Repr, Hashable

/-! ## observables -/

/-- container configuration code of `cfg`: 0 neither, 1 both, 2 only `target`, 3 only `targetErr`
("ctx, target and targetErr can be empty") -/
def cfgTgt (t : Nat) : Bool := t == 1 || t == 2
def cfgTgtE (t : Nat) : Bool := t == 1 || t == 3

inductive Obs where
  | cfg (keep : Bool) (ctx : Nat) (tgt : Nat)
  | invAddRef (a : Nat) (k : CbKind)
  | retAddRef (a : Nat)
  | invRelease (b r : Nat)
  | retRelease (b : Nat)
  | invSetCtx (a c : Nat) (clear : Bool)
  | retSetCtx (a : Nat) (upd : Option Bool)
  | retPanic (a : Nat)
  | envCancelCtx (c : Nat)
  | envReleased (k : Nat)
  | cbinResolver (k : Nat)
  | cboutResolver (k val : Nat) (hasRel : Bool) (err : Nat)
  | cbinRefcb (r : Nat) (res : Bool) (v e : Nat)
  | cbinRel (k seen : Nat)
  | invHook (a : Nat)
  | probe (v e : Nat)
  | quiesce (B : List Nat)
deriving DecidableEq, Repr, Hashable

inductive Ev where
  | cfg (keep : Bool) (ctx : Nat) (tgt : Nat)
  | invAddRef (a : Nat) (k : CbKind)
  | addRefCS (a : Nat)
  | retAddRef (a : Nat)
  | invRelease (b r : Nat)
  | relSwap (b : Nat)
  | relCS (b : Nat)
  | retRelease (b : Nat)
  | invSetCtx (a c : Nat) (clear : Bool)
  | setCtxCS (a : Nat)
  | retSetCtx (a : Nat) (upd : Option Bool)
  | envCancelCtx (c : Nat)
  | envReleased (k : Nat)
  | relRun (j : Nat)
  | enter (i k : Nat)
  | giveUp (i : Nat)
  | drained (i : Nat)
  | leave (i k val : Nat) (hasRel : Bool) (err : Nat)
  | store (i : Nat)
  | done (i : Nat)
  | cb (it : CbItem)
  | invHook (a : Nat)
  | selfRelSwap (a : Nat)
  | selfRelCS (a : Nat)
  | probe (v e : Nat)
  | quiesce (B : List Nat)
deriving DecidableEq, Repr, Hashable

def Ev.obs : Ev → Option Obs
  | .cfg k c t => some (.cfg k c t)
  | .invAddRef a k => some (.invAddRef a k)
  | .retAddRef a => some (.retAddRef a)
  | .invRelease b r => some (.invRelease b r)
  | .retRelease b => some (.retRelease b)
  | .invSetCtx a c cl => some (.invSetCtx a c cl)
  | .retSetCtx a u => some (.retSetCtx a u)
  | .envCancelCtx c => some (.envCancelCtx c)
  | .envReleased k => some (.envReleased k)
  | .enter _ k => some (.cbinResolver k)
  | .leave _ k v h e => some (.cboutResolver k v h e)
  | .cb (.refcb r true res v e) => some (.cbinRefcb r res v e)
  | .cb (.rel _ k seen) => some (.cbinRel k seen)
  | .invHook a => some (.invHook a)
  | .probe v e => some (.probe v e)
  | .quiesce B => some (.quiesce B)
  | _ => none

/-! ## helpers (one-to-one with the code) -/

def TS.isLive : TS → Bool
  | .ref _ _ live _ _ _ => live
  | _ => false

/-- `len(r.refs)` -/
def liveRefs (s : St) : Nat := s.th.countP TS.isLive

def addBatch (p : List (List CbItem)) (b : List CbItem) : List (List CbItem) :=
  if b.isEmpty then p else p ++ [b]

/-- the entries of `callRefCbsLocked(res, v, e)`: every live reference whose callback is non-nil
(`if ref.cb != nil`, line 483) -/
def cbItems (th : List TS) (res : Bool) (v e : Nat) : List CbItem :=
  (List.range th.length).filterMap fun (a : Nat) =>
    match th[a]? with
    | some (TS.ref k _ true _ _ _) =>
      if k = CbKind.nil then none else some (CbItem.refcb a (k == CbKind.rcd) res v e)
    | _ => none

/-- ghost: what a live reference with a callback has now been given -/
def tell1 (told : Option Nat) (t : TS) : TS :=
  match t with
  | .ref k pc true f sf _ => if k = CbKind.nil then t else .ref k pc true f sf told
  | t => t

def tellAll (th : List TS) (told : Option Nat) : List TS := th.map (tell1 told)

def cancelCall (cs : List Call) (i : Nat) : List Call :=
  match cs[i]? with
  | some c => cs.set i { c with ci := { c.ci with cancelled := true } }
  | none => cs

def markReleased (cs : List Call) (i : Nat) : List Call :=
  match cs[i]? with
  | some c => cs.set i { c with released := true }
  | none => cs

def invOf (cs : List Call) (i : Nat) : Nat :=
  match cs[i]? with
  | some c => c.inv.getD 0
  | none => 0

/-- `clearResolvedState` (369-395) -/
def clearResolved (s : St) : St :=
  let s1 : St :=
    if s.resolved then
      { s with resolved := false, cur := none
               targetErr := if s.verr ≠ 0 ∧ s.tgtE then 0 else s.targetErr
               verr := 0
               target := if s.value ≠ 0 ∧ s.tgt then 0 else s.target
               value := 0
               th := tellAll s.th none
               pend := addBatch s.pend (cbItems s.th false 0 0) }
    else s
  let s2 : St :=
    match s1.rcancel with
    | some i => { s1 with calls := cancelCall s1.calls i, rcancel := none }
    | none => s1
  match s2.rel with
  | some i => { s2 with rel := none, calls := markReleased s2.calls i
                        pend := addBatch s2.pend [.rel i (invOf s2.calls i) s2.target] }
  | none => s2

/-- `shutdown` (362-365) -/
def shutdown (s : St) : St := clearResolved { s with nonce := s.nonce + 1 }

def newCall (s : St) : Call :=
  { ci := { pred := s.waitCh, st := .waiting, cancelled := s.dead.contains s.ctx }
    nonce := s.nonce, root := s.ctx }

/-- `startResolveLocked` (399-410) -/
def startResolve (s : St) : St :=
  let s1 := shutdown s
  if s1.ctx = 0 ∨ liveRefs s1 = 0 then s1
  else { s1 with calls := s1.calls ++ [newCall s1], waitCh := some s1.calls.length
                 rcancel := some s1.calls.length }

/-- `removeRef` body (349-356) once the reference entry has been taken out of the table -/
def afterRemove (s : St) : St :=
  if liveRefs s = 0 then
    if !s.keep ∨ !s.resolved ∨ s.verr ≠ 0 then shutdown s else s
  else s

def predClosed (s : St) (c : Call) : Bool :=
  match c.ci.pred with
  | none => true
  | some p => match s.calls[p]? with
    | some x => x.ci.st == .closed
    | none => false

def setCall (s : St) (i : Nat) (c : Call) : St := { s with calls := s.calls.set i c }

def headBatch (s : St) : List CbItem :=
  match s.pend with
  | b :: _ => b
  | [] => []

/-- the mutex is free -/
def St.free (s : St) : Bool := s.pend.isEmpty

/-- thread `a` may perform its next action after its critical section: its section is unlocked -/
def unlockedFor (s : St) (o : Owner) : Bool := s.pend.isEmpty || s.owner != o

/-! ## quiescence -/

def TS.quiet : TS → Bool
  | .ref .hook pc _ _ self _ => pc != .inv && !self
  | .ref _ pc _ _ _ _ => pc == .retd
  | .rel _ pc => pc == .retd
  | .ctx _ _ pc _ => pc == .retd

def Call.quiet (s : St) (c : Call) : Bool :=
  match c.ci.st with
  | .waiting => !predClosed s c && !(c.ci.cancelled && c.ci.pred.isSome)
  | .draining => !predClosed s c
  | .running => true
  | .returned => false
  | .closed => true

def quiescent (s : St) : Bool :=
  s.cfgd && s.pend.isEmpty && s.relRuns.isEmpty && s.th.all TS.quiet && s.calls.all (Call.quiet s)

def TS.pendingApi : TS → Bool
  | .ref .hook _ _ _ _ _ => false
  | t => !t.quiet

def pendingIds (s : St) : List Nat :=
  (List.range s.th.length).filter fun a => match s.th[a]? with
    | some t => t.pendingApi
    | none => false

/-! ## transitions -/

def step (s : St) : Ev → Option St
  | .cfg keep ctx tgt =>
    if s.cfgd then none else some { s with cfgd := true, keep := keep, ctx := ctx, tgt := cfgTgt tgt, tgtE := cfgTgtE tgt }
  | .invAddRef a k =>
    if s.cfgd ∧ a = s.th.length ∧ k ≠ .hook then
      some { s with th := s.th ++ [.ref k .inv false false false none] } else none
  | .invHook a =>
    if s.cfgd ∧ a = s.th.length then
      some { s with th := s.th ++ [.ref .hook .inv false false false none] } else none
  | .addRefCS a =>
    match s.th[a]? with
    | some (.ref k .inv false false false none) =>
      if s.free then
        -- 157-158: insert
        let s1 : St := { s with th := s.th.set a (.ref k .done true false false none), owner := .thr a }
        if liveRefs s1 = 1 ∧ !s1.resolved then some (startResolve s1)       -- 159-160
        else if s1.resolved ∧ k ≠ .nil then                                 -- 161-162
          some { s1 with th := s1.th.set a (.ref k .done true false false s1.cur)
                         panic := s1.panic || (k == .nil)
                         pend := addBatch s1.pend [.refcb a (k == .rcd) true s1.value s1.verr] }
        else some s1
      else none
    | _ => none
  | .retAddRef a =>
    match s.th[a]? with
    | some (.ref k .done live flag self told) =>
      if k ≠ .hook ∧ unlockedFor s (.thr a) then some { s with th := s.th.set a (.ref k .retd live flag self told) }
      else none
    | _ => none
  | .invRelease b r =>
    if b = s.th.length then
      match s.th[r]? with
      | some (.ref _ .retd _ _ _ _) => some { s with th := s.th ++ [.rel r .inv] }
      | _ => none
    else none
  | .relSwap b =>
    match s.th[b]? with
    | some (.rel r .inv) =>
      match s.th[r]? with
      | some (.ref k pc live false self told) =>
        some { s with th := (s.th.set r (.ref k pc live true self told)).set b (.rel r .cs) }
      | some (.ref _ _ _ true _ _) => some { s with th := s.th.set b (.rel r .done) }
      | _ => none
    | _ => none
  | .relCS b =>
    match s.th[b]? with
    | some (.rel r .cs) =>
      if s.free then
        match s.th[r]? with
        | some (.ref k pc true flag self told) =>
          some (afterRemove { s with th := (s.th.set r (.ref k pc false flag self told)).set b (.rel r .done)
                                     owner := .thr b })
        -- `delete` of a key that is not in the map, `lenAfter < lenBefore` false (350-352): nothing happens
        | _ => some { s with th := s.th.set b (.rel r .done), owner := .thr b }
      else none
    | _ => none
  | .retRelease b =>
    match s.th[b]? with
    | some (.rel r .done) =>
      if unlockedFor s (.thr b) then some { s with th := s.th.set b (.rel r .retd) } else none
    | _ => none
  | .selfRelSwap a =>
    -- `ref.Release()` called by the consumer that owns the reference (Access, Wait…): the once-flag
    match s.th[a]? with
    | some (.ref .hook pc live flag self told) =>
      if pc = .inv then none
      else if flag then some s
      else some { s with th := s.th.set a (.ref .hook pc live true true told) }
    | _ => none
  | .selfRelCS a =>
    match s.th[a]? with
    | some (.ref .hook pc true flag true told) =>
      if s.free then
        some (afterRemove { s with th := s.th.set a (.ref .hook pc false flag false told), owner := .self a })
      else none
    | _ => none
  | .invSetCtx a c clear =>
    if s.cfgd ∧ a = s.th.length ∧ (clear → c = 0) then
      some { s with th := s.th ++ [.ctx c clear .inv false] } else none
  | .setCtxCS a =>
    match s.th[a]? with
    | some (.ctx c clear .inv _) =>
      if s.free then
        if s.ctx ≠ c then
          some (startResolve { s with ctx := c, th := s.th.set a (.ctx c clear .done true), owner := .thr a })
        else some { s with th := s.th.set a (.ctx c clear .done false), owner := .thr a }
      else none
    | _ => none
  | .retSetCtx a upd =>
    match s.th[a]? with
    | some (.ctx c clear .done u) =>
      if unlockedFor s (.thr a) ∧ upd = (if clear then none else some u) then
        some { s with th := s.th.set a (.ctx c clear .retd u) }
      else none
    | _ => none
  | .envCancelCtx c =>
    if c ≠ 0 then
      some { s with dead := c :: s.dead
                    calls := s.calls.map fun x => if x.root = c then { x with ci := { x.ci with cancelled := true } } else x }
    else none
  | .envReleased k =>
    -- the closure exists once invocation `k` of the resolver has been entered
    match (List.range s.calls.length).find? (fun i => match s.calls[i]? with
        | some c => c.inv == some k
        | none => false) with
    | some i => some { s with relRuns := s.relRuns ++ [i] }
    | none => none
  | .relRun j =>
    match s.relRuns[j]? with
    | some i =>
      if s.free then
        match s.calls[i]? with
        | some c =>
          let s1 : St := { s with relRuns := s.relRuns.eraseIdx j, owner := .other }
          if c.nonce = s.nonce then some (startResolve s1) else some s1     -- 434-437
        | none => none
      else none
    | none => none
  | .enter i k =>
    match s.calls[i]? with
    | some c =>
      -- 417-425 then 447: left the select through the waitCh branch (or no waitCh) and entered the resolver
      if c.ci.st = .waiting ∧ predClosed s c ∧ k = s.ninv then
        some { setCall s i { c with ci := { c.ci with st := .running }, inv := some k } with ninv := s.ninv + 1 }
      else none
    | none => none
  | .giveUp i =>
    match s.calls[i]? with
    | some c =>
      if c.ci.st = .waiting ∧ c.ci.cancelled ∧ c.ci.pred.isSome then
        some (setCall s i { c with ci := { c.ci with st := .draining } })
      else none
    | none => none
  | .drained i =>
    match s.calls[i]? with
    | some c =>
      if c.ci.st = .draining ∧ predClosed s c then
        some (setCall s i { c with ci := { c.ci with st := .returned }, fin := true })
      else none
    | none => none
  | .leave i k val hasRel err =>
    match s.calls[i]? with
    | some c =>
      if c.ci.st = .running ∧ c.inv = some k ∧ (val = 0 ∨ val = k + 1) then
        some (setCall s i { c with ci := { c.ci with st := .returned }, res := some (val, hasRel, err) })
      else none
    | none => none
  | .store i =>
    match s.calls[i]? with
    | some c =>
      match c.res with
      | some (val, hasRel, err) =>
        if c.ci.st = .returned ∧ !c.fin ∧ s.free then
          if c.nonce ≠ s.nonce then
            -- 454-459: stale: release immediately
            if hasRel then
              some { setCall s i { c with fin := true, released := true } with
                       owner := .call i, pend := addBatch s.pend [.rel i (c.inv.getD 0) s.target] }
            else some { setCall s i { c with fin := true } with owner := .call i }
          else
            -- 462-477
            some { setCall s i { c with fin := true, stored := true } with
                     owner := .call i
                     resolved := true, value := val, verr := err
                     rel := if hasRel then some i else none
                     cur := some i
                     targetErr := if s.tgtE then err else s.targetErr
                     target := if err = 0 ∧ s.tgt then val else s.target
                     th := tellAll s.th (some i)
                     pend := addBatch s.pend (cbItems s.th true val err) }
        else none
      | none => none
    | none => none
  | .done i =>
    match s.calls[i]? with
    | some c =>
      if c.ci.st = .returned ∧ c.fin ∧ unlockedFor s (.call i) then
        some (setCall s i { c with ci := { c.ci with st := .closed } })
      else none
    | none => none
  | .cb it =>
    match s.pend with
    | b :: rest =>
      if it ∈ b then
        let b' := b.erase it
        some { s with pend := if b'.isEmpty then rest else b' :: rest }
      else none
    | [] => none
  | .probe v e =>
    -- the harness reads both target containers right before it logs a quiescence point
    if quiescent s ∧ v = s.target ∧ e = s.targetErr then some s else none
  | .quiesce B => if quiescent s ∧ B = pendingIds s then some s else none

/-! ## candidates -/

/-- every internal event that can be enabled in `s` (`complete_refcount` in Transfer.lean): the checker
tries all of them — no partial-order reduction, so a REJECT is a statement about the model as it is -/
def allInternal (s : St) : List Ev :=
  ((List.range s.th.length).flatMap fun a =>
    [.addRefCS a, .relSwap a, .relCS a, .setCtxCS a, .selfRelSwap a, .selfRelCS a]) ++
  ((List.range s.calls.length).flatMap fun i => [.giveUp i, .drained i, .store i, .done i]) ++
  ((List.range s.relRuns.length).map fun j => .relRun j) ++
  ((headBatch s).filterMap fun it => match it with
    | .refcb r false res v e => some (.cb (.refcb r false res v e))
    | _ => none)

def internalCands (s : St) : List Ev := allInternal s

def evsOf (s : St) : Obs → List Ev
  | .cfg k c t => [.cfg k c t]
  | .invAddRef a k => [.invAddRef a k]
  | .retAddRef a => [.retAddRef a]
  | .invRelease b r => [.invRelease b r]
  | .retRelease b => [.retRelease b]
  | .invSetCtx a c cl => [.invSetCtx a c cl]
  | .retSetCtx a u => [.retSetCtx a u]
  | .retPanic _ => []
  | .envCancelCtx c => [.envCancelCtx c]
  | .envReleased k => [.envReleased k]
  | .cbinResolver k => (List.range s.calls.length).map fun i => .enter i k
  | .cboutResolver k v h e => (List.range s.calls.length).map fun i => .leave i k v h e
  | .cbinRefcb r res v e => [.cb (.refcb r true res v e)]
  | .cbinRel k seen => (headBatch s).filterMap fun it => match it with
    | .rel i k' seen' => if k' = k ∧ seen' = seen then some (.cb (.rel i k' seen')) else none
    | _ => none
  | .invHook a => [.invHook a]
  | .probe v e => [.probe v e]
  | .quiesce B => [.quiesce B]

def model : OLTS St Ev Obs where
  init := {}
  step := step
  obs := Ev.obs
  cands := internalCands
  evsOf := evsOf

/-! ## parsing of harness lines -/

def parseNats : List String → Option (List Nat)
  | [] => some []
  | x :: xs => do let n ← x.toNat?; let r ← parseNats xs; pure (n :: r)

def parseBit (s : String) : Option Bool :=
  if s == "1" then some true else if s == "0" then some false else none

def parseKind (s : String) : Option CbKind :=
  if s == "nil" then some .nil else if s == "quiet" then some .quiet
  else if s == "rec" then some .rcd else none

def Obs.parse : List String → Option Obs
  | ["cfg", k, c, t] => do pure (.cfg (← parseBit k) (← c.toNat?) (← t.toNat?))
  | ["inv", a, "addref", k] => do pure (.invAddRef (← a.toNat?) (← parseKind k))
  | ["ret", a, "addref"] => do pure (.retAddRef (← a.toNat?))
  | ["inv", b, "release", r] => do pure (.invRelease (← b.toNat?) (← r.toNat?))
  | ["ret", b, "release"] => do pure (.retRelease (← b.toNat?))
  | ["inv", a, "setctx", c] => do pure (.invSetCtx (← a.toNat?) (← c.toNat?) false)
  | ["inv", a, "clearctx"] => do pure (.invSetCtx (← a.toNat?) 0 true)
  | ["ret", a, "setctx", "true"] => do pure (.retSetCtx (← a.toNat?) (some true))
  | ["ret", a, "setctx", "false"] => do pure (.retSetCtx (← a.toNat?) (some false))
  | ["ret", a, "clearctx"] => do pure (.retSetCtx (← a.toNat?) none)
  | ["ret", a, "panic"] => do pure (.retPanic (← a.toNat?))
  | ["env", "cancelctx", c] => do pure (.envCancelCtx (← c.toNat?))
  | ["env", "released", k] => do pure (.envReleased (← k.toNat?))
  | ["cbin", "resolver", k] => do pure (.cbinResolver (← k.toNat?))
  | ["cbout", "resolver", k, v, h, e] => do
      pure (.cboutResolver (← k.toNat?) (← v.toNat?) (← parseBit h) (← e.toNat?))
  | ["cbin", "refcb", r, res, v, e] => do
      pure (.cbinRefcb (← r.toNat?) (← parseBit res) (← v.toNat?) (← e.toNat?))
  | ["cbin", "rel", k, seen] => do pure (.cbinRel (← k.toNat?) (← seen.toNat?))
  | ["probe", v, e] => do pure (.probe (← v.toNat?) (← e.toNat?))
  | "quiesce" :: ts => do pure (.quiesce (← parseNats ts))
  | _ => none

end UtilModel.RefCount
