import UtilModel.RefCount.Model
/-!
# refcount: algebra of the helper functions, the inductive invariant and its preservation
-/
set_option linter.unusedSimpArgs false
set_option linter.unusedVariables false
namespace UtilModel.RefCount
open UtilModel

/-! ## `shutdown` field by field -/

/-- what `shutdown` does to resolver call `i`: cancels it if it is the one `resolveCtxCancel`
belongs to, marks it released if `valueRel` is its release function -/
def updCall (s : St) (i : Nat) (c : Call) : Call :=
  { c with ci := { c.ci with cancelled := c.ci.cancelled || (s.rcancel == some i) }
           released := c.released || (s.rel == some i) }

theorem cancelCall_get (cs : List Call) (i j : Nat) :
    (cancelCall cs i)[j]? = (cs[j]?).map fun c =>
      if i = j then { c with ci := { c.ci with cancelled := true } } else c := by
  unfold cancelCall
  cases h : cs[i]? with
  | none =>
    by_cases hij : i = j
    · subst hij; simp [h]
    · simp [hij]
  | some c =>
    simp only [List.getElem?_set]
    by_cases hij : i = j
    · subst hij; rw [h]; simp [lt_of_getElem? h]
    · simp [hij]

theorem markReleased_get (cs : List Call) (i j : Nat) :
    (markReleased cs i)[j]? = (cs[j]?).map fun c =>
      if i = j then { c with released := true } else c := by
  unfold markReleased
  cases h : cs[i]? with
  | none =>
    by_cases hij : i = j
    · subst hij; simp [h]
    · simp [hij]
  | some c =>
    simp only [List.getElem?_set]
    by_cases hij : i = j
    · subst hij; rw [h]; simp [lt_of_getElem? h]
    · simp [hij]

theorem shutdown_calls (s : St) (j : Nat) :
    (shutdown s).calls[j]? = (s.calls[j]?).map (updCall s j) := by
  unfold shutdown clearResolved
  cases hr : s.rcancel <;> cases hl : s.rel <;> cases hres : s.resolved <;>
    simp [hr, hl, hres, cancelCall_get, markReleased_get] <;>
    cases s.calls[j]? <;> simp [updCall, hr, hl] <;> (repeat' split) <;>
    (try simp_all) <;> (try (simp [beq_false_of_ne, *]))

@[simp] theorem shutdown_nonce (s : St) : (shutdown s).nonce = s.nonce + 1 := by
  unfold shutdown clearResolved
  cases s.rcancel <;> cases s.rel <;> cases hres : s.resolved <;> simp [hres]

@[simp] theorem shutdown_resolved (s : St) : (shutdown s).resolved = false := by
  unfold shutdown clearResolved
  cases s.rcancel <;> cases s.rel <;> cases hres : s.resolved <;> simp [hres]

@[simp] theorem shutdown_cur (s : St) : (shutdown s).cur = if s.resolved then none else s.cur := by
  unfold shutdown clearResolved
  cases s.rcancel <;> cases s.rel <;> cases hres : s.resolved <;> simp [hres]

@[simp] theorem shutdown_rel (s : St) : (shutdown s).rel = none := by
  unfold shutdown clearResolved
  cases s.rcancel <;> cases s.rel <;> cases hres : s.resolved <;> simp [hres]

@[simp] theorem shutdown_rcancel (s : St) : (shutdown s).rcancel = none := by
  unfold shutdown clearResolved
  cases s.rcancel <;> cases s.rel <;> cases hres : s.resolved <;> simp [hres]

@[simp] theorem shutdown_value (s : St) : (shutdown s).value = if s.resolved then 0 else s.value := by
  unfold shutdown clearResolved
  cases s.rcancel <;> cases s.rel <;> cases hres : s.resolved <;> simp [hres]

@[simp] theorem shutdown_verr (s : St) : (shutdown s).verr = if s.resolved then 0 else s.verr := by
  unfold shutdown clearResolved
  cases s.rcancel <;> cases s.rel <;> cases hres : s.resolved <;> simp [hres]

@[simp] theorem shutdown_ctx (s : St) : (shutdown s).ctx = s.ctx := by
  unfold shutdown clearResolved
  cases s.rcancel <;> cases s.rel <;> cases hres : s.resolved <;> simp [hres]

@[simp] theorem shutdown_keep (s : St) : (shutdown s).keep = s.keep := by
  unfold shutdown clearResolved
  cases s.rcancel <;> cases s.rel <;> cases hres : s.resolved <;> simp [hres]

@[simp] theorem shutdown_tgt (s : St) : (shutdown s).tgt = s.tgt := by
  unfold shutdown clearResolved
  cases s.rcancel <;> cases s.rel <;> cases hres : s.resolved <;> simp [hres]

@[simp] theorem shutdown_dead (s : St) : (shutdown s).dead = s.dead := by
  unfold shutdown clearResolved
  cases s.rcancel <;> cases s.rel <;> cases hres : s.resolved <;> simp [hres]

@[simp] theorem shutdown_waitCh (s : St) : (shutdown s).waitCh = s.waitCh := by
  unfold shutdown clearResolved
  cases s.rcancel <;> cases s.rel <;> cases hres : s.resolved <;> simp [hres]

@[simp] theorem shutdown_ninv (s : St) : (shutdown s).ninv = s.ninv := by
  unfold shutdown clearResolved
  cases s.rcancel <;> cases s.rel <;> cases hres : s.resolved <;> simp [hres]

@[simp] theorem shutdown_relRuns (s : St) : (shutdown s).relRuns = s.relRuns := by
  unfold shutdown clearResolved
  cases s.rcancel <;> cases s.rel <;> cases hres : s.resolved <;> simp [hres]

@[simp] theorem shutdown_owner (s : St) : (shutdown s).owner = s.owner := by
  unfold shutdown clearResolved
  cases s.rcancel <;> cases s.rel <;> cases hres : s.resolved <;> simp [hres]

@[simp] theorem shutdown_cfgd (s : St) : (shutdown s).cfgd = s.cfgd := by
  unfold shutdown clearResolved
  cases s.rcancel <;> cases s.rel <;> cases hres : s.resolved <;> simp [hres]

@[simp] theorem shutdown_panic (s : St) : (shutdown s).panic = s.panic := by
  unfold shutdown clearResolved
  cases s.rcancel <;> cases s.rel <;> cases hres : s.resolved <;> simp [hres]

@[simp] theorem shutdown_th (s : St) : (shutdown s).th = if s.resolved then tellAll s.th none else s.th := by
  unfold shutdown clearResolved
  cases s.rcancel <;> cases s.rel <;> cases hres : s.resolved <;> simp [hres]

@[simp] theorem shutdown_target (s : St) : (shutdown s).target = if s.resolved ∧ s.value ≠ 0 ∧ s.tgt then 0 else s.target := by
  unfold shutdown clearResolved
  cases s.rcancel <;> cases s.rel <;> cases hres : s.resolved <;> simp [hres]

@[simp] theorem shutdown_targetErr (s : St) : (shutdown s).targetErr = if s.resolved ∧ s.verr ≠ 0 ∧ s.tgt then 0 else s.targetErr := by
  unfold shutdown clearResolved
  cases s.rcancel <;> cases s.rel <;> cases hres : s.resolved <;> simp [hres]

theorem shutdown_calls_length (s : St) : (shutdown s).calls.length = s.calls.length := by
  unfold shutdown clearResolved cancelCall markReleased
  cases s.rcancel <;> cases s.rel <;> cases hres : s.resolved <;> simp [hres] <;>
    (repeat' split) <;> simp

end UtilModel.RefCount
