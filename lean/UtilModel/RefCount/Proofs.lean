import UtilModel.RefCount.Model
/-!
# refcount: algebra of the helper functions, the inductive invariant and its preservation
-/
set_option linter.unusedSimpArgs false
set_option linter.unusedVariables false
namespace UtilModel.RefCount
open UtilModel

/-! ## `shutdown` field by field -/

/-- what `shutdown` does to resolver call `i`: cancels it if it is the one `resolveCtxCancel`
belongs to, marks it released if `valueRel` is its release function -/
def updCall (s : St) (i : Nat) (c : Call) : Call :=
  { c with ci := { c.ci with cancelled := c.ci.cancelled || (s.rcancel == some i) }
           released := c.released || (s.rel == some i) }

theorem cancelCall_get (cs : List Call) (i j : Nat) :
    (cancelCall cs i)[j]? = (cs[j]?).map fun c =>
      if i = j then { c with ci := { c.ci with cancelled := true } } else c := by
  unfold cancelCall
  cases h : cs[i]? with
  | none =>
    by_cases hij : i = j
    · subst hij; simp [h]
    · simp [hij]
  | some c =>
    simp only [List.getElem?_set]
    by_cases hij : i = j
    · subst hij; rw [h]; simp [lt_of_getElem? h]
    · simp [hij]

theorem markReleased_get (cs : List Call) (i j : Nat) :
    (markReleased cs i)[j]? = (cs[j]?).map fun c =>
      if i = j then { c with released := true } else c := by
  unfold markReleased
  cases h : cs[i]? with
  | none =>
    by_cases hij : i = j
    · subst hij; simp [h]
    · simp [hij]
  | some c =>
    simp only [List.getElem?_set]
    by_cases hij : i = j
    · subst hij; rw [h]; simp [lt_of_getElem? h]
    · simp [hij]

theorem shutdown_calls (s : St) (j : Nat) :
    (shutdown s).calls[j]? = (s.calls[j]?).map (updCall s j) := by
  unfold shutdown clearResolved
  cases hr : s.rcancel <;> cases hl : s.rel <;> cases hres : s.resolved <;>
    simp [hr, hl, hres, cancelCall_get, markReleased_get] <;>
    cases s.calls[j]? <;> simp [updCall, hr, hl] <;> (repeat' split) <;>
    (try simp_all) <;> (try (simp [beq_false_of_ne, *]))

@[simp] theorem shutdown_nonce (s : St) : (shutdown s).nonce = s.nonce + 1 := by
  unfold shutdown clearResolved
  cases s.rcancel <;> cases s.rel <;> cases hres : s.resolved <;> simp [hres]

@[simp] theorem shutdown_resolved (s : St) : (shutdown s).resolved = false := by
  unfold shutdown clearResolved
  cases s.rcancel <;> cases s.rel <;> cases hres : s.resolved <;> simp [hres]

@[simp] theorem shutdown_cur (s : St) : (shutdown s).cur = if s.resolved then none else s.cur := by
  unfold shutdown clearResolved
  cases s.rcancel <;> cases s.rel <;> cases hres : s.resolved <;> simp [hres]

@[simp] theorem shutdown_rel (s : St) : (shutdown s).rel = none := by
  unfold shutdown clearResolved
  cases s.rcancel <;> cases s.rel <;> cases hres : s.resolved <;> simp [hres]

@[simp] theorem shutdown_rcancel (s : St) : (shutdown s).rcancel = none := by
  unfold shutdown clearResolved
  cases s.rcancel <;> cases s.rel <;> cases hres : s.resolved <;> simp [hres]

@[simp] theorem shutdown_value (s : St) : (shutdown s).value = if s.resolved then 0 else s.value := by
  unfold shutdown clearResolved
  cases s.rcancel <;> cases s.rel <;> cases hres : s.resolved <;> simp [hres]

@[simp] theorem shutdown_verr (s : St) : (shutdown s).verr = if s.resolved then 0 else s.verr := by
  unfold shutdown clearResolved
  cases s.rcancel <;> cases s.rel <;> cases hres : s.resolved <;> simp [hres]

@[simp] theorem shutdown_ctx (s : St) : (shutdown s).ctx = s.ctx := by
  unfold shutdown clearResolved
  cases s.rcancel <;> cases s.rel <;> cases hres : s.resolved <;> simp [hres]

@[simp] theorem shutdown_keep (s : St) : (shutdown s).keep = s.keep := by
  unfold shutdown clearResolved
  cases s.rcancel <;> cases s.rel <;> cases hres : s.resolved <;> simp [hres]

@[simp] theorem shutdown_tgt (s : St) : (shutdown s).tgt = s.tgt := by
  unfold shutdown clearResolved
  cases s.rcancel <;> cases s.rel <;> cases hres : s.resolved <;> simp [hres]

@[simp] theorem shutdown_tgtE (s : St) : (shutdown s).tgtE = s.tgtE := by
  unfold shutdown clearResolved
  cases s.rcancel <;> cases s.rel <;> cases hres : s.resolved <;> simp [hres]

@[simp] theorem shutdown_dead (s : St) : (shutdown s).dead = s.dead := by
  unfold shutdown clearResolved
  cases s.rcancel <;> cases s.rel <;> cases hres : s.resolved <;> simp [hres]

@[simp] theorem shutdown_waitCh (s : St) : (shutdown s).waitCh = s.waitCh := by
  unfold shutdown clearResolved
  cases s.rcancel <;> cases s.rel <;> cases hres : s.resolved <;> simp [hres]

@[simp] theorem shutdown_ninv (s : St) : (shutdown s).ninv = s.ninv := by
  unfold shutdown clearResolved
  cases s.rcancel <;> cases s.rel <;> cases hres : s.resolved <;> simp [hres]

@[simp] theorem shutdown_relRuns (s : St) : (shutdown s).relRuns = s.relRuns := by
  unfold shutdown clearResolved
  cases s.rcancel <;> cases s.rel <;> cases hres : s.resolved <;> simp [hres]

@[simp] theorem shutdown_owner (s : St) : (shutdown s).owner = s.owner := by
  unfold shutdown clearResolved
  cases s.rcancel <;> cases s.rel <;> cases hres : s.resolved <;> simp [hres]

@[simp] theorem shutdown_cfgd (s : St) : (shutdown s).cfgd = s.cfgd := by
  unfold shutdown clearResolved
  cases s.rcancel <;> cases s.rel <;> cases hres : s.resolved <;> simp [hres]

@[simp] theorem shutdown_panic (s : St) : (shutdown s).panic = s.panic := by
  unfold shutdown clearResolved
  cases s.rcancel <;> cases s.rel <;> cases hres : s.resolved <;> simp [hres]

@[simp] theorem shutdown_th (s : St) : (shutdown s).th = if s.resolved then tellAll s.th none else s.th := by
  unfold shutdown clearResolved
  cases s.rcancel <;> cases s.rel <;> cases hres : s.resolved <;> simp [hres]

@[simp] theorem shutdown_target (s : St) : (shutdown s).target = if s.resolved ∧ s.value ≠ 0 ∧ s.tgt then 0 else s.target := by
  unfold shutdown clearResolved
  cases s.rcancel <;> cases s.rel <;> cases hres : s.resolved <;> simp [hres]

@[simp] theorem shutdown_targetErr (s : St) : (shutdown s).targetErr = if s.resolved ∧ s.verr ≠ 0 ∧ s.tgtE then 0 else s.targetErr := by
  unfold shutdown clearResolved
  cases s.rcancel <;> cases s.rel <;> cases hres : s.resolved <;> simp [hres]

theorem shutdown_calls_length (s : St) : (shutdown s).calls.length = s.calls.length := by
  unfold shutdown clearResolved cancelCall markReleased
  cases s.rcancel <;> cases s.rel <;> cases hres : s.resolved <;> simp [hres] <;>
    (repeat' split) <;> simp


/-! ## the invariant -/

/-- projection to the hand-over chain of `Core/Chain.lean`: slot = the RefCount, `last = waitCh` -/
def chainSlot (s : St) : Chain.Slot := { insts := s.calls.map (·.ci), last := s.waitCh }

/-- the part of the invariant that does not mention the context or the reference count; it is kept
by the intermediate states inside a critical section -/
structure Core (s : St) : Prop where
  pre      : s.cfgd = false → s.th = [] ∧ s.calls = []
  chain    : Chain.Inv (chainSlot s)
  nonceLe  : ∀ (i : Nat) (c : Call), s.calls[i]? = some c → c.nonce ≤ s.nonce
  nonceLt  : ∀ (i j : Nat) (ci cj : Call), s.calls[i]? = some ci → s.calls[j]? = some cj → i < j → ci.nonce < cj.nonce
  lastCh   : ∀ (l : Nat), s.waitCh = some l ↔ l + 1 = s.calls.length
  resCur   : s.resolved = s.cur.isSome
  curSome  : ∀ (i : Nat), s.cur = some i → ∃ (c : Call) (h : Bool), s.calls[i]? = some c ∧ c.nonce = s.nonce ∧ c.stored = true ∧
               c.fin = true ∧ c.res = some (s.value, h, s.verr) ∧ s.rel = (if h then some i else none) ∧
               (h = true → c.released = false)
  curNone  : s.cur = none → s.rel = none ∧ s.value = 0 ∧ s.verr = 0
  tgtVal   : s.target = if s.tgt ∧ s.verr = 0 then s.value else 0
  tgtErr   : s.targetErr = if s.tgtE then s.verr else 0
  relFin   : ∀ (i : Nat) (c : Call), s.calls[i]? = some c → c.released = true → c.fin = true ∧ ∃ v e, c.res = some (v, true, e)
  storedFin : ∀ (i : Nat) (c : Call), s.calls[i]? = some c → c.stored = true → c.fin = true ∧ c.res.isSome
  noLeak   : ∀ (i : Nat) (c : Call) (v e : Nat), s.calls[i]? = some c → c.fin = true → c.res = some (v, true, e) →
               c.released = false → s.rel = some i
  finSt    : ∀ (i : Nat) (c : Call), s.calls[i]? = some c →
               (c.fin = true → c.ci.st = .returned ∨ c.ci.st = .closed) ∧ (c.ci.st = .closed → c.fin = true)
  resSt    : ∀ (i : Nat) (c : Call), s.calls[i]? = some c → c.res.isSome → c.ci.st = .returned ∨ c.ci.st = .closed
  told     : ∀ (a : Nat) (k : CbKind) (pc : Pc) (f sf : Bool) (t : Option Nat), s.th[a]? = some (.ref k pc true f sf t) → k ≠ .nil → t = s.cur
  rcFresh  : ∀ (i : Nat), s.rcancel = some i → ∃ (c : Call), s.calls[i]? = some c ∧ c.nonce = s.nonce
  panicF   : s.panic = false
  pendNE   : ∀ b ∈ s.pend, b ≠ []
  deadC    : ∀ (i : Nat) (c : Call), s.calls[i]? = some c → s.dead.contains c.root = true → c.ci.cancelled = true
  /-- a call that gave up waiting (took the `ctx.Done` branch) had its context cancelled -/
  drainC   : ∀ (i : Nat) (c : Call), s.calls[i]? = some c →
               (c.ci.st = .draining ∨ (c.fin = true ∧ c.res = none)) → c.ci.cancelled = true

/-- the part that ties the current resolver call to the context and the reference count -/
structure Live (s : St) : Prop where
  fresh : ∀ (i : Nat) (c : Call), s.calls[i]? = some c → c.nonce = s.nonce →
            c.root = s.ctx ∧ s.ctx ≠ 0 ∧ s.rcancel = some i ∧
            (c.ci.cancelled = true → s.dead.contains s.ctx = true) ∧
            (c.fin = false → 0 < liveRefs s) ∧ (c.fin = true → c.res.isSome → s.cur = some i)
  prog  : s.ctx ≠ 0 → 0 < liveRefs s →
            s.resolved = true ∨ ∃ (i : Nat) (c : Call), s.calls[i]? = some c ∧ c.nonce = s.nonce
  kept  : s.resolved = true → (0 < liveRefs s ∨ (s.keep = true ∧ s.verr = 0)) ∧ s.ctx ≠ 0

structure Inv (s : St) : Prop where
  core : Core s
  live : Live s

theorem init_inv : Inv ({} : St) := by
  refine ⟨⟨?_, ?_, ?_, ?_, ?_, ?_, ?_, ?_, ?_, ?_, ?_, ?_, ?_, ?_, ?_, ?_, ?_, ?_, ?_, ?_, ?_⟩, ⟨?_, ?_, ?_⟩⟩
  all_goals (try (intros; simp_all; done))
  · exact Chain.init_inv


/-! ## chain: the invariant of `Core/Chain.lean` only looks at `pred`, `st` and `last` -/

theorem chain_congr (a b : Chain.Slot) (h : Chain.Inv a) (hl : b.last = a.last)
    (hlen : b.insts.length = a.insts.length)
    (hp : ∀ (j : Nat) (x : Chain.Inst), b.insts[j]? = some x →
      ∃ y, a.insts[j]? = some y ∧ y.pred = x.pred ∧ y.st = x.st) : Chain.Inv b := by
  have hcl : ∀ j, Chain.isClosed b j = Chain.isClosed a j := by
    intro j
    unfold Chain.isClosed
    cases hb : b.insts[j]? with
    | none =>
      have : a.insts[j]? = none := by
        rw [List.getElem?_eq_none_iff] at hb ⊢; omega
      simp [this]
    | some x =>
      obtain ⟨y, hy, _, hst⟩ := hp j x hb
      simp [hy, hst]
  have hpc : ∀ (x y : Chain.Inst), y.pred = x.pred → Chain.predClosed b x = Chain.predClosed a y := by
    intro x y hxy
    unfold Chain.predClosed
    rw [hxy]; cases x.pred <;> simp [hcl]
  refine ⟨?_, ?_, ?_, ?_, ?_, ?_, ?_, ?_⟩
  · intro i x p hx hxp
    obtain ⟨y, hy, hpr, _⟩ := hp i x hx
    exact h.predLt i y p hy (hpr ▸ hxp)
  · intro l hl'; rw [hlen]; exact h.lastLt l (hl ▸ hl')
  · intro i x hx hs
    obtain ⟨y, hy, hpr, hst⟩ := hp i x hx
    rw [hpc x y hpr]; exact h.started i y hy (hst ▸ hs)
  · intro i x hx hxp j hj
    obtain ⟨y, hy, hpr, _⟩ := hp i x hx
    rw [hcl]; exact h.gapNone i y hy (hpr ▸ hxp) j hj
  · intro i x p hx hxp j hj1 hj2
    obtain ⟨y, hy, hpr, _⟩ := hp i x hx
    rw [hcl]; exact h.gapSome i y p hy (hpr ▸ hxp) j hj1 hj2
  · intro hn j hj; rw [hcl]; exact h.topNone (hl ▸ hn) j (hlen ▸ hj)
  · intro l hl' j hj1 hj2; rw [hcl]; exact h.topSome l (hl ▸ hl') j hj1 (hlen ▸ hj2)
  · intro i hi j hj; rw [hcl] at hi ⊢; exact h.down i hi j hj

theorem chainSlot_get (s : St) (j : Nat) :
    (chainSlot s).insts[j]? = (s.calls[j]?).map (·.ci) := by
  simp [chainSlot]

/-- a state whose calls agree with `s` on `pred`/`st` pointwise, same `waitCh` -/
theorem chain_of_pointwise (s s' : St) (h : Chain.Inv (chainSlot s)) (hw : s'.waitCh = s.waitCh)
    (hlen : s'.calls.length = s.calls.length)
    (hp : ∀ (j : Nat) (c' : Call), s'.calls[j]? = some c' →
      ∃ c, s.calls[j]? = some c ∧ c.ci.pred = c'.ci.pred ∧ c.ci.st = c'.ci.st) :
    Chain.Inv (chainSlot s') := by
  refine chain_congr (chainSlot s) (chainSlot s') h hw (by simp [chainSlot, hlen]) ?_
  intro j x hx
  rw [chainSlot_get] at hx
  cases hc : s'.calls[j]? with
  | none => simp [hc] at hx
  | some c' =>
    simp [hc] at hx
    obtain ⟨c, h1, h2, h3⟩ := hp j c' hc
    exact ⟨c.ci, by simp [chainSlot_get, h1], by rw [h2, hx], by rw [h3, hx]⟩

end UtilModel.RefCount
