import UtilModel.RefCount.Model
/-!
# refcount: algebra of the helper functions, the inductive invariant and its preservation
-/
namespace UtilModel.RefCount
open UtilModel

/-! ## `shutdown` field by field -/

/-- what `shutdown` does to resolver call `i`: cancels it if it is the one `resolveCtxCancel`
belongs to, marks it released if `valueRel` is its release function -/
def updCall (s : St) (i : Nat) (c : Call) : Call :=
  { c with ci := { c.ci with cancelled := c.ci.cancelled || (s.rcancel == some i) }
           released := c.released || (s.rel == some i) }

theorem cancelCall_get (cs : List Call) (i j : Nat) :
    (cancelCall cs i)[j]? = (cs[j]?).map fun c =>
      if i = j then { c with ci := { c.ci with cancelled := true } } else c := by
  unfold cancelCall
  cases h : cs[i]? with
  | none =>
    by_cases hij : i = j
    · subst hij; simp [h]
    · simp [hij]
  | some c =>
    simp only [List.getElem?_set]
    by_cases hij : i = j
    · subst hij; rw [h]; simp [lt_of_getElem? h]
    · simp [hij]

theorem markReleased_get (cs : List Call) (i j : Nat) :
    (markReleased cs i)[j]? = (cs[j]?).map fun c =>
      if i = j then { c with released := true } else c := by
  unfold markReleased
  cases h : cs[i]? with
  | none =>
    by_cases hij : i = j
    · subst hij; simp [h]
    · simp [hij]
  | some c =>
    simp only [List.getElem?_set]
    by_cases hij : i = j
    · subst hij; rw [h]; simp [lt_of_getElem? h]
    · simp [hij]

theorem shutdown_calls (s : St) (j : Nat) :
    (shutdown s).calls[j]? = (s.calls[j]?).map (updCall s j) := by
  unfold shutdown clearResolved
  cases hr : s.rcancel <;> cases hl : s.rel <;> cases hres : s.resolved <;>
    simp [hr, hl, hres, cancelCall_get, markReleased_get] <;>
    cases s.calls[j]? <;> simp [updCall, hr, hl] <;> (repeat' split) <;> (try simp_all)
