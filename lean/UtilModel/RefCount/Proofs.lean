import UtilModel.RefCount.Model
/-!
# refcount: algebra of the helper functions, the inductive invariant and its preservation
-/
set_option linter.unusedSimpArgs false
set_option linter.unusedVariables false
namespace UtilModel.RefCount
open UtilModel

/-! ## `shutdown` field by field -/

/-- what `shutdown` does to resolver call `i`: cancels it if it is the one `resolveCtxCancel`
belongs to, marks it released if `valueRel` is its release function -/
def updCall (s : St) (i : Nat) (c : Call) : Call :=
  { c with ci := { c.ci with cancelled := c.ci.cancelled || (s.rcancel == some i) }
           released := c.released || (s.rel == some i) }

theorem cancelCall_get (cs : List Call) (i j : Nat) :
    (cancelCall cs i)[j]? = (cs[j]?).map fun c =>
      if i = j then { c with ci := { c.ci with cancelled := true } } else c := by
  unfold cancelCall
  cases h : cs[i]? with
  | none =>
    by_cases hij : i = j
    · subst hij; simp [h]
    · simp [hij]
  | some c =>
    simp only [List.getElem?_set]
    by_cases hij : i = j
    · subst hij; rw [h]; simp [lt_of_getElem? h]
    · simp [hij]

theorem markReleased_get (cs : List Call) (i j : Nat) :
    (markReleased cs i)[j]? = (cs[j]?).map fun c =>
      if i = j then { c with released := true } else c := by
  unfold markReleased
  cases h : cs[i]? with
  | none =>
    by_cases hij : i = j
    · subst hij; simp [h]
    · simp [hij]
  | some c =>
    simp only [List.getElem?_set]
    by_cases hij : i = j
    · subst hij; rw [h]; simp [lt_of_getElem? h]
    · simp [hij]

theorem shutdown_calls (s : St) (j : Nat) :
    (shutdown s).calls[j]? = (s.calls[j]?).map (updCall s j) := by
  unfold shutdown clearResolved
  cases hr : s.rcancel <;> cases hl : s.rel <;> cases hres : s.resolved <;>
    simp [hr, hl, hres, cancelCall_get, markReleased_get] <;>
    cases s.calls[j]? <;> simp [updCall, hr, hl] <;> (repeat' split) <;>
    (try simp_all) <;> (try (simp [beq_false_of_ne, *]))

@[simp] theorem shutdown_nonce (s : St) : (shutdown s).nonce = s.nonce + 1 := by
  unfold shutdown clearResolved
  cases s.rcancel <;> cases s.rel <;> cases hres : s.resolved <;> simp [hres]

@[simp] theorem shutdown_resolved (s : St) : (shutdown s).resolved = false := by
  unfold shutdown clearResolved
  cases s.rcancel <;> cases s.rel <;> cases hres : s.resolved <;> simp [hres]

@[simp] theorem shutdown_cur (s : St) : (shutdown s).cur = if s.resolved then none else s.cur := by
  unfold shutdown clearResolved
  cases s.rcancel <;> cases s.rel <;> cases hres : s.resolved <;> simp [hres]

@[simp] theorem shutdown_rel (s : St) : (shutdown s).rel = none := by
  unfold shutdown clearResolved
  cases s.rcancel <;> cases s.rel <;> cases hres : s.resolved <;> simp [hres]

@[simp] theorem shutdown_rcancel (s : St) : (shutdown s).rcancel = none := by
  unfold shutdown clearResolved
  cases s.rcancel <;> cases s.rel <;> cases hres : s.resolved <;> simp [hres]

@[simp] theorem shutdown_value (s : St) : (shutdown s).value = if s.resolved then 0 else s.value := by
  unfold shutdown clearResolved
  cases s.rcancel <;> cases s.rel <;> cases hres : s.resolved <;> simp [hres]

@[simp] theorem shutdown_verr (s : St) : (shutdown s).verr = if s.resolved then 0 else s.verr := by
  unfold shutdown clearResolved
  cases s.rcancel <;> cases s.rel <;> cases hres : s.resolved <;> simp [hres]

@[simp] theorem shutdown_ctx (s : St) : (shutdown s).ctx = s.ctx := by
  unfold shutdown clearResolved
  cases s.rcancel <;> cases s.rel <;> cases hres : s.resolved <;> simp [hres]

@[simp] theorem shutdown_keep (s : St) : (shutdown s).keep = s.keep := by
  unfold shutdown clearResolved
  cases s.rcancel <;> cases s.rel <;> cases hres : s.resolved <;> simp [hres]

@[simp] theorem shutdown_tgt (s : St) : (shutdown s).tgt = s.tgt := by
  unfold shutdown clearResolved
  cases s.rcancel <;> cases s.rel <;> cases hres : s.resolved <;> simp [hres]

@[simp] theorem shutdown_dead (s : St) : (shutdown s).dead = s.dead := by
  unfold shutdown clearResolved
  cases s.rcancel <;> cases s.rel <;> cases hres : s.resolved <;> simp [hres]

@[simp] theorem shutdown_waitCh (s : St) : (shutdown s).waitCh = s.waitCh := by
  unfold shutdown clearResolved
  cases s.rcancel <;> cases s.rel <;> cases hres : s.resolved <;> simp [hres]

@[simp] theorem shutdown_ninv (s : St) : (shutdown s).ninv = s.ninv := by
  unfold shutdown clearResolved
  cases s.rcancel <;> cases s.rel <;> cases hres : s.resolved <;> simp [hres]

@[simp] theorem shutdown_relRuns (s : St) : (shutdown s).relRuns = s.relRuns := by
  unfold shutdown clearResolved
  cases s.rcancel <;> cases s.rel <;> cases hres : s.resolved <;> simp [hres]

@[simp] theorem shutdown_owner (s : St) : (shutdown s).owner = s.owner := by
  unfold shutdown clearResolved
  cases s.rcancel <;> cases s.rel <;> cases hres : s.resolved <;> simp [hres]

@[simp] theorem shutdown_cfgd (s : St) : (shutdown s).cfgd = s.cfgd := by
  unfold shutdown clearResolved
  cases s.rcancel <;> cases s.rel <;> cases hres : s.resolved <;> simp [hres]

@[simp] theorem shutdown_panic (s : St) : (shutdown s).panic = s.panic := by
  unfold shutdown clearResolved
  cases s.rcancel <;> cases s.rel <;> cases hres : s.resolved <;> simp [hres]

@[simp] theorem shutdown_th (s : St) : (shutdown s).th = if s.resolved then tellAll s.th none else s.th := by
  unfold shutdown clearResolved
  cases s.rcancel <;> cases s.rel <;> cases hres : s.resolved <;> simp [hres]

@[simp] theorem shutdown_target (s : St) : (shutdown s).target = if s.resolved ∧ s.value ≠ 0 ∧ s.tgt then 0 else s.target := by
  unfold shutdown clearResolved
  cases s.rcancel <;> cases s.rel <;> cases hres : s.resolved <;> simp [hres]

@[simp] theorem shutdown_targetErr (s : St) : (shutdown s).targetErr = if s.resolved ∧ s.verr ≠ 0 ∧ s.tgt then 0 else s.targetErr := by
  unfold shutdown clearResolved
  cases s.rcancel <;> cases s.rel <;> cases hres : s.resolved <;> simp [hres]

theorem shutdown_calls_length (s : St) : (shutdown s).calls.length = s.calls.length := by
  unfold shutdown clearResolved cancelCall markReleased
  cases s.rcancel <;> cases s.rel <;> cases hres : s.resolved <;> simp [hres] <;>
    (repeat' split) <;> simp


/-! ## the invariant -/

/-- projection to the hand-over chain of `Core/Chain.lean`: slot = the RefCount, `last = waitCh` -/
def chainSlot (s : St) : Chain.Slot := { insts := s.calls.map (·.ci), last := s.waitCh }

/-- the part of the invariant that does not mention the context or the reference count; it is kept
by the intermediate states inside a critical section -/
structure Core (s : St) : Prop where
  pre      : s.cfgd = false → s.th = [] ∧ s.calls = []
  chain    : Chain.Inv (chainSlot s)
  nonceLe  : ∀ i c, s.calls[i]? = some c → c.nonce ≤ s.nonce
  nonceLt  : ∀ i j ci cj, s.calls[i]? = some ci → s.calls[j]? = some cj → i < j → ci.nonce < cj.nonce
  lastCh   : ∀ l, s.waitCh = some l ↔ l + 1 = s.calls.length
  resCur   : s.resolved = s.cur.isSome
  curSome  : ∀ i, s.cur = some i → ∃ c h, s.calls[i]? = some c ∧ c.nonce = s.nonce ∧ c.stored = true ∧
               c.fin = true ∧ c.res = some (s.value, h, s.verr) ∧ s.rel = (if h then some i else none) ∧
               (h = true → c.released = false)
  curNone  : s.cur = none → s.rel = none ∧ s.value = 0 ∧ s.verr = 0
  tgtVal   : s.target = if s.tgt ∧ s.verr = 0 then s.value else 0
  tgtErr   : s.targetErr = if s.tgt then s.verr else 0
  relFin   : ∀ i c, s.calls[i]? = some c → c.released = true → c.fin = true ∧ ∃ v e, c.res = some (v, true, e)
  storedFin : ∀ i c, s.calls[i]? = some c → c.stored = true → c.fin = true ∧ c.res.isSome
  noLeak   : ∀ i c v e, s.calls[i]? = some c → c.fin = true → c.res = some (v, true, e) →
               c.released = false → s.rel = some i
  finSt    : ∀ i c, s.calls[i]? = some c →
               (c.fin = true → c.ci.st = .returned ∨ c.ci.st = .closed) ∧ (c.ci.st = .closed → c.fin = true)
  resSt    : ∀ i c, s.calls[i]? = some c → c.res.isSome → c.ci.st = .returned ∨ c.ci.st = .closed
  told     : ∀ a k pc f sf t, s.th[a]? = some (.ref k pc true f sf t) → k ≠ .nil → t = s.cur
  rcFresh  : ∀ i, s.rcancel = some i → ∃ c, s.calls[i]? = some c ∧ c.nonce = s.nonce
  panicF   : s.panic = false
  pendNE   : ∀ b ∈ s.pend, b ≠ []
  deadC    : ∀ i c, s.calls[i]? = some c → s.dead.contains c.root = true → c.ci.cancelled = true

/-- the part that ties the current resolver call to the context and the reference count -/
structure Live (s : St) : Prop where
  fresh : ∀ i c, s.calls[i]? = some c → c.nonce = s.nonce →
            c.root = s.ctx ∧ s.ctx ≠ 0 ∧ s.rcancel = some i ∧
            (c.ci.cancelled = true → s.dead.contains s.ctx = true) ∧
            (c.fin = false → 0 < liveRefs s) ∧ (c.fin = true → c.res.isSome → s.cur = some i)
  prog  : s.ctx ≠ 0 → 0 < liveRefs s →
            s.resolved = true ∨ ∃ i c, s.calls[i]? = some c ∧ c.nonce = s.nonce
  kept  : s.resolved = true → (0 < liveRefs s ∨ (s.keep = true ∧ s.verr = 0)) ∧ s.ctx ≠ 0

structure Inv (s : St) : Prop where
  core : Core s
  live : Live s

theorem init_inv : Inv ({} : St) := by
  refine ⟨⟨?_, ?_, ?_, ?_, ?_, ?_, ?_, ?_, ?_, ?_, ?_, ?_, ?_, ?_, ?_, ?_, ?_, ?_, ?_, ?_⟩, ⟨?_, ?_, ?_⟩⟩
  all_goals (try (intros; simp_all; done))
  · exact Chain.init_inv
  · intro l; simp; omega
  · simp [liveRefs]

end UtilModel.RefCount
