import UtilModel.RefCount.ConsBase
/-!
# refcount: the generation changes only in four kinds of critical sections
-/
set_option linter.unusedSimpArgs false
set_option linter.unusedVariables false
namespace UtilModel.RefCount
open UtilModel

theorem afterRemove_nonce_cases (s0 : St) :
    (afterRemove s0).nonce = s0.nonce ∨ liveRefs (afterRemove s0) = 0 := by
  unfold afterRemove
  split
  · rename_i hz
    split
    · right; simp [hz]
    · left; rfl
  · left; rfl

theorem liveRefs_startResolve (s0 : St) : liveRefs (startResolve s0) = liveRefs s0 := by
  rw [startResolve_eq]; split
  · simp
  · have : ∀ s1 : St, liveRefs (spawned s1) = liveRefs s1 := fun s1 => rfl
    rw [this]; simp

/-- the generation changes only by a context change, a `released()` section, the release of the last
reference, or the `AddRef` that makes the first reference -/
theorem nonce_cases (s s' : St) (e : Ev) (hs : step s e = some s') (hn : s'.nonce ≠ s.nonce) :
    (∃ a, e = .setCtxCS a) ∨ (∃ j, e = .relRun j) ∨
    ((∃ b, e = .relCS b ∨ e = .selfRelCS b) ∧ liveRefs s' = 0) ∨
    (∃ a, e = .addRefCS a ∧ liveRefs s' = 1) := by
  cases e with
  | setCtxCS a => exact Or.inl ⟨a, rfl⟩
  | relRun j => exact Or.inr (Or.inl ⟨j, rfl⟩)
  | relCS b =>
    refine Or.inr (Or.inr (Or.inl ⟨⟨b, Or.inl rfl⟩, ?_⟩))
    simp only [step] at hs; split at hs <;> try simp at hs
    split at hs <;> try simp at hs
    case h_2 => obtain ⟨_, rfl⟩ := hs; exact absurd rfl hn
    obtain ⟨_, rfl⟩ := hs
    rcases afterRemove_nonce_cases _ with h | h
    · exact absurd h hn
    · exact h
  | selfRelCS a =>
    refine Or.inr (Or.inr (Or.inl ⟨⟨a, Or.inr rfl⟩, ?_⟩))
    simp only [step] at hs; split at hs <;> try simp at hs
    obtain ⟨_, rfl⟩ := hs
    rcases afterRemove_nonce_cases _ with h | h
    · exact absurd h hn
    · exact h
  | addRefCS a =>
    refine Or.inr (Or.inr (Or.inr ⟨a, rfl, ?_⟩))
    simp only [step] at hs; split at hs <;> try simp at hs
    obtain ⟨_, hs⟩ := hs
    split at hs
    · rename_i hc
      simp at hs; subst hs
      rw [liveRefs_startResolve]; exact hc.1
    · split at hs <;> simp at hs <;> subst hs <;> exact absurd rfl hn
  | cfg kp c t => simp only [step] at hs; split at hs <;> simp at hs; subst hs; exact absurd rfl hn
  | invAddRef a kd => simp only [step] at hs; split at hs <;> simp at hs; subst hs; exact absurd rfl hn
  | invHook a => simp only [step] at hs; split at hs <;> simp at hs; subst hs; exact absurd rfl hn
  | retAddRef a =>
    simp only [step] at hs; split at hs <;> try simp at hs
    obtain ⟨_, rfl⟩ := hs; exact absurd rfl hn
  | invRelease b r =>
    simp only [step] at hs; split at hs <;> try simp at hs
    split at hs <;> try simp at hs
    subst hs; exact absurd rfl hn
  | relSwap b =>
    simp only [step] at hs; split at hs <;> try simp at hs
    split at hs <;> simp at hs <;> subst hs <;> exact absurd rfl hn
  | retRelease b =>
    simp only [step] at hs; split at hs <;> try simp at hs
    obtain ⟨_, rfl⟩ := hs; exact absurd rfl hn
  | selfRelSwap a =>
    simp only [step] at hs; split at hs <;> try simp at hs
    obtain ⟨_, hs⟩ := hs
    split at hs <;> simp at hs <;> subst hs <;> exact absurd rfl hn
  | invSetCtx a c cl => simp only [step] at hs; split at hs <;> simp at hs; subst hs; exact absurd rfl hn
  | retSetCtx a u =>
    simp only [step] at hs; split at hs <;> try simp at hs
    obtain ⟨_, rfl⟩ := hs; exact absurd rfl hn
  | envCancelCtx c => simp only [step] at hs; split at hs <;> simp at hs; subst hs; exact absurd rfl hn
  | envReleased k => simp only [step] at hs; split at hs <;> simp at hs; subst hs; exact absurd rfl hn
  | quiesce B => simp only [step] at hs; split at hs <;> simp at hs; subst hs; exact absurd rfl hn
  | probe v er => simp only [step] at hs; split at hs <;> simp at hs; subst hs; exact absurd rfl hn
  | cb it =>
    simp only [step] at hs; split at hs <;> try simp at hs
    obtain ⟨_, rfl⟩ := hs; exact absurd rfl hn
  | enter j k =>
    simp only [step] at hs; split at hs <;> try simp at hs
    obtain ⟨_, rfl⟩ := hs; exact absurd rfl hn
  | giveUp j =>
    simp only [step] at hs; split at hs <;> try simp at hs
    obtain ⟨_, rfl⟩ := hs; exact absurd rfl hn
  | drained j =>
    simp only [step] at hs; split at hs <;> try simp at hs
    obtain ⟨_, rfl⟩ := hs; exact absurd rfl hn
  | leave j k v hr er =>
    simp only [step] at hs; split at hs <;> try simp at hs
    obtain ⟨_, rfl⟩ := hs; exact absurd rfl hn
  | done j =>
    simp only [step] at hs; split at hs <;> try simp at hs
    obtain ⟨_, rfl⟩ := hs; exact absurd rfl hn
  | store j =>
    simp only [step] at hs; split at hs <;> try simp at hs
    split at hs <;> try simp at hs
    obtain ⟨_, hs⟩ := hs
    split at hs
    · simp at hs; subst hs; exact absurd rfl hn
    · split at hs <;> simp at hs <;> subst hs <;> exact absurd rfl hn

end UtilModel.RefCount
