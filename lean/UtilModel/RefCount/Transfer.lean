import UtilModel.Core.LTSHash
import UtilModel.Core.LTSComplete
import UtilModel.RefCount.Complete
import UtilModel.RefCount.ObsProg
import UtilModel.RefCount.ConsRelD
import UtilModel.RefCount.WrcProofs
/-!
# RefCount — end-to-end transfer, both directions

*ACCEPT*: if the driver's trace-inclusion decision accepts a history recorded from the Go
implementation, the property monitors accept that history (composition of `acceptsH_sound` with the
observable-form theorems `c08_obs`, `c09_obs`, `Cons.c10_obs`, `Cons.c08c_obs`, `Cons.c09c_obs`; for
`WaitRefCountContainer` see `C10_accepted_wrc` in WrcProofs.lean).

*REJECT*: the candidate lists of both models are complete (`Complete.lean`; no partial-order
reduction), so when the driver's run fails at an observable without having hit the exploration
bounds, no run of the model projects to the recorded history (`rejectH_sound`). For
`WaitRefCountContainer`: `complete_wrc`, `reject_sound_wrc` in WrcProofs.lean.
-/
namespace UtilModel

theorem C08_accepted_refcount (cap fuel : Nat) (h : List RefCount.Obs)
    (ha : RefCount.model.acceptsH cap fuel h = true) : RefCount.monC08.accepts h = true :=
  acceptedH_satisfies RefCount.model (fun h => RefCount.monC08.accepts h = true) RefCount.c08_obs cap fuel h ha

theorem C09_accepted_refcount (cap fuel : Nat) (h : List RefCount.Obs)
    (ha : RefCount.model.acceptsH cap fuel h = true) : RefCount.monC09.accepts h = true :=
  acceptedH_satisfies RefCount.model (fun h => RefCount.monC09.accepts h = true) RefCount.c09_obs cap fuel h ha

theorem C10_accepted_refcount_consumers (cap fuel : Nat) (h : List RefCount.Cons.CObs)
    (ha : RefCount.Cons.cmodel.acceptsH cap fuel h = true) : RefCount.Cons.monC10.accepts h = true :=
  acceptedH_satisfies RefCount.Cons.cmodel (fun h => RefCount.Cons.monC10.accepts h = true)
    RefCount.Cons.c10_obs cap fuel h ha

theorem C08c_accepted_refcount_consumers (cap fuel : Nat) (h : List RefCount.Cons.CObs)
    (ha : RefCount.Cons.cmodel.acceptsH cap fuel h = true) : RefCount.Cons.monC08c.accepts h = true :=
  acceptedH_satisfies RefCount.Cons.cmodel (fun h => RefCount.Cons.monC08c.accepts h = true)
    RefCount.Cons.c08c_obs cap fuel h ha

theorem C09c_accepted_refcount_consumers (cap fuel : Nat) (h : List RefCount.Cons.CObs)
    (ha : RefCount.Cons.cmodel.acceptsH cap fuel h = true) : RefCount.Cons.monC09c.accepts h = true :=
  acceptedH_satisfies RefCount.Cons.cmodel (fun h => RefCount.Cons.monC09c.accepts h = true)
    RefCount.Cons.c09c_obs cap fuel h ha

end UtilModel

/-! ## completeness of the candidate lists — a REJECT is about the model -/
namespace UtilModel

theorem complete_refcount : RefCount.model.Complete :=
  ⟨fun s e s' hs ho => RefCount.allInternal_complete s s' e hs ho,
   fun s e s' o hs ho => RefCount.evsOf_complete s s' e o hs ho⟩

theorem complete_refcount_consumers : RefCount.Cons.cmodel.Complete :=
  ⟨fun s e s' hs ho => RefCount.Cons.callInternal_complete s s' e hs ho,
   fun s e s' o hs ho => RefCount.Cons.cevsOf_complete s s' e o hs ho⟩

/-- **A REJECT of the `refcount` correspondence is about the model**: when the driver's run fails at
an observable without having hit the exploration bounds, no run of the RefCount model projects to
the recorded history. -/
theorem reject_sound_refcount (cap fuel : Nat) (h : List RefCount.Obs) (i : Nat)
    (hfail : (RefCount.model.accRunH cap fuel [RefCount.model.init] h 0 false 1).failedAt = some i)
    (htr : (RefCount.model.accRunH cap fuel [RefCount.model.init] h 0 false 1).truncated = false) :
    ¬ ∃ es s, RefCount.model.run RefCount.model.init es = some s ∧ es.filterMap RefCount.model.obs = h :=
  rejectH_sound RefCount.model complete_refcount cap fuel h i hfail htr

/-- **A REJECT of the `refcount-consumers` correspondence is about the model.** -/
theorem reject_sound_refcount_consumers (cap fuel : Nat) (h : List RefCount.Cons.CObs) (i : Nat)
    (hfail : (RefCount.Cons.cmodel.accRunH cap fuel [RefCount.Cons.cmodel.init] h 0 false 1).failedAt = some i)
    (htr : (RefCount.Cons.cmodel.accRunH cap fuel [RefCount.Cons.cmodel.init] h 0 false 1).truncated = false) :
    ¬ ∃ es s, RefCount.Cons.cmodel.run RefCount.Cons.cmodel.init es = some s ∧
      es.filterMap RefCount.Cons.cmodel.obs = h :=
  rejectH_sound RefCount.Cons.cmodel complete_refcount_consumers cap fuel h i hfail htr

end UtilModel
