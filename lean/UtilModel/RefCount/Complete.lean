import UtilModel.RefCount.Consumers
import UtilModel.Core.Count
import UtilModel.Core.LTSComplete
/-!
# refcount / refcount-consumers: the candidate lists are complete

Every enabled internal event of a state is in the model's candidate list, and every enabled
observable event is among the events the checker tries for its observable (`OLTS.Complete`): the
driver's search leaves out nothing, so by `rejectH_sound` a REJECT is a statement about the model.
(Neither model uses a partial-order reduction. The earlier candidate lists did — "ends of resolver
calls first", "only the first callback entry of a hook reference of the head batch" — and the second
of these was not sound: a consumer whose notification is still owed can take a step of its own — the
nonce re-check of `Access` — between two callback entries of the same batch, and that step does not
commute with its notification.)
-/
set_option linter.unusedSimpArgs false
set_option linter.unusedVariables false
namespace UtilModel.RefCount
open UtilModel

theorem mem_thread_evs (s : St) (a : Nat) (e : Ev) (ha : a < s.th.length)
    (he : e ∈ [Ev.addRefCS a, .relSwap a, .relCS a, .setCtxCS a, .selfRelSwap a, .selfRelCS a]) :
    e ∈ allInternal s := by
  unfold allInternal
  simp only [List.mem_append, List.mem_flatMap, List.mem_range]
  exact Or.inl (Or.inl (Or.inl ⟨a, ha, he⟩))

theorem mem_call_evs (s : St) (i : Nat) (e : Ev) (hi : i < s.calls.length)
    (he : e ∈ [Ev.giveUp i, .drained i, .store i, .done i]) : e ∈ allInternal s := by
  unfold allInternal
  simp only [List.mem_append, List.mem_flatMap, List.mem_range]
  exact Or.inl (Or.inl (Or.inr ⟨i, hi, he⟩))

/-- every enabled internal event of the RefCount model is in its candidate list -/
theorem allInternal_complete (s s' : St) (e : Ev) (hs : step s e = some s') (ho : e.obs = none) :
    e ∈ allInternal s := by
  cases e with
  | addRefCS a =>
    cases hx : s.th[a]? with
    | none => simp [step, hx] at hs
    | some t => exact mem_thread_evs s a _ (lt_of_getElem? hx) (by simp)
  | relSwap a =>
    cases hx : s.th[a]? with
    | none => simp [step, hx] at hs
    | some t => exact mem_thread_evs s a _ (lt_of_getElem? hx) (by simp)
  | relCS a =>
    cases hx : s.th[a]? with
    | none => simp [step, hx] at hs
    | some t => exact mem_thread_evs s a _ (lt_of_getElem? hx) (by simp)
  | setCtxCS a =>
    cases hx : s.th[a]? with
    | none => simp [step, hx] at hs
    | some t => exact mem_thread_evs s a _ (lt_of_getElem? hx) (by simp)
  | selfRelSwap a =>
    cases hx : s.th[a]? with
    | none => simp [step, hx] at hs
    | some t => exact mem_thread_evs s a _ (lt_of_getElem? hx) (by simp)
  | selfRelCS a =>
    cases hx : s.th[a]? with
    | none => simp [step, hx] at hs
    | some t => exact mem_thread_evs s a _ (lt_of_getElem? hx) (by simp)
  | giveUp i =>
    cases hx : s.calls[i]? with
    | none => simp [step, hx] at hs
    | some c => exact mem_call_evs s i _ (lt_of_getElem? hx) (by simp)
  | drained i =>
    cases hx : s.calls[i]? with
    | none => simp [step, hx] at hs
    | some c => exact mem_call_evs s i _ (lt_of_getElem? hx) (by simp)
  | store i =>
    cases hx : s.calls[i]? with
    | none => simp [step, hx] at hs
    | some c => exact mem_call_evs s i _ (lt_of_getElem? hx) (by simp)
  | done i =>
    cases hx : s.calls[i]? with
    | none => simp [step, hx] at hs
    | some c => exact mem_call_evs s i _ (lt_of_getElem? hx) (by simp)
  | relRun j =>
    cases hx : s.relRuns[j]? with
    | none => simp [step, hx] at hs
    | some i =>
      unfold allInternal
      simp only [List.mem_append, List.mem_map, List.mem_range]
      exact Or.inl (Or.inr ⟨j, lt_of_getElem? hx, rfl⟩)
  | cb it =>
    cases it with
    | rel i k seen => simp [Ev.obs] at ho
    | refcb r vis res v x =>
      cases vis with
      | true => simp [Ev.obs] at ho
      | false =>
        simp only [step] at hs
        cases hp : s.pend with
        | nil => simp [hp] at hs
        | cons b rest =>
          simp only [hp] at hs
          split at hs <;> simp at hs
          rename_i hmem
          unfold allInternal headBatch
          simp only [List.mem_append, List.mem_filterMap, hp]
          exact Or.inr ⟨_, hmem, rfl⟩
  | cfg k c t => simp [Ev.obs] at ho
  | invAddRef a k => simp [Ev.obs] at ho
  | retAddRef a => simp [Ev.obs] at ho
  | invRelease b r => simp [Ev.obs] at ho
  | retRelease b => simp [Ev.obs] at ho
  | invSetCtx a c cl => simp [Ev.obs] at ho
  | retSetCtx a u => simp [Ev.obs] at ho
  | envCancelCtx c => simp [Ev.obs] at ho
  | envReleased k => simp [Ev.obs] at ho
  | enter i k => simp [Ev.obs] at ho
  | leave i k v h x => simp [Ev.obs] at ho
  | invHook a => simp [Ev.obs] at ho
  | probe v x => simp [Ev.obs] at ho
  | quiesce B => simp [Ev.obs] at ho

/-- every enabled observable event of the RefCount model is tried for its observable -/
theorem evsOf_complete (s s' : St) (e : Ev) (o : Obs) (hs : step s e = some s') (ho : e.obs = some o) :
    e ∈ evsOf s o := by
  cases e with
  | cfg k c t => simp [Ev.obs] at ho; subst ho; simp [evsOf]
  | invAddRef a k => simp [Ev.obs] at ho; subst ho; simp [evsOf]
  | retAddRef a => simp [Ev.obs] at ho; subst ho; simp [evsOf]
  | invRelease b r => simp [Ev.obs] at ho; subst ho; simp [evsOf]
  | retRelease b => simp [Ev.obs] at ho; subst ho; simp [evsOf]
  | invSetCtx a c cl => simp [Ev.obs] at ho; subst ho; simp [evsOf]
  | retSetCtx a u => simp [Ev.obs] at ho; subst ho; simp [evsOf]
  | envCancelCtx c => simp [Ev.obs] at ho; subst ho; simp [evsOf]
  | envReleased k => simp [Ev.obs] at ho; subst ho; simp [evsOf]
  | invHook a => simp [Ev.obs] at ho; subst ho; simp [evsOf]
  | probe v x => simp [Ev.obs] at ho; subst ho; simp [evsOf]
  | quiesce B => simp [Ev.obs] at ho; subst ho; simp [evsOf]
  | enter i k =>
    simp [Ev.obs] at ho; subst ho
    cases hx : s.calls[i]? with
    | none => simp [step, hx] at hs
    | some c =>
      simp only [evsOf, List.mem_map, List.mem_range]
      exact ⟨i, lt_of_getElem? hx, rfl⟩
  | leave i k v h x =>
    simp [Ev.obs] at ho; subst ho
    cases hx : s.calls[i]? with
    | none => simp [step, hx] at hs
    | some c =>
      simp only [evsOf, List.mem_map, List.mem_range]
      exact ⟨i, lt_of_getElem? hx, rfl⟩
  | cb it =>
    simp only [step] at hs
    cases hp : s.pend with
    | nil => simp [hp] at hs
    | cons b rest =>
      simp only [hp] at hs
      split at hs <;> simp at hs
      rename_i hmem
      cases it with
      | rel i k seen =>
        simp [Ev.obs] at ho; subst ho
        simp only [evsOf, headBatch, hp, List.mem_filterMap]
        exact ⟨_, hmem, by simp⟩
      | refcb r vis res v x =>
        cases vis with
        | false => simp [Ev.obs] at ho
        | true => simp [Ev.obs] at ho; subst ho; simp [evsOf]
  | addRefCS a => simp [Ev.obs] at ho
  | relSwap a => simp [Ev.obs] at ho
  | relCS a => simp [Ev.obs] at ho
  | setCtxCS a => simp [Ev.obs] at ho
  | selfRelSwap a => simp [Ev.obs] at ho
  | selfRelCS a => simp [Ev.obs] at ho
  | giveUp i => simp [Ev.obs] at ho
  | drained i => simp [Ev.obs] at ho
  | store i => simp [Ev.obs] at ho
  | done i => simp [Ev.obs] at ho
  | relRun j => simp [Ev.obs] at ho

namespace Cons

/-- a base event of the composed model is a step of the base model -/
theorem cstep_base_some (s s' : CSt) (be : Ev) (hs : cstep s (.base be) = some s') :
    ∃ b', step s.b be = some b' := by
  cases hst : step s.b be with
  | some b' => exact ⟨b', rfl⟩
  | none =>
    exfalso
    cases be with
    | cb it =>
      cases it with
      | rel i k seen => simp [cstep, hst] at hs
      | refcb r vis res v x => cases vis <;> simp [cstep, hst] at hs
    | _ => simp [cstep, hst] at hs

theorem getCon_lt' (s : CSt) (a : Nat) (c : Con) (h : getCon s a = some c) : a < s.ct.length := by
  unfold getCon at h
  cases hx : s.ct[a]? with
  | none => simp [hx] at h
  | some y => exact lt_of_getElem? hx

theorem mem_con_evs (s : CSt) (a : Nat) (e : CEv) (ha : a < s.ct.length)
    (he : e ∈ [CEv.snap a, .watch a, .check a, .recheck a, .waitCancel a, .await a, .awaitCancel a, .goRel a]) :
    e ∈ callInternal s := by
  unfold callInternal
  simp only [List.mem_append, List.mem_flatMap, List.mem_range]
  exact Or.inr ⟨a, ha, he⟩

/-- every enabled internal event of the composed model is in its candidate list -/
theorem callInternal_complete (s s' : CSt) (e : CEv) (hs : cstep s e = some s') (ho : CEv.obs e = none) :
    e ∈ callInternal s := by
  cases e with
  | base be =>
    obtain ⟨b', hb⟩ := cstep_base_some s s' be hs
    have hob : Ev.obs be = none := by
      cases hx : Ev.obs be with
      | none => rfl
      | some o => simp [CEv.obs, hx] at ho
    unfold callInternal
    simp only [List.mem_append, List.mem_map]
    exact Or.inl ⟨be, allInternal_complete s.b b' be hb hob, rfl⟩
  | snap a =>
    cases hc : getCon s a with
    | none => simp [cstep, hc] at hs
    | some c => exact mem_con_evs s a _ (getCon_lt' s a c hc) (by simp)
  | watch a =>
    cases hc : getCon s a with
    | none => simp [cstep, hc] at hs
    | some c => exact mem_con_evs s a _ (getCon_lt' s a c hc) (by simp)
  | check a =>
    cases hc : getCon s a with
    | none => simp [cstep, hc] at hs
    | some c => exact mem_con_evs s a _ (getCon_lt' s a c hc) (by simp)
  | recheck a =>
    cases hc : getCon s a with
    | none => simp [cstep, hc] at hs
    | some c => exact mem_con_evs s a _ (getCon_lt' s a c hc) (by simp)
  | waitCancel a =>
    cases hc : getCon s a with
    | none => simp [cstep, hc] at hs
    | some c => exact mem_con_evs s a _ (getCon_lt' s a c hc) (by simp)
  | await a =>
    cases hc : getCon s a with
    | none => simp [cstep, hc] at hs
    | some c => exact mem_con_evs s a _ (getCon_lt' s a c hc) (by simp)
  | awaitCancel a =>
    cases hc : getCon s a with
    | none => simp [cstep, hc] at hs
    | some c => exact mem_con_evs s a _ (getCon_lt' s a c hc) (by simp)
  | goRel a =>
    cases hc : getCon s a with
    | none => simp [cstep, hc] at hs
    | some c => exact mem_con_evs s a _ (getCon_lt' s a c hc) (by simp)
  | inv a op => simp [CEv.obs] at ho
  | cbin a m v => simp [CEv.obs] at ho
  | cbout a m r => simp [CEv.obs] at ho
  | ret a v x => simp [CEv.obs] at ho
  | envCancelCall a => simp [CEv.obs] at ho
  | goCb a => simp [CEv.obs] at ho
  | probeCtx a m c => simp [CEv.obs] at ho
  | probeProm a h v x => simp [CEv.obs] at ho
  | probe v x => simp [CEv.obs] at ho
  | quiesce B => simp [CEv.obs] at ho

/-- every enabled observable event of the composed model is tried for its observable -/
theorem cevsOf_complete (s s' : CSt) (e : CEv) (o : CObs) (hs : cstep s e = some s') (ho : CEv.obs e = some o) :
    e ∈ cevsOf s o := by
  cases e with
  | base be =>
    obtain ⟨b', hb⟩ := cstep_base_some s s' be hs
    cases hx : Ev.obs be with
    | none => simp [CEv.obs, hx] at ho
    | some bo =>
      simp [CEv.obs, hx] at ho; subst ho
      have hmem := evsOf_complete s.b b' be bo hb hx
      -- `probe` / `quiesce` of the base model are not events of the composed model
      cases be with
      | probe v x => simp [cstep] at hs
      | quiesce B => simp [cstep] at hs
      | cb it =>
        cases it with
        | rel i k seen =>
          simp [Ev.obs] at hx; subst hx
          simp only [cevsOf, List.mem_map]; exact ⟨_, hmem, rfl⟩
        | refcb r vis res v x =>
          cases vis with
          | false => simp [Ev.obs] at hx
          | true =>
            simp [Ev.obs] at hx; subst hx
            simp only [cevsOf, List.mem_map]; exact ⟨_, hmem, rfl⟩
      | cfg k c t => simp [Ev.obs] at hx; subst hx; simp only [cevsOf, List.mem_map]; exact ⟨_, hmem, rfl⟩
      | invAddRef a k => simp [Ev.obs] at hx; subst hx; simp only [cevsOf, List.mem_map]; exact ⟨_, hmem, rfl⟩
      | retAddRef a => simp [Ev.obs] at hx; subst hx; simp only [cevsOf, List.mem_map]; exact ⟨_, hmem, rfl⟩
      | invRelease b r => simp [Ev.obs] at hx; subst hx; simp only [cevsOf, List.mem_map]; exact ⟨_, hmem, rfl⟩
      | retRelease b => simp [Ev.obs] at hx; subst hx; simp only [cevsOf, List.mem_map]; exact ⟨_, hmem, rfl⟩
      | invSetCtx a c cl => simp [Ev.obs] at hx; subst hx; simp only [cevsOf, List.mem_map]; exact ⟨_, hmem, rfl⟩
      | retSetCtx a u => simp [Ev.obs] at hx; subst hx; simp only [cevsOf, List.mem_map]; exact ⟨_, hmem, rfl⟩
      | envCancelCtx c => simp [Ev.obs] at hx; subst hx; simp only [cevsOf, List.mem_map]; exact ⟨_, hmem, rfl⟩
      | envReleased k => simp [Ev.obs] at hx; subst hx; simp only [cevsOf, List.mem_map]; exact ⟨_, hmem, rfl⟩
      | enter i k => simp [Ev.obs] at hx; subst hx; simp only [cevsOf, List.mem_map]; exact ⟨_, hmem, rfl⟩
      | leave i k v h x => simp [Ev.obs] at hx; subst hx; simp only [cevsOf, List.mem_map]; exact ⟨_, hmem, rfl⟩
      | invHook a => simp [cstep] at hs
      | addRefCS a => simp [Ev.obs] at hx
      | relSwap a => simp [Ev.obs] at hx
      | relCS a => simp [Ev.obs] at hx
      | setCtxCS a => simp [Ev.obs] at hx
      | selfRelSwap a => simp [Ev.obs] at hx
      | selfRelCS a => simp [Ev.obs] at hx
      | giveUp i => simp [Ev.obs] at hx
      | drained i => simp [Ev.obs] at hx
      | store i => simp [Ev.obs] at hx
      | done i => simp [Ev.obs] at hx
      | relRun j => simp [Ev.obs] at hx
  | inv a op => simp [CEv.obs] at ho; subst ho; simp [cevsOf]
  | cbin a m v => simp [CEv.obs] at ho; subst ho; simp [cevsOf]
  | cbout a m r => simp [CEv.obs] at ho; subst ho; simp [cevsOf]
  | ret a v x => simp [CEv.obs] at ho; subst ho; simp [cevsOf]
  | envCancelCall a => simp [CEv.obs] at ho; subst ho; simp [cevsOf]
  | goCb a => simp [CEv.obs] at ho; subst ho; simp [cevsOf]
  | probeCtx a m c => simp [CEv.obs] at ho; subst ho; simp [cevsOf]
  | probeProm a h v x => simp [CEv.obs] at ho; subst ho; simp [cevsOf]
  | probe v x => simp [CEv.obs] at ho; subst ho; simp [cevsOf]
  | quiesce B => simp [CEv.obs] at ho; subst ho; simp [cevsOf]
  | snap a => simp [CEv.obs] at ho
  | watch a => simp [CEv.obs] at ho
  | check a => simp [CEv.obs] at ho
  | recheck a => simp [CEv.obs] at ho
  | waitCancel a => simp [CEv.obs] at ho
  | await a => simp [CEv.obs] at ho
  | awaitCancel a => simp [CEv.obs] at ho
  | goRel a => simp [CEv.obs] at ho

end Cons
end UtilModel.RefCount
