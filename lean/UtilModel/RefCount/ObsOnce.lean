import UtilModel.RefCount.Frame
/-!
# refcount: C08 "at most once" in observable form — every trace of the model is accepted by `monOnce`
-/
set_option linter.unusedSimpArgs false
set_option linter.unusedVariables false
namespace UtilModel.RefCount
open UtilModel

/-- entry numbers: allocated in order, never reused, set when the call enters the resolver -/
structure Idx (s : St) : Prop where
  lt : ∀ (i : Nat) (c : Call) (k : Nat), s.calls[i]? = some c → c.inv = some k → k < s.ninv
  inj : ∀ (i j : Nat) (ci cj : Call) (k : Nat), s.calls[i]? = some ci → s.calls[j]? = some cj →
    ci.inv = some k → cj.inv = some k → i = j
  wait : ∀ (i : Nat) (c : Call), s.calls[i]? = some c → c.ci.st = .waiting → c.inv = none
  res : ∀ (i : Nat) (c : Call), s.calls[i]? = some c → c.res.isSome → c.inv.isSome

theorem idx_init : Idx ({} : St) := by
  refine ⟨?_, ?_, ?_, ?_⟩ <;> intros <;> simp_all

theorem idx_step (s s' : St) (e : Ev) (hx : Idx s) (hs : step s e = some s') : Idx s' := by
  obtain ⟨f1, f2, f3⟩ := calls_frame s s' e hs
  have hninv : s.ninv ≤ s'.ninv := by rcases f3 with ⟨h, _⟩ | ⟨h, _⟩ <;> omega
  -- the entry number of a call of s', traced back
  have back : ∀ (j : Nat) (c' : Call) (k : Nat), s'.calls[j]? = some c' → c'.inv = some k →
      (∃ c, s.calls[j]? = some c ∧ c.inv = some k) ∨ (k = s.ninv ∧ s'.ninv = s.ninv + 1) := by
    intro j c' k hc' hk
    rcases f1 j c' hc' with ⟨c, hc, ⟨h1, _⟩⟩ | ⟨_, h, _⟩
    · rcases h1 with h1 | ⟨_, h1, he⟩
      · left; exact ⟨c, hc, by rw [← h1]; exact hk⟩
      · right
        rw [h1] at hk; cases hk
        rcases f3 with ⟨_, h3⟩ | ⟨h3, _⟩
        · exact absurd he (h3 j)
        · exact ⟨rfl, h3⟩
    · rw [h] at hk; cases hk
  refine ⟨?_, ?_, ?_, ?_⟩
  · intro j c' k hc' hk
    rcases back j c' k hc' hk with ⟨c, hc, hck⟩ | ⟨h1, h2⟩
    · have := hx.lt j c k hc hck; omega
    · omega
  · intro i j ci cj k hi hj hki hkj
    rcases back i ci k hi hki with ⟨c1, h1, g1⟩ | ⟨g1, g1'⟩ <;>
      rcases back j cj k hj hkj with ⟨c2, h2, g2⟩ | ⟨g2, g2'⟩
    · exact hx.inj i j c1 c2 k h1 h2 g1 g2
    · have := hx.lt i c1 k h1 g1; omega
    · have := hx.lt j c2 k h2 g2; omega
    · -- both set by this very event: it names one call
      rcases f1 i ci hi with ⟨c1, h1, ⟨a1, _⟩⟩ | ⟨_, h, _⟩
      · rcases f1 j cj hj with ⟨c2, h2, ⟨a2, _⟩⟩ | ⟨_, h, _⟩
        · rcases a1 with a1 | ⟨_, _, e1⟩
          · have := hx.lt i c1 k h1 (by rw [← a1]; exact hki); omega
          · rcases a2 with a2 | ⟨_, _, e2⟩
            · have := hx.lt j c2 k h2 (by rw [← a2]; exact hkj); omega
            · rw [e1] at e2; cases e2; rfl
        · rw [h] at hkj; cases hkj
      · rw [h] at hki; cases hki
  · intro j c' hc' hw
    rcases f1 j c' hc' with ⟨c, hc, ⟨h1, _, _, _, h5⟩⟩ | ⟨_, h, _⟩
    · have hcw := h5.1 hw
      rcases h1 with h1 | ⟨_, _, he⟩
      · rw [h1]; exact hx.wait j c hc hcw
      · -- `enter` makes the call running
        exfalso
        subst he
        have hs' := hs
        simp only [step, hc] at hs'
        split at hs' <;> simp at hs'
        subst hs'
        simp [setCall, lt_of_getElem? hc] at hc'
        rw [← hc'] at hw; simp at hw
    · exact h
  · intro j c' hc' hr
    rcases f1 j c' hc' with ⟨c, hc, ⟨h1, h2, _⟩⟩ | ⟨_, _, h, _⟩
    · rcases h2 with h2 | ⟨_, k, v, hh, er, he, hk, _⟩
      · have hci := hx.res j c hc (by rw [← h2]; exact hr)
        rcases h1 with h1 | ⟨_, h1, _⟩
        · rw [h1]; exact hci
        · rw [h1]; rfl
      · rcases h1 with h1 | ⟨_, h1, _⟩
        · rw [h1, hk]; rfl
        · rw [h1]; rfl
    · rw [h] at hr; cases hr


/-- a call of the release function of call `i`, announced as entry `k`, is pending -/
def relIn (p : List (List CbItem)) (i k : Nat) : Prop := ∃ b ∈ p, ∃ seen, CbItem.rel i k seen ∈ b

theorem relIn_addBatch (p : List (List CbItem)) (b : List CbItem) (i k : Nat)
    (h : relIn (addBatch p b) i k) : relIn p i k ∨ ∃ seen, CbItem.rel i k seen ∈ b := by
  obtain ⟨x, hx, seen, hm⟩ := h
  rcases mem_addBatch p b x hx with h1 | ⟨h1, _⟩
  · exact Or.inl ⟨x, h1, seen, hm⟩
  · exact Or.inr ⟨seen, h1 ▸ hm⟩

theorem cbItems_no_rel (th : List TS) (res : Bool) (v e : Nat) (i k seen : Nat) :
    CbItem.rel i k seen ∉ cbItems th res v e := by
  intro hx
  simp only [cbItems, List.mem_filterMap] at hx
  obtain ⟨a, _, ha⟩ := hx
  split at ha
  · split at ha <;> simp at ha
  · simp at ha

/-- new pending release calls come from `shutdown` (of the stored call) only -/
theorem relIn_shutdown (s0 : St) (hrel : RelOk s0) (i k : Nat) (h : relIn (shutdown s0).pend i k) :
    relIn s0.pend i k ∨ (s0.rel = some i ∧ invOf s0.calls i = k) := by
  rw [shutdown_pend] at h
  rcases relIn_addBatch _ _ i k h with h1 | ⟨seen, h1⟩
  · left
    split at h1
    · rcases relIn_addBatch _ _ i k h1 with h2 | ⟨seen, h2⟩
      · exact h2
      · exact absurd h2 (cbItems_no_rel _ _ _ _ _ _ _)
    · exact h1
  · right
    cases hr : s0.rel with
    | none => simp [hr] at h1
    | some j => simp [hr] at h1; obtain ⟨rfl, rfl, _⟩ := h1; exact ⟨rfl, rfl⟩

theorem relIn_startResolve (s0 : St) (hrel : RelOk s0) (i k : Nat) (h : relIn (startResolve s0).pend i k) :
    relIn s0.pend i k ∨ (s0.rel = some i ∧ invOf s0.calls i = k) := by
  have : (startResolve s0).pend = (shutdown s0).pend := (startResolve_fields s0).1
  rw [this] at h; exact relIn_shutdown s0 hrel i k h

theorem relIn_afterRemove (s0 : St) (hrel : RelOk s0) (i k : Nat) (h : relIn (afterRemove s0).pend i k) :
    relIn s0.pend i k ∨ (s0.rel = some i ∧ invOf s0.calls i = k) := by
  unfold afterRemove at h
  split at h
  · split at h
    · exact relIn_shutdown s0 hrel i k h
    · exact Or.inl h
  · exact Or.inl h

/-- **pending release calls, step by step**: a pending call of `i`'s release function was pending
before, or belongs to a call that has returned and is announced under its own entry number -/
theorem relIn_step (s s' : St) (e : Ev) (hi : Inv s) (hs : step s e = some s') (i k : Nat)
    (h : relIn s'.pend i k) :
    relIn s.pend i k ∨ ∃ c, s.calls[i]? = some c ∧ c.res.isSome ∧ c.inv.getD 0 = k := by
  have hrel := relOk_of_core s hi.core
  have fromRel : (s.rel = some i ∧ invOf s.calls i = k) →
      ∃ c, s.calls[i]? = some c ∧ c.res.isSome ∧ c.inv.getD 0 = k := by
    intro ⟨h1, h2⟩
    obtain ⟨c, g1, _, ⟨v, er, g3⟩, _, _⟩ := rel_is_cur s hi.core i h1
    exact ⟨c, g1, by simp [g3], by simpa [invOf, g1] using h2⟩
  cases e with
  | cfg kp c t => simp only [step] at hs; split at hs <;> simp at hs; subst hs; exact Or.inl h
  | invAddRef a kd => simp only [step] at hs; split at hs <;> simp at hs; subst hs; exact Or.inl h
  | invHook a => simp only [step] at hs; split at hs <;> simp at hs; subst hs; exact Or.inl h
  | retAddRef a =>
    simp only [step] at hs; split at hs <;> try simp at hs
    obtain ⟨_, rfl⟩ := hs; exact Or.inl h
  | invRelease b r =>
    simp only [step] at hs; split at hs <;> try simp at hs
    split at hs <;> try simp at hs
    subst hs; exact Or.inl h
  | relSwap b =>
    simp only [step] at hs; split at hs <;> try simp at hs
    split at hs <;> simp at hs <;> subst hs <;> exact Or.inl h
  | retRelease b =>
    simp only [step] at hs; split at hs <;> try simp at hs
    obtain ⟨_, rfl⟩ := hs; exact Or.inl h
  | selfRelSwap a =>
    simp only [step] at hs; split at hs <;> try simp at hs
    obtain ⟨_, hs⟩ := hs
    split at hs <;> simp at hs <;> subst hs <;> exact Or.inl h
  | invSetCtx a c cl => simp only [step] at hs; split at hs <;> simp at hs; subst hs; exact Or.inl h
  | retSetCtx a u =>
    simp only [step] at hs; split at hs <;> try simp at hs
    obtain ⟨_, rfl⟩ := hs; exact Or.inl h
  | envCancelCtx c => simp only [step] at hs; split at hs <;> simp at hs; subst hs; exact Or.inl h
  | envReleased k' => simp only [step] at hs; split at hs <;> simp at hs; subst hs; exact Or.inl h
  | quiesce B => simp only [step] at hs; split at hs <;> simp at hs; subst hs; exact Or.inl h
  | probe v er => simp only [step] at hs; split at hs <;> simp at hs; subst hs; exact Or.inl h
  | enter j k' =>
    simp only [step] at hs; split at hs <;> try simp at hs
    obtain ⟨_, rfl⟩ := hs; exact Or.inl h
  | giveUp j =>
    simp only [step] at hs; split at hs <;> try simp at hs
    obtain ⟨_, rfl⟩ := hs; exact Or.inl h
  | drained j =>
    simp only [step] at hs; split at hs <;> try simp at hs
    obtain ⟨_, rfl⟩ := hs; exact Or.inl h
  | leave j k' v hr er =>
    simp only [step] at hs; split at hs <;> try simp at hs
    obtain ⟨_, rfl⟩ := hs; exact Or.inl h
  | done j =>
    simp only [step] at hs; split at hs <;> try simp at hs
    obtain ⟨_, rfl⟩ := hs; exact Or.inl h
  | cb it =>
    simp only [step] at hs; split at hs <;> try simp at hs
    rename_i b rest hp
    obtain ⟨_, rfl⟩ := hs
    left
    obtain ⟨x, hx, seen, hm⟩ := h
    rw [hp]
    simp only at hx
    split at hx
    · exact ⟨x, by simp [hx], seen, hm⟩
    · simp at hx
      rcases hx with hx | hx
      · exact ⟨b, by simp, seen, List.mem_of_mem_erase (hx ▸ hm)⟩
      · exact ⟨x, by simp [hx], seen, hm⟩
  | store j =>
    simp only [step] at hs; split at hs <;> try simp at hs
    rename_i c hc
    split at hs <;> try simp at hs
    rename_i val hasRel err hres
    obtain ⟨_, hs⟩ := hs
    split at hs
    · simp at hs; subst hs
      have h' : relIn (addBatch s.pend (cbItems s.th true val err)) i k := h
      rcases relIn_addBatch _ _ i k h' with h1 | ⟨seen, h1⟩
      · exact Or.inl h1
      · exact absurd h1 (cbItems_no_rel _ _ _ _ _ _ _)
    · split at hs <;> simp at hs <;> subst hs
      · have h' : relIn (addBatch s.pend [CbItem.rel j (c.inv.getD 0) s.target]) i k := h
        rcases relIn_addBatch _ _ i k h' with h1 | ⟨seen, h1⟩
        · exact Or.inl h1
        · simp at h1; obtain ⟨rfl, rfl, _⟩ := h1
          exact Or.inr ⟨c, hc, by simp [hres], rfl⟩
      · exact Or.inl h
  | addRefCS a =>
    simp only [step] at hs; split at hs <;> try simp at hs
    rename_i kd hth
    obtain ⟨_, hs⟩ := hs
    split at hs
    · simp at hs; subst hs
      rcases relIn_startResolve _ (by exact hrel) i k h with h1 | h1
      · exact Or.inl h1
      · exact Or.inr (fromRel h1)
    · skip
      split at hs <;> simp at hs <;> subst hs
      · have h' : relIn (addBatch s.pend [CbItem.refcb a (kd == CbKind.rcd) true s.value s.verr]) i k := h
        rcases relIn_addBatch _ _ i k h' with h1 | ⟨seen, h1⟩
        · exact Or.inl h1
        · simp at h1
      · exact Or.inl h
  | relCS b =>
    simp only [step] at hs; split at hs <;> try simp at hs
    split at hs <;> try simp at hs
    case h_2 => obtain ⟨_, rfl⟩ := hs; exact Or.inl h
    obtain ⟨_, rfl⟩ := hs
    rcases relIn_afterRemove _ (by exact hrel) i k h with h1 | h1
    · exact Or.inl h1
    · exact Or.inr (fromRel h1)
  | selfRelCS a =>
    simp only [step] at hs; split at hs <;> try simp at hs
    obtain ⟨_, rfl⟩ := hs
    rcases relIn_afterRemove _ (by exact hrel) i k h with h1 | h1
    · exact Or.inl h1
    · exact Or.inr (fromRel h1)
  | setCtxCS a =>
    simp only [step] at hs; split at hs <;> try simp at hs
    split at hs <;> simp at hs <;> obtain ⟨_, rfl⟩ := hs
    · exact Or.inl h
    · rcases relIn_startResolve _ (by exact hrel) i k h with h1 | h1
      · exact Or.inl h1
      · exact Or.inr (fromRel h1)
  | relRun r =>
    simp only [step] at hs; split at hs <;> try simp at hs
    split at hs <;> try simp at hs
    split at hs <;> simp at hs <;> obtain ⟨_, rfl⟩ := hs
    · rcases relIn_startResolve _ (by exact hrel) i k h with h1 | h1
      · exact Or.inl h1
      · exact Or.inr (fromRel h1)
    · exact Or.inl h


def PendOk (s : St) : Prop :=
  ∀ (i k : Nat), relIn s.pend i k → ∃ c, s.calls[i]? = some c ∧ c.inv = some k

def AcctOk (s : St) : Prop := ∀ (i : Nat), relItems s.pend i ≤ b2n (released s i)

theorem acctOk_step (s s' : St) (e : Ev) (hi : Inv s) (ha : AcctOk s) (hs : step s e = some s') : AcctOk s' := by
  intro i
  have h1 := step_acct s s' e i hi hs
  have h2 := ha i
  omega

/-- an entry number, once set, stays; so does a result -/
theorem call_persist (s s' : St) (e : Ev) (hi : Inv s) (hx : Idx s) (hs : step s e = some s')
    (i : Nat) (c : Call) (hc : s.calls[i]? = some c) :
    ∃ c', s'.calls[i]? = some c' ∧ (∀ k, c.inv = some k → c'.inv = some k) ∧
      (c.res.isSome → c'.res = c.res) := by
  obtain ⟨f1, f2, _⟩ := calls_frame s s' e hs
  obtain ⟨c', hc'⟩ := f2 i c hc
  refine ⟨c', hc', ?_, ?_⟩
  · intro k hk
    rcases f1 i c' hc' with ⟨c0, h0, ⟨h1, _⟩⟩ | ⟨h0, _⟩
    · rw [hc] at h0; cases h0
      rcases h1 with h1 | ⟨hw, _, _⟩
      · rw [h1]; exact hk
      · have := hx.wait i c hc hw; rw [hk] at this; cases this
    · rw [hc] at h0; cases h0
  · intro hr
    rcases f1 i c' hc' with ⟨c0, h0, ⟨_, h2, _⟩⟩ | ⟨h0, _⟩
    · rw [hc] at h0; cases h0
      rcases h2 with h2 | ⟨hrun, _⟩
      · exact h2
      · rcases hi.core.resSt i c hc hr with h | h <;> (rw [hrun] at h; cases h)
    · rw [hc] at h0; cases h0

theorem pendOk_step (s s' : St) (e : Ev) (hi : Inv s) (hx : Idx s) (hp : PendOk s)
    (hs : step s e = some s') : PendOk s' := by
  intro i k h
  rcases relIn_step s s' e hi hs i k h with h1 | ⟨c, hc, hr, hk⟩
  · obtain ⟨c, hc, hk⟩ := hp i k h1
    obtain ⟨c', hc', g, _⟩ := call_persist s s' e hi hx hs i c hc
    exact ⟨c', hc', g k hk⟩
  · have := hx.res i c hc hr
    cases hci : c.inv with
    | none => simp [hci] at this
    | some k0 =>
      simp [hci] at hk; subst hk
      obtain ⟨c', hc', g, _⟩ := call_persist s s' e hi hx hs i c hc
      exact ⟨c', hc', g k0 hci⟩

/-- entry `k` has returned a release function that has not been called yet -/
def Owed (s : St) (k : Nat) : Prop :=
  ∃ (i : Nat) (c : Call) (v e : Nat), s.calls[i]? = some c ∧ c.inv = some k ∧ c.res = some (v, true, e) ∧
    relItems s.pend i = b2n (released s i)

/-- an event that neither returns from a resolver nor calls a release function leaves `Owed` alone -/
theorem owed_frame (s s' : St) (e : Ev) (hi : Inv s) (hx : Idx s) (hs : step s e = some s')
    (h1 : ∀ j k v h er, e ≠ .leave j k v h er) (h2 : ∀ i, emits e i = 0) (k : Nat) :
    Owed s' k ↔ Owed s k := by
  obtain ⟨f1, f2, _⟩ := calls_frame s s' e hs
  constructor
  · rintro ⟨i, c', v, er, hc', hk, hr, hq⟩
    rcases f1 i c' hc' with ⟨c, hc, ⟨a1, a2, _⟩⟩ | ⟨_, _, h, _⟩
    · have hres : c.res = c'.res := by
        rcases a2 with a2 | ⟨_, k0, v0, h0, e0, he, _⟩
        · exact a2.symm
        · exact absurd he (h1 i k0 v0 h0 e0)
      have hinv : c.inv = c'.inv := by
        rcases a1 with a1 | ⟨hw, _, _⟩
        · exact a1.symm
        · have : c.res.isSome := by rw [hres, hr]; rfl
          rcases hi.core.resSt i c hc this with h | h <;> (rw [hw] at h; cases h)
      refine ⟨i, c, v, er, hc, by rw [hinv]; exact hk, by rw [hres]; exact hr, ?_⟩
      have := step_acct s s' e i hi hs
      rw [h2 i] at this; omega
    · rw [h] at hr; cases hr
  · rintro ⟨i, c, v, er, hc, hk, hr, hq⟩
    obtain ⟨c', hc', g1, g2⟩ := call_persist s s' e hi hx hs i c hc
    refine ⟨i, c', v, er, hc', g1 k hk, by rw [g2 (by simp [hr])]; exact hr, ?_⟩
    have := step_acct s s' e i hi hs
    rw [h2 i] at this; omega


/-- with no release call made by the event, an owed entry stays owed -/
theorem owed_mono (s s' : St) (e : Ev) (hi : Inv s) (hx : Idx s) (hs : step s e = some s')
    (i : Nat) (c : Call) (v er k : Nat) (hc : s.calls[i]? = some c) (hk : c.inv = some k)
    (hr : c.res = some (v, true, er)) (hq : relItems s.pend i = b2n (released s i)) (h2 : emits e i = 0) :
    Owed s' k := by
  obtain ⟨c', hc', g1, g2⟩ := call_persist s s' e hi hx hs i c hc
  refine ⟨i, c', v, er, hc', g1 k hk, by rw [g2 (by simp [hr])]; exact hr, ?_⟩
  have := step_acct s s' e i hi hs
  rw [h2] at this; omega

/-- an owed entry of the successor state was owed before, or has just been returned -/
theorem owed_back (s s' : St) (e : Ev) (hi : Inv s) (hs : step s e = some s') (k : Nat)
    (i : Nat) (c' : Call) (v er : Nat) (hc' : s'.calls[i]? = some c') (hk : c'.inv = some k)
    (hr : c'.res = some (v, true, er)) (hq : relItems s'.pend i = b2n (released s' i)) (h2 : emits e i = 0) :
    Owed s k ∨ ∃ j v' er', e = .leave j k v' true er' := by
  obtain ⟨f1, _, _⟩ := calls_frame s s' e hs
  rcases f1 i c' hc' with ⟨c, hc, ⟨a1, a2, _⟩⟩ | ⟨_, _, h, _⟩
  · rcases a2 with a2 | ⟨hrun, k0, v0, h0, e0, he, hk0, hres, _⟩
    · have hinv : c.inv = c'.inv := by
        rcases a1 with a1 | ⟨hw, _, _⟩
        · exact a1.symm
        · have : c.res.isSome := by rw [← a2, hr]; rfl
          rcases hi.core.resSt i c hc this with h | h <;> (rw [hw] at h; cases h)
      left
      refine ⟨i, c, v, er, hc, by rw [hinv]; exact hk, by rw [← a2]; exact hr, ?_⟩
      have := step_acct s s' e i hi hs
      rw [h2] at this; omega
    · right
      rw [hr] at hres; simp at hres; obtain ⟨rfl, rfl, rfl⟩ := hres
      have hinv : c'.inv = c.inv := by
        rcases a1 with a1 | ⟨hw, _, _⟩
        · exact a1
        · rw [hrun] at hw; cases hw
      rw [hinv, hk0] at hk; cases hk
      exact ⟨i, v, er, he⟩
  · rw [h] at hr; cases hr

def RelOnce (s : St) (m : List Nat) : Prop :=
  Inv s ∧ Idx s ∧ PendOk s ∧ AcctOk s ∧ m.Nodup ∧ ∀ k, k ∈ m ↔ Owed s k

theorem once_sim_step (s : St) (e : Ev) (s' : St) (m : List Nat) (hR : RelOnce s m) (hs : step s e = some s') :
    match Ev.obs e with
    | none => RelOnce s' m
    | some o => ∃ m', monOnce.step m o = some m' ∧ RelOnce s' m' := by
  obtain ⟨hi, hx, hp, ha, hnd, hm⟩ := hR
  have hi' := step_inv s e s' hi hs
  have hx' := idx_step s s' e hx hs
  have hp' := pendOk_step s s' e hi hx hp hs
  have ha' := acctOk_step s s' e hi ha hs
  have other : (∀ j k v h er, e ≠ .leave j k v h er) → (∀ i, emits e i = 0) → RelOnce s' m := by
    intro h1 h2
    exact ⟨hi', hx', hp', ha', hnd, fun k => by rw [hm k, owed_frame s s' e hi hx hs h1 h2 k]⟩
  cases e with
  | leave j k v hasRel er =>
    have hs0 := hs
    simp only [step] at hs0; split at hs0 <;> try simp at hs0
    rename_i c hc
    obtain ⟨⟨hrun, hck, _⟩, hs1⟩ := hs0
    have hcres : c.res = none := by
      cases hcr : c.res with
      | none => rfl
      | some r => rcases hi.core.resSt j c hc (by simp [hcr]) with h | h <;> (rw [hrun] at h; cases h)
    have hcrel : released s j = false := by
      unfold released; rw [hc]
      cases hcr : c.released with
      | false => simp [hcr]
      | true =>
        obtain ⟨_, v0, e0, h0⟩ := hi.core.relFin j c hc hcr
        rw [hcres] at h0; cases h0
    have hem : ∀ i, emits (Ev.leave j k v hasRel er) i = 0 := fun _ => rfl
    cases hasRel with
    | false =>
      refine ⟨m, by simp [Ev.obs, monOnce], hi', hx', hp', ha', hnd, fun k' => ?_⟩
      rw [hm k']
      constructor
      · rintro ⟨i, c0, v0, e0, h1, h2, h3, h4⟩
        exact owed_mono s s' _ hi hx hs i c0 v0 e0 k' h1 h2 h3 h4 (hem i)
      · rintro ⟨i, c', v0, e0, h1, h2, h3, h4⟩
        rcases owed_back s s' _ hi hs k' i c' v0 e0 h1 h2 h3 h4 (hem i) with h | ⟨_, _, _, he⟩
        · exact h
        · cases he
    | true =>
      have hnot : ¬ Owed s k := by
        rintro ⟨i, c0, v0, e0, h1, h2, h3, _⟩
        have := hx.inj i j c0 c k h1 hc h2 hck
        subst this; rw [hc] at h1; cases h1
        rw [hcres] at h3; cases h3
      have hkm : k ∉ m := fun h => hnot ((hm k).mp h)
      refine ⟨k :: m, by simp [Ev.obs, monOnce], hi', hx', hp', ha', List.nodup_cons.mpr ⟨hkm, hnd⟩, fun k' => ?_⟩
      simp only [List.mem_cons]
      constructor
      · rintro (rfl | h)
        · -- the call that has just returned
          subst hs1
          have hlt := lt_of_getElem? hc
          refine ⟨j, { c with ci := { c.ci with st := .returned }, res := some (v, true, er) }, v, er,
            by simp [setCall, hlt], hck, rfl, ?_⟩
          have h1 : relItems s.pend j = 0 := by have := ha j; rw [hcrel] at this; simp [b2n] at this; exact this
          have h2 : released (setCall s j { c with ci := { c.ci with st := .returned }, res := some (v, true, er) }) j
              = released s j := released_setCall s j c _ j hc rfl
          show relItems s.pend j = b2n (released (setCall s j _) j)
          rw [h2, hcrel, h1]; rfl
        · obtain ⟨i, c0, v0, e0, h1, h2, h3, h4⟩ := (hm k').mp h
          exact owed_mono s s' _ hi hx hs i c0 v0 e0 k' h1 h2 h3 h4 (hem i)
      · rintro ⟨i, c', v0, e0, h1, h2, h3, h4⟩
        rcases owed_back s s' _ hi hs k' i c' v0 e0 h1 h2 h3 h4 (hem i) with h | ⟨_, _, _, he⟩
        · exact Or.inr ((hm k').mpr h)
        · cases he; exact Or.inl rfl
  | cb it =>
    cases it with
    | refcb r vis res v er =>
      have h := other (by simp) (fun _ => rfl)
      cases vis
      · exact h
      · exact ⟨m, by simp [Ev.obs, monOnce], h⟩
    | rel i k seen =>
      have hs0 := hs
      simp only [step] at hs0; split at hs0 <;> try simp at hs0
      rename_i b rest hpe
      obtain ⟨hmem, hs1⟩ := hs0
      have hin : relIn s.pend i k := ⟨b, by rw [hpe]; simp, seen, hmem⟩
      obtain ⟨c, hc, hck⟩ := hp i k hin
      have hpos : 0 < relItems s.pend i := by
        rw [hpe, relItems_cons]
        have : 0 < b.countP (CbItem.isRel i) := by
          rw [List.countP_pos_iff]; exact ⟨_, hmem, by simp [CbItem.isRel]⟩
        omega
      have hacc := ha i
      have hrel : released s i = true := by
        cases h : released s i
        · rw [h] at hacc; simp [b2n] at hacc; omega
        · rfl
      have hone : relItems s.pend i = 1 := by rw [hrel] at hacc; simp [b2n] at hacc; omega
      have hcr : c.released = true := by simpa [released, hc] using hrel
      obtain ⟨_, v0, e0, hres⟩ := hi.core.relFin i c hc hcr
      have howed : Owed s k := ⟨i, c, v0, e0, hc, hck, hres, by rw [hone, hrel]; rfl⟩
      have hkm : k ∈ m := (hm k).mpr howed
      have hcalls : s'.calls = s.calls := by rw [← hs1]
      have hrelsame : ∀ x, released s' x = released s x := by intro x; unfold released; rw [hcalls]
      have hacct := fun x => step_acct s s' (.cb (.rel i k seen)) x hi hs
      refine ⟨m.erase k, by simp [Ev.obs, monOnce, hkm], hi', hx', hp', ha', hnd.erase k, fun k' => ?_⟩
      rw [hnd.mem_erase_iff]
      constructor
      · rintro ⟨hne, h⟩
        obtain ⟨i', c0, v1, e1, g1, g2, g3, g4⟩ := (hm k').mp h
        have hii : i' ≠ i := by
          intro e; subst e; rw [hc] at g1; cases g1; rw [hck] at g2; cases g2; exact hne rfl
        exact owed_mono s s' _ hi hx hs i' c0 v1 e1 k' g1 g2 g3 g4 (by simp [emits, Ne.symm hii])
      · rintro ⟨i', c', v1, e1, g1, g2, g3, g4⟩
        have hii : i' ≠ i := by
          intro e; subst e
          have := hacct i'
          simp [emits] at this
          rw [hrelsame, hrel] at g4
          rw [hone, hrelsame, hrel] at this
          simp [b2n] at this g4; omega
        have hc0 : s.calls[i']? = some c' := by rw [← hcalls]; exact g1
        refine ⟨?_, (hm k').mpr ⟨i', c', v1, e1, hc0, g2, g3, ?_⟩⟩
        · intro e; subst e
          exact hii (hx.inj i' i c' c k' hc0 hc g2 hck)
        · have := hacct i'
          simp [emits, Ne.symm hii] at this
          rw [hrelsame] at g4 this; omega
  | cfg kp c t => exact ⟨m, rfl, other (by simp) (fun _ => rfl)⟩
  | invAddRef a kd => exact ⟨m, rfl, other (by simp) (fun _ => rfl)⟩
  | addRefCS a => exact other (by simp) (fun _ => rfl)
  | retAddRef a => exact ⟨m, rfl, other (by simp) (fun _ => rfl)⟩
  | invRelease b r => exact ⟨m, rfl, other (by simp) (fun _ => rfl)⟩
  | relSwap b => exact other (by simp) (fun _ => rfl)
  | relCS b => exact other (by simp) (fun _ => rfl)
  | retRelease b => exact ⟨m, rfl, other (by simp) (fun _ => rfl)⟩
  | invSetCtx a c cl => exact ⟨m, rfl, other (by simp) (fun _ => rfl)⟩
  | setCtxCS a => exact other (by simp) (fun _ => rfl)
  | retSetCtx a u => exact ⟨m, rfl, other (by simp) (fun _ => rfl)⟩
  | envCancelCtx c => exact ⟨m, rfl, other (by simp) (fun _ => rfl)⟩
  | envReleased k => exact ⟨m, rfl, other (by simp) (fun _ => rfl)⟩
  | relRun r => exact other (by simp) (fun _ => rfl)
  | enter i k => exact ⟨m, rfl, other (by simp) (fun _ => rfl)⟩
  | giveUp i => exact other (by simp) (fun _ => rfl)
  | drained i => exact other (by simp) (fun _ => rfl)
  | store i => exact other (by simp) (fun _ => rfl)
  | done i => exact other (by simp) (fun _ => rfl)
  | invHook a => exact ⟨m, rfl, other (by simp) (fun _ => rfl)⟩
  | selfRelSwap a => exact other (by simp) (fun _ => rfl)
  | selfRelCS a => exact other (by simp) (fun _ => rfl)
  | probe v er => exact ⟨m, rfl, other (by simp) (fun _ => rfl)⟩
  | quiesce B => exact ⟨m, rfl, other (by simp) (fun _ => rfl)⟩

/-- **C08 (observable form) `rel_once_obs`.** Every observable trace of the RefCount model is
accepted by `monOnce`: a release function runs only after its resolver entry returned it, and at
most once — for every event list. -/
theorem rel_once_obs (es : List Ev) (s : St) (h : model.run model.init es = some s) :
    monOnce.accepts (es.filterMap model.obs) = true :=
  monitor_accepts_of_simulation model monOnce RelOnce
    ⟨init_inv, idx_init, by intro i k ⟨b, hb, _⟩; simp [model] at hb,
      by intro i; simp [model, relItems, released, b2n], List.nodup_nil,
      by intro k; simp [monOnce, Owed, model]⟩
    (fun s e s' ms hR hs => by
      have h := once_sim_step s e s' ms hR hs
      cases e with
      | cb it =>
        cases it with
        | refcb r vis res v er => cases vis <;> exact h
        | rel i k seen => exact h
      | _ => exact h) es s h

end UtilModel.RefCount
