import UtilModel.RefCount.Frame3
/-!
# refcount: C08 "not while held" in observable form — every trace of the model is accepted by `monHeld`
-/
set_option linter.unusedSimpArgs false
set_option linter.unusedVariables false
namespace UtilModel.RefCount
open UtilModel

/-- the stored call changes only in critical sections: it is dropped, or it is the call whose final
section stores its result -/
theorem cur_frame (s s' : St) (e : Ev) (hs : step s e = some s') (i : Nat) (h : s'.cur = some i) :
    s.cur = some i ∨ (e = .store i ∧ ∃ c, s.calls[i]? = some c ∧ c.res.isSome ∧ c.fin = false) := by
  by_cases hl : isLock e = false
  · left; rw [← (nonlock_frame s s' e hs hl).2.1]; exact h
  · have shut : ∀ s0 : St, (shutdown s0).cur = some i → s0.cur = some i := by
      intro s0 h0; rw [shutdown_cur] at h0; split at h0
      · cases h0
      · exact h0
    have start : ∀ s0 : St, (startResolve s0).cur = some i → s0.cur = some i := by
      intro s0 h0; rw [(startResolve_fields s0).2.2.1] at h0; exact shut s0 h0
    have after : ∀ s0 : St, (afterRemove s0).cur = some i → s0.cur = some i := by
      intro s0 h0; unfold afterRemove at h0
      split at h0
      · split at h0
        · exact shut s0 h0
        · exact h0
      · exact h0
    cases e with
    | addRefCS a =>
      simp only [step] at hs; split at hs <;> try simp at hs
      obtain ⟨_, hs⟩ := hs
      split at hs
      · simp at hs; subst hs; (have h2 := start _ h; exact Or.inl h2)
      · split at hs <;> simp at hs <;> subst hs <;> exact Or.inl h
    | relCS b =>
      simp only [step] at hs; split at hs <;> try simp at hs
      split at hs <;> try simp at hs
      case h_2 => obtain ⟨_, rfl⟩ := hs; exact Or.inl h
      obtain ⟨_, rfl⟩ := hs; (have h2 := after _ h; exact Or.inl h2)
    | selfRelCS a =>
      simp only [step] at hs; split at hs <;> try simp at hs
      obtain ⟨_, rfl⟩ := hs; (have h2 := after _ h; exact Or.inl h2)
    | setCtxCS a =>
      simp only [step] at hs; split at hs <;> try simp at hs
      split at hs <;> simp at hs <;> obtain ⟨_, rfl⟩ := hs
      · exact Or.inl h
      · (have h2 := start _ h; exact Or.inl h2)
    | relRun r =>
      simp only [step] at hs; split at hs <;> try simp at hs
      split at hs <;> try simp at hs
      split at hs <;> simp at hs <;> obtain ⟨_, rfl⟩ := hs
      · (have h2 := start _ h; exact Or.inl h2)
      · exact Or.inl h
    | store j =>
      simp only [step] at hs; split at hs <;> try simp at hs
      rename_i c hc
      split at hs <;> try simp at hs
      rename_i val hasRel err hres
      obtain ⟨⟨_, hnf, _⟩, hs⟩ := hs
      split at hs
      · simp at hs; subst hs
        simp [setCall] at h; subst h
        exact Or.inr ⟨rfl, c, hc, by simp [hres], hnf⟩
      · split at hs <;> simp at hs <;> subst hs <;> exact Or.inl h
    | _ => simp [isLock] at hl


/-- while a call is inside the resolver no other call has started and not yet closed its `doneCh` -/
theorem running_excl (s : St) (hi : Inv s) (i j : Nat) (ci cj : Call) (hci : s.calls[i]? = some ci)
    (hcj : s.calls[j]? = some cj) (hij : i ≠ j) (hr : cj.ci.st = .running)
    (hs : ci.ci.st = .returned ∨ ci.ci.st = .running) : False := by
  have hch := hi.core.chain
  have gi := chain_get s i ci hci
  have gj := chain_get s j cj hcj
  rcases Nat.lt_or_gt_of_ne hij with h | h
  · have := Chain.at_most_one_started_unclosed (chainSlot s) hch i j ci.ci cj.ci gi gj h (by simp [hr, Chain.IS.started])
    simp [Chain.isClosed, gi] at this
    rcases hs with hs | hs <;> (rw [hs] at this; cases this)
  · have hst : ci.ci.st.started = true := by rcases hs with hs | hs <;> simp [hs, Chain.IS.started]
    have := Chain.at_most_one_started_unclosed (chainSlot s) hch j i cj.ci ci.ci gj gi h hst
    simp [Chain.isClosed, gj, hr] at this

/-- the monitor's `latest` is the entry number of the call that has returned and not yet run its
final section, and of the stored call -/
def LatestOk (s : St) (lt : Option Nat) : Prop :=
  (∀ (i : Nat) (c : Call), s.calls[i]? = some c → c.res.isSome → c.fin = false → lt = c.inv) ∧
  (∀ (i : Nat) (c : Call), s.cur = some i → s.calls[i]? = some c → lt = c.inv)

theorem latest_other (s s' : St) (e : Ev) (hi : Inv s)
    (lt : Option Nat) (h : LatestOk s lt) (hs : step s e = some s')
    (hne : ∀ j k v hh er, e ≠ .leave j k v hh er) : LatestOk s' lt := by
  obtain ⟨f1, f2, _⟩ := calls_frame s s' e hs
  -- an old call with a result keeps result and entry number under a non-`leave` event
  have back : ∀ (i : Nat) (c' : Call), s'.calls[i]? = some c' → c'.res.isSome →
      ∃ c, s.calls[i]? = some c ∧ c.res.isSome ∧ c'.inv = c.inv ∧ (c'.fin = false → c.fin = false) := by
    intro i c' hc' hr
    rcases f1 i c' hc' with ⟨c, hc, ⟨a1, a2, _, _, _, a6, _⟩⟩ | ⟨_, _, h0, _⟩
    · have hres : c'.res = c.res := by
        rcases a2 with a2 | ⟨_, k0, v0, h0, e0, he, _⟩
        · exact a2
        · exact absurd he (hne i k0 v0 h0 e0)
      have hcr : c.res.isSome := by rw [← hres]; exact hr
      refine ⟨c, hc, hcr, ?_, a6⟩
      rcases a1 with a1 | ⟨hw, _, _⟩
      · exact a1
      · rcases hi.core.resSt i c hc hcr with h | h <;> (rw [hw] at h; cases h)
    · rw [h0] at hr; cases hr
  refine ⟨?_, ?_⟩
  · intro i c' hc' hr hf
    obtain ⟨c, hc, hcr, hinv, hfin⟩ := back i c' hc' hr
    rw [hinv]; exact h.1 i c hc hcr (hfin hf)
  · intro i c' hcur hc'
    rcases cur_frame s s' e hs i hcur with h0 | ⟨he, c, hc, hcr, hcf⟩
    · obtain ⟨c0, _, g1, _, _, _, g5, _⟩ := hi.core.curSome i h0
      obtain ⟨c1, hc1⟩ := f2 i c0 g1
      rw [hc'] at hc1; cases hc1
      rcases f1 i c' hc' with ⟨c, hc, ⟨a1, _⟩⟩ | ⟨hn, _⟩
      · rw [g1] at hc; cases hc
        have hcr : c0.res.isSome := by rw [g5]; rfl
        have : c'.inv = c0.inv := by
          rcases a1 with a1 | ⟨hw, _, _⟩
          · exact a1
          · rcases hi.core.resSt i c0 g1 hcr with h | h <;> (rw [hw] at h; cases h)
        rw [this]; exact h.2 i c0 h0 g1
      · rw [g1] at hn; cases hn
    · rcases f1 i c' hc' with ⟨c0, hc0, ⟨a1, _⟩⟩ | ⟨hn, _⟩
      · rw [hc] at hc0; cases hc0
        have : c'.inv = c.inv := by
          rcases a1 with a1 | ⟨_, _, he2⟩
          · exact a1
          · rw [he] at he2; cases he2
        rw [this]; exact h.1 i c hc hcr hcf
      · rw [hc] at hn; cases hn

theorem latest_leave (s s' : St) (hi : Inv s) (lt : Option Nat) (j k v : Nat) (hh : Bool) (er : Nat)
    (hs : step s (.leave j k v hh er) = some s') : LatestOk s' (some k) := by
  have hs0 := hs
  simp only [step] at hs0; split at hs0 <;> try simp at hs0
  rename_i c hc
  obtain ⟨⟨hrun, hck, _⟩, hs1⟩ := hs0
  have hlt := lt_of_getElem? hc
  have hcnf : c.fin = false := by
    cases hcf : c.fin
    · rfl
    · rcases (hi.core.finSt j c hc).1 hcf with h | h <;> (rw [hrun] at h; cases h)
  subst hs1
  refine ⟨?_, ?_⟩
  · intro i c' hc' hr hf
    by_cases hij : i = j
    · subst hij
      simp [setCall, hlt] at hc'; subst hc'
      simp [hck]
    · exfalso
      have hc0 : s.calls[i]? = some c' := by
        simp [setCall, List.getElem?_set, Ne.symm hij] at hc'; exact hc'
      have hst : c'.ci.st = .returned := by
        rcases hi.core.resSt i c' hc0 hr with h | h
        · exact h
        · have := (hi.core.finSt i c' hc0).2 h; rw [hf] at this; cases this
      exact running_excl s hi i j c' c hc0 hc hij hrun (Or.inl hst)
  · intro i c' hcur hc'
    exfalso
    have hcur0 : s.cur = some i := hcur
    obtain ⟨c0, _, g1, g2, _, g4, _⟩ := hi.core.curSome i hcur0
    have hij : i ≠ j := by
      intro e; subst e; rw [hc] at g1; cases g1; rw [hcnf] at g4; cases g4
    rcases Nat.lt_or_gt_of_ne hij with h | h
    · have h1 := hi.core.nonceLt i j c0 c g1 hc h
      have h2 := hi.core.nonceLe j c hc
      omega
    · rcases (hi.core.finSt i c0 g1).1 g4 with h0 | h0
      · exact running_excl s hi i j c0 c g1 hc hij hrun (Or.inl h0)
      · have hch := hi.core.chain
        have := Chain.all_below_closed (chainSlot s) hch i c0.ci (chain_get s i c0 g1)
          (by simp [h0, Chain.IS.started]) j h
        simp [Chain.isClosed, chain_get s j c hc, hrun] at this


/-! ## clause: released references are release-invoked -/

def RelInvOk (s : St) (ri : List Nat) : Prop :=
  (∀ (b r : Nat) (pc : RelPc), s.th[b]? = some (.rel r pc) → r ∈ ri) ∧
  (∀ (r : Nat) (k : CbKind) (pc : Pc) (f sf : Bool) (t : Option Nat),
    s.th[r]? = some (.ref k pc false f sf t) → pc ≠ .inv → k ≠ .hook → r ∈ ri)

theorem relInvOk_step (s s' : St) (e : Ev) (ri ri' : List Nat) (h : RelInvOk s ri)
    (hs : step s e = some s') (hsub : ∀ r, r ∈ ri → r ∈ ri')
    (hnew : ∀ b r, e = .invRelease b r → r ∈ ri') : RelInvOk s' ri' := by
  obtain ⟨f1, _⟩ := th_frame s s' e hs
  refine ⟨?_, ?_⟩
  · intro b r pc hb
    rcases f1 b _ hb with ⟨x, hx, hst⟩ | ⟨_, hnw⟩
    · cases x with
      | rel r0 pc0 => simp [ThStep] at hst; subst hst; exact hsub _ (h.1 b _ pc0 hx)
      | ref k0 pc0 l f sf t => simp [ThStep] at hst
      | ctx c cl pc0 u => simp [ThStep] at hst
    · rcases hnw with ⟨k, _, _, he⟩ | ⟨_, he⟩ | ⟨r0, he, hx⟩ | ⟨c, cl, _, he⟩
      · cases he
      · cases he
      · cases hx; exact hnew b r he
      · cases he
  · intro r k pc f sf t hr hpc hk
    rcases f1 r _ hr with ⟨x, hx, hst⟩ | ⟨_, hnw⟩
    · cases x with
      | rel r0 pc0 => simp [ThStep] at hst
      | ctx c cl pc0 u => simp [ThStep] at hst
      | ref k0 pc0 l f0 sf0 t0 =>
        simp only [ThStep] at hst
        obtain ⟨rfl, hpcs, hls, hfresh⟩ := hst
        cases l with
        | false =>
          by_cases hp0 : pc0 = .inv
          · have := hfresh hp0 hpc; cases this
          · exact hsub _ (h.2 r k pc0 f0 sf0 t0 hx hp0 hk)
        | true =>
          rcases hls with hl | ⟨hl, _⟩ | ⟨_, _, ⟨b, _, hb⟩ | ⟨_, hk0⟩⟩
          · cases hl
          · cases hl
          · exact hsub _ (h.1 b r .cs hb)
          · exact absurd hk0 hk
    · rcases hnw with ⟨k0, _, _, he⟩ | ⟨_, he⟩ | ⟨r0, _, he⟩ | ⟨c, cl, _, he⟩
      · cases he; exact absurd rfl hpc
      · cases he; exact absurd rfl hpc
      · cases he
      · cases he

/-! ## clause: SetContext calls that have not returned are in flight -/

def CtxOk (s : St) (cc : List Nat) : Prop :=
  ∀ (a c : Nat) (cl : Bool) (pc : Pc) (u : Bool), s.th[a]? = some (.ctx c cl pc u) → pc ≠ .retd → a ∈ cc

theorem ctxOk_step (s s' : St) (e : Ev) (cc cc' : List Nat) (h : CtxOk s cc) (hs : step s e = some s')
    (hsub : ∀ a, a ∈ cc → (∀ r, e ≠ .retSetCtx a r) → a ∈ cc')
    (hnew : ∀ a c cl, e = .invSetCtx a c cl → a ∈ cc') : CtxOk s' cc' := by
  obtain ⟨f1, _⟩ := th_frame s s' e hs
  intro a c cl pc u ha hpc
  rcases f1 a _ ha with ⟨x, hx, hst⟩ | ⟨_, hnw⟩
  · cases x with
    | rel r0 pc0 => simp [ThStep] at hst
    | ref k0 pc0 l f sf t => simp [ThStep] at hst
    | ctx c0 cl0 pc0 u0 =>
      simp only [ThStep] at hst
      obtain ⟨rfl, rfl, hpcs⟩ := hst
      have hp0 : pc0 ≠ .retd := by
        rcases hpcs with h1 | ⟨h1, _⟩ | ⟨_, h1, _⟩
        · rw [← h1]; exact hpc
        · rw [h1]; simp
        · exact absurd h1 hpc
      refine hsub a (h a c cl pc0 u0 hx hp0) ?_
      intro r he
      -- the return of that very call makes it `retd`
      subst he
      have hs0 := hs
      simp only [step, hx] at hs0
      cases pc0 <;> simp at hs0
      obtain ⟨_, rfl⟩ := hs0
      simp [lt_of_getElem? hx] at ha
      exact hpc ha.1.symm
  · rcases hnw with ⟨k0, _, _, he⟩ | ⟨_, he⟩ | ⟨r0, _, he⟩ | ⟨c0, cl0, he, _⟩
    · cases he
    · cases he
    · cases he
    · exact hnew a c0 cl0 he


/-! ## clause: pending `released()` sections belong to entries whose `released()` was called -/

def RunsOk (s : St) (iv : List Nat) : Prop :=
  ∀ i ∈ s.relRuns, ∃ (c : Call) (k : Nat), s.calls[i]? = some c ∧ c.inv = some k ∧ k ∈ iv

theorem runsOk_step (s s' : St) (e : Ev) (iv iv' : List Nat) (hi : Inv s) (hx : Idx s) (h : RunsOk s iv)
    (hs : step s e = some s') (hsub : ∀ k, k ∈ iv → k ∈ iv') (hnew : ∀ k, e = .envReleased k → k ∈ iv') :
    RunsOk s' iv' := by
  intro i hmem
  rcases relRuns_frame s s' e hs i hmem with h1 | ⟨k, c, he, hc, hk⟩
  · obtain ⟨c, k, hc, hk, hkm⟩ := h i h1
    obtain ⟨c', hc', g, _⟩ := call_persist s s' e hi hx hs i c hc
    exact ⟨c', k, hc', g k hk, hsub k hkm⟩
  · obtain ⟨c', hc', g, _⟩ := call_persist s s' e hi hx hs i c hc
    exact ⟨c', k, hc', g k hk, hnew k he⟩

/-! ## clause: what was delivered (`told`) was stored, to a recording reference that was added -/

def ToldOk (s : St) (told : List (Nat × Nat)) : Prop :=
  ∀ p ∈ told, (∃ (i : Nat) (c : Call), s.calls[i]? = some c ∧ c.inv = some p.2 ∧ c.stored = true) ∧
    (∃ pc l f sf t, s.th[p.1]? = some (.ref .rcd pc l f sf t) ∧ pc ≠ .inv)

/-- a reference entry that has been added stays an added entry of the same kind -/
theorem ref_persist (s s' : St) (e : Ev) (hs : step s e = some s') (r : Nat) (k : CbKind) (pc : Pc)
    (l f sf : Bool) (t : Option Nat) (h : s.th[r]? = some (.ref k pc l f sf t)) (hpc : pc ≠ .inv) :
    ∃ pc' l' f' sf' t', s'.th[r]? = some (.ref k pc' l' f' sf' t') ∧ pc' ≠ .inv := by
  obtain ⟨f1, f2⟩ := th_frame s s' e hs
  obtain ⟨x', hx'⟩ := f2 r _ h
  rcases f1 r x' hx' with ⟨x, hx, hst⟩ | ⟨hn, _⟩
  · rw [h] at hx; cases hx
    cases x' with
    | rel r0 pc0 => simp [ThStep] at hst
    | ctx c cl pc0 u => simp [ThStep] at hst
    | ref k' pc' l' f' sf' t' =>
      simp only [ThStep] at hst
      obtain ⟨rfl, hpcs, _⟩ := hst
      refine ⟨pc', l', f', sf', t', hx', ?_⟩
      rcases hpcs with h1 | ⟨h1, _⟩ | ⟨_, h1, _⟩
      · rw [h1]; exact hpc
      · exact absurd h1 hpc
      · rw [h1]; simp
  · rw [h] at hn; cases hn

theorem toldOk_step (s s' : St) (e : Ev) (told : List (Nat × Nat)) (hi : Inv s) (hx : Idx s)
    (h : ToldOk s told) (hs : step s e = some s') : ToldOk s' told := by
  intro p hp
  obtain ⟨⟨i, c, hc, hk, hst⟩, ⟨pc, l, f, sf, t, hth, hpc⟩⟩ := h p hp
  refine ⟨?_, ?_⟩
  · obtain ⟨f1, f2, _⟩ := calls_frame s s' e hs
    obtain ⟨c', hc', g, _⟩ := call_persist s s' e hi hx hs i c hc
    refine ⟨i, c', hc', g _ hk, ?_⟩
    rcases f1 i c' hc' with ⟨c0, h0, ⟨_, _, _, _, _, _, a7, _⟩⟩ | ⟨hn, _⟩
    · rw [hc] at h0; cases h0; exact a7 hst
    · rw [hc] at hn; cases hn
  · obtain ⟨pc', l', f', sf', t', h1, h2⟩ := ref_persist s s' e hs p.1 .rcd pc l f sf t hth hpc
    exact ⟨pc', l', f', sf', t', h1, h2⟩

/-! ## clause: an owed delivery is the delivery of the stored result to an added recording reference -/

def VOk (s : St) : Prop :=
  ∀ (r v er : Nat), CbItem.refcb r true true v er ∈ s.pend.flatten →
    (∃ i, s.cur = some i) ∧ ∃ pc l f sf t, s.th[r]? = some (.ref .rcd pc l f sf t) ∧ pc ≠ .inv

theorem vOk_step (s s' : St) (e : Ev) (hi : Inv s) (ht' : ThInv s'.th) (h : VOk s)
    (hs : step s e = some s') : VOk s' := by
  intro r v er hmem
  rcases items_frame s s' e hi hs _ hmem with hold | hnew
  · obtain ⟨⟨i, hcur⟩, pc, l, f, sf, t, hth, hpc⟩ := h r v er hold
    have hl : isLock e = false := by
      cases hl : isLock e
      · rfl
      · have := lock_free s s' e hs hl; rw [this] at hold; simp at hold
    refine ⟨⟨i, by rw [(nonlock_frame s s' e hs hl).2.1]; exact hcur⟩, ?_⟩
    exact ref_persist s s' e hs r .rcd pc l f sf t hth hpc
  · cases hnew with
    | deliver r0 k pc f sf t i hth hk hcur =>
      -- the visible flag of the entry is `k == rcd`
      rename_i hvis
      sorry

end UtilModel.RefCount
