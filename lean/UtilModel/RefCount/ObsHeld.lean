import UtilModel.RefCount.Frame3
/-!
# refcount: C08 "not while held" in observable form — every trace of the model is accepted by `monHeld`
-/
set_option linter.unusedSimpArgs false
set_option linter.unusedVariables false
namespace UtilModel.RefCount
open UtilModel

/-- the stored call changes only in critical sections: it is dropped, or it is the call whose final
section stores its result -/
theorem cur_frame (s s' : St) (e : Ev) (hs : step s e = some s') (i : Nat) (h : s'.cur = some i) :
    s.cur = some i ∨ (e = .store i ∧ ∃ c, s.calls[i]? = some c ∧ c.res.isSome ∧ c.fin = false) := by
  by_cases hl : isLock e = false
  · left; rw [← (nonlock_frame s s' e hs hl).2.1]; exact h
  · have shut : ∀ s0 : St, (shutdown s0).cur = some i → s0.cur = some i := by
      intro s0 h0; rw [shutdown_cur] at h0; split at h0
      · cases h0
      · exact h0
    have start : ∀ s0 : St, (startResolve s0).cur = some i → s0.cur = some i := by
      intro s0 h0; rw [(startResolve_fields s0).2.2.1] at h0; exact shut s0 h0
    have after : ∀ s0 : St, (afterRemove s0).cur = some i → s0.cur = some i := by
      intro s0 h0; unfold afterRemove at h0
      split at h0
      · split at h0
        · exact shut s0 h0
        · exact h0
      · exact h0
    cases e with
    | addRefCS a =>
      simp only [step] at hs; split at hs <;> try simp at hs
      obtain ⟨_, hs⟩ := hs
      split at hs
      · simp at hs; subst hs; (have h2 := start _ h; exact Or.inl h2)
      · split at hs <;> simp at hs <;> subst hs <;> exact Or.inl h
    | relCS b =>
      simp only [step] at hs; split at hs <;> try simp at hs
      split at hs <;> try simp at hs
      case h_2 => obtain ⟨_, rfl⟩ := hs; exact Or.inl h
      obtain ⟨_, rfl⟩ := hs; (have h2 := after _ h; exact Or.inl h2)
    | selfRelCS a =>
      simp only [step] at hs; split at hs <;> try simp at hs
      obtain ⟨_, rfl⟩ := hs; (have h2 := after _ h; exact Or.inl h2)
    | setCtxCS a =>
      simp only [step] at hs; split at hs <;> try simp at hs
      split at hs <;> simp at hs <;> obtain ⟨_, rfl⟩ := hs
      · exact Or.inl h
      · (have h2 := start _ h; exact Or.inl h2)
    | relRun r =>
      simp only [step] at hs; split at hs <;> try simp at hs
      split at hs <;> try simp at hs
      split at hs <;> simp at hs <;> obtain ⟨_, rfl⟩ := hs
      · (have h2 := start _ h; exact Or.inl h2)
      · exact Or.inl h
    | store j =>
      simp only [step] at hs; split at hs <;> try simp at hs
      rename_i c hc
      split at hs <;> try simp at hs
      rename_i val hasRel err hres
      obtain ⟨⟨_, hnf, _⟩, hs⟩ := hs
      split at hs
      · simp at hs; subst hs
        simp [setCall] at h; subst h
        exact Or.inr ⟨rfl, c, hc, by simp [hres], hnf⟩
      · split at hs <;> simp at hs <;> subst hs <;> exact Or.inl h
    | _ => simp [isLock] at hl


/-- while a call is inside the resolver no other call has started and not yet closed its `doneCh` -/
theorem running_excl (s : St) (hi : Inv s) (i j : Nat) (ci cj : Call) (hci : s.calls[i]? = some ci)
    (hcj : s.calls[j]? = some cj) (hij : i ≠ j) (hr : cj.ci.st = .running)
    (hs : ci.ci.st = .returned ∨ ci.ci.st = .running) : False := by
  have hch := hi.core.chain
  have gi := chain_get s i ci hci
  have gj := chain_get s j cj hcj
  rcases Nat.lt_or_gt_of_ne hij with h | h
  · have := Chain.at_most_one_started_unclosed (chainSlot s) hch i j ci.ci cj.ci gi gj h (by simp [hr, Chain.IS.started])
    simp [Chain.isClosed, gi] at this
    rcases hs with hs | hs <;> (rw [hs] at this; cases this)
  · have hst : ci.ci.st.started = true := by rcases hs with hs | hs <;> simp [hs, Chain.IS.started]
    have := Chain.at_most_one_started_unclosed (chainSlot s) hch j i cj.ci ci.ci gj gi h hst
    simp [Chain.isClosed, gj, hr] at this

/-- the monitor's `latest` is the entry number of the call that has returned and not yet run its
final section, and of the stored call -/
def LatestOk (s : St) (lt : Option Nat) : Prop :=
  (∀ (i : Nat) (c : Call), s.calls[i]? = some c → c.res.isSome → c.fin = false → lt = c.inv) ∧
  (∀ (i : Nat) (c : Call), s.cur = some i → s.calls[i]? = some c → lt = c.inv)

theorem latest_other (s s' : St) (e : Ev) (hi : Inv s)
    (lt : Option Nat) (h : LatestOk s lt) (hs : step s e = some s')
    (hne : ∀ j k v hh er, e ≠ .leave j k v hh er) : LatestOk s' lt := by
  obtain ⟨f1, f2, _⟩ := calls_frame s s' e hs
  -- an old call with a result keeps result and entry number under a non-`leave` event
  have back : ∀ (i : Nat) (c' : Call), s'.calls[i]? = some c' → c'.res.isSome →
      ∃ c, s.calls[i]? = some c ∧ c.res.isSome ∧ c'.inv = c.inv ∧ (c'.fin = false → c.fin = false) := by
    intro i c' hc' hr
    rcases f1 i c' hc' with ⟨c, hc, ⟨a1, a2, _, _, _, a6, _⟩⟩ | ⟨_, _, h0, _⟩
    · have hres : c'.res = c.res := by
        rcases a2 with a2 | ⟨_, k0, v0, h0, e0, he, _⟩
        · exact a2
        · exact absurd he (hne i k0 v0 h0 e0)
      have hcr : c.res.isSome := by rw [← hres]; exact hr
      refine ⟨c, hc, hcr, ?_, a6⟩
      rcases a1 with a1 | ⟨hw, _, _⟩
      · exact a1
      · rcases hi.core.resSt i c hc hcr with h | h <;> (rw [hw] at h; cases h)
    · rw [h0] at hr; cases hr
  refine ⟨?_, ?_⟩
  · intro i c' hc' hr hf
    obtain ⟨c, hc, hcr, hinv, hfin⟩ := back i c' hc' hr
    rw [hinv]; exact h.1 i c hc hcr (hfin hf)
  · intro i c' hcur hc'
    rcases cur_frame s s' e hs i hcur with h0 | ⟨he, c, hc, hcr, hcf⟩
    · obtain ⟨c0, _, g1, _, _, _, g5, _⟩ := hi.core.curSome i h0
      obtain ⟨c1, hc1⟩ := f2 i c0 g1
      rw [hc'] at hc1; cases hc1
      rcases f1 i c' hc' with ⟨c, hc, ⟨a1, _⟩⟩ | ⟨hn, _⟩
      · rw [g1] at hc; cases hc
        have hcr : c0.res.isSome := by rw [g5]; rfl
        have : c'.inv = c0.inv := by
          rcases a1 with a1 | ⟨hw, _, _⟩
          · exact a1
          · rcases hi.core.resSt i c0 g1 hcr with h | h <;> (rw [hw] at h; cases h)
        rw [this]; exact h.2 i c0 h0 g1
      · rw [g1] at hn; cases hn
    · rcases f1 i c' hc' with ⟨c0, hc0, ⟨a1, _⟩⟩ | ⟨hn, _⟩
      · rw [hc] at hc0; cases hc0
        have : c'.inv = c.inv := by
          rcases a1 with a1 | ⟨_, _, he2⟩
          · exact a1
          · rw [he] at he2; cases he2
        rw [this]; exact h.1 i c hc hcr hcf
      · rw [hc] at hn; cases hn

theorem latest_leave (s s' : St) (hi : Inv s) (lt : Option Nat) (j k v : Nat) (hh : Bool) (er : Nat)
    (hs : step s (.leave j k v hh er) = some s') : LatestOk s' (some k) := by
  have hs0 := hs
  simp only [step] at hs0; split at hs0 <;> try simp at hs0
  rename_i c hc
  obtain ⟨⟨hrun, hck, _⟩, hs1⟩ := hs0
  have hlt := lt_of_getElem? hc
  have hcnf : c.fin = false := by
    cases hcf : c.fin
    · rfl
    · rcases (hi.core.finSt j c hc).1 hcf with h | h <;> (rw [hrun] at h; cases h)
  subst hs1
  refine ⟨?_, ?_⟩
  · intro i c' hc' hr hf
    by_cases hij : i = j
    · subst hij
      simp [setCall, hlt] at hc'; subst hc'
      simp [hck]
    · exfalso
      have hc0 : s.calls[i]? = some c' := by
        simp [setCall, List.getElem?_set, Ne.symm hij] at hc'; exact hc'
      have hst : c'.ci.st = .returned := by
        rcases hi.core.resSt i c' hc0 hr with h | h
        · exact h
        · have := (hi.core.finSt i c' hc0).2 h; rw [hf] at this; cases this
      exact running_excl s hi i j c' c hc0 hc hij hrun (Or.inl hst)
  · intro i c' hcur hc'
    exfalso
    have hcur0 : s.cur = some i := hcur
    obtain ⟨c0, _, g1, g2, _, g4, _⟩ := hi.core.curSome i hcur0
    have hij : i ≠ j := by
      intro e; subst e; rw [hc] at g1; cases g1; rw [hcnf] at g4; cases g4
    rcases Nat.lt_or_gt_of_ne hij with h | h
    · have h1 := hi.core.nonceLt i j c0 c g1 hc h
      have h2 := hi.core.nonceLe j c hc
      omega
    · rcases (hi.core.finSt i c0 g1).1 g4 with h0 | h0
      · exact running_excl s hi i j c0 c g1 hc hij hrun (Or.inl h0)
      · have hch := hi.core.chain
        have := Chain.all_below_closed (chainSlot s) hch i c0.ci (chain_get s i c0 g1)
          (by simp [h0, Chain.IS.started]) j h
        simp [Chain.isClosed, chain_get s j c hc, hrun] at this


/-! ## clause: released references are release-invoked -/

def RelInvOk (s : St) (ri : List Nat) : Prop :=
  (∀ (b r : Nat) (pc : RelPc), s.th[b]? = some (.rel r pc) → r ∈ ri) ∧
  (∀ (r : Nat) (k : CbKind) (pc : Pc) (f sf : Bool) (t : Option Nat),
    s.th[r]? = some (.ref k pc false f sf t) → pc ≠ .inv → k ≠ .hook → r ∈ ri)

theorem relInvOk_step (s s' : St) (e : Ev) (ri ri' : List Nat) (h : RelInvOk s ri)
    (hs : step s e = some s') (hsub : ∀ r, r ∈ ri → r ∈ ri')
    (hnew : ∀ b r, e = .invRelease b r → r ∈ ri') : RelInvOk s' ri' := by
  obtain ⟨f1, _⟩ := th_frame s s' e hs
  refine ⟨?_, ?_⟩
  · intro b r pc hb
    rcases f1 b _ hb with ⟨x, hx, hst⟩ | ⟨_, hnw⟩
    · cases x with
      | rel r0 pc0 => simp [ThStep] at hst; subst hst; exact hsub _ (h.1 b _ pc0 hx)
      | ref k0 pc0 l f sf t => simp [ThStep] at hst
      | ctx c cl pc0 u => simp [ThStep] at hst
    · rcases hnw with ⟨k, _, _, he⟩ | ⟨_, he⟩ | ⟨r0, he, hx⟩ | ⟨c, cl, _, he⟩
      · cases he
      · cases he
      · cases hx; exact hnew b r he
      · cases he
  · intro r k pc f sf t hr hpc hk
    rcases f1 r _ hr with ⟨x, hx, hst⟩ | ⟨_, hnw⟩
    · cases x with
      | rel r0 pc0 => simp [ThStep] at hst
      | ctx c cl pc0 u => simp [ThStep] at hst
      | ref k0 pc0 l f0 sf0 t0 =>
        simp only [ThStep] at hst
        obtain ⟨rfl, hpcs, hls, hfresh⟩ := hst
        cases l with
        | false =>
          by_cases hp0 : pc0 = .inv
          · have := hfresh hp0 hpc; cases this
          · exact hsub _ (h.2 r k pc0 f0 sf0 t0 hx hp0 hk)
        | true =>
          rcases hls with hl | ⟨hl, _⟩ | ⟨_, _, ⟨b, _, hb⟩ | ⟨_, hk0⟩⟩
          · cases hl
          · cases hl
          · exact hsub _ (h.1 b r .cs hb)
          · exact absurd hk0 hk
    · rcases hnw with ⟨k0, _, _, he⟩ | ⟨_, he⟩ | ⟨r0, _, he⟩ | ⟨c, cl, _, he⟩
      · cases he; exact absurd rfl hpc
      · cases he; exact absurd rfl hpc
      · cases he
      · cases he

/-! ## clause: SetContext calls that have not returned are in flight -/

def CtxOk (s : St) (cc : List Nat) : Prop :=
  ∀ (a c : Nat) (cl : Bool) (pc : Pc) (u : Bool), s.th[a]? = some (.ctx c cl pc u) → pc ≠ .retd → a ∈ cc

theorem ctxOk_step (s s' : St) (e : Ev) (cc cc' : List Nat) (h : CtxOk s cc) (hs : step s e = some s')
    (hsub : ∀ a, a ∈ cc → (∀ r, e ≠ .retSetCtx a r) → a ∈ cc')
    (hnew : ∀ a c cl, e = .invSetCtx a c cl → a ∈ cc') : CtxOk s' cc' := by
  obtain ⟨f1, _⟩ := th_frame s s' e hs
  intro a c cl pc u ha hpc
  rcases f1 a _ ha with ⟨x, hx, hst⟩ | ⟨_, hnw⟩
  · cases x with
    | rel r0 pc0 => simp [ThStep] at hst
    | ref k0 pc0 l f sf t => simp [ThStep] at hst
    | ctx c0 cl0 pc0 u0 =>
      simp only [ThStep] at hst
      obtain ⟨rfl, rfl, hpcs⟩ := hst
      have hp0 : pc0 ≠ .retd := by
        rcases hpcs with h1 | ⟨h1, _⟩ | ⟨_, h1, _⟩
        · rw [← h1]; exact hpc
        · rw [h1]; simp
        · exact absurd h1 hpc
      refine hsub a (h a c cl pc0 u0 hx hp0) ?_
      intro r he
      -- the return of that very call makes it `retd`
      subst he
      have hs0 := hs
      simp only [step, hx] at hs0
      cases pc0 <;> simp at hs0
      obtain ⟨_, rfl⟩ := hs0
      simp [lt_of_getElem? hx] at ha
      exact hpc ha.1.symm
  · rcases hnw with ⟨k0, _, _, he⟩ | ⟨_, he⟩ | ⟨r0, _, he⟩ | ⟨c0, cl0, he, _⟩
    · cases he
    · cases he
    · cases he
    · exact hnew a c0 cl0 he


/-! ## clause: pending `released()` sections belong to entries whose `released()` was called -/

def RunsOk (s : St) (iv : List Nat) : Prop :=
  ∀ i ∈ s.relRuns, ∃ (c : Call) (k : Nat), s.calls[i]? = some c ∧ c.inv = some k ∧ k ∈ iv

theorem runsOk_step (s s' : St) (e : Ev) (iv iv' : List Nat) (hi : Inv s) (hx : Idx s) (h : RunsOk s iv)
    (hs : step s e = some s') (hsub : ∀ k, k ∈ iv → k ∈ iv') (hnew : ∀ k, e = .envReleased k → k ∈ iv') :
    RunsOk s' iv' := by
  intro i hmem
  rcases relRuns_frame s s' e hs i hmem with h1 | ⟨k, c, he, hc, hk⟩
  · obtain ⟨c, k, hc, hk, hkm⟩ := h i h1
    obtain ⟨c', hc', g, _⟩ := call_persist s s' e hi hx hs i c hc
    exact ⟨c', k, hc', g k hk, hsub k hkm⟩
  · obtain ⟨c', hc', g, _⟩ := call_persist s s' e hi hx hs i c hc
    exact ⟨c', k, hc', g k hk, hnew k he⟩

/-! ## clause: what was delivered (`told`) was stored, to a recording reference that was added -/

def ToldOk (s : St) (told : List (Nat × Nat)) : Prop :=
  ∀ p ∈ told, (∃ (i : Nat) (c : Call), s.calls[i]? = some c ∧ c.inv = some p.2 ∧ c.stored = true) ∧
    (∃ pc l f sf t, s.th[p.1]? = some (.ref .rcd pc l f sf t) ∧ pc ≠ .inv)

/-- a reference entry that has been added stays an added entry of the same kind -/
theorem ref_persist (s s' : St) (e : Ev) (hs : step s e = some s') (r : Nat) (k : CbKind) (pc : Pc)
    (l f sf : Bool) (t : Option Nat) (h : s.th[r]? = some (.ref k pc l f sf t)) (hpc : pc ≠ .inv) :
    ∃ pc' l' f' sf' t', s'.th[r]? = some (.ref k pc' l' f' sf' t') ∧ pc' ≠ .inv := by
  obtain ⟨f1, f2⟩ := th_frame s s' e hs
  obtain ⟨x', hx'⟩ := f2 r _ h
  rcases f1 r x' hx' with ⟨x, hx, hst⟩ | ⟨hn, _⟩
  · rw [h] at hx; cases hx
    cases x' with
    | rel r0 pc0 => simp [ThStep] at hst
    | ctx c cl pc0 u => simp [ThStep] at hst
    | ref k' pc' l' f' sf' t' =>
      simp only [ThStep] at hst
      obtain ⟨rfl, hpcs, _⟩ := hst
      refine ⟨pc', l', f', sf', t', hx', ?_⟩
      rcases hpcs with h1 | ⟨h1, _⟩ | ⟨_, h1, _⟩
      · rw [h1]; exact hpc
      · exact absurd h1 hpc
      · rw [h1]; simp
  · rw [h] at hn; cases hn

theorem toldOk_step (s s' : St) (e : Ev) (told : List (Nat × Nat)) (hi : Inv s) (hx : Idx s)
    (h : ToldOk s told) (hs : step s e = some s') : ToldOk s' told := by
  intro p hp
  obtain ⟨⟨i, c, hc, hk, hst⟩, ⟨pc, l, f, sf, t, hth, hpc⟩⟩ := h p hp
  refine ⟨?_, ?_⟩
  · obtain ⟨f1, f2, _⟩ := calls_frame s s' e hs
    obtain ⟨c', hc', g, _⟩ := call_persist s s' e hi hx hs i c hc
    refine ⟨i, c', hc', g _ hk, ?_⟩
    rcases f1 i c' hc' with ⟨c0, h0, ⟨_, _, _, _, _, _, a7, _⟩⟩ | ⟨hn, _⟩
    · rw [hc] at h0; cases h0; exact a7 hst
    · rw [hc] at hn; cases hn
  · obtain ⟨pc', l', f', sf', t', h1, h2⟩ := ref_persist s s' e hs p.1 .rcd pc l f sf t hth hpc
    exact ⟨pc', l', f', sf', t', h1, h2⟩

/-! ## clause: an owed delivery is the delivery of the stored result to an added recording reference -/

def VOk (s : St) : Prop :=
  ∀ (r v er : Nat), CbItem.refcb r true true v er ∈ s.pend.flatten →
    (∃ i, s.cur = some i) ∧ ∃ pc l f sf t, s.th[r]? = some (.ref .rcd pc l f sf t) ∧ pc ≠ .inv

theorem vOk_step (s s' : St) (e : Ev) (hi : Inv s) (ht' : ThInv s'.th) (h : VOk s)
    (hs : step s e = some s') : VOk s' := by
  intro r v er hmem
  rcases items_frame s s' e hi hs _ hmem with hold | hnew
  · obtain ⟨⟨i, hcur⟩, pc, l, f, sf, t, hth, hpc⟩ := h r v er hold
    have hl : isLock e = false := by
      cases hl : isLock e
      · rfl
      · have := lock_free s s' e hs hl; rw [this] at hold; simp at hold
    refine ⟨⟨i, by rw [(nonlock_frame s s' e hs hl).2.1]; exact hcur⟩, ?_⟩
    exact ref_persist s s' e hs r .rcd pc l f sf t hth hpc
  · obtain ⟨k, pc, f, sf, t, i, hth, hk, hvis, hcur, _, _⟩ := newItem_deliver s s' r true v er hnew
    have hkr : k = .rcd := by simpa using hvis
    subst hkr
    refine ⟨⟨i, hcur⟩, pc, true, f, sf, t, hth, ?_⟩
    intro hp; subst hp
    have := ht'.fresh r _ _ _ _ _ hth; simp at this


/-! ## clause: every owed call of a release function is justified -/

def NoLive (s : St) : Prop := ∀ (a : Nat) (x : TS), s.th[a]? = some x → x.isLive = false

/-- why the release function of call `i` (entry `k`) may run: its `released()` was called; the
critical section that owes the call belongs to a `SetContext` in flight; no reference is held; or
its result was never stored (so never given to anyone) -/
def Just (s : St) (iv cc : List Nat) (i k : Nat) : Prop :=
  k ∈ iv ∨
  (∃ a, s.owner = .thr a ∧ a ∈ cc ∧ ∃ c cl u, s.th[a]? = some (.ctx c cl .done u)) ∨
  NoLive s ∨
  (∃ c, s.calls[i]? = some c ∧ c.stored = false)

def JOk (s : St) (iv cc : List Nat) : Prop :=
  ∀ (i k seen : Nat), CbItem.rel i k seen ∈ s.pend.flatten → Just s iv cc i k

theorem noLive_of_count (s : St) (h : liveRefs s = 0) : NoLive s := by
  intro a x hx
  cases hl : x.isLive
  · rfl
  · have := countP_pos_of_getElem? TS.isLive s.th a x hx hl
    unfold liveRefs at h; omega

theorem just_nonlock (s s' : St) (e : Ev) (iv iv' cc cc' : List Nat) (i k : Nat)
    (hs : step s e = some s') (hl : isLock e = false) (hne : s.pend ≠ [])
    (hiv : ∀ x, x ∈ iv → x ∈ iv')
    (hcc : ∀ a, a ∈ cc → (∀ r, e ≠ .retSetCtx a r) → a ∈ cc')
    (h : Just s iv cc i k) : Just s' iv' cc' i k := by
  obtain ⟨hown, _, _⟩ := nonlock_frame s s' e hs hl
  obtain ⟨t1, t2⟩ := th_frame s s' e hs
  rcases h with h | ⟨a, ho, ha, c, cl, u, hth⟩ | h | ⟨c, hc, hst⟩
  · exact Or.inl (hiv k h)
  · right; left
    -- the SetContext that owns the section cannot return before the section is over
    have hnr : ∀ r, e ≠ .retSetCtx a r := by
      intro r he; subst he
      have hs0 := hs
      simp only [step, hth] at hs0
      simp [unlockedFor, ho] at hs0
      have : s.pend = [] := by simpa using hs0.1.1
      exact hne this
    refine ⟨a, by rw [hown]; exact ho, hcc a ha hnr, ?_⟩
    obtain ⟨x', hx'⟩ := t2 a _ hth
    rcases t1 a x' hx' with ⟨x, hx, hstp⟩ | ⟨hn, _⟩
    · rw [hth] at hx; cases hx
      cases x' with
      | rel r0 pc0 => simp [ThStep] at hstp
      | ref k0 pc0 l f sf t => simp [ThStep] at hstp
      | ctx c' cl' pc' u' =>
        simp only [ThStep] at hstp
        obtain ⟨rfl, rfl, hp⟩ := hstp
        rcases hp with hp | ⟨hp, _⟩ | ⟨_, _, r, he⟩
        · subst hp; exact ⟨c', cl', u', hx'⟩
        · cases hp
        · exact absurd he (hnr r)
    · rw [hth] at hn; cases hn
  · right; right; left
    intro a x' hx'
    rcases t1 a x' hx' with ⟨x, hx, hstp⟩ | ⟨_, hnw⟩
    · have hxl := h a x hx
      cases x with
      | rel r0 pc0 => cases x' <;> simp [ThStep] at hstp <;> rfl
      | ctx c cl pc0 u => cases x' <;> simp [ThStep] at hstp <;> rfl
      | ref k0 pc0 l f sf t =>
        cases x' with
        | rel r0 pc0 => simp [ThStep] at hstp
        | ctx c cl pc1 u => simp [ThStep] at hstp
        | ref k1 pc1 l1 f1 sf1 t1 =>
          simp only [ThStep] at hstp
          obtain ⟨_, _, hls, _⟩ := hstp
          simp [TS.isLive] at hxl ⊢
          subst hxl
          rcases hls with h1 | ⟨_, _, he⟩ | ⟨h1, _⟩
          · exact h1
          · subst he; simp [isLock] at hl
          · cases h1
    · rcases hnw with ⟨k0, _, _, rfl⟩ | ⟨_, rfl⟩ | ⟨r0, _, rfl⟩ | ⟨c0, cl0, _, rfl⟩ <;> rfl
  · right; right; right
    obtain ⟨f1, f2, _⟩ := calls_frame s s' e hs
    obtain ⟨c', hc'⟩ := f2 i c hc
    refine ⟨c', hc', ?_⟩
    rcases f1 i c' hc' with ⟨c0, h0, ⟨_, _, _, _, _, _, _, a8, _⟩⟩ | ⟨hn, _⟩
    · rw [hc] at h0; cases h0
      cases hcs : c'.stored
      · rfl
      · rcases a8 hcs with h1 | h1
        · rw [hst] at h1; cases h1
        · subst h1; simp [isLock] at hl
    · rw [hc] at hn; cases hn


theorem setCtx_facts (s s' : St) (a : Nat) (hs : step s (.setCtxCS a) = some s') :
    s'.owner = .thr a ∧ (∃ c cl u0, s.th[a]? = some (.ctx c cl .inv u0)) ∧
    ∃ c cl u, s'.th[a]? = some (.ctx c cl .done u) := by
  simp only [step] at hs; split at hs <;> try simp at hs
  rename_i c cl u ha
  have hlt := lt_of_getElem? ha
  split at hs <;> simp at hs <;> obtain ⟨_, rfl⟩ := hs
  · exact ⟨rfl, ⟨c, cl, u, ha⟩, c, cl, false, by simp [hlt]⟩
  · refine ⟨?_, ⟨c, cl, u, ha⟩, c, cl, true, ?_⟩
    · rw [startResolve_eq]; split <;> simp [spawned]
    · rw [startResolve_th, shutdown_th]
      split
      · rw [tellAll_get]; simp [hlt, tell1]
      · simp [hlt]

/-- the justification of a release call at the moment the critical section decides to make it -/
theorem just_new (s s' : St) (e : Ev) (iv cc : List Nat) (i k : Nat) (hi : Inv s) (hx : Idx s)
    (hr : RunsOk s iv) (hc : CtxOk s cc) (hs : step s e = some s')
    (h0 : released s i = false) (h1 : released s' i = true)
    (hk : ∃ c', s'.calls[i]? = some c' ∧ c'.inv = some k) : Just s' iv cc i k := by
  rcases flip_cases s s' e i hi hs h0 h1 with ⟨_, s1, hkind, _⟩ | ⟨he, c, val, err, hci, _, _, hst, _, heq⟩
  · cases hkind with
    | ctxChange a he _ _ =>
      subst he
      obtain ⟨g1, ⟨c, cl, u0, g2⟩, g3⟩ := setCtx_facts s s' a hs
      exact Or.inr (Or.inl ⟨a, g1, hc a c cl .inv u0 g2 (by simp), g3⟩)
    | releasedCb j he hj _ =>
      left
      obtain ⟨c, k0, hc0, hk0, hm⟩ := hr i (List.mem_of_getElem? hj)
      obtain ⟨c', hc', g, _⟩ := call_persist s s' e hi hx hs i c hc0
      obtain ⟨c2, hc2, hk2⟩ := hk
      rw [hc'] at hc2; cases hc2
      rw [g k0 hk0] at hk2; cases hk2
      exact hm
    | lastRef b he hl h' =>
      right; right; left
      apply noLive_of_count
      rw [h']; simpa using hl
  · right; right; right
    subst heq
    exact ⟨{ c with fin := true, released := true }, by simp [staleSt, setCall, lt_of_getElem? hci], hst⟩

theorem jOk_step (s s' : St) (e : Ev) (iv iv' cc cc' : List Nat) (hi : Inv s) (hx : Idx s)
    (hp' : PendOk s') (hr : RunsOk s iv) (hc : CtxOk s cc) (h : JOk s iv cc) (hs : step s e = some s')
    (hiv : ∀ x, x ∈ iv → x ∈ iv')
    (hcc : ∀ a, a ∈ cc → (∀ r, e ≠ .retSetCtx a r) → a ∈ cc') : JOk s' iv' cc' := by
  intro i k seen hmem
  rcases items_frame s s' e hi hs _ hmem with hold | hnew
  · have hl : isLock e = false := by
      cases hl : isLock e
      · rfl
      · have := lock_free s s' e hs hl; rw [this] at hold; simp at hold
    have hne : s.pend ≠ [] := by intro h0; rw [h0] at hold; simp at hold
    exact just_nonlock s s' e iv iv' cc cc' i k hs hl hne hiv hcc (h i k seen hold)
  · obtain ⟨h0, h1, _⟩ := newItem_rel s s' i k seen hnew
    have hin : relIn s'.pend i k := by
      simp only [List.mem_flatten] at hmem
      obtain ⟨b, hb, hm⟩ := hmem
      exact ⟨b, hb, seen, hm⟩
    have hj := just_new s s' e iv cc i k hi hx hr hc hs h0 h1 (hp' i k hin)
    -- a critical section is an internal event: the monitor's lists did not move... but they may only grow
    rcases hj with h | ⟨a, ho, ha, hth⟩ | h | h
    · exact Or.inl (hiv k h)
    · refine Or.inr (Or.inl ⟨a, ho, hcc a ha ?_, hth⟩)
      intro r he; subst he
      -- a `ret` does not call release functions
      have := (nonlock_frame s s' _ hs (by simp [isLock])).2.2 _ hmem
      have hfl := flip_cases s s' _ i hi hs h0 h1
      rcases hfl with ⟨_, s1, hkind, _⟩ | ⟨he, _⟩
      · cases hkind with
        | ctxChange a he _ _ => cases he
        | releasedCb j he _ _ => cases he
        | lastRef b he _ _ => rcases he with he | he <;> cases he
      · cases he
    · exact Or.inr (Or.inr (Or.inl h))
    · exact Or.inr (Or.inr (Or.inr h))


/-! ## the simulation -/

def RelHeld (s : St) (m : HeldSt) : Prop :=
  Inv s ∧ Idx s ∧ ThInv s.th ∧ PendOk s ∧ LatestOk s m.latest ∧ RelInvOk s m.relInv ∧ CtxOk s m.ctxCalls ∧
  RunsOk s m.inval ∧ ToldOk s m.told ∧ VOk s ∧ JOk s m.inval m.ctxCalls

theorem relHeld_step (s s' : St) (e : Ev) (m m' : HeldSt) (hR : RelHeld s m) (hs : step s e = some s')
    (hlat : LatestOk s' m'.latest) (htold : ToldOk s' m'.told)
    (hri : ∀ r, r ∈ m.relInv → r ∈ m'.relInv) (hri2 : ∀ b r, e = .invRelease b r → r ∈ m'.relInv)
    (hcc : ∀ a, a ∈ m.ctxCalls → (∀ r, e ≠ .retSetCtx a r) → a ∈ m'.ctxCalls)
    (hcc2 : ∀ a c cl, e = .invSetCtx a c cl → a ∈ m'.ctxCalls)
    (hiv : ∀ k, k ∈ m.inval → k ∈ m'.inval) (hiv2 : ∀ k, e = .envReleased k → k ∈ m'.inval) :
    RelHeld s' m' := by
  obtain ⟨hi, hx, ht, hp, _, hrel, hctx, hruns, _, hv, hj⟩ := hR
  have hi' := step_inv s e s' hi hs
  have hx' := idx_step s s' e hx hs
  have ht' := step_thinv s s' e ht hs
  have hp' := pendOk_step s s' e hi hx hp hs
  exact ⟨hi', hx', ht', hp', hlat, relInvOk_step s s' e _ _ hrel hs hri hri2,
    ctxOk_step s s' e _ _ hctx hs hcc hcc2, runsOk_step s s' e _ _ hi hx hruns hs hiv hiv2, htold,
    vOk_step s s' e hi ht' hv hs, jOk_step s s' e _ _ _ _ hi hx hp' hruns hctx hj hs hiv hcc⟩

theorem held_sim_step (s : St) (e : Ev) (s' : St) (m : HeldSt) (hR : RelHeld s m) (hs : step s e = some s') :
    match Ev.obs e with
    | none => RelHeld s' m
    | some o => ∃ m', monHeld.step m o = some m' ∧ RelHeld s' m' := by
  have hR0 := hR
  obtain ⟨hi, hx, ht, hp, hlat, hrel, hctx, hruns, htold, hv, hj⟩ := hR
  -- events on which the monitor state does not move
  have same : (∀ j k v hh er, e ≠ .leave j k v hh er) → (∀ b r, e ≠ .invRelease b r) →
      (∀ a c cl, e ≠ .invSetCtx a c cl) → (∀ a r, e ≠ .retSetCtx a r) → (∀ k, e ≠ .envReleased k) →
      RelHeld s' m := by
    intro n1 n2 n3 n4 n5
    exact relHeld_step s s' e m m hR0 hs (latest_other s s' e hi _ hlat hs n1) (toldOk_step s s' e _ hi hx htold hs)
      (fun _ h => h) (fun b r he => absurd he (n2 b r)) (fun _ h _ => h) (fun a c cl he => absurd he (n3 a c cl))
      (fun _ h => h) (fun k he => absurd he (n5 k))
  cases e with
  | leave j k v hh er =>
    refine ⟨{ m with latest := some k }, by simp [Ev.obs, monHeld], ?_⟩
    exact relHeld_step s s' _ m _ hR0 hs (latest_leave s s' hi m.latest j k v hh er hs)
      (toldOk_step s s' _ _ hi hx htold hs) (fun _ h => h) (by intro b r he; cases he) (fun _ h _ => h)
      (by intro a c cl he; cases he) (fun _ h => h) (by intro k he; cases he)
  | invRelease b r =>
    refine ⟨{ m with relInv := r :: m.relInv }, by simp [Ev.obs, monHeld], ?_⟩
    exact relHeld_step s s' _ m _ hR0 hs (latest_other s s' _ hi _ hlat hs (by simp))
      (toldOk_step s s' _ _ hi hx htold hs) (fun _ h => List.mem_cons_of_mem _ h)
      (by intro b' r' he; cases he; exact List.mem_cons_self) (fun _ h _ => h)
      (by intro a c cl he; cases he) (fun _ h => h) (by intro k he; cases he)
  | envReleased k =>
    refine ⟨{ m with inval := k :: m.inval }, by simp [Ev.obs, monHeld], ?_⟩
    exact relHeld_step s s' _ m _ hR0 hs (latest_other s s' _ hi _ hlat hs (by simp))
      (toldOk_step s s' _ _ hi hx htold hs) (fun _ h => h) (by intro b r he; cases he) (fun _ h _ => h)
      (by intro a c cl he; cases he) (fun _ h => List.mem_cons_of_mem _ h)
      (by intro k' he; cases he; exact List.mem_cons_self)
  | invSetCtx a c cl =>
    refine ⟨{ m with ctxCalls := a :: m.ctxCalls }, by simp [Ev.obs, monHeld], ?_⟩
    exact relHeld_step s s' _ m _ hR0 hs (latest_other s s' _ hi _ hlat hs (by simp))
      (toldOk_step s s' _ _ hi hx htold hs) (fun _ h => h) (by intro b r he; cases he)
      (fun _ h _ => List.mem_cons_of_mem _ h) (by intro a' c' cl' he; cases he; exact List.mem_cons_self)
      (fun _ h => h) (by intro k he; cases he)
  | retSetCtx a u =>
    refine ⟨{ m with ctxCalls := m.ctxCalls.erase a }, by simp [Ev.obs, monHeld], ?_⟩
    exact relHeld_step s s' _ m _ hR0 hs (latest_other s s' _ hi _ hlat hs (by simp))
      (toldOk_step s s' _ _ hi hx htold hs) (fun _ h => h) (by intro b r he; cases he)
      (by
        intro a' h hne
        have : a' ≠ a := by intro e; subst e; exact hne u rfl
        exact (List.mem_erase_of_ne this).mpr h)
      (by intro a' c' cl' he; cases he) (fun _ h => h) (by intro k he; cases he)
  | cb it =>
    cases it with
    | rel i k seen =>
      have hs0 := hs
      simp only [step] at hs0; split at hs0 <;> try simp at hs0
      rename_i b rest hpe
      have hmem : CbItem.rel i k seen ∈ s.pend.flatten := by
        rw [hpe]; simp; exact Or.inl hs0.1
      have hjust := hj i k seen hmem
      have hin : relIn s.pend i k := ⟨b, by rw [hpe]; simp, seen, hs0.1⟩
      obtain ⟨ci, hci, hcik⟩ := hp i k hin
      have hok : monHeld.step m (.cbinRel k seen) = some m := by
        simp [monHeld]
        intro hninv hcc0 r k' hpm hk'
        subst hk'
        by_cases hr : r ∈ m.relInv
        · exact hr
        · exfalso
          obtain ⟨⟨i', c', hc', hk', hst'⟩, ⟨pc, l, f, sf, t, hth, hpc⟩⟩ := htold (r, k') hpm
          rcases hjust with h | ⟨a, _, ha, _⟩ | h | ⟨c0, hc0, hs0'⟩
          · exact hninv h
          · rw [hcc0] at ha; cases ha
          · have hl := h r _ hth
            cases l
            · exact hr (hrel.2 r .rcd pc f sf t hth hpc (by simp))
            · simp [TS.isLive] at hl
          · have : i' = i := hx.inj i' i c' ci k' hc' hci hk' hcik
            subst this; rw [hc'] at hc0; cases hc0; rw [hst'] at hs0'; cases hs0'
      exact ⟨m, by simpa [Ev.obs] using hok, same (by simp) (by simp) (by simp) (by simp) (by simp)⟩
    | refcb r vis res v er =>
      cases vis with
      | false => exact same (by simp) (by simp) (by simp) (by simp) (by simp)
      | true =>
        cases res with
        | false => exact ⟨m, by simp [Ev.obs, monHeld], same (by simp) (by simp) (by simp) (by simp) (by simp)⟩
        | true =>
          have hs0 := hs
          simp only [step] at hs0; split at hs0 <;> try simp at hs0
          rename_i b rest hpe
          have hmem : CbItem.refcb r true true v er ∈ s.pend.flatten := by
            rw [hpe]; simp; exact Or.inl hs0.1
          obtain ⟨⟨i, hcur⟩, pc, l, f, sf, t, hth, hpc⟩ := hv r v er hmem
          obtain ⟨c, hh, hc, _, hst, _, hres, _⟩ := hi.core.curSome i hcur
          have hlt := hlat.2 i c hcur hc
          have hinv := hx.res i c hc (by rw [hres]; rfl)
          obtain ⟨k, hk⟩ := Option.isSome_iff_exists.mp hinv
          have hmk : m.latest = some k := by rw [hlt, hk]
          refine ⟨{ m with told := (r, k) :: m.told }, by simp [Ev.obs, monHeld, hmk], ?_⟩
          have hone : ToldOk s [(r, k)] := by
            intro p hp1; simp at hp1; subst hp1
            exact ⟨⟨i, c, hc, hk, hst⟩, ⟨pc, l, f, sf, t, hth, hpc⟩⟩
          have hone' := toldOk_step s s' _ _ hi hx hone hs
          have hold' := toldOk_step s s' _ _ hi hx htold hs
          exact relHeld_step s s' _ m _ hR0 hs (latest_other s s' _ hi _ hlat hs (by simp))
            (by
              intro p hp1
              simp only [List.mem_cons] at hp1
              rcases hp1 with rfl | hp1
              · exact hone' _ (by simp)
              · exact hold' p hp1)
            (fun _ h => h) (by intro b' r' he; cases he) (fun _ h _ => h) (by intro a c cl he; cases he)
            (fun _ h => h) (by intro k' he; cases he)
  | cfg kp c t => exact ⟨m, rfl, same (by simp) (by simp) (by simp) (by simp) (by simp)⟩
  | invAddRef a kd => exact ⟨m, rfl, same (by simp) (by simp) (by simp) (by simp) (by simp)⟩
  | addRefCS a => exact same (by simp) (by simp) (by simp) (by simp) (by simp)
  | retAddRef a => exact ⟨m, rfl, same (by simp) (by simp) (by simp) (by simp) (by simp)⟩
  | relSwap b => exact same (by simp) (by simp) (by simp) (by simp) (by simp)
  | relCS b => exact same (by simp) (by simp) (by simp) (by simp) (by simp)
  | retRelease b => exact ⟨m, rfl, same (by simp) (by simp) (by simp) (by simp) (by simp)⟩
  | setCtxCS a => exact same (by simp) (by simp) (by simp) (by simp) (by simp)
  | envCancelCtx c => exact ⟨m, rfl, same (by simp) (by simp) (by simp) (by simp) (by simp)⟩
  | relRun r => exact same (by simp) (by simp) (by simp) (by simp) (by simp)
  | enter i k => exact ⟨m, rfl, same (by simp) (by simp) (by simp) (by simp) (by simp)⟩
  | giveUp i => exact same (by simp) (by simp) (by simp) (by simp) (by simp)
  | drained i => exact same (by simp) (by simp) (by simp) (by simp) (by simp)
  | store i => exact same (by simp) (by simp) (by simp) (by simp) (by simp)
  | done i => exact same (by simp) (by simp) (by simp) (by simp) (by simp)
  | invHook a => exact ⟨m, rfl, same (by simp) (by simp) (by simp) (by simp) (by simp)⟩
  | selfRelSwap a => exact same (by simp) (by simp) (by simp) (by simp) (by simp)
  | selfRelCS a => exact same (by simp) (by simp) (by simp) (by simp) (by simp)
  | probe v er => exact ⟨m, rfl, same (by simp) (by simp) (by simp) (by simp) (by simp)⟩
  | quiesce B => exact ⟨m, rfl, same (by simp) (by simp) (by simp) (by simp) (by simp)⟩


/-- **C08 (observable form) `rel_held_obs`.** Every observable trace of the RefCount model is
accepted by `monHeld`: a release function does not run while a recording reference that was given
that result is still held (its `Release` not yet invoked), unless the value was invalidated — its
`released()` callback was called, or a `SetContext` / `ClearContext` is in flight — for every event
list. (Also: a `resolved = true` notification is only delivered after some resolver has returned.) -/
theorem rel_held_obs (es : List Ev) (s : St) (h : model.run model.init es = some s) :
    monHeld.accepts (es.filterMap model.obs) = true :=
  monitor_accepts_of_simulation model monHeld RelHeld
    ⟨init_inv, idx_init, thinv_nil, by intro i k ⟨b, hb, _⟩; simp [model] at hb,
      ⟨by intro i c hc; simp [model] at hc, by intro i c hc; simp [model] at hc⟩,
      ⟨by intro b r pc hb; simp [model] at hb, by intro r k pc f sf t hr; simp [model] at hr⟩,
      by intro a c cl pc u ha; simp [model] at ha,
      by intro i hi; simp [model] at hi,
      by intro p hp; simp [monHeld] at hp,
      by intro r v er hm; simp [model] at hm,
      by intro i k seen hm; simp [model] at hm⟩
    (fun s e s' ms hR hs => by
      have h := held_sim_step s e s' ms hR hs
      cases e with
      | cb it =>
        cases it with
        | refcb r vis res v er => cases vis <;> exact h
        | rel i k seen => exact h
      | _ => exact h) es s h

end UtilModel.RefCount
