import UtilModel.RefCount.ConsRelC
/-!
# refcount consumers: `monC10Fires` and `monC10Alive` accept every trace of the composed model
(a reference handed out by `Wait` / `Resolve` / `ResolveWithReleased` keeps its value alive unless the
value is invalidated; an invalidated value fires `released` by the next quiescence point)
-/
set_option linter.unusedSimpArgs false
set_option linter.unusedVariables false
namespace UtilModel.RefCount.Cons
open UtilModel UtilModel.RefCount

/-- the consumer holds its reference: it has not released it, nor has its caller -/
def Hold (m : C10St) (a : Nat) (c : Con) : Prop :=
  match c.pc with
  | .awaiting | .exitKeep _ _ => True
  | .returned => (∃ ent, (a, ent) ∈ m.held) ∧ a ∉ m.relInv
  | _ => False

def thPc (c : Con) : Pc := if c.pc = .returned then .retd else .done

/-- a stored call that produced the value `v` without error (the one of generation `wnonce` for
`ResolveWithReleased`) -/
def Src (b : St) (c : Con) (v : Nat) : Prop :=
  ∃ (i : Nat) (ci : Call) (h : Bool), b.calls[i]? = some ci ∧ ci.res = some (v, h, 0) ∧ ci.stored = true ∧
    ((∃ cb, c.op = .rwr cb) → ci.nonce = c.wnonce)

def Waits (c : Con) (v : Nat) : Prop := c.pc = .exitKeep v 0 ∨ (c.pc = .awaiting ∧ c.prom = some (v, 0))

structure CC2 (b : St) (m : C10St) (a : Nat) (c : Con) : Prop where
  nr : (∀ cb, c.op ≠ .rwr cb) → c.go = .none ∧ c.wres = false
  pw : (∃ cb, c.op = .rwr cb) → c.prom.isSome = true → c.wres = true
  gwr : c.go ≠ .none → c.wres = true
  st2 : c.pc = .start → c.prom = none
  exw : c.op ≠ .access → ∀ v e, c.pc = .exitWait v e → e ≠ 0
  kw : ∀ v e, c.pc = .exitKeep v e → (∃ cb, c.op = .rwr cb) → c.wres = true
  hp : ∀ ent, (a, ent) ∈ m.held → c.pc = .returned ∧ c.op ≠ .access ∧ ((∃ cb, c.op = .rwr cb) → c.wres = true)
  f2 : c.op = .rwr true → c.go = .done → a ∈ m.fired
  live : Hold m a c → c.go = .none → ∃ f t, b.th[a]? = some (TS.ref .hook (thPc c) true f false t)
  srcw : ∀ v, Waits c v → Src b c v
  hsrc : ∀ k, (a, some k) ∈ m.held → ∃ (i : Nat) (ci : Call), b.calls[i]? = some ci ∧ ci.inv = some k ∧
    ci.stored = true ∧ ((∃ cb, c.op = .rwr cb) → ci.nonce = c.wnonce)
  srcr : c.wres = true → ∃ (i : Nat) (ci : Call), b.calls[i]? = some ci ∧ ci.nonce = c.wnonce ∧ ci.fin = true
  gook : c.wres = true → c.go ≠ .none → ∀ (i : Nat) (ci : Call), b.calls[i]? = some ci → ci.nonce = c.wnonce →
    b.cur ≠ some i
  rdone : c.wres = true → Hold m a c → ¬ LiveTh b a → ∀ (i : Nat) (ci : Call) (v e : Nat), b.calls[i]? = some ci →
    ci.nonce = c.wnonce → ci.res = some (v, true, e) → ci.released = true ∧ relItems b.pend i = 0
  vr : c.wres = true → Hold m a c → c.go = .none →
    (∃ res v e, AItem b a res v e) ∨ ∃ (i : Nat) (ci : Call), b.cur = some i ∧ b.calls[i]? = some ci ∧ ci.nonce = c.wnonce
  why : ∀ v, Waits c v → ∀ k, entryOf m v = some k → k ∈ m.relSeen → k ∈ m.inval ∨ m.anyCtx = true

/-! ## base facts -/

/-- what one step keeps of a call -/
theorem call_persist2 (b b' : St) (be : Ev) (hi : Inv b) (hx : Idx b) (hs : step b be = some b') (i : Nat) (ci : Call)
    (hc : b.calls[i]? = some ci) :
    ∃ ci', b'.calls[i]? = some ci' ∧ (∀ k, ci.inv = some k → ci'.inv = some k) ∧ (ci.res.isSome → ci'.res = ci.res) ∧
      (ci.stored = true → ci'.stored = true) ∧ ci'.nonce = ci.nonce ∧ (ci.released = true → ci'.released = true) ∧
      (ci.fin = true → ci'.fin = true) := by
  obtain ⟨c', hc', g1, g2⟩ := call_persist b b' be hi hx hs i ci hc
  obtain ⟨f1, _, _⟩ := calls_frame b b' be hs
  rcases f1 i c' hc' with ⟨c0, hc0, hstep⟩ | ⟨hn, _⟩
  · rw [hc] at hc0; cases hc0
    refine ⟨c', hc', g1, g2, hstep.2.2.2.2.2.2.1, hstep.2.2.2.1, hstep.2.2.1, ?_⟩
    intro hf
    cases hf' : c'.fin
    · have := hstep.2.2.2.2.2.1 hf'; rw [hf] at this; cases this
    · rfl
  · rw [hc] at hn; cases hn

/-- calls are told apart by their generation -/
theorem nonce_inj (b : St) (hi : Inv b) (i j : Nat) (ci cj : Call) (h1 : b.calls[i]? = some ci)
    (h2 : b.calls[j]? = some cj) (h : ci.nonce = cj.nonce) : i = j := by
  rcases Nat.lt_trichotomy i j with hlt | heq | hgt
  · have := hi.core.nonceLt i j ci cj h1 h2 hlt; omega
  · exact heq
  · have := hi.core.nonceLt j i cj ci h2 h1 hgt; omega

/-- the thread entry of a consumer that holds its reference, along a base step of somebody else -/
theorem hookTh_step (b b' : St) (be : Ev) (a : Nat) (pc0 : Pc) (f : Bool) (t : Option Nat)
    (hth : b.th[a]? = some (TS.ref .hook pc0 true f false t)) (hs : step b be = some b')
    (n1 : be ≠ .selfRelSwap a) (n2 : be ≠ .addRefCS a)
    (n3 : ∀ b0, be = .relCS b0 → b.th[b0]? = some (TS.rel a .cs) → False) :
    ∃ f' t', b'.th[a]? = some (TS.ref .hook pc0 true f' false t') := by
  have hcs : be ≠ .selfRelCS a := by
    intro e; subst e
    simp only [step] at hs; split at hs <;> try simp at hs
    rename_i pc flag told ha
    rw [hth] at ha; cases ha
  obtain ⟨pc', l', f', t', hth'⟩ := self_frame b b' be hs a .hook pc0 true f false t hth n1 hcs
  obtain ⟨f1, _⟩ := th_frame b b' be hs
  rcases f1 a _ hth' with ⟨x, hx, hst⟩ | ⟨hn, _⟩
  · rw [hth] at hx; cases hx
    obtain ⟨_, hpc, hl, _⟩ := hst
    have hpc' : pc' = pc0 := by
      rcases hpc with hp | ⟨_, _, he⟩ | ⟨_, _, he⟩
      · exact hp
      · exact absurd he n2
      · exfalso
        subst he
        simp only [step] at hs; split at hs <;> try simp at hs
        rename_i k l0 f0 sf0 t0 ha
        rw [hth] at ha; cases ha
        exact hs.1.1 rfl
    have hl' : l' = true := by
      rcases hl with hp | ⟨hp, _⟩ | ⟨_, _, hp⟩
      · exact hp
      · cases hp
      · exfalso
        rcases hp with ⟨b0, he, hb0⟩ | ⟨he, _⟩
        · exact n3 b0 he hb0
        · exact hcs he
    subst hpc'; subst hl'
    exact ⟨f', t', hth'⟩
  · rw [hth] at hn; cases hn

theorem cur_drop' (b b' : St) (be : Ev) (a : Nat) (hi : Inv b) (hi' : Inv b') (hs : step b be = some b') (i0 : Nat)
    (h0 : b.cur = some i0) (h1 : b'.cur ≠ some i0) (pc : Pc) (f sf : Bool) (t : Option Nat)
    (hth : b'.th[a]? = some (TS.ref .hook pc true f sf t)) : AItem b' a false 0 0 := by
  have hnone : b'.cur = none := by
    cases hc : b'.cur with
    | none => rfl
    | some i =>
      have := cur_no_swap b b' be hi hi' hs i0 i h0 hc
      subst this; exact absurd hc h1
  exact gone_items b b' be hi hs i0 h0 hnone a .hook pc f sf t hth (by simp)

/-- the entry the monitor computes for a value is the entry of any call that produced it -/
theorem entry_link2 (b : St) (m : C10St) (hx : Idx b) (hv : ValOk b) (hz : ZeroOk b m.zeroEntries) (v k i : Nat)
    (ci : Call) (hh : Bool) (h2 : b.calls[i]? = some ci) (h3 : ci.res = some (v, hh, 0))
    (hk : entryOf m v = some k) : ci.inv = some k := by
  have hinv := hx.res i ci h2 (by rw [h3]; rfl)
  obtain ⟨k', hk'⟩ := Option.isSome_iff_exists.mp hinv
  rw [hk']
  unfold entryOf at hk
  by_cases hv0 : v = 0
  · subst hv0
    simp only [ne_eq, not_true_eq_false, if_false] at hk
    have hmem := hz i ci hh k' h2 h3 hk'
    split at hk
    · rename_i k0 hze
      rw [hze] at hmem
      simp at hmem
      cases hk
      rw [hmem]
    · cases hk
  · simp [hv0] at hk
    rcases hv i ci v hh 0 k' h2 h3 hk' with h0 | h0
    · exact absurd h0 hv0
    · congr 1; omega

theorem thPc_retd (c : Con) (h : thPc c = .retd) : c.pc = .returned := by
  unfold thPc at h
  split at h
  · assumption
  · cases h

/-- the call of generation `wnonce`, traced back one step -/
theorem src_back (b b' : St) (be : Ev) (hi : Inv b) (hi' : Inv b') (hx : Idx b) (hs : step b be = some b') (wn : Nat)
    (hsr : ∃ (i : Nat) (ci : Call), b.calls[i]? = some ci ∧ ci.nonce = wn ∧ ci.fin = true)
    (i : Nat) (ci' : Call) (hc' : b'.calls[i]? = some ci') (hn : ci'.nonce = wn) :
    ∃ ci, b.calls[i]? = some ci ∧ ci.res = ci'.res ∧ ci.nonce = wn ∧ ci.fin = true ∧
      (ci.released = true → ci'.released = true) ∧ (ci'.inv = ci.inv) := by
  obtain ⟨i0, c0, hc0, hn0, hf0⟩ := hsr
  obtain ⟨c0', hc0', _, _, _, hnn, _⟩ := call_persist2 b b' be hi hx hs i0 c0 hc0
  have : i0 = i := nonce_inj b' hi' i0 i c0' ci' hc0' hc' (by rw [hnn, hn0, hn])
  subst this
  rw [hc'] at hc0'; cases hc0'
  obtain ⟨f1, _, _⟩ := calls_frame b b' be hs
  rcases f1 i0 ci' hc' with ⟨c, hc, hstep⟩ | ⟨hnone, _⟩
  · rw [hc0] at hc; cases hc
    have hst := (hi.core.finSt i0 c0 hc0).1 hf0
    refine ⟨c0, hc0, ?_, hn0, hf0, hstep.2.2.1, ?_⟩
    · rcases hstep.2.1 with h | ⟨hrun, _⟩
      · exact h.symm
      · rcases hst with h | h <;> (rw [h] at hrun; cases hrun)
    · rcases hstep.1 with h | ⟨hw, _⟩
      · exact h
      · rcases hst with h | h <;> (rw [h] at hw; cases hw)
  · rw [hc0] at hnone; cases hnone

theorem src_persist (b b' : St) (be : Ev) (hi : Inv b) (hx : Idx b) (hs : step b be = some b') (c : Con) (v : Nat)
    (h : Src b c v) : Src b' c v := by
  obtain ⟨i, ci, hh, hc, hr, hst, hn⟩ := h
  obtain ⟨ci', hc', _, g2, g3, g4, _⟩ := call_persist2 b b' be hi hx hs i ci hc
  exact ⟨i, ci', hh, hc', by rw [g2 (by simp [hr]), hr], g3 hst, fun hop => by rw [g4]; exact hn hop⟩

/-- the base state moves; the new `live` and `vr` clauses are supplied by the caller -/
theorem cc2_base_core (b b' : St) (be : Ev) (m : C10St) (a : Nat) (c : Con) (h : CC2 b m a c)
    (hi : Inv b) (hi' : Inv b') (hx : Idx b) (hs : step b be = some b')
    (hlive' : Hold m a c → c.go = .none → ∃ f t, b'.th[a]? = some (TS.ref .hook (thPc c) true f false t))
    (hvr' : c.wres = true → Hold m a c → c.go = .none →
      (∃ res v e, AItem b' a res v e) ∨ ∃ (i : Nat) (ci : Call), b'.cur = some i ∧ b'.calls[i]? = some ci ∧ ci.nonce = c.wnonce) :
    CC2 b' m a c := by
  exact
    { nr := h.nr, pw := h.pw, gwr := h.gwr, st2 := h.st2, exw := h.exw, kw := h.kw, hp := h.hp, f2 := h.f2
      live := hlive'
      srcw := fun v hw => src_persist b b' be hi hx hs c v (h.srcw v hw)
      hsrc := by
        intro k hk
        obtain ⟨i, ci, hc, g1, g2, g3⟩ := h.hsrc k hk
        obtain ⟨ci', hc', q1, _, q3, q4, _⟩ := call_persist2 b b' be hi hx hs i ci hc
        exact ⟨i, ci', hc', q1 k g1, q3 g2, fun hop => by rw [q4]; exact g3 hop⟩
      srcr := by
        intro hw
        obtain ⟨i, ci, hc, g1, g2⟩ := h.srcr hw
        obtain ⟨ci', hc', _, _, _, q4, _, q6⟩ := call_persist2 b b' be hi hx hs i ci hc
        exact ⟨i, ci', hc', by rw [q4]; exact g1, q6 g2⟩
      gook := by
        intro hw hg i ci' hc' hn hcur'
        obtain ⟨ci, hc, _, hnn, hfin, _⟩ := src_back b b' be hi hi' hx hs c.wnonce (h.srcr hw) i ci' hc' hn
        rcases cur_frame b b' be hs i hcur' with h0 | ⟨_, c2, hc2, _, hf2⟩
        · exact h.gook hw hg i ci hc hnn h0
        · rw [hc] at hc2; cases hc2
          rw [hfin] at hf2; cases hf2
      rdone := by
        intro hw hH hnl i ci' v e hc' hn hr'
        obtain ⟨ci, hc, hres, hnn, hfin, hrm, _⟩ := src_back b b' be hi hi' hx hs c.wnonce (h.srcr hw) i ci' hc' hn
        have hr : ci.res = some (v, true, e) := by rw [hres]; exact hr'
        have hacct := step_acct b b' be i hi hs
        have hemit : emits be i = 0 ∨ ∃ k seen, be = .cb (.rel i k seen) := by
          unfold emits
          cases be with
          | cb it =>
            cases it with
            | rel j k seen =>
              by_cases hj : j = i
              · subst hj; exact Or.inr ⟨k, seen, rfl⟩
              · simp [hj]
            | refcb r vis res v e => exact Or.inl rfl
          | _ => exact Or.inl rfl
        have hrel'b : ∀ x, released b' i = x → ci'.released = x := by
          intro x hx'; simpa [released, hc'] using hx'
        have hrelb : ∀ x, released b i = x → ci.released = x := by
          intro x hx'; simpa [released, hc] using hx'
        by_cases hl : LiveTh b a
        · -- the reference has just been removed: a lock event
          have hgo : c.go ≠ .none := by
            intro hg
            obtain ⟨f, t, hth⟩ := hlive' hH hg
            exact hnl ⟨_, _, _, _, _, hth⟩
          have hlk : isLock be = true := by
            cases hlk : isLock be
            · exact absurd (liveTh_fwd_nonlock b b' be a hs hlk hl) hnl
            · rfl
          have hpe := lock_free b b' be hs hlk
          have hncur := h.gook hw hgo i ci hc hnn
          have hreld : ci.released = true := by
            cases hrr : ci.released
            · exfalso
              have hrl := hi.core.noLeak i ci v e hc hfin hr hrr
              obtain ⟨_, _, _, _, _, hcur⟩ := rel_is_cur b hi.core i hrl
              exact hncur hcur
            · rfl
          have h1 : released b i = true := by simp [released, hc, hreld]
          have h2 : released b' i = true := by simp [released, hc', hrm hreld]
          have hz : relItems ([] : List (List CbItem)) i = 0 := by simp [relItems]
          rw [h1, h2, hpe, hz] at hacct
          exact ⟨hrm hreld, by
            rcases hemit with he | ⟨k, seen, he⟩
            · rw [he] at hacct; omega
            · subst he; simp [isLock] at hlk⟩
        · obtain ⟨q1, q2⟩ := h.rdone hw hH hl i ci v e hc hnn hr
          have h1 : released b i = true := by simp [released, hc, q1]
          have h2 : released b' i = true := by simp [released, hc', hrm q1]
          rw [h1, h2, q2] at hacct
          exact ⟨hrm q1, by omega⟩
      vr := hvr'
      why := h.why }

/-- the base state moves by an event that is not an event of consumer `a` -/
theorem cc2_base (b b' : St) (be : Ev) (m : C10St) (a : Nat) (c : Con) (h : CC2 b m a c)
    (hi : Inv b) (hi' : Inv b') (hx : Idx b) (ht : ThInv b.th) (hrel : RelInvOk b m.relInv)
    (hs : step b be = some b') (n1 : be ≠ .selfRelSwap a) (n2 : be ≠ .addRefCS a)
    (n3 : ∀ res v e, be ≠ .cb (.refcb a false res v e)) : CC2 b' m a c := by
  have hlive' : Hold m a c → c.go = .none → ∃ f t, b'.th[a]? = some (TS.ref .hook (thPc c) true f false t) := by
    intro hH hg
    obtain ⟨f, t, hth⟩ := h.live hH hg
    refine hookTh_step b b' be a _ f t hth hs n1 n2 ?_
    intro b0 he hb0
    have hin := hrel.1 b0 a _ hb0
    obtain ⟨k0, l0, f0, sf0, t0, hr0⟩ := ht.target b0 a _ hb0
    rw [hth] at hr0
    have hp : thPc c = .retd := by
      have := Option.some.inj hr0
      injection this with e1 e2
    have hpc := thPc_retd c hp
    unfold Hold at hH
    rw [hpc] at hH
    exact hH.2 hin
  refine cc2_base_core b b' be m a c h hi hi' hx hs hlive' ?_
  intro hw hH hg
  obtain ⟨f, t, hth'⟩ := hlive' hH hg
  rcases h.vr hw hH hg with ⟨res, v, e, hm⟩ | ⟨i, ci, hcur, hc, hn⟩
  · exact Or.inl ⟨res, v, e, item_fwd b b' be _ hs hm (n3 res v e)⟩
  · by_cases hcc : b'.cur = b.cur
    · obtain ⟨ci', hc', _, _, _, q4, _⟩ := call_persist2 b b' be hi hx hs i ci hc
      exact Or.inr ⟨i, ci', by rw [hcc]; exact hcur, hc', by rw [q4]; exact hn⟩
    · exact Or.inl ⟨false, 0, 0, cur_drop' b b' be a hi hi' hs i hcur (by rw [← hcur]; exact hcc) _ f false t hth'⟩

/-! ## the bookkeeping -/

theorem trk_held_back (m : C10St) (o : CObs) (p : Nat × Option Nat) (h : p ∈ (trk m o).held) :
    p ∈ m.held ∨ (∃ v, o = .ret p.1 v 0 ∧ p.2 = entryOf m v ∧ (∃ op, opOf m p.1 = some op ∧ op ≠ .access)) := by
  cases o with
  | base bo => cases bo <;> exact Or.inl h
  | inv a' op => exact Or.inl h
  | cbin a' i v => exact Or.inl h
  | cbout a' i r => exact Or.inl h
  | ret a' v e =>
    simp only [trk] at h
    cases hop : opOf m a' with
    | none => rw [hop] at h; exact Or.inl h
    | some op =>
      rw [hop] at h
      by_cases hacc : op = .access
      · subst hacc; exact Or.inl h
      · have hmem : p ∈ (if e = 0 then { m with held := (a', entryOf m v) :: m.held } else m).held := by
          cases op <;> first | exact absurd rfl hacc | exact h
        by_cases he : e = 0
        · subst he
          simp only [if_true, List.mem_cons] at hmem
          rcases hmem with rfl | hmem
          · exact Or.inr ⟨v, rfl, rfl, op, hop, hacc⟩
          · exact Or.inl hmem
        · simp only [he, if_false] at hmem
          exact Or.inl hmem
  | cancelCall a' => exact Or.inl h
  | cbinReleased a' => exact Or.inl h
  | probeCtx a' i c => exact Or.inl h
  | probeProm a' _ _ _ => exact Or.inl h

theorem trk_held_sub (m : C10St) (o : CObs) (p : Nat × Option Nat) (h : p ∈ m.held) : p ∈ (trk m o).held := by
  cases o with
  | base bo => cases bo <;> exact h
  | inv a' op => exact h
  | cbin a' i v => exact h
  | cbout a' i r => exact h
  | ret a' v e =>
    simp only [trk]
    split
    · exact h
    · split
      · exact List.mem_cons_of_mem _ h
      · exact h
    · exact h
  | cancelCall a' => exact h
  | cbinReleased a' => exact h
  | probeCtx a' i c => exact h
  | probeProm a' _ _ _ => exact h

theorem trk_relInv_back (m : C10St) (o : CObs) (r : Nat) (h : r ∈ (trk m o).relInv) :
    r ∈ m.relInv ∨ ∃ b, o = .base (.invRelease b r) := by
  cases o with
  | base bo =>
    cases bo with
    | invRelease b r' =>
      simp only [trk, List.mem_cons] at h
      rcases h with rfl | h
      · exact Or.inr ⟨b, rfl⟩
      · exact Or.inl h
    | _ => exact Or.inl h
  | inv a' op => exact Or.inl h
  | cbin a' i v => exact Or.inl h
  | cbout a' i r' => exact Or.inl h
  | ret a' v e =>
    simp only [trk] at h
    left
    split at h
    · exact h
    · split at h <;> exact h
    · exact h
  | cancelCall a' => exact Or.inl h
  | cbinReleased a' => exact Or.inl h
  | probeCtx a' i c => exact Or.inl h
  | probeProm a' _ _ _ => exact Or.inl h

theorem trk_relInv_sub (m : C10St) (o : CObs) (r : Nat) (h : r ∈ m.relInv) : r ∈ (trk m o).relInv := by
  cases o with
  | base bo =>
    cases bo with
    | invRelease b r' => exact List.mem_cons_of_mem _ h
    | _ => exact h
  | inv a' op => exact h
  | cbin a' i v => exact h
  | cbout a' i r' => exact h
  | ret a' v e =>
    simp only [trk]
    split
    · exact h
    · split <;> exact h
    · exact h
  | cancelCall a' => exact h
  | cbinReleased a' => exact h
  | probeCtx a' i c => exact h
  | probeProm a' _ _ _ => exact h

theorem trk_fired_sub (m : C10St) (o : CObs) (a : Nat) (h : a ∈ m.fired) : a ∈ (trk m o).fired := by
  cases o with
  | base bo => cases bo <;> exact h
  | inv a' op => exact h
  | cbin a' i v => exact h
  | cbout a' i r' => exact h
  | ret a' v e =>
    simp only [trk]
    split
    · exact h
    · split <;> exact h
    · exact h
  | cancelCall a' => exact h
  | cbinReleased a' => exact List.mem_cons_of_mem _ h
  | probeCtx a' i c => exact h
  | probeProm a' _ _ _ => exact h

theorem trk_inval_sub (m : C10St) (o : CObs) (k : Nat) (h : k ∈ m.inval ∨ m.anyCtx = true) :
    k ∈ (trk m o).inval ∨ (trk m o).anyCtx = true := by
  have same : (trk m o).inval = m.inval → (trk m o).anyCtx = m.anyCtx → (k ∈ (trk m o).inval ∨ (trk m o).anyCtx = true) := by
    intro e1 e2; rw [e1, e2]; exact h
  cases o with
  | base bo =>
    cases bo with
    | envReleased k' =>
      rcases h with h | h
      · exact Or.inl (List.mem_cons_of_mem _ h)
      · exact Or.inr h
    | invSetCtx a c cl => exact Or.inr rfl
    | _ => exact same rfl rfl
  | ret a v e =>
    have := trk_fields m (.ret a v e) (by simp)
    exact same this.1 this.2.2.1
  | inv a op => exact same rfl rfl
  | cbin a i v => exact same rfl rfl
  | cbout a i r => exact same rfl rfl
  | cancelCall a => exact same rfl rfl
  | cbinReleased a => exact same rfl rfl
  | probeCtx a i c => exact same rfl rfl
  | probeProm a _ _ _ => exact same rfl rfl

theorem trk_relSeen_back (m : C10St) (o : CObs) (k : Nat) (h : k ∈ (trk m o).relSeen) :
    k ∈ m.relSeen ∨ ∃ seen, o = .base (.cbinRel k seen) := by
  cases o with
  | base bo =>
    cases bo with
    | cbinRel k' seen =>
      simp only [trk, List.mem_cons] at h
      rcases h with rfl | h
      · exact Or.inr ⟨seen, rfl⟩
      · exact Or.inl h
    | _ => exact Or.inl h
  | ret a v e =>
    have := (trk_fields m (.ret a v e) (by simp)).2.2.2.2.2
    rw [this] at h; exact Or.inl h
  | inv a op => exact Or.inl h
  | cbin a i v => exact Or.inl h
  | cbout a i r => exact Or.inl h
  | cancelCall a => exact Or.inl h
  | cbinReleased a => exact Or.inl h
  | probeCtx a i c => exact Or.inl h
  | probeProm a _ _ _ => exact Or.inl h

theorem trk_entryOf_back (m : C10St) (o : CObs) (v k : Nat) (h : entryOf (trk m o) v = some k) :
    entryOf m v = some k ∨ ∃ v' hh e', o = .base (.cboutResolver k v' hh e') := by
  have same : (trk m o).zeroEntries = m.zeroEntries → entryOf m v = some k := by
    intro e1; unfold entryOf at h ⊢; rw [e1] at h; exact h
  cases o with
  | base bo =>
    cases bo with
    | cboutResolver k' v' hh e' =>
      by_cases hc : v' = 0 ∧ e' = 0
      · obtain ⟨rfl, rfl⟩ := hc
        have hc : (0 : Nat) = 0 ∧ (0 : Nat) = 0 := ⟨rfl, rfl⟩
        unfold entryOf at h ⊢
        by_cases hv : v = 0
        · subst hv
          simp only [ne_eq, not_true_eq_false, if_false, trk, hc, and_self, if_true] at h ⊢
          cases hz : m.zeroEntries with
          | nil =>
            rw [hz] at h
            simp at h
            subst h
            exact Or.inr ⟨0, hh, 0, rfl⟩
          | cons x xs => rw [hz] at h; simp at h
        · simp [hv] at h ⊢; exact Or.inl h
      · exact Or.inl (same (by simp [trk, hc]))
    | _ => exact Or.inl (same rfl)
  | ret a v' e =>
    exact Or.inl (same (trk_fields m (.ret a v' e) (by simp)).2.2.2.2.1)
  | inv a op => exact Or.inl (same rfl)
  | cbin a i v' => exact Or.inl (same rfl)
  | cbout a i r => exact Or.inl (same rfl)
  | cancelCall a => exact Or.inl (same rfl)
  | cbinReleased a => exact Or.inl (same rfl)
  | probeCtx a i c => exact Or.inl (same rfl)
  | probeProm a _ _ _ => exact Or.inl (same rfl)

theorem hold_back (m : C10St) (o : CObs) (a : Nat) (c : Con) (h : Hold (trk m o) a c)
    (hnr : ∀ v x, o ≠ .ret a v x) : Hold m a c := by
  unfold Hold at h ⊢
  cases hpc : c.pc <;> simp only [hpc] at h ⊢ <;> try exact h
  obtain ⟨⟨ent, he⟩, hn⟩ := h
  refine ⟨?_, fun hr => hn (trk_relInv_sub m o a hr)⟩
  rcases trk_held_back m o _ he with g | ⟨v, g, _⟩
  · exact ⟨ent, g⟩
  · exact absurd g (hnr v 0)

/-- the bookkeeping moves by an observation that is not the return of consumer `a` -/
theorem cc2_mon (b : St) (m : C10St) (o : CObs) (a : Nat) (c : Con) (h : CC2 b m a c)
    (hnr : ∀ v x, o ≠ .ret a v x)
    (hleave : ∀ k v' hh e', o = .base (.cboutResolver k v' hh e') → k ∉ m.relSeen)
    (hrel : ∀ k seen, o = .base (.cbinRel k seen) → ∀ v, Waits c v → entryOf m v = some k →
      k ∈ m.inval ∨ m.anyCtx = true) : CC2 b (trk m o) a c :=
  { nr := h.nr, pw := h.pw, gwr := h.gwr, st2 := h.st2, exw := h.exw, kw := h.kw
    hp := by
      intro ent he
      rcases trk_held_back m o _ he with g | ⟨v, g, _⟩
      · exact h.hp ent g
      · exact absurd g (hnr v 0)
    f2 := fun h1 h2 => trk_fired_sub m o a (h.f2 h1 h2)
    live := fun hH hg => h.live (hold_back m o a c hH hnr) hg
    srcw := h.srcw
    hsrc := by
      intro k he
      rcases trk_held_back m o _ he with g | ⟨v, g, _⟩
      · exact h.hsrc k g
      · exact absurd g (hnr v 0)
    srcr := h.srcr
    gook := h.gook
    rdone := fun hw hH => h.rdone hw (hold_back m o a c hH hnr)
    vr := fun hw hH => h.vr hw (hold_back m o a c hH hnr)
    why := by
      intro v hw k hk hks
      rcases trk_entryOf_back m o v k hk with hk0 | ⟨v', hh, e', ho⟩
      · rcases trk_relSeen_back m o k hks with g | ⟨seen, g⟩
        · exact trk_inval_sub m o k (h.why v hw k hk0 g)
        · exact trk_inval_sub m o k (hrel k seen g v hw hk0)
      · exfalso
        rcases trk_relSeen_back m o k hks with g | ⟨seen, g⟩
        · exact hleave k v' hh e' ho g
        · rw [ho] at g; cases g }

/-! ## small moves -/

theorem hold_congr (m : C10St) (a : Nat) (c c' : Con) (h : c'.pc = c.pc) : Hold m a c' ↔ Hold m a c := by
  unfold Hold; rw [h]

theorem thPc_congr (c c' : Con) (h : c'.pc = c.pc) : thPc c' = thPc c := by
  unfold thPc; rw [h]

theorem waits_congr (c c' : Con) (v : Nat) (h1 : c'.pc = c.pc) (h2 : c'.prom = c.prom) : Waits c' v ↔ Waits c v := by
  unfold Waits; rw [h1, h2]

theorem src_congr (b : St) (c c' : Con) (v : Nat) (h1 : c'.op = c.op) (h2 : c'.wnonce = c.wnonce) (h : Src b c v) :
    Src b c' v := by
  obtain ⟨i, ci, hh, q1, q2, q3, q4⟩ := h
  exact ⟨i, ci, hh, q1, q2, q3, by rw [h1, h2]; exact q4⟩

/-- the consumer changes in fields that the clauses do not look at -/
theorem cc2_same (b : St) (m : C10St) (a : Nat) (c c' : Con) (h : CC2 b m a c) (e1 : c'.op = c.op) (e2 : c'.go = c.go)
    (e3 : c'.wres = c.wres) (e4 : c'.wnonce = c.wnonce) (e5 : c'.prom = c.prom) (e6 : c'.pc = c.pc) : CC2 b m a c' :=
  { nr := by rw [e1, e2, e3]; exact h.nr
    pw := by rw [e1, e5, e3]; exact h.pw
    gwr := by rw [e2, e3]; exact h.gwr
    st2 := by rw [e6, e5]; exact h.st2
    exw := by rw [e1, e6]; exact h.exw
    kw := by rw [e6, e1, e3]; exact h.kw
    hp := by rw [e6, e1, e3]; exact h.hp
    f2 := by rw [e1, e2]; exact h.f2
    live := by
      intro hH hg
      rw [thPc_congr c c' e6]
      exact h.live ((hold_congr m a c c' e6).mp hH) (by rw [← e2]; exact hg)
    srcw := fun v hw => src_congr b c c' v e1 e4 (h.srcw v ((waits_congr c c' v e6 e5).mp hw))
    hsrc := by rw [e1, e4]; exact h.hsrc
    srcr := by rw [e3, e4]; exact h.srcr
    gook := by rw [e3, e2, e4]; exact h.gook
    rdone := by
      intro hw hH
      rw [e4]
      exact h.rdone (by rw [← e3]; exact hw) ((hold_congr m a c c' e6).mp hH)
    vr := by
      intro hw hH hg
      rw [e4]
      exact h.vr (by rw [← e3]; exact hw) ((hold_congr m a c c' e6).mp hH) (by rw [← e2]; exact hg)
    why := fun v hw => h.why v ((waits_congr c c' v e6 e5).mp hw) }

/-- an `Access` call -/
theorem cc2_access (b' : St) (m' : C10St) (a : Nat) (c' : Con) (hop : c'.op = .access) (hok : OpOk c')
    (hg : c'.go = .none) (hw : c'.wres = false) (hnh : ∀ ent, (a, ent) ∉ m'.held)
    (hst2 : c'.pc = .start → c'.prom = none) : CC2 b' m' a c' := by
  have nohold : ¬ Hold m' a c' := by
    intro hH
    unfold Hold at hH
    cases hpc : c'.pc <;> rw [hpc] at hH <;> try exact hH
    · exact (hok.1 hop).1 hpc
    · exact (hok.1 hop).2 _ _ hpc
    · obtain ⟨⟨ent, he⟩, _⟩ := hH; exact hnh ent he
  have nowait : ∀ v, ¬ Waits c' v := by
    intro v hwt
    rcases hwt with h | ⟨h, _⟩
    · exact (hok.1 hop).2 _ _ h
    · exact (hok.1 hop).1 h
  exact
    { nr := fun _ => ⟨hg, hw⟩
      pw := by intro ⟨cb, h⟩; rw [hop] at h; cases h
      gwr := fun h => absurd hg h
      st2 := hst2
      exw := fun h => absurd hop h
      kw := by intro v e _ ⟨cb, h⟩; rw [hop] at h; cases h
      hp := fun ent he => absurd he (hnh ent)
      f2 := by intro h; rw [hop] at h; cases h
      live := fun hH => absurd hH nohold
      srcw := fun v hwt => absurd hwt (nowait v)
      hsrc := fun k he => absurd he (hnh _)
      srcr := by intro h; rw [hw] at h; cases h
      gook := by intro h; rw [hw] at h; cases h
      rdone := by intro h; rw [hw] at h; cases h
      vr := by intro h; rw [hw] at h; cases h
      why := fun v hwt => absurd hwt (nowait v) }

/-- the reference of another consumer is handed to its caller -/
theorem cc2_keep (b : St) (m : C10St) (a a0 : Nat) (k : CbKind) (pc : Pc) (live flag self : Bool) (told : Option Nat)
    (c : Con) (h : CC2 b m a c) (hth : b.th[a0]? = some (TS.ref k pc live flag self told)) (hne : a0 ≠ a) :
    CC2 { b with th := b.th.set a0 (TS.ref k .retd live flag self told) } m a c :=
  { nr := h.nr, pw := h.pw, gwr := h.gwr, st2 := h.st2, exw := h.exw, kw := h.kw, hp := h.hp, f2 := h.f2
    live := by
      intro hH hg
      obtain ⟨f, t, g⟩ := h.live hH hg
      exact ⟨f, t, by show (b.th.set a0 _)[a]? = _; rw [getElem?_set_ne' _ _ _ _ hne]; exact g⟩
    srcw := h.srcw, hsrc := h.hsrc, srcr := h.srcr, gook := h.gook
    rdone := fun hw hH hnl => h.rdone hw hH (fun hl => hnl ((liveTh_keep b a a0 k pc .retd live flag self told hth).mpr hl))
    vr := h.vr
    why := h.why }

/-! ## the notification hook, abstractly -/

structure HookEff (c c' : Con) (n : Nat) (res : Bool) (v e : Nat) : Prop where
  op : c'.op = c.op
  pc : c'.pc = c.pc
  go : c'.go = c.go ∨ (c.go = .none ∧ c'.go = .rel ∧ c.wres = true ∧ (res = false ∨ n ≠ c.wnonce))
  wr : (c'.wres = c.wres ∧ c'.wnonce = c.wnonce) ∨
    (c.wres = false ∧ c'.wres = true ∧ c'.wnonce = n ∧ (res = true ∨ e ≠ 0) ∧ c'.prom = some (v, e) ∧ c'.go = c.go)
  pr : c'.prom = c.prom ∨ (c'.prom = none ∧ res = false) ∨
    (c'.prom = some (v, e) ∧ (res = true ∨ e ≠ 0) ∧ ((∃ cb, c.op = .rwr cb) → c.wres = false ∧ c'.wres = true))
  nrw : (∀ cb, c.op ≠ .rwr cb) → c'.go = c.go ∧ c'.wres = c.wres
  keep : res = true → n = c.wnonce → c.wres = true → c'.go = c.go
  fire : (∃ cb, c.op = .rwr cb) → c.wres = true → c.go = .none → (res = false ∨ n ≠ c.wnonce) → c'.go = .rel

theorem hook_eff (c : Con) (n : Nat) (res : Bool) (v e : Nat) : HookEff c (hook c n res v e) n res v e := by
  unfold hook
  cases hk : c.op with
  | access =>
    simp only []
    split <;> exact ⟨(by first | rfl | exact hk.symm), rfl, Or.inl rfl, Or.inl ⟨rfl, rfl⟩, Or.inl rfl, fun _ => ⟨rfl, rfl⟩, fun _ _ _ => rfl,
      (by intro ⟨cb, h⟩; rw [hk] at h; cases h)⟩
  | wait =>
    simp only []
    refine ⟨(by first | rfl | exact hk.symm), rfl, Or.inl rfl, Or.inl ⟨rfl, rfl⟩, ?_, fun _ => ⟨rfl, rfl⟩, fun _ _ _ => rfl,
      (by intro ⟨cb, h⟩; rw [hk] at h; cases h)⟩
    cases res
    · exact Or.inr (Or.inl ⟨rfl, rfl⟩)
    · exact Or.inr (Or.inr ⟨rfl, Or.inl rfl, by intro ⟨cb, h⟩; rw [hk] at h; cases h⟩)
  | resolve =>
    simp only []
    refine ⟨(by first | rfl | exact hk.symm), rfl, Or.inl rfl, Or.inl ⟨rfl, rfl⟩, ?_, fun _ => ⟨rfl, rfl⟩, fun _ _ _ => rfl,
      (by intro ⟨cb, h⟩; rw [hk] at h; cases h)⟩
    cases res
    · exact Or.inr (Or.inl ⟨rfl, rfl⟩)
    · exact Or.inr (Or.inr ⟨rfl, Or.inl rfl, by intro ⟨cb, h⟩; rw [hk] at h; cases h⟩)
  | promise =>
    simp only []
    refine ⟨(by first | rfl | exact hk.symm), rfl, Or.inl rfl, Or.inl ⟨rfl, rfl⟩, ?_, fun _ => ⟨rfl, rfl⟩, fun _ _ _ => rfl,
      (by intro ⟨cb, h⟩; rw [hk] at h; cases h)⟩
    cases res
    · exact Or.inr (Or.inl ⟨rfl, rfl⟩)
    · exact Or.inr (Or.inr ⟨rfl, Or.inl rfl, by intro ⟨cb, h⟩; rw [hk] at h; cases h⟩)
  | rwr cb =>
    simp only []
    by_cases hw : c.wres = true
    · rw [if_pos hw]
      by_cases hcond : (!res) = true ∨ n ≠ c.wnonce
      · rw [if_pos hcond]
        by_cases hg : c.go = .none
        · rw [if_pos hg]
          refine ⟨(by first | rfl | exact hk.symm), rfl, Or.inr ⟨hg, rfl, hw, ?_⟩, Or.inl ⟨rfl, rfl⟩, Or.inl rfl,
            fun h => absurd hk (h cb), ?_, fun _ _ _ _ => rfl⟩
          · rcases hcond with h | h
            · exact Or.inl (by simpa using h)
            · exact Or.inr h
          · intro hr hn _
            exfalso
            rcases hcond with h | h
            · rw [hr] at h; simp at h
            · exact h hn
        · rw [if_neg hg]
          exact ⟨(by first | rfl | exact hk.symm), rfl, Or.inl rfl, Or.inl ⟨rfl, rfl⟩, Or.inl rfl, fun _ => ⟨rfl, rfl⟩, fun _ _ _ => rfl,
            fun _ _ hg0 _ => absurd hg0 hg⟩
      · rw [if_neg hcond]
        refine ⟨(by first | rfl | exact hk.symm), rfl, Or.inl rfl, Or.inl ⟨rfl, rfl⟩, Or.inl rfl, fun _ => ⟨rfl, rfl⟩, fun _ _ _ => rfl, ?_⟩
        intro _ _ _ hc
        exfalso; apply hcond
        rcases hc with hc | hc
        · exact Or.inl (by simp [hc])
        · exact Or.inr hc
    · have hw' : c.wres = false := by simpa using hw
      rw [if_neg hw]
      by_cases hc : res = true ∨ e ≠ 0
      · rw [if_pos (by simpa using hc)]
        exact ⟨(by first | rfl | exact hk.symm), rfl, Or.inl rfl, Or.inr ⟨hw', rfl, rfl, hc, rfl, rfl⟩,
          Or.inr (Or.inr ⟨rfl, hc, fun _ => ⟨hw', rfl⟩⟩), fun h => absurd hk (h cb), fun _ _ h => absurd h (by rw [hw']; simp),
          fun _ h => absurd h (by rw [hw']; simp)⟩
      · rw [if_neg (by simpa using hc)]
        exact ⟨(by first | rfl | exact hk.symm), rfl, Or.inl rfl, Or.inl ⟨rfl, rfl⟩, Or.inl rfl, fun _ => ⟨rfl, rfl⟩, fun _ _ _ => rfl,
          fun _ h => absurd h (by rw [hw']; simp)⟩

theorem cb_same (b b' : St) (it : CbItem) (h : step b (.cb it) = some b') :
    b'.th = b.th ∧ b'.calls = b.calls ∧ b'.cur = b.cur ∧ b'.nonce = b.nonce := by
  simp only [step] at h; split at h <;> try simp at h
  obtain ⟨_, rfl⟩ := h
  exact ⟨rfl, rfl, rfl, rfl⟩

/-- the calls-only clauses along any base step -/
theorem cc2_calls (b b' : St) (be : Ev) (m : C10St) (a : Nat) (c : Con) (h : CC2 b m a c) (hi : Inv b) (hi' : Inv b')
    (hx : Idx b) (hs : step b be = some b') :
    (∀ k, (a, some k) ∈ m.held → ∃ (i : Nat) (ci : Call), b'.calls[i]? = some ci ∧ ci.inv = some k ∧
      ci.stored = true ∧ ((∃ cb, c.op = .rwr cb) → ci.nonce = c.wnonce)) ∧
    (c.wres = true → ∃ (i : Nat) (ci : Call), b'.calls[i]? = some ci ∧ ci.nonce = c.wnonce ∧ ci.fin = true) ∧
    (c.wres = true → c.go ≠ .none → ∀ (i : Nat) (ci : Call), b'.calls[i]? = some ci → ci.nonce = c.wnonce →
      b'.cur ≠ some i) := by
  refine ⟨?_, ?_, ?_⟩
  · intro k hk
    obtain ⟨i, ci, hc, g1, g2, g3⟩ := h.hsrc k hk
    obtain ⟨ci', hc', q1, _, q3, q4, _⟩ := call_persist2 b b' be hi hx hs i ci hc
    exact ⟨i, ci', hc', q1 k g1, q3 g2, fun hop => by rw [q4]; exact g3 hop⟩
  · intro hw
    obtain ⟨i, ci, hc, g1, g2⟩ := h.srcr hw
    obtain ⟨ci', hc', _, _, _, q4, _, q6⟩ := call_persist2 b b' be hi hx hs i ci hc
    exact ⟨i, ci', hc', by rw [q4]; exact g1, q6 g2⟩
  · intro hw hg i ci' hc' hn hcur'
    obtain ⟨ci, hc, _, hnn, hfin, _⟩ := src_back b b' be hi hi' hx hs c.wnonce (h.srcr hw) i ci' hc' hn
    rcases cur_frame b b' be hs i hcur' with h0 | ⟨_, c2, hc2, _, hf2⟩
    · exact h.gook hw hg i ci hc hnn h0
    · rw [hc] at hc2; cases hc2
      rw [hfin] at hf2; cases hf2

/-- a consumer that has called `Release` itself (`exitWait`) -/
theorem cc2_exit (b' : St) (m : C10St) (a : Nat) (c' : Con)
    (hnr : (∀ cb, c'.op ≠ .rwr cb) → c'.go = .none ∧ c'.wres = false)
    (hpw : (∃ cb, c'.op = .rwr cb) → c'.prom.isSome = true → c'.wres = true)
    (hgwr : c'.go ≠ .none → c'.wres = true)
    (v x : Nat) (hpc : c'.pc = .exitWait v x) (hx0 : c'.op ≠ .access → x ≠ 0)
    (hnh : ∀ ent, (a, ent) ∉ m.held) (hf2 : c'.op = .rwr true → c'.go = .done → a ∈ m.fired)
    (hsrcr : c'.wres = true → ∃ (i : Nat) (ci : Call), b'.calls[i]? = some ci ∧ ci.nonce = c'.wnonce ∧ ci.fin = true)
    (hgook : c'.wres = true → c'.go ≠ .none → ∀ (i : Nat) (ci : Call), b'.calls[i]? = some ci → ci.nonce = c'.wnonce →
      b'.cur ≠ some i) : CC2 b' m a c' := by
  have nohold : ¬ Hold m a c' := by intro hH; unfold Hold at hH; rw [hpc] at hH; exact hH
  have nowait : ∀ v0, ¬ Waits c' v0 := by
    intro v0 hw
    rcases hw with hw | ⟨hw, _⟩ <;> (rw [hpc] at hw; cases hw)
  exact
    { nr := hnr, pw := hpw, gwr := hgwr
      st2 := by intro hp; rw [hpc] at hp; cases hp
      exw := by intro hop v0 e0 hp; rw [hpc] at hp; cases hp; exact hx0 hop
      kw := by intro v0 e0 hp; rw [hpc] at hp; cases hp
      hp := fun ent he => absurd he (hnh ent)
      f2 := hf2
      live := fun hH => absurd hH nohold
      srcw := fun v0 hw => absurd hw (nowait v0)
      hsrc := fun k he => absurd he (hnh _)
      srcr := hsrcr
      gook := hgook
      rdone := fun _ hH => absurd hH nohold
      vr := fun _ hH => absurd hH nohold
      why := fun v0 hw => absurd hw (nowait v0) }

/-- the delivery of a notification to consumer `a` -/
theorem cc2_hook (s s' : CSt) (m : C10St) (a : Nat) (c : Con) (res : Bool) (v er : Nat)
    (hob : step s.b (.cb (.refcb a false res v er)) = some s'.b)
    (h : CC2 s.b m a c) (hcb : CB s.b m a c) (hb : BInv s.b m) (hil : IL s.b) (hil2 : IL2 s.b) :
    CC2 s'.b m a (hook c s.b.nonce res v er) := by
  obtain ⟨eth, ecalls, ecur, enonce⟩ := cb_same s.b s'.b _ hob
  have hmem := cb_mem s.b s'.b _ hob
  obtain ⟨g1, g2⟩ := hb.item a false res v er hmem
  have hE := hook_eff c s.b.nonce res v er
  have hnstart : c.pc ≠ .start := by
    intro hp
    obtain ⟨hth, _⟩ := hcb.start hp
    obtain ⟨k, pc, l, f, sf, t, hth2, hpc⟩ := hil a res v er hmem
    rw [hth] at hth2; cases hth2; exact hpc rfl
  have hlive : LiveTh s'.b a := by
    obtain ⟨k, pc, f, sf, t, hth⟩ := hil2 a res v er hmem
    exact ⟨k, pc, f, sf, t, by rw [eth]; exact hth⟩
  have wmono : c.wres = true → (hook c s.b.nonce res v er).wres = true ∧
      (hook c s.b.nonce res v er).wnonce = c.wnonce := by
    intro hw
    rcases hE.wr with ⟨q1, q2⟩ | ⟨q0, _⟩
    · exact ⟨by rw [q1]; exact hw, q2⟩
    · rw [hw] at q0; cases q0
  have rwr_of : c.wres = true → ∃ cb, c.op = .rwr cb := by
    intro hw
    apply Classical.byContradiction
    intro hne
    have := (h.nr (fun cb hop => hne ⟨cb, hop⟩)).2
    rw [hw] at this; cases this
  -- the delivered result, when it is one
  have deliv : res = true → ∃ (i : Nat) (ci : Call) (hh : Bool), s.b.cur = some i ∧ s.b.calls[i]? = some ci ∧
      ci.res = some (v, hh, er) ∧ ci.nonce = s.b.nonce ∧ ci.stored = true ∧ ci.fin = true := by
    intro hr
    obtain ⟨i, ci, hh, q1, q2, q3⟩ := g1 hr
    obtain ⟨cj, _, hcj, k2, k3, k4, _⟩ := hb.inv.core.curSome i q1
    rw [q2] at hcj; cases hcj
    exact ⟨i, ci, hh, q1, q2, q3, k2, k3, k4⟩
  have newres : (res = true ∨ er ≠ 0) → res = true := by
    intro hc
    rcases hc with hc | hc
    · exact hc
    · cases hr : res
      · exact absurd (g2 hr).2.2.1 hc
      · rfl
  exact
    { nr := by
        intro hnr
        have hnr0 : ∀ cb, c.op ≠ .rwr cb := by intro cb; rw [← hE.op]; exact hnr cb
        obtain ⟨q1, q2⟩ := hE.nrw hnr0
        rw [q1, q2]; exact h.nr hnr0
      pw := by
        intro ⟨cb, hop⟩ hps
        have hop0 : c.op = .rwr cb := by rw [← hE.op]; exact hop
        rcases hE.pr with hp | ⟨hp, _⟩ | ⟨_, _, hq⟩
        · exact (wmono (h.pw ⟨cb, hop0⟩ (by rw [← hp]; exact hps))).1
        · rw [hp] at hps; cases hps
        · exact (hq ⟨cb, hop0⟩).2
      gwr := by
        intro hg
        rcases hE.go with hgo | ⟨_, _, hw0, _⟩
        · exact (wmono (h.gwr (by rw [← hgo]; exact hg))).1
        · exact (wmono hw0).1
      st2 := by rw [hE.pc]; exact fun hp => absurd hp hnstart
      exw := by rw [hE.op, hE.pc]; exact h.exw
      kw := by
        intro v0 e0 hp hop
        rw [hE.pc] at hp; rw [hE.op] at hop
        exact (wmono (h.kw v0 e0 hp hop)).1
      hp := by
        intro ent he
        obtain ⟨q1, q2, q3⟩ := h.hp ent he
        exact ⟨by rw [hE.pc]; exact q1, by rw [hE.op]; exact q2, fun hop => (wmono (q3 (by rw [← hE.op]; exact hop))).1⟩
      f2 := by
        intro hop hgo
        rcases hE.go with hg | ⟨_, hg, _⟩
        · exact h.f2 (by rw [← hE.op]; exact hop) (by rw [← hg]; exact hgo)
        · rw [hg] at hgo; cases hgo
      live := by
        intro hH hg
        have hg0 : c.go = .none := by
          rcases hE.go with hgo | ⟨_, hgr, _⟩
          · rw [← hgo]; exact hg
          · rw [hgr] at hg; cases hg
        rw [eth, thPc_congr c _ hE.pc]
        exact h.live ((hold_congr m a c _ hE.pc).mp hH) hg0
      srcw := by
        intro v0 hw0
        have old : Waits c v0 → Src s'.b (hook c s.b.nonce res v er) v0 := by
          intro hwc
          obtain ⟨i, ci, hh, q1, q2, q3, q4⟩ := h.srcw v0 hwc
          refine ⟨i, ci, hh, by rw [ecalls]; exact q1, q2, q3, ?_⟩
          intro hop
          have hop0 : ∃ cb, c.op = .rwr cb := by rw [← hE.op]; exact hop
          have hw : c.wres = true := by
            rcases hwc with hk | ⟨_, hpr⟩
            · exact h.kw v0 0 hk hop0
            · exact h.pw hop0 (by rw [hpr]; rfl)
          rw [(wmono hw).2]; exact q4 hop0
        rcases hw0 with hk | ⟨hpa, hpr⟩
        · exact old (Or.inl (by rw [← hE.pc]; exact hk))
        · rcases hE.pr with hp | ⟨hp, _⟩ | ⟨hp, hc, hq⟩
          · exact old (Or.inr ⟨by rw [← hE.pc]; exact hpa, by rw [← hp]; exact hpr⟩)
          · rw [hp] at hpr; cases hpr
          · rw [hp] at hpr
            have e1 : v = v0 := by cases hpr; rfl
            have e2 : er = 0 := by cases hpr; rfl
            subst e1; subst e2
            obtain ⟨i, ci, hh, q1, q2, q3, q4, q5, _⟩ := deliv (newres hc)
            refine ⟨i, ci, hh, by rw [ecalls]; exact q2, q3, q5, ?_⟩
            intro hop
            have hop0 : ∃ cb, c.op = .rwr cb := by rw [← hE.op]; exact hop
            obtain ⟨hw0', hw1⟩ := hq hop0
            rcases hE.wr with ⟨r1, _⟩ | ⟨_, _, r3, _⟩
            · rw [r1, hw0'] at hw1; cases hw1
            · rw [r3]; exact q4
      hsrc := by
        intro k he
        obtain ⟨i, ci, q1, q2, q3, q4⟩ := h.hsrc k he
        refine ⟨i, ci, by rw [ecalls]; exact q1, q2, q3, ?_⟩
        intro hop
        have hop0 : ∃ cb, c.op = .rwr cb := by rw [← hE.op]; exact hop
        have hw := (h.hp _ he).2.2 hop0
        rw [(wmono hw).2]; exact q4 hop0
      srcr := by
        intro hw'
        rcases hE.wr with ⟨r1, r2⟩ | ⟨_, _, r3, hc, _, _⟩
        · obtain ⟨i, ci, q1, q2, q3⟩ := h.srcr (by rw [← r1]; exact hw')
          exact ⟨i, ci, by rw [ecalls]; exact q1, by rw [r2]; exact q2, q3⟩
        · obtain ⟨i, ci, hh, _, q2, _, q4, _, q6⟩ := deliv (newres hc)
          exact ⟨i, ci, by rw [ecalls]; exact q2, by rw [r3]; exact q4, q6⟩
      gook := by
        intro hw' hg' i ci hc hn hcur
        rw [ecalls] at hc; rw [ecur] at hcur
        rcases hE.go with hgo | ⟨hg0, hgr, hw0, hcond⟩
        · have hw0 := h.gwr (by rw [← hgo]; exact hg')
          exact h.gook hw0 (by rw [← hgo]; exact hg') i ci hc (by rw [← (wmono hw0).2]; exact hn) hcur
        · have hn0 : ci.nonce = c.wnonce := by rw [← (wmono hw0).2]; exact hn
          cases hr : res with
          | false => have := (g2 hr).1; rw [hcur] at this; cases this
          | true =>
            rcases hcond with hcf | hcn
            · rw [hr] at hcf; cases hcf
            · obtain ⟨i1, c1, hh, q1, q2, _, q4, _⟩ := deliv hr
              rw [hcur] at q1; cases q1
              rw [hc] at q2; cases q2
              exact hcn (by rw [← q4, hn0])
      rdone := fun _ _ hnl => absurd hlive hnl
      vr := by
        intro hw' hH hg'
        by_cases hany : ∃ r2 v2 e2, AItem s'.b a r2 v2 e2
        · exact Or.inl hany
        · right
          rcases hE.wr with ⟨r1, r2⟩ | ⟨_, _, r3, hc, _, _⟩
          · have hw0 : c.wres = true := by rw [← r1]; exact hw'
            have hg0 : c.go = .none := by
              rcases hE.go with hgo | ⟨_, hgr, _⟩
              · rw [← hgo]; exact hg'
              · rw [hgr] at hg'; cases hg'
            have hnf : ¬ (res = false ∨ s.b.nonce ≠ c.wnonce) := by
              intro hf
              have := hE.fire (rwr_of hw0) hw0 hg0 hf
              rw [this] at hg'; cases hg'
            have hr : res = true := by
              cases hr : res
              · exact absurd (Or.inl hr) hnf
              · rfl
            have hnn : s.b.nonce = c.wnonce := Classical.byContradiction fun hne => hnf (Or.inr hne)
            obtain ⟨i, ci, hh, q1, q2, _, q4, _⟩ := deliv hr
            exact ⟨i, ci, by rw [ecur]; exact q1, by rw [ecalls]; exact q2, by rw [r2, q4, hnn]⟩
          · obtain ⟨i, ci, hh, q1, q2, _, q4, _⟩ := deliv (newres hc)
            exact ⟨i, ci, by rw [ecur]; exact q1, by rw [ecalls]; exact q2, by rw [r3, q4]⟩
      why := by
        intro v0 hw0 k hk hks
        have old : Waits c v0 → k ∈ m.inval ∨ m.anyCtx = true := fun hwc => h.why v0 hwc k hk hks
        rcases hw0 with hkp | ⟨hpa, hpr⟩
        · exact old (Or.inl (by rw [← hE.pc]; exact hkp))
        · rcases hE.pr with hp | ⟨hp, _⟩ | ⟨hp, hc, _⟩
          · exact old (Or.inr ⟨by rw [← hE.pc]; exact hpa, by rw [← hp]; exact hpr⟩)
          · rw [hp] at hpr; cases hpr
          · exfalso
            rw [hp] at hpr
            have e1 : v = v0 := by cases hpr; rfl
            have e2 : er = 0 := by cases hpr; rfl
            subst e1; subst e2
            have hce := entry_link s.b m hb.idx hb.val hb.zero v k (g1 (newres hc)) hk
            obtain ⟨i1, c1, hcur, hc1, hk1⟩ := hce
            obtain ⟨i2, c2, hc2, hk2, hr2⟩ := hb.seen k hks
            have : i2 = i1 := hb.idx.inj i2 i1 c2 c1 k hc2 hc1 hk2 hk1
            subst this
            rw [hc1] at hc2; cases hc2
            obtain ⟨cj, hh, hcj, _, _, _, hres, _, hnr⟩ := hb.inv.core.curSome i2 hcur
            rw [hc1] at hcj; cases hcj
            obtain ⟨_, v', e', hres2⟩ := hb.inv.core.relFin i2 c1 hc1 hr2
            rw [hres] at hres2; simp at hres2
            have := hnr hres2.2.1; rw [hr2] at this; cases this }

theorem no_held_of_pc (b : St) (m : C10St) (a : Nat) (c : Con) (h : CC2 b m a c) (hpc : c.pc ≠ .returned) :
    ∀ ent, (a, ent) ∉ m.held := fun ent he => hpc (h.hp ent he).1

/-- an `Access` call in its loop, after its own transition -/
theorem cc2_loop (s s' : CSt) (e : CEv) (m : C10St) (a : Nat) (c c' : Con) (h : CC2 s.b m a c) (hcb : CB s.b m a c)
    (hca : CA m a c) (hloop : LoopPc c) (hopk' : OpOk c') (e1 : c'.op = c.op) (e2 : c'.go = c.go)
    (e3 : c'.wres = c.wres) (hns : c'.pc ≠ .start) (hobs : ∀ v x, CEv.obs e ≠ some (.ret a v x)) :
    CC2 s'.b (after m e) a c' := by
  have hacc := loop_access c hca.opok hloop
  have hpcr : c.pc ≠ .returned := by intro hp; unfold LoopPc at hloop; rw [hp] at hloop; exact hloop
  have hnh := no_held_of_pc s.b m a c h hpcr
  refine cc2_access _ _ a c' (by rw [e1]; exact hacc) hopk' (by rw [e2]; exact hcb.go hacc)
    (by rw [e3]; exact (h.nr (by intro cb hh; rw [hacc] at hh; cases hh)).2) ?_ (fun hp => absurd hp hns)
  intro ent he
  unfold after at he
  cases hob : CEv.obs e with
  | none => rw [hob] at he; exact hnh ent he
  | some o =>
    rw [hob] at he
    rcases trk_held_back m o _ he with g | ⟨v, g, _⟩
    · exact hnh ent g
    · exact hobs v 0 (by rw [hob, g])

theorem cc2_trans (s s' : CSt) (e : CEv) (m : C10St) (a : Nat) (c c' : Con) (ht : Trans s e a c c')
    (hs : cstep s e = some s') (h1 : getCon s a = some c) (h2 : getCon s' a = some c')
    (h : CC2 s.b m a c) (hcc1 : CC1 s.b m a c) (hcb : CB s.b m a c) (hca : CA m a c) (hb : BInv s.b m)
    (hi' : Inv s'.b) (hil : IL s.b) (hil2 : IL2 s.b) : CC2 s'.b (after m e) a c' := by
  have hopk' := opOk_trans s e a c c' ht hca.opok
  cases ht with
  | hook a c res v er =>
    show CC2 s'.b m a (hook c s.b.nonce res v er)
    have hob := own_base s s' _ a c _ hs h1 h2 (Or.inr (Or.inl ⟨res, v, er, rfl⟩))
    simp only [OwnBase] at hob
    exact cc2_hook s s' m a c res v er hob h hcb hb hil hil2
  | started a c hs0 =>
    show CC2 s'.b m a _
    have hob := own_base s s' _ a c _ hs h1 h2 (Or.inl rfl)
    simp only [OwnBase] at hob
    obtain ⟨hth, _, _⟩ := hcb.start hs0
    obtain ⟨t, hth'⟩ := addRef_th s.b s'.b a .hook hob hth
    obtain ⟨hw, hg⟩ := hcc1.st hs0
    have hnh := no_held_of_pc s.b m a c h (by rw [hs0]; simp)
    by_cases hop : c.op = COp.access
    · simp only [hop, if_true] at hopk' ⊢
      exact cc2_access _ _ a _ rfl hopk' hg hw hnh (by simp)
    · simp only [hop, if_false] at hopk' ⊢
      exact
        { nr := h.nr, pw := h.pw, gwr := h.gwr
          st2 := by simp
          exw := by simp
          kw := by simp
          hp := fun ent he => absurd he (hnh ent)
          f2 := h.f2
          live := fun _ _ => ⟨false, t, by simpa [thPc] using hth'⟩
          srcw := by
            intro v hwt
            rcases hwt with hk | ⟨_, hpr⟩
            · simp at hk
            · have : c.prom = some (v, 0) := hpr
              rw [h.st2 hs0] at this; cases this
          hsrc := fun k he => absurd he (hnh _)
          srcr := by intro hw'; have : c.wres = true := hw'; rw [hw] at this; cases this
          gook := by intro hw'; have : c.wres = true := hw'; rw [hw] at this; cases this
          rdone := by intro hw'; have : c.wres = true := hw'; rw [hw] at this; cases this
          vr := by intro hw'; have : c.wres = true := hw'; rw [hw] at this; cases this
          why := by
            intro v hwt
            rcases hwt with hk | ⟨_, hpr⟩
            · simp at hk
            · have : c.prom = some (v, 0) := hpr
              rw [h.st2 hs0] at this; cases this }
  | snapErr a c hl he =>
    have hloop : LoopPc c := by unfold canLook at hl; unfold LoopPc; split at hl <;> simp_all
    exact cc2_loop s s' _ m a c _ h hcb hca hloop hopk' rfl rfl rfl (by simp [snapped]) (by simp [CEv.obs])
  | snapCall a c hl he hr =>
    have hloop : LoopPc c := by unfold canLook at hl; unfold LoopPc; split at hl <;> simp_all
    exact cc2_loop s s' _ m a c _ h hcb hca hloop hopk' rfl rfl rfl (by simp [snapped]) (by simp [CEv.obs])
  | snapWait a c hl he hr =>
    have hloop : LoopPc c := by unfold canLook at hl; unfold LoopPc; split at hl <;> simp_all
    exact cc2_loop s s' _ m a c _ h hcb hca hloop hopk' rfl rfl rfl (by simp [snapped]) (by simp [CEv.obs])
  | cbin a i v n ch c hpc hm =>
    exact cc2_loop s s' _ m a c _ h hcb hca (by unfold LoopPc; rw [hpc]; trivial) hopk' rfl rfl rfl (by simp)
      (by simp [CEv.obs])
  | cbout a i r v n ch c hpc =>
    exact cc2_loop s s' _ m a c _ h hcb hca (by unfold LoopPc; rw [hpc]; trivial) hopk' rfl rfl rfl (by simp)
      (by simp [CEv.obs])
  | checkCancel a r n ch c hpc hc =>
    exact cc2_loop s s' _ m a c _ h hcb hca (by unfold LoopPc; rw [hpc]; trivial) hopk' rfl rfl rfl (by simp)
      (by simp [CEv.obs])
  | checkGo a r n ch c hpc hc =>
    exact cc2_loop s s' _ m a c _ h hcb hca (by unfold LoopPc; rw [hpc]; trivial) hopk' rfl rfl rfl (by simp)
      (by simp [CEv.obs])
  | recheckSame a r n ch c hpc hn =>
    exact cc2_loop s s' _ m a c _ h hcb hca (by unfold LoopPc; rw [hpc]; trivial) hopk' rfl rfl rfl (by simp)
      (by simp [CEv.obs])
  | recheckDiff a r n ch c hpc hn =>
    exact cc2_loop s s' _ m a c _ h hcb hca (by unfold LoopPc; rw [hpc]; trivial) hopk' rfl rfl rfl (by simp)
      (by simp [CEv.obs])
  | waitCancel a n ch c hpc hc =>
    exact cc2_loop s s' _ m a c _ h hcb hca (by unfold LoopPc; rw [hpc]; trivial) hopk' rfl rfl rfl (by simp)
      (by simp [CEv.obs])
  | watch a c =>
    show CC2 s'.b m a _
    have hbb : s'.b = s.b := by
      simp only [cstep, h1] at hs
      split at hs <;> try simp at hs
      all_goals (obtain ⟨_, rfl⟩ := hs; rfl)
    rw [hbb]
    exact cc2_same s.b m a c _ h rfl rfl rfl rfl rfl rfl
  | cancel a c =>
    show CC2 s'.b (trk m (.cancelCall a)) a _
    have hbb : s'.b = s.b := by
      simp [cstep, h1] at hs
      subst hs; rfl
    rw [hbb]
    exact cc2_same s.b _ a c _ (cc2_mon s.b m _ a c h (by simp) (by simp) (by simp)) rfl rfl rfl rfl rfl rfl
  | awaitErr a v x c hpc hp he =>
    show CC2 s'.b m a _
    have hob := own_base s s' _ a c _ hs h1 h2
      (Or.inr (Or.inr (Or.inr (Or.inr (Or.inr (Or.inr (Or.inr (Or.inr (Or.inr (Or.inl rfl))))))))))
    simp only [OwnBase] at hob
    have hnh := no_held_of_pc s.b m a c h (by rw [hpc]; simp)
    have hcl : (c.wres = true → ∃ (i : Nat) (ci : Call), s'.b.calls[i]? = some ci ∧ ci.nonce = c.wnonce ∧ ci.fin = true) ∧
        (c.wres = true → c.go ≠ .none → ∀ (i : Nat) (ci : Call), s'.b.calls[i]? = some ci → ci.nonce = c.wnonce →
          s'.b.cur ≠ some i) := by
      rcases hob with ⟨_, hst⟩ | hbb
      · exact (cc2_calls s.b s'.b _ m a c h hb.inv hi' hb.idx hst).2
      · rw [hbb]; exact ⟨h.srcr, h.gook⟩
    exact cc2_exit s'.b m a _ h.nr h.pw h.gwr v x rfl (fun _ => he) hnh h.f2 hcl.1 hcl.2
  | awaitCancel a c hpc hc =>
    show CC2 s'.b m a _
    have hob := own_base s s' _ a c _ hs h1 h2
      (Or.inr (Or.inr (Or.inr (Or.inr (Or.inr (Or.inr (Or.inr (Or.inr (Or.inr (Or.inr (Or.inl rfl)))))))))))
    simp only [OwnBase] at hob
    have hnh := no_held_of_pc s.b m a c h (by rw [hpc]; simp)
    have hcl : (c.wres = true → ∃ (i : Nat) (ci : Call), s'.b.calls[i]? = some ci ∧ ci.nonce = c.wnonce ∧ ci.fin = true) ∧
        (c.wres = true → c.go ≠ .none → ∀ (i : Nat) (ci : Call), s'.b.calls[i]? = some ci → ci.nonce = c.wnonce →
          s'.b.cur ≠ some i) := by
      rcases hob with ⟨_, hst⟩ | hbb
      · exact (cc2_calls s.b s'.b _ m a c h hb.inv hi' hb.idx hst).2
      · rw [hbb]; exact ⟨h.srcr, h.gook⟩
    exact cc2_exit s'.b m a _ h.nr h.pw h.gwr 0 9 rfl (fun _ => by simp) hnh h.f2 hcl.1 hcl.2
  | awaitOk a v c hpc hp =>
    show CC2 s'.b m a _
    have hob := own_base s s' _ a c _ hs h1 h2
      (Or.inr (Or.inr (Or.inr (Or.inr (Or.inr (Or.inr (Or.inr (Or.inr (Or.inr (Or.inl rfl))))))))))
    simp only [OwnBase] at hob
    have hbb : s'.b = s.b := by
      rcases hob with ⟨⟨v', x, hp'⟩, _⟩ | hbb
      · simp at hp'
      · exact hbb
    rw [hbb]
    have hnh := no_held_of_pc s.b m a c h (by rw [hpc]; simp)
    have hH : Hold m a c := by unfold Hold; rw [hpc]; trivial
    have hwt : Waits c v := Or.inr ⟨hpc, hp⟩
    exact
      { nr := h.nr, pw := h.pw, gwr := h.gwr
        st2 := by simp
        exw := by simp
        kw := by intro v0 e0 _ hop; exact h.pw hop (by rw [hp]; rfl)
        hp := fun ent he => absurd he (hnh ent)
        f2 := h.f2
        live := by
          intro _ hg
          have := h.live hH hg
          simpa [thPc, hpc] using this
        srcw := by
          intro v0 hw0
          rcases hw0 with hk | ⟨hk, _⟩
          · simp at hk; rw [← hk]; exact src_congr s.b c _ v rfl rfl (h.srcw v hwt)
          · simp at hk
        hsrc := fun k he => absurd he (hnh _)
        srcr := h.srcr
        gook := h.gook
        rdone := fun hw _ => h.rdone hw hH
        vr := fun hw _ => h.vr hw hH
        why := by
          intro v0 hw0
          rcases hw0 with hk | ⟨hk, _⟩
          · simp at hk; rw [← hk]; exact h.why v hwt
          · simp at hk }
  | retWait a v x c hpc =>
    show CC2 s'.b (trk m (.ret a v x)) a _
    have hbb : s'.b = s.b := by
      simp only [cstep, h1] at hs
      rw [hpc] at hs
      simp at hs
      obtain ⟨_, rfl⟩ := hs; rfl
    rw [hbb]
    have hnh0 := no_held_of_pc s.b m a c h (by rw [hpc]; simp)
    have hnh : ∀ ent, (a, ent) ∉ (trk m (.ret a v x)).held := by
      intro ent he
      rcases trk_held_back m _ _ he with g | ⟨v0, g, g2, op, hop, hne⟩
      · exact hnh0 ent g
      · simp at g
        rw [hca.ops] at hop; cases hop
        exact h.exw hne v x hpc g.2
    have nohold : ¬ Hold (trk m (.ret a v x)) a ({ c with pc := .returned } : Con) := by
      intro hH; unfold Hold at hH; simp at hH
      obtain ⟨⟨ent, he⟩, _⟩ := hH
      exact hnh ent he
    exact
      { nr := h.nr, pw := h.pw, gwr := h.gwr
        st2 := by simp
        exw := by simp
        kw := by simp
        hp := fun ent he => absurd he (hnh ent)
        f2 := fun q1 q2 => trk_fired_sub m _ a (h.f2 q1 q2)
        live := fun hH => absurd hH nohold
        srcw := by intro v0 hw0; rcases hw0 with hk | ⟨hk, _⟩ <;> simp at hk
        hsrc := fun k he => absurd he (hnh _)
        srcr := h.srcr
        gook := h.gook
        rdone := fun _ hH => absurd hH nohold
        vr := fun _ hH => absurd hH nohold
        why := by intro v0 hw0; rcases hw0 with hk | ⟨hk, _⟩ <;> simp at hk }
  | retKeep a v x c hpc =>
    show CC2 s'.b (trk m (.ret a v x)) a _
    have hmv : ∃ k pc live flag self told, s.b.th[a]? = some (TS.ref k pc live flag self told) ∧
        s'.b = { s.b with th := s.b.th.set a (TS.ref k .retd live flag self told) } := by
      simp only [cstep, h1] at hs
      rw [hpc] at hs
      simp at hs
      split at hs <;> simp at hs
      rename_i k pc live flag self told hth
      subst hs
      exact ⟨k, pc, live, flag, self, told, hth, rfl⟩
    obtain ⟨k, pc, live, flag, self, told, hth, hbb⟩ := hmv
    have hx0 : x = 0 := (hca.exitk v x hpc).2
    subst hx0
    have hopna : c.op ≠ .access := fun ha => (hca.opok.1 ha).2 v 0 hpc
    have hnh0 := no_held_of_pc s.b m a c h (by rw [hpc]; simp)
    have hH : Hold m a c := by unfold Hold; rw [hpc]; trivial
    have hwt : Waits c v := Or.inl hpc
    -- the bookkeeping: `(a, entryOf m v)` is added
    have hheld : (trk m (.ret a v 0)).held = (a, entryOf m v) :: m.held := by
      simp only [trk, hca.ops]
      cases hop : c.op <;> first | exact absurd hop hopna | simp
    have hrelinv : (trk m (.ret a v 0)).relInv = m.relInv := by
      simp only [trk, hca.ops]
      cases hop : c.op <;> first | exact absurd hop hopna | simp
    have hflds := trk_fields m (.ret a v 0) (by simp)
    have hfired : (trk m (.ret a v 0)).fired = m.fired := by
      simp only [trk, hca.ops]
      cases hop : c.op <;> first | exact absurd hop hopna | simp
    have hzero : entryOf (trk m (.ret a v 0)) = entryOf m := by
      funext v0; unfold entryOf; rw [hflds.2.2.2.2.1]
    have hinmem : ∀ ent, (a, ent) ∈ (trk m (.ret a v 0)).held → ent = entryOf m v := by
      intro ent he
      rw [hheld] at he
      simp only [List.mem_cons] at he
      rcases he with he | he
      · cases he; rfl
      · exact absurd he (hnh0 ent)
    rw [hbb]
    exact
      { nr := h.nr, pw := h.pw, gwr := h.gwr
        st2 := by simp
        exw := by simp
        kw := by simp
        hp := fun ent he => ⟨rfl, hopna, fun hop => h.kw v 0 hpc hop⟩
        f2 := by rw [hfired]; exact h.f2
        live := by
          intro _ hg
          obtain ⟨f, t, g⟩ := h.live hH hg
          have hgt : (thPc c) = .done := by simp [thPc, hpc]
          rw [hgt] at g
          have he := hth.symm.trans g
          injection he with he
          injection he with e1 e2 e3 e4 e5 e6
          subst e1; subst e3; subst e4; subst e5; subst e6
          exact ⟨flag, told, by simp [thPc, lt_of_getElem? hth]⟩
        srcw := by intro v0 hw0; rcases hw0 with hk | ⟨hk, _⟩ <;> simp at hk
        hsrc := by
          intro k0 he
          have := hinmem _ he
          obtain ⟨i, ci, hh, q1, q2, q3, q4⟩ := h.srcw v hwt
          exact ⟨i, ci, q1, entry_link2 s.b m hb.idx hb.val hb.zero v k0 i ci hh q1 q2 this.symm, q3, q4⟩
        srcr := h.srcr
        gook := h.gook
        rdone := by
          intro hw _ hnl
          exact h.rdone hw hH (fun hl => hnl ((liveTh_keep s.b a a k pc .retd live flag self told hth).mpr hl))
        vr := fun hw _ => h.vr hw hH
        why := by intro v0 hw0; rcases hw0 with hk | ⟨hk, _⟩ <;> simp at hk }
  | goRel a c hg =>
    show CC2 s'.b m a _
    have hob := own_base s s' _ a c _ hs h1 h2
      (Or.inr (Or.inr (Or.inr (Or.inr (Or.inr (Or.inr (Or.inr (Or.inr (Or.inr (Or.inr (Or.inr (Or.inr (Or.inr (Or.inl rfl))))))))))))))
    simp only [OwnBase] at hob
    have hgne : c.go ≠ .none := by rw [hg]; simp
    have hcore := cc2_base_core s.b s'.b _ m a c h hb.inv hi' hb.idx hob (fun _ hg0 => absurd hg0 hgne)
      (fun _ _ hg0 => absurd hg0 hgne)
    have hrwr : ∃ cb, c.op = .rwr cb := by
      apply Classical.byContradiction
      intro hne
      exact hgne (h.nr (fun cb hop => hne ⟨cb, hop⟩)).1
    have hw := h.gwr hgne
    have hgo' : (if c.op = COp.rwr true then GoPc.relWait else GoPc.done) ≠ GoPc.none := by split <;> simp
    exact
      { nr := by intro hnr; obtain ⟨cb, hop⟩ := hrwr; exact absurd hop (hnr cb)
        pw := hcore.pw
        gwr := fun _ => hw
        st2 := hcore.st2
        exw := hcore.exw
        kw := hcore.kw
        hp := hcore.hp
        f2 := by
          intro hop hgd
          have hop0 : c.op = .rwr true := hop
          have hgd0 : (if c.op = COp.rwr true then GoPc.relWait else GoPc.done) = GoPc.done := hgd
          rw [if_pos hop0] at hgd0; cases hgd0
        live := fun _ hg0 => absurd hg0 hgo'
        srcw := hcore.srcw
        hsrc := hcore.hsrc
        srcr := hcore.srcr
        gook := fun hw' _ => hcore.gook hw' hgne
        rdone := hcore.rdone
        vr := fun _ _ hg0 => absurd hg0 hgo'
        why := hcore.why }
  | goCb a c hg =>
    show CC2 s'.b (trk m (.cbinReleased a)) a _
    have hbb : s'.b = s.b := by
      simp only [cstep, h1] at hs
      split at hs <;> simp at hs
      subst hs; rfl
    rw [hbb]
    have hgne : c.go ≠ .none := by rw [hg]; simp
    have hm := cc2_mon s.b m (.cbinReleased a) a c h (by simp) (by simp) (by simp)
    have hrwr : ∃ cb, c.op = .rwr cb := by
      apply Classical.byContradiction
      intro hne
      exact hgne (h.nr (fun cb hop => hne ⟨cb, hop⟩)).1
    exact
      { nr := by intro hnr; obtain ⟨cb, hop⟩ := hrwr; exact absurd hop (hnr cb)
        pw := hm.pw
        gwr := fun _ => h.gwr hgne
        st2 := hm.st2
        exw := hm.exw
        kw := hm.kw
        hp := hm.hp
        f2 := fun _ _ => List.mem_cons_self
        live := by intro _ hg0; simp at hg0
        srcw := hm.srcw
        hsrc := hm.hsrc
        srcr := hm.srcr
        gook := fun hw' _ => hm.gook hw' hgne
        rdone := hm.rdone
        vr := by intro _ _ hg0; simp at hg0
        why := hm.why }

/-! ## why a release function may be called although a consumer holds a reference -/

theorem alive_arg (b b' : St) (m : C10St) (a i k seen : Nat) (c : Con) (hb : BInv b m) (h : CC2 b m a c)
    (hs : step b (.cb (.rel i k seen)) = some b') (hH : Hold m a c)
    (hsrc : ∃ (i0 : Nat) (ci : Call), b.calls[i0]? = some ci ∧ ci.inv = some k ∧ ci.stored = true ∧
      ((∃ cb, c.op = .rwr cb) → ci.nonce = c.wnonce)) :
    k ∈ m.inval ∨ (m.ctxCalls ≠ [] ∧ m.anyCtx = true) := by
  have hmem := cb_mem b b' _ hs
  have hs0 := hs
  simp only [step] at hs0; split at hs0 <;> try simp at hs0
  rename_i bt rest hpe
  have hin : relIn b.pend i k := ⟨bt, by rw [hpe]; simp, seen, hs0.1⟩
  obtain ⟨ci, hci, hcik⟩ := hb.pend i k hin
  obtain ⟨i0, c0, hc0, hk0, hst0, hn0⟩ := hsrc
  have : i0 = i := hb.idx.inj i0 i c0 ci k hc0 hci hk0 hcik
  subst this
  have hcc : ci = c0 := by rw [hc0] at hci; exact (Option.some.inj hci).symm
  subst hcc
  have hone : 0 < relItems b.pend i0 := by
    rw [hpe, relItems_cons]
    have : 0 < bt.countP (CbItem.isRel i0) := by
      rw [List.countP_pos_iff]; exact ⟨_, hs0.1, by simp [CbItem.isRel]⟩
    omega
  rcases hb.just i0 k seen hmem with g | ⟨a', ho, ha', cc, cl, u, hth'⟩ | g | ⟨c1, hc1, hst1⟩
  · exact Or.inl g
  · exact Or.inr ⟨(by intro hnil; rw [hnil] at ha'; cases ha'), hb.any a' cc cl _ u hth'⟩
  · -- no reference is in the table: then `a` has released its own, and the call was released before
    exfalso
    by_cases hg : c.go = .none
    · obtain ⟨f, t, hth⟩ := h.live hH hg
      have := g a _ hth
      simp [TS.isLive] at this
    · have hnl : ¬ LiveTh b a := by
        intro ⟨k1, pc1, f1, sf1, t1, hth⟩
        have := g a _ hth
        simp [TS.isLive] at this
      have hw := h.gwr hg
      have hrwr : ∃ cb, c.op = .rwr cb := by
        apply Classical.byContradiction
        intro hne
        exact hg (h.nr (fun cb hop => hne ⟨cb, hop⟩)).1
      have hrel : ci.released = true := by
        have := hb.acct i0
        cases hr : released b i0
        · rw [hr] at this; simp [b2n] at this; omega
        · simpa [released, hci] using hr
      obtain ⟨_, v', e', hres⟩ := hb.inv.core.relFin i0 ci hci hrel
      have := (h.rdone hw hH hnl i0 ci v' e' hci (hn0 hrwr) hres).2
      omega
  · rw [hci] at hc1; cases hc1
    rw [hst0] at hst1; cases hst1

/-! ## the relation -/

def RD (s : CSt) (m : C10St) : Prop :=
  RC1 s m ∧ RelInvOk s.b m.relInv ∧ (∀ p ∈ m.held, ∃ c, getCon s p.1 = some c) ∧
  ∀ (a : Nat) (c : Con), getCon s a = some c → CC2 s.b m a c

theorem relInvOk_mono (b : St) (ri ri' : List Nat) (h : RelInvOk b ri) (hsub : ∀ r, r ∈ ri → r ∈ ri') : RelInvOk b ri' :=
  ⟨fun b0 r pc hb => hsub r (h.1 b0 r pc hb), fun r k pc f sf t hr hpc hk => hsub r (h.2 r k pc f sf t hr hpc hk)⟩

theorem relInvOk_keep (b : St) (ri : List Nat) (a : Nat) (pc : Pc) (live flag self : Bool) (told : Option Nat)
    (h : RelInvOk b ri) (hth : b.th[a]? = some (TS.ref .hook pc live flag self told)) :
    RelInvOk { b with th := b.th.set a (TS.ref .hook .retd live flag self told) } ri := by
  refine ⟨?_, ?_⟩
  · intro b0 r pcb hb
    rcases getElem?_set_cases b.th a b0 _ _ hb with ⟨_, he⟩ | ⟨_, h0⟩
    · cases he
    · exact h.1 b0 r pcb h0
  · intro r k pcr f sf t hr hpc hk
    rcases getElem?_set_cases b.th a r _ _ hr with ⟨_, he⟩ | ⟨_, h0⟩
    · cases he; exact absurd rfl hk
    · exact h.2 r k pcr f sf t h0 hpc hk

theorem obs_leave (be : Ev) (k v : Nat) (hh : Bool) (e : Nat) (h : Ev.obs be = some (.cboutResolver k v hh e)) :
    ∃ j, be = .leave j k v hh e := by
  cases be <;> simp [Ev.obs] at h
  case leave j k' v' h' e' => exact ⟨j, by rw [h.1, h.2.1, h.2.2.1, h.2.2.2]⟩
  case cb it =>
    cases it with
    | rel i k' seen' => simp [Ev.obs] at h
    | refcb r vis res v' er => cases vis <;> simp [Ev.obs] at h

theorem obs_invRelease (be : Ev) (b0 r : Nat) (h : Ev.obs be = some (.invRelease b0 r)) : be = .invRelease b0 r := by
  cases be <;> simp [Ev.obs] at h
  case invRelease b1 r1 => rw [h.1, h.2]
  case cb it =>
    cases it with
    | rel i k' seen' => simp [Ev.obs] at h
    | refcb r' vis res v' er => cases vis <;> simp [Ev.obs] at h

theorem rd_step (s : CSt) (e : CEv) (s' : CSt) (m : C10St) (h : RD s m) (hs : cstep s e = some s') :
    RD s' (after m e) := by
  obtain ⟨hrc, hrel, hhc, hcons⟩ := h
  have hrc' := rc1_step s e s' m hrc hs
  obtain ⟨hrb, hil2, hff, hcc1s⟩ := hrc
  obtain ⟨hra, hci, hil, hfr, hcbs⟩ := hrb
  obtain ⟨⟨hal, hb⟩, hfresh, hcas⟩ := hra
  have hb' := hrc'.1.1.1.2
  have hmove := cstep_base s s' e hs
  have hframe := cstep_frame s s' e hs
  -- the Release bookkeeping only grows
  have hsub : ∀ r, r ∈ m.relInv → r ∈ (after m e).relInv := by
    intro r hr
    unfold after
    cases hob : CEv.obs e with
    | none => exact hr
    | some o => exact trk_relInv_sub m o r hr
  have hrel' : RelInvOk s'.b (after m e).relInv := by
    rcases hmove with ⟨be, he, hst, _⟩ | ⟨a0, op, he, hst, _⟩ | ⟨a0, hst, _⟩ | ⟨hbb, _⟩ |
        ⟨a0, v, x, k, pc, live, flag, self, told, c0, he, hc0, hth0, hbb, _⟩
    · refine relInvOk_step s.b s'.b be _ _ hrel hst hsub ?_
      intro b0 r hbe
      subst hbe; subst he
      show r ∈ (trk m (.base (.invRelease b0 r))).relInv
      exact List.mem_cons_self
    · exact relInvOk_step s.b s'.b _ _ _ hrel hst hsub (by intro b0 r hbe; cases hbe)
    · exact relInvOk_step s.b s'.b _ _ _ hrel hst hsub (by intro b0 r hbe; cases hbe)
    · rw [hbb]; exact relInvOk_mono s.b _ _ hrel hsub
    · rw [hbb]
      obtain ⟨pc1, l, f, sf, t, ht⟩ := hal.2 a0 c0 hc0
      rw [hth0] at ht
      have hk : k = .hook := by cases ht; rfl
      subst hk
      exact relInvOk_keep s.b _ a0 pc live flag self told (relInvOk_mono s.b _ _ hrel hsub) hth0
  have hhc' : ∀ p ∈ (after m e).held, ∃ c, getCon s' p.1 = some c := by
    intro p hp
    have old : p ∈ m.held → ∃ c, getCon s' p.1 = some c := by
      intro hp0
      obtain ⟨c, hc⟩ := hhc p hp0
      exact hframe.2 p.1 c hc
    unfold after at hp
    cases hob : CEv.obs e with
    | none => rw [hob] at hp; exact old hp
    | some o =>
      rw [hob] at hp
      rcases trk_held_back m o p hp with g | ⟨v, g, _⟩
      · exact old g
      · have he := obs_ret e p.1 v 0 (by rw [hob, g]); subst he
        simp only [cstep] at hs
        cases hc : getCon s p.1 with
        | none => simp [hc] at hs
        | some c => exact hframe.2 p.1 c hc
  refine ⟨hrc', hrel', hhc', ?_⟩
  intro a c' hc'
  -- the bookkeeping part for a consumer that the event does not belong to
  have mon : ∀ (c : Con), CC2 s.b m a c → ¬ Targets e a → CC2 s.b (after m e) a c := by
    intro c hcc hnt
    unfold after
    cases hob : CEv.obs e with
    | none => exact hcc
    | some o =>
      refine cc2_mon s.b m o a c hcc ?_ ?_ ?_
      · intro v x he; exact hnt (by rw [obs_ret e a v x (by rw [hob, he])]; simp [Targets])
      · intro k v' hh e' he hks
        subst he
        cases e with
        | base be =>
          have ho2 : Ev.obs be = some (.cboutResolver k v' hh e') := by simpa [CEv.obs] using hob
          obtain ⟨j, rfl⟩ := obs_leave be k v' hh e' ho2
          rcases hmove with ⟨be', he', hst, _⟩ | ⟨a0, op, he', _⟩ | ⟨a0, _, hobs, _⟩ | ⟨_, _, n1, _⟩ |
              ⟨a0, v0, x, k', pc, live, flag, self, told, c0, he', _⟩
          · cases he'
            simp only [step] at hst; split at hst <;> try simp at hst
            rename_i cj hcj
            obtain ⟨⟨hrun, hck, _⟩, _⟩ := hst
            obtain ⟨i2, c2, hc2, hk2, hr2⟩ := hb.seen k hks
            have : i2 = j := hb.idx.inj i2 j c2 cj k hc2 hcj hk2 hck
            subst this
            rw [hcj] at hc2; cases hc2
            obtain ⟨_, v2, e2, hres⟩ := hb.inv.core.relFin i2 cj hcj hr2
            have := hb.inv.core.resSt i2 cj hcj (by simp [hres])
            rw [hrun] at this; rcases this with h0 | h0 <;> cases h0
          · cases he'
          · simp [CEv.obs, Ev.obs] at hobs
          · exact absurd rfl (n1 _)
          · cases he'
        | probe v0 x => simp [CEv.obs] at hob
        | quiesce B => simp [CEv.obs] at hob
        | inv a' op => simp [CEv.obs] at hob
        | snap a' => simp [CEv.obs] at hob
        | watch a' => simp [CEv.obs] at hob
        | cbin a' i' v0 => simp [CEv.obs] at hob
        | cbout a' i' r' => simp [CEv.obs] at hob
        | check a' => simp [CEv.obs] at hob
        | recheck a' => simp [CEv.obs] at hob
        | waitCancel a' => simp [CEv.obs] at hob
        | await a' => simp [CEv.obs] at hob
        | awaitCancel a' => simp [CEv.obs] at hob
        | ret a' v0 x => simp [CEv.obs] at hob
        | envCancelCall a' => simp [CEv.obs] at hob
        | goRel a' => simp [CEv.obs] at hob
        | goCb a' => simp [CEv.obs] at hob
        | probeCtx a' i' c0 => simp [CEv.obs] at hob
        | probeProm a' _ _ _ => simp [CEv.obs] at hob
      · intro k seen he v hwt hk
        subst he
        cases e with
        | base be =>
          have ho2 : Ev.obs be = some (.cbinRel k seen) := by simpa [CEv.obs] using hob
          obtain ⟨i, rfl⟩ := obs_rel be k seen ho2
          rcases hmove with ⟨be', he', hst, _⟩ | ⟨a0, op, he', _⟩ | ⟨a0, _, hobs, _⟩ | ⟨_, _, n1, _⟩ |
              ⟨a0, v0, x, k', pc, live, flag, self, told, c0, he', _⟩
          · cases he'
            have hH : Hold m a c := by
              unfold Hold
              rcases hwt with hp | ⟨hp, _⟩ <;> rw [hp] <;> trivial
            obtain ⟨i0, ci, hh, q1, q2, q3, q4⟩ := hcc.srcw v hwt
            have hinv := entry_link2 s.b m hb.idx hb.val hb.zero v k i0 ci hh q1 q2 hk
            rcases alive_arg s.b s'.b m a i k seen c hb hcc hst hH ⟨i0, ci, q1, hinv, q3, q4⟩ with g | ⟨_, g⟩
            · exact Or.inl g
            · exact Or.inr g
          · cases he'
          · simp [CEv.obs, Ev.obs] at hobs
          · exact absurd rfl (n1 _)
          · cases he'
        | probe v0 x => simp [CEv.obs] at hob
        | quiesce B => simp [CEv.obs] at hob
        | inv a' op => simp [CEv.obs] at hob
        | snap a' => simp [CEv.obs] at hob
        | watch a' => simp [CEv.obs] at hob
        | cbin a' i' v0 => simp [CEv.obs] at hob
        | cbout a' i' r' => simp [CEv.obs] at hob
        | check a' => simp [CEv.obs] at hob
        | recheck a' => simp [CEv.obs] at hob
        | waitCancel a' => simp [CEv.obs] at hob
        | await a' => simp [CEv.obs] at hob
        | awaitCancel a' => simp [CEv.obs] at hob
        | ret a' v0 x => simp [CEv.obs] at hob
        | envCancelCall a' => simp [CEv.obs] at hob
        | goRel a' => simp [CEv.obs] at hob
        | goCb a' => simp [CEv.obs] at hob
        | probeCtx a' i' c0 => simp [CEv.obs] at hob
        | probeProm a' _ _ _ => simp [CEv.obs] at hob
  rcases hframe.1 a c' hc' with hun | ⟨c, hc, ht⟩ | ⟨hnone, a', op, he, hcn⟩
  · have hcc := hcons a c' hun
    by_cases htg : Targets e a
    · have ht := own_trans_full s s' e a c' c' hs hun hc' htg
      exact cc2_trans s s' e m a c' c' ht hs hun hc' hcc (hcc1s a c' hun) (hcbs a c' hun) (hcas a c' hun) hb hb'.inv
        hil hil2
    · have hcc1 := mon c' hcc htg
      have hrelm : RelInvOk s.b (after m e).relInv := relInvOk_mono s.b _ _ hrel hsub
      rcases hmove with ⟨be, he, hst, _, n1, n2, _⟩ | ⟨a0, op, he, hst, _⟩ | ⟨a0, hst, _, _, hlist⟩ | ⟨hbb, _⟩ |
          ⟨a0, v, x, k, pc, live, flag, self, told, c0, he, _, hth0, hbb, _⟩
      · refine cc2_base s.b s'.b be _ a c' hcc1 hb.inv hb'.inv hb.idx hb.thi hrelm hst (n2 a) ?_ ?_
        · intro hbe; exact htg (by rw [he, hbe]; simp [Targets])
        · intro res v er hbe; exact htg (by rw [he, hbe]; simp [Targets])
      · exact cc2_base s.b s'.b _ _ a c' hcc1 hb.inv hb'.inv hb.idx hb.thi hrelm hst (by simp) (by simp) (by simp)
      · have hne := other_swap s s' e a a0 hlist htg
        refine cc2_base s.b s'.b _ _ a c' hcc1 hb.inv hb'.inv hb.idx hb.thi hrelm hst ?_ (by simp) (by simp)
        intro hh; cases hh; exact hne rfl
      · rw [hbb]; exact hcc1
      · have hne : a0 ≠ a := by
          intro e0; subst e0; exact htg (by rw [he]; simp [Targets])
        rw [hbb]
        exact cc2_keep s.b _ a a0 k pc live flag self told c' hcc1 hth0 hne
  · exact cc2_trans s s' e m a c c' ht hs hc hc' (hcons a c hc) (hcc1s a c hc) (hcbs a c hc) (hcas a c hc) hb hb'.inv
      hil hil2
  · subst he
    have haa := (inv_new s s' a a' op hal hs).2 c' hnone hc'
    subst haa
    subst hcn
    show CC2 s'.b (trk m (.inv a op)) a { op := op }
    have hnh : ∀ ent, (a, ent) ∉ m.held := by
      intro ent he
      obtain ⟨c, hc⟩ := hhc _ he
      rw [hnone] at hc; cases hc
    exact
      { nr := fun _ => ⟨rfl, rfl⟩
        pw := by simp
        gwr := by simp
        st2 := fun _ => rfl
        exw := by simp
        kw := by simp
        hp := fun ent he => absurd he (hnh ent)
        f2 := by simp
        live := by intro hH; simp [Hold] at hH
        srcw := by intro v hw; rcases hw with hk | ⟨hk, _⟩ <;> simp at hk
        hsrc := fun k he => absurd he (hnh _)
        srcr := by simp
        gook := by simp
        rdone := by simp
        vr := by simp
        why := by intro v hw; rcases hw with hk | ⟨hk, _⟩ <;> simp at hk }

theorem rd_init : RD ({} : CSt) ({} : C10St) :=
  ⟨rc1_init, ⟨(by intro b r pc hb; simp at hb), (by intro r k pc f sf t hr; simp at hr)⟩,
    (by intro p hp; cases hp), (by intro a c h; simp [getCon] at h)⟩

theorem obs_quiesce (e : CEv) (B : List Nat) (h : CEv.obs e = some (.base (.quiesce B))) :
    e = .quiesce B ∨ e = .base (.quiesce B) := by
  cases e <;> simp [CEv.obs] at h
  case quiesce B' => exact Or.inl (by rw [h])
  case base be =>
    right
    cases be <;> simp [Ev.obs] at h
    case quiesce B' => rw [h]
    case cb it =>
      cases it with
      | rel i k' seen' => simp [Ev.obs] at h
      | refcb r' vis res v' er => cases vis <;> simp [Ev.obs] at h

/-! ## the checks -/

theorem chkFires_ok (s : CSt) (e : CEv) (s' : CSt) (m : C10St) (o : CObs) (h : RD s m) (hs : cstep s e = some s')
    (hob : CEv.obs e = some o) : chkFires m o = true := by
  obtain ⟨hrc, hrel, hhc, hcons⟩ := h
  obtain ⟨hrb, hil2, hff, hcc1s⟩ := hrc
  obtain ⟨hra, hci, hil, hfr, hcbs⟩ := hrb
  obtain ⟨⟨hal, hb⟩, hfresh, hcas⟩ := hra
  cases o with
  | base bo =>
    cases bo with
    | quiesce B =>
      rcases obs_quiesce e B hob with he | he
      · subst he
        simp only [cstep] at hs; split at hs <;> simp at hs
        rename_i hq
        have hcq := hq.1
        have hqb : quiescent s.b = true := by
          unfold cquiescent at hcq; simp only [Bool.and_eq_true] at hcq; exact hcq.1
        obtain ⟨hpe, hrr, _⟩ := quiescent_settled s.b hb.inv hqb
        show (m.held.all fun p =>
          !(opOf m p.1 == some (.rwr true) && !m.relInv.contains p.1 && entInvalidated m p.2) ||
          m.fired.contains p.1) = true
        rw [List.all_eq_true]
        intro p hp
        obtain ⟨a, ent⟩ := p
        obtain ⟨c, hc⟩ := hhc _ hp
        have hca := hcas a c hc
        have hcc := hcons a c hc
        cases hcond : (opOf m a == some (.rwr true) && !m.relInv.contains a && entInvalidated m ent)
        · simp [hcond]
        · simp only [Bool.and_eq_true] at hcond
          obtain ⟨⟨h1, h2⟩, h3⟩ := hcond
          have hop : c.op = .rwr true := by
            have : opOf m a = some (.rwr true) := by simpa using h1
            rw [hca.ops] at this; exact Option.some.inj this
          have hnri : a ∉ m.relInv := by simpa using h2
          obtain ⟨hpc, _, hwr⟩ := hcc.hp ent hp
          have hw := hwr ⟨true, hop⟩
          have hH : Hold m a c := by unfold Hold; rw [hpc]; exact ⟨⟨ent, hp⟩, hnri⟩
          -- the entry
          cases ent with
          | none => simp [entInvalidated] at h3
          | some k =>
            obtain ⟨i, ci, q1, q2, q3, q4⟩ := hcc.hsrc k hp
            have hn := q4 ⟨true, hop⟩
            have hncur : s.b.cur ≠ some i := by
              intro hcur
              obtain ⟨cj, hh, hcj, hnon, _, _, hres, _, hnr⟩ := hb.inv.core.curSome i hcur
              rw [q1] at hcj; cases hcj
              have h3' : m.relSeen.contains k = true ∨ m.inval.contains k = true := by
                simpa [entInvalidated] using h3
              rcases h3' with g | g
              · obtain ⟨i2, c2, hc2, hk2, hr2⟩ := hb.seen k (by simpa using g)
                have : i2 = i := hb.idx.inj i2 i c2 ci k hc2 q1 hk2 q2
                subst this
                rw [q1] at hc2; cases hc2
                obtain ⟨_, v', e', hres2⟩ := hb.inv.core.relFin i2 ci q1 hr2
                rw [hres] at hres2; simp at hres2
                have := hnr hres2.2.1; rw [hr2] at this; cases this
              · rcases (hb.inval k (by simpa using g)).2 i ci q1 q2 with g2 | g2
                · rw [hrr] at g2; cases g2
                · omega
            have hgo : c.go ≠ .none := by
              intro hg
              rcases hcc.vr hw hH hg with ⟨r2, v2, e2, hm⟩ | ⟨i', ci', hcur, hc', hn'⟩
              · unfold AItem at hm; rw [hpe] at hm; simp at hm
              · have : i' = i := nonce_inj s.b hb.inv i' i ci' ci hc' q1 (by rw [hn', hn])
                subst this; exact hncur hcur
            have hqc : c.quiet = true := by
              unfold cquiescent at hcq
              simp only [Bool.and_eq_true, List.all_eq_true] at hcq
              have hmem : some c ∈ s.ct := by
                unfold getCon at hc
                cases hx : s.ct[a]? with
                | none => simp [hx] at hc
                | some y => simp [hx] at hc; subst hc; exact List.mem_of_getElem? hx
              exact hcq.2 _ hmem
            have hdone : c.go = .done := by
              unfold Con.quiet at hqc
              simp only [Bool.and_eq_true, Bool.or_eq_true, beq_iff_eq] at hqc
              rcases hqc.2 with g | g
              · exact absurd g hgo
              · exact g
            have := hcc.f2 hop hdone
            simp [this]
      · subst he; simp [cstep] at hs
    | _ => rfl
  | inv a op => rfl
  | cancelCall a => rfl
  | cbinReleased a => rfl
  | ret a v x => rfl
  | probeCtx a i c => rfl
  | probeProm a _ _ _ => rfl
  | cbin a i v => rfl
  | cbout a i r => rfl

theorem chkAlive_ok (s : CSt) (e : CEv) (s' : CSt) (m : C10St) (o : CObs) (h : RD s m) (hs : cstep s e = some s')
    (hob : CEv.obs e = some o) : chkAlive m o = true := by
  obtain ⟨hrc, hrel, hhc, hcons⟩ := h
  obtain ⟨hrb, hil2, hff, hcc1s⟩ := hrc
  obtain ⟨hra, hci, hil, hfr, hcbs⟩ := hrb
  obtain ⟨⟨hal, hb⟩, hfresh, hcas⟩ := hra
  cases o with
  | base bo =>
    cases bo with
    | cbinRel k seen =>
      show (!(m.held.any (fun p => p.2 == some k && !m.relInv.contains p.1) && !m.inval.contains k &&
        m.ctxCalls.isEmpty)) = true
      cases hcond : (m.held.any (fun p => p.2 == some k && !m.relInv.contains p.1) && !m.inval.contains k &&
        m.ctxCalls.isEmpty)
      · rfl
      · exfalso
        simp only [Bool.and_eq_true] at hcond
        obtain ⟨⟨h1, h2⟩, h3⟩ := hcond
        rw [List.any_eq_true] at h1
        obtain ⟨p, hp, hpp⟩ := h1
        obtain ⟨a, ent⟩ := p
        simp only [Bool.and_eq_true] at hpp
        have hent : ent = some k := by simpa using hpp.1
        subst hent
        have hnri : a ∉ m.relInv := by simpa using hpp.2
        obtain ⟨c, hc⟩ := hhc _ hp
        have hcc := hcons a c hc
        obtain ⟨hpc, _, _⟩ := hcc.hp _ hp
        have hH : Hold m a c := by unfold Hold; rw [hpc]; exact ⟨⟨_, hp⟩, hnri⟩
        -- the event is the call of the release function
        cases e with
        | base be =>
          have ho2 : Ev.obs be = some (.cbinRel k seen) := by simpa [CEv.obs] using hob
          obtain ⟨i, rfl⟩ := obs_rel be k seen ho2
          rcases cstep_base s s' _ hs with ⟨be', he', hst, _⟩ | ⟨a0, op, he', _⟩ | ⟨a0, _, hobs, _⟩ | ⟨_, _, n1, _⟩ |
              ⟨a0, v0, x, k', pc, live, flag, self, told, c0, he', _⟩
          · cases he'
            rcases alive_arg s.b s'.b m a i k seen c hb hcc hst hH (hcc.hsrc k hp) with g | ⟨g, _⟩
            · have : m.inval.contains k = true := by simpa using g
              rw [this] at h2; simp at h2
            · have : m.ctxCalls.isEmpty = false := by
                cases hl : m.ctxCalls with
                | nil => exact absurd hl g
                | cons x xs => rfl
              rw [this] at h3; cases h3
          · cases he'
          · simp [CEv.obs, Ev.obs] at hobs
          · exact absurd rfl (n1 _)
          · cases he'
        | probe v0 x => simp [CEv.obs] at hob
        | quiesce B => simp [CEv.obs] at hob
        | inv a' op => simp [CEv.obs] at hob
        | snap a' => simp [CEv.obs] at hob
        | watch a' => simp [CEv.obs] at hob
        | cbin a' i' v0 => simp [CEv.obs] at hob
        | cbout a' i' r' => simp [CEv.obs] at hob
        | check a' => simp [CEv.obs] at hob
        | recheck a' => simp [CEv.obs] at hob
        | waitCancel a' => simp [CEv.obs] at hob
        | await a' => simp [CEv.obs] at hob
        | awaitCancel a' => simp [CEv.obs] at hob
        | ret a' v0 x => simp [CEv.obs] at hob
        | envCancelCall a' => simp [CEv.obs] at hob
        | goRel a' => simp [CEv.obs] at hob
        | goCb a' => simp [CEv.obs] at hob
        | probeCtx a' i' c0 => simp [CEv.obs] at hob
        | probeProm a' _ _ _ => simp [CEv.obs] at hob
    | _ => rfl
  | ret a v x =>
    have he := obs_ret e a v x hob; subst he
    simp only [cstep] at hs
    cases hc : getCon s a with
    | none => simp [hc] at hs
    | some c =>
      have hca := hcas a c hc
      have hcc := hcons a c hc
      simp only [hc] at hs
      show (match opOf m a with
        | some .access => true
        | some _ =>
          x != 0 ||
            (match entryOf m v with
             | some k => !(m.relSeen.contains k && !m.inval.contains k && !m.anyCtx)
             | none => true)
        | none => true) = true
      rw [hca.ops]
      cases hop : c.op with
      | access => rfl
      | _ =>
        simp only
        cases hx : (x != 0)
        · have hx0 : x = 0 := by simpa using hx
          subst hx0
          simp only [Bool.false_or]
          cases hent : entryOf m v with
          | none => rfl
          | some k =>
            simp only
            have hpc : c.pc = .exitKeep v 0 := by
              split at hs <;> try simp at hs
              · rename_i v' x' hpc
                obtain ⟨⟨rfl, rfl, _⟩, _⟩ := hs
                exact absurd rfl (hcc.exw (by rw [hop]; simp) v 0 hpc)
              · rename_i v' x' hpc
                obtain ⟨⟨rfl, rfl⟩, _⟩ := hs
                exact hpc
            cases hrs : m.relSeen.contains k
            · simp
            · rcases hcc.why v (Or.inl hpc) k hent (by simpa using hrs) with g | g
              · simp; exact Or.inl g
              · simp [g]
        · simp
  | inv a op => rfl
  | cancelCall a => rfl
  | cbinReleased a => rfl
  | probeCtx a i c => rfl
  | probeProm a _ _ _ => rfl
  | cbin a i v => rfl
  | cbout a i r => rfl

/-- **C10 (observable form, `released_once` — exactly when).** Every observable trace of the composed
model is accepted by `monC10Fires`: at every quiescence point, a `ResolveWithReleased` call that was
handed a value with a reference it still holds, and whose value has been invalidated (its release
function has run, or its `released()` was called), has had its `released` callback called. -/
theorem c10_fires_obs (es : List CEv) (s : CSt) (h : cmodel.run cmodel.init es = some s) :
    monC10Fires.accepts (es.filterMap cmodel.obs) = true :=
  clause_sim chkFires RD rd_init rd_step chkFires_ok es s h

/-- **C10 (observable form, `wait_keeps_alive`).** Every observable trace of the composed model is
accepted by `monC10Alive`: the release function of a value does not run while a reference that was
returned with that value by `Wait` / `Resolve` / `ResolveWithReleased` is held (its `Release` not
invoked), unless the value was invalidated (`released()` called, or a `SetContext` in flight); and a
value that is already released when such a call returns it was invalidated. -/
theorem c10_alive_obs (es : List CEv) (s : CSt) (h : cmodel.run cmodel.init es = some s) :
    monC10Alive.accepts (es.filterMap cmodel.obs) = true :=
  clause_sim chkAlive RD rd_init rd_step chkAlive_ok es s h

/-- **C10 (observable form, whole monitor).** Every observable trace of the composed model
(RefCount + `Access` / `Wait` / `Resolve` / `ResolveWithReleased` calls) is accepted by `monC10`, the
conjunction of the six clause monitors that `./check C10` evaluates on implementation histories. -/
theorem c10_obs (es : List CEv) (s : CSt) (h : cmodel.run cmodel.init es = some s) :
    monC10.accepts (es.filterMap cmodel.obs) = true := by
  simp only [ObsMonitor.rcBoth_accepts, c10_value_obs es s h, c10_result_obs es s h, c10_released_obs es s h,
    c10_cancel_obs es s h, c10_fires_obs es s h, c10_alive_obs es s h, Bool.and_self]

end UtilModel.RefCount.Cons
