import UtilModel.RefCount.Frame
import UtilModel.RefCount.Proofs7
/-!
# refcount: frame lemmas for the thread table and for the variables that only critical sections touch
-/
set_option linter.unusedSimpArgs false
set_option linter.unusedVariables false
namespace UtilModel.RefCount
open UtilModel

/-- events that are critical sections on `r.mtx` -/
def isLock : Ev → Bool
  | .addRefCS _ | .relCS _ | .selfRelCS _ | .setCtxCS _ | .relRun _ | .store _ => true
  | _ => false

/-- what event `e` may do to thread entry `a` (the ghost field `told` is not tracked) -/
def ThStep (s : St) (e : Ev) (a : Nat) : TS → TS → Prop
  | .ref k pc l _ _ _, .ref k' pc' l' _ _ _ =>
    k' = k ∧
    (pc' = pc ∨ (pc = .inv ∧ pc' = .done ∧ e = .addRefCS a) ∨ (pc = .done ∧ pc' = .retd ∧ e = .retAddRef a)) ∧
    (l' = l ∨ (l = false ∧ l' = true ∧ e = .addRefCS a) ∨
      (l = true ∧ l' = false ∧ ((∃ b, e = .relCS b ∧ s.th[b]? = some (.rel a .cs)) ∨ (e = .selfRelCS a ∧ k = .hook)))) ∧
    (pc = .inv → pc' ≠ .inv → l' = true)
  | .rel r _, .rel r' _ => r' = r
  | .ctx c cl pc _, .ctx c' cl' pc' _ =>
    c' = c ∧ cl' = cl ∧
    (pc' = pc ∨ (pc = .inv ∧ pc' = .done ∧ e = .setCtxCS a) ∨ (pc = .done ∧ pc' = .retd ∧ ∃ r, e = .retSetCtx a r))
  | _, _ => False

/-- a thread entry created by event `e` -/
def ThNew (e : Ev) (a : Nat) (x' : TS) : Prop :=
  (∃ k, e = .invAddRef a k ∧ k ≠ .hook ∧ x' = .ref k .inv false false false none) ∨
  (e = .invHook a ∧ x' = .ref .hook .inv false false false none) ∨
  (∃ r, e = .invRelease a r ∧ x' = .rel r .inv) ∨
  (∃ c cl, e = .invSetCtx a c cl ∧ x' = .ctx c cl .inv false)

def ThFrame (s : St) (th' : List TS) (e : Ev) : Prop :=
  (∀ (a : Nat) (x' : TS), th'[a]? = some x' →
    (∃ x, s.th[a]? = some x ∧ ThStep s e a x x') ∨ (s.th[a]? = none ∧ ThNew e a x')) ∧
  (∀ (a : Nat) (x : TS), s.th[a]? = some x → ∃ x', th'[a]? = some x')

theorem thStep_refl (s : St) (e : Ev) (a : Nat) (x : TS) : ThStep s e a x x := by
  cases x <;> simp [ThStep]
  intro h1 h2; exact absurd h1 h2

theorem thStep_tell (s : St) (e : Ev) (a : Nat) (x x' : TS) (t : Option Nat) (h : ThStep s e a x x') :
    ThStep s e a x (tell1 t x') := by
  cases x' with
  | ref k pc l f sf told =>
    cases l
    · simpa [tell1] using h
    · simp only [tell1]; split
      · exact h
      · cases x <;> simpa [ThStep] using h
  | rel r pc => simpa [tell1] using h
  | ctx c cl pc u => simpa [tell1] using h

theorem thFrame_same (s : St) (e : Ev) : ThFrame s s.th e :=
  ⟨fun a x' h => Or.inl ⟨x', h, thStep_refl s e a x'⟩, fun a x h => ⟨x, h⟩⟩

theorem thFrame_tellAll (s : St) (th1 : List TS) (e : Ev) (t : Option Nat) (h : ThFrame s th1 e) :
    ThFrame s (tellAll th1 t) e := by
  refine ⟨?_, ?_⟩
  · intro a x' hx'
    rw [tellAll_get] at hx'
    cases h1 : th1[a]? with
    | none => simp [h1] at hx'
    | some y =>
      simp [h1] at hx'; subst hx'
      rcases h.1 a y h1 with ⟨x, hx, hst⟩ | ⟨hn, hnew⟩
      · exact Or.inl ⟨x, hx, thStep_tell s e a x y t hst⟩
      · right; refine ⟨hn, ?_⟩
        -- a new entry is not live, `tell1` leaves it alone
        rcases hnew with ⟨k, g1, g2, rfl⟩ | ⟨g1, rfl⟩ | ⟨r, g1, rfl⟩ | ⟨c, cl, g1, rfl⟩
        · exact Or.inl ⟨k, g1, g2, rfl⟩
        · exact Or.inr (Or.inl ⟨g1, rfl⟩)
        · exact Or.inr (Or.inr (Or.inl ⟨r, g1, rfl⟩))
        · exact Or.inr (Or.inr (Or.inr ⟨c, cl, g1, rfl⟩))
  · intro a x hx
    obtain ⟨y, hy⟩ := h.2 a x hx
    exact ⟨tell1 t y, by rw [tellAll_get, hy]; rfl⟩

theorem thFrame_set (s : St) (e : Ev) (a : Nat) (old new : TS) (h : s.th[a]? = some old)
    (hst : ThStep s e a old new) : ThFrame s (s.th.set a new) e := by
  have hlt := lt_of_getElem? h
  refine ⟨?_, ?_⟩
  · intro b x' hx'
    rcases getElem?_set_cases s.th a b new x' hx' with ⟨hb, rfl⟩ | ⟨_, g⟩
    · exact Or.inl ⟨old, hb ▸ h, hb ▸ hst⟩
    · exact Or.inl ⟨x', g, thStep_refl s e b x'⟩
  · intro b x hx
    by_cases hab : a = b
    · subst hab; exact ⟨new, by simp [hlt]⟩
    · exact ⟨x, by simp [List.getElem?_set, hab]; exact hx⟩

theorem thFrame_append (s : St) (e : Ev) (new : TS) (h : ThNew e s.th.length new) :
    ThFrame s (s.th ++ [new]) e := by
  refine ⟨?_, ?_⟩
  · intro b x' hx'
    rcases getElem?_snoc_cases _ _ _ _ hx' with ⟨_, g⟩ | ⟨hb, rfl⟩
    · exact Or.inl ⟨x', g, thStep_refl s e b x'⟩
    · exact Or.inr ⟨by rw [hb]; exact List.getElem?_eq_none (Nat.le_refl _), hb ▸ h⟩
  · intro b x hx
    exact ⟨x, getElem?_snoc_left _ _ _ _ hx⟩

/-- `shutdown` / `startResolveLocked` / the tail of `removeRef` touch the thread table only through `told` -/
theorem thFrame_shutdown (s s0 : St) (e : Ev) (h : ThFrame s s0.th e) : ThFrame s (shutdown s0).th e := by
  rw [shutdown_th]; split
  · exact thFrame_tellAll s _ e none h
  · exact h

theorem thFrame_startResolve (s s0 : St) (e : Ev) (h : ThFrame s s0.th e) : ThFrame s (startResolve s0).th e := by
  rw [startResolve_th]; exact thFrame_shutdown s s0 e h

theorem thFrame_afterRemove (s s0 : St) (e : Ev) (h : ThFrame s s0.th e) : ThFrame s (afterRemove s0).th e := by
  unfold afterRemove
  split
  · split
    · exact thFrame_shutdown s s0 e h
    · exact h
  · exact h


/-- a further `set` on top of a framed table -/
theorem thFrame_set' (s : St) (th1 : List TS) (e : Ev) (h : ThFrame s th1 e) (b : Nat) (old new : TS)
    (hb : th1[b]? = some old) (hst : ∀ x0, s.th[b]? = some x0 → ThStep s e b x0 new)
    (hnew : s.th[b]? = none → ThNew e b new) : ThFrame s (th1.set b new) e := by
  have hlt := lt_of_getElem? hb
  refine ⟨?_, ?_⟩
  · intro a x' hx'
    rcases getElem?_set_cases th1 b a new x' hx' with ⟨ha, rfl⟩ | ⟨_, g⟩
    · subst ha
      cases h0 : s.th[a]? with
      | none => exact Or.inr ⟨rfl, hnew h0⟩
      | some x0 => exact Or.inl ⟨x0, rfl, hst x0 h0⟩
    · exact h.1 a x' g
  · intro a x hx
    obtain ⟨y, hy⟩ := h.2 a x hx
    by_cases hab : b = a
    · subst hab; exact ⟨new, by simp [hlt]⟩
    · exact ⟨y, by simp [List.getElem?_set, hab]; exact hy⟩

/-- **frame for the thread table** -/
theorem th_frame (s s' : St) (e : Ev) (hs : step s e = some s') : ThFrame s s'.th e := by
  cases e with
  | cfg kp c t => simp only [step] at hs; split at hs <;> simp at hs; subst hs; exact thFrame_same s _
  | envCancelCtx c => simp only [step] at hs; split at hs <;> simp at hs; subst hs; exact thFrame_same s _
  | envReleased k => simp only [step] at hs; split at hs <;> simp at hs; subst hs; exact thFrame_same s _
  | quiesce B => simp only [step] at hs; split at hs <;> simp at hs; subst hs; exact thFrame_same s _
  | probe v er => simp only [step] at hs; split at hs <;> simp at hs; subst hs; exact thFrame_same s _
  | cb it =>
    simp only [step] at hs; split at hs <;> try simp at hs
    obtain ⟨_, rfl⟩ := hs; exact thFrame_same s _
  | enter i k =>
    simp only [step] at hs; split at hs <;> try simp at hs
    obtain ⟨_, rfl⟩ := hs; exact thFrame_same s _
  | giveUp i =>
    simp only [step] at hs; split at hs <;> try simp at hs
    obtain ⟨_, rfl⟩ := hs; exact thFrame_same s _
  | drained i =>
    simp only [step] at hs; split at hs <;> try simp at hs
    obtain ⟨_, rfl⟩ := hs; exact thFrame_same s _
  | leave i k v hr er =>
    simp only [step] at hs; split at hs <;> try simp at hs
    obtain ⟨_, rfl⟩ := hs; exact thFrame_same s _
  | done i =>
    simp only [step] at hs; split at hs <;> try simp at hs
    obtain ⟨_, rfl⟩ := hs; exact thFrame_same s _
  | store i =>
    simp only [step] at hs; split at hs <;> try simp at hs
    split at hs <;> try simp at hs
    obtain ⟨_, hs⟩ := hs
    split at hs
    · simp at hs; subst hs; exact thFrame_tellAll s _ _ _ (thFrame_same s _)
    · split at hs <;> simp at hs <;> subst hs <;> exact thFrame_same s _
  | relRun r =>
    simp only [step] at hs; split at hs <;> try simp at hs
    split at hs <;> try simp at hs
    split at hs <;> simp at hs <;> obtain ⟨_, rfl⟩ := hs
    · exact thFrame_startResolve s _ _ (thFrame_same s _)
    · exact thFrame_same s _
  | invAddRef a k =>
    simp only [step] at hs; split at hs <;> simp at hs; subst hs
    rename_i h
    exact thFrame_append s _ _ (Or.inl ⟨k, by rw [← h.2.1], h.2.2, rfl⟩)
  | invHook a =>
    simp only [step] at hs; split at hs <;> simp at hs; subst hs
    rename_i h
    exact thFrame_append s _ _ (Or.inr (Or.inl ⟨by rw [← h.2], rfl⟩))
  | invRelease b r =>
    simp only [step] at hs; split at hs <;> try simp at hs
    rename_i h
    split at hs <;> try simp at hs
    subst hs
    exact thFrame_append s _ _ (Or.inr (Or.inr (Or.inl ⟨r, by rw [← h], rfl⟩)))
  | invSetCtx a c cl =>
    simp only [step] at hs; split at hs <;> simp at hs; subst hs
    rename_i h
    exact thFrame_append s _ _ (Or.inr (Or.inr (Or.inr ⟨c, cl, by rw [← h.2.1], rfl⟩)))
  | retAddRef a =>
    simp only [step] at hs; split at hs <;> try simp at hs
    rename_i k l f sf t ha
    obtain ⟨_, rfl⟩ := hs
    exact thFrame_set s _ a _ _ ha ⟨rfl, Or.inr (Or.inr ⟨rfl, rfl, rfl⟩), Or.inl rfl, by simp⟩
  | retRelease b =>
    simp only [step] at hs; split at hs <;> try simp at hs
    rename_i r hb
    obtain ⟨_, rfl⟩ := hs
    exact thFrame_set s _ b _ _ hb rfl
  | retSetCtx a u =>
    simp only [step] at hs; split at hs <;> try simp at hs
    rename_i c cl u2 ha
    obtain ⟨_, rfl⟩ := hs
    exact thFrame_set s _ a _ _ ha ⟨rfl, rfl, Or.inr (Or.inr ⟨rfl, rfl, u, rfl⟩)⟩
  | selfRelSwap a =>
    simp only [step] at hs; split at hs <;> try simp at hs
    rename_i pc l f sf t ha
    obtain ⟨_, hs⟩ := hs
    split at hs <;> simp at hs <;> subst hs
    · exact thFrame_same s _
    · exact thFrame_set s _ a _ _ ha ⟨rfl, Or.inl rfl, Or.inl rfl, fun h1 h2 => absurd h1 h2⟩
  | relSwap b =>
    simp only [step] at hs; split at hs <;> try simp at hs
    rename_i r hb
    split at hs <;> simp at hs <;> subst hs
    · rename_i k pc l sf t hr
      have hne : r ≠ b := by intro e; subst e; rw [hb] at hr; cases hr
      have h1 := thFrame_set s (.relSwap b) r _ (.ref k pc l true sf t) hr ⟨rfl, Or.inl rfl, Or.inl rfl, fun h1 h2 => absurd h1 h2⟩
      have hb' : (s.th.set r (.ref k pc l true sf t))[b]? = some (.rel r .inv) := by
        rw [getElem?_set_ne' _ _ _ _ hne]; exact hb
      exact thFrame_set' s _ _ h1 b _ (.rel r .cs) hb'
        (by intro x0 h0; rw [hb] at h0; cases h0; rfl) (by intro h0; rw [hb] at h0; cases h0)
    · exact thFrame_set s _ b _ _ hb rfl
  | setCtxCS a =>
    simp only [step] at hs; split at hs <;> try simp at hs
    rename_i c cl u ha
    split at hs <;> simp at hs <;> obtain ⟨_, rfl⟩ := hs
    · exact thFrame_set s _ a _ _ ha ⟨rfl, rfl, Or.inr (Or.inl ⟨rfl, rfl, rfl⟩)⟩
    · exact thFrame_startResolve s { s with ctx := c, th := s.th.set a (.ctx c cl .done true), owner := .thr a } _
        (thFrame_set s _ a _ _ ha ⟨rfl, rfl, Or.inr (Or.inl ⟨rfl, rfl, rfl⟩)⟩)
  | addRefCS a =>
    simp only [step] at hs; split at hs <;> try simp at hs
    rename_i k ha
    obtain ⟨_, hs⟩ := hs
    have h1 : ∀ t, ThFrame s (s.th.set a (.ref k .done true false false t)) (.addRefCS a) := fun t =>
      thFrame_set s _ a _ _ ha ⟨rfl, Or.inr (Or.inl ⟨rfl, rfl, rfl⟩), Or.inr (Or.inl ⟨rfl, rfl, rfl⟩), fun _ _ => rfl⟩
    split at hs
    · simp at hs; subst hs
      exact thFrame_startResolve s { s with th := s.th.set a (.ref k .done true false false none), owner := .thr a } _ (h1 none)
    · split at hs <;> simp at hs <;> subst hs
      · simp only [List.set_set]; exact h1 s.cur
      · exact h1 none
  | relCS b =>
    simp only [step] at hs; split at hs <;> try simp at hs
    rename_i r hb
    split at hs <;> try simp at hs
    case h_2 => obtain ⟨_, rfl⟩ := hs; exact thFrame_set s _ b _ _ hb rfl
    rename_i k pc f sf t hr
    obtain ⟨_, rfl⟩ := hs
    have hne : r ≠ b := by intro e; subst e; rw [hb] at hr; cases hr
    have h1 := thFrame_set s (.relCS b) r _ (.ref k pc false f sf t) hr
      ⟨rfl, Or.inl rfl, Or.inr (Or.inr ⟨rfl, rfl, Or.inl ⟨b, rfl, hb⟩⟩), fun h1 h2 => absurd h1 h2⟩
    have hb' : (s.th.set r (.ref k pc false f sf t))[b]? = some (.rel r .cs) := by
      rw [getElem?_set_ne' _ _ _ _ hne]; exact hb
    have h2 := thFrame_set' s _ _ h1 b _ (.rel r .done) hb'
      (by intro x0 h0; rw [hb] at h0; cases h0; rfl) (by intro h0; rw [hb] at h0; cases h0)
    exact thFrame_afterRemove s { s with th := (s.th.set r (.ref k pc false f sf t)).set b (.rel r .done), owner := .thr b } _ h2
  | selfRelCS a =>
    simp only [step] at hs; split at hs <;> try simp at hs
    rename_i pc f t ha
    obtain ⟨_, rfl⟩ := hs
    have h1 := thFrame_set s (.selfRelCS a) a _ (.ref .hook pc false f false t) ha
      ⟨rfl, Or.inl rfl, Or.inr (Or.inr ⟨rfl, rfl, Or.inr ⟨rfl, rfl⟩⟩), fun h1 h2 => absurd h1 h2⟩
    exact thFrame_afterRemove s { s with th := s.th.set a (.ref .hook pc false f false t), owner := .self a } _ h1


/-- a critical section starts only when the mutex is free -/
theorem lock_free (s s' : St) (e : Ev) (hs : step s e = some s') (hl : isLock e = true) : s.pend = [] := by
  have key : s.free = true → s.pend = [] := by intro h; simpa [St.free] using h
  cases e <;> simp [isLock] at hl
  case addRefCS a =>
    simp only [step] at hs; split at hs <;> try simp at hs
    exact key hs.1
  case relCS b =>
    simp only [step] at hs; split at hs <;> try simp at hs
    split at hs <;> simp at hs <;> exact key hs.1
  case selfRelCS a =>
    simp only [step] at hs; split at hs <;> try simp at hs
    exact key hs.1
  case setCtxCS a =>
    simp only [step] at hs; split at hs <;> try simp at hs
    split at hs <;> simp at hs <;> exact key hs.1
  case relRun r =>
    simp only [step] at hs; split at hs <;> try simp at hs
    split at hs <;> try simp at hs
    split at hs <;> simp at hs <;> exact key hs.1
  case store i =>
    simp only [step] at hs; split at hs <;> try simp at hs
    split at hs <;> try simp at hs
    exact key hs.1.2.2

/-- the pending `released()` sections: one is added per `released()` call, for the call that was
entered under that entry number -/
theorem relRuns_frame (s s' : St) (e : Ev) (hs : step s e = some s') (i : Nat) (h : i ∈ s'.relRuns) :
    i ∈ s.relRuns ∨ ∃ k c, e = .envReleased k ∧ s.calls[i]? = some c ∧ c.inv = some k := by
  have keepStart : ∀ s0 : St, (startResolve s0).relRuns = s0.relRuns := by
    intro s0; rw [startResolve_eq]; split <;> simp [spawned]
  have keepAfter : ∀ s0 : St, (afterRemove s0).relRuns = s0.relRuns := by
    intro s0; unfold afterRemove; split
    · split
      · simp
      · rfl
    · rfl
  cases e with
  | envReleased k =>
    simp only [step] at hs; split at hs <;> simp at hs
    rename_i j hf
    subst hs
    simp at h
    rcases h with h | h
    · exact Or.inl h
    · subst h
      have := List.find?_some hf
      cases hc : s.calls[i]? with
      | none => simp [hc] at this
      | some c => simp [hc] at this; exact Or.inr ⟨k, c, rfl, rfl, this⟩
  | relRun r =>
    simp only [step] at hs; split at hs <;> try simp at hs
    split at hs <;> try simp at hs
    split at hs <;> simp at hs <;> obtain ⟨_, rfl⟩ := hs
    · rw [keepStart] at h; exact Or.inl (List.mem_of_mem_eraseIdx h)
    · exact Or.inl (List.mem_of_mem_eraseIdx h)
  | cfg kp c t => simp only [step] at hs; split at hs <;> simp at hs; subst hs; exact Or.inl h
  | invAddRef a kd => simp only [step] at hs; split at hs <;> simp at hs; subst hs; exact Or.inl h
  | invHook a => simp only [step] at hs; split at hs <;> simp at hs; subst hs; exact Or.inl h
  | retAddRef a =>
    simp only [step] at hs; split at hs <;> try simp at hs
    obtain ⟨_, rfl⟩ := hs; exact Or.inl h
  | invRelease b r =>
    simp only [step] at hs; split at hs <;> try simp at hs
    split at hs <;> try simp at hs
    subst hs; exact Or.inl h
  | relSwap b =>
    simp only [step] at hs; split at hs <;> try simp at hs
    split at hs <;> simp at hs <;> subst hs <;> exact Or.inl h
  | retRelease b =>
    simp only [step] at hs; split at hs <;> try simp at hs
    obtain ⟨_, rfl⟩ := hs; exact Or.inl h
  | selfRelSwap a =>
    simp only [step] at hs; split at hs <;> try simp at hs
    obtain ⟨_, hs⟩ := hs
    split at hs <;> simp at hs <;> subst hs <;> exact Or.inl h
  | invSetCtx a c cl => simp only [step] at hs; split at hs <;> simp at hs; subst hs; exact Or.inl h
  | retSetCtx a u =>
    simp only [step] at hs; split at hs <;> try simp at hs
    obtain ⟨_, rfl⟩ := hs; exact Or.inl h
  | envCancelCtx c => simp only [step] at hs; split at hs <;> simp at hs; subst hs; exact Or.inl h
  | quiesce B => simp only [step] at hs; split at hs <;> simp at hs; subst hs; exact Or.inl h
  | probe v er => simp only [step] at hs; split at hs <;> simp at hs; subst hs; exact Or.inl h
  | cb it =>
    simp only [step] at hs; split at hs <;> try simp at hs
    obtain ⟨_, rfl⟩ := hs; exact Or.inl h
  | enter j k =>
    simp only [step] at hs; split at hs <;> try simp at hs
    obtain ⟨_, rfl⟩ := hs; exact Or.inl h
  | giveUp j =>
    simp only [step] at hs; split at hs <;> try simp at hs
    obtain ⟨_, rfl⟩ := hs; exact Or.inl h
  | drained j =>
    simp only [step] at hs; split at hs <;> try simp at hs
    obtain ⟨_, rfl⟩ := hs; exact Or.inl h
  | leave j k v hr er =>
    simp only [step] at hs; split at hs <;> try simp at hs
    obtain ⟨_, rfl⟩ := hs; exact Or.inl h
  | done j =>
    simp only [step] at hs; split at hs <;> try simp at hs
    obtain ⟨_, rfl⟩ := hs; exact Or.inl h
  | store j =>
    simp only [step] at hs; split at hs <;> try simp at hs
    split at hs <;> try simp at hs
    obtain ⟨_, hs⟩ := hs
    split at hs
    · simp at hs; subst hs; exact Or.inl h
    · split at hs <;> simp at hs <;> subst hs <;> exact Or.inl h
  | addRefCS a =>
    simp only [step] at hs; split at hs <;> try simp at hs
    obtain ⟨_, hs⟩ := hs
    split at hs
    · simp at hs; subst hs; rw [keepStart] at h; exact Or.inl h
    · split at hs <;> simp at hs <;> subst hs <;> exact Or.inl h
  | relCS b =>
    simp only [step] at hs; split at hs <;> try simp at hs
    split at hs <;> try simp at hs
    case h_2 => obtain ⟨_, rfl⟩ := hs; exact Or.inl h
    obtain ⟨_, rfl⟩ := hs
    rw [keepAfter] at h; exact Or.inl h
  | selfRelCS a =>
    simp only [step] at hs; split at hs <;> try simp at hs
    obtain ⟨_, rfl⟩ := hs
    rw [keepAfter] at h; exact Or.inl h
  | setCtxCS a =>
    simp only [step] at hs; split at hs <;> try simp at hs
    split at hs <;> simp at hs <;> obtain ⟨_, rfl⟩ := hs
    · exact Or.inl h
    · rw [keepStart] at h; exact Or.inl h

/-- an event that is not a critical section leaves the owner, the stored call and the pending
callbacks alone (callbacks can only be consumed) -/
theorem nonlock_frame (s s' : St) (e : Ev) (hs : step s e = some s') (hl : isLock e = false) :
    s'.owner = s.owner ∧ s'.cur = s.cur ∧
    (∀ it, it ∈ s'.pend.flatten → it ∈ s.pend.flatten) := by
  cases e <;> simp [isLock] at hl
  case cfg kp c t => simp only [step] at hs; split at hs <;> simp at hs; subst hs; exact ⟨rfl, rfl, fun _ h => h⟩
  case invAddRef a kd => simp only [step] at hs; split at hs <;> simp at hs; subst hs; exact ⟨rfl, rfl, fun _ h => h⟩
  case invHook a => simp only [step] at hs; split at hs <;> simp at hs; subst hs; exact ⟨rfl, rfl, fun _ h => h⟩
  case retAddRef a =>
    simp only [step] at hs; split at hs <;> try simp at hs
    obtain ⟨_, rfl⟩ := hs; exact ⟨rfl, rfl, fun _ h => h⟩
  case invRelease b r =>
    simp only [step] at hs; split at hs <;> try simp at hs
    split at hs <;> try simp at hs
    subst hs; exact ⟨rfl, rfl, fun _ h => h⟩
  case relSwap b =>
    simp only [step] at hs; split at hs <;> try simp at hs
    split at hs <;> simp at hs <;> subst hs <;> exact ⟨rfl, rfl, fun _ h => h⟩
  case retRelease b =>
    simp only [step] at hs; split at hs <;> try simp at hs
    obtain ⟨_, rfl⟩ := hs; exact ⟨rfl, rfl, fun _ h => h⟩
  case selfRelSwap a =>
    simp only [step] at hs; split at hs <;> try simp at hs
    obtain ⟨_, hs⟩ := hs
    split at hs <;> simp at hs <;> subst hs <;> exact ⟨rfl, rfl, fun _ h => h⟩
  case invSetCtx a c cl => simp only [step] at hs; split at hs <;> simp at hs; subst hs; exact ⟨rfl, rfl, fun _ h => h⟩
  case retSetCtx a u =>
    simp only [step] at hs; split at hs <;> try simp at hs
    obtain ⟨_, rfl⟩ := hs; exact ⟨rfl, rfl, fun _ h => h⟩
  case envCancelCtx c => simp only [step] at hs; split at hs <;> simp at hs; subst hs; exact ⟨rfl, rfl, fun _ h => h⟩
  case envReleased k => simp only [step] at hs; split at hs <;> simp at hs; subst hs; exact ⟨rfl, rfl, fun _ h => h⟩
  case quiesce B => simp only [step] at hs; split at hs <;> simp at hs; subst hs; exact ⟨rfl, rfl, fun _ h => h⟩
  case probe v er => simp only [step] at hs; split at hs <;> simp at hs; subst hs; exact ⟨rfl, rfl, fun _ h => h⟩
  case enter j k =>
    simp only [step] at hs; split at hs <;> try simp at hs
    obtain ⟨_, rfl⟩ := hs; exact ⟨rfl, rfl, fun _ h => h⟩
  case giveUp j =>
    simp only [step] at hs; split at hs <;> try simp at hs
    obtain ⟨_, rfl⟩ := hs; exact ⟨rfl, rfl, fun _ h => h⟩
  case drained j =>
    simp only [step] at hs; split at hs <;> try simp at hs
    obtain ⟨_, rfl⟩ := hs; exact ⟨rfl, rfl, fun _ h => h⟩
  case leave j k v hr er =>
    simp only [step] at hs; split at hs <;> try simp at hs
    obtain ⟨_, rfl⟩ := hs; exact ⟨rfl, rfl, fun _ h => h⟩
  case done j =>
    simp only [step] at hs; split at hs <;> try simp at hs
    obtain ⟨_, rfl⟩ := hs; exact ⟨rfl, rfl, fun _ h => h⟩
  case cb it =>
    simp only [step] at hs; split at hs <;> try simp at hs
    rename_i b rest hp
    obtain ⟨_, rfl⟩ := hs
    refine ⟨rfl, rfl, ?_⟩
    intro x hx
    rw [hp]
    simp only at hx
    split at hx
    · simp; exact Or.inr (by simpa using hx)
    · simp at hx ⊢
      rcases hx with hx | hx
      · exact Or.inl (List.mem_of_mem_erase hx)
      · exact Or.inr hx

end UtilModel.RefCount
