import UtilModel.RefCount.Proofs6
import UtilModel.RefCount.Monitors
/-!
# refcount — property theorems C08 and C09 (statements a reader audits)

All theorems quantify over **every** event list `es` of the model (`model.run model.init es = some s`):
any number of references, Release calls, context changes, `released()` invocations, resolver calls
with any latency and outcome, in every interleaving of the atomic steps of `Model.lean`.
-/
set_option linter.unusedSimpArgs false
set_option linter.unusedVariables false
namespace UtilModel.RefCount
open UtilModel

/-! ## C08 — each resolved value is released exactly once, never exposed afterwards -/

/-- number of calls of the release function of resolver call `i` in an event list -/
def relCalls (es : List Ev) (i : Nat) : Nat := (es.map (emits · i)).sum

theorem acct_run (s s' : St) (es : List Ev) (i : Nat) (hi : Inv s) (hr : model.run s es = some s') :
    relCalls es i + relItems s'.pend i + b2n (released s i) = relItems s.pend i + b2n (released s' i) := by
  induction es generalizing s with
  | nil => simp [OLTS.run] at hr; subst hr; simp [relCalls]
  | cons e es ih =>
    simp only [OLTS.run] at hr
    cases hst : model.step s e with
    | none => simp [hst] at hr
    | some s1 =>
      simp [hst] at hr
      have h1 := step_acct s s1 e i hi hst
      have h2 := ih s1 (step_inv s e s1 hi hst) hr
      simp only [relCalls, List.map_cons, List.sum_cons] at h2 ⊢
      omega

/-- **C08 `rel_exact`.** Calls of `i`'s release function made so far + calls the running critical
section still has to make = 1 if the (ghost) flag "released" of `i` is set, else 0. -/
theorem rel_exact (es : List Ev) (s : St) (h : model.run model.init es = some s) (i : Nat) :
    relCalls es i + relItems s.pend i = b2n (released s i) := by
  have := acct_run model.init s es i init_inv h
  have h1 : relItems model.init.pend i = 0 := by simp [model, relItems]
  have h2 : b2n (released model.init i) = 0 := by simp [model, released, b2n]
  rw [h1, h2] at this
  omega

/-- **C08 `rel_at_most_once`.** For every event list, the release function returned by resolver call
`i` is called at most once. -/
theorem rel_at_most_once (es : List Ev) (s : St) (h : model.run model.init es = some s) (i : Nat) :
    relCalls es i ≤ 1 := by
  have := rel_exact es s h i
  unfold b2n at this; split at this <;> omega

/-- a release function is only called if the resolver returned one: the flag is set only for a call
that returned `(v, hasRel = true, e)` and has run its final section. -/
theorem rel_only_returned (es : List Ev) (s : St) (h : model.run model.init es = some s) (i : Nat)
    (hr : released s i = true) :
    ∃ c v e, s.calls[i]? = some c ∧ c.res = some (v, true, e) ∧ c.fin = true := by
  have hi := reachable_inv es s h
  unfold released at hr
  cases hc : s.calls[i]? with
  | none => simp [hc] at hr
  | some c =>
    simp [hc] at hr
    obtain ⟨h1, v, e, h2⟩ := hi.core.relFin i c hc hr
    exact ⟨c, v, e, rfl, h2, h1⟩


theorem startResolve_fields (s1 : St) :
    (startResolve s1).pend = (shutdown s1).pend ∧ (startResolve s1).target = (shutdown s1).target ∧
    (startResolve s1).cur = (shutdown s1).cur ∧ (startResolve s1).th = (shutdown s1).th ∧
    (startResolve s1).ctx = s1.ctx := by
  rw [startResolve_eq]; split <;> simp [spawned]

/-- **C08 `rel_not_while_held`.** The event in which the release function of call `i` gets called is
one of: a `SetContext` that changes the context; the `released()` callback of `i` itself (with the
generation unchanged); a `Release` after which no reference is left; or the final section of `i`
itself when `i` was superseded before it returned — then its value was never stored and never
given to any reference. So the value is not released while a reference that was given it is held
and the value has not been invalidated. -/
theorem rel_not_while_held_inv (s : St) (hi : Inv s)
    (e : Ev) (s' : St) (hs : model.step s e = some s') (i : Nat)
    (h0 : released s i = false) (h1 : released s' i = true) :
    (∃ a, e = .setCtxCS a ∧ s'.ctx ≠ s.ctx) ∨
    (∃ j, e = .relRun j ∧ s.relRuns[j]? = some i) ∨
    ((∃ b, e = .relCS b ∨ e = .selfRelCS b) ∧ liveRefs s' = 0) ∨
    (e = .store i ∧ ∃ c, s.calls[i]? = some c ∧ c.stored = false ∧ c.nonce ≠ s.nonce ∧
      ∀ (a : Nat) (k : CbKind) (pc : Pc) (f sf : Bool) (t : Option Nat),
        s.th[a]? = some (.ref k pc true f sf t) → k ≠ .nil → t ≠ some i) := by
  rcases flip_cases s s' e i hi hs h0 h1 with ⟨_, s1, hk, _⟩ | ⟨he, c, val, err, hc, _, hn, hst, _, _⟩
  · cases hk with
    | ctxChange a he hc h' =>
      left; refine ⟨a, he, ?_⟩
      rw [h', (startResolve_fields s1).2.2.2.2]; exact hc
    | releasedCb j he hj h' => right; left; exact ⟨j, he, hj⟩
    | lastRef b he h0' h' =>
      right; right; left
      refine ⟨⟨b, he⟩, ?_⟩
      rw [h']; simpa using h0'
  · right; right; right
    refine ⟨he, c, hc, hst, hn, ?_⟩
    intro a k pc f sf t ha hk ht
    have := hi.core.told a k pc f sf t ha hk
    rw [ht] at this
    obtain ⟨c2, _, g1, g2, _⟩ := hi.core.curSome i this.symm
    rw [hc] at g1; cases g1; exact hn g2

/-- `rel_not_while_held` for every event list -/
theorem rel_not_while_held (es : List Ev) (s : St) (h : model.run model.init es = some s)
    (e : Ev) (s' : St) (hs : model.step s e = some s') (i : Nat)
    (h0 : released s i = false) (h1 : released s' i = true) :
    (∃ a, e = .setCtxCS a ∧ s'.ctx ≠ s.ctx) ∨
    (∃ j, e = .relRun j ∧ s.relRuns[j]? = some i) ∨
    ((∃ b, e = .relCS b ∨ e = .selfRelCS b) ∧ liveRefs s' = 0) ∨
    (e = .store i ∧ ∃ c, s.calls[i]? = some c ∧ c.stored = false ∧ c.nonce ≠ s.nonce ∧
      ∀ (a : Nat) (k : CbKind) (pc : Pc) (f sf : Bool) (t : Option Nat),
        s.th[a]? = some (.ref k pc true f sf t) → k ≠ .nil → t ≠ some i) :=
  rel_not_while_held_inv s (reachable_inv es s h) e s' hs i h0 h1

/-- the invariant behind "no leak": a release function that was returned, whose call has run its
final section, and that has not been called belongs to the stored current value; and a value is
stored only while a reference is held or (keep-unreferenced and no error), with a context set. -/
theorem unreleased_is_current (es : List Ev) (s : St) (h : model.run model.init es = some s)
    (i : Nat) (c : Call) (v e : Nat) (hc : s.calls[i]? = some c) (hf : c.fin = true)
    (hr : c.res = some (v, true, e)) (hn : c.released = false) :
    s.cur = some i ∧ s.rel = some i ∧ c.nonce = s.nonce ∧ s.value = v ∧ s.verr = e ∧
    (0 < liveRefs s ∨ (s.keep = true ∧ s.verr = 0)) ∧ s.ctx ≠ 0 := by
  have hi := reachable_inv es s h
  have hrel := hi.core.noLeak i c v e hc hf hr hn
  obtain ⟨c2, g1, _, _, _, hcur⟩ := rel_is_cur s hi.core i hrel
  obtain ⟨c3, hh, k1, k2, _, _, k5, _⟩ := hi.core.curSome i hcur
  rw [hc] at k1; cases k1
  rw [hr] at k5; simp at k5
  have hres : s.resolved = true := by rw [hi.core.resCur, hcur]; rfl
  exact ⟨hcur, hrel, k2, k5.1.symm, k5.2.2.symm, hi.live.kept hres⟩

/-- in a quiescent state nothing is pending inside the container: no callback is owed, no
`released()` section, and every resolver call that returned has run its final section -/
theorem quiescent_settled (s : St) (hi : Inv s) (hq : quiescent s = true) :
    s.pend = [] ∧ s.relRuns = [] ∧
    ∀ (i : Nat) (c : Call), s.calls[i]? = some c → c.res.isSome → c.fin = true := by
  unfold quiescent at hq
  simp only [Bool.and_eq_true] at hq
  obtain ⟨⟨⟨⟨_, hp⟩, hr⟩, _⟩, hcalls⟩ := hq
  refine ⟨by simpa using hp, by simpa using hr, ?_⟩
  intro i c hc hres
  rw [List.all_eq_true] at hcalls
  have hq := hcalls c (List.mem_of_getElem? hc)
  have hst := hi.core.resSt i c hc hres
  rcases hst with hst | hst
  · simp [Call.quiet, hst] at hq
  · exact (hi.core.finSt i c hc).2 hst

/-- **C08 `rel_eventually`.** In a quiescent state, every release function that a resolver call
returned has been called exactly once — except the one of the stored current value, and a value is
stored only if a reference is held or (keep-unreferenced and it resolved without error), and the
context is set. -/
theorem rel_eventually (es : List Ev) (s : St) (h : model.run model.init es = some s)
    (hq : quiescent s = true) (i : Nat) (c : Call) (v e : Nat) (hc : s.calls[i]? = some c)
    (hr : c.res = some (v, true, e)) :
    relCalls es i = 1 ∨
    (relCalls es i = 0 ∧ s.cur = some i ∧ s.value = v ∧ s.verr = e ∧
      (0 < liveRefs s ∨ (s.keep = true ∧ s.verr = 0)) ∧ s.ctx ≠ 0) := by
  have hi := reachable_inv es s h
  obtain ⟨hp, _, hfin⟩ := quiescent_settled s hi hq
  have hex := rel_exact es s h i
  rw [hp] at hex
  simp [relItems] at hex
  cases hrel : c.released
  · right
    have := unreleased_is_current es s h i c v e hc (hfin i c hc (by simp [hr])) hr hrel
    refine ⟨?_, this.1, this.2.2.2.1, this.2.2.2.2.1, this.2.2.2.2.2.1, this.2.2.2.2.2.2⟩
    rw [hex]; simp [released, hc, hrel, b2n]
  · left
    rw [hex]; simp [released, hc, hrel, b2n]

/-- **C08 (stale results).** A resolver call that returns after it was superseded releases its
result in its own final section: the call of its release function is among the callbacks of that
very critical section. -/
theorem stale_released_in_store (es : List Ev) (s : St) (h : model.run model.init es = some s)
    (i : Nat) (s' : St) (hs : model.step s (.store i) = some s') (c : Call) (v e : Nat)
    (hc : s.calls[i]? = some c) (hr : c.res = some (v, true, e)) (hn : c.nonce ≠ s.nonce) :
    released s i = false ∧ released s' i = true ∧ relItems s'.pend i = relItems s.pend i + 1 := by
  have hi := reachable_inv es s h
  have hs' : step s (.store i) = some s' := hs
  simp only [step, hc, hr] at hs'
  split at hs'
  case isFalse => simp at hs'
  rename_i hcond
  simp [hn] at hs'
  subst hs'
  have hcr : c.released = false := by
    cases hcr : c.released
    · rfl
    · have := (hi.core.relFin i c hc hcr).1
      simp at hcond; rw [hcond.2.1] at this; cases this
  refine ⟨by simp [released, hc, hcr], by simp [released, setCall, lt_of_getElem? hc], ?_⟩
  show relItems (addBatch s.pend [CbItem.rel i (c.inv.getD 0) s.target]) i = relItems s.pend i + 1
  rw [relItems_addBatch]; simp [CbItem.isRel]


theorem mem_cbItems_of_tellAll (th : List TS) (told : Option Nat) (a : Nat) (k : CbKind) (pc : Pc)
    (f sf : Bool) (t : Option Nat) (res : Bool) (v e : Nat)
    (h : (tellAll th told)[a]? = some (.ref k pc true f sf t)) (hk : k ≠ .nil) :
    CbItem.refcb a (k == .rcd) res v e ∈ cbItems th res v e := by
  rw [tellAll_get] at h
  cases hx : th[a]? with
  | none => simp [hx] at h
  | some x =>
    simp [hx] at h
    have hlt := lt_of_getElem? hx
    simp only [cbItems, List.mem_filterMap, List.mem_range]
    refine ⟨a, hlt, ?_⟩
    cases x with
    | ref k2 pc2 live f2 sf2 told2 =>
      cases live <;> simp [tell1] at h
      split at h
      · simp at h; rename_i hk2; obtain ⟨rfl, _⟩ := h; exact absurd hk2 hk
      · simp at h; obtain ⟨rfl, _⟩ := h
        simp [hx, hk]
    | rel r pc => simp [tell1] at h
    | ctx c cl pc u => simp [tell1] at h

/-- **C08 `rel_after_hidden`.** In the event that calls the release function of call `i`: the call is
the last callback of the critical section (`pre` = everything the section does before it) and what it
reads from the target container is the container's final content; `i` is not (or no longer) the
stored value; the target is empty, or — when `i` was superseded before it returned — still holds the
untouched value of the stored call, which is not `i`; no live reference is (ghost) "given" `i`; and
if `i` had been stored, every live reference with a callback is called with `resolved = false` in a
batch that precedes the release call. -/
theorem rel_after_hidden (es : List Ev) (s : St) (h : model.run model.init es = some s)
    (e : Ev) (s' : St) (hs : model.step s e = some s') (i : Nat)
    (h0 : released s i = false) (h1 : released s' i = true) :
    ∃ k pre, s'.pend = addBatch pre [.rel i k s'.target] ∧
      s'.cur ≠ some i ∧
      (s'.target = 0 ∨ (s.cur ≠ some i ∧ s'.cur = s.cur ∧ s'.target = s.target)) ∧
      (∀ (a : Nat) (k2 : CbKind) (pc : Pc) (f sf : Bool) (t : Option Nat),
        s'.th[a]? = some (.ref k2 pc true f sf t) → k2 ≠ .nil → t ≠ some i) ∧
      (s.cur = some i → ∀ (a : Nat) (k2 : CbKind) (pc : Pc) (f sf : Bool) (t : Option Nat),
        s'.th[a]? = some (.ref k2 pc true f sf t) → k2 ≠ .nil →
        ∃ b ∈ pre, CbItem.refcb a (k2 == .rcd) false 0 0 ∈ b) := by
  have hi := reachable_inv es s h
  have hi' := step_inv s e s' hi hs
  rcases flip_cases s s' e i hi hs h0 h1 with ⟨hrel, s1, hk, hsame⟩ | ⟨he, c, val, err, hc, _, hn, hst, _, heq⟩
  · obtain ⟨e1, e2, e3, e4, e5, e6, _⟩ := hsame
    obtain ⟨_, _, _, _, _, hcur⟩ := rel_is_cur s hi.core i hrel
    have hres : s1.resolved = true := by rw [e3, hi.core.resCur, hcur]; rfl
    -- all three kinds end in `shutdown s1` as far as pend / target / cur / th are concerned
    have hf : s'.pend = (shutdown s1).pend ∧ s'.target = (shutdown s1).target ∧
        s'.cur = (shutdown s1).cur ∧ s'.th = (shutdown s1).th := by
      cases hk with
      | ctxChange a he hc h' => rw [h']; have := startResolve_fields s1; exact ⟨this.1, this.2.1, this.2.2.1, this.2.2.2.1⟩
      | releasedCb j he hj h' => rw [h']; have := startResolve_fields s1; exact ⟨this.1, this.2.1, this.2.2.1, this.2.2.2.1⟩
      | lastRef b he h0' h' => rw [h']; exact ⟨rfl, rfl, rfl, rfl⟩
    obtain ⟨f1, f2, f3, f4⟩ := hf
    have hcur' : s'.cur = none := by rw [f3, shutdown_cur, hres]; rfl
    have htgt' : s'.target = 0 := by
      have := hi'.core.tgtVal
      rw [(hi'.core.curNone hcur').2.1] at this; simpa using this
    refine ⟨invOf s1.calls i, addBatch s.pend (cbItems s1.th false 0 0), ?_, by rw [hcur']; simp, Or.inl htgt', ?_, ?_⟩
    · rw [f1, shutdown_pend, hres, e2, hrel, ← f2, e4]; rfl
    · intro a k2 pc f sf t ha hk2
      rw [hi'.core.told a k2 pc f sf t ha hk2, hcur']; simp
    · intro _ a k2 pc f sf t ha hk2
      rw [f4, shutdown_th, hres] at ha
      have hm := mem_cbItems_of_tellAll s1.th none a k2 pc f sf t false 0 0 ha hk2
      refine ⟨cbItems s1.th false 0 0, ?_, hm⟩
      unfold addBatch
      split
      · rename_i hemp; simp at hemp; rw [hemp] at hm; cases hm
      · simp
  · have hcne : s.cur ≠ some i := by
      intro hcur
      obtain ⟨c2, _, g1, g2, _⟩ := hi.core.curSome i hcur
      rw [hc] at g1; cases g1; exact hn g2
    subst heq
    refine ⟨c.inv.getD 0, s.pend, rfl, hcne, Or.inr ⟨hcne, rfl, rfl⟩, ?_, ?_⟩
    · intro a k2 pc f sf t ha hk2
      have : t = s.cur := hi.core.told a k2 pc f sf t ha hk2
      rw [this]; exact hcne
    · intro hcur; exact absurd hcur hcne


/-! ## C09 — referenced + context ⇒ resolved, by one resolver at a time -/

/-- a resolver call for the current generation has been started and has not yet run its final
section: it waits for its predecessor, runs the resolver, or is about to store -/
def Resolving (s : St) : Prop :=
  ∃ (i : Nat) (c : Call), s.calls[i]? = some c ∧ c.nonce = s.nonce ∧ c.fin = false ∧ c.ci.cancelled = false ∧
    (c.ci.st = .waiting ∨ c.ci.st = .running ∨ c.ci.st = .returned)

/-- the latest result has been delivered: stored, written to the target containers, and given to
every live reference that has a callback (late references included) -/
def Delivered (s : St) : Prop :=
  s.resolved = true ∧
  (∃ (i : Nat) (c : Call) (h : Bool), s.cur = some i ∧ s.calls[i]? = some c ∧ c.nonce = s.nonce ∧
    c.res = some (s.value, h, s.verr)) ∧
  s.target = (if s.tgt ∧ s.verr = 0 then s.value else 0) ∧
  s.targetErr = (if s.tgtE then s.verr else 0) ∧
  ∀ (a : Nat) (k : CbKind) (pc : Pc) (f sf : Bool) (t : Option Nat),
    s.th[a]? = some (.ref k pc true f sf t) → k ≠ .nil → t = s.cur

/-- **C09 `progress_inv`.** In every reachable state: if the context is set and not cancelled and
at least one reference is held, then a resolver call of the current generation is pending / running
/ about to store, or the latest result has been delivered to the target containers and to every
reference callback. -/
theorem progress_inv (es : List Ev) (s : St) (h : model.run model.init es = some s)
    (hctx : s.ctx ≠ 0) (hlive : s.dead.contains s.ctx = false) (hrefs : 0 < liveRefs s) :
    Resolving s ∨ Delivered s := by
  have hi := reachable_inv es s h
  have hdel : s.resolved = true → Delivered s := by
    intro hres
    have hcur : s.cur.isSome = true := by rw [← hi.core.resCur]; exact hres
    cases hcs : s.cur with
    | none => simp [hcs] at hcur
    | some j =>
      obtain ⟨c, hh, g1, g2, _, _, g5, _⟩ := hi.core.curSome j hcs
      exact ⟨hres, ⟨j, c, hh, hcs, g1, g2, g5⟩, hi.core.tgtVal, hi.core.tgtErr,
        fun a k pc f sf t ha hk => by rw [hi.core.told a k pc f sf t ha hk, hcs]⟩
  rcases hi.live.prog hctx hrefs with hres | ⟨i, c, hc, hn⟩
  · exact Or.inr (hdel hres)
  · obtain ⟨f1, f2, f3, f4, f5, f6⟩ := hi.live.fresh i c hc hn
    have hnc : c.ci.cancelled = false := by
      cases hcc : c.ci.cancelled
      · rfl
      · have := f4 hcc; rw [hlive] at this; cases this
    cases hfin : c.fin
    · left
      refine ⟨i, c, hc, hn, hfin, hnc, ?_⟩
      have hst := hi.core.finSt i c hc
      cases hs : c.ci.st with
      | waiting => exact Or.inl rfl
      | running => exact Or.inr (Or.inl rfl)
      | returned => exact Or.inr (Or.inr rfl)
      | draining => have := hi.core.drainC i c hc (Or.inl hs); rw [hnc] at this; cases this
      | closed => have := hst.2 hs; rw [hfin] at this; cases this
    · right
      cases hres : c.res with
      | none => have := hi.core.drainC i c hc (Or.inr ⟨hfin, hres⟩); rw [hnc] at this; cases this
      | some r =>
        have hcur := f6 hfin (by simp [hres])
        exact hdel (by rw [hi.core.resCur, hcur]; rfl)

/-- **C09 `released_restarts`.** When the `released()` section of call `i` runs while the generation
is unchanged (`i` is the current resolver call or the stored value), the value is dropped (not
resolved any more, targets emptied, its release function called) and, if a context is set and a
reference is held, a fresh resolver call of the new generation is started; with a changed
generation it does nothing (the value was invalidated already). The section itself stays enabled
from the `released()` call until it has run (it only needs the mutex), and at every quiescent point
all of them have run (`quiescent_settled`). -/
theorem released_restarts (es : List Ev) (s : St) (h : model.run model.init es = some s)
    (j i : Nat) (c : Call) (hj : s.relRuns[j]? = some i) (hc : s.calls[i]? = some c) (hfree : s.pend = []) :
    ∃ s', model.step s (.relRun j) = some s' ∧
      (c.nonce ≠ s.nonce → s' = { s with relRuns := s.relRuns.eraseIdx j, owner := .other }) ∧
      (c.nonce = s.nonce →
        s'.resolved = false ∧ s'.cur = none ∧ s'.target = 0 ∧ s'.targetErr = 0 ∧ s'.nonce = s.nonce + 1 ∧
        (s.rel = some i → released s' i = true) ∧
        (s.ctx ≠ 0 → 0 < liveRefs s →
          ∃ c', s'.calls[s.calls.length]? = some c' ∧ c'.nonce = s'.nonce ∧ c'.ci.st = .waiting ∧
            c'.ci.pred = s.waitCh ∧ c'.fin = false)) := by
  have hi := reachable_inv es s h
  by_cases hn : c.nonce = s.nonce
  · refine ⟨startResolve { s with relRuns := s.relRuns.eraseIdx j, owner := .other }, ?_, fun h => absurd hn h, fun _ => ?_⟩
    · show step s (.relRun j) = _
      simp [step, hj, hc, St.free, hfree, hn]
    · have hi1 := inv_misc s hi .other s.ninv (s.relRuns.eraseIdx j) s.pend hi.core.pendNE
      have hi' := startResolve_inv _ hi1.core
      generalize hs1 : ({ s with relRuns := s.relRuns.eraseIdx j, owner := .other } : St) = s1 at hi' ⊢
      have e1 : s1.calls = s.calls := by rw [← hs1]
      have e2 : s1.rel = s.rel := by rw [← hs1]
      have e3 : s1.ctx = s.ctx := by rw [← hs1]
      have e4 : liveRefs s1 = liveRefs s := by rw [← hs1]; rfl
      have e5 : s1.nonce = s.nonce := by rw [← hs1]
      have e6 : s1.waitCh = s.waitCh := by rw [← hs1]
      have hnr : (startResolve s1).resolved = false := by rw [startResolve_eq]; split <;> simp [spawned]
      have hcur := cur_none_of_unresolved _ hi'.core hnr
      obtain ⟨_, hv0, he0⟩ := hi'.core.curNone hcur
      have htv := hi'.core.tgtVal; have hte := hi'.core.tgtErr
      rw [hv0, he0] at htv; rw [he0] at hte
      refine ⟨hnr, hcur, by simpa using htv, by simpa using hte, ?_, ?_, ?_⟩
      · rw [startResolve_eq]; split <;> simp [spawned, e5]
      · intro hr
        rw [released_startResolve, shutdown_released s1 (by rw [← hs1]; exact relOk_of_core s hi.core), e2, hr]
        simp
      · intro hctx hl
        rw [startResolve_eq, if_neg (by rw [e3, e4]; intro h; rcases h with h | h; exact hctx h; omega)]
        refine ⟨newCall (shutdown s1), ?_, ?_, ?_, ?_, ?_⟩
        · simp [spawned, ← e1, shutdown_calls_length]
        · simp [spawned, newCall]
        · simp [newCall]
        · simp [newCall, e6]
        · simp [newCall]
  · refine ⟨{ s with relRuns := s.relRuns.eraseIdx j, owner := .other }, ?_, fun _ => rfl, fun h => absurd h hn⟩
    show step s (.relRun j) = _
    simp [step, hj, hc, St.free, hfree, hn]

/-- **C09 `one_resolver_running`.** For every event list, two resolver calls that are inside the
resolver function are the same call (hand-over chain of `Core/Chain.lean`: a call enters the
resolver only after its predecessor's `doneCh` is closed, and a call that gave up waiting closes its
own `doneCh` only after its predecessor's). -/
theorem one_resolver_running (es : List Ev) (s : St) (h : model.run model.init es = some s)
    (i j : Nat) (ci cj : Call) (hi : s.calls[i]? = some ci) (hj : s.calls[j]? = some cj)
    (ri : ci.ci.st = .running) (rj : cj.ci.st = .running) : i = j :=
  Chain.one_running (chainSlot s) (reachable_inv es s h).core.chain i j ci.ci cj.ci
    (chain_get s i ci hi) (chain_get s j cj hj) ri rj

/-- **C09 `no_panic`.** No reachable state has taken a "call of a nil callback" step: `AddRef(nil)`
on a resolved container and `callRefCbsLocked` over references with nil callbacks are guarded as in
the code (refcount.go:161, 483). -/
theorem no_panic (es : List Ev) (s : St) (h : model.run model.init es = some s) : s.panic = false :=
  (reachable_inv es s h).core.panicF

/-- **C09 (no deadlock, part 1).** At a quiescent point no `AddRef` / `Release` / `SetContext` /
`ClearContext` call is pending: the quiescence observable of the model always reports an empty set. -/
theorem quiescent_no_pending_api (s : St) (hq : quiescent s = true) : pendingIds s = [] := by
  unfold quiescent at hq
  simp only [Bool.and_eq_true] at hq
  obtain ⟨⟨_, hth⟩, _⟩ := hq
  rw [List.all_eq_true] at hth
  unfold pendingIds
  rw [List.filter_eq_nil_iff]
  intro a _
  cases ha : s.th[a]? with
  | none => simp
  | some t =>
    have := hth t (List.mem_of_getElem? ha)
    cases t with
    | ref k pc live f sf told => cases k <;> simp [TS.pendingApi, this]
    | rel r pc => simp [TS.pendingApi, this]
    | ctx c cl pc u => simp [TS.pendingApi, this]


/-! ## the hypotheses are satisfiable, the model does something -/

/-- resolve, deliver, drop the last reference: the release function runs once, after the target was emptied -/
def exRun1 : List Ev := [.cfg false 1 1, .invAddRef 0 .rcd, .addRefCS 0, .retAddRef 0, .enter 0 0,
  .leave 0 0 1 true 0, .store 0, .cb (.refcb 0 true true 1 0), .done 0,
  .invRelease 1 0, .relSwap 1, .relCS 1, .cb (.rel 0 0 0), .retRelease 1, .probe 0 0, .quiesce []]

example : (model.run model.init exRun1).isSome = true := by decide
example : relCalls exRun1 0 = 1 := by decide

/-- two restarts inside one resolver's return latency (released(), then SetContext): call 1 gives up
and drains behind call 0; call 0's late result is stale and released in its own final section; call 2
enters only after both are done -/
def exRun2 : List Ev := [.cfg false 1 1, .invAddRef 0 .rcd, .addRefCS 0, .retAddRef 0, .enter 0 0,
  .envReleased 0, .relRun 0, .invSetCtx 1 2 false, .setCtxCS 1, .retSetCtx 1 (some true),
  .giveUp 1, .leave 0 0 1 true 0, .store 0, .cb (.rel 0 0 0), .done 0, .drained 1, .done 1,
  .enter 2 1, .leave 2 1 2 true 0, .store 2, .cb (.refcb 0 true true 2 0), .done 2, .probe 2 0, .quiesce []]

example : (model.run model.init exRun2).isSome = true := by decide
example : relCalls exRun2 0 = 1 ∧ relCalls exRun2 2 = 0 := by decide

/-- keep-unreferenced: the value survives the last Release; AddRef(nil) on the resolved container -/
def exRun3 : List Ev := [.cfg true 1 1, .invAddRef 0 .quiet, .addRefCS 0, .retAddRef 0, .enter 0 0,
  .leave 0 0 1 true 0, .store 0, .cb (.refcb 0 false true 1 0), .done 0,
  .invRelease 1 0, .relSwap 1, .relCS 1, .retRelease 1, .probe 1 0, .quiesce [],
  .invAddRef 2 .nil, .addRefCS 2, .retAddRef 2, .probe 1 0, .quiesce []]

example : (model.run model.init exRun3).isSome = true := by decide
example : relCalls exRun3 0 = 0 := by decide

end UtilModel.RefCount
