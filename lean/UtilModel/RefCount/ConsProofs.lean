import UtilModel.RefCount.Consumers
import UtilModel.RefCount.Props
/-!
# refcount consumers: invariants of the composed model
-/
set_option linter.unusedSimpArgs false
set_option linter.unusedVariables false
namespace UtilModel.RefCount.Cons
open UtilModel UtilModel.RefCount

theorem getCon_setCon (s : CSt) (a b : Nat) (c : Con) :
    getCon (setCon s a c) b = if a = b ∧ a < s.ct.length then some c else getCon s b := by
  unfold getCon setCon
  simp only [List.getElem?_set]
  by_cases hab : a = b
  · subst hab
    by_cases hlt : a < s.ct.length
    · simp [hlt]
    · simp [hlt]
  · simp [hab]

theorem getCon_lt (s : CSt) (a : Nat) (c : Con) (h : getCon s a = some c) : a < s.ct.length := by
  unfold getCon at h
  cases hx : s.ct[a]? with
  | none => simp [hx] at h
  | some x => exact lt_of_getElem? hx

/-- what a consumer entry of the successor state is: unchanged, or the entry just written -/
theorem getCon_setCon_cases (s : CSt) (a b : Nat) (c x : Con) (h : getCon (setCon s a c) b = some x) :
    (b = a ∧ x = c) ∨ (b ≠ a ∧ getCon s b = some x) := by
  rw [getCon_setCon] at h
  split at h
  · rename_i hab; simp at h; exact Or.inl ⟨hab.1.symm, h.symm⟩
  · rename_i hab
    by_cases hba : b = a
    · subst hba
      have := getCon_lt s b x h
      exact absurd ⟨rfl, this⟩ hab
    · exact Or.inr ⟨hba, h⟩

/-! ## the local invariant of one consumer -/

/-- the snapshot `(n, ch)` of an Access loop iteration against the variables guarded by the private
Broadcast: the channel is allocated, the nonce only grows, and the channel is closed exactly when the
nonce has moved on (i.e. a notification changed the snapshot after the snapshot section). -/
def SnapOk (c : Con) (n ch : Nat) : Prop :=
  ch < c.bc.next ∧ n ≤ c.cnonce ∧ (c.bc.closed ch = true ↔ c.cnonce ≠ n)

def ConOk (c : Con) : Prop :=
  c.bc.WF ∧
  match c.pc with
  | .calling v n ch => SnapOk c n ch ∧ (c.cnonce = n → c.cres = true ∧ c.cv = v ∧ c.ce = 0)
  | .incb _ v n ch => SnapOk c n ch ∧ (c.cnonce = n → c.cres = true ∧ c.cv = v ∧ c.ce = 0)
  | .afterCb _ n ch => SnapOk c n ch
  | .recheck _ n ch => SnapOk c n ch
  | .waiting n ch => SnapOk c n ch
  | _ => True

theorem conOk_init (op : COp) : ConOk { op := op } := by
  exact ⟨Bcast.wf_init, trivial⟩

/-- changes that do not touch the Access variables nor the program counter -/
theorem conOk_frame (c c' : Con) (h : ConOk c) (h1 : c'.bc = c.bc) (h2 : c'.cnonce = c.cnonce)
    (h3 : c'.cres = c.cres) (h4 : c'.cv = c.cv) (h5 : c'.ce = c.ce) (h6 : c'.pc = c.pc) : ConOk c' := by
  unfold ConOk SnapOk at *
  rw [h1, h2, h3, h4, h5, h6]; exact h

/-- a program-counter change to a state without snapshot -/
theorem conOk_pc' (c' : Con) (hwf : c'.bc.WF)
    (hpc : match c'.pc with
      | .calling _ _ _ | .incb _ _ _ _ | .afterCb _ _ _ | .recheck _ _ _ | .waiting _ _ => False
      | _ => True) : ConOk c' := by
  unfold ConOk at *
  refine ⟨hwf, ?_⟩
  cases hp : c'.pc <;> simp [hp] at hpc ⊢

theorem conOk_pc (c c' : Con) (h : ConOk c) (h1 : c'.bc = c.bc)
    (hpc : match c'.pc with
      | .calling _ _ _ | .incb _ _ _ _ | .afterCb _ _ _ | .recheck _ _ _ | .waiting _ _ => False
      | _ => True) : ConOk c' := by
  unfold ConOk at *
  refine ⟨h1 ▸ h.1, ?_⟩
  cases hp : c'.pc <;> simp [hp] at hpc ⊢

theorem snapOk_hook (c : Con) (hwf : c.bc.WF) (n ch : Nat) (h : SnapOk c n ch) (nonce : Nat) (res : Bool) (v e : Nat)
    (hop : c.op = .access) : SnapOk (hook c nonce res v e) n ch := by
  unfold hook
  rw [hop]
  simp only
  split
  · obtain ⟨h1, h2, h3⟩ := h
    obtain ⟨b1, b2, b3, b4, b5⟩ := Bcast.broadcast_spec c.bc
    refine ⟨by simp [b2]; exact h1, by simp; omega, ?_⟩
    simp only
    constructor
    · intro _; omega
    · intro _; exact b4 ch h1
  · exact h


theorem hook_pc (c : Con) (nonce : Nat) (res : Bool) (v e : Nat) : (hook c nonce res v e).pc = c.pc := by
  unfold hook
  cases c.op <;> simp <;> (repeat' split) <;> rfl

theorem hook_op (c : Con) (nonce : Nat) (res : Bool) (v e : Nat) : (hook c nonce res v e).op = c.op := by
  unfold hook
  cases hop : c.op <;> simp <;> (repeat' split) <;> simp [hop]

theorem conOk_hook (c : Con) (h : ConOk c) (nonce : Nat) (res : Bool) (v e : Nat) :
    ConOk (hook c nonce res v e) := by
  cases hop : c.op with
  | access =>
    have hpc := hook_pc c nonce res v e
    have hsn : ∀ n ch, SnapOk c n ch → SnapOk (hook c nonce res v e) n ch :=
      fun n ch hs => snapOk_hook c h.1 n ch hs nonce res v e hop
    have hwf : (hook c nonce res v e).bc.WF := by
      unfold hook; rw [hop]; simp only
      split
      · exact (Bcast.broadcast_spec c.bc).2.2.1
      · exact h.1
    have hval : ∀ (n w : Nat), n ≤ c.cnonce → (c.cnonce = n → c.cres = true ∧ c.cv = w ∧ c.ce = 0) →
        ((hook c nonce res v e).cnonce = n →
          (hook c nonce res v e).cres = true ∧ (hook c nonce res v e).cv = w ∧ (hook c nonce res v e).ce = 0) := by
      intro n w hle hold
      unfold hook; rw [hop]; simp only
      split
      · intro hn; simp at hn; omega
      · exact hold
    unfold ConOk at h ⊢
    refine ⟨hwf, ?_⟩
    rw [hpc]
    cases hp : c.pc <;> simp [hp] at h ⊢
    · exact ⟨hsn _ _ h.2.1, hval _ _ h.2.1.2.1 h.2.2⟩
    · exact ⟨hsn _ _ h.2.1, hval _ _ h.2.1.2.1 h.2.2⟩
    · exact hsn _ _ h.2
    · exact hsn _ _ h.2
    · exact hsn _ _ h.2
  | wait =>
    refine conOk_frame c _ h ?_ ?_ ?_ ?_ ?_ (hook_pc c nonce res v e) <;> (unfold hook; rw [hop])
  | resolve =>
    refine conOk_frame c _ h ?_ ?_ ?_ ?_ ?_ (hook_pc c nonce res v e) <;> (unfold hook; rw [hop])
  | promise =>
    refine conOk_frame c _ h ?_ ?_ ?_ ?_ ?_ (hook_pc c nonce res v e) <;> (unfold hook; rw [hop])
  | rwr cb =>
    refine conOk_frame c _ h ?_ ?_ ?_ ?_ ?_ (hook_pc c nonce res v e) <;>
      (unfold hook; rw [hop]; simp only; (repeat' split) <;> rfl)


/-! ## the invariant of the composed model -/

structure CInv (s : CSt) : Prop where
  base : Inv s.b
  cons : ∀ (a : Nat) (c : Con), getCon s a = some c → ConOk c

theorem getCon_base (s : CSt) (b' : St) (a : Nat) : getCon { s with b := b' } a = getCon s a := rfl

theorem getCon_append_none (s : CSt) (b' : St) (a : Nat) (c : Con)
    (h : getCon { s with b := b', ct := s.ct ++ [none] } a = some c) : getCon s a = some c := by
  unfold getCon at h ⊢
  simp only at h
  by_cases hlt : a < s.ct.length
  · rw [List.getElem?_append_left hlt] at h; exact h
  · rw [List.getElem?_append_right (by omega)] at h
    cases hx : ([none] : List (Option Con))[a - s.ct.length]? with
    | none => simp [hx] at h
    | some y =>
      have : y = none := by
        have := List.mem_of_getElem? hx; simpa using this
      simp [hx, this] at h

theorem getCon_append_some (s : CSt) (b' : St) (n : Con) (a : Nat) (c : Con)
    (h : getCon { b := b', ct := s.ct ++ [some n] } a = some c) : getCon s a = some c ∨ c = n := by
  unfold getCon at h ⊢
  simp only at h
  by_cases hlt : a < s.ct.length
  · rw [List.getElem?_append_left hlt] at h; exact Or.inl h
  · rw [List.getElem?_append_right (by omega)] at h
    cases hx : ([some n] : List (Option Con))[a - s.ct.length]? with
    | none => simp [hx] at h
    | some y =>
      have : y = some n := by
        have := List.mem_of_getElem? hx; simpa using this
      simp [hx, this] at h; exact Or.inr h.symm

/-- writing one consumer entry: the others keep the invariant -/
theorem cinv_setCon (s : CSt) (a : Nat) (c : Con) (hb : Inv s.b)
    (hc : ∀ (b : Nat) (x : Con), getCon s b = some x → ConOk x) (hok : ConOk c) : CInv (setCon s a c) := by
  refine ⟨hb, ?_⟩
  intro b x hx
  rcases getCon_setCon_cases s a b c x hx with ⟨_, rfl⟩ | ⟨_, h⟩
  · exact hok
  · exact hc b x h

theorem exitRel_inv (s s' : CSt) (a : Nat) (c : Con) (v e : Nat) (hi : CInv s) (hc : c.bc.WF)
    (h : exitRel s a c v e = some s') : CInv s' := by
  unfold exitRel at h
  cases hst : step s.b (.selfRelSwap a) with
  | none => simp [hst] at h
  | some b' =>
    simp [hst] at h; subst h
    have hb := step_inv s.b _ b' hi.base hst
    refine cinv_setCon { s with b := b' } a _ hb (fun b x hx => hi.cons b x hx) ?_
    exact conOk_pc' _ hc (by simp)


theorem cstep_inv_base (s s' : CSt) (e : Ev) (hi : CInv s) (hs : cstep s (.base e) = some s') : CInv s' := by
  have generic : ∀ (b' : St), step s.b e = some b' →
      CInv { s with b := b', ct := if appendsThread e then s.ct ++ [none] else s.ct } := by
    intro b' hst
    refine ⟨step_inv s.b e b' hi.base hst, ?_⟩
    intro a c hc
    split at hc
    · exact hi.cons a c (getCon_append_none s b' a c hc)
    · exact hi.cons a c hc
  cases e with
  | invHook a => simp [cstep] at hs
  | selfRelSwap a => simp [cstep] at hs
  | probe v e => simp [cstep] at hs
  | quiesce B => simp [cstep] at hs
  | addRefCS a =>
    simp only [cstep] at hs
    cases hst : step s.b (.addRefCS a) with
    | none => simp [hst] at hs
    | some b' =>
      simp only [hst] at hs
      have hb := step_inv s.b _ b' hi.base hst
      cases hc : getCon s a with
      | none => simp [hc] at hs; subst hs; exact ⟨hb, fun x y hy => hi.cons x y hy⟩
      | some c =>
        simp only [hc] at hs
        split at hs <;> simp at hs
        subst hs
        refine cinv_setCon { s with b := b' } a _ hb (fun x y hy => hi.cons x y hy) ?_
        exact conOk_pc c _ (hi.cons a c hc) rfl (by simp only; by_cases hop : c.op = COp.access <;> simp [hop])
  | cb it =>
    cases it with
    | rel i k seen =>
      simp only [cstep] at hs
      cases hst : step s.b (.cb (.rel i k seen)) with
      | none => simp [hst] at hs
      | some b' => simp [hst, appendsThread] at hs; subst hs; simpa [appendsThread] using generic b' hst
    | refcb a vis res v er =>
      cases vis with
      | true =>
        simp only [cstep] at hs
        cases hst : step s.b (.cb (.refcb a true res v er)) with
        | none => simp [hst] at hs
        | some b' => simp [hst, appendsThread] at hs; subst hs; simpa [appendsThread] using generic b' hst
      | false =>
        simp only [cstep] at hs
        cases hst : step s.b (.cb (.refcb a false res v er)) with
        | none => simp [hst] at hs
        | some b' =>
          simp only [hst] at hs
          have hb := step_inv s.b _ b' hi.base hst
          cases hc : getCon s a with
          | none => simp [hc] at hs; subst hs; exact ⟨hb, fun x y hy => hi.cons x y hy⟩
          | some c =>
            simp [hc] at hs; subst hs
            exact cinv_setCon { s with b := b' } a _ hb (fun x y hy => hi.cons x y hy)
              (conOk_hook c (hi.cons a c hc) _ _ _ _)
  | _ =>
    simp only [cstep] at hs
    split at hs <;> simp at hs
    subst hs
    rename_i b' hst
    exact generic b' hst


/-- the promise probe changes nothing -/
theorem probeProm_step (s s' : CSt) (a : Nat) (h : Bool) (v e : Nat) (hs : cstep s (.probeProm a h v e) = some s') :
    s' = s ∧ ∃ c, getCon s a = some c ∧ c.op = .promise ∧ c.pc = .awaiting ∧
      c.prom = (if h then some (v, e) else none) ∧ cquiescent s = true := by
  simp only [cstep] at hs
  cases hc : getCon s a with
  | none => simp [hc] at hs
  | some c =>
    simp only [hc] at hs
    by_cases hg : c.op = .promise ∧ c.pc = .awaiting ∧ c.prom = (if h then some (v, e) else none) ∧ cquiescent s
    · rw [if_pos hg] at hs
      exact ⟨(Option.some.inj hs).symm, c, rfl, hg.1, hg.2.1, hg.2.2.1, hg.2.2.2⟩
    · rw [if_neg hg] at hs; cases hs

theorem cstep_inv (s s' : CSt) (e : CEv) (hi : CInv s) (hs : cstep s e = some s') : CInv s' := by
  have keep := fun (x : Nat) (y : Con) (hy : getCon s x = some y) => hi.cons x y hy
  cases e with
  | base e => exact cstep_inv_base s s' e hi hs
  | inv a op =>
    simp only [cstep] at hs
    cases hst : step s.b (.invHook a) with
    | none => simp [hst] at hs
    | some b' =>
      simp [hst] at hs; subst hs
      refine ⟨step_inv s.b _ b' hi.base hst, ?_⟩
      intro x y hy
      rcases getCon_append_some s b' _ x y hy with h | h
      · exact keep x y h
      · rw [h]; exact conOk_init op
  | snap a =>
    simp only [cstep] at hs
    cases hc : getCon s a with
    | none => simp [hc] at hs
    | some c =>
      simp only [hc] at hs
      split at hs <;> try simp at hs
      have hok := keep a c hc
      obtain ⟨g1, g2, g3, g4, g5, g6, g7⟩ := Bcast.getWaitCh_spec c.bc hok.1
      split at hs
      · split at hs <;> simp at hs <;> subst hs
        · rename_i hce hres
          refine cinv_setCon s a _ hi.base keep ⟨g7, ?_⟩
          simp only
          refine ⟨⟨g2, Nat.le_refl _, ?_⟩, fun _ => ⟨hres, trivial, hce⟩⟩
          simp [g5]
        · refine cinv_setCon s a _ hi.base keep ⟨g7, ?_⟩
          simp only
          refine ⟨g2, Nat.le_refl _, ?_⟩
          simp [g5]
      · exact exitRel_inv s s' a _ 0 c.ce hi g7 hs
  | watch a =>
    simp only [cstep] at hs
    cases hc : getCon s a with
    | none => simp [hc] at hs
    | some c =>
      simp only [hc] at hs
      split at hs <;> try simp at hs
      all_goals
        obtain ⟨_, rfl⟩ := hs
        exact cinv_setCon s a _ hi.base keep (conOk_frame c _ (keep a c hc) rfl rfl rfl rfl rfl rfl)
  | cbin a m v =>
    simp only [cstep] at hs
    cases hc : getCon s a with
    | none => simp [hc] at hs
    | some c =>
      simp only [hc] at hs
      split at hs <;> try simp at hs
      rename_i v' n ch hpc
      obtain ⟨⟨rfl, rfl⟩, rfl⟩ := hs
      have hok := keep a c hc
      refine cinv_setCon s a _ hi.base keep ?_
      unfold ConOk SnapOk at hok ⊢
      rw [hpc] at hok
      exact ⟨hok.1, hok.2⟩
  | cbout a m r =>
    simp only [cstep] at hs
    cases hc : getCon s a with
    | none => simp [hc] at hs
    | some c =>
      simp only [hc] at hs
      split at hs <;> try simp at hs
      rename_i m' v n ch hpc
      obtain ⟨_, rfl⟩ := hs
      have hok := keep a c hc
      refine cinv_setCon s a _ hi.base keep ?_
      unfold ConOk SnapOk at hok ⊢
      rw [hpc] at hok
      exact ⟨hok.1, hok.2.1⟩
  | check a =>
    simp only [cstep] at hs
    cases hc : getCon s a with
    | none => simp [hc] at hs
    | some c =>
      simp only [hc] at hs
      split at hs <;> try simp at hs
      rename_i r n ch hpc
      have hok := keep a c hc
      split at hs
      · exact exitRel_inv s s' a c 0 9 hi hok.1 hs
      · simp at hs; subst hs
        refine cinv_setCon s a _ hi.base keep ?_
        unfold ConOk SnapOk at hok ⊢
        rw [hpc] at hok
        exact ⟨hok.1, hok.2⟩
  | recheck a =>
    simp only [cstep] at hs
    cases hc : getCon s a with
    | none => simp [hc] at hs
    | some c =>
      simp only [hc] at hs
      split at hs <;> try simp at hs
      rename_i r n ch hpc
      have hok := keep a c hc
      split at hs
      · exact exitRel_inv s s' a c 0 r hi hok.1 hs
      · simp at hs; subst hs
        refine cinv_setCon s a _ hi.base keep ?_
        unfold ConOk SnapOk at hok ⊢
        rw [hpc] at hok
        exact ⟨hok.1, hok.2⟩
  | waitCancel a =>
    simp only [cstep] at hs
    cases hc : getCon s a with
    | none => simp [hc] at hs
    | some c =>
      simp only [hc] at hs
      split at hs <;> try simp at hs
      exact exitRel_inv s s' a c 0 9 hi (keep a c hc).1 hs.2
  | await a =>
    simp only [cstep] at hs
    cases hc : getCon s a with
    | none => simp [hc] at hs
    | some c =>
      simp only [hc] at hs
      split at hs <;> try simp at hs
      split at hs <;> try simp at hs
      rename_i v e _
      split at hs
      · simp at hs; subst hs
        exact cinv_setCon s a _ hi.base keep (conOk_pc' _ (keep a c hc).1 (by simp))
      · exact exitRel_inv s s' a c v e hi (keep a c hc).1 hs
  | awaitCancel a =>
    simp only [cstep] at hs
    cases hc : getCon s a with
    | none => simp [hc] at hs
    | some c =>
      simp only [hc] at hs
      split at hs <;> try simp at hs
      exact exitRel_inv s s' a c 0 9 hi (keep a c hc).1 hs
  | ret a v e =>
    simp only [cstep] at hs
    cases hc : getCon s a with
    | none => simp [hc] at hs
    | some c =>
      simp only [hc] at hs
      split at hs <;> try simp at hs
      · obtain ⟨_, rfl⟩ := hs
        exact cinv_setCon s a _ hi.base keep (conOk_pc' _ (keep a c hc).1 (by simp))
      · obtain ⟨_, hs⟩ := hs
        split at hs <;> simp at hs
        subst hs
        rename_i k pc live flag self told hth
        have hb := inv_ref_upd s.b a k pc .retd live flag flag self self told s.b.owner hi.base hth
        exact cinv_setCon { s with b := _ } a _ hb keep (conOk_pc' _ (keep a c hc).1 (by simp))
  | envCancelCall a =>
    simp only [cstep] at hs
    cases hc : getCon s a with
    | none => simp [hc] at hs
    | some c =>
      simp [hc] at hs; subst hs
      exact cinv_setCon s a _ hi.base keep (conOk_frame c _ (keep a c hc) rfl rfl rfl rfl rfl rfl)
  | goRel a =>
    simp only [cstep] at hs
    cases hc : getCon s a with
    | none => simp [hc] at hs
    | some c =>
      simp only [hc] at hs
      split at hs <;> try simp at hs
      cases hst : step s.b (.selfRelSwap a) with
      | none => simp [hst] at hs
      | some b' =>
        simp [hst] at hs; subst hs
        exact cinv_setCon { s with b := b' } a _ (step_inv s.b _ b' hi.base hst) keep
          (conOk_frame c _ (keep a c hc) rfl rfl rfl rfl rfl rfl)
  | goCb a =>
    simp only [cstep] at hs
    cases hc : getCon s a with
    | none => simp [hc] at hs
    | some c =>
      simp only [hc] at hs
      split at hs <;> simp at hs
      subst hs
      exact cinv_setCon s a _ hi.base keep (conOk_frame c _ (keep a c hc) rfl rfl rfl rfl rfl rfl)
  | probeCtx a m cc =>
    simp only [cstep] at hs
    cases hc : getCon s a with
    | none => simp [hc] at hs
    | some c =>
      simp only [hc] at hs
      split at hs <;> try simp at hs
      obtain ⟨_, rfl⟩ := hs; exact hi
  | probeProm a h v e => rw [(probeProm_step s s' a h v e hs).1]; exact hi
  | probe v e =>
    simp only [cstep] at hs; split at hs <;> simp at hs; subst hs; exact hi
  | quiesce B =>
    simp only [cstep] at hs; split at hs <;> simp at hs; subst hs; exact hi

theorem cinit_inv : CInv ({} : CSt) := ⟨init_inv, by intro a c h; simp [getCon] at h⟩

theorem creachable_inv (es : List CEv) (s : CSt) (h : cmodel.run cmodel.init es = some s) : CInv s :=
  cmodel.run_invariant CInv (fun s e s' hi hs => cstep_inv s s' e hi hs) _ _ es cinit_inv h

end UtilModel.RefCount.Cons
