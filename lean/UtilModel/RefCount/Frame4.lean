import UtilModel.RefCount.Proofs7
import UtilModel.RefCount.Frame2
/-!
# refcount: the `Release` threads of a reference (invariant of the thread table)

A reference that is still in the table (`live`) and that has a `Release` call has one that has not
yet run its critical section; a reference whose once-flag is set and that is still in the table
has a `Release` call between the swap and the critical section.
-/
set_option linter.unusedSimpArgs false
set_option linter.unusedVariables false
namespace UtilModel.RefCount
open UtilModel

structure RelTh (th : List TS) : Prop where
  unfin : ∀ (r : Nat) (k : CbKind) (pc : Pc) (f sf : Bool) (t : Option Nat) (b : Nat) (pcb : RelPc),
    th[r]? = some (TS.ref k pc true f sf t) → th[b]? = some (TS.rel r pcb) →
    ∃ b' : Nat, th[b']? = some (TS.rel r .inv) ∨ th[b']? = some (TS.rel r .cs)
  flag : ∀ (r : Nat) (k : CbKind) (pc : Pc) (sf : Bool) (t : Option Nat),
    th[r]? = some (TS.ref k pc true true sf t) → k ≠ .hook → ∃ b' : Nat, th[b']? = some (TS.rel r .cs)
  hook : ∀ (r : Nat) (pc : Pc) (l f sf : Bool) (t : Option Nat),
    th[r]? = some (TS.ref .hook pc l f sf t) → pc ≠ .retd

theorem relTh_nil : RelTh [] := ⟨by intros; simp_all, by intros; simp_all, by intros; simp_all⟩

theorem relTh_set (th : List TS) (h : RelTh th) (a : Nat) (old new : TS) (ha : th[a]? = some old)
    (h1 : ∀ k pc f sf t, new = .ref k pc true f sf t →
      (∃ k0 pc0 f0 sf0 t0, old = .ref k0 pc0 true f0 sf0 t0) ∨ (∀ (b : Nat) (pcb : RelPc), th[b]? ≠ some (TS.rel a pcb)))
    (h2 : ∀ k pc sf t, new = .ref k pc true true sf t → k ≠ .hook →
      (∃ k0 pc0 sf0 t0, old = .ref k0 pc0 true true sf0 t0 ∧ k0 ≠ .hook) ∨
      ∃ b' : Nat, b' ≠ a ∧ th[b']? = some (TS.rel a .cs))
    (h3 : ∀ pc l f sf t, new = .ref .hook pc l f sf t → pc ≠ .retd)
    (h4 : ∀ r pcb, new = .rel r pcb → ∃ pcb0, old = .rel r pcb0 ∧
      ((pcb0 = .inv ∨ pcb0 = .cs) → (pcb = .inv ∨ pcb = .cs) ∨
        (∀ k pc f sf t, th[r]? ≠ some (TS.ref k pc true f sf t)) ∨
        (∃ b'' : Nat, b'' ≠ a ∧ (th[b'']? = some (TS.rel r .inv) ∨ th[b'']? = some (TS.rel r .cs)))) ∧
      (pcb0 = .cs → pcb = .cs ∨ (∀ k pc f sf t, th[r]? ≠ some (TS.ref k pc true f sf t))))
    (h5 : ∀ r pcb, old = .rel r pcb → ∃ pcb', new = .rel r pcb') :
    RelTh (th.set a new) := by
  have hlt := lt_of_getElem? ha
  have hself : (th.set a new)[a]? = some new := by simp [hlt]
  have keep : ∀ b x, b ≠ a → th[b]? = some x → (th.set a new)[b]? = some x := by
    intro b x hb hx; rw [getElem?_set_ne' _ _ _ _ (Ne.symm hb)]; exact hx
  -- a witness of the old table survives, or is replaced
  have wit : ∀ (r : Nat) (k : CbKind) (pc : Pc) (f sf : Bool) (t : Option Nat), r ≠ a →
      th[r]? = some (TS.ref k pc true f sf t) →
      (∃ b' : Nat, th[b']? = some (TS.rel r .inv) ∨ th[b']? = some (TS.rel r .cs)) →
      ∃ b' : Nat, (th.set a new)[b']? = some (TS.rel r .inv) ∨ (th.set a new)[b']? = some (TS.rel r .cs) := by
    intro r k pc f sf t hra hr ⟨b', hb'⟩
    by_cases hba : b' = a
    · subst hba
      have hold : ∃ pcb0, old = .rel r pcb0 ∧ (pcb0 = .inv ∨ pcb0 = .cs) := by
        rcases hb' with hb' | hb' <;> rw [ha] at hb' <;> cases hb'
        · exact ⟨_, rfl, Or.inl rfl⟩
        · exact ⟨_, rfl, Or.inr rfl⟩
      obtain ⟨pcb0, ho, hp0⟩ := hold
      obtain ⟨pcb', hn⟩ := h5 r pcb0 ho
      obtain ⟨pcb1, ho1, g1, _⟩ := h4 r pcb' hn
      rw [ho] at ho1; cases ho1
      rcases g1 hp0 with g | g | ⟨b'', hne, g⟩
      · refine ⟨b', ?_⟩; rw [hself, hn]
        rcases g with g | g <;> rw [g]
        · exact Or.inl rfl
        · exact Or.inr rfl
      · exact absurd hr (g k pc f sf t)
      · refine ⟨b'', ?_⟩
        rcases g with g | g
        · exact Or.inl (keep _ _ hne g)
        · exact Or.inr (keep _ _ hne g)
    · refine ⟨b', ?_⟩
      rcases hb' with g | g
      · exact Or.inl (keep _ _ hba g)
      · exact Or.inr (keep _ _ hba g)
  refine ⟨?_, ?_, ?_⟩
  · intro r k pc f sf t b pcb hr hb
    rcases getElem?_set_cases th a b new _ hb with ⟨hba, hnew⟩ | ⟨hba, hbo⟩
    · -- the replaced entry is the Release thread
      subst hba
      obtain ⟨pcb0, ho, _⟩ := h4 r pcb hnew.symm
      have hra : r ≠ b := by
        intro e; subst e; rw [hself] at hr; rw [← hnew] at hr; cases hr
      have hr0 : th[r]? = some (TS.ref k pc true f sf t) := by
        rw [getElem?_set_ne' _ _ _ _ (Ne.symm hra)] at hr; exact hr
      exact wit r k pc f sf t hra hr0 (h.unfin r k pc f sf t b pcb0 hr0 (by rw [ha, ho]))
    · rcases getElem?_set_cases th a r new _ hr with ⟨hra, hnew⟩ | ⟨hra, hro⟩
      · subst hra
        rcases h1 k pc f sf t hnew.symm with ⟨k0, pc0, f0, sf0, t0, ho⟩ | hno
        · obtain ⟨b', hb'⟩ := h.unfin r k0 pc0 f0 sf0 t0 b pcb (by rw [ha, ho]) hbo
          have hne : b' ≠ r := by
            intro e; subst e
            rcases hb' with g | g <;> rw [ha, ho] at g <;> cases g
          refine ⟨b', ?_⟩
          rcases hb' with g | g
          · exact Or.inl (keep _ _ hne g)
          · exact Or.inr (keep _ _ hne g)
        · exact absurd hbo (hno b pcb)
      · exact wit r k pc f sf t hra hro (h.unfin r k pc f sf t b pcb hro hbo)
  · intro r k pc sf t hr hk
    rcases getElem?_set_cases th a r new _ hr with ⟨hra, hnew⟩ | ⟨hra, hro⟩
    · subst hra
      rcases h2 k pc sf t hnew.symm hk with ⟨k0, pc0, sf0, t0, ho, hk0⟩ | ⟨b', hne, hb'⟩
      · obtain ⟨b', hb'⟩ := h.flag r k0 pc0 sf0 t0 (by rw [ha, ho]) hk0
        have hne : b' ≠ r := by intro e; subst e; rw [ha, ho] at hb'; cases hb'
        exact ⟨b', keep _ _ hne hb'⟩
      · exact ⟨b', keep _ _ hne hb'⟩
    · obtain ⟨b', hb'⟩ := h.flag r k pc sf t hro hk
      by_cases hba : b' = a
      · subst hba
        have ho : old = .rel r .cs := by rw [ha] at hb'; cases hb'; rfl
        obtain ⟨pcb', hn⟩ := h5 r .cs ho
        obtain ⟨pcb1, ho1, _, g2⟩ := h4 r pcb' hn
        rw [ho] at ho1; cases ho1
        rcases g2 rfl with g | g
        · exact ⟨b', by rw [hself, hn, g]⟩
        · exact absurd hro (g k pc true sf t)
      · exact ⟨b', keep _ _ hba hb'⟩
  · intro r pc l f sf t hr
    rcases getElem?_set_cases th a r new _ hr with ⟨_, hnew⟩ | ⟨_, hro⟩
    · exact h3 pc l f sf t hnew.symm
    · exact h.hook r pc l f sf t hro

theorem relTh_append (th : List TS) (h : RelTh th) (x : TS)
    (hx1 : ∀ k pc l f sf t, x = .ref k pc l f sf t → l = false ∧ pc = .inv)
    (hx2 : ∀ r pcb, x = .rel r pcb → pcb = .inv) : RelTh (th ++ [x]) := by
  refine ⟨?_, ?_, ?_⟩
  · intro r k pc f sf t b pcb hr hb
    rcases getElem?_snoc_cases _ _ _ _ hr with ⟨_, hr0⟩ | ⟨_, hr0⟩
    · rcases getElem?_snoc_cases _ _ _ _ hb with ⟨_, hb0⟩ | ⟨_, hb0⟩
      · obtain ⟨b', g⟩ := h.unfin r k pc f sf t b pcb hr0 hb0
        refine ⟨b', ?_⟩
        rcases g with g | g
        · exact Or.inl (getElem?_snoc_left _ _ _ _ g)
        · exact Or.inr (getElem?_snoc_left _ _ _ _ g)
      · have := hx2 r pcb hb0.symm
        subst this
        exact ⟨b, Or.inl hb⟩
    · have := (hx1 _ _ _ _ _ _ hr0.symm).1; cases this
  · intro r k pc sf t hr hk
    rcases getElem?_snoc_cases _ _ _ _ hr with ⟨_, hr0⟩ | ⟨_, hr0⟩
    · obtain ⟨b', g⟩ := h.flag r k pc sf t hr0 hk
      exact ⟨b', getElem?_snoc_left _ _ _ _ g⟩
    · have := (hx1 _ _ _ _ _ _ hr0.symm).1; cases this
  · intro r pc l f sf t hr
    rcases getElem?_snoc_cases _ _ _ _ hr with ⟨_, hr0⟩ | ⟨_, hr0⟩
    · exact h.hook r pc l f sf t hr0
    · have := (hx1 _ _ _ _ _ _ hr0.symm).2; rw [this]; simp

theorem tellAll_rel (th : List TS) (t : Option Nat) (b r : Nat) (pcb : RelPc) :
    (tellAll th t)[b]? = some (TS.rel r pcb) ↔ th[b]? = some (TS.rel r pcb) := by
  rw [tellAll_get]
  cases hx : th[b]? with
  | none => simp
  | some x =>
    cases x with
    | ref k2 pc2 live2 f2 sf2 told2 =>
      cases live2 <;> simp [tell1]
      split <;> simp
    | rel r2 pc2 => simp [tell1]
    | ctx c cl pc2 u => simp [tell1]

theorem tellAll_ref (th : List TS) (t : Option Nat) (r : Nat) (k : CbKind) (pc : Pc) (l f sf : Bool)
    (t' : Option Nat) (h : (tellAll th t)[r]? = some (TS.ref k pc l f sf t')) :
    ∃ t0, th[r]? = some (TS.ref k pc l f sf t0) := by
  rw [tellAll_get] at h
  cases hx : th[r]? with
  | none => simp [hx] at h
  | some x =>
    simp [hx] at h
    cases x with
    | ref k2 pc2 live2 f2 sf2 told2 =>
      cases live2 <;> simp [tell1] at h
      · obtain ⟨rfl, rfl, rfl, rfl, rfl, rfl⟩ := h; exact ⟨_, rfl⟩
      · split at h <;> simp at h
        · obtain ⟨rfl, rfl, rfl, rfl, rfl, rfl⟩ := h; exact ⟨_, rfl⟩
        · obtain ⟨rfl, rfl, rfl, rfl, rfl, rfl⟩ := h; exact ⟨_, rfl⟩
    | rel r2 pc2 => simp [tell1] at h
    | ctx c cl pc2 u => simp [tell1] at h

theorem relTh_tellAll (th : List TS) (h : RelTh th) (t : Option Nat) : RelTh (tellAll th t) := by
  refine ⟨?_, ?_, ?_⟩
  · intro r k pc f sf t' b pcb hr hb
    obtain ⟨t0, hr0⟩ := tellAll_ref th t r k pc true f sf t' hr
    obtain ⟨b', g⟩ := h.unfin r k pc f sf t0 b pcb hr0 ((tellAll_rel th t b r pcb).1 hb)
    refine ⟨b', ?_⟩
    rcases g with g | g
    · exact Or.inl ((tellAll_rel th t b' r _).2 g)
    · exact Or.inr ((tellAll_rel th t b' r _).2 g)
  · intro r k pc sf t' hr hk
    obtain ⟨t0, hr0⟩ := tellAll_ref th t r k pc true true sf t' hr
    obtain ⟨b', g⟩ := h.flag r k pc sf t0 hr0 hk
    exact ⟨b', (tellAll_rel th t b' r _).2 g⟩
  · intro r pc l f sf t' hr
    obtain ⟨t0, hr0⟩ := tellAll_ref th t r .hook pc l f sf t' hr
    exact h.hook r pc l f sf t0 hr0

theorem relTh_shutdown (s : St) (h : RelTh s.th) : RelTh (shutdown s).th := by
  rw [shutdown_th]; split
  · exact relTh_tellAll _ h none
  · exact h

theorem relTh_startResolve (s : St) (h : RelTh s.th) : RelTh (startResolve s).th := by
  rw [startResolve_th]; exact relTh_shutdown s h

theorem relTh_afterRemove (s : St) (h : RelTh s.th) : RelTh (afterRemove s).th := by
  unfold afterRemove
  split
  · split
    · exact relTh_shutdown s h
    · exact h
  · exact h

/-- replacing a reference entry by one that is no more live / flagged than before -/
theorem relTh_set_ref (th : List TS) (h : RelTh th) (a : Nat) (k : CbKind) (pc pc' : Pc)
    (l f sf l' f' sf' : Bool) (t t' : Option Nat) (ha : th[a]? = some (TS.ref k pc l f sf t))
    (h1 : l' = true → l = true ∨ (∀ (b : Nat) (pcb : RelPc), th[b]? ≠ some (TS.rel a pcb)))
    (h2 : l' = true → f' = true → k ≠ .hook → (l = true ∧ f = true) ∨ ∃ b' : Nat, b' ≠ a ∧ th[b']? = some (TS.rel a .cs))
    (h3 : k = .hook → pc' ≠ .retd) :
    RelTh (th.set a (TS.ref k pc' l' f' sf' t')) := by
  refine relTh_set th h a _ _ ha ?_ ?_ ?_ (by intro _ _ he; cases he) (by intro _ _ he; cases he)
  · intro k1 pc1 f1 sf1 t1 he; cases he
    rcases h1 rfl with g | g
    · subst g; exact Or.inl ⟨_, _, _, _, _, rfl⟩
    · exact Or.inr g
  · intro k1 pc1 sf1 t1 he hk; cases he
    rcases h2 rfl rfl hk with ⟨g1, g2⟩ | g
    · subst g1; subst g2; exact Or.inl ⟨_, _, _, _, rfl, hk⟩
    · exact Or.inr g
  · intro pc1 l1 f1 sf1 t1 he; cases he; exact h3 rfl

theorem relTh_set_ctx (th : List TS) (h : RelTh th) (a : Nat) (c c' : Nat) (cl cl' : Bool) (pc pc' : Pc)
    (u u' : Bool) (ha : th[a]? = some (TS.ctx c cl pc u)) : RelTh (th.set a (TS.ctx c' cl' pc' u')) :=
  relTh_set th h a _ _ ha (by intro _ _ _ _ _ he; cases he) (by intro _ _ _ _ he; cases he)
    (by intro _ _ _ _ _ he; cases he) (by intro _ _ he; cases he) (by intro _ _ he; cases he)

theorem step_relTh (s s' : St) (e : Ev) (ht : ThInv s.th) (h : RelTh s.th) (hs : step s e = some s') :
    RelTh s'.th := by
  cases e with
  | cfg k c t => simp only [step] at hs; split at hs <;> simp at hs; subst hs; exact h
  | invAddRef a k =>
    simp only [step] at hs; split at hs <;> simp at hs; subst hs
    exact relTh_append _ h _ (by intro _ _ _ _ _ _ he; cases he; simp) (by intro _ _ he; cases he)
  | invHook a =>
    simp only [step] at hs; split at hs <;> simp at hs; subst hs
    exact relTh_append _ h _ (by intro _ _ _ _ _ _ he; cases he; simp) (by intro _ _ he; cases he)
  | invSetCtx a c cl =>
    simp only [step] at hs; split at hs <;> simp at hs; subst hs
    exact relTh_append _ h _ (by intro _ _ _ _ _ _ he; cases he) (by intro _ _ he; cases he)
  | invRelease b r =>
    simp only [step] at hs; split at hs <;> try simp at hs
    split at hs <;> try simp at hs
    subst hs
    exact relTh_append _ h _ (by intro _ _ _ _ _ _ he; cases he) (by intro _ _ he; cases he; rfl)
  | retAddRef a =>
    simp only [step] at hs; split at hs <;> try simp at hs
    rename_i k l f sf t ha
    obtain ⟨⟨hk, _⟩, rfl⟩ := hs
    exact relTh_set_ref _ h a k _ _ l f sf l f sf t t ha (fun hl => Or.inl hl)
      (fun hl hf _ => Or.inl ⟨hl, hf⟩) (fun e => absurd e hk)
  | retRelease b =>
    simp only [step] at hs; split at hs <;> try simp at hs
    rename_i r hb
    obtain ⟨_, rfl⟩ := hs
    exact relTh_set _ h b _ _ hb (by intro _ _ _ _ _ he; cases he) (by intro _ _ _ _ he; cases he)
      (by intro _ _ _ _ _ he; cases he)
      (by intro r' pcb he; cases he
          exact ⟨_, rfl, (by intro g; rcases g with g | g <;> cases g), (by intro g; cases g)⟩)
      (by intro r' pcb he; cases he; exact ⟨_, rfl⟩)
  | retSetCtx a u =>
    simp only [step] at hs; split at hs <;> try simp at hs
    rename_i c cl u2 ha
    obtain ⟨_, rfl⟩ := hs
    exact relTh_set_ctx _ h a _ _ _ _ _ _ _ _ ha
  | relSwap b =>
    simp only [step] at hs; split at hs <;> try simp at hs
    rename_i r hb
    obtain ⟨k0, l0, f0, sf0, t0, hr0⟩ := ht.target b r _ hb
    have hk0 : k0 ≠ .hook := by
      intro e; subst e; exact h.hook r _ _ _ _ _ hr0 rfl
    have hne : r ≠ b := by intro e; subst e; rw [hb] at hr0; cases hr0
    split at hs <;> simp at hs <;> subst hs
    · rename_i k pc live self told hr
      rw [hr0] at hr; cases hr
      rw [List.set_comm _ _ hne]
      have h1 : RelTh (s.th.set b (TS.rel r .cs)) :=
        relTh_set _ h b _ _ hb (by intro _ _ _ _ _ he; cases he) (by intro _ _ _ _ he; cases he)
          (by intro _ _ _ _ _ he; cases he)
          (by intro r' pcb he; cases he
              exact ⟨_, rfl, fun _ => Or.inl (Or.inr rfl), by intro g; cases g⟩)
          (by intro r' pcb he; cases he; exact ⟨_, rfl⟩)
      have hr1 : (s.th.set b (TS.rel r .cs))[r]? = some (TS.ref k0 .retd l0 false sf0 t0) := by
        rw [getElem?_set_ne' _ _ _ _ (Ne.symm hne)]; exact hr0
      have hb1 : (s.th.set b (TS.rel r .cs))[b]? = some (TS.rel r .cs) := by simp [lt_of_getElem? hb]
      exact relTh_set_ref _ h1 r k0 _ _ l0 false sf0 l0 true sf0 t0 t0 hr1 (fun hl => Or.inl hl)
        (fun _ _ _ => Or.inr ⟨b, Ne.symm hne, hb1⟩) (fun e => absurd e hk0)
    · rename_i k pc live self told hr
      rw [hr0] at hr; cases hr
      refine relTh_set _ h b _ _ hb (by intro _ _ _ _ _ he; cases he) (by intro _ _ _ _ he; cases he)
        (by intro _ _ _ _ _ he; cases he) ?_ (by intro r' pcb he; cases he; exact ⟨_, rfl⟩)
      intro r' pcb he; cases he
      refine ⟨_, rfl, ?_, by intro g; cases g⟩
      intro _
      cases l0 with
      | false => exact Or.inr (Or.inl (by intro k pc f sf t e; rw [hr0] at e; cases e))
      | true =>
        obtain ⟨b', hb'⟩ := h.flag r k0 _ _ _ hr0 hk0
        have : b' ≠ b := by intro e; subst e; rw [hb] at hb'; cases hb'
        exact Or.inr (Or.inr ⟨b', this, Or.inr hb'⟩)
  | selfRelSwap a =>
    simp only [step] at hs; split at hs <;> try simp at hs
    rename_i pc l f sf t ha
    obtain ⟨hpc, hs⟩ := hs
    split at hs <;> simp at hs <;> subst hs
    · exact h
    · exact relTh_set_ref _ h a .hook _ _ l f sf l true true t t ha (fun hl => Or.inl hl)
        (fun _ _ hk => absurd rfl hk) (fun _ => h.hook a _ _ _ _ _ ha)
  | envCancelCtx c => simp only [step] at hs; split at hs <;> simp at hs; subst hs; exact h
  | envReleased k => simp only [step] at hs; split at hs <;> simp at hs; subst hs; exact h
  | quiesce B => simp only [step] at hs; split at hs <;> simp at hs; subst hs; exact h
  | probe v er => simp only [step] at hs; split at hs <;> simp at hs; subst hs; exact h
  | cb it =>
    simp only [step] at hs; split at hs <;> try simp at hs
    obtain ⟨_, rfl⟩ := hs; exact h
  | enter i k =>
    simp only [step] at hs; split at hs <;> try simp at hs
    obtain ⟨_, rfl⟩ := hs; exact h
  | giveUp i =>
    simp only [step] at hs; split at hs <;> try simp at hs
    obtain ⟨_, rfl⟩ := hs; exact h
  | drained i =>
    simp only [step] at hs; split at hs <;> try simp at hs
    obtain ⟨_, rfl⟩ := hs; exact h
  | leave i k v hr er =>
    simp only [step] at hs; split at hs <;> try simp at hs
    obtain ⟨_, rfl⟩ := hs; exact h
  | done i =>
    simp only [step] at hs; split at hs <;> try simp at hs
    obtain ⟨_, rfl⟩ := hs; exact h
  | store i =>
    simp only [step] at hs; split at hs <;> try simp at hs
    split at hs <;> try simp at hs
    obtain ⟨_, hs⟩ := hs
    split at hs
    · simp at hs; subst hs; exact relTh_tellAll _ h _
    · split at hs <;> simp at hs <;> subst hs <;> exact h
  | relRun j =>
    simp only [step] at hs; split at hs <;> try simp at hs
    split at hs <;> try simp at hs
    split at hs <;> simp at hs <;> obtain ⟨_, rfl⟩ := hs
    · exact relTh_startResolve _ h
    · exact h
  | setCtxCS a =>
    simp only [step] at hs; split at hs <;> try simp at hs
    rename_i c cl u ha
    have h1 : ∀ u', RelTh (s.th.set a (TS.ctx c cl .done u')) := fun u' =>
      relTh_set_ctx _ h a _ _ _ _ _ _ _ _ ha
    split at hs <;> simp at hs <;> obtain ⟨_, rfl⟩ := hs
    · exact h1 false
    · exact relTh_startResolve { s with ctx := c, th := s.th.set a (TS.ctx c cl .done true), owner := .thr a } (h1 true)
  | addRefCS a =>
    simp only [step] at hs; split at hs <;> try simp at hs
    rename_i k ha
    obtain ⟨_, hs⟩ := hs
    have hno : ∀ (b : Nat) (pcb : RelPc), s.th[b]? ≠ some (TS.rel a pcb) := by
      intro b pcb hb
      obtain ⟨k0, l0, f0, sf0, t0, hr0⟩ := ht.target b a pcb hb
      rw [ha] at hr0; cases hr0
    have h1 : ∀ t, RelTh (s.th.set a (TS.ref k .done true false false t)) := fun t =>
      relTh_set_ref _ h a k _ _ false false false true false false none t ha (fun _ => Or.inr hno)
        (by intro _ hf; cases hf) (by intro _ hpc; cases hpc)
    split at hs
    · simp at hs; subst hs
      exact relTh_startResolve { s with th := s.th.set a (TS.ref k .done true false false none), owner := .thr a } (h1 none)
    · split at hs <;> simp at hs <;> subst hs
      · simp only [List.set_set]; exact h1 s.cur
      · exact h1 none
  | relCS b =>
    simp only [step] at hs; split at hs <;> try simp at hs
    rename_i r hb
    split at hs <;> try simp at hs
    case h_2 =>
      rename_i hnot
      obtain ⟨_, rfl⟩ := hs
      refine relTh_set _ h b _ _ hb (by intro _ _ _ _ _ he; cases he) (by intro _ _ _ _ he; cases he)
        (by intro _ _ _ _ _ he; cases he) ?_ (by intro r' pcb he; cases he; exact ⟨_, rfl⟩)
      intro r' pcb he; cases he
      have hnl : ∀ k pc f sf t, s.th[r]? ≠ some (TS.ref k pc true f sf t) := by
        intro k pc f sf t e; exact hnot k pc f sf t e
      exact ⟨_, rfl, fun _ => Or.inr (Or.inl hnl), fun _ => Or.inr hnl⟩
    rename_i k pc flag self told hr
    obtain ⟨_, rfl⟩ := hs
    have hne : r ≠ b := by intro e; subst e; rw [hb] at hr; cases hr
    have hk : k = .hook → pc ≠ .retd := by intro e; subst e; exact h.hook r _ _ _ _ _ hr
    have h1 := relTh_set_ref _ h r k pc pc true flag self false flag self told told hr
      (by intro g; cases g) (by intro g; cases g) hk
    have hb' : (s.th.set r (TS.ref k pc false flag self told))[b]? = some (TS.rel r .cs) := by
      rw [getElem?_set_ne' _ _ _ _ hne]; exact hb
    have hnl : ∀ k' pc' f sf t, (s.th.set r (TS.ref k pc false flag self told))[r]? ≠ some (TS.ref k' pc' true f sf t) := by
      intro k' pc' f sf t e
      rw [getElem?_set_self' _ _ _ _ hr] at e; cases e
    have h2 : RelTh ((s.th.set r (TS.ref k pc false flag self told)).set b (TS.rel r .done)) := by
      refine relTh_set _ h1 b _ _ hb' (by intro _ _ _ _ _ he; cases he) (by intro _ _ _ _ he; cases he)
        (by intro _ _ _ _ _ he; cases he) ?_ (by intro r' pcb he; cases he; exact ⟨_, rfl⟩)
      intro r' pcb he; cases he
      exact ⟨_, rfl, fun _ => Or.inr (Or.inl hnl), fun _ => Or.inr hnl⟩
    exact relTh_afterRemove { s with th := (s.th.set r (TS.ref k pc false flag self told)).set b (TS.rel r .done), owner := .thr b } h2
  | selfRelCS a =>
    simp only [step] at hs; split at hs <;> try simp at hs
    rename_i pc flag told ha
    obtain ⟨_, rfl⟩ := hs
    have h1 := relTh_set_ref _ h a .hook pc pc true flag true false flag false told told ha
      (by intro g; cases g) (by intro g; cases g) (fun _ => h.hook a _ _ _ _ _ ha)
    exact relTh_afterRemove { s with th := s.th.set a (TS.ref .hook pc false flag false told), owner := .self a } h1

theorem reachable_relTh (es : List Ev) (s : St) (h : model.run model.init es = some s) : RelTh s.th := by
  have : ThInv s.th ∧ RelTh s.th :=
    model.run_invariant (fun s => ThInv s.th ∧ RelTh s.th)
      (fun s e s' hi hs => ⟨step_thinv s s' e hi.1 hs, step_relTh s s' e hi.1 hi.2 hs⟩) _ _ es
      ⟨thinv_nil, relTh_nil⟩ h
  exact this.2

/-! ## configuration fields -/

theorem startResolve_cfg (s0 : St) :
    (startResolve s0).cfgd = s0.cfgd ∧ (startResolve s0).keep = s0.keep ∧ (startResolve s0).ctx = s0.ctx := by
  rw [startResolve_eq]; split <;> simp [spawned]

theorem afterRemove_cfg (s0 : St) :
    (afterRemove s0).cfgd = s0.cfgd ∧ (afterRemove s0).keep = s0.keep ∧ (afterRemove s0).ctx = s0.ctx := by
  unfold afterRemove; split
  · split
    · simp
    · exact ⟨rfl, rfl, rfl⟩
  · exact ⟨rfl, rfl, rfl⟩

/-- `cfg` sets the configuration once; afterwards only `SetContext` changes the context -/
theorem cfg_frame (s s' : St) (e : Ev) (hs : step s e = some s') :
    (∃ kp c t, e = .cfg kp c t ∧ s.cfgd = false ∧ s'.cfgd = true ∧ s'.keep = kp ∧ s'.ctx = c) ∨
    (s'.cfgd = s.cfgd ∧ s'.keep = s.keep ∧ ((∀ a, e ≠ .setCtxCS a) → s'.ctx = s.ctx)) := by
  cases e with
  | cfg kp c t =>
    simp only [step] at hs; split at hs <;> simp at hs
    rename_i hc
    subst hs
    exact Or.inl ⟨kp, c, t, rfl, by simpa using hc, rfl, rfl, rfl⟩
  | relRun r =>
    simp only [step] at hs; split at hs <;> try simp at hs
    split at hs <;> try simp at hs
    split at hs <;> simp at hs <;> obtain ⟨_, rfl⟩ := hs
    · have := startResolve_cfg { s with relRuns := s.relRuns.eraseIdx r, owner := .other }
      exact Or.inr ⟨this.1, this.2.1, fun _ => this.2.2⟩
    · exact Or.inr ⟨rfl, rfl, fun _ => rfl⟩
  | envReleased k =>
    simp only [step] at hs; split at hs <;> simp at hs; subst hs
    exact Or.inr ⟨rfl, rfl, fun _ => rfl⟩
  | invAddRef a kd => simp only [step] at hs; split at hs <;> simp at hs; subst hs; exact Or.inr ⟨rfl, rfl, fun _ => rfl⟩
  | invHook a => simp only [step] at hs; split at hs <;> simp at hs; subst hs; exact Or.inr ⟨rfl, rfl, fun _ => rfl⟩
  | retAddRef a =>
    simp only [step] at hs; split at hs <;> try simp at hs
    obtain ⟨_, rfl⟩ := hs; exact Or.inr ⟨rfl, rfl, fun _ => rfl⟩
  | invRelease b r =>
    simp only [step] at hs; split at hs <;> try simp at hs
    split at hs <;> try simp at hs
    subst hs; exact Or.inr ⟨rfl, rfl, fun _ => rfl⟩
  | relSwap b =>
    simp only [step] at hs; split at hs <;> try simp at hs
    split at hs <;> simp at hs <;> subst hs <;> exact Or.inr ⟨rfl, rfl, fun _ => rfl⟩
  | retRelease b =>
    simp only [step] at hs; split at hs <;> try simp at hs
    obtain ⟨_, rfl⟩ := hs; exact Or.inr ⟨rfl, rfl, fun _ => rfl⟩
  | selfRelSwap a =>
    simp only [step] at hs; split at hs <;> try simp at hs
    obtain ⟨_, hs⟩ := hs
    split at hs <;> simp at hs <;> subst hs <;> exact Or.inr ⟨rfl, rfl, fun _ => rfl⟩
  | invSetCtx a c cl => simp only [step] at hs; split at hs <;> simp at hs; subst hs; exact Or.inr ⟨rfl, rfl, fun _ => rfl⟩
  | retSetCtx a u =>
    simp only [step] at hs; split at hs <;> try simp at hs
    obtain ⟨_, rfl⟩ := hs; exact Or.inr ⟨rfl, rfl, fun _ => rfl⟩
  | envCancelCtx c => simp only [step] at hs; split at hs <;> simp at hs; subst hs; exact Or.inr ⟨rfl, rfl, fun _ => rfl⟩
  | quiesce B => simp only [step] at hs; split at hs <;> simp at hs; subst hs; exact Or.inr ⟨rfl, rfl, fun _ => rfl⟩
  | probe v er => simp only [step] at hs; split at hs <;> simp at hs; subst hs; exact Or.inr ⟨rfl, rfl, fun _ => rfl⟩
  | cb it =>
    simp only [step] at hs; split at hs <;> try simp at hs
    obtain ⟨_, rfl⟩ := hs; exact Or.inr ⟨rfl, rfl, fun _ => rfl⟩
  | enter j k =>
    simp only [step] at hs; split at hs <;> try simp at hs
    obtain ⟨_, rfl⟩ := hs; exact Or.inr ⟨rfl, rfl, fun _ => rfl⟩
  | giveUp j =>
    simp only [step] at hs; split at hs <;> try simp at hs
    obtain ⟨_, rfl⟩ := hs; exact Or.inr ⟨rfl, rfl, fun _ => rfl⟩
  | drained j =>
    simp only [step] at hs; split at hs <;> try simp at hs
    obtain ⟨_, rfl⟩ := hs; exact Or.inr ⟨rfl, rfl, fun _ => rfl⟩
  | leave j k v hr er =>
    simp only [step] at hs; split at hs <;> try simp at hs
    obtain ⟨_, rfl⟩ := hs; exact Or.inr ⟨rfl, rfl, fun _ => rfl⟩
  | done j =>
    simp only [step] at hs; split at hs <;> try simp at hs
    obtain ⟨_, rfl⟩ := hs; exact Or.inr ⟨rfl, rfl, fun _ => rfl⟩
  | store j =>
    simp only [step] at hs; split at hs <;> try simp at hs
    split at hs <;> try simp at hs
    obtain ⟨_, hs⟩ := hs
    split at hs
    · simp at hs; subst hs; exact Or.inr ⟨rfl, rfl, fun _ => rfl⟩
    · split at hs <;> simp at hs <;> subst hs <;> exact Or.inr ⟨rfl, rfl, fun _ => rfl⟩
  | addRefCS a =>
    simp only [step] at hs; split at hs <;> try simp at hs
    rename_i k ha
    obtain ⟨_, hs⟩ := hs
    split at hs
    · simp at hs; subst hs
      have := startResolve_cfg { s with th := s.th.set a (.ref k .done true false false none), owner := .thr a }
      exact Or.inr ⟨this.1, this.2.1, fun _ => this.2.2⟩
    · split at hs <;> simp at hs <;> subst hs <;> exact Or.inr ⟨rfl, rfl, fun _ => rfl⟩
  | relCS b =>
    simp only [step] at hs; split at hs <;> try simp at hs
    rename_i r hb
    split at hs <;> try simp at hs
    case h_2 => obtain ⟨_, rfl⟩ := hs; exact Or.inr ⟨rfl, rfl, fun _ => rfl⟩
    rename_i k pc flag self told hr
    obtain ⟨_, rfl⟩ := hs
    have := afterRemove_cfg { s with th := (s.th.set r (.ref k pc false flag self told)).set b (.rel r .done), owner := .thr b }
    exact Or.inr ⟨this.1, this.2.1, fun _ => this.2.2⟩
  | selfRelCS a =>
    simp only [step] at hs; split at hs <;> try simp at hs
    rename_i pc flag told ha
    obtain ⟨_, rfl⟩ := hs
    have := afterRemove_cfg { s with th := s.th.set a (.ref .hook pc false flag false told), owner := .self a }
    exact Or.inr ⟨this.1, this.2.1, fun _ => this.2.2⟩
  | setCtxCS a =>
    simp only [step] at hs; split at hs <;> try simp at hs
    rename_i c cl u ha
    split at hs <;> simp at hs <;> obtain ⟨_, rfl⟩ := hs
    · exact Or.inr ⟨rfl, rfl, fun h => absurd rfl (h a)⟩
    · have := startResolve_cfg { s with ctx := c, th := s.th.set a (.ctx c cl .done true), owner := .thr a }
      exact Or.inr ⟨this.1, this.2.1, fun h => absurd rfl (h a)⟩

/-- the critical section of `SetContext` -/
theorem setCtx_cs (s s' : St) (a : Nat) (hs : step s (.setCtxCS a) = some s') :
    ∃ c cl u0 u, s.th[a]? = some (TS.ctx c cl .inv u0) ∧ s'.th[a]? = some (TS.ctx c cl .done u) ∧ s'.ctx = c ∧
      (u = true → s'.nonce = s.nonce + 1) := by
  simp only [step] at hs; split at hs <;> try simp at hs
  rename_i c cl u ha
  have hlt := lt_of_getElem? ha
  split at hs <;> simp at hs <;> obtain ⟨_, rfl⟩ := hs
  · rename_i hc _
    exact ⟨c, cl, u, false, ha, by simp [hlt], hc, by intro h; cases h⟩
  · refine ⟨c, cl, u, true, ha, ?_, ?_, fun _ => ?_⟩
    · rw [startResolve_th, shutdown_th]
      split
      · rw [tellAll_get]; simp [hlt, tell1]
      · simp [hlt]
    · exact (startResolve_cfg _).2.2
    · rw [startResolve_eq]; split <;> simp [spawned]

/-! ## `SetContext` threads keep their fields -/

def UpdSame (th th' : List TS) : Prop :=
  ∀ (a c : Nat) (cl : Bool) (pc : Pc) (u : Bool), th[a]? = some (TS.ctx c cl pc u) →
    ∃ pc', th'[a]? = some (TS.ctx c cl pc' u)

theorem updSame_refl (th : List TS) : UpdSame th th := fun a c cl pc u h => ⟨pc, h⟩

theorem updSame_trans (t1 t2 t3 : List TS) (h1 : UpdSame t1 t2) (h2 : UpdSame t2 t3) : UpdSame t1 t3 := by
  intro a c cl pc u h
  obtain ⟨pc', h'⟩ := h1 a c cl pc u h
  exact h2 a c cl pc' u h'

theorem updSame_tellAll (th : List TS) (t : Option Nat) : UpdSame th (tellAll th t) := by
  intro a c cl pc u h
  exact ⟨pc, by rw [tellAll_get, h]; simp [tell1]⟩

theorem updSame_append (th : List TS) (x : TS) : UpdSame th (th ++ [x]) :=
  fun a c cl pc u h => ⟨pc, getElem?_snoc_left _ _ _ _ h⟩

theorem updSame_set_other (th : List TS) (r : Nat) (new : TS)
    (h : ∀ c cl pc u, th[r]? ≠ some (TS.ctx c cl pc u)) : UpdSame th (th.set r new) := by
  intro a c cl pc u ha
  have : r ≠ a := by intro e; subst e; exact h c cl pc u ha
  exact ⟨pc, by rw [getElem?_set_ne' _ _ _ _ this]; exact ha⟩

theorem updSame_set_ctx (th : List TS) (a c : Nat) (cl : Bool) (pc pc' : Pc) (u : Bool)
    (h : th[a]? = some (TS.ctx c cl pc u)) : UpdSame th (th.set a (TS.ctx c cl pc' u)) := by
  intro b c2 cl2 pc2 u2 hb
  by_cases hab : a = b
  · subst hab
    rw [h] at hb; cases hb
    exact ⟨pc', by simp [lt_of_getElem? h]⟩
  · exact ⟨pc2, by rw [getElem?_set_ne' _ _ _ _ hab]; exact hb⟩

theorem updSame_shutdown (s0 : St) : UpdSame s0.th (shutdown s0).th := by
  rw [shutdown_th]; split
  · exact updSame_tellAll _ _
  · exact updSame_refl _

theorem updSame_startResolve (s0 : St) : UpdSame s0.th (startResolve s0).th := by
  rw [startResolve_th]; exact updSame_shutdown s0

theorem updSame_afterRemove (s0 : St) : UpdSame s0.th (afterRemove s0).th := by
  unfold afterRemove
  split
  · split
    · exact updSame_shutdown s0
    · exact updSame_refl _
  · exact updSame_refl _

/-- only its own critical section changes the `updated` result of a `SetContext` call -/
theorem upd_frame (s s' : St) (e : Ev) (hs : step s e = some s') (a c : Nat) (cl : Bool) (pc : Pc) (u : Bool)
    (h : s.th[a]? = some (TS.ctx c cl pc u)) (hne : e ≠ .setCtxCS a) :
    ∃ pc', s'.th[a]? = some (TS.ctx c cl pc' u) := by
  have notctx_ref : ∀ (r : Nat) (k : CbKind) (p : Pc) (l f sf : Bool) (t : Option Nat),
      s.th[r]? = some (TS.ref k p l f sf t) → ∀ c cl pc u, s.th[r]? ≠ some (TS.ctx c cl pc u) := by
    intro r k p l f sf t hr c cl pc u e; rw [hr] at e; cases e
  have notctx_rel : ∀ (r r2 : Nat) (p : RelPc),
      s.th[r]? = some (TS.rel r2 p) → ∀ c cl pc u, s.th[r]? ≠ some (TS.ctx c cl pc u) := by
    intro r r2 p hr c cl pc u e; rw [hr] at e; cases e
  by_cases hall : ∀ a0, e ≠ .setCtxCS a0
  case neg =>
    have hex : ∃ a0, e = .setCtxCS a0 := by
      cases e <;> first | exact ⟨_, rfl⟩ | exact absurd (fun a0 h => by cases h) hall
    obtain ⟨a0, rfl⟩ := hex
    have hne0 : a0 ≠ a := by intro e; subst e; exact hne rfl
    simp only [step] at hs; split at hs <;> try simp at hs
    rename_i c0 cl0 u0 ha0
    split at hs <;> simp at hs <;> obtain ⟨_, rfl⟩ := hs
    · exact ⟨pc, by rw [getElem?_set_ne' _ _ _ _ hne0]; exact h⟩
    · exact updSame_startResolve { s with ctx := c0, th := s.th.set a0 (.ctx c0 cl0 .done true), owner := .thr a0 }
        a c cl pc u (by show (s.th.set a0 _)[a]? = _; rw [getElem?_set_ne' _ _ _ _ hne0]; exact h)
  suffices hsame : UpdSame s.th s'.th from hsame a c cl pc u h
  cases e with
  | cfg kp c t => simp only [step] at hs; split at hs <;> simp at hs; subst hs; exact updSame_refl _
  | envCancelCtx c => simp only [step] at hs; split at hs <;> simp at hs; subst hs; exact updSame_refl _
  | envReleased k => simp only [step] at hs; split at hs <;> simp at hs; subst hs; exact updSame_refl _
  | quiesce B => simp only [step] at hs; split at hs <;> simp at hs; subst hs; exact updSame_refl _
  | probe v er => simp only [step] at hs; split at hs <;> simp at hs; subst hs; exact updSame_refl _
  | cb it =>
    simp only [step] at hs; split at hs <;> try simp at hs
    obtain ⟨_, rfl⟩ := hs; exact updSame_refl _
  | enter i k =>
    simp only [step] at hs; split at hs <;> try simp at hs
    obtain ⟨_, rfl⟩ := hs; exact updSame_refl _
  | giveUp i =>
    simp only [step] at hs; split at hs <;> try simp at hs
    obtain ⟨_, rfl⟩ := hs; exact updSame_refl _
  | drained i =>
    simp only [step] at hs; split at hs <;> try simp at hs
    obtain ⟨_, rfl⟩ := hs; exact updSame_refl _
  | leave i k v hr er =>
    simp only [step] at hs; split at hs <;> try simp at hs
    obtain ⟨_, rfl⟩ := hs; exact updSame_refl _
  | done i =>
    simp only [step] at hs; split at hs <;> try simp at hs
    obtain ⟨_, rfl⟩ := hs; exact updSame_refl _
  | store i =>
    simp only [step] at hs; split at hs <;> try simp at hs
    split at hs <;> try simp at hs
    obtain ⟨_, hs⟩ := hs
    split at hs
    · simp at hs; subst hs; exact updSame_tellAll _ _
    · split at hs <;> simp at hs <;> subst hs <;> exact updSame_refl _
  | relRun r =>
    simp only [step] at hs; split at hs <;> try simp at hs
    split at hs <;> try simp at hs
    split at hs <;> simp at hs <;> obtain ⟨_, rfl⟩ := hs
    · exact updSame_startResolve { s with relRuns := s.relRuns.eraseIdx r, owner := .other }
    · exact updSame_refl _
  | invAddRef a k => simp only [step] at hs; split at hs <;> simp at hs; subst hs; exact updSame_append _ _
  | invHook a => simp only [step] at hs; split at hs <;> simp at hs; subst hs; exact updSame_append _ _
  | invRelease b r =>
    simp only [step] at hs; split at hs <;> try simp at hs
    split at hs <;> try simp at hs
    subst hs; exact updSame_append _ _
  | invSetCtx a c cl => simp only [step] at hs; split at hs <;> simp at hs; subst hs; exact updSame_append _ _
  | retAddRef a =>
    simp only [step] at hs; split at hs <;> try simp at hs
    rename_i k l f sf t ha
    obtain ⟨_, rfl⟩ := hs
    exact updSame_set_other _ _ _ (notctx_ref _ _ _ _ _ _ _ ha)
  | retRelease b =>
    simp only [step] at hs; split at hs <;> try simp at hs
    rename_i r hb
    obtain ⟨_, rfl⟩ := hs
    exact updSame_set_other _ _ _ (notctx_rel _ _ _ hb)
  | retSetCtx a0 u0 =>
    simp only [step] at hs; split at hs <;> try simp at hs
    rename_i c0 cl0 u2 ha
    obtain ⟨_, rfl⟩ := hs
    exact updSame_set_ctx _ _ _ _ _ _ _ ha
  | selfRelSwap a =>
    simp only [step] at hs; split at hs <;> try simp at hs
    rename_i pc l f sf t ha
    obtain ⟨_, hs⟩ := hs
    split at hs <;> simp at hs <;> subst hs
    · exact updSame_refl _
    · exact updSame_set_other _ _ _ (notctx_ref _ _ _ _ _ _ _ ha)
  | relSwap b =>
    simp only [step] at hs; split at hs <;> try simp at hs
    rename_i r hb
    split at hs <;> simp at hs <;> subst hs
    · rename_i k pc l sf t hr
      have hne' : r ≠ b := by intro e; subst e; rw [hb] at hr; cases hr
      refine updSame_trans _ _ _ (updSame_set_other _ r _ (notctx_ref _ _ _ _ _ _ _ hr)) (updSame_set_other _ b _ ?_)
      intro c cl pc u e
      rw [getElem?_set_ne' _ _ _ _ hne', hb] at e; cases e
    · exact updSame_set_other _ _ _ (notctx_rel _ _ _ hb)
  | setCtxCS a0 => exact absurd rfl (hall a0)
  | addRefCS a =>
    simp only [step] at hs; split at hs <;> try simp at hs
    rename_i k ha
    obtain ⟨_, hs⟩ := hs
    have h1 : ∀ t, UpdSame s.th (s.th.set a (TS.ref k .done true false false t)) := fun t =>
      updSame_set_other _ _ _ (notctx_ref _ _ _ _ _ _ _ ha)
    split at hs
    · simp at hs; subst hs
      exact updSame_trans _ _ _ (h1 none)
        (updSame_startResolve { s with th := s.th.set a (.ref k .done true false false none), owner := .thr a })
    · split at hs <;> simp at hs <;> subst hs
      · simp only [List.set_set]; exact h1 s.cur
      · exact h1 none
  | relCS b =>
    simp only [step] at hs; split at hs <;> try simp at hs
    rename_i r hb
    split at hs <;> try simp at hs
    case h_2 =>
      obtain ⟨_, rfl⟩ := hs
      exact updSame_set_other _ _ _ (notctx_rel _ _ _ hb)
    rename_i k pc flag self told hr
    obtain ⟨_, rfl⟩ := hs
    have hne' : r ≠ b := by intro e; subst e; rw [hb] at hr; cases hr
    have h2 : UpdSame s.th ((s.th.set r (TS.ref k pc false flag self told)).set b (TS.rel r .done)) := by
      refine updSame_trans _ _ _ (updSame_set_other _ r _ (notctx_ref _ _ _ _ _ _ _ hr)) (updSame_set_other _ b _ ?_)
      intro c cl pc u e
      rw [getElem?_set_ne' _ _ _ _ hne', hb] at e; cases e
    exact updSame_trans _ _ _ h2
      (updSame_afterRemove { s with th := (s.th.set r (.ref k pc false flag self told)).set b (.rel r .done), owner := .thr b })
  | selfRelCS a =>
    simp only [step] at hs; split at hs <;> try simp at hs
    rename_i pc flag told ha
    obtain ⟨_, rfl⟩ := hs
    exact updSame_trans _ _ _ (updSame_set_other _ a _ (notctx_ref _ _ _ _ _ _ _ ha))
      (updSame_afterRemove { s with th := s.th.set a (.ref .hook pc false flag false told), owner := .self a })

end UtilModel.RefCount
