import UtilModel.RefCount.ConsRel0
import UtilModel.RefCount.ConsProps
/-!
# refcount consumers: `monC10Value` accepts every trace of the composed model
(the value given to the Access callback / returned by Wait, Resolve, ResolveWithReleased is a
resolver's result; callback entries are numbered and do not overlap)
-/
set_option linter.unusedSimpArgs false
set_option linter.unusedVariables false
namespace UtilModel.RefCount.Cons
open UtilModel UtilModel.RefCount

/-! ## the event of a consumer moves that consumer -/

theorem own_trans (s s' : CSt) (e : CEv) (a : Nat) (c c' : Con) (hs : cstep s e = some s')
    (h1 : getCon s a = some c) (h2 : getCon s' a = some c')
    (ht : (∃ i v, e = .cbin a i v) ∨ (∃ i r, e = .cbout a i r) ∨ (∃ v x, e = .ret a v x) ∨ e = .envCancelCall a ∨
      e = .goCb a) : Trans s e a c c' := by
  have hlt := getCon_lt s a c h1
  rcases ht with ⟨i, v, rfl⟩ | ⟨i, r, rfl⟩ | ⟨v, x, rfl⟩ | rfl | rfl
  · simp only [cstep, h1] at hs
    split at hs <;> try simp at hs
    rename_i v' n ch hpc
    obtain ⟨⟨rfl, rfl⟩, rfl⟩ := hs
    rw [getCon_setCon] at h2; simp [hlt] at h2; subst h2
    exact .cbin a _ v n ch c hpc rfl
  · simp only [cstep, h1] at hs
    split at hs <;> try simp at hs
    rename_i m' v n ch hpc
    obtain ⟨rfl, rfl⟩ := hs
    rw [getCon_setCon] at h2; simp [hlt] at h2; subst h2
    exact .cbout a i r v n ch c hpc
  · simp only [cstep, h1] at hs
    split at hs <;> try simp at hs
    · rename_i v' e' hpc
      obtain ⟨⟨rfl, rfl, _⟩, rfl⟩ := hs
      rw [getCon_setCon] at h2; simp [hlt] at h2; subst h2
      exact .retWait a v x c hpc
    · rename_i v' e' hpc
      obtain ⟨⟨rfl, rfl⟩, hs⟩ := hs
      split at hs <;> simp at hs
      subst hs
      rw [getCon_setCon] at h2
      have : a < ({ s with b := _ } : CSt).ct.length := hlt
      simp [hlt] at h2; subst h2
      exact .retKeep a v x c hpc
  · simp [cstep, h1] at hs; subst hs
    rw [getCon_setCon] at h2; simp [hlt] at h2; subst h2
    exact .cancel a c
  · simp only [cstep, h1] at hs
    split at hs <;> simp at hs
    rename_i hcond
    subst hs
    rw [getCon_setCon] at h2; simp [hlt] at h2; subst h2
    exact .goCb a c hcond.1

theorem opOk_trans (s : CSt) (e : CEv) (a : Nat) (c c' : Con) (ht : Trans s e a c c') (hp : OpOk c) : OpOk c' := by
  obtain ⟨h1, h2⟩ := hp
  cases ht with
  | hook a c res v er => rw [OpOk, hook_pc, hook_op]; exact ⟨h1, h2⟩
  | started a c h =>
    by_cases hop : c.op = .access
    · exact ⟨fun _ => by simp [hop], fun hn => absurd hop hn⟩
    · exact ⟨fun ha => absurd ha hop, fun _ => by simp [hop]⟩
  | watch a c => exact ⟨h1, h2⟩
  | cancel a c => exact ⟨h1, h2⟩
  | goRel a c h => exact ⟨h1, h2⟩
  | goCb a c h => exact ⟨h1, h2⟩
  | snapErr a c h he =>
    refine ⟨fun _ => by simp, fun hn => ?_⟩
    simp only [snapped] at hn ⊢; exact Or.inr (Or.inr (Or.inl ⟨_, _, rfl⟩))
  | snapCall a c h he hr =>
    refine ⟨fun _ => by simp, fun hn => ?_⟩
    simp only [snapped] at hn
    rcases h2 hn with h | h | ⟨_, _, h⟩ | ⟨_, _, h⟩ | h <;> simp [canLook, h] at *
  | snapWait a c h he hr =>
    refine ⟨fun _ => by simp, fun hn => ?_⟩
    simp only [snapped] at hn
    rcases h2 hn with h | h | ⟨_, _, h⟩ | ⟨_, _, h⟩ | h <;> simp [canLook, h] at *
  | cbin a m v n ch c h hm =>
    refine ⟨fun _ => by simp, fun hn => ?_⟩
    rcases h2 hn with h' | h' | ⟨_, _, h'⟩ | ⟨_, _, h'⟩ | h' <;> simp [h'] at h
  | cbout a m r v n ch c h =>
    refine ⟨fun _ => by simp, fun hn => ?_⟩
    rcases h2 hn with h' | h' | ⟨_, _, h'⟩ | ⟨_, _, h'⟩ | h' <;> simp [h'] at h
  | checkCancel a r n ch c h hc => exact ⟨fun _ => by simp, fun _ => Or.inr (Or.inr (Or.inl ⟨_, _, rfl⟩))⟩
  | checkGo a r n ch c h hc =>
    refine ⟨fun _ => by simp, fun hn => ?_⟩
    rcases h2 hn with h' | h' | ⟨_, _, h'⟩ | ⟨_, _, h'⟩ | h' <;> simp [h'] at h
  | recheckSame a r n ch c h hn => exact ⟨fun _ => by simp, fun _ => Or.inr (Or.inr (Or.inl ⟨_, _, rfl⟩))⟩
  | recheckDiff a r n ch c h hn =>
    refine ⟨fun _ => by simp, fun hn' => ?_⟩
    rcases h2 hn' with h' | h' | ⟨_, _, h'⟩ | ⟨_, _, h'⟩ | h' <;> simp [h'] at h
  | waitCancel a n ch c h hc => exact ⟨fun _ => by simp, fun _ => Or.inr (Or.inr (Or.inl ⟨_, _, rfl⟩))⟩
  | awaitErr a v e c h hp he => exact ⟨fun _ => by simp, fun _ => Or.inr (Or.inr (Or.inl ⟨_, _, rfl⟩))⟩
  | awaitOk a v c h hp =>
    refine ⟨fun ha => ?_, fun _ => Or.inr (Or.inr (Or.inr (Or.inl ⟨_, _, rfl⟩)))⟩
    exact absurd h (h1 ha).1
  | awaitCancel a c h hc => exact ⟨fun _ => by simp, fun _ => Or.inr (Or.inr (Or.inl ⟨_, _, rfl⟩))⟩
  | retWait a v e c h => exact ⟨fun _ => by simp, fun _ => Or.inr (Or.inr (Or.inr (Or.inr rfl)))⟩
  | retKeep a v e c h => exact ⟨fun _ => by simp, fun _ => Or.inr (Or.inr (Or.inr (Or.inr rfl)))⟩

/-- the program counters of the Access loop belong to `Access` calls -/
theorem access_of_pc (c : Con) (h : OpOk c)
    (hpc : match c.pc with
      | .look | .calling _ _ _ | .incb _ _ _ _ | .afterCb _ _ _ | .recheck _ _ _ | .waiting _ _ => True
      | _ => False) : c.op = .access := by
  cases hop : c.op with
  | access => rfl
  | _ =>
    exfalso
    have := h.2 (by rw [hop]; simp)
    rcases this with h' | h' | ⟨_, _, h'⟩ | ⟨_, _, h'⟩ | h' <;> simp [h'] at hpc

/-! ## the clauses -/

structure CA (m : C10St) (a : Nat) (c : Con) : Prop where
  ops : opOf m a = some c.op
  opok : OpOk c
  canc : c.cancelled = true → a ∈ m.cancelled
  view : c.cres = true → (c.cv, c.ce) ∈ m.resVals
  prom : ∀ v e, c.prom = some (v, e) → (v, e) ∈ m.resVals
  call : ∀ v n ch, (c.pc = .calling v n ch ∨ ∃ i, c.pc = .incb i v n ch) → (v, 0) ∈ m.resVals
  exitw : ∀ v e, c.pc = .exitWait v e → c.op ≠ .access → (e = 9 ∧ a ∈ m.cancelled) ∨ (v, e) ∈ m.resVals
  exitk : ∀ v e, c.pc = .exitKeep v e → (v, e) ∈ m.resVals ∧ e = 0
  count : countOf m.accCount a = c.ncb
  incb : ∀ i v n ch, c.pc = .incb i v n ch → ∃ p ∈ m.accCur, p.1 = a
  idx : ∀ p ∈ m.accCur, p.1 = a → ∃ v n ch, c.pc = .incb p.2.1 v n ch

/-! ## the bookkeeping, field by field -/

theorem trk_resVals (m : C10St) (o : CObs) (p : Nat × Nat) (h : p ∈ m.resVals) : p ∈ (trk m o).resVals := by
  cases o with
  | base bo =>
    cases bo <;> simp only [trk] <;> first | exact h | exact List.mem_cons_of_mem _ h
  | inv a op => exact h
  | cbin a i v => exact h
  | cbout a i r => exact h
  | ret a v e =>
    simp only [trk]
    split
    · exact h
    · split <;> exact h
    · exact h
  | cancelCall a => exact h
  | cbinReleased a => exact h
  | probeCtx a i c => exact h
  | probeProm a _ _ _ => exact h

theorem trk_cancelled (m : C10St) (o : CObs) (a : Nat) (h : a ∈ m.cancelled) : a ∈ (trk m o).cancelled := by
  cases o with
  | base bo => cases bo <;> simp only [trk] <;> exact h
  | inv a' op => exact h
  | cbin a' i v => exact h
  | cbout a' i r => exact h
  | ret a' v e =>
    simp only [trk]
    split
    · exact h
    · split <;> exact h
    · exact h
  | cancelCall a' => exact List.mem_cons_of_mem _ h
  | cbinReleased a' => exact h
  | probeCtx a' i c => exact h
  | probeProm a' _ _ _ => exact h

theorem opOf_cons_ne (m : C10St) (a a' : Nat) (op : COp) (h : a' ≠ a) :
    opOf { m with ops := (a', op) :: m.ops } a = opOf m a := by
  have : (a' == a) = false := by simpa using h
  simp [opOf, List.find?_cons, this]

theorem trk_ops (m : C10St) (o : CObs) (a : Nat) (h : ∀ op, o ≠ .inv a op) : opOf (trk m o) a = opOf m a := by
  cases o with
  | base bo => cases bo <;> rfl
  | inv a' op =>
    have hne : a' ≠ a := by intro e; subst e; exact h op rfl
    exact opOf_cons_ne m a a' op hne
  | cbin a' i v => rfl
  | cbout a' i r => rfl
  | ret a' v e =>
    simp only [trk]
    split
    · rfl
    · split <;> rfl
    · rfl
  | cancelCall a' => rfl
  | cbinReleased a' => rfl
  | probeCtx a' i c => rfl
  | probeProm a' _ _ _ => rfl

theorem countOf_cons_filter_ne (l : List (Nat × Nat)) (a a' n : Nat) (h : a' ≠ a) :
    countOf ((a', n) :: l.filter (·.1 != a')) a = countOf l a := by
  have h1 : (a' == a) = false := by simpa using h
  have h2 : ∀ l : List (Nat × Nat), (l.filter (·.1 != a')).find? (·.1 == a) = l.find? (·.1 == a) := by
    intro l
    induction l with
    | nil => rfl
    | cons y ys ih =>
      simp only [List.filter_cons]
      by_cases hy : y.1 = a'
      · have : (y.1 != a') = false := by simp [hy]
        have hya : (y.1 == a) = false := by rw [hy]; exact h1
        simp only [this, List.find?_cons, hya]
        simpa using ih
      · have : (y.1 != a') = true := by simpa using hy
        simp only [this, if_true, List.find?_cons]
        cases (y.1 == a)
        · simpa using ih
        · rfl
  simp [countOf, List.find?_cons, h1, h2]

theorem trk_count (m : C10St) (o : CObs) (a : Nat) (h : ∀ i v, o ≠ .cbin a i v) :
    countOf (trk m o).accCount a = countOf m.accCount a := by
  cases o with
  | base bo => cases bo <;> rfl
  | inv a' op => rfl
  | cbin a' i v =>
    have hne : a' ≠ a := by intro e; subst e; exact h i v rfl
    exact countOf_cons_filter_ne m.accCount a a' (i + 1) hne
  | cbout a' i r => rfl
  | ret a' v e =>
    simp only [trk]
    split
    · rfl
    · split <;> rfl
    · rfl
  | cancelCall a' => rfl
  | cbinReleased a' => rfl
  | probeCtx a' i c => rfl
  | probeProm a' _ _ _ => rfl

/-- an entry of `accCur` after a step comes from an entry before (same call, same index), or is the
entry just made by `cbin` -/
theorem trk_accCur_back (m : C10St) (o : CObs) (p : Nat × Nat × Option Nat × Bool) (h : p ∈ (trk m o).accCur) :
    (∃ p0 ∈ m.accCur, p0.1 = p.1 ∧ p0.2.1 = p.2.1 ∧ p0.2.2.1 = p.2.2.1 ∧ (∀ a i r, o = .cbout a i r → p.1 ≠ a)) ∨
    (∃ v, o = .cbin p.1 p.2.1 v ∧ p.2.2.1 = entryOf m v ∧ p.2.2.2 = false) := by
  have same : p ∈ m.accCur → (∀ a i r, o ≠ .cbout a i r) →
      (∃ p0 ∈ m.accCur, p0.1 = p.1 ∧ p0.2.1 = p.2.1 ∧ p0.2.2.1 = p.2.2.1 ∧ (∀ a i r, o = .cbout a i r → p.1 ≠ a)) :=
    fun hp hne => ⟨p, hp, rfl, rfl, rfl, fun a i r he => absurd he (hne a i r)⟩
  cases o with
  | base bo =>
    cases bo with
    | cbinRel k seen =>
      left
      simp only [trk, List.mem_map] at h
      obtain ⟨p0, hp0, he⟩ := h
      refine ⟨p0, hp0, ?_, ?_, ?_, by intro a i r he'; cases he'⟩ <;> (split at he <;> (subst he; rfl))
    | _ => exact Or.inl (same h (by intro a i r he; cases he))
  | inv a' op => exact Or.inl (same h (by intro a i r he; cases he))
  | cbin a' i v =>
    simp only [trk, List.mem_cons] at h
    rcases h with rfl | h
    · exact Or.inr ⟨v, rfl, rfl, rfl⟩
    · exact Or.inl (same h (by intro a i r he; cases he))
  | cbout a' i r =>
    left
    simp only [trk, List.mem_filter] at h
    refine ⟨p, h.1, rfl, rfl, rfl, ?_⟩
    intro a i' r' he; cases he
    simpa using h.2
  | ret a' v e =>
    simp only [trk] at h
    refine Or.inl (same ?_ (by intro a i r he; cases he))
    split at h
    · exact h
    · split at h <;> exact h
    · exact h
  | cancelCall a' => exact Or.inl (same h (by intro a i r he; cases he))
  | cbinReleased a' => exact Or.inl (same h (by intro a i r he; cases he))
  | probeCtx a' i c => exact Or.inl (same h (by intro a i r he; cases he))
  | probeProm a' _ _ _ => exact Or.inl (same h (by intro a i r he; cases he))

theorem trk_accCur_fwd (m : C10St) (o : CObs) (a : Nat) (p0 : Nat × Nat × Option Nat × Bool) (h : p0 ∈ m.accCur)
    (ha : p0.1 = a) (hne : ∀ i r, o ≠ .cbout a i r) : ∃ p ∈ (trk m o).accCur, p.1 = a := by
  cases o with
  | base bo =>
    cases bo with
    | cbinRel k seen =>
      simp only [trk]
      refine ⟨_, List.mem_map.mpr ⟨p0, h, rfl⟩, ?_⟩
      split <;> exact ha
    | _ => exact ⟨p0, h, ha⟩
  | inv a' op => exact ⟨p0, h, ha⟩
  | cbin a' i v => exact ⟨p0, List.mem_cons_of_mem _ h, ha⟩
  | cbout a' i r =>
    refine ⟨p0, ?_, ha⟩
    simp only [trk, List.mem_filter]
    refine ⟨h, ?_⟩
    have : a' ≠ a := by intro e; subst e; exact hne i r rfl
    rw [ha]; simpa using (Ne.symm this)
  | ret a' v e =>
    simp only [trk]
    split
    · exact ⟨p0, h, ha⟩
    · split <;> exact ⟨p0, h, ha⟩
    · exact ⟨p0, h, ha⟩
  | cancelCall a' => exact ⟨p0, h, ha⟩
  | cbinReleased a' => exact ⟨p0, h, ha⟩
  | probeCtx a' i c => exact ⟨p0, h, ha⟩
  | probeProm a' _ _ _ => exact ⟨p0, h, ha⟩

/-- a step that does not concern consumer `a` keeps its clauses -/
theorem ca_frame (m : C10St) (o : CObs) (a : Nat) (c : Con) (h : CA m a c) (h1 : ∀ op, o ≠ .inv a op)
    (h2 : ∀ i v, o ≠ .cbin a i v) (h3 : ∀ i r, o ≠ .cbout a i r) : CA (trk m o) a c :=
  { ops := by rw [trk_ops m o a h1]; exact h.ops
    opok := h.opok
    canc := fun hc => trk_cancelled m o a (h.canc hc)
    view := fun hc => trk_resVals m o _ (h.view hc)
    prom := fun v e hp => trk_resVals m o _ (h.prom v e hp)
    call := fun v n ch hp => trk_resVals m o _ (h.call v n ch hp)
    exitw := by
      intro v e hp hop
      rcases h.exitw v e hp hop with ⟨g1, g2⟩ | g
      · exact Or.inl ⟨g1, trk_cancelled m o a g2⟩
      · exact Or.inr (trk_resVals m o _ g)
    exitk := fun v e hp => ⟨trk_resVals m o _ (h.exitk v e hp).1, (h.exitk v e hp).2⟩
    count := by rw [trk_count m o a h2]; exact h.count
    incb := by
      intro i v n ch hp
      obtain ⟨p0, hp0, hpa⟩ := h.incb i v n ch hp
      exact trk_accCur_fwd m o a p0 hp0 hpa h3
    idx := by
      intro p hp hpa
      rcases trk_accCur_back m o p hp with ⟨p0, hp0, g1, g2, _, _⟩ | ⟨v, he, _, _⟩
      · obtain ⟨v, n, ch, hh⟩ := h.idx p0 hp0 (by rw [g1]; exact hpa)
        exact ⟨v, n, ch, by rw [← g2]; exact hh⟩
      · rw [hpa] at he; exact absurd he (h2 _ _) }

/-- a change of the consumer that leaves the monitor alone -/
theorem ca_upd (m : C10St) (a : Nat) (c c' : Con) (h : CA m a c) (e1 : c'.op = c.op)
    (e2 : c'.cancelled = c.cancelled) (e3 : c'.cres = c.cres) (e4 : c'.cv = c.cv) (e5 : c'.ce = c.ce)
    (e6 : c'.prom = c.prom) (e7 : c'.ncb = c.ncb) (hopok : OpOk c')
    (hcall : ∀ v n ch, (c'.pc = .calling v n ch ∨ ∃ i, c'.pc = .incb i v n ch) → (v, 0) ∈ m.resVals)
    (hexw : ∀ v e, c'.pc = .exitWait v e → c'.op ≠ .access → (e = 9 ∧ a ∈ m.cancelled) ∨ (v, e) ∈ m.resVals)
    (hexk : ∀ v e, c'.pc = .exitKeep v e → (v, e) ∈ m.resVals ∧ e = 0)
    (hin : (∃ i v n ch, c'.pc = .incb i v n ch) → c'.pc = c.pc)
    (hin2 : (∃ i v n ch, c.pc = .incb i v n ch) → c'.pc = c.pc) : CA m a c' :=
  { ops := by rw [e1]; exact h.ops
    opok := hopok
    canc := by rw [e2]; exact h.canc
    view := by rw [e3, e4, e5]; exact h.view
    prom := by rw [e6]; exact h.prom
    call := hcall
    exitw := hexw
    exitk := hexk
    count := by rw [e7]; exact h.count
    incb := by
      intro i v n ch hp
      have := hin ⟨i, v, n, ch, hp⟩
      exact h.incb i v n ch (by rw [← this]; exact hp)
    idx := by
      intro p hp hpa
      obtain ⟨v, n, ch, hh⟩ := h.idx p hp hpa
      exact ⟨v, n, ch, by rw [hin2 ⟨_, v, n, ch, hh⟩]; exact hh⟩ }

theorem hook_fields (c : Con) (nonce : Nat) (res : Bool) (v e : Nat) :
    (hook c nonce res v e).cancelled = c.cancelled ∧ (hook c nonce res v e).ncb = c.ncb := by
  unfold hook
  cases c.op <;> simp <;> (repeat' split) <;> simp

theorem hook_view (c : Con) (nonce : Nat) (res : Bool) (v e : Nat) :
    ((hook c nonce res v e).cres = c.cres ∧ (hook c nonce res v e).cv = c.cv ∧ (hook c nonce res v e).ce = c.ce) ∨
    ((hook c nonce res v e).cres = res ∧ (hook c nonce res v e).cv = v ∧ (hook c nonce res v e).ce = e) := by
  unfold hook
  cases c.op <;> simp <;> (repeat' split) <;> simp

theorem hook_prom (c : Con) (nonce : Nat) (res : Bool) (v e : Nat) :
    (hook c nonce res v e).prom = c.prom ∨ (hook c nonce res v e).prom = none ∨
    ((hook c nonce res v e).prom = some (v, e) ∧ (res = true ∨ e ≠ 0)) := by
  unfold hook
  cases hop : c.op with
  | access => simp only []; split <;> exact Or.inl rfl
  | wait => cases res <;> simp
  | resolve => cases res <;> simp
  | promise => cases res <;> simp
  | rwr cb =>
    simp only []
    by_cases hw : c.wres = true
    · simp only [hw, if_true]
      (repeat' split) <;> exact Or.inl rfl
    · simp only [hw]
      by_cases hc : res = true ∨ e ≠ 0
      · have : (!res || decide (e ≠ 0)) = true ∨ True := Or.inr trivial
        simp only [Bool.false_eq_true, if_false]
        rw [if_pos (by simpa using hc)]
        exact Or.inr (Or.inr ⟨rfl, hc⟩)
      · simp only [Bool.false_eq_true, if_false]
        rw [if_neg (by simpa using hc)]
        exact Or.inl rfl

/-- the clauses of consumer `a` after its own transition (`hres`: what a notification carries) -/
theorem ca_trans (s : CSt) (e : CEv) (m : C10St) (a : Nat) (c c' : Con) (ht : Trans s e a c c') (h : CA m a c)
    (hres : ∀ res v er, e = .base (.cb (.refcb a false res v er)) →
      (res = true → (v, er) ∈ m.resVals) ∧ (res = false → er = 0)) : CA (after m e) a c' := by
  have plain : ∀ c1 : Con, c1.op = c.op → c1.cancelled = c.cancelled → c1.cres = c.cres → c1.cv = c.cv →
      c1.ce = c.ce → c1.prom = c.prom → c1.ncb = c.ncb → OpOk c1 →
      (∀ v n ch, c1.pc ≠ .calling v n ch) → (∀ i v n ch, c1.pc ≠ .incb i v n ch) →
      (∀ v x, c1.pc ≠ .exitKeep v x) → (∀ i v n ch, c.pc ≠ .incb i v n ch) →
      (∀ v x, c1.pc = .exitWait v x → c1.op ≠ .access → (x = 9 ∧ a ∈ m.cancelled) ∨ (v, x) ∈ m.resVals) →
      CA m a c1 := by
    intro c1 e1 e2 e3 e4 e5 e6 e7 hok n1 n2 n3 n4 hexw
    exact ca_upd m a c c1 h e1 e2 e3 e4 e5 e6 e7 hok
      (by intro v n ch hh; rcases hh with hh | ⟨i, hh⟩; exact absurd hh (n1 v n ch); exact absurd hh (n2 i v n ch))
      hexw (by intro v x hh; exact absurd hh (n3 v x))
      (by intro ⟨i, v, n, ch, hh⟩; exact absurd hh (n2 i v n ch))
      (by intro ⟨i, v, n, ch, hh⟩; exact absurd hh (n4 i v n ch))
  have hok' := opOk_trans s e a c c' ht h.opok
  cases ht with
  | hook a c res v er =>
    show CA m a (hook c s.b.nonce res v er)
    obtain ⟨hr1, hr2⟩ := hres res v er rfl
    obtain ⟨f1, f2⟩ := hook_fields c s.b.nonce res v er
    have hpc := hook_pc c s.b.nonce res v er
    exact
      { ops := by rw [hook_op]; exact h.ops
        opok := hok'
        canc := by rw [f1]; exact h.canc
        view := by
          rcases hook_view c s.b.nonce res v er with ⟨g1, g2, g3⟩ | ⟨g1, g2, g3⟩
          · rw [g1, g2, g3]; exact h.view
          · rw [g1, g2, g3]; exact hr1
        prom := by
          intro v' e' hp
          rcases hook_prom c s.b.nonce res v er with g | g | ⟨g, g2⟩
          · rw [g] at hp; exact h.prom v' e' hp
          · rw [g] at hp; cases hp
          · rw [g] at hp; cases hp
            rcases g2 with g2 | g2
            · exact hr1 g2
            · cases res
              · exact absurd (hr2 rfl) g2
              · exact hr1 rfl
        call := by rw [hpc]; exact h.call
        exitw := by rw [hpc, hook_op]; exact h.exitw
        exitk := by rw [hpc]; exact h.exitk
        count := by rw [f2]; exact h.count
        incb := by rw [hpc]; exact h.incb
        idx := by rw [hpc]; exact h.idx }
  | started a c hs0 =>
    show CA m a _
    have n4 : ∀ i v n ch, c.pc ≠ .incb i v n ch := by intro i v n ch hh; rw [hs0] at hh; cases hh
    by_cases hop : c.op = COp.access
    · simp only [hop, if_true] at hok' ⊢
      exact plain _ hop.symm rfl rfl rfl rfl rfl rfl hok' (by simp) (by simp) (by simp) n4 (by simp)
    · simp only [hop, if_false] at hok' ⊢
      exact plain _ rfl rfl rfl rfl rfl rfl rfl hok' (by simp) (by simp) (by simp) n4 (by simp)
  | snapErr a c hl he =>
    show CA m a _
    have hacc : c.op = .access := access_of_pc c h.opok (by
      unfold canLook at hl; split at hl <;> simp_all)
    exact plain _ rfl rfl rfl rfl rfl rfl rfl hok' (by simp) (by simp) (by simp)
      (by intro i v n ch hh; simp [canLook, hh] at hl)
      (by intro v x _ hop; exact absurd hacc hop)
  | snapCall a c hl he hr =>
    show CA m a _
    refine ca_upd m a c _ h rfl rfl rfl rfl rfl rfl rfl hok' ?_ (by simp) (by simp) (by simp)
      (by intro ⟨i, v, n, ch, hh⟩; simp [canLook, hh] at hl)
    intro v n ch hh
    rcases hh with hh | ⟨i, hh⟩
    · simp [snapped] at hh
      have := h.view hr
      rw [he] at this; rw [← hh.1]; exact this
    · simp [snapped] at hh
  | snapWait a c hl he hr =>
    show CA m a _
    exact plain _ rfl rfl rfl rfl rfl rfl rfl hok' (by simp) (by simp) (by simp)
      (by intro i v n ch hh; simp [canLook, hh] at hl) (by simp)
  | watch a c =>
    show CA m a _
    exact ca_upd m a c _ h rfl rfl rfl rfl rfl rfl rfl hok' h.call h.exitw h.exitk (fun _ => rfl) (fun _ => rfl)
  | cbin a i v n ch c hpc hm =>
    show CA (trk m (.cbin a i v)) a _
    subst hm
    exact
      { ops := by rw [trk_ops m _ a (by simp)]; exact h.ops
        opok := hok'
        canc := h.canc
        view := h.view
        prom := h.prom
        call := by
          intro v' n' ch' hh
          rcases hh with hh | ⟨i', hh⟩
          · simp at hh
          · simp at hh
            exact h.call v' n' ch' (Or.inl (by rw [hpc, hh.2.1, hh.2.2.1, hh.2.2.2]))
        exitw := by simp
        exitk := by simp
        count := by simp [trk, countOf, List.find?_cons]
        incb := by intro i' v' n' ch' _; exact ⟨_, List.mem_cons_self, rfl⟩
        idx := by
          intro p hp hpa
          simp only [trk, List.mem_cons] at hp
          rcases hp with rfl | hp
          · exact ⟨v, n, ch, rfl⟩
          · obtain ⟨v', n', ch', hh⟩ := h.idx p hp hpa
            rw [hpc] at hh; cases hh }
  | cbout a i r v n ch c hpc =>
    show CA (trk m (.cbout a i r)) a _
    exact
      { ops := by rw [trk_ops m _ a (by simp)]; exact h.ops
        opok := hok'
        canc := h.canc
        view := h.view
        prom := h.prom
        call := by simp
        exitw := by simp
        exitk := by simp
        count := by rw [trk_count m _ a (by simp)]; exact h.count
        incb := by simp
        idx := by
          intro p hp hpa
          simp only [trk, List.mem_filter] at hp
          rw [hpa] at hp; simp at hp }
  | checkCancel a r n ch c hpc hc =>
    show CA m a _
    have hacc : c.op = .access := access_of_pc c h.opok (by rw [hpc]; trivial)
    exact plain _ rfl rfl rfl rfl rfl rfl rfl hok' (by simp) (by simp) (by simp)
      (by intro i v n' ch' hh; rw [hpc] at hh; cases hh) (by intro v x _ hop; exact absurd hacc hop)
  | checkGo a r n ch c hpc hc =>
    show CA m a _
    exact plain _ rfl rfl rfl rfl rfl rfl rfl hok' (by simp) (by simp) (by simp)
      (by intro i v n' ch' hh; rw [hpc] at hh; cases hh) (by simp)
  | recheckSame a r n ch c hpc hn =>
    show CA m a _
    have hacc : c.op = .access := access_of_pc c h.opok (by rw [hpc]; trivial)
    exact plain _ rfl rfl rfl rfl rfl rfl rfl hok' (by simp) (by simp) (by simp)
      (by intro i v n' ch' hh; rw [hpc] at hh; cases hh) (by intro v x _ hop; exact absurd hacc hop)
  | recheckDiff a r n ch c hpc hn =>
    show CA m a _
    exact plain _ rfl rfl rfl rfl rfl rfl rfl hok' (by simp) (by simp) (by simp)
      (by intro i v n' ch' hh; rw [hpc] at hh; cases hh) (by simp)
  | waitCancel a n ch c hpc hc =>
    show CA m a _
    have hacc : c.op = .access := access_of_pc c h.opok (by rw [hpc]; trivial)
    exact plain _ rfl rfl rfl rfl rfl rfl rfl hok' (by simp) (by simp) (by simp)
      (by intro i v n' ch' hh; rw [hpc] at hh; cases hh) (by intro v x _ hop; exact absurd hacc hop)
  | awaitErr a v x c hpc hp he =>
    show CA m a _
    exact plain _ rfl rfl rfl rfl rfl rfl rfl hok' (by simp) (by simp) (by simp)
      (by intro i v' n' ch' hh; rw [hpc] at hh; cases hh)
      (by intro v' x' hh _; simp at hh; rw [← hh.1, ← hh.2]; exact Or.inr (h.prom v x hp))
  | awaitOk a v c hpc hp =>
    show CA m a _
    exact ca_upd m a c _ h rfl rfl rfl rfl rfl rfl rfl hok' (by simp) (by simp)
      (by intro v' x' hh; simp at hh; rw [← hh.1, ← hh.2]; exact ⟨h.prom v 0 hp, rfl⟩)
      (by simp) (by intro ⟨i, v', n, ch, hh⟩; rw [hpc] at hh; cases hh)
  | awaitCancel a c hpc hc =>
    show CA m a _
    exact plain _ rfl rfl rfl rfl rfl rfl rfl hok' (by simp) (by simp) (by simp)
      (by intro i v' n' ch' hh; rw [hpc] at hh; cases hh)
      (by intro v' x' hh _; simp at hh; rw [← hh.1, ← hh.2]; exact Or.inl ⟨rfl, h.canc hc⟩)
  | retWait a v x c hpc =>
    show CA (trk m (.ret a v x)) a _
    have h1 := ca_frame m (.ret a v x) a c h (by simp) (by simp) (by simp)
    exact ca_upd _ a c _ h1 rfl rfl rfl rfl rfl rfl rfl hok' (by simp) (by simp) (by simp) (by simp)
      (by intro ⟨i, v', n, ch, hh⟩; rw [hpc] at hh; cases hh)
  | retKeep a v x c hpc =>
    show CA (trk m (.ret a v x)) a _
    have h1 := ca_frame m (.ret a v x) a c h (by simp) (by simp) (by simp)
    exact ca_upd _ a c _ h1 rfl rfl rfl rfl rfl rfl rfl hok' (by simp) (by simp) (by simp) (by simp)
      (by intro ⟨i, v', n, ch, hh⟩; rw [hpc] at hh; cases hh)
  | cancel a c =>
    show CA (trk m (.cancelCall a)) a _
    have h1 := ca_frame m (.cancelCall a) a c h (by simp) (by simp) (by simp)
    exact
      { ops := h1.ops, opok := hok', canc := fun _ => List.mem_cons_self, view := h1.view, prom := h1.prom
        call := h1.call, exitw := h1.exitw, exitk := h1.exitk, count := h1.count, incb := h1.incb, idx := h1.idx }
  | goRel a c hg =>
    show CA m a _
    exact ca_upd m a c _ h rfl rfl rfl rfl rfl rfl rfl hok' h.call h.exitw h.exitk (fun _ => rfl) (fun _ => rfl)
  | goCb a c hg =>
    show CA (trk m (.cbinReleased a)) a _
    have h1 := ca_frame m (.cbinReleased a) a c h (by simp) (by simp) (by simp)
    exact ca_upd _ a c _ h1 rfl rfl rfl rfl rfl rfl rfl hok' h1.call h1.exitw h1.exitk (fun _ => rfl) (fun _ => rfl)

/-! ## the relation and its preservation -/

theorem cb_mem (b b' : St) (it : CbItem) (h : step b (.cb it) = some b') : it ∈ b.pend.flatten := by
  simp only [step] at h; split at h <;> try simp at h
  rename_i bt rest hpe
  rw [hpe]; simp; exact Or.inl h.1

theorem obs_inv (e : CEv) (a : Nat) (op : COp) (h : CEv.obs e = some (.inv a op)) : e = .inv a op := by
  cases e <;> simp [CEv.obs] at h
  case inv a' op' => rw [h.1, h.2]

theorem obs_cbin (e : CEv) (a i v : Nat) (h : CEv.obs e = some (.cbin a i v)) : e = .cbin a i v := by
  cases e <;> simp [CEv.obs] at h
  case cbin a' i' v' => rw [h.1, h.2.1, h.2.2]

theorem obs_cbout (e : CEv) (a i r : Nat) (h : CEv.obs e = some (.cbout a i r)) : e = .cbout a i r := by
  cases e <;> simp [CEv.obs] at h
  case cbout a' i' r' => rw [h.1, h.2.1, h.2.2]

theorem obs_ret (e : CEv) (a v x : Nat) (h : CEv.obs e = some (.ret a v x)) : e = .ret a v x := by
  cases e <;> simp [CEv.obs] at h
  case ret a' v' x' => rw [h.1, h.2.1, h.2.2]

theorem inv_new (s s' : CSt) (a a' : Nat) (op : COp) (hal : CAlign s) (hs : cstep s (.inv a' op) = some s') :
    a' = s.ct.length ∧ (∀ c', getCon s a = none → getCon s' a = some c' → a = a') := by
  simp only [cstep] at hs
  cases hst : step s.b (.invHook a') with
  | none => simp [hst] at hs
  | some b' =>
    simp [hst] at hs; subst hs
    simp only [step] at hst; split at hst <;> simp at hst
    rename_i hg
    have ha' : a' = s.ct.length := by rw [hal.1]; exact hg.2
    refine ⟨ha', ?_⟩
    intro c' h1 h2
    have hlt := getCon_lt _ a c' h2
    simp at hlt
    by_cases hl : a < s.ct.length
    · exfalso
      unfold getCon at h1 h2
      simp only at h2
      rw [List.getElem?_append_left hl] at h2
      rw [h1] at h2; cases h2
    · omega

theorem ct_length_mono (s s' : CSt) (e : CEv) (hs : cstep s e = some s') : s.ct.length ≤ s'.ct.length := by
  rcases cstep_base s s' e hs with ⟨be, _, _, hct, _⟩ | ⟨a0, op, _, _, hct⟩ | ⟨a0, _, _, hct, _⟩ | ⟨_, hct, _⟩ |
      ⟨a0, v, x, k, pc, live, flag, self, told, c0, _, _, _, _, hct⟩
  · rw [hct]; omega
  · rw [hct]; simp
  · omega
  · omega
  · omega

/-- entries of the per-call lists belong to existing consumer calls -/
def Fresh (s : CSt) (m : C10St) : Prop :=
  (∀ p ∈ m.accCur, p.1 < s.ct.length) ∧ (∀ p ∈ m.accCount, p.1 < s.ct.length)

def RA (s : CSt) (m : C10St) : Prop :=
  R0 s m ∧ Fresh s m ∧ ∀ (a : Nat) (c : Con), getCon s a = some c → CA m a c

theorem fresh_step (s : CSt) (e : CEv) (s' : CSt) (m : C10St) (h : Fresh s m) (hs : cstep s e = some s') :
    Fresh s' (after m e) := by
  have hmono := ct_length_mono s s' e hs
  unfold after
  cases hob : CEv.obs e with
  | none => exact ⟨fun p hp => Nat.lt_of_lt_of_le (h.1 p hp) hmono, fun p hp => Nat.lt_of_lt_of_le (h.2 p hp) hmono⟩
  | some o =>
    refine ⟨?_, ?_⟩
    · intro p hp
      rcases trk_accCur_back m o p hp with ⟨p0, hp0, g1, _⟩ | ⟨v, he, _⟩
      · rw [← g1]; exact Nat.lt_of_lt_of_le (h.1 p0 hp0) hmono
      · have he' := obs_cbin e _ _ _ (by rw [hob, he])
        subst he'
        simp only [cstep] at hs
        cases hc : getCon s p.1 with
        | none => simp [hc] at hs
        | some c => exact Nat.lt_of_lt_of_le (getCon_lt s _ c hc) hmono
    · intro p hp
      have old : p ∈ m.accCount → p.1 < s'.ct.length := fun hp0 => Nat.lt_of_lt_of_le (h.2 p hp0) hmono
      cases o with
      | base bo => cases bo <;> exact old hp
      | inv a op => exact old hp
      | cbin a i v =>
        simp only [trk, List.mem_cons, List.mem_filter] at hp
        rcases hp with rfl | hp
        · have he' := obs_cbin e _ _ _ hob
          subst he'
          simp only [cstep] at hs
          cases hc : getCon s a with
          | none => simp [hc] at hs
          | some c => exact Nat.lt_of_lt_of_le (getCon_lt s _ c hc) hmono
        · exact old hp.1
      | cbout a i r => exact old hp
      | ret a v x =>
        simp only [trk] at hp
        split at hp
        · exact old hp
        · split at hp <;> exact old hp
        · exact old hp
      | cancelCall a => exact old hp
      | cbinReleased a => exact old hp
      | probeCtx a i c => exact old hp
      | probeProm a _ _ _ => exact old hp

theorem ra_step (s : CSt) (e : CEv) (s' : CSt) (m : C10St) (h : RA s m) (hs : cstep s e = some s') :
    RA s' (after m e) := by
  obtain ⟨h0, hf, hcons⟩ := h
  refine ⟨r0_step s e s' m h0 hs, fresh_step s e s' m hf hs, ?_⟩
  have hres : ∀ a res v er, e = .base (.cb (.refcb a false res v er)) →
      (res = true → (v, er) ∈ m.resVals) ∧ (res = false → er = 0) := by
    intro a res v er he
    subst he
    have hs0 := hs
    simp only [cstep] at hs0
    cases hst : step s.b (.cb (.refcb a false res v er)) with
    | none => simp [hst] at hs0
    | some b' =>
      have hmem := cb_mem s.b b' _ hst
      obtain ⟨g1, g2⟩ := h0.2.item a false res v er hmem
      refine ⟨fun hr => ?_, fun hr => (g2 hr).2.2.1⟩
      obtain ⟨i, c, hh, _, hc, hcr⟩ := g1 hr
      exact h0.2.res i c v hh er hc hcr
  intro a c' hc'
  rcases (cstep_frame s s' e hs).1 a c' hc' with hun | ⟨c, hc, ht⟩ | ⟨hnone, a', op, he, hcn⟩
  · have hca := hcons a c' hun
    by_cases htgt : (∃ i v, e = .cbin a i v) ∨ (∃ i r, e = .cbout a i r)
    · have ht := own_trans s s' e a c' c' hs hun hc' (by
        rcases htgt with h1 | h1
        · exact Or.inl h1
        · exact Or.inr (Or.inl h1))
      exact ca_trans s e m a c' c' ht hca (hres a)
    · unfold after
      cases hob : CEv.obs e with
      | none => exact hca
      | some o =>
        refine ca_frame m o a c' hca ?_ ?_ ?_
        · intro op he
          have := obs_inv e a op (by rw [hob, he])
          subst this
          have := (inv_new s s' a a op h0.1 hs).1
          have hlt := getCon_lt s a c' hun
          omega
        · intro i v he
          exact htgt (Or.inl ⟨i, v, obs_cbin e a i v (by rw [hob, he])⟩)
        · intro i r he
          exact htgt (Or.inr ⟨i, r, obs_cbout e a i r (by rw [hob, he])⟩)
  · exact ca_trans s e m a c c' ht (hcons a c hc) (hres a)
  · subst he
    have haa := (inv_new s s' a a' op h0.1 hs).2 c' hnone hc'
    subst haa
    subst hcn
    show CA (trk m (.inv a op)) a { op := op }
    have hlen := (inv_new s s' a a op h0.1 hs).1
    exact
      { ops := by simp [trk, opOf, List.find?_cons]
        opok := ⟨fun _ => ⟨by simp, by simp⟩, fun _ => Or.inl rfl⟩
        canc := by simp
        view := by simp
        prom := by simp
        call := by simp
        exitw := by simp
        exitk := by simp
        count := by
          show countOf m.accCount a = 0
          have : m.accCount.find? (·.1 == a) = none := by
            rw [List.find?_eq_none]
            intro p hp hpa
            have := hf.2 p hp
            have hpa' : p.1 = a := by simpa using hpa
            omega
          simp [countOf, this]
        incb := by simp
        idx := by
          intro p hp hpa
          have hp' : p ∈ m.accCur := hp
          have := hf.1 p hp'
          omega }

/-! ## the check -/

theorem chkValue_ok (s : CSt) (e : CEv) (s' : CSt) (m : C10St) (o : CObs) (h : RA s m) (hs : cstep s e = some s')
    (hob : CEv.obs e = some o) : chkValue m o = true := by
  obtain ⟨h0, hf, hcons⟩ := h
  cases o with
  | base bo => rfl
  | inv a op => rfl
  | cancelCall a => rfl
  | cbinReleased a => rfl
  | probeCtx a i c => rfl
  | probeProm a _ _ _ => rfl
  | cbin a i v =>
    have he := obs_cbin e a i v hob; subst he
    simp only [cstep] at hs
    cases hc : getCon s a with
    | none => simp [hc] at hs
    | some c =>
      simp only [hc] at hs
      split at hs <;> try simp at hs
      rename_i v' n ch hpc
      obtain ⟨⟨rfl, rfl⟩, _⟩ := hs
      have hca := hcons a c hc
      have hacc : c.op = .access := access_of_pc c hca.opok (by rw [hpc]; trivial)
      have h1 : opOf m a = some .access := by rw [hca.ops, hacc]
      have h2 : (v, 0) ∈ m.resVals := hca.call v n ch (Or.inl hpc)
      have h3 : countOf m.accCount a = c.ncb := hca.count
      have h4 : m.accCur.any (·.1 == a) = false := by
        cases hany : m.accCur.any (·.1 == a)
        · rfl
        · rw [List.any_eq_true] at hany
          obtain ⟨p, hp, hpa⟩ := hany
          obtain ⟨v', n', ch', hh⟩ := hca.idx p hp (by simpa using hpa)
          rw [hpc] at hh; cases hh
      simp [chkValue, h1, h2, h3, h4]
  | cbout a i r =>
    have he := obs_cbout e a i r hob; subst he
    simp only [cstep] at hs
    cases hc : getCon s a with
    | none => simp [hc] at hs
    | some c =>
      simp only [hc] at hs
      split at hs <;> try simp at hs
      rename_i m' v n ch hpc
      obtain ⟨rfl, _⟩ := hs
      have hca := hcons a c hc
      obtain ⟨p, hp, hpa⟩ := hca.incb i v n ch hpc
      obtain ⟨v', n', ch', hh⟩ := hca.idx p hp hpa
      rw [hpc] at hh
      have hpi : p.2.1 = i := by cases hh; rfl
      show (m.accCur.find? (fun p => p.1 == a && p.2.1 == i)).isSome = true
      rw [List.find?_isSome]
      exact ⟨p, hp, by simp [hpa, hpi]⟩
  | ret a v x =>
    have he := obs_ret e a v x hob; subst he
    simp only [cstep] at hs
    cases hc : getCon s a with
    | none => simp [hc] at hs
    | some c =>
      have hca := hcons a c hc
      have hnoacc : ∀ i v' n ch, c.pc ≠ .incb i v' n ch → True := fun _ _ _ _ _ => trivial
      have noCur : (∀ i v' n ch, c.pc ≠ .incb i v' n ch) → m.accCur.any (·.1 == a) = false := by
        intro hne
        cases hany : m.accCur.any (·.1 == a)
        · rfl
        · rw [List.any_eq_true] at hany
          obtain ⟨p, hp, hpa⟩ := hany
          obtain ⟨v', n', ch', hh⟩ := hca.idx p hp (by simpa using hpa)
          exact absurd hh (hne _ _ _ _)
      simp only [hc] at hs
      show (match opOf m a with
        | some .access => !m.accCur.any (·.1 == a)
        | some _ => (x == 9 && m.cancelled.contains a) || m.resVals.contains (v, x)
        | none => false) = true
      rw [hca.ops]
      split at hs <;> try simp at hs
      · rename_i v' x' hpc
        obtain ⟨⟨rfl, rfl, _⟩, _⟩ := hs
        have hnc := noCur (by intro i v' n ch hh; rw [hpc] at hh; cases hh)
        cases hop : c.op with
        | access => simp [hnc]
        | _ =>
          rcases hca.exitw v x hpc (by rw [hop]; simp) with ⟨g1, g2⟩ | g <;> simp_all
      · rename_i v' x' hpc
        obtain ⟨⟨rfl, rfl⟩, _⟩ := hs
        have hnc := noCur (by intro i v' n ch hh; rw [hpc] at hh; cases hh)
        cases hop : c.op with
        | access => simp [hnc]
        | _ =>
          have := (hca.exitk v x hpc).1
          simp_all

theorem ra_init : RA ({} : CSt) ({} : C10St) := by
  refine ⟨⟨calign_init, ?_⟩, ⟨(by intro p hp; cases hp), (by intro p hp; cases hp)⟩, by intro a c h; simp [getCon] at h⟩
  exact
    { inv := init_inv, idx := idx_init, thi := thinv_nil
      pend := by intro i k ⟨b, hb, _⟩; simp at hb
      acct := by intro i; simp [relItems]
      val := by intro i c v hh e k hc; simp at hc
      rlast := by simp [RelLast]
      runs := by intro i hi; simp at hi
      ctx := by intro a c cl pc u ha; simp at ha
      just := by intro i k seen hm; simp at hm
      inval := by intro k hk; cases hk
      res := by intro i c v hh e hc; simp at hc
      zero := by intro i c hh k hc; simp at hc
      item := by intro r vis res v e hm; simp at hm
      seen := by intro k hk; cases hk
      any := by intro a c cl pc u ha; simp at ha }

/-- **C10 (observable form, `access_value_current`).** Every observable trace of the composed model is
accepted by `monC10Value`: the Access callback is entered only by an `Access` call, with a value that
some resolver returned without error, its entries are numbered and do not overlap, `Access` does not
return while its callback runs, and `Wait` / `Resolve` / `ResolveWithReleased` return `Canceled` to a
cancelled caller or a result that some resolver returned. -/
theorem c10_value_obs (es : List CEv) (s : CSt) (h : cmodel.run cmodel.init es = some s) :
    monC10Value.accepts (es.filterMap cmodel.obs) = true :=
  clause_sim chkValue RA ra_init ra_step chkValue_ok es s h

end UtilModel.RefCount.Cons
