import UtilModel.RefCount.Proofs
/-!
# refcount: `shutdown` and `startResolveLocked` preserve / re-establish the invariant
-/
set_option linter.unusedSimpArgs false
set_option linter.unusedVariables false
namespace UtilModel.RefCount
open UtilModel

theorem tellAll_get (th : List TS) (t : Option Nat) (a : Nat) :
    (tellAll th t)[a]? = (th[a]?).map (tell1 t) := by
  simp [tellAll]

theorem tellAll_live (th : List TS) (t : Option Nat) :
    (tellAll th t).countP TS.isLive = th.countP TS.isLive := by
  induction th with
  | nil => simp [tellAll]
  | cons x xs ih =>
    simp only [tellAll, List.map_cons, List.countP_cons] at ih ⊢
    rw [ih]
    congr 1
    cases x with
    | ref k pc live f sf told =>
      cases live <;> simp [TS.isLive, tell1]
      split <;> simp [TS.isLive]
    | rel r pc => simp [TS.isLive, tell1]
    | ctx c cl pc u => simp [TS.isLive, tell1]

theorem tellAll_told (th : List TS) (t : Option Nat) (a : Nat) (k : CbKind) (pc : Pc) (f sf : Bool)
    (t' : Option Nat) (h : (tellAll th t)[a]? = some (.ref k pc true f sf t')) (hk : k ≠ .nil) : t' = t := by
  rw [tellAll_get] at h
  cases hx : th[a]? with
  | none => simp [hx] at h
  | some x =>
    simp [hx] at h
    cases x with
    | ref k2 pc2 live f2 sf2 told =>
      cases live <;> simp [tell1] at h
      · split at h
        · simp at h; rename_i hk2; obtain ⟨rfl, _⟩ := h; exact absurd hk2 hk
        · simp at h; exact h.2.2.2.2.symm
    | rel r pc => simp [tell1] at h
    | ctx c cl pc u => simp [tell1] at h

@[simp] theorem liveRefs_shutdown (s : St) : liveRefs (shutdown s) = liveRefs s := by
  unfold liveRefs
  rw [shutdown_th]; split <;> simp [tellAll_live]

theorem mem_addBatch (p : List (List CbItem)) (x b : List CbItem) (h : b ∈ addBatch p x) :
    b ∈ p ∨ (b = x ∧ x ≠ []) := by
  unfold addBatch at h
  split at h
  · exact Or.inl h
  · rename_i hx
    simp at h
    rcases h with h | h
    · exact Or.inl h
    · right; refine ⟨h, ?_⟩; intro e; simp [e] at hx

theorem addBatch_ne (p : List (List CbItem)) (x : List CbItem) (h : ∀ b ∈ p, b ≠ []) :
    ∀ b ∈ addBatch p x, b ≠ [] := by
  intro b hb
  rcases mem_addBatch p x b hb with h1 | ⟨h1, h2⟩
  · exact h b h1
  · rw [h1]; exact h2

theorem shutdown_pendNE (s : St) (h : ∀ b ∈ s.pend, b ≠ []) : ∀ b ∈ (shutdown s).pend, b ≠ [] := by
  unfold shutdown clearResolved
  cases s.rcancel <;> cases s.rel <;> cases hres : s.resolved <;> simp [hres] <;>
    first
    | exact h
    | exact addBatch_ne _ _ h
    | exact addBatch_ne _ _ (addBatch_ne _ _ h)

/-- a stored current call: the facts `curSome` gives when `valueRel` is set -/
theorem rel_is_cur (s : St) (hc : Core s) (i : Nat) (hr : s.rel = some i) :
    ∃ c, s.calls[i]? = some c ∧ c.fin = true ∧ (∃ v e, c.res = some (v, true, e)) ∧ c.released = false ∧
      s.cur = some i := by
  cases hcur : s.cur with
  | none => have := (hc.curNone hcur).1; simp [hr] at this
  | some j =>
    obtain ⟨c, h, hcj, _, _, hfin, hres, hrel, hnr⟩ := hc.curSome j hcur
    cases h with
    | false => simp [hr] at hrel
    | true =>
      simp [hr] at hrel; subst hrel
      exact ⟨c, hcj, hfin, ⟨_, _, hres⟩, hnr rfl, rfl⟩

theorem cur_none_of_unresolved (s : St) (hc : Core s) (h : s.resolved = false) : s.cur = none := by
  have := hc.resCur; rw [h] at this
  cases hcur : s.cur with
  | none => rfl
  | some i => simp [hcur] at this


/-- facts about one call after `shutdown` -/
theorem shutdown_call (s : St) (j : Nat) (c' : Call) (h : (shutdown s).calls[j]? = some c') :
    ∃ c, s.calls[j]? = some c ∧ c' = updCall s j c := by
  rw [shutdown_calls] at h
  cases hc : s.calls[j]? with
  | none => simp [hc] at h
  | some c => simp [hc] at h; exact ⟨c, rfl, h.symm⟩

theorem shutdown_core (s : St) (hc : Core s) : Core (shutdown s) := by
  have hcur' : (shutdown s).cur = none := by
    rw [shutdown_cur]; split
    · rfl
    · rename_i h; exact cur_none_of_unresolved s hc (by simpa using h)
  refine ⟨?_, ?_, ?_, ?_, ?_, ?_, ?_, ?_, ?_, ?_, ?_, ?_, ?_, ?_, ?_, ?_, ?_, ?_, ?_, ?_, ?_⟩
  · intro h
    have ⟨h1, h2⟩ := hc.pre (by simpa using h)
    constructor
    · rw [shutdown_th, h1]; split <;> simp [tellAll]
    · have := shutdown_calls_length s; rw [h2] at this; simpa using this
  · refine chain_of_pointwise s (shutdown s) hc.chain (by simp) (shutdown_calls_length s) ?_
    intro j c' h
    obtain ⟨c, h1, h2⟩ := shutdown_call s j c' h
    exact ⟨c, h1, by simp [h2, updCall], by simp [h2, updCall]⟩
  · intro i c' h
    obtain ⟨c, h1, h2⟩ := shutdown_call s i c' h
    have := hc.nonceLe i c h1
    simp [h2, updCall]; omega
  · intro i j ci cj hi hj hij
    obtain ⟨c1, h1, e1⟩ := shutdown_call s i ci hi
    obtain ⟨c2, h2, e2⟩ := shutdown_call s j cj hj
    have := hc.nonceLt i j c1 c2 h1 h2 hij
    simp [e1, e2, updCall]; exact this
  · intro l; rw [shutdown_waitCh, shutdown_calls_length]; exact hc.lastCh l
  · rw [hcur']; simp
  · intro i h; rw [hcur'] at h; simp at h
  · intro _
    refine ⟨by simp, ?_, ?_⟩
    · rw [shutdown_value]; split
      · rfl
      · rename_i h; exact (hc.curNone (cur_none_of_unresolved s hc (by simpa using h))).2.1
    · rw [shutdown_verr]; split
      · rfl
      · rename_i h; exact (hc.curNone (cur_none_of_unresolved s hc (by simpa using h))).2.2
  · have hv := hc.tgtVal
    rw [shutdown_target, shutdown_value, shutdown_verr, shutdown_tgt]
    cases hres : s.resolved
    · have := hc.curNone (cur_none_of_unresolved s hc hres)
      simp [this.2.1, this.2.2] at hv ⊢; simp [hv]
    · simp; intro h; rw [hv]; split
      · rename_i h2
        cases hval : decide (s.value = 0) <;> simp at hval
        · have := h hval; simp [this] at h2
        · exact hval
      · rfl
  · have hv := hc.tgtErr
    rw [shutdown_targetErr, shutdown_verr, shutdown_tgtE]
    cases hres : s.resolved
    · have := hc.curNone (cur_none_of_unresolved s hc hres)
      simp [this.2.2] at hv ⊢; simp [hv]
    · simp; intro h; rw [hv]; split
      · rename_i h2
        cases hval : decide (s.verr = 0) <;> simp at hval
        · have := h hval; simp [this] at h2
        · exact hval
      · rfl
  · intro i c' h hr
    obtain ⟨c, h1, h2⟩ := shutdown_call s i c' h
    simp [h2, updCall] at hr ⊢
    rcases hr with hr | hr
    · exact hc.relFin i c h1 hr
    · obtain ⟨c2, g1, g2, g3, _, _⟩ := rel_is_cur s hc i hr
      rw [h1] at g1; cases g1; exact ⟨g2, g3⟩
  · intro i c' h hst
    obtain ⟨c, h1, h2⟩ := shutdown_call s i c' h
    simp [h2, updCall] at hst ⊢
    exact hc.storedFin i c h1 hst
  · intro i c' v e h hf hres hnr
    obtain ⟨c, h1, h2⟩ := shutdown_call s i c' h
    simp [h2, updCall] at hf hres hnr
    have := hc.noLeak i c v e h1 hf hres hnr.1
    exact absurd this hnr.2
  · intro i c' h
    obtain ⟨c, h1, h2⟩ := shutdown_call s i c' h
    simp [h2, updCall]; exact hc.finSt i c h1
  · intro i c' h
    obtain ⟨c, h1, h2⟩ := shutdown_call s i c' h
    simp [h2, updCall]; exact hc.resSt i c h1
  · intro a k pc f sf t h hk
    rw [hcur']
    rw [shutdown_th] at h
    split at h
    · exact tellAll_told _ _ a k pc f sf t h hk
    · rename_i hres
      rw [hc.told a k pc f sf t h hk]
      exact cur_none_of_unresolved s hc (by simpa using hres)
  · intro i h; simp at h
  · simp [hc.panicF]
  · exact shutdown_pendNE s hc.pendNE
  · intro i c' h hd
    obtain ⟨c, h1, h2⟩ := shutdown_call s i c' h
    simp [h2, updCall] at hd ⊢
    left; exact hc.deadC i c h1 (by simpa using hd)
  · intro i c' h hd
    obtain ⟨c, h1, h2⟩ := shutdown_call s i c' h
    simp [h2, updCall] at hd ⊢
    left; exact hc.drainC i c h1 hd

/-- after `shutdown` every existing call is stale -/
theorem shutdown_stale (s : St) (hc : Core s) (j : Nat) (c' : Call)
    (h : (shutdown s).calls[j]? = some c') : c'.nonce < (shutdown s).nonce := by
  obtain ⟨c, h1, h2⟩ := shutdown_call s j c' h
  have := hc.nonceLe j c h1
  simp [h2, updCall]; omega

theorem shutdown_live (s : St) (hc : Core s) (h0 : liveRefs s = 0 ∨ s.ctx = 0) : Live (shutdown s) := by
  refine ⟨?_, ?_, ?_⟩
  · intro i c h hn
    have := shutdown_stale s hc i c h; omega
  · intro h1 h2; simp at h1 h2; omega
  · intro h; simp at h


/-- the state after the spawn in `startResolveLocked` -/
def spawned (s1 : St) : St :=
  { s1 with calls := s1.calls ++ [newCall s1], waitCh := some s1.calls.length
            rcancel := some s1.calls.length }

theorem startResolve_eq (s : St) :
    startResolve s = if s.ctx = 0 ∨ liveRefs s = 0 then shutdown s else spawned (shutdown s) := by
  simp [startResolve, spawned]

theorem spawned_call (s1 : St) (j : Nat) (c : Call) (h : (spawned s1).calls[j]? = some c) :
    (j < s1.calls.length ∧ s1.calls[j]? = some c) ∨ (j = s1.calls.length ∧ c = newCall s1) := by
  exact getElem?_snoc_cases _ _ _ _ h

theorem spawned_core (s1 : St) (hc : Core s1) (hstale : ∀ (j : Nat) (c : Call), s1.calls[j]? = some c → c.nonce < s1.nonce)
    (hnr : s1.resolved = false) (hl : 0 < liveRefs s1) : Core (spawned s1) := by
  have hcur := cur_none_of_unresolved s1 hc hnr
  have hcfg : s1.cfgd = true := by
    cases h : s1.cfgd
    · have := (hc.pre h).1; simp [liveRefs, this] at hl
    · rfl
  refine ⟨?_, ?_, ?_, ?_, ?_, hc.resCur, ?_, hc.curNone, hc.tgtVal, hc.tgtErr, ?_, ?_, ?_, ?_, ?_, hc.told, ?_, hc.panicF, hc.pendNE, ?_, ?_⟩
  · intro h; simp [spawned, hcfg] at h
  · have h1 := Chain.inv_spawn (chainSlot s1) hc.chain
    refine chain_congr _ _ h1 (by simp [spawned, chainSlot, Chain.spawnSlot]) (by simp [spawned, chainSlot, Chain.spawnSlot]) ?_
    intro j x hx
    rw [chainSlot_get] at hx
    cases hcj : (spawned s1).calls[j]? with
    | none => simp [hcj] at hx
    | some c =>
      simp [hcj] at hx
      rcases spawned_call s1 j c hcj with ⟨hlt, h⟩ | ⟨hj, h⟩
      · refine ⟨c.ci, ?_, by rw [hx], by rw [hx]⟩
        rw [Chain.get_spawn]; simp only [chainSlot, List.length_map, hlt, if_true, List.getElem?_map, h]; rfl
      · refine ⟨Chain.newInst (chainSlot s1), ?_, ?_, ?_⟩
        · rw [Chain.get_spawn]; simp [chainSlot, hj]
        · rw [← hx, h]; simp [Chain.newInst, chainSlot, newCall]
        · rw [← hx, h]; simp [Chain.newInst, newCall]
  · intro i c h
    rcases spawned_call s1 i c h with ⟨_, h⟩ | ⟨_, h⟩
    · exact hc.nonceLe i c h
    · simp [h, newCall, spawned]
  · intro i j ci cj hi hj hij
    rcases spawned_call s1 j cj hj with ⟨hjl, hj'⟩ | ⟨hje, hj'⟩
    · rcases spawned_call s1 i ci hi with ⟨_, hi'⟩ | ⟨hie, _⟩
      · exact hc.nonceLt i j ci cj hi' hj' hij
      · omega
    · rcases spawned_call s1 i ci hi with ⟨_, hi'⟩ | ⟨hie, _⟩
      · have := hstale i ci hi'; simp [hj', newCall]; exact this
      · omega
  · intro l; simp [spawned]; omega
  · intro i h; simp [spawned, hcur] at h
  · intro i c h hr
    rcases spawned_call s1 i c h with ⟨_, h⟩ | ⟨_, h⟩
    · exact hc.relFin i c h hr
    · simp [h, newCall] at hr
  · intro i c h hr
    rcases spawned_call s1 i c h with ⟨_, h⟩ | ⟨_, h⟩
    · exact hc.storedFin i c h hr
    · simp [h, newCall] at hr
  · intro i c v e h hf hres hr
    rcases spawned_call s1 i c h with ⟨_, h⟩ | ⟨_, h⟩
    · exact hc.noLeak i c v e h hf hres hr
    · simp [h, newCall] at hf
  · intro i c h
    rcases spawned_call s1 i c h with ⟨_, h⟩ | ⟨_, h⟩
    · exact hc.finSt i c h
    · simp [h, newCall]
  · intro i c h hr
    rcases spawned_call s1 i c h with ⟨_, h⟩ | ⟨_, h⟩
    · exact hc.resSt i c h hr
    · simp [h, newCall] at hr
  · intro i h
    simp [spawned] at h; subst h
    exact ⟨newCall s1, by simp [spawned], by simp [newCall, spawned]⟩
  · intro i c h hd
    rcases spawned_call s1 i c h with ⟨_, h⟩ | ⟨_, h⟩
    · exact hc.deadC i c h hd
    · simp [h, newCall, spawned] at hd ⊢; exact hd
  · intro i c h hd
    rcases spawned_call s1 i c h with ⟨_, h⟩ | ⟨_, h⟩
    · exact hc.drainC i c h hd
    · simp [h, newCall] at hd

theorem spawned_live (s1 : St) (hc : Core s1) (hstale : ∀ (j : Nat) (c : Call), s1.calls[j]? = some c → c.nonce < s1.nonce)
    (hnr : s1.resolved = false) (hl : 0 < liveRefs s1) (hctx : s1.ctx ≠ 0) : Live (spawned s1) := by
  refine ⟨?_, ?_, ?_⟩
  · intro i c h hn
    rcases spawned_call s1 i c h with ⟨_, h⟩ | ⟨hi, hnew⟩
    · have := hstale i c h; simp [spawned] at hn; omega
    · subst hi
      refine ⟨by simp [hnew, newCall, spawned], by simpa [spawned] using hctx, by simp [spawned], ?_, ?_, ?_⟩
      · simp [hnew, newCall, spawned]
      · intro _; simpa [spawned, liveRefs] using hl
      · simp [hnew, newCall]
  · intro _ _
    right
    exact ⟨s1.calls.length, newCall s1, by simp [spawned], by simp [newCall, spawned]⟩
  · intro h; simp [spawned, hnr] at h

/-- `startResolveLocked` re-establishes the whole invariant from the context-free part -/
theorem startResolve_inv (s : St) (hc : Core s) : Inv (startResolve s) := by
  rw [startResolve_eq]
  have h1 := shutdown_core s hc
  split
  · rename_i h
    exact ⟨h1, shutdown_live s hc (by rcases h with h | h; exact Or.inr h; exact Or.inl h)⟩
  · rename_i h
    have hctx : s.ctx ≠ 0 := fun e => h (Or.inl e)
    have hl : 0 < liveRefs s := by
      rcases Nat.eq_zero_or_pos (liveRefs s) with e | e
      · exact absurd (Or.inr e) h
      · exact e
    exact ⟨spawned_core _ h1 (shutdown_stale s hc) (by simp) (by simpa using hl),
           spawned_live _ h1 (shutdown_stale s hc) (by simp) (by simpa using hl) (by simpa using hctx)⟩

end UtilModel.RefCount
